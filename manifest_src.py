"""Source of MANIFEST.json (run gen_manifest.py after editing)."""

TECH = "Lean 4 theorems over a hand-written executable model + differential correspondence (Rust harness vs compiled Lean driver) + spec oracle on the implementation's output"
NOTE_COMMON = ("Trusted: Lean 4.33 kernel; axioms limited to propext/Classical.choice/Quot.sound (audited per theorem on every run); "
               "the correspondence (harness, line protocol, compiled driver, check.py) ties the hand-written model to /repo's working tree. ")

CLAIMS = {
    "C13": {
        "category": "proof",
        "design_ref": "DESIGN.md §5 C13",
        "text": "Full: c13_exact proves, for every map, host, key list, starting binding and mode, that bind_all's result list contains exactly the maps derivable by the rules 'bound key left alone / unbound key gets one offered value accepted by bind, given the bindings so far / (incomplete mode) key without offer skipped'; c13_eq/c13_cons/c13_one_per_combination give the order and the one-result-per-combination count; c13_extends, c13_binds_all, c13_bound_left_alone, c13_incomplete_skip, c13_complete_discard are the remaining clauses. The model is compared with the real bind_all, result list for result list in order, on ~57k (quick) structured and random table-domain cases over both generic maps.",
        "note": NOTE_COMMON + "Modelled, not verified: the generic maps as association lists (their laws are C14).",
        "technique": TECH,
    },
    "C16": {
        "category": "proof",
        "design_ref": "DESIGN.md §5 C16",
        "text": "Full: c16_try_new_iff/_ok/_err and c16_triple (success iff argument count = arity, error carries both numbers), c16_resolve_ok + c16_sat_bound (verdict of the predicate on the bound values in argument order, exactly one invocation on exactly those values), c16_sat_unbound (first unbound key reported), c16_no_call (an error result implies an empty invocation log), c16_error_is_unbound, and totality of the built-in check functions at matching arity (string, matrix, table). The model is compared with the real Constraint API on 30k (quick) records including a recording predicate whose invocation log is part of the record.",
        "note": NOTE_COMMON + "PGPredicate's check is covered by the port-graph stages once claimed; the predicate closure is modelled as a pure function returning Option (none = panic).",
        "technique": TECH,
    },
    "C12": {
        "category": "proof",
        "design_ref": "DESIGN.md §5 C12, §4 F1",
        "text": "Full (after the fix: commit for F1): c12_missing / c12_all prove for every rank-acyclic scheme, every known set and every request list that the iterative DFS terminates and returns a duplicate-free list that is exactly the set Needed (requested keys and their transitive prerequisites reachable through unknown keys), every key after all of its own missing prerequisites; c12_*_any_fuel: the result does not depend on the fuel; c12_known; c12_check_sound/_complete: the Bool checker the driver evaluates on the implementation's own output is equivalent to the specification; c12_old_misorders: the pinned algorithm violated the property (F1). Correspondence: list-for-list agreement on all schemes with <=3 keys x all known sets x requests, 4-key acyclic schemes and random DAGs (77k records quick).",
        "note": NOTE_COMMON + "Needed treats a known key's prerequisites as satisfied (what the code does; equals the literal reading on prerequisite-closed known sets, DESIGN §5 C12). The FxHashSet arguments are modelled as lists (membership only).",
        "technique": TECH,
    },
    "C14": {
        "category": "proof",
        "design_ref": "DESIGN.md §5 C14, §4 S4",
        "text": "Full for the model of the four maps (42 theorems): get-after-bind, other keys unchanged, conflict/same-value, retain = filter, stability over ALL operation histories (induction over the op list: c14_generic_stable, c14_str_stable, c14_mat_stable), 'get never invents a binding' (c14_generic_only_bound), extent characterisations (c14_str_extent, c14_mat_extent), start-key rules, representation invariants preserved by every history (c14_str_len, c14_mat_inv_bind, c14_mat_get_no_panic), default retain_keys succeeds and preserves get on prerequisite-closed sets whenever the start key is iterated first, is order-independent among such orders, and PANICS for an order starting with a bound non-start key (c14_*_retain_bad_order). Partial by nature: whether hashbrown iterates the start key first is a runtime fact (S4); the check observes the real iteration order on every retain_keys call (600+400 closed key sets quick) and reports a panic on a closed set as a violation. Rejected bind leaves the map unchanged: the model returns the pre-state and the harness re-reads every probe key from the real map after a failed bind.",
        "note": NOTE_COMMON + "FxHashMap and BTreeMap share one association-list model (same code up to the container). retain_keys' key-set argument is modelled as the list in which the real set iterates (duplicates excluded by hypothesis order.count start <= 1).",
        "technique": TECH,
    },
    "C10": {
        "category": "proof",
        "design_ref": "DESIGN.md §5 C10",
        "text": "Full for every constructor in the model: c10_withChildren_reach/_labels (depth-one trees, shared children for equal constraints), c10_transitive_mutex / c10_pairwise_mutex (valid indices, first constraint present, faithful for ANY mutex relation and every truth assignment), c10_sort_perm / c10_sort_head_min / c10_sort_sorted (stable sort_with_indices: the head is the first minimum), c10_charTree + c10_charTree_total (string/matrix decomposition), c10_tTree_depth1, and for with_powerset: c10_powerset_terminates (2^(n+1) iterations), _valid, _smallest, _all_labels and c10_powerset_faithful (full iff, for every assignment satisfying the conditioning law), with the law itself proved for the table domain's conditioned() (c10_tCond_law) and the end-to-end c10_tTree_powerset. 22 theorems. The PGPredicate instance (pgTree, pg_condLaw) is stated once the port-graph model is in (partial until then: its trees are exercised by the correspondence only). Correspondence: node-for-node agreement of the real trees with the model on 20k (quick) records incl. all lists of <=3 not-in constraints over 4 other keys, and the reachLabel oracle on the implementation's tree for every truth assignment / 729 bindings.",
        "note": NOTE_COMMON + "Trees are read back through the public accessors (children, constraint_indices, n_nodes, make_det).",
        "technique": TECH,
    },
    "C15": {
        "category": "proof",
        "design_ref": "DESIGN.md §5 C15",
        "text": "Full for the model (33 theorems): c15_once (any history, any graphs, any scan orders: each node emitted at most once), c15_after_preds(_at) (a node is emitted only when live and all its current predecessors were emitted earlier), c15_exhaustive / c15_exhaustive_hist (under the admissibility clauses — acyclic, root the only unvisited source, no edge from unvisited into visited — exhaustion implies every live node was emitted), c15_terminates_bound (stack length + 1 passes under graph well-formedness), c15_fuel_mono, soundness of the Bool admissibility checker the driver uses (c15_isAcyclic_sound, c15_admState_sound), and WF/FreeOK of the StableGraph model as an inductive invariant of add_node/add_edge/remove_edge/remove_node (c15_wf_*, c15_freeOK_*). Correspondence: the real OnlineToposort on StableDiGraph, emitted node and ready stack compared after every call with the real hash scan order fed to the model; indices returned by add_node/add_edge compared with the graph model (16.5k histories quick, 9.2k admissible).",
        "note": NOTE_COMMON + "Clause (iv) 'identifiers never reused' is a hypothesis of the property that the builder itself can break (DESIGN S2); the driver flags index reuse and then only checks clauses 1-2. petgraph::StableGraph is modelled, not verified.",
        "technique": TECH,
    },
}

NOT_APPLICABLE = [
    {"property_id": p, "reason": "not yet claimed in this round: model / theorems / correspondence stage under construction (see DESIGN.md §7 build order); no technique switch intended"}
    for p in ["C01", "C02", "C03", "C04", "C05", "C06", "C07", "C08", "C09", "C11", "C17"]
]

NOTES = "See DESIGN.md. Every check re-checks its Lean theorems (lake build + #print axioms audit), rebuilds the harness against /repo's working tree, runs the correspondence for the stages in the property's cone and evaluates the property's executable oracle on the implementation's outputs."
