"""Source of MANIFEST.json (run gen_manifest.py after editing)."""

TECH = "Lean 4 theorems over a hand-written executable model + differential correspondence (Rust harness vs compiled Lean driver) + spec oracle on the implementation's output"
NOTE_COMMON = ("Trusted: Lean 4.33 kernel; axioms limited to propext/Classical.choice/Quot.sound (audited per theorem on every run); "
               "the correspondence (harness, line protocol, compiled driver, check.py) ties the hand-written model to /repo's working tree. ")

CLAIMS = {
    "C13": {
        "category": "proof",
        "design_ref": "DESIGN.md §5 C13",
        "text": "Full: c13_exact proves, for every map, host, key list, starting binding and mode, that bind_all's result list contains exactly the maps derivable by the rules 'bound key left alone / unbound key gets one offered value accepted by bind, given the bindings so far / (incomplete mode) key without offer skipped'; c13_eq/c13_cons/c13_one_per_combination give the order and the one-result-per-combination count; c13_extends, c13_binds_all, c13_bound_left_alone, c13_incomplete_skip, c13_complete_discard are the remaining clauses. The model is compared with the real bind_all, result list for result list in order, on ~57k (quick) structured and random table-domain cases over both generic maps.",
        "note": NOTE_COMMON + "Modelled, not verified: the generic maps as association lists (their laws are C14).",
        "technique": TECH,
    },
    "C16": {
        "category": "proof",
        "design_ref": "DESIGN.md §5 C16",
        "text": "Full: c16_try_new_iff/_ok/_err and c16_triple (success iff argument count = arity, error carries both numbers), c16_resolve_ok + c16_sat_bound (verdict of the predicate on the bound values in argument order, exactly one invocation on exactly those values), c16_sat_unbound (first unbound key reported), c16_no_call (an error result implies an empty invocation log), c16_error_is_unbound, and totality of the built-in check functions at matching arity (string, matrix, table). The model is compared with the real Constraint API on 30k (quick) records including a recording predicate whose invocation log is part of the record.",
        "note": NOTE_COMMON + "PGPredicate's check is covered by the port-graph stages once claimed; the predicate closure is modelled as a pure function returning Option (none = panic).",
        "technique": TECH,
    },
    "C12": {
        "category": "proof",
        "design_ref": "DESIGN.md §5 C12, §4 F1",
        "text": "Full (after the fix: commit for F1): c12_missing / c12_all prove for every rank-acyclic scheme, every known set and every request list that the iterative DFS terminates and returns a duplicate-free list that is exactly the set Needed (requested keys and their transitive prerequisites reachable through unknown keys), every key after all of its own missing prerequisites; c12_*_any_fuel: the result does not depend on the fuel; c12_known; c12_check_sound/_complete: the Bool checker the driver evaluates on the implementation's own output is equivalent to the specification; c12_old_misorders: the pinned algorithm violated the property (F1). Correspondence: list-for-list agreement on all schemes with <=3 keys x all known sets x requests, 4-key acyclic schemes and random DAGs (77k records quick).",
        "note": NOTE_COMMON + "Needed treats a known key's prerequisites as satisfied (what the code does; equals the literal reading on prerequisite-closed known sets, DESIGN §5 C12). The FxHashSet arguments are modelled as lists (membership only).",
        "technique": TECH,
    },
    "C14": {
        "category": "proof",
        "design_ref": "DESIGN.md §5 C14, §4 S4",
        "text": "Full for the model of the four maps (42 theorems): get-after-bind, other keys unchanged, conflict/same-value, retain = filter, stability over ALL operation histories (induction over the op list: c14_generic_stable, c14_str_stable, c14_mat_stable), 'get never invents a binding' (c14_generic_only_bound), extent characterisations (c14_str_extent, c14_mat_extent), start-key rules, representation invariants preserved by every history (c14_str_len, c14_mat_inv_bind, c14_mat_get_no_panic), default retain_keys succeeds and preserves get on prerequisite-closed sets whenever the start key is iterated first, is order-independent among such orders, and PANICS for an order starting with a bound non-start key (c14_*_retain_bad_order). Partial by nature: whether hashbrown iterates the start key first is a runtime fact (S4); the check observes the real iteration order on every retain_keys call (600+400 closed key sets quick) and reports a panic on a closed set as a violation. Rejected bind leaves the map unchanged: the model returns the pre-state and the harness re-reads every probe key from the real map after a failed bind.",
        "note": NOTE_COMMON + "FxHashMap and BTreeMap share one association-list model (same code up to the container). retain_keys' key-set argument is modelled as the list in which the real set iterates (duplicates excluded by hypothesis order.count start <= 1).",
        "technique": TECH,
    },
    "C10": {
        "category": "proof",
        "design_ref": "DESIGN.md §5 C10",
        "text": "Full for every constructor in the model: c10_withChildren_reach/_labels (depth-one trees, shared children for equal constraints), c10_transitive_mutex / c10_pairwise_mutex (valid indices, first constraint present, faithful for ANY mutex relation and every truth assignment), c10_sort_perm / c10_sort_head_min / c10_sort_sorted (stable sort_with_indices: the head is the first minimum), c10_charTree + c10_charTree_total (string/matrix decomposition), c10_tTree_depth1, and for with_powerset: c10_powerset_terminates (2^(n+1) iterations), _valid, _smallest, _all_labels and c10_powerset_faithful (full iff, for every assignment satisfying the conditioning law), with the law itself proved for the table domain's conditioned() (c10_tCond_law) and the end-to-end c10_tTree_powerset. 22 theorems. The PGPredicate instance (pgTree, pg_condLaw) is stated once the port-graph model is in (partial until then: its trees are exercised by the correspondence only). Correspondence: node-for-node agreement of the real trees with the model on 20k (quick) records incl. all lists of <=3 not-in constraints over 4 other keys, and the reachLabel oracle on the implementation's tree for every truth assignment / 729 bindings.",
        "note": NOTE_COMMON + "Trees are read back through the public accessors (children, constraint_indices, n_nodes, make_det).",
        "technique": TECH,
    },
    "C15": {
        "category": "proof",
        "design_ref": "DESIGN.md §5 C15",
        "text": "Full for the model (33 theorems): c15_once (any history, any graphs, any scan orders: each node emitted at most once), c15_after_preds(_at) (a node is emitted only when live and all its current predecessors were emitted earlier), c15_exhaustive / c15_exhaustive_hist (under the admissibility clauses — acyclic, root the only unvisited source, no edge from unvisited into visited — exhaustion implies every live node was emitted), c15_terminates_bound (stack length + 1 passes under graph well-formedness), c15_fuel_mono, soundness of the Bool admissibility checker the driver uses (c15_isAcyclic_sound, c15_admState_sound), and WF/FreeOK of the StableGraph model as an inductive invariant of add_node/add_edge/remove_edge/remove_node (c15_wf_*, c15_freeOK_*). Correspondence: the real OnlineToposort on StableDiGraph, emitted node and ready stack compared after every call with the real hash scan order fed to the model; indices returned by add_node/add_edge compared with the graph model (16.5k histories quick, 9.2k admissible).",
        "note": NOTE_COMMON + "Clause (iv) 'identifiers never reused' is a hypothesis of the property that the builder itself can break (DESIGN S2); the driver flags index reuse and then only checks clauses 1-2. petgraph::StableGraph is modelled, not verified.",
        "technique": TECH,
    },
    "C01": {
        "category": "proof",
        "design_ref": 'DESIGN.md §5 C01',
        "text": "FULL for strings and matrices up to a per-program decidable check; PARTIAL for port graphs. STRINGS: c01_c02_string_checked (Props/TRunStr.lean) proves, for every string pattern list, every event log (heuristic answers and hash orders), every fuel and EVERY host: the matcher reports (i, m) iff the i-th pattern is empty and m is the unbound map, or it occurs at some anchor a and m = bound a |p| — soundness, completeness and the match data in one iff — for every build that passes the decidable per-program condition strProgramOK (scope/key-list shapes; evaluated by the driver on the DUMP of every string automaton built: all of >20 000 pass). It composes T-BUILD (build_acc, all logs), the anchored traversal theorem trun_str (for ALL hosts: run = anchored acceptance, pruning lossless), T-DOM (tdom_str_sat_iff) and c06_ids_are_positions. Removing the per-program condition (strProgramOK for every built automaton) is in progress. MATRICES: the same end-to-end iff, c01_c02_matrix_checked (Props/TRunMat.lean): (i, m) is reported iff the i-th pattern occurs at some existing anchor cell (r,c) (occursMat: every literal and variable cell on an existing host character, ragged hosts included) and m is the bounding box of the pattern at (r,c) — for every event log, fuel and host, for builds passing the decidable matProgramOK (evaluated on every dumped matrix automaton; all of >15 000 pass). Its traversal half trun_mat needed the extra fact that an accepting path witnesses its recorded keys (trun_mat_needs_witness shows the naive statement is false for arbitrary programs because a bounding-box map answers for cells that do not exist); for built automata it is discharged by T-BUILD (trun_mat_built_witnessed). tdom_mat_old_unsound: the pinned matrix conversion violated C01 (F2, repaired). PORT GRAPHS: T-RUN-SOUND + T-BUILD + single-constraint semantics (tpg_connected_link, tpg_notequal); the composition is not proved. Decided per run for the automata actually built and the hosts generated by: exact replay of every build (model = code, state ids and edge ids included), model traversal on the dumped automaton, and the executable occurrence oracle evaluated on the implementation's own matches. Port graphs: the reported node map, read through the keys constraint_vec assigns, must be an injective link-preserving embedding (checked, not searched).",
        "note": NOTE_COMMON + "Hash-iteration order is an explicit, logged and replayed choice sequence; FxHasher in visit() is modelled as injective; usize as Nat.",
        "technique": TECH,
    },
    "C02": {
        "category": "proof",
        "design_ref": 'DESIGN.md §5 C02, §4 F3',
        "text": "FULL for strings and matrices up to a per-program decidable check; PARTIAL for port graphs. STRINGS: c01_c02_string_checked (Props/TRunStr.lean) proves, for every string pattern list, every event log (heuristic answers and hash orders), every fuel and EVERY host: the matcher reports (i, m) iff the i-th pattern is empty and m is the unbound map, or it occurs at some anchor a and m = bound a |p| — soundness, completeness and the match data in one iff — for every build that passes the decidable per-program condition strProgramOK (scope/key-list shapes; evaluated by the driver on the DUMP of every string automaton built: all of >20 000 pass). It composes T-BUILD (build_acc, all logs), the anchored traversal theorem trun_str (for ALL hosts: run = anchored acceptance, pruning lossless), T-DOM (tdom_str_sat_iff) and c06_ids_are_positions. Removing the per-program condition (strProgramOK for every built automaton) is in progress. MATRICES: as C01 — c01_c02_matrix_checked is an iff, so completeness is included (up to the per-program check matProgramOK). PORT GRAPHS: target c02_pg_target on the complement of the known-finding signature; decided by brute-force embedding search in Lean (independent of the indexing scheme); a miss counts as the known finding F3b only if the pattern carries the signature pg:multiRoot AND the model (which reproduces the pinned secondary-root search) misses the same occurrence; F3a was repaired (fix: commit). Decided per run for the automata actually built and the hosts generated by: exact replay of every build (model = code, state ids and edge ids included), model traversal on the dumped automaton, and the executable occurrence oracle evaluated on the implementation's own matches. ",
        "note": NOTE_COMMON + "Hash-iteration order is an explicit, logged and replayed choice sequence; FxHasher in visit() is modelled as injective; usize as Nat.",
        "technique": TECH,
    },
    "C03": {
        "category": "proof",
        "design_ref": 'DESIGN.md §5 C03, §4 F4',
        "text": "Builder half FULL: T-BUILD (Props/TBuild.lean build_acc, restated as c03_prop) proves for EVERY pattern list, EVERY event log (all hash-iteration orders and all heuristic answers at once) and every truth assignment under which the tree decomposition is faithful (c03_treeOK_char: every assignment for the string/matrix decomposition; table strategies 0-2 likewise; port graphs under the conditioning law, tpg_tree_faithful) that acceptance from the root of the built automaton, in the reading the traversal implements, is exactly 'some pattern with that id has all its constraints true' (7.2k lines; also build_detOK, build_ordersOK, build_acyclic; build_acc_unguarded_counterexample shows why the model carries the make_det guard; c03_guarded_is_real ties the guarded build to the lenient one that is replayed). Baseline half FULL: T-SINGLE (tsingle_eq/_exact/_mem/_sound/_complete, tnaive_ids). Traversal half: T-RUN-SOUND + BFS closure for every automaton (trun_sound, trun_closed); HOST LEVEL FULL for strings up to a per-program decidable check: c01_c02_string_checked (automaton = occurrences, all hosts, all logs; needs strProgramOK of the built automaton, evaluated on every dump) composed with c05_string (baseline = occurrences, exact list) gives automaton = baseline as sets with identical match data; the same for matrices (c01_c02_matrix_checked with c05_matrix); removing the per-program checks is in progress; port graphs and the table domain are decided by the oracle. Decided per run for the automata actually built and the hosts generated by: exact replay of every build (model = code, state ids and edge ids included), model traversal on the dumped automaton, and the executable occurrence oracle evaluated on the implementation's own matches. Four-way comparison per record: real ManyMatcher vs real NaiveManyMatcher (the C03 oracle, per pattern id, full match data) vs model traversal vs model baseline; string, matrix, port-graph and table domain (5 tree strategies). Builds on which the make_det guard fires (a constraint child already deterministic: ~1 in 5000 real builds) are outside T-BUILD: they are flagged and a window search (all hosts up to length 6 over the pattern alphabet) looks for a failing host. F4 was found by this check and repaired; known finding F5 (baseline ignores Pattern::required_bindings) is reported by signature.",
        "note": NOTE_COMMON + "Hash-iteration order is an explicit, logged and replayed choice sequence; FxHasher in visit() is modelled as injective; usize as Nat.",
        "technique": TECH,
    },
    "C04": {
        "category": "proof",
        "design_ref": 'DESIGN.md §5 C04',
        "text": "Propositional level FULL: c04_prop — two builds of the same patterns under ANY two event logs accept exactly the same pattern ids under every truth assignment (corollary of T-BUILD). Host level FULL for strings up to the per-program check: c04_string_checked — two builds of the same string patterns under any two event logs and fuels report the same SET of matches on every host (both builds passing strProgramOK, which the driver evaluates on every dump). Multiplicity (the 'not even their multiplicity' clause) needs C07 and is decided by the oracle. Matrices: c04_matrix_checked, same strength. Decided per run for the automata actually built and the hosts generated by: exact replay of every build (model = code, state ids and edge ids included), model traversal on the dumped automaton, and the executable occurrence oracle evaluated on the implementation's own matches. The check enumerates ALL 2^m answer strings when a build asks m <= 5 (quick) / 9 (thorough) questions, replays each build exactly and compares the match multisets (strings, matrices) resp. sets (table, port graphs) across all variants in Lean (HSUM records).",
        "note": NOTE_COMMON + "Hash-iteration order is an explicit, logged and replayed choice sequence; FxHasher in visit() is modelled as injective; usize as Nat.",
        "technique": TECH,
    },
    "C05": {
        "category": "proof",
        "design_ref": 'DESIGN.md §5 C05',
        "text": "Strings and matrices FULL (Props/C05.lean, 1.7k lines of proof): c05_string / c05_matrix — for fuel above an explicit bound, SinglePatternMatcher::find_matches returns EXACTLY the list [bound a |p| for a in occurrences of p in h] in increasing anchor order (the empty string pattern: one unbound map), one result per occurrence; c05_*_any_fuel (whenever the model returns, it returns that list), c05_*_match_exists (match_exists iff some occurrence), c05_*_keys (every constraint key is bound to an existing host position), c05_*_nodup; generic T-SINGLE for every domain (tsingle_*); c05_naive_ids/_total (NaiveManyMatcher numbers patterns by input position, duplicates included). Port graphs PARTIAL: single-constraint semantics (tpg_connected_link, tpg_notequal), soundness/completeness w.r.t. embeddings decided by the oracle (brute-force embedding search in Lean), misses inside the signature pg:multiRoot are known finding F3b; weighted port graphs are not exercised. Decided per run for the automata actually built and the hosts generated by: exact replay of every build (model = code, state ids and edge ids included), model traversal on the dumped automaton, and the executable occurrence oracle evaluated on the implementation's own matches. ",
        "note": NOTE_COMMON + "Hash-iteration order is an explicit, logged and replayed choice sequence; FxHasher in visit() is modelled as injective; usize as Nat.",
        "technique": TECH,
    },
    "C06": {
        "category": "proof",
        "design_ref": 'DESIGN.md §5 C06',
        "text": "Construction-level clauses FULL (Props/C06.lean): c06_ids_are_positions, c06_fail_iff, c06_skip_total, c06_get_pattern. Semantic clause FULL at the propositional level (c06_prop, c06_skipped_not_accepted: corollaries of T-BUILD) and at the host level for strings up to the per-program check: c06_string_checked — the matches labelled i depend only on the i-th pattern, whatever else is compiled with it, in whatever order, under whatever log. Matrices: c06_matrix_checked, same strength; port graphs by oracle. Decided per run for the automata actually built and the hosts generated by: exact replay of every build (model = code, state ids and edge ids included), model traversal on the dumped automaton, and the executable occurrence oracle evaluated on the implementation's own matches. Variants whole / alone / permuted / sub-multiset with duplicates are compared per original pattern in Lean (SSUM records); get_pattern must return the pattern at that input position; port-graph sets contain root-less (non-convertible) patterns under both fallback modes.",
        "note": NOTE_COMMON + "Hash-iteration order is an explicit, logged and replayed choice sequence; FxHasher in visit() is modelled as injective; usize as Nat.",
        "technique": TECH,
    },
    "C07": {
        "category": "proof",
        "design_ref": 'DESIGN.md §5 C07, §4 S1',
        "text": "PARTIAL towards c07_string_target. Proved (for any automaton and domain): trun_expanded — the visited list is duplicate-free, i.e. each (state, projection of the binding on scope and match keys) is expanded and has its accepted patterns emitted at most once, and the output is exactly the concatenation of these emissions; for strings trun_str gives the SET of reported matches exactly (so 'at least once' and 'only occurrences' are proved; what is missing is 'at most once', i.e. unambiguity of the built automaton: all accepting runs of a pattern for one anchor end in the same state — a builder statement that relies on deterministic siblings being mutually exclusive). Decided per run for the automata actually built and the hosts generated by: exact replay of every build (model = code, state ids and edge ids included), model traversal on the dumped automaton, and the executable occurrence oracle evaluated on the implementation's own matches. Exactly-once is checked as a multiset equality with the occurrence oracle on every string/matrix record, all heuristic kinds and all 2^m answer strings of C04's sweep (seeded change C07 — duplicates only under deterministic heuristics — is caught this way).",
        "note": NOTE_COMMON + "Hash-iteration order is an explicit, logged and replayed choice sequence; FxHasher in visit() is modelled as injective; usize as Nat.",
        "technique": TECH,
    },
    "C08": {
        "category": "proof",
        "design_ref": 'DESIGN.md §5 C08',
        "text": "PARTIAL: totality is proved function by function where the model is total or fuelled: c12_missing/c12_all (missing_bindings terminates on every acyclic scheme), c10_powerset_terminates (2^(n+1) iterations), c10_charTree_total and tdom_*_arity (conversion and decomposition never hit an unwrap/panic for arity-correct constraints, which try_to_constraint_vec always produces), c15_terminates_bound (online toposort), c16_*_check_total (predicates never panic at matching arity), c14_mat_get_no_panic / c14_*_retain (position maps under their invariants), c14_generic_run_total, trun_fuel_mono. Targets not reached: termination of finish for all pattern sets (needs the C09 global invariants) and the traversal's termination bound. Decided per run: every case of every stage runs under catch_unwind with overflow checks and debug assertions on; a panic of the implementation on a well-formed input is a C08 oracle failure, any panic the model does not predict is a disagreement.",
        "note": NOTE_COMMON + "Hash-iteration order is an explicit, logged and replayed choice sequence; FxHasher in visit() is modelled as injective; usize as Nat.",
        "technique": TECH,
    },
    "C11": {
        "category": "proof",
        "design_ref": 'DESIGN.md §5 C11',
        "text": "Specification half FULL for strings and matrices: c11_occursStr_self, c11_occursStr_extend (prefix and suffix of any length), c11_occursMat_self, c11_occursMat_extend_rows / _above / _right. The property itself is C01 o extend o C02, so it inherits their PARTIAL status; port-graph spec lemmas (embedsPG_self / _extend) are being proved (agent). Decided per run for the automata actually built and the hosts generated by: exact replay of every build (model = code, state ids and edge ids included), model traversal on the dumped automaton, and the executable occurrence oracle evaluated on the implementation's own matches. Metamorphic EXT records: chains of 1-5 extension steps, both matchers re-run on every host, every earlier (pattern, anchor) must be reported at the transported anchor later.",
        "note": NOTE_COMMON + "Hash-iteration order is an explicit, logged and replayed choice sequence; FxHasher in visit() is modelled as injective; usize as Nat.",
        "technique": TECH,
    },
    "C09": {
        "category": "proof",
        "design_ref": "DESIGN.md §5 C09, §4 S2/S3",
        "text": "Checker FULL: c09_wfCheck_sound / _complete / _iff (Props/C09.lean, 46 theorems) — the executable wfCheck is equivalent to the Prop-level Automaton.WF (rank function, Path-reachability from the root, at most one fallback, no self transition, the two orders list exactly the outgoing constraint / fallback transitions once, every compiled id accepted, prerequisite-ordered scopes and key lists, scope covers outgoing constraint keys), under graph well-formedness, which T-BUILD's invariant provides for every built automaton. For EVERY automaton the builder can produce (all pattern sets, logs, heuristics): clauses (a) acyclic (build_acyclic), (d)/(e) via build_ordersOK + Inv (no self loops, orders = live out-edges), (f) via build_accND, (h) c09_populateScopes_scopeCovers, and the recorded key lists of add_pattern are prerequisite-ordered (c09_addPattern_keys_ordered); their assembly into WF clauses is being finished (Props/C09Built.lean, agent). PARTIAL/targets: clauses (b) reachability, (c) at most one fallback and (g) scope order for all pattern sets — these are exactly where DESIGN's suspicions S2/S3 sit — are decided per build: wfCheck runs on the DUMP of every automaton any check builds, on all states.",
        "note": NOTE_COMMON + "The dump is tied to the model by exact replay; n_states() and dot_string() arrow count are cross-checked.",
        "technique": TECH,
    },
    "C17": {
        "category": "translation_validation",
        "design_ref": "DESIGN.md §5 C17",
        "text": "Partial by nature: a theorem cannot speak about address-space layout or hasher seeds. Three separate processes with different allocation history and environment must print byte-identical digests (number of states, hash of dot_string, hash of the event log = every hash-order choice of the builder, hash of the exact match sequence) for 450 (quick) cases; every matcher is also built twice in-process; the exact replay (stage e2e.str) shows that the logged choice points are the only inputs of a build besides patterns and heuristic answers, so reproducibility of the log is reproducibility of the automaton.",
        "note": "Trusted: the harness and check.py; FxHasher is unseeded (rustc-hash 1.1). Not examined: other machines, toolchains, or hashers.",
        "technique": "three-process digest comparison + exact replay of the event log in the Lean model",
    },
}

NOT_APPLICABLE = [
    {"property_id": p, "reason": "not yet claimed in this round: model / theorems / correspondence stage under construction (see DESIGN.md §7 build order); no technique switch intended"}
    for p in []
]

NOTES = "See DESIGN.md. Every check re-checks its Lean theorems (lake build + #print axioms audit), rebuilds the harness against /repo's working tree, runs the correspondence for the stages in the property's cone and evaluates the property's executable oracle on the implementation's outputs."
