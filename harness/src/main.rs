//! pm-harness: drives the real portmatching code in-process and prints one record per case
//! in the line protocol of DESIGN Appendix B. `pm-harness <stage> [--thorough]`, seed from
//! the environment variable VERIF_SEED (default 1).
mod con;
mod cross;
mod e2e;
mod focus;
mod hunt;
mod idx;
mod maps;
mod parse;
mod pg;
mod proto;
mod render;
mod rng;
mod table;
mod topo;
mod tree;

fn main() {
    let args: Vec<String> = std::env::args().collect();
    let stage = args.get(1).map(|s| s.as_str()).unwrap_or("");
    let thorough = args.iter().any(|a| a == "--thorough");
    let seed: u64 = std::env::var("VERIF_SEED")
        .ok()
        .and_then(|s| s.parse().ok())
        .unwrap_or(1);
    // panics are caught per case and reported in the record; keep stderr quiet
    std::panic::set_hook(Box::new(|_| {}));
    match stage {
        "idx.missing" => idx::run_missing(seed, thorough),
        "idx.bindall" => idx::run_bindall(seed, thorough),
        "con" => con::run(seed, thorough),
        "maps" => maps::run(seed, thorough),
        "tree" => tree::run(seed, thorough),
        "topo" => topo::run(seed, thorough),
        "e2e.str" => e2e::run_strings(seed, thorough, if thorough { 20000 } else { 1200 }),
        "e2e.mat" => e2e::run_matrices(seed, thorough, if thorough { 15000 } else { 900 }),
        "e2e.pg" => pg::run_e2e(seed, thorough, if thorough { 12000 } else { 700 }),
        "pg.stages" => {
            pg::run_stages(seed, thorough);
            pg::run_tree_families(seed, thorough)
        }
        "pg.families" => pg::run_tree_families(seed, thorough),
        "parse" => parse::run(seed, thorough),
        "render" => render::run(seed, thorough),
        "cross.heur" => cross::run_heur(seed, thorough),
        "cross.sets" => cross::run_sets(seed, thorough),
        "cross.ext" => cross::run_ext(seed, thorough),
        "cross.ext.pg" => cross::run_ext_pg(seed, thorough),
        "cross.repro" => cross::run_repro(seed, thorough, args.iter().any(|a| a == "--warmup")),
        "hunt" => hunt::run(seed, thorough),
        "rerun" => focus::rerun(args.get(2).map(|s| s.as_str()).unwrap_or("")),
        "focus" => focus::run(args.get(2).map(|s| s.as_str()).unwrap_or(""), seed, thorough),
        "e2e.table" => e2e::run_table(seed, thorough, if thorough { 20000 } else { 1200 }),
        _ => {
            eprintln!("unknown stage {stage}");
            std::process::exit(2);
        }
    }
}
