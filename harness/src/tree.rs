//! Stage TREE: the built-in decompositions and the helper constructors, read back node for
//! node through the public accessors.
use crate::proto::Line;
use crate::rng::Rng;
use crate::table::{set_strategy, TCons, TPred};
use portmatching::matrix::MatrixPatternPosition;
use portmatching::string::{CharacterPredicate, StringPatternPosition};
use portmatching::{Constraint, ConstraintTree, ToConstraintsTree};

pub fn enc_tree<C>(l: &mut Line, t: &ConstraintTree<C>, enc_c: impl Fn(&mut Line, &C)) {
    l.tok(t.make_det as usize);
    l.tok(t.n_nodes());
    for n in 0..t.n_nodes() {
        l.nats(t.constraint_indices(n));
        let ch: Vec<(usize, &C)> = t.children(n).collect();
        l.list(&ch, |l, (idx, c)| {
            enc_c(l, c);
            l.tok(idx);
        });
    }
}

pub fn enc_tcons(l: &mut Line, c: &TCons) {
    c.predicate().encode(l);
    l.nats(c.required_bindings());
}

pub fn enc_charpred(l: &mut Line, p: &CharacterPredicate) {
    match p {
        CharacterPredicate::BindingEq => l.tok(0),
        CharacterPredicate::ConstVal(c) => l.tok(1).tok(*c as u32),
    };
}

pub fn enc_scons(l: &mut Line, c: &Constraint<StringPatternPosition, CharacterPredicate>) {
    enc_charpred(l, c.predicate());
    let ks: Vec<usize> = c.required_bindings().iter().map(|&k| k.into()).collect();
    l.nats(&ks);
}

pub fn enc_mcons(l: &mut Line, c: &Constraint<MatrixPatternPosition, CharacterPredicate>) {
    enc_charpred(l, c.predicate());
    let ks: Vec<(isize, isize)> = c.required_bindings().iter().map(|&k| k.into()).collect();
    l.list(&ks, |l, (r, c)| {
        l.tok(r).tok(c);
    });
}

fn random_charpred(rng: &mut Rng) -> CharacterPredicate {
    if rng.chance(1, 3) {
        CharacterPredicate::BindingEq
    } else {
        CharacterPredicate::ConstVal(*rng.pick(&['a', 'b', 'c']))
    }
}

pub fn random_tcons(rng: &mut Rng, nkeys: usize) -> TCons {
    let p = match rng.below(8) {
        0 => TPred::Eq,
        1 => TPred::Ne,
        2 => TPred::Lt,
        3 | 4 => TPred::Const(rng.below(3)),
        5 => TPred::True(rng.below(3)),
        _ => TPred::NotIn(rng.range(0, 3)),
    };
    use portmatching::ArityPredicate;
    let mut args: Vec<usize> = (0..p.arity()).map(|_| rng.below(nkeys)).collect();
    if let TPred::NotIn(_) = p {
        // other keys distinct from the first (as in the port graph use)
        let first = args[0];
        for a in args.iter_mut().skip(1) {
            if *a == first {
                *a = (first + 1) % nkeys;
            }
        }
    }
    Constraint::try_new(p, args).unwrap()
}

pub fn run(seed: u64, thorough: bool) {
    let mut rng = Rng::new(seed, "tree");
    let n = if thorough { 40000 } else { 4000 };
    // string / matrix decompositions
    for _ in 0..n {
        let len = rng.range(0, 6);
        let cs: Vec<_> = (0..len)
            .map(|_| {
                let p = random_charpred(&mut rng);
                let args = match p {
                    CharacterPredicate::BindingEq => vec![rng.below(5), rng.below(5)],
                    _ => vec![rng.below(5)],
                };
                Constraint::try_new(p, args.into_iter().map(StringPatternPosition::from).collect())
                    .unwrap()
            })
            .collect();
        let mut l = Line::new("TRS");
        l.list(&cs, |l, c| enc_scons(l, c));
        l.arrow();
        let t = CharacterPredicate::to_constraints_tree(cs);
        enc_tree(&mut l, &t, enc_scons);
        l.emit();
    }
    for _ in 0..n / 2 {
        let len = rng.range(0, 6);
        let cs: Vec<_> = (0..len)
            .map(|_| {
                let p = random_charpred(&mut rng);
                let mut key = || (rng.below(3) as isize - 1, rng.below(3) as isize - 1);
                let args = match p {
                    CharacterPredicate::BindingEq => vec![key(), key()],
                    _ => vec![key()],
                };
                Constraint::try_new(p, args.into_iter().map(MatrixPatternPosition::from).collect())
                    .unwrap()
            })
            .collect();
        let mut l = Line::new("TRM");
        l.list(&cs, |l, c| enc_mcons(l, c));
        l.arrow();
        let t = CharacterPredicate::to_constraints_tree(cs);
        enc_tree(&mut l, &t, enc_mcons);
        l.emit();
    }
    // helper constructors with arbitrary (also non-transitive) mutex relations, given as a
    // table over first positions of the constraints in the input list
    for _ in 0..n {
        let len = rng.range(0, 6);
        let cs: Vec<TCons> = (0..len).map(|_| random_tcons(&mut rng, 4)).collect();
        let rel: Vec<Vec<bool>> = (0..len)
            .map(|_| (0..len).map(|_| rng.chance(1, 2)).collect())
            .collect();
        let pos = |c: &TCons| cs.iter().position(|x| x == c).unwrap();
        let is_mutex = |a: &TCons, b: &TCons| rel[pos(a)][pos(b)];
        let indexed: Vec<(TCons, usize)> = cs.iter().cloned().enumerate().map(|(i, c)| (c, i)).collect();
        for kind in 0..2 {
            let mut l = Line::new("TRH");
            l.tok(kind);
            l.list(&cs, |l, c| enc_tcons(l, c));
            l.list(&rel, |l, row| {
                l.list(row, |l, b| {
                    l.tok(*b as usize);
                });
            });
            l.arrow();
            let t = if kind == 0 {
                ConstraintTree::with_transitive_mutex(indexed.clone(), is_mutex)
            } else {
                ConstraintTree::with_pairwise_mutex(indexed.clone(), is_mutex)
            };
            enc_tree(&mut l, &t, enc_tcons);
            l.emit();
        }
    }
    // the table domain's own strategies (mirrored in Lean), incl. powerset with conditioning
    for _ in 0..n {
        let len = rng.range(0, 5);
        let strategy = rng.below(6);
        let cs: Vec<TCons> = if strategy == 3 && rng.chance(2, 3) {
            // families of not-in sets over one first key (and always-true constraints)
            let first = rng.below(2);
            (0..len)
                .map(|_| {
                    if rng.chance(1, 6) {
                        Constraint::try_new(TPred::True(0), vec![]).unwrap()
                    } else {
                        let others: Vec<usize> =
                            (2..6).filter(|_| rng.chance(1, 2)).collect();
                        let mut args = vec![first];
                        args.extend(others.iter());
                        Constraint::try_new(TPred::NotIn(others.len()), args).unwrap()
                    }
                })
                .collect()
        } else {
            (0..len).map(|_| random_tcons(&mut rng, 4)).collect()
        };
        set_strategy(strategy);
        let mut l = Line::new("TRT");
        l.tok(strategy);
        l.list(&cs, |l, c| enc_tcons(l, c));
        l.arrow();
        let t = TPred::to_constraints_tree(cs);
        enc_tree(&mut l, &t, enc_tcons);
        l.emit();
    }
    // exhaustive: all lists of <= 3 not-in constraints over first key 0 and others within {1,2,3,4}
    let sets: Vec<Vec<usize>> = (1..16usize)
        .map(|m| (0..4).filter(|i| m >> i & 1 == 1).map(|i| i + 1).collect())
        .collect();
    let mk = |s: &Vec<usize>| {
        let mut args = vec![0];
        args.extend(s.iter());
        Constraint::try_new(TPred::NotIn(s.len()), args).unwrap()
    };
    set_strategy(3);
    let emit = |cs: Vec<TCons>| {
        let mut l = Line::new("TRT");
        l.tok(3);
        l.list(&cs, |l, c| enc_tcons(l, c));
        l.arrow();
        let t = TPred::to_constraints_tree(cs);
        enc_tree(&mut l, &t, enc_tcons);
        l.emit();
    };
    for a in &sets {
        emit(vec![mk(a)]);
        for b in &sets {
            emit(vec![mk(a), mk(b)]);
            if thorough || (a.len() + b.len()) % 2 == 0 {
                for c in &sets {
                    emit(vec![mk(a), mk(b), mk(c)]);
                }
            }
        }
    }
}
