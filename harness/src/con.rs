//! Stage CON: `Constraint::try_new`, `try_binary_from_triple`, `is_satisfied` with the
//! recording predicate of the table domain and with the built-in predicate families.
use crate::idx::enc_pairs;
use crate::proto::{catch, Line};
use crate::rng::Rng;
use crate::table::{take_calls, THost, TPred};
use portmatching::constraint::InvalidConstraint;
use portmatching::matrix::{MatrixPatternPosition, MatrixPositionMap, MatrixString, MatrixSubjectPosition};
use portmatching::string::{CharacterPredicate, StringPatternPosition, StringPositionMap, StringSubjectPosition};
use portmatching::{BindMap, Constraint};
use rustc_hash::FxHashMap;

type HM = FxHashMap<usize, usize>;

fn enc_trynew<K, P>(l: &mut Line, r: &Result<Constraint<K, P>, InvalidConstraint>) {
    match r {
        Ok(_) => {
            l.tok("ok");
        }
        Err(InvalidConstraint::InvalidArity {
            predicate_arity,
            arguments_arity,
        }) => {
            l.tok("E").tok(predicate_arity).tok(arguments_arity);
        }
        Err(_) => {
            l.tok("E?");
        }
    }
}

fn table_case(pred: TPred, args: &[usize], map: &[(usize, usize)]) {
    let mut l = Line::new("CS");
    pred.encode(&mut l);
    l.nats(args);
    enc_pairs(&mut l, map);
    l.arrow();
    let c = Constraint::try_new(pred, args.to_vec());
    enc_trynew(&mut l, &c);
    if args.len() == 2 {
        let t = Constraint::try_binary_from_triple(args[0], pred, args[1]);
        l.tok("tri");
        enc_trynew(&mut l, &t);
    } else {
        l.tok("notri");
    }
    if let Ok(c) = c {
        let host = THost::<HM>::new(false, vec![]);
        let m: HM = map.iter().copied().collect();
        take_calls();
        let r = catch(|| c.is_satisfied(&host, &m));
        let calls = take_calls();
        match r {
            Ok(Ok(b)) => {
                l.tok(if b { "T" } else { "F" });
            }
            Ok(Err(InvalidConstraint::UnboundVariable(s))) => {
                l.tok("U").tok(s);
            }
            Ok(Err(_)) => {
                l.tok("E?");
            }
            Err(_) => {
                l.tok("P");
            }
        }
        l.list(&calls, |l, c| {
            l.nats(c);
        });
    }
    l.emit();
}

fn lists_upto(n: usize, len: usize) -> Vec<Vec<usize>> {
    let mut out = vec![vec![]];
    let mut frontier: Vec<Vec<usize>> = vec![vec![]];
    for _ in 0..len {
        let mut next = vec![];
        for l in &frontier {
            for k in 0..n {
                let mut l2 = l.clone();
                l2.push(k);
                next.push(l2);
            }
        }
        out.extend(next.iter().cloned());
        frontier = next;
    }
    out
}

fn str_map(start: Option<(usize, usize)>) -> StringPositionMap {
    let mut m = StringPositionMap::default();
    if let Some((s, len)) = start {
        m.bind(StringPatternPosition::from(0), StringSubjectPosition::from(s)).unwrap();
        if len > 1 {
            m.bind(StringPatternPosition::from(len - 1), StringSubjectPosition::from(0)).unwrap();
        }
    }
    m
}

fn enc_charpred(l: &mut Line, p: &CharacterPredicate) {
    match p {
        CharacterPredicate::BindingEq => l.tok(0),
        CharacterPredicate::ConstVal(c) => l.tok(1).tok(*c as u32),
    };
}

fn parse_str_key(s: &str) -> usize {
    s.trim_start_matches("char@").parse().unwrap()
}

fn string_case(pred: CharacterPredicate, args: &[usize], host: &str, map: Option<(usize, usize)>) {
    let mut l = Line::new("CSS");
    enc_charpred(&mut l, &pred);
    l.nats(args);
    let chars: Vec<usize> = host.chars().map(|c| c as usize).collect();
    l.nats(&chars);
    l.opt(&map, |l, (s, n)| {
        l.tok(s).tok(n);
    });
    l.arrow();
    let c = Constraint::try_new(pred, args.iter().map(|&a| StringPatternPosition::from(a)).collect());
    enc_trynew(&mut l, &c);
    if let Ok(c) = c {
        let m = str_map(map);
        let h = host.to_string();
        match catch(|| c.is_satisfied(&h, &m)) {
            Ok(Ok(b)) => {
                l.tok(if b { "T" } else { "F" });
            }
            Ok(Err(InvalidConstraint::UnboundVariable(s))) => {
                l.tok("U").tok(parse_str_key(&s));
            }
            Ok(Err(_)) => {
                l.tok("E?");
            }
            Err(_) => {
                l.tok("P");
            }
        }
    }
    l.emit();
}

pub fn enc_rows(l: &mut Line, rows: &[Vec<char>]) {
    l.list(rows, |l, r| {
        let cs: Vec<usize> = r.iter().map(|c| *c as usize).collect();
        l.nats(&cs);
    });
}

/// A matrix map bound at `start` whose box has been grown to `lo..=hi` (through `bind`).
pub fn mat_map(b: Option<((usize, usize), (isize, isize), (isize, isize))>) -> MatrixPositionMap {
    let mut m = MatrixPositionMap::default();
    if let Some((start, lo, hi)) = b {
        m.bind(MatrixPatternPosition::from((0, 0)), MatrixSubjectPosition::from(start)).unwrap();
        if lo != (0, 0) {
            m.bind(MatrixPatternPosition::from(lo), MatrixSubjectPosition::from((0, 0))).unwrap();
        }
        if hi != (0, 0) {
            m.bind(MatrixPatternPosition::from(hi), MatrixSubjectPosition::from((0, 0))).unwrap();
        }
    }
    m
}

pub fn enc_mat_map(l: &mut Line, b: &Option<((usize, usize), (isize, isize), (isize, isize))>) {
    l.opt(b, |l, (s, lo, hi)| {
        l.tok(s.0).tok(s.1).tok(lo.0).tok(lo.1).tok(hi.0).tok(hi.1);
    });
}

fn parse_mat_key(s: &str) -> (isize, isize) {
    let t = s.trim_start_matches("char@(").trim_end_matches(')');
    let mut it = t.split(',').map(|x| x.trim().parse::<isize>().unwrap());
    (it.next().unwrap(), it.next().unwrap())
}

fn matrix_case(
    pred: CharacterPredicate,
    args: &[(isize, isize)],
    rows: &[Vec<char>],
    map: Option<((usize, usize), (isize, isize), (isize, isize))>,
) {
    let mut l = Line::new("CSM");
    enc_charpred(&mut l, &pred);
    l.list(args, |l, (r, c)| {
        l.tok(r).tok(c);
    });
    enc_rows(&mut l, rows);
    enc_mat_map(&mut l, &map);
    l.arrow();
    let c = Constraint::try_new(pred, args.iter().map(|&a| MatrixPatternPosition::from(a)).collect());
    enc_trynew(&mut l, &c);
    if let Ok(c) = c {
        let m = mat_map(map);
        let h = MatrixString { rows: rows.to_vec() };
        match catch(|| c.is_satisfied(&h, &m)) {
            Ok(Ok(b)) => {
                l.tok(if b { "T" } else { "F" });
            }
            Ok(Err(InvalidConstraint::UnboundVariable(s))) => {
                let k = parse_mat_key(&s);
                l.tok("U").tok(k.0).tok(k.1);
            }
            Ok(Err(_)) => {
                l.tok("E?");
            }
            Err(_) => {
                l.tok("P");
            }
        }
    }
    l.emit();
}

pub fn run(seed: u64, thorough: bool) {
    let mut rng = Rng::new(seed, "con");
    let preds = [
        TPred::Eq,
        TPred::Ne,
        TPred::Lt,
        TPred::Const(1),
        TPred::True(0),
        TPred::True(1),
        TPred::True(2),
        TPred::True(3),
        TPred::True(4),
    ];
    let nkeys = if thorough { 4 } else { 3 };
    let maxlen = if thorough { 4 } else { 3 };
    // all partial bindings of the keys over values {0,1}
    let mut maps: Vec<Vec<(usize, usize)>> = vec![vec![]];
    for k in 0..nkeys {
        let mut next = vec![];
        for m in &maps {
            for v in 0..3usize {
                let mut m2 = m.clone();
                if v > 0 {
                    m2.push((k, v - 1));
                }
                next.push(m2);
            }
        }
        maps = next;
    }
    for p in preds {
        for args in lists_upto(nkeys, maxlen) {
            for m in &maps {
                table_case(p, &args, m);
            }
        }
    }
    // built-in families
    let hosts = ["", "a", "ab", "aab", "héé", "a\u{10348}a\u{10348}", "abcabc"];
    let cpreds = [
        CharacterPredicate::BindingEq,
        CharacterPredicate::ConstVal('a'),
        CharacterPredicate::ConstVal('é'),
        CharacterPredicate::ConstVal('\u{10348}'),
    ];
    for host in hosts {
        for p in cpreds {
            for args in lists_upto(4, 3) {
                for map in [None, Some((0, 1)), Some((1, 2)), Some((0, 4)), Some((2, 3)), Some((5, 2))] {
                    string_case(p, &args, host, map);
                }
            }
        }
    }
    let mhosts: Vec<Vec<Vec<char>>> = vec![
        vec![],
        vec![vec![]],
        vec![vec!['a']],
        vec![vec!['a', 'b'], vec!['a']],
        vec![vec![], vec!['a', 'a', 'é']],
        vec![vec!['a', 'b', 'a'], vec!['b', 'a', 'b'], vec!['a']],
    ];
    let mkeys = [(0isize, 0isize), (0, 1), (1, 0), (1, 1), (2, 0), (-1, 0), (0, -1)];
    let n = if thorough { 60000 } else { 6000 };
    for _ in 0..n {
        let rows = rng.pick(&mhosts).clone();
        let p = *rng.pick(&cpreds);
        let na = rng.below(4);
        let args: Vec<(isize, isize)> = (0..na).map(|_| *rng.pick(&mkeys)).collect();
        let map = if rng.chance(1, 5) {
            None
        } else {
            let start = (rng.below(3), rng.below(3));
            let lo = (-(rng.below(2).min(start.0) as isize), -(rng.below(2).min(start.1) as isize));
            let hi = (rng.below(3) as isize, rng.below(3) as isize);
            Some((start, lo, hi))
        };
        matrix_case(p, &args, &rows, map);
    }
}
