//! Stage IDX: `missing_bindings`, `all_missing_bindings`, `bind_all` on the table domain
//! (and `bind_all` on strings / matrices through the position maps).
use crate::proto::{catch, Line};
use crate::rng::Rng;
use crate::table::{set_req, Rule, THost, TScheme};
use portmatching::{BindMap, IndexedData, IndexingScheme};
use rustc_hash::{FxHashMap, FxHashSet};
use std::collections::BTreeMap;

pub trait PairMap: BindMap<Key = usize, Value = usize> {
    const KIND: usize;
    fn from_pairs(p: &[(usize, usize)]) -> Self;
    fn to_pairs(&self) -> Vec<(usize, usize)>;
}
impl PairMap for FxHashMap<usize, usize> {
    const KIND: usize = 0;
    fn from_pairs(p: &[(usize, usize)]) -> Self {
        p.iter().copied().collect()
    }
    fn to_pairs(&self) -> Vec<(usize, usize)> {
        let mut v: Vec<_> = self.iter().map(|(a, b)| (*a, *b)).collect();
        v.sort();
        v
    }
}
impl PairMap for BTreeMap<usize, usize> {
    const KIND: usize = 1;
    fn from_pairs(p: &[(usize, usize)]) -> Self {
        p.iter().copied().collect()
    }
    fn to_pairs(&self) -> Vec<(usize, usize)> {
        self.iter().map(|(a, b)| (*a, *b)).collect()
    }
}

pub fn enc_scheme(l: &mut Line, req: &[Vec<usize>]) {
    l.list(req, |l, r| {
        l.nats(r);
    });
}

pub fn enc_pairs(l: &mut Line, p: &[(usize, usize)]) {
    l.list(p, |l, (k, v)| {
        l.tok(k).tok(v);
    });
}

fn emit_mb1(req: &[Vec<usize>], known: &[usize], key: usize) {
    set_req(req);
    let scheme = TScheme::<FxHashMap<usize, usize>>::default();
    let known_set: FxHashSet<usize> = known.iter().copied().collect();
    let res = catch(|| scheme.missing_bindings(&key, &known_set));
    let mut l = Line::new("MB1");
    enc_scheme(&mut l, req);
    l.nats(known).tok(key).arrow();
    match res {
        Ok(v) => {
            l.tok("ok").nats(&v);
        }
        Err(t) => {
            l.tok("P").tok(t);
        }
    }
    l.emit();
}

fn emit_mba(req: &[Vec<usize>], keys: &[usize], known: &[usize]) {
    set_req(req);
    let scheme = TScheme::<FxHashMap<usize, usize>>::default();
    let res = catch(|| scheme.all_missing_bindings(keys.iter().copied(), known.iter().copied()));
    let mut l = Line::new("MBA");
    enc_scheme(&mut l, req);
    l.nats(keys).nats(known).arrow();
    match res {
        Ok(v) => {
            l.tok("ok").nats(&v);
        }
        Err(t) => {
            l.tok("P").tok(t);
        }
    }
    l.emit();
}

/// all ordered lists without repetition over `others`
fn ordered_subsets(others: &[usize]) -> Vec<Vec<usize>> {
    let mut out = vec![vec![]];
    fn rec(cur: &mut Vec<usize>, others: &[usize], out: &mut Vec<Vec<usize>>) {
        for &o in others {
            if !cur.contains(&o) {
                cur.push(o);
                out.push(cur.clone());
                rec(cur, others, out);
                cur.pop();
            }
        }
    }
    rec(&mut vec![], others, &mut out);
    out
}

fn all_schemes(n: usize) -> Vec<Vec<Vec<usize>>> {
    let per_key: Vec<Vec<Vec<usize>>> = (0..n)
        .map(|k| {
            let others: Vec<usize> = (0..n).filter(|&o| o != k).collect();
            ordered_subsets(&others)
        })
        .collect();
    let mut out: Vec<Vec<Vec<usize>>> = vec![vec![]];
    for k in 0..n {
        let mut next = vec![];
        for s in &out {
            for r in &per_key[k] {
                let mut s2 = s.clone();
                s2.push(r.clone());
                next.push(s2);
            }
        }
        out = next;
    }
    out
}

pub fn is_acyclic(req: &[Vec<usize>]) -> bool {
    let n = req.len();
    let mut state = vec![0u8; n];
    fn dfs(k: usize, req: &[Vec<usize>], state: &mut [u8]) -> bool {
        if k >= req.len() {
            return true;
        }
        if state[k] == 1 {
            return false;
        }
        if state[k] == 2 {
            return true;
        }
        state[k] = 1;
        for &r in &req[k] {
            if !dfs(r, req, state) {
                return false;
            }
        }
        state[k] = 2;
        true
    }
    (0..n).all(|k| dfs(k, req, &mut state))
}

fn subsets(n: usize) -> Vec<Vec<usize>> {
    (0..(1usize << n))
        .map(|m| (0..n).filter(|i| m >> i & 1 == 1).collect())
        .collect()
}

fn lists_upto(n: usize, len: usize) -> Vec<Vec<usize>> {
    let mut out = vec![vec![]];
    let mut frontier = vec![vec![]];
    for _ in 0..len {
        let mut next = vec![];
        for l in &frontier {
            for k in 0..n {
                let mut l2: Vec<usize> = l.clone();
                l2.push(k);
                next.push(l2);
            }
        }
        out.extend(next.iter().cloned());
        frontier = next;
    }
    out
}

pub fn random_dag(rng: &mut Rng, n: usize, maxdeg: usize) -> Vec<Vec<usize>> {
    // random topological numbering so that prerequisites are not always smaller keys
    let mut order: Vec<usize> = (0..n).collect();
    rng.shuffle(&mut order);
    let mut req = vec![vec![]; n];
    for (pos, &k) in order.iter().enumerate() {
        if pos == 0 {
            continue;
        }
        let deg = rng.below(maxdeg.min(pos) + 1);
        let mut cands: Vec<usize> = order[..pos].to_vec();
        rng.shuffle(&mut cands);
        req[k] = cands[..deg].to_vec();
    }
    req
}

pub fn run_missing(seed: u64, thorough: bool) {
    // exhaustive: all schemes on <= 3 keys (cyclic ones included: termination and model
    // agreement are checked there too; the driver evaluates the C12 clauses on acyclic ones)
    for n in 1..=3usize {
        for req in all_schemes(n) {
            for known in subsets(n) {
                for k in 0..n {
                    emit_mb1(&req, &known, k);
                }
                for keys in lists_upto(n, 2) {
                    emit_mba(&req, &keys, &known);
                }
            }
        }
    }
    let mut rng = Rng::new(seed, "idx.missing");
    // four keys: every scheme (thorough) or a random sample (quick), acyclic ones only
    let s4 = all_schemes(4);
    let s4: Vec<_> = s4.into_iter().filter(|s| is_acyclic(s)).collect();
    let n4 = if thorough { s4.len() } else { 400 };
    for i in 0..n4 {
        let req = if thorough { s4[i].clone() } else { rng.pick(&s4).clone() };
        for known in subsets(4) {
            for k in 0..4 {
                emit_mb1(&req, &known, k);
            }
            if thorough || rng.chance(1, 4) {
                for keys in lists_upto(4, 2) {
                    emit_mba(&req, &keys, &known);
                }
            }
        }
    }
    // random DAGs with shared prerequisites on up to 9 keys
    let nrand = if thorough { 20000 } else { 1500 };
    for _ in 0..nrand {
        let n = rng.range(3, 9);
        let req = random_dag(&mut rng, n, 3);
        let known: Vec<usize> = (0..n).filter(|_| rng.chance(1, 4)).collect();
        let nkeys = rng.range(1, 4);
        let keys: Vec<usize> = (0..nkeys).map(|_| rng.below(n + 1)).collect();
        emit_mb1(&req, &known, keys[0]);
        emit_mba(&req, &keys, &known);
    }
}

fn emit_ba<M: PairMap>(
    req: &[Vec<usize>],
    host: &THost<M>,
    start: &[(usize, usize)],
    keys: &[usize],
    inc: bool,
) {
    set_req(req);
    let m = M::from_pairs(start);
    let res = catch(|| host.bind_all(m, keys.iter().copied(), inc));
    let mut l = Line::new("BA");
    l.tok(M::KIND);
    enc_scheme(&mut l, req);
    host.encode(&mut l);
    enc_pairs(&mut l, start);
    l.nats(keys).tok(inc as usize).arrow();
    match res {
        Ok(ms) => {
            l.tok("ok");
            let ps: Vec<Vec<(usize, usize)>> = ms.iter().map(|m| m.to_pairs()).collect();
            l.list(&ps, |l, p| enc_pairs(l, p));
        }
        Err(t) => {
            l.tok("P").tok(t);
        }
    }
    l.emit();
}

pub fn rule_pool() -> Vec<Vec<Rule>> {
    let r = |cond, vals: &[usize]| Rule {
        cond,
        vals: vals.to_vec(),
    };
    vec![
        vec![],
        vec![r(None, &[0])],
        vec![r(None, &[0, 1])],
        vec![r(Some((0, 0)), &[1])],
        vec![r(Some((0, 1)), &[0, 1]), r(Some((1, 0)), &[1])],
        vec![r(None, &[1, 1])],
    ]
}

pub fn random_host<M>(rng: &mut Rng, nkeys: usize, nvals: usize) -> THost<M> {
    let mut rules = vec![];
    for _ in 0..nkeys {
        let nr = rng.below(3);
        let mut rs = vec![];
        for _ in 0..nr {
            let cond = if rng.chance(1, 2) {
                Some((rng.below(nkeys), rng.below(nvals)))
            } else {
                None
            };
            let nv = rng.below(4);
            let vals = (0..nv).map(|_| rng.below(nvals)).collect();
            rs.push(Rule { cond, vals });
        }
        rules.push(rs);
    }
    THost::new(rng.chance(2, 3), rules)
}

fn bindall_for<M: PairMap>(seed: u64, thorough: bool) {
    let mut rng = Rng::new(seed, if M::KIND == 0 { "idx.bindall.h" } else { "idx.bindall.b" });
    // structured small family: 3 keys, values {0,1}, rule sets from a pool, chain scheme
    let pool = rule_pool();
    let req: Vec<Vec<usize>> = vec![vec![], vec![0], vec![0, 1]];
    let key_lists: Vec<Vec<usize>> = if thorough {
        lists_upto(3, 3)
    } else {
        vec![vec![0, 1, 2], vec![2, 1], vec![1, 1, 2], vec![0], vec![2], vec![1, 0, 2]]
    };
    let starts: Vec<Vec<(usize, usize)>> = {
        let mut out = vec![];
        for a in 0..3usize {
            for b in 0..3usize {
                for c in 0..3usize {
                    let mut s = vec![];
                    for (k, x) in [(0, a), (1, b), (2, c)] {
                        if x > 0 {
                            s.push((k, x - 1));
                        }
                    }
                    out.push(s);
                }
            }
        }
        out
    };
    for (i0, r0) in pool.iter().enumerate() {
        for r1 in pool.iter() {
            for r2 in pool.iter() {
                for strict in [false, true] {
                    if !thorough && i0 >= 3 && strict {
                        continue;
                    }
                    let host =
                        THost::<M>::new(strict, vec![r0.clone(), r1.clone(), r2.clone()]);
                    for start in &starts {
                        if !thorough && !rng.chance(1, 4) {
                            continue;
                        }
                        for keys in &key_lists {
                            for inc in [false, true] {
                                emit_ba(&req, &host, start, keys, inc);
                            }
                        }
                    }
                }
            }
        }
    }
    // random beyond
    let nrand = if thorough { 30000 } else { 2500 };
    for _ in 0..nrand {
        let nkeys = rng.range(2, 6);
        let nvals = rng.range(1, 4);
        let req = random_dag(&mut rng, nkeys, 2);
        let host = random_host::<M>(&mut rng, nkeys, nvals);
        let mut start: Vec<(usize, usize)> = vec![];
        for k in 0..nkeys {
            if rng.chance(1, 4) {
                start.push((k, rng.below(nvals)));
            }
        }
        let nk = rng.range(0, 5);
        let keys: Vec<usize> = (0..nk).map(|_| rng.below(nkeys)).collect();
        emit_ba(&req, &host, &start, &keys, rng.chance(1, 2));
    }
}

pub fn run_bindall(seed: u64, thorough: bool) {
    bindall_for::<FxHashMap<usize, usize>>(seed, thorough);
    bindall_for::<BTreeMap<usize, usize>>(seed, thorough);
}
