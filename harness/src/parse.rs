//! Stage PARSE: the parsing / rendering glue of the string and matrix domains, on the real code.
//!   PS <input> => P | ok <Debug string> <constraint vector>     StringPattern::parse_str
//!   PM <input> => P | ok <Debug string> <constraint vector>     MatrixPattern::parse_str
//!   PH <input> => P | ok <rows> <Debug string>                  MatrixString::from
//! Strings are lists of code points (length-prefixed).
use crate::proto::{catch, Line};
use crate::rng::Rng;
use crate::tree::{enc_mcons, enc_scons};
use portmatching::matrix::{MatrixPattern, MatrixString};
use portmatching::string::{CharVar, StringPattern};
use portmatching::Pattern;

fn cps(s: &str) -> Vec<usize> {
    s.chars().map(|c| c as usize).collect()
}

fn case_ps(s: &str) {
    let mut l = Line::new("PS");
    l.nats(&cps(s));
    l.arrow();
    match catch(|| {
        let p = StringPattern::parse_str(s);
        let dbg = format!("{:?}", p);
        let cons = p.try_to_constraint_vec();
        (dbg, cons)
    }) {
        Ok((dbg, Ok(cons))) => {
            l.tok("ok");
            l.nats(&cps(&dbg));
            l.list(&cons, |l, c| enc_scons(l, c));
        }
        Ok((_, Err(()))) => {
            l.tok("E");
        }
        Err(_) => {
            l.tok("P");
        }
    }
    l.emit();
}

fn case_pm(s: &str) {
    let mut l = Line::new("PM");
    l.nats(&cps(s));
    l.arrow();
    match catch(|| {
        let p = MatrixPattern::parse_str(s);
        let dbg = format!("{:?}", p);
        let cons = p.try_to_constraint_vec();
        (dbg, cons)
    }) {
        Ok((dbg, Ok(cons))) => {
            l.tok("ok");
            l.nats(&cps(&dbg));
            l.list(&cons, |l, c| enc_mcons(l, c));
        }
        Ok((_, Err(()))) => {
            l.tok("E");
        }
        Err(_) => {
            l.tok("P");
        }
    }
    l.emit();
}

fn case_ph(s: &str) {
    let mut l = Line::new("PH");
    l.nats(&cps(s));
    l.arrow();
    match catch(|| {
        let h = MatrixString::from(s);
        let dbg = format!("{:?}", h);
        (h.rows, dbg)
    }) {
        Ok((rows, dbg)) => {
            l.tok("ok");
            l.list(&rows, |l, r| {
                let r: Vec<usize> = r.iter().map(|&c| c as usize).collect();
                l.nats(&r);
            });
            l.nats(&cps(&dbg));
        }
        Err(_) => {
            l.tok("P");
        }
    }
    l.emit();
}

fn all_cases(s: &str) {
    case_ps(s);
    case_pm(s);
    case_ph(s);
}

/// The nasty alphabet; the characters that steer the parsers occur several times.
const ALPHA: &[char] = &[
    'a', 'b', 'c', '$', '-', ' ', '\t', '\n', '\r', '\u{A0}', '\u{85}', '\u{3000}', '\u{2028}', 'é',
    '€', '😀', // once each
    '$', '$', '\n', '\n', '\r', 'a', '-', ' ',
];
/// Every boundary of `char::is_whitespace`, inside and just outside.
const WS_EDGE: &[char] = &[
    '\u{8}', '\u{9}', '\u{B}', '\u{C}', '\u{D}', '\u{E}', '\u{1F}', '\u{20}', '\u{21}', '\u{84}',
    '\u{85}', '\u{86}', '\u{9F}', '\u{A0}', '\u{A1}', '\u{167F}', '\u{1680}', '\u{1681}', '\u{180E}',
    '\u{1FFF}', '\u{2000}', '\u{2005}', '\u{200A}', '\u{200B}', '\u{2027}', '\u{2028}', '\u{2029}',
    '\u{202A}', '\u{202E}', '\u{202F}', '\u{2030}', '\u{205E}', '\u{205F}', '\u{2060}', '\u{2FFF}',
    '\u{3000}', '\u{3001}', '\u{FEFF}', '\u{0}', '\u{1C}', '\u{1D}', '\u{1E}', '\u{10FFFF}',
];

fn random_string(rng: &mut Rng, max: usize) -> String {
    let n = rng.range(0, max);
    (0..n).map(|_| *rng.pick(ALPHA)).collect()
}

const NAMES: &[char] = &['a', 'b', 'c', 'x', 'é', '€', '😀', '$', '-', ' ', '\n', '\r', '\u{A0}'];

fn random_charvar(rng: &mut Rng, clean: bool) -> CharVar {
    let pool: &[char] = if clean { &NAMES[..7] } else { NAMES };
    let c = *rng.pick(pool);
    if rng.chance(2, 5) {
        CharVar::Variable(c)
    } else {
        CharVar::Literal(c)
    }
}

fn random_matpat(rng: &mut Rng, clean: bool) -> Vec<Vec<Option<CharVar>>> {
    let nrows = rng.range(0, 4);
    (0..nrows)
        .map(|_| {
            let n = rng.range(0, 4);
            (0..n)
                .map(|_| {
                    if rng.chance(1, 4) {
                        None
                    } else {
                        Some(random_charvar(rng, clean))
                    }
                })
                .collect()
        })
        .collect()
}

/// Insert whitespace that `parse_row` must ignore (never a line break).
fn sprinkle(rng: &mut Rng, s: &str) -> String {
    let mut out = String::new();
    for c in s.chars() {
        if rng.chance(1, 3) {
            out.push(*rng.pick(&[' ', '\t', '\u{A0}', '\u{3000}', '\u{85}', '\u{2028}', '\u{B}', '\u{C}']));
        }
        out.push(c);
    }
    out
}

fn structured(rng: &mut Rng) -> String {
    match rng.below(12) {
        // a rendered string pattern: body of the Debug string, or the Debug string itself
        0 | 1 => {
            let n = rng.range(0, 6);
            let clean = rng.chance(2, 3);
            let p: Vec<CharVar> = (0..n).map(|_| random_charvar(rng, clean)).collect();
            let d = format!("{:?}", StringPattern::new(p));
            if rng.chance(3, 4) {
                d[1..d.len() - 1].to_string()
            } else {
                d
            }
        }
        // a rendered matrix pattern: body, whole Debug string, joined without final newline,
        // with "\r\n", with ignorable whitespace
        2 | 3 | 4 => {
            let clean = rng.chance(2, 3);
            let p = random_matpat(rng, clean);
            let d = format!("{:?}", MatrixPattern::new(p));
            let body = d
                .strip_prefix("\"\"\"\n")
                .and_then(|b| b.strip_suffix("\"\"\"\n"))
                .unwrap_or(&d)
                .to_string();
            match rng.below(5) {
                0 => d,
                1 => body.strip_suffix('\n').unwrap_or(&body).to_string(),
                2 => body.replace('\n', "\r\n"),
                3 => sprinkle(rng, &body),
                _ => body,
            }
        }
        // ends in '$' (possibly after whitespace, possibly before a line break)
        5 => {
            let mut s = random_string(rng, 8);
            s.push('$');
            match rng.below(5) {
                0 => s.push(' '),
                1 => s.push('\n'),
                2 => s.push_str("\r\n"),
                3 => s.push_str(" \nab"),
                _ => {}
            }
            s
        }
        // "\r\n" line endings, lone '\r', final '\r'
        6 | 7 => {
            let n = rng.range(1, 4);
            let mut s = String::new();
            for _ in 0..n {
                let k = rng.range(0, 3);
                for _ in 0..k {
                    s.push(*rng.pick(&['a', 'b', '$', '-', ' ', '\r']));
                }
                let ends: [&str; 6] = ["\r\n", "\n", "\r", "\r\r\n", "\n\r", ""];
                s.push_str(*rng.pick(&ends));
            }
            s
        }
        // trailing newlines and empty lines
        8 => {
            let mut s = random_string(rng, 5);
            for _ in 0..rng.range(1, 3) {
                s.push('\n');
            }
            s
        }
        9 => {
            let mut s = String::new();
            for _ in 0..rng.range(0, 3) {
                s.push('\n');
            }
            s.push_str(&random_string(rng, 4));
            s.push_str("\n\n");
            s.push_str(&random_string(rng, 4));
            s
        }
        // whitespace boundaries
        10 => {
            let n = rng.range(1, 5);
            (0..n)
                .map(|_| {
                    if rng.chance(1, 4) {
                        *rng.pick(&['$', 'a', '-'])
                    } else {
                        *rng.pick(WS_EDGE)
                    }
                })
                .collect()
        }
        // '$' followed by every kind of character
        _ => {
            let mut s = random_string(rng, 3);
            s.push('$');
            s.push(*rng.pick(ALPHA));
            s.push_str(&random_string(rng, 3));
            s
        }
    }
}

pub fn run(seed: u64, thorough: bool) {
    let mut rng = Rng::new(seed, "parse");
    // fixed: the documented examples, the corner cases of `lines`, every whitespace boundary
    for s in [
        "", "abc", "$a$b$c", "$", "a$", "$$", "$$$", "$ ", "$\n", "a$\nb", "$\r\n", "a\r", "a\r\n", "a\r\nb",
        "\r", "\r\n", "\r\r\n", "\n\r", "a\rb", "\n", "\n\n", "a\n", "a\n\n", "\na", " a $b c\n $b - d",
        " a $b c\n $b - d\n", "-", "--", "$-", "-$", "$ a", "a $", "a $ \n", "\"ab\"", "\"\"\"\nab\n\"\"\"\n",
        "a\u{2028}b", "a\u{85}b", "$\u{A0}b", "$\u{3000}", "😀$😀", "é€",
    ] {
        all_cases(s);
    }
    for &c in WS_EDGE {
        all_cases(&format!("a{c}$b"));
        all_cases(&format!("${c}"));
    }
    // exhaustive: every string of length <= 4 over the steering characters
    let small = ['a', '$', '-', ' ', '\n', '\r'];
    let mut frontier: Vec<String> = vec![String::new()];
    for _ in 0..4 {
        let mut next = vec![];
        for s in &frontier {
            for c in small {
                let mut t = s.clone();
                t.push(c);
                next.push(t);
            }
        }
        for s in &next {
            all_cases(s);
        }
        frontier = next;
    }
    let n = if thorough { 60000 } else { 4000 };
    for i in 0..n {
        let s = if i % 2 == 0 {
            random_string(&mut rng, 12)
        } else {
            structured(&mut rng)
        };
        all_cases(&s);
    }
}
