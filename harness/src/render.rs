//! Stage `render`: `ConstraintAutomaton::dot_string()` against the model's `Render.dotTxt`.
//! Small string / matrix pattern sets (1-5 short patterns, shared prefixes, duplicates, so that
//! fuse / make_det / merge happen), Default / Never / Custom heuristics, no hosts. Record:
//!
//! `RND S|M <patterns> <fallback-fail> <heuristic> => ok <constraint vectors> <event log>
//!  <automaton dump> <dot_string() as a length-prefixed list of code points>`
//! (or `=> ERR`, `=> P <tag>`), with the encodings of the E2E records.
use crate::e2e::{
    enc_charvars, enc_dump, enc_events, enc_matpat, gen_matrix_set, gen_string_set, random_heur,
    Heur, MatPat,
};
use crate::proto::{catch, Line};
use crate::rng::Rng;
use crate::tree::{enc_mcons, enc_scons};
use portmatching::indexing::DataKey;
use portmatching::matrix::{MatrixPattern, MatrixPatternPosition, MatrixString};
use portmatching::string::{CharVar, CharacterPredicate, StringPattern};
use portmatching::verif::take_log;
use portmatching::{
    Constraint, IndexedData, ManyMatcher, Pattern, PatternFallback, Predicate, ToConstraintsTree,
};
use std::hash::Hash;

fn sub(f: impl FnOnce(&mut Line)) -> String {
    let mut l = Line::default();
    f(&mut l);
    l.0.trim_start().to_string()
}

/// Build the matcher under the event log, dump it, render it; `l` holds the encoded inputs.
fn render_generic<PT, P, D>(
    mut l: Line,
    patterns: Vec<PT>,
    heur: &Heur,
    enc_cons: impl Fn(&mut Line, &Constraint<DataKey<D>, P>) + Copy,
    enc_key: impl Fn(&DataKey<D>) -> String,
) where
    D: IndexedData,
    D::IndexingScheme: Default,
    DataKey<D>: 'static,
    P: Predicate<D> + ToConstraintsTree<DataKey<D>> + std::fmt::Debug + 'static,
    PT: Pattern<Key = DataKey<D>, Predicate = P> + Clone + std::fmt::Debug,
    Constraint<DataKey<D>, P>: Eq + Clone + Hash,
{
    l.arrow();
    let r = catch(|| {
        take_log();
        let (h, _calls) = heur.make();
        let m: Result<ManyMatcher<PT, DataKey<D>, P, D::IndexingScheme>, _> =
            ManyMatcher::try_from_patterns_with_det_heuristic(
                patterns.clone(),
                PatternFallback::Fail,
                h,
            );
        let evs = take_log();
        let mut out = Line::default();
        let m = match m {
            Ok(m) => m,
            Err(_) => {
                out.tok("ERR");
                return out;
            }
        };
        out.tok("ok");
        let cvs: Vec<Option<Vec<_>>> = patterns
            .iter()
            .map(|p| p.try_to_constraint_vec().ok())
            .collect();
        out.list(&cvs, |l, cv| {
            l.opt(cv, |l, cv| {
                l.list(cv, |l, c| enc_cons(l, c));
            });
        });
        enc_events(&mut out, &evs);
        let d = m
            .verif_automaton()
            .verif_dump(|c| sub(|l| enc_cons(l, c)), &enc_key);
        enc_dump(&mut out, &d);
        let cps: Vec<usize> = m.dot_string().chars().map(|c| c as usize).collect();
        out.nats(&cps);
        out
    });
    match r {
        Ok(out) => println!("{} {}", l.0, out.0.trim_start()),
        Err(t) => println!("{} P {}", l.0, t),
    }
}

pub fn string_case(pats: &[Vec<CharVar>], heur: &Heur) {
    let mut l = Line::new("RND");
    l.tok("S");
    l.list(pats, |l, p| enc_charvars(l, p));
    l.tok(1);
    heur.encode(&mut l);
    let patterns: Vec<StringPattern> = pats.iter().map(|p| StringPattern::new(p.clone())).collect();
    render_generic::<StringPattern, CharacterPredicate, String>(l, patterns, heur, enc_scons, |k| {
        let k: usize = (*k).into();
        k.to_string()
    });
}

pub fn matrix_case(pats: &[MatPat], heur: &Heur) {
    let mut l = Line::new("RND");
    l.tok("M");
    l.list(pats, |l, p| enc_matpat(l, p));
    l.tok(1);
    heur.encode(&mut l);
    let patterns: Vec<MatrixPattern> = pats.iter().map(|p| MatrixPattern::new(p.clone())).collect();
    render_generic::<MatrixPattern, CharacterPredicate, MatrixString>(
        l,
        patterns,
        heur,
        enc_mcons,
        |k: &MatrixPatternPosition| {
            let k: (isize, isize) = (*k).into();
            format!("{} {}", k.0, k.1)
        },
    );
}

/// Literal alphabets: plain, and one exercising petgraph's escaping (`"`, `\`, newline), the
/// arrow characters, multi-byte and astral code points.
const PLAIN: [char; 3] = ['a', 'b', 'c'];
const ODD: [char; 10] = ['"', '\\', '\n', 'l', '>', '-', ' ', 'é', '\u{10348}', 'a'];
const VARS: [char; 3] = ['x', 'y', '"'];

fn random_cv(rng: &mut Rng, lits: &[char]) -> CharVar {
    if rng.chance(1, 3) {
        CharVar::Variable(*rng.pick(&VARS))
    } else {
        CharVar::Literal(*rng.pick(lits))
    }
}

/// 1-5 patterns of length 0-4; later patterns often extend a prefix of, or duplicate, an
/// earlier one.
fn small_string_set(rng: &mut Rng, lits: &[char]) -> Vec<Vec<CharVar>> {
    let np = rng.range(1, 5);
    let mut pats: Vec<Vec<CharVar>> = vec![];
    for _ in 0..np {
        let mut p: Vec<CharVar> = if !pats.is_empty() && rng.chance(3, 5) {
            let base = rng.pick(&pats).clone();
            let cut = if rng.chance(1, 4) { base.len() } else { rng.below(base.len() + 1) };
            base[..cut].to_vec()
        } else {
            vec![]
        };
        let extra = if rng.chance(1, 10) { 0 } else { rng.range(0, 3) };
        for _ in 0..extra {
            if p.len() < 4 {
                p.push(random_cv(rng, lits));
            }
        }
        pats.push(p);
    }
    pats
}

/// 1-4 matrix patterns with at most 2 rows x 3 columns; later patterns often extend an earlier
/// one by a cell or a row.
fn small_matrix_set(rng: &mut Rng, lits: &[char]) -> Vec<MatPat> {
    let np = rng.range(1, 4);
    let mut pats: Vec<MatPat> = vec![];
    for _ in 0..np {
        if !pats.is_empty() && rng.chance(1, 2) {
            let mut base = rng.pick(&pats).clone();
            match rng.below(3) {
                0 => {}
                1 if !base.is_empty() => {
                    let r = rng.below(base.len());
                    if base[r].len() < 3 {
                        base[r].push(Some(random_cv(rng, lits)));
                    }
                }
                _ => {
                    if base.len() < 3 {
                        base.push(vec![Some(random_cv(rng, lits))]);
                    }
                }
            }
            pats.push(base);
        } else {
            let nrows = if rng.chance(1, 12) { 0 } else { rng.range(1, 2) };
            pats.push(
                (0..nrows)
                    .map(|_| {
                        let ncols = rng.range(0, 3);
                        (0..ncols)
                            .map(|_| if rng.chance(1, 7) { None } else { Some(random_cv(rng, lits)) })
                            .collect()
                    })
                    .collect(),
            );
        }
    }
    pats
}

pub fn run(seed: u64, thorough: bool) {
    let mut rng = Rng::new(seed, "render");
    let n = if thorough { 2500 } else { 150 };
    let l = CharVar::Literal;
    let v = CharVar::Variable;
    // fixed cases: the empty set, the empty pattern, every escaped character, a shared prefix
    let fixed: Vec<Vec<Vec<CharVar>>> = vec![
        vec![],
        vec![vec![]],
        vec![vec![l('"')], vec![l('\\')], vec![l('\n')], vec![l('l')]],
        vec![vec![l('a'), l('b')], vec![l('a'), l('c')], vec![l('a'), l('b')]],
        vec![vec![v('x'), v('x')], vec![v('x'), l('a')], vec![l('a'), v('y'), v('y')]],
    ];
    for pats in &fixed {
        for h in [Heur::Default, Heur::Never] {
            string_case(pats, &h);
        }
    }
    let c = |ch: char| Some(CharVar::Literal(ch));
    let w = |ch: char| Some(CharVar::Variable(ch));
    let fixed_m: Vec<Vec<MatPat>> = vec![
        vec![],
        vec![vec![]],
        vec![vec![vec![c('"'), w('x')], vec![None, w('x')]], vec![vec![c('"')], vec![c('\\')]]],
        vec![vec![vec![c('a'), c('b')]], vec![vec![c('a'), c('b')], vec![c('\n')]]],
    ];
    for pats in &fixed_m {
        for h in [Heur::Default, Heur::Never] {
            matrix_case(pats, &h);
        }
    }
    for i in 0..n {
        let heur = random_heur(&mut rng);
        let pats = match i % 5 {
            0 => {
                // the end-to-end stage's own generator, cut down to small sets
                let mut ps = gen_string_set(&mut rng, false);
                ps.truncate(5);
                for p in ps.iter_mut() {
                    p.truncate(4);
                }
                ps
            }
            1 | 2 => {
                let nl = rng.range(1, 3);
                small_string_set(&mut rng, &PLAIN[..nl])
            }
            _ => small_string_set(&mut rng, &ODD),
        };
        string_case(&pats, &heur);
    }
    for i in 0..n {
        let heur = random_heur(&mut rng);
        let pats = match i % 5 {
            0 => {
                let mut ps = gen_matrix_set(&mut rng, false);
                ps.truncate(4);
                ps
            }
            1 | 2 => {
                let nl = rng.range(1, 3);
                small_matrix_set(&mut rng, &PLAIN[..nl])
            }
            _ => small_matrix_set(&mut rng, &ODD),
        };
        matrix_case(&pats, &heur);
    }
}
