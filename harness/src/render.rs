//! Stage `render`: `ConstraintAutomaton::dot_string()` against the model's `Render.dotTxt`.
//! Small string / matrix / port-graph pattern sets (1-5 short patterns, shared prefixes,
//! duplicates, so that fuse / make_det / merge happen), Default / Never / Custom heuristics, no
//! hosts. Record:
//!
//! `RND S|M|G <patterns> <fallback-fail> <heuristic> => ok <constraint vectors> <event log>
//!  <automaton dump> <dot_string() as a length-prefixed list of code points>`
//! (or `=> ERR`, `=> P <tag>`), with the encodings of the E2E records (`G`: patterns as in the
//! `E2E G` record, i.e. graph + optional root; keys, predicates, constraints by `pg::enc_*`).
use crate::e2e::{
    enc_charvars, enc_dump, enc_events, enc_matpat, gen_matrix_set, gen_string_set, random_heur,
    Heur, MatPat,
};
use crate::pg::{
    build_pgpatterns, enc_pgcons, enc_pgpats, gen_pg_set, key_string, random_connected, GDesc,
    PgPat,
};
use crate::proto::{catch, Line};
use crate::rng::Rng;
use crate::tree::{enc_mcons, enc_scons};
use portmatching::indexing::DataKey;
use portmatching::matrix::{MatrixPattern, MatrixPatternPosition, MatrixString};
use portmatching::portgraph::{PGPattern, PGPredicate};
use portmatching::string::{CharVar, CharacterPredicate, StringPattern};
use portmatching::verif::take_log;
use portmatching::{
    Constraint, IndexedData, ManyMatcher, Pattern, PatternFallback, Predicate, ToConstraintsTree,
};
use std::hash::Hash;

fn sub(f: impl FnOnce(&mut Line)) -> String {
    let mut l = Line::default();
    f(&mut l);
    l.0.trim_start().to_string()
}

/// Build the matcher under the event log, dump it, render it; `l` holds the encoded inputs.
fn render_generic<PT, P, D>(
    l: Line,
    patterns: Vec<PT>,
    heur: &Heur,
    enc_cons: impl Fn(&mut Line, &Constraint<DataKey<D>, P>) + Copy,
    enc_key: impl Fn(&DataKey<D>) -> String,
) where
    D: IndexedData,
    D::IndexingScheme: Default,
    DataKey<D>: 'static,
    P: Predicate<D> + ToConstraintsTree<DataKey<D>> + std::fmt::Debug + 'static,
    PT: Pattern<Key = DataKey<D>, Predicate = P> + Clone + std::fmt::Debug,
    Constraint<DataKey<D>, P>: Eq + Clone + Hash,
{
    render_generic_fb::<PT, P, D>(l, patterns, PatternFallback::Fail, heur, enc_cons, enc_key)
}

/// The same with the fallback mode as a parameter (the caller has encoded it into `l`).
fn render_generic_fb<PT, P, D>(
    mut l: Line,
    patterns: Vec<PT>,
    fallback: PatternFallback,
    heur: &Heur,
    enc_cons: impl Fn(&mut Line, &Constraint<DataKey<D>, P>) + Copy,
    enc_key: impl Fn(&DataKey<D>) -> String,
) where
    D: IndexedData,
    D::IndexingScheme: Default,
    DataKey<D>: 'static,
    P: Predicate<D> + ToConstraintsTree<DataKey<D>> + std::fmt::Debug + 'static,
    PT: Pattern<Key = DataKey<D>, Predicate = P> + Clone + std::fmt::Debug,
    Constraint<DataKey<D>, P>: Eq + Clone + Hash,
{
    l.arrow();
    let r = catch(|| {
        take_log();
        let (h, _calls) = heur.make();
        let m: Result<ManyMatcher<PT, DataKey<D>, P, D::IndexingScheme>, _> =
            ManyMatcher::try_from_patterns_with_det_heuristic(
                patterns.clone(),
                fallback,
                h,
            );
        let evs = take_log();
        let mut out = Line::default();
        let m = match m {
            Ok(m) => m,
            Err(_) => {
                out.tok("ERR");
                return out;
            }
        };
        out.tok("ok");
        let cvs: Vec<Option<Vec<_>>> = patterns
            .iter()
            .map(|p| p.try_to_constraint_vec().ok())
            .collect();
        out.list(&cvs, |l, cv| {
            l.opt(cv, |l, cv| {
                l.list(cv, |l, c| enc_cons(l, c));
            });
        });
        enc_events(&mut out, &evs);
        let d = m
            .verif_automaton()
            .verif_dump(|c| sub(|l| enc_cons(l, c)), &enc_key);
        enc_dump(&mut out, &d);
        let cps: Vec<usize> = m.dot_string().chars().map(|c| c as usize).collect();
        out.nats(&cps);
        out
    });
    match r {
        Ok(out) => println!("{} {}", l.0, out.0.trim_start()),
        Err(t) => println!("{} P {}", l.0, t),
    }
}

pub fn string_case(pats: &[Vec<CharVar>], heur: &Heur) {
    let mut l = Line::new("RND");
    l.tok("S");
    l.list(pats, |l, p| enc_charvars(l, p));
    l.tok(1);
    heur.encode(&mut l);
    let patterns: Vec<StringPattern> = pats.iter().map(|p| StringPattern::new(p.clone())).collect();
    render_generic::<StringPattern, CharacterPredicate, String>(l, patterns, heur, enc_scons, |k| {
        let k: usize = (*k).into();
        k.to_string()
    });
}

pub fn matrix_case(pats: &[MatPat], heur: &Heur) {
    let mut l = Line::new("RND");
    l.tok("M");
    l.list(pats, |l, p| enc_matpat(l, p));
    l.tok(1);
    heur.encode(&mut l);
    let patterns: Vec<MatrixPattern> = pats.iter().map(|p| MatrixPattern::new(p.clone())).collect();
    render_generic::<MatrixPattern, CharacterPredicate, MatrixString>(
        l,
        patterns,
        heur,
        enc_mcons,
        |k: &MatrixPatternPosition| {
            let k: (isize, isize) = (*k).into();
            format!("{} {}", k.0, k.1)
        },
    );
}

/// Port graphs: the pattern-set part as in the `E2E G` record, the rest as for `S` / `M`.
pub fn pg_case(pats: &[PgPat], fallback_fail: bool, heur: &Heur) {
    let mut l = Line::new("RND");
    l.tok("G");
    enc_pgpats(&mut l, pats);
    l.tok(fallback_fail as usize);
    heur.encode(&mut l);
    let patterns = build_pgpatterns(pats);
    render_generic_fb::<PGPattern<portgraph::PortGraph>, PGPredicate, portgraph::PortGraph>(
        l,
        patterns,
        if fallback_fail { PatternFallback::Fail } else { PatternFallback::Skip },
        heur,
        enc_pgcons,
        key_string,
    );
}

/// 1-3 port-graph patterns of 1-4 nodes: `gen_pg_set` cut down, or a set in which later patterns
/// are an earlier one re-rooted, duplicated or grown by a node (shared constraint prefixes, so
/// that fuse / make_det / merge happen and states accept several patterns).
fn small_pg_set(rng: &mut Rng, allow_noroot: bool) -> Vec<PgPat> {
    let np = rng.range(1, 3);
    let mut pats: Vec<PgPat> = vec![];
    for _ in 0..np {
        if !pats.is_empty() && rng.chance(3, 5) {
            let (g, r) = rng.pick(&pats).clone();
            match rng.below(3) {
                0 => pats.push((g, r)),
                1 => {
                    let live = g.live();
                    let root = *rng.pick(&live);
                    pats.push((g, Some(root)));
                }
                _ => {
                    // one more node, linked from a fresh out port of a live node
                    let mut g2: GDesc = g.clone();
                    if g2.live().len() < 4 {
                        let a = *rng.pick(&g2.live());
                        let (i, o) = g2.nodes[a].unwrap();
                        g2.nodes[a] = Some((i, o + 1));
                        g2.nodes.push(Some((1, rng.below(2))));
                        let b = g2.nodes.len() - 1;
                        g2.links.push(((a, o), (b, 0)));
                    }
                    pats.push((g2, r));
                }
            }
            continue;
        }
        let n = if rng.chance(1, 6) { 1 } else { rng.range(2, 4) };
        let holes = rng.chance(1, 5);
        let maxports = rng.range(1, 3);
        let g = random_connected(rng, n, maxports, holes);
        let live = g.live();
        let root = if allow_noroot && rng.chance(1, 10) { None } else { Some(*rng.pick(&live)) };
        pats.push((g, root));
    }
    pats
}

/// Literal alphabets: plain, and one exercising petgraph's escaping (`"`, `\`, newline), the
/// arrow characters, multi-byte and astral code points.
const PLAIN: [char; 3] = ['a', 'b', 'c'];
const ODD: [char; 10] = ['"', '\\', '\n', 'l', '>', '-', ' ', 'é', '\u{10348}', 'a'];
const VARS: [char; 3] = ['x', 'y', '"'];

fn random_cv(rng: &mut Rng, lits: &[char]) -> CharVar {
    if rng.chance(1, 3) {
        CharVar::Variable(*rng.pick(&VARS))
    } else {
        CharVar::Literal(*rng.pick(lits))
    }
}

/// 1-5 patterns of length 0-4; later patterns often extend a prefix of, or duplicate, an
/// earlier one.
fn small_string_set(rng: &mut Rng, lits: &[char]) -> Vec<Vec<CharVar>> {
    let np = rng.range(1, 5);
    let mut pats: Vec<Vec<CharVar>> = vec![];
    for _ in 0..np {
        let mut p: Vec<CharVar> = if !pats.is_empty() && rng.chance(3, 5) {
            let base = rng.pick(&pats).clone();
            let cut = if rng.chance(1, 4) { base.len() } else { rng.below(base.len() + 1) };
            base[..cut].to_vec()
        } else {
            vec![]
        };
        let extra = if rng.chance(1, 10) { 0 } else { rng.range(0, 3) };
        for _ in 0..extra {
            if p.len() < 4 {
                p.push(random_cv(rng, lits));
            }
        }
        pats.push(p);
    }
    pats
}

/// 1-4 matrix patterns with at most 2 rows x 3 columns; later patterns often extend an earlier
/// one by a cell or a row.
fn small_matrix_set(rng: &mut Rng, lits: &[char]) -> Vec<MatPat> {
    let np = rng.range(1, 4);
    let mut pats: Vec<MatPat> = vec![];
    for _ in 0..np {
        if !pats.is_empty() && rng.chance(1, 2) {
            let mut base = rng.pick(&pats).clone();
            match rng.below(3) {
                0 => {}
                1 if !base.is_empty() => {
                    let r = rng.below(base.len());
                    if base[r].len() < 3 {
                        base[r].push(Some(random_cv(rng, lits)));
                    }
                }
                _ => {
                    if base.len() < 3 {
                        base.push(vec![Some(random_cv(rng, lits))]);
                    }
                }
            }
            pats.push(base);
        } else {
            let nrows = if rng.chance(1, 12) { 0 } else { rng.range(1, 2) };
            pats.push(
                (0..nrows)
                    .map(|_| {
                        let ncols = rng.range(0, 3);
                        (0..ncols)
                            .map(|_| if rng.chance(1, 7) { None } else { Some(random_cv(rng, lits)) })
                            .collect()
                    })
                    .collect(),
            );
        }
    }
    pats
}

pub fn run(seed: u64, thorough: bool) {
    let mut rng = Rng::new(seed, "render");
    let n = if thorough { 2500 } else { 150 };
    let l = CharVar::Literal;
    let v = CharVar::Variable;
    // fixed cases: the empty set, the empty pattern, every escaped character, a shared prefix
    let fixed: Vec<Vec<Vec<CharVar>>> = vec![
        vec![],
        vec![vec![]],
        vec![vec![l('"')], vec![l('\\')], vec![l('\n')], vec![l('l')]],
        vec![vec![l('a'), l('b')], vec![l('a'), l('c')], vec![l('a'), l('b')]],
        vec![vec![v('x'), v('x')], vec![v('x'), l('a')], vec![l('a'), v('y'), v('y')]],
    ];
    for pats in &fixed {
        for h in [Heur::Default, Heur::Never] {
            string_case(pats, &h);
        }
    }
    let c = |ch: char| Some(CharVar::Literal(ch));
    let w = |ch: char| Some(CharVar::Variable(ch));
    let fixed_m: Vec<Vec<MatPat>> = vec![
        vec![],
        vec![vec![]],
        vec![vec![vec![c('"'), w('x')], vec![None, w('x')]], vec![vec![c('"')], vec![c('\\')]]],
        vec![vec![vec![c('a'), c('b')]], vec![vec![c('a'), c('b')], vec![c('\n')]]],
    ];
    for pats in &fixed_m {
        for h in [Heur::Default, Heur::Never] {
            matrix_case(pats, &h);
        }
    }
    for i in 0..n {
        let heur = random_heur(&mut rng);
        let pats = match i % 5 {
            0 => {
                // the end-to-end stage's own generator, cut down to small sets
                let mut ps = gen_string_set(&mut rng, false);
                ps.truncate(5);
                for p in ps.iter_mut() {
                    p.truncate(4);
                }
                ps
            }
            1 | 2 => {
                let nl = rng.range(1, 3);
                small_string_set(&mut rng, &PLAIN[..nl])
            }
            _ => small_string_set(&mut rng, &ODD),
        };
        string_case(&pats, &heur);
    }
    for i in 0..n {
        let heur = random_heur(&mut rng);
        let pats = match i % 5 {
            0 => {
                let mut ps = gen_matrix_set(&mut rng, false);
                ps.truncate(4);
                ps
            }
            1 | 2 => {
                let nl = rng.range(1, 3);
                small_matrix_set(&mut rng, &PLAIN[..nl])
            }
            _ => small_matrix_set(&mut rng, &ODD),
        };
        matrix_case(&pats, &heur);
    }
    // port graphs (own generator stream: the S / M records above are unchanged)
    let mut rng = Rng::new(seed, "render.pg");
    let single = |i, o| GDesc { nodes: vec![Some((i, o))], links: vec![] };
    let loop1 = GDesc { nodes: vec![Some((1, 1))], links: vec![((0, 0), (0, 0))] };
    let path3 = GDesc {
        nodes: vec![Some((0, 1)), Some((1, 1)), Some((1, 0))],
        links: vec![((0, 0), (1, 0)), ((1, 0), (2, 0))],
    };
    // two-digit port offsets and path lengths do not occur in random small patterns
    let wide = GDesc {
        nodes: vec![Some((0, 12)), Some((11, 0))],
        links: vec![((0, 11), (1, 10)), ((0, 3), (1, 0))],
    };
    let f3b = GDesc {
        nodes: vec![Some((2, 0)), Some((2, 1)), Some((1, 2)), Some((0, 2))],
        links: vec![((1, 0), (0, 0)), ((2, 0), (0, 1)), ((3, 0), (1, 0))],
    };
    let fixed_g: Vec<Vec<PgPat>> = vec![
        vec![],
        vec![(single(0, 0), Some(0))],
        vec![(single(0, 1), Some(0)), (loop1.clone(), Some(0))],
        vec![(path3.clone(), Some(0)), (path3.clone(), Some(1)), (path3.clone(), Some(2))],
        vec![(wide.clone(), Some(0)), (wide, Some(1))],
        vec![(f3b.clone(), Some(3)), (f3b, Some(0))],
        vec![(path3.clone(), None)],
        // six / five patterns accepted at one state: the `matches` map in hash-iteration order
        vec![(single(0, 1), Some(0)); 6],
        vec![(path3.clone(), Some(1)); 5],
    ];
    for pats in &fixed_g {
        for h in [Heur::Default, Heur::Never] {
            pg_case(pats, true, &h);
        }
    }
    pg_case(&[(path3.clone(), None), (path3, Some(0))], false, &Heur::Default);
    for i in 0..n {
        let heur = random_heur(&mut rng);
        // one case in eight under PatternFallback::Skip with rootless (non-convertible) patterns
        let skip = i % 8 == 7;
        let pats = match i % 3 {
            0 => {
                let mut ps = gen_pg_set(&mut rng, false, skip);
                ps.truncate(3);
                ps
            }
            _ => small_pg_set(&mut rng, skip),
        };
        pg_case(&pats, !skip, &heur);
    }
}
