//! Directed hunt (Rust only, many threads): large string pattern sets with heavy prefix sharing,
//! where the builder clones and re-hangs already normalised states. Looks for the precursors the
//! proof attempts of C07/C08 singled out — a state left with two fallback transitions, a panic
//! of construction or matching, a difference from the naive matcher (as multisets) — and prints
//! an ordinary E2E record for every suspicious case, so that the driver's oracles judge it.
//! Prints one `HUNT` summary record at the end (cases run, suspicious cases).
use crate::e2e::{matrix_case, random_charvars, random_matpat, string_case, Heur, MatPat};
use crate::proto::catch;
use crate::rng::Rng;
use portmatching::matrix::{MatrixPattern, MatrixString};
use portmatching::string::{CharVar, StringPattern};
use portmatching::{DetHeuristic, ManyMatcher, NaiveManyMatcher, PatternFallback, PortMatcher};
use std::sync::atomic::{AtomicUsize, Ordering};
use std::sync::Arc;

static DET_UNDER_DET: AtomicUsize = AtomicUsize::new(0);

fn gen_big_set(rng: &mut Rng) -> Vec<Vec<CharVar>> {
    let np = rng.range(3, 18);
    let nlits = rng.range(1, 2);
    let mut pats: Vec<Vec<CharVar>> = vec![];
    for _ in 0..np {
        if !pats.is_empty() && rng.chance(3, 5) {
            let base = rng.pick(&pats).clone();
            let cut = rng.below(base.len() + 1);
            let mut p = base[..cut].to_vec();
            p.extend(random_charvars(rng, 4, nlits));
            pats.push(p);
        } else {
            pats.push(random_charvars(rng, 7, nlits));
        }
    }
    pats
}

fn hosts_for(rng: &mut Rng, pats: &[Vec<CharVar>]) -> Vec<String> {
    (0..3).map(|_| crate::e2e::planted_host(rng, pats, 12)).collect()
}

/// true = suspicious
fn examine(pats: &[Vec<CharVar>], heur: &Heur, hosts: &[String], exhaustive: bool) -> bool {
    let r = catch(|| {
        let patterns: Vec<StringPattern> = pats.iter().map(|p| StringPattern::new(p.clone())).collect();
        let (h, _) = heur.make();
        let h: DetHeuristic<_, _> = h;
        let m = match ManyMatcher::try_from_patterns_with_det_heuristic(patterns.clone(), PatternFallback::Fail, h) {
            Ok(m) => m,
            Err(_) => return true,
        };
        portmatching::verif::take_log();
        let d = m.verif_automaton().verif_dump(|_| String::from("c"), |_: &portmatching::string::StringPatternPosition| String::new());
        for s in &d.states {
            let eps = s.out_edges.iter().filter(|e| e.2.is_none()).count();
            if eps >= 2 || s.epsilon_order.len() >= 2 {
                return true;
            }
        }
        let naive = match NaiveManyMatcher::try_from_patterns(patterns.iter()) {
            Ok(n) => n,
            Err(_) => return true,
        };
        // for one case in 50: compare with the naive matcher on EVERY host up to length 6 over
        // {a, b, z} (1093 hosts), not only on the planted ones
        let det_under_det = exhaustive;
        let mut all_hosts: Vec<String> = hosts.to_vec();
        if det_under_det {
            DET_UNDER_DET.fetch_add(1, Ordering::Relaxed);
            let mut layer = vec![String::new()];
            for _ in 0..6 {
                let mut next = vec![];
                for s in &layer {
                    for c in ['a', 'b', 'z'] {
                        let mut t = s.clone();
                        t.push(c);
                        next.push(t);
                    }
                }
                all_hosts.extend(next.iter().cloned());
                layer = next;
            }
        }
        let hosts = &all_hosts;
        for host in hosts {
            let mut a: Vec<(usize, String)> = m
                .find_matches(host)
                .map(|pm| (pm.pattern.0, format!("{:?}", pm.match_data)))
                .collect();
            let mut b: Vec<(usize, String)> = naive
                .find_matches(host)
                .map(|pm| (pm.pattern.0, format!("{:?}", pm.match_data)))
                .collect();
            a.sort();
            b.sort();
            if a != b {
                return true;
            }
        }
        false
    });
    r.unwrap_or(true)
}


fn gen_big_matset(rng: &mut Rng) -> Vec<MatPat> {
    let np = rng.range(3, 10);
    let nlits = rng.range(1, 2);
    let mut pats: Vec<MatPat> = vec![];
    for _ in 0..np {
        if !pats.is_empty() && rng.chance(1, 2) {
            // share the leading rows / cells of an earlier pattern
            let mut base = rng.pick(&pats).clone();
            if !base.is_empty() {
                let r = rng.below(base.len());
                base.truncate(r + 1);
                let cut = rng.below(base[r].len() + 1);
                base[r].truncate(cut);
                base[r].extend(random_charvars(rng, 3, nlits).into_iter().map(Some));
            }
            pats.push(base);
        } else {
            pats.push(random_matpat(rng, nlits));
        }
    }
    pats
}

/// true = suspicious
fn examine_mat(pats: &[MatPat], heur: &Heur, hosts: &[Vec<Vec<char>>]) -> bool {
    let r = catch(|| {
        let patterns: Vec<MatrixPattern> = pats.iter().map(|p| MatrixPattern::new(p.clone())).collect();
        let (h, _) = heur.make();
        let h: DetHeuristic<_, _> = h;
        let m = match ManyMatcher::try_from_patterns_with_det_heuristic(patterns.clone(), PatternFallback::Fail, h) {
            Ok(m) => m,
            Err(_) => return true,
        };
        portmatching::verif::take_log();
        let d = m
            .verif_automaton()
            .verif_dump(|_| String::from("c"), |_: &portmatching::matrix::MatrixPatternPosition| String::new());
        for s in &d.states {
            let eps = s.out_edges.iter().filter(|e| e.2.is_none()).count();
            if eps >= 2 || s.epsilon_order.len() >= 2 {
                return true;
            }
        }
        let naive = match NaiveManyMatcher::try_from_patterns(patterns.iter()) {
            Ok(n) => n,
            Err(_) => return true,
        };
        for host in hosts {
            let host = MatrixString { rows: host.clone() };
            let mut a: Vec<(usize, String)> = m
                .find_matches(&host)
                .map(|pm| (pm.pattern.0, format!("{:?}", pm.match_data)))
                .collect();
            let mut b: Vec<(usize, String)> = naive
                .find_matches(&host)
                .map(|pm| (pm.pattern.0, format!("{:?}", pm.match_data)))
                .collect();
            a.sort();
            b.sort();
            if a != b {
                return true;
            }
        }
        false
    });
    r.unwrap_or(true)
}

/// Port-graph sets with heavy sharing: variants of one base graph (other roots, one more node).
fn gen_big_pgset(rng: &mut Rng) -> Vec<crate::pg::PgPat> {
    use crate::pg::random_connected;
    // sizes are kept small on purpose: 7 variants of a 6-node graph can take minutes to compile
    // (findings/pg_long_construction_case.txt, DESIGN 9.3 O1), and a stage that does not finish is
    // reported as a C08 violation
    let nb = rng.range(3, 4);
    let base = random_connected(rng, nb, 3, false);
    let np = rng.range(2, 3);
    let mut pats: Vec<crate::pg::PgPat> = vec![];
    for _ in 0..np {
        match rng.below(4) {
            0 | 1 => {
                // the base graph under another root
                let r = *rng.pick(&base.live());
                pats.push((base.clone(), Some(r)));
            }
            2 => {
                // the base graph plus one node linked from / to a random node (ports appended)
                let mut g = base.clone();
                let v = *rng.pick(&g.live());
                let (i, o) = g.nodes[v].unwrap();
                if rng.chance(1, 2) {
                    g.nodes[v] = Some((i, o + 1));
                    g.nodes.push(Some((1, rng.below(2))));
                    g.links.push(((v, o), (g.nodes.len() - 1, 0)));
                } else {
                    g.nodes[v] = Some((i + 1, o));
                    g.nodes.push(Some((rng.below(2), 1)));
                    g.links.push(((g.nodes.len() - 1, 0), (v, i)));
                }
                let r = *rng.pick(&g.live());
                pats.push((g, Some(r)));
            }
            _ => {
                let n = rng.range(2, 4);
                let g = random_connected(rng, n, 3, false);
                let r = *rng.pick(&g.live());
                pats.push((g, Some(r)));
            }
        }
    }
    pats
}

/// true = suspicious (two fallback transitions at a state, a panic, or — for sets of single-root
/// patterns only, multi-root ones are known finding F3b — a difference from the naive matcher)
fn examine_pg(pats: &[crate::pg::PgPat], heur: &Heur, hosts: &[crate::pg::GDesc]) -> bool {
    use portmatching::portgraph::indexing::PGIndexKey;
    use portmatching::Pattern;
    let r = catch(|| {
        let patterns = crate::pg::build_pgpatterns(pats);
        let mut single_root = true;
        for p in &patterns {
            if let Ok(cs) = p.try_to_constraint_vec() {
                for c in &cs {
                    for k in c.required_bindings() {
                        match k {
                            PGIndexKey::PathRoot { index } if *index > 0 => single_root = false,
                            PGIndexKey::AlongPath { path_root, .. } if *path_root > 0 => single_root = false,
                            _ => {}
                        }
                    }
                }
            }
        }
        let (h, _) = heur.make();
        let h: DetHeuristic<_, _> = h;
        let m = match ManyMatcher::try_from_patterns_with_det_heuristic(patterns.clone(), PatternFallback::Fail, h) {
            Ok(m) => m,
            Err(_) => return true,
        };
        portmatching::verif::take_log();
        let d = m.verif_automaton().verif_dump(|_| String::from("c"), |_: &PGIndexKey| String::new());
        for s in &d.states {
            let eps = s.out_edges.iter().filter(|e| e.2.is_none()).count();
            if eps >= 2 || s.epsilon_order.len() >= 2 {
                return true;
            }
        }
        let naive = match NaiveManyMatcher::try_from_patterns(patterns.iter()) {
            Ok(n) => n,
            Err(_) => return true,
        };
        // multi-root sets: build and structure only (their traversal enumerates root candidates per
        // secondary root and can take exponentially long on an unlucky host: C08Bound's bound is
        // N^k; F3b makes the comparison meaningless anyway)
        if !single_root {
            return false;
        }
        for host in hosts {
            let g = host.build();
            let canon = |pm: portmatching::PatternMatch<rustc_hash::FxHashMap<PGIndexKey, portgraph::NodeIndex>>| {
                let mut kv: Vec<(PGIndexKey, usize)> = pm.match_data.iter().map(|(k, v)| (*k, v.index())).collect();
                kv.sort();
                (pm.pattern.0, format!("{:?}", kv))
            };
            let mut a: Vec<(usize, String)> = m.find_matches(&g).map(canon).collect();
            let mut b: Vec<(usize, String)> = naive.find_matches(&g).map(canon).collect();
            a.sort();
            a.dedup();
            b.sort();
            b.dedup();
            if single_root && a != b {
                return true;
            }
        }
        false
    });
    r.unwrap_or(true)
}

pub fn run(seed: u64, thorough: bool) {
    let threads = std::thread::available_parallelism().map(|n| n.get()).unwrap_or(4).min(16);
    let per_thread = if thorough { 60_000 } else { 3_000 };
    let cases = Arc::new(AtomicUsize::new(0));
    let hits = Arc::new(AtomicUsize::new(0));
    let mut handles = vec![];
    for t in 0..threads {
        let cases = cases.clone();
        let hits = hits.clone();
        handles.push(std::thread::spawn(move || {
            std::panic::set_hook(Box::new(|_| {}));
            let mut rng = Rng::new(seed.wrapping_add(1000 * t as u64), "hunt");
            let trace = std::env::var("PM_TRACE").is_ok();
            // per-thread case counter: which cases get a matrix / port-graph set must not depend on
            // how the threads interleave
            for local in 0..per_thread {
                let pats = gen_big_set(&mut rng);
                let heur = match rng.below(4) {
                    0 | 1 => Heur::Default,
                    _ => Heur::Custom((0..120).map(|_| rng.chance(3, 4)).collect()),
                };
                let hosts = hosts_for(&mut rng, &pats);
                cases.fetch_add(1, Ordering::Relaxed);
                if examine(&pats, &heur, &hosts, rng.chance(1, 50)) {
                    if hits.fetch_add(1, Ordering::Relaxed) < 20 {
                        // the full record, judged by the driver
                        string_case("E2E", &pats, &heur, &hosts);
                    }
                }
                // every eighth case: a port-graph set with heavy sharing
                if local % 8 == 0 {
                    let gpats = gen_big_pgset(&mut rng);
                    let ghosts: Vec<crate::pg::GDesc> = (0..2)
                        .map(|_| {
                            let p = rng.pick(&gpats).0.clone();
                            crate::pg::host_with_copy(&mut rng, &p)
                        })
                        .collect();
                    cases.fetch_add(1, Ordering::Relaxed);
                    if trace {
                        let mut l = crate::proto::Line::new("TRACE E2E");
                        l.tok("G");
                        crate::pg::enc_pgpats(&mut l, &gpats);
                        l.tok(1);
                        heur.encode(&mut l);
                        l.list(&ghosts, |l, h| h.encode(l));
                        eprintln!("{} [thread {} case {}]", l.0.trim(), t, local);
                    }
                    if examine_pg(&gpats, &heur, &ghosts) {
                        if hits.fetch_add(1, Ordering::Relaxed) < 20 {
                            crate::pg::pg_case("E2E", &gpats, true, &heur, &ghosts);
                        }
                    }
                }
                // every fourth case: a matrix set
                if local % 4 == 0 {
                    let mpats = gen_big_matset(&mut rng);
                    let mhosts: Vec<Vec<Vec<char>>> =
                        (0..2).map(|_| crate::e2e::planted_mat_host(&mut rng, &mpats)).collect();
                    cases.fetch_add(1, Ordering::Relaxed);
                    if examine_mat(&mpats, &heur, &mhosts) {
                        if hits.fetch_add(1, Ordering::Relaxed) < 20 {
                            matrix_case("E2E", &mpats, &heur, &mhosts);
                        }
                    }
                }
            }
        }));
    }
    for h in handles {
        let _ = h.join();
    }
    println!(
        "HUNT S {} {} {} => ok",
        cases.load(Ordering::Relaxed),
        hits.load(Ordering::Relaxed),
        DET_UNDER_DET.load(Ordering::Relaxed)
    );
}
