//! Deterministic PRNG (xorshift64*), every random choice of the harness derives from it.
pub struct Rng(pub u64);

impl Rng {
    pub fn new(seed: u64, stage: &str) -> Self {
        let mut h: u64 = 0xcbf29ce484222325 ^ seed.wrapping_mul(0x9E3779B97F4A7C15);
        for b in stage.bytes() {
            h ^= b as u64;
            h = h.wrapping_mul(0x100000001b3);
        }
        if h == 0 {
            h = 0x1234567;
        }
        let mut r = Rng(h);
        for _ in 0..4 {
            r.next();
        }
        r
    }
    pub fn next(&mut self) -> u64 {
        let mut x = self.0;
        x ^= x >> 12;
        x ^= x << 25;
        x ^= x >> 27;
        self.0 = x;
        x.wrapping_mul(0x2545F4914F6CDD1D)
    }
    /// uniform in 0..n (n > 0)
    pub fn below(&mut self, n: usize) -> usize {
        (self.next() >> 11) as usize % n
    }
    pub fn range(&mut self, lo: usize, hi_incl: usize) -> usize {
        lo + self.below(hi_incl - lo + 1)
    }
    pub fn chance(&mut self, num: usize, den: usize) -> bool {
        self.below(den) < num
    }
    pub fn pick<'a, T>(&mut self, xs: &'a [T]) -> &'a T {
        &xs[self.below(xs.len())]
    }
    pub fn shuffle<T>(&mut self, xs: &mut [T]) {
        for i in (1..xs.len()).rev() {
            let j = self.below(i + 1);
            xs.swap(i, j);
        }
    }
}
