//! Port-graph side of the harness: graph generators, encoders, the end-to-end stage for
//! `PGPattern<PortGraph>` and stage-level records for `line_partition`, `walk_path`,
//! `find_root_candidates`, `list_bind_options` and the `PGPredicate` decomposition.
use crate::e2e::{e2e_generic, random_heur, Heur};
use crate::proto::{catch, Line};
use crate::rng::Rng;
use crate::tree::enc_tree;
use portgraph::{LinkMut, LinkView, NodeIndex, PortGraph, PortMut, PortOffset, PortView};
use portmatching::portgraph::indexing::PGIndexKey;
use portmatching::portgraph::verif::{verif_find_root_candidates, verif_line_partition, verif_walk_path};
use portmatching::portgraph::{PGConstraint, PGPattern, PGPredicate};
use portmatching::{
    ConditionedPredicate, IndexedData, Pattern, PatternFallback, ToConstraintsTree,
};
use rustc_hash::FxHashMap;

/// Plain description of a port graph: node slots (None = hole) and links (out port -> in port).
#[derive(Clone, Debug, PartialEq)]
pub struct GDesc {
    pub nodes: Vec<Option<(usize, usize)>>,
    pub links: Vec<((usize, usize), (usize, usize))>,
}

impl GDesc {
    pub fn build(&self) -> PortGraph {
        let mut g = PortGraph::new();
        let idx: Vec<NodeIndex> = self
            .nodes
            .iter()
            .map(|n| {
                let (i, o) = n.unwrap_or((0, 0));
                g.add_node(i, o)
            })
            .collect();
        for ((na, oa), (nb, ob)) in &self.links {
            let pa = g.port_index(idx[*na], PortOffset::new_outgoing(*oa)).unwrap();
            let pb = g.port_index(idx[*nb], PortOffset::new_incoming(*ob)).unwrap();
            g.link_ports(pa, pb).unwrap();
        }
        for (i, n) in self.nodes.iter().enumerate() {
            if n.is_none() {
                g.remove_node(idx[i]);
            }
        }
        g
    }
    pub fn encode(&self, l: &mut Line) {
        l.list(&self.nodes, |l, n| match n {
            None => {
                l.tok(0);
            }
            Some((i, o)) => {
                l.tok(1).tok(i).tok(o);
            }
        });
        l.list(&self.links, |l, ((na, oa), (nb, ob))| {
            l.tok(na).tok(oa).tok(nb).tok(ob);
        });
    }
    pub fn live(&self) -> Vec<usize> {
        (0..self.nodes.len()).filter(|&i| self.nodes[i].is_some()).collect()
    }
}

pub fn enc_off(l: &mut Line, o: &PortOffset) {
    match o {
        PortOffset::Incoming(i) => l.tok(0).tok(i),
        PortOffset::Outgoing(i) => l.tok(1).tok(i),
    };
}

pub fn enc_key(l: &mut Line, k: &PGIndexKey) {
    match k {
        PGIndexKey::PathRoot { index } => {
            l.tok(0).tok(index);
        }
        PGIndexKey::AlongPath {
            path_root,
            path_start_port,
            path_length,
        } => {
            l.tok(1).tok(path_root);
            enc_off(l, path_start_port);
            l.tok(path_length);
        }
    }
}

pub fn key_string(k: &PGIndexKey) -> String {
    let mut l = Line::default();
    enc_key(&mut l, k);
    l.0.trim_start().to_string()
}

pub fn enc_pgcons(l: &mut Line, c: &PGConstraint) {
    match c.predicate() {
        PGPredicate::HasNodeWeight(()) => {
            l.tok(0);
        }
        PGPredicate::IsConnected {
            left_port,
            right_port,
        } => {
            l.tok(1);
            enc_off(l, left_port);
            enc_off(l, right_port);
        }
        PGPredicate::IsNotEqual { n_other } => {
            l.tok(2).tok(n_other);
        }
    }
    l.list(c.required_bindings(), |l, k| enc_key(l, k));
}

pub fn enc_pgmap(l: &mut Line, m: &FxHashMap<PGIndexKey, NodeIndex>) {
    let mut v: Vec<(PGIndexKey, NodeIndex)> = m.iter().map(|(k, n)| (*k, *n)).collect();
    v.sort();
    l.list(&v, |l, (k, n)| {
        enc_key(l, k);
        l.tok(n.index());
    });
}

/// A random connected graph description on `n` live nodes (holes interspersed).
pub fn random_connected(rng: &mut Rng, n: usize, maxports: usize, holes: bool) -> GDesc {
    let mut nodes: Vec<Option<(usize, usize)>> = vec![];
    let mut live = vec![];
    for _ in 0..n {
        if holes && rng.chance(1, 6) {
            nodes.push(None);
        }
        live.push(nodes.len());
        nodes.push(Some((0, 0)));
    }
    let mut used_in: Vec<Vec<bool>> = vec![vec![]; nodes.len()];
    let mut used_out: Vec<Vec<bool>> = vec![vec![]; nodes.len()];
    let mut links = vec![];
    let take = |rng: &mut Rng, used: &mut Vec<bool>| -> Option<usize> {
        let free: Vec<usize> = (0..used.len()).filter(|&i| !used[i]).collect();
        if !free.is_empty() && rng.chance(1, 2) {
            let p = *rng.pick(&free);
            used[p] = true;
            Some(p)
        } else if used.len() < maxports {
            // now and then leave a lower port dangling, so that links enter/leave nodes at
            // different offsets (needed e.g. for hosts onto which a chain folds non-injectively)
            if used.len() + 1 < maxports && rng.chance(1, 5) {
                used.push(false);
            }
            used.push(true);
            Some(used.len() - 1)
        } else if !free.is_empty() {
            let p = free[0];
            used[p] = true;
            Some(p)
        } else {
            None
        }
    };
    // spanning tree
    for j in 1..n {
        for _attempt in 0..8 {
            let i = rng.below(j);
            let (a, b) = if rng.chance(1, 2) { (live[i], live[j]) } else { (live[j], live[i]) };
            let oa = take(rng, &mut used_out[a]);
            if oa.is_none() {
                continue;
            }
            let ob = take(rng, &mut used_in[b]);
            if let (Some(oa), Some(ob)) = (oa, ob) {
                links.push(((a, oa), (b, ob)));
                break;
            } else if let Some(oa) = oa {
                used_out[a][oa] = false;
            }
        }
    }
    // extra links (parallel links, cycles, self-loops)
    for _ in 0..rng.below(n + 1) {
        let a = *rng.pick(&live);
        let b = if rng.chance(1, 6) { a } else { *rng.pick(&live) };
        let oa = take(rng, &mut used_out[a]);
        if let Some(oa) = oa {
            match take(rng, &mut used_in[b]) {
                Some(ob) => links.push(((a, oa), (b, ob))),
                None => used_out[a][oa] = false,
            }
        }
    }
    // dangling ports
    for &v in &live {
        if rng.chance(1, 4) && used_in[v].len() < maxports {
            used_in[v].push(false);
        }
        if rng.chance(1, 4) && used_out[v].len() < maxports {
            used_out[v].push(false);
        }
        nodes[v] = Some((used_in[v].len(), used_out[v].len()));
    }
    let mut d = GDesc { nodes, links };
    // keep only the component of the first live node connected (drop unlinked nodes)
    if !is_connected_desc(&d) {
        // fall back: link stragglers is complex; retry with a simple path graph
        let k = n.max(1);
        d = GDesc {
            nodes: (0..k).map(|i| Some((usize::from(i > 0), usize::from(i + 1 < k)))).collect(),
            links: (0..k.saturating_sub(1)).map(|i| ((i, 0), (i + 1, 0))).collect(),
        };
    }
    d
}

pub fn is_connected_desc(d: &GDesc) -> bool {
    let live = d.live();
    if live.is_empty() {
        return false;
    }
    let mut seen = vec![live[0]];
    let mut work = vec![live[0]];
    while let Some(n) = work.pop() {
        for ((a, _), (b, _)) in &d.links {
            for (x, y) in [(*a, *b), (*b, *a)] {
                if x == n && !seen.contains(&y) {
                    seen.push(y);
                    work.push(y);
                }
            }
        }
    }
    live.iter().all(|n| seen.contains(n))
}

/// A host containing a relabelled copy of `p` plus extra nodes, ports and links.
pub fn host_with_copy(rng: &mut Rng, p: &GDesc) -> GDesc {
    let extra = rng.below(4);
    let total = p.nodes.len() + extra;
    let mut perm: Vec<usize> = (0..total).collect();
    rng.shuffle(&mut perm);
    let mut nodes: Vec<Option<(usize, usize)>> = vec![None; total];
    for (i, n) in p.nodes.iter().enumerate() {
        if let Some((a, b)) = n {
            nodes[perm[i]] = Some((*a + rng.below(2), *b + rng.below(2)));
        }
    }
    for j in p.nodes.len()..total {
        if rng.chance(4, 5) {
            nodes[perm[j]] = Some((rng.range(0, 2), rng.range(0, 2)));
        }
    }
    let mut links: Vec<((usize, usize), (usize, usize))> = p
        .links
        .iter()
        .map(|((a, oa), (b, ob))| ((perm[*a], *oa), (perm[*b], *ob)))
        .collect();
    // link some free ports
    let live: Vec<usize> = (0..total).filter(|&i| nodes[i].is_some()).collect();
    for _ in 0..rng.below(4) {
        if live.is_empty() {
            break;
        }
        let a = *rng.pick(&live);
        let b = *rng.pick(&live);
        let (_, na_out) = nodes[a].unwrap();
        let (nb_in, _) = nodes[b].unwrap();
        let fo: Vec<usize> = (0..na_out).filter(|o| !links.iter().any(|l| l.0 == (a, *o))).collect();
        let fi: Vec<usize> = (0..nb_in).filter(|i| !links.iter().any(|l| l.1 == (b, *i))).collect();
        if !fo.is_empty() && !fi.is_empty() {
            links.push(((a, *rng.pick(&fo)), (b, *rng.pick(&fi))));
        }
    }
    if rng.chance(1, 3) && !links.is_empty() && p.links.len() < links.len() {
        // nothing: extra links kept
    }
    if rng.chance(1, 4) && !p.links.is_empty() {
        // near miss: drop one of the copied links
        let i = rng.below(p.links.len());
        links.remove(i);
    }
    GDesc { nodes, links }
}

/// A host that records every `list_bind_options` call the matchers make on it (the real
/// `PortGraph` implementation answers); the calls are replayed against the model's `pgOpts` as
/// PGO records, i.e. the indexing model is compared with the code exactly where it is used.
pub struct LoggedPG {
    pub g: PortGraph,
    pub calls: std::cell::RefCell<Vec<(PGIndexKey, Vec<(PGIndexKey, NodeIndex)>, Vec<NodeIndex>)>>,
}

impl IndexedData for LoggedPG {
    type IndexingScheme = portmatching::portgraph::indexing::PGIndexingScheme;
    fn list_bind_options(
        &self,
        key: &PGIndexKey,
        known: &FxHashMap<PGIndexKey, NodeIndex>,
    ) -> Vec<NodeIndex> {
        let r = self.g.list_bind_options(key, known);
        let mut calls = self.calls.borrow_mut();
        if calls.len() < 4000 {
            let mut m: Vec<(PGIndexKey, NodeIndex)> = known.iter().map(|(k, v)| (*k, *v)).collect();
            m.sort();
            calls.push((*key, m, r.clone()));
        }
        r
    }
}

impl portmatching::Predicate<LoggedPG> for PGPredicate {
    fn check(&self, data: &LoggedPG, args: &[impl std::borrow::Borrow<NodeIndex>]) -> bool {
        <PGPredicate as portmatching::Predicate<PortGraph>>::check(self, &data.g, args)
    }
}

/// Systematic "decoy" hosts: the pattern itself plus ONE extra port on one of its nodes, linked
/// to one fresh node (all nodes, both directions). An occurrence of the pattern survives, but the
/// extra link offers the secondary-root search a wrong candidate next to the right one.
pub fn decoy_hosts(p: &GDesc) -> Vec<GDesc> {
    let mut out = vec![];
    for n in p.live() {
        let (i, o) = p.nodes[n].unwrap();
        // extra outgoing port on n -> fresh node's in port 0
        let mut h = p.clone();
        h.nodes[n] = Some((i, o + 1));
        h.nodes.push(Some((1, 0)));
        h.links.push(((n, o), (h.nodes.len() - 1, 0)));
        out.push(h);
        // fresh node's out port 0 -> extra incoming port on n
        let mut h = p.clone();
        h.nodes[n] = Some((i + 1, o));
        h.nodes.push(Some((0, 1)));
        h.links.push(((h.nodes.len() - 1, 0), (n, i)));
        out.push(h);
    }
    out
}

/// Systematic "folded" hosts: the pattern with all links of one node `v` moved onto another node
/// `u` at the same port offsets (only when no two links then share a port). The pattern maps onto
/// such a host by a link-preserving but NON-injective map (`v` and `u` both go to `u`): a matcher
/// that forgets an inequality between `u` and `v` reports it, the embedding oracle (C01) rejects it.
pub fn fold_hosts(p: &GDesc) -> Vec<GDesc> {
    let mut out = vec![];
    let live = p.live();
    for &u in &live {
        for &v in &live {
            if u == v {
                continue;
            }
            let mv = |n: usize| if n == v { u } else { n };
            let links: Vec<((usize, usize), (usize, usize))> =
                p.links.iter().map(|((a, oa), (b, ob))| ((mv(*a), *oa), (mv(*b), *ob))).collect();
            let mut ok = true;
            for (i, (o1, i1)) in links.iter().enumerate() {
                for (o2, i2) in links.iter().skip(i + 1) {
                    if o1 == o2 || i1 == i2 {
                        ok = false;
                    }
                }
            }
            if !ok {
                continue;
            }
            let (ui, uo) = p.nodes[u].unwrap();
            let (vi, vo) = p.nodes[v].unwrap();
            let mut h = p.clone();
            h.links = links;
            h.nodes[u] = Some((ui.max(vi), uo.max(vo)));
            out.push(h);
        }
    }
    out
}

pub type PgPat = (GDesc, Option<usize>);

pub fn pg_case(
    kind: &str,
    pats: &[PgPat],
    fallback_fail: bool,
    heur: &Heur,
    hosts: &[GDesc],
) -> Option<crate::e2e::E2EResult> {
    let mut l = Line::new(kind);
    l.tok("G");
    l.list(pats, |l, (g, r)| {
        g.encode(l);
        l.opt(r, |l, r| {
            l.tok(r);
        });
    });
    l.tok(fallback_fail as usize);
    heur.encode(&mut l);
    l.list(hosts, |l, h| h.encode(l));
    let patterns: Vec<PGPattern<PortGraph>> = pats
        .iter()
        .map(|(g, r)| match r {
            Some(r) => PGPattern::from_host_with_root(g.build(), NodeIndex::new(*r)),
            None => PGPattern::from_host(g.build()),
        })
        .collect();
    let hs: Vec<LoggedPG> = hosts
        .iter()
        .map(|h| LoggedPG { g: h.build(), calls: Default::default() })
        .collect();
    let r = e2e_generic::<PGPattern<PortGraph>, PGPredicate, LoggedPG>(
        l,
        patterns,
        if fallback_fail { PatternFallback::Fail } else { PatternFallback::Skip },
        heur,
        &hs,
        enc_pgcons,
        key_string,
        enc_pgmap,
    );
    // the calls of `list_bind_options` made during matching, as PGO records (distinct calls;
    // those for secondary roots first, they exercise `find_root_candidates`)
    if !crate::e2e::is_quiet() {
        for (hd, h) in hosts.iter().zip(&hs) {
            let mut calls = h.calls.borrow().clone();
            if std::env::var("PM_DEBUG").is_ok() { eprintln!("calls {}", calls.len()); }
            calls.sort();
            calls.dedup();
            calls.sort_by_key(|(k, _, _)| !matches!(k, PGIndexKey::PathRoot { index } if *index > 0));
            for (k, m, o) in calls.into_iter().take(PGO_PER_HOST) {
                let mut l = Line::new("PGO");
                hd.encode(&mut l);
                enc_key(&mut l, &k);
                l.list(&m, |l, (k, v)| {
                    enc_key(l, k);
                    l.tok(v.index());
                });
                l.arrow();
                l.tok("ok");
                let mut o2: Vec<usize> = o.iter().map(|n| n.index()).collect();
                o2.sort();
                l.nats(&o2);
                l.emit();
            }
        }
    }
    r
}

const PGO_PER_HOST: usize = 40;

/// The pattern-set part of a `G` record (as written by `pg_case`): per pattern the graph and the
/// optional root.
pub fn enc_pgpats(l: &mut Line, pats: &[PgPat]) {
    l.list(pats, |l, (g, r)| {
        g.encode(l);
        l.opt(r, |l, r| {
            l.tok(r);
        });
    });
}

/// The real patterns of a described set (as built by `pg_case`).
pub fn build_pgpatterns(pats: &[PgPat]) -> Vec<PGPattern<PortGraph>> {
    pats.iter()
        .map(|(g, r)| match r {
            Some(r) => PGPattern::from_host_with_root(g.build(), NodeIndex::new(*r)),
            None => PGPattern::from_host(g.build()),
        })
        .collect()
}

pub fn gen_pg_set(rng: &mut Rng, thorough: bool, allow_noroot: bool) -> Vec<PgPat> {
    let np = rng.range(1, if thorough { 5 } else { 3 });
    let mut pats: Vec<PgPat> = vec![];
    for _ in 0..np {
        if !pats.is_empty() && rng.chance(1, 5) {
            let p = rng.pick(&pats).clone();
            pats.push(p);
            continue;
        }
        let n = if rng.chance(1, 8) { 1 } else { rng.range(2, 4) };
        let holes = rng.chance(1, 5);
        let g = random_connected(rng, n, 3, holes);
        let live = g.live();
        let root = if allow_noroot && rng.chance(1, 8) { None } else { Some(*rng.pick(&live)) };
        pats.push((g, root));
    }
    pats
}

pub fn run_e2e(seed: u64, thorough: bool, n: usize) {
    let mut rng = Rng::new(seed, "e2e.pg");
    // fixed cases first: the repository's own test graphs and witnesses of finding F3
    let single = |i, o| GDesc { nodes: vec![Some((i, o))], links: vec![] };
    let loop1 = GDesc { nodes: vec![Some((1, 1))], links: vec![((0, 0), (0, 0))] };
    // F3a: root self-loop out0 -> in1 followed by out1 -> node 1
    let through = GDesc {
        nodes: vec![Some((2, 2)), Some((1, 0))],
        links: vec![((0, 0), (0, 1)), ((0, 1), (1, 0))],
    };
    for (p, root) in [(single(0, 1), 0), (loop1.clone(), 0), (single(0, 2), 0), (through.clone(), 0)] {
        for h in [Heur::Default, Heur::Never] {
            pg_case("E2E", &[(p.clone(), Some(root))], true, &h, &[p.clone(), loop1.clone()]);
        }
    }
    // the committed witness of known finding F3b (Props/F3b.lean): a multi-root pattern that is
    // not found in itself
    let f3b = GDesc {
        nodes: vec![Some((2, 0)), Some((2, 1)), Some((1, 2)), Some((0, 2))],
        links: vec![((1, 0), (0, 0)), ((2, 0), (0, 1)), ((3, 0), (1, 0))],
    };
    for h in [Heur::Default, Heur::Never] {
        pg_case("E2E", &[(f3b.clone(), Some(3))], true, &h, &[f3b.clone()]);
    }
    for _ in 0..n {
        let pats = gen_pg_set(&mut rng, thorough, false);
        let heur = random_heur(&mut rng);
        let nh = rng.range(1, 2);
        let mut hosts: Vec<GDesc> = (0..nh)
            .map(|_| {
                let p = rng.pick(&pats).0.clone();
                host_with_copy(&mut rng, &p)
            })
            .collect();
        if rng.chance(1, 3) {
            // the pattern itself as host (self-match)
            hosts.push(rng.pick(&pats).0.clone());
        }
        if rng.chance(1, 4) {
            // the pattern plus one extra link to a fresh node
            let d = decoy_hosts(&rng.pick(&pats).0);
            if !d.is_empty() {
                hosts.push(rng.pick(&d).clone());
            }
        }
        if rng.chance(1, 3) {
            // the pattern folded onto itself (two nodes identified): no occurrence by an injective map
            let d = fold_hosts(&rng.pick(&pats).0);
            if !d.is_empty() {
                hosts.push(rng.pick(&d).clone());
            }
        }
        pg_case("E2E", &pats, true, &heur, &hosts);
    }
}

// ------------------------------------------------------------------------ stage-level records

fn enc_port(l: &mut Line, g: &PortGraph, p: portgraph::PortIndex) {
    l.tok(g.port_node(p).unwrap().index());
    enc_off(l, &g.port_offset(p).unwrap());
}

pub fn run_stages(seed: u64, thorough: bool) {
    let mut rng = Rng::new(seed, "pg.stages");
    let n = if thorough { 30000 } else { 2500 };
    for _ in 0..n {
        let nn = rng.range(1, 5);
        let holes = rng.chance(1, 4);
        let d = random_connected(&mut rng, nn, 3, holes);
        let g = d.build();
        let live = d.live();
        let root = *rng.pick(&live);
        // line_partition
        {
            let mut l = Line::new("PGL");
            d.encode(&mut l);
            l.tok(root).arrow();
            match catch(|| verif_line_partition(&g, NodeIndex::new(root))) {
                Ok(lines) => {
                    l.tok("ok");
                    l.list(&lines, |l, line| {
                        l.list(line, |l, (a, b)| {
                            enc_port(l, &g, *a);
                            enc_port(l, &g, *b);
                        });
                    });
                }
                Err(t) => {
                    l.tok("P").tok(t);
                }
            }
            l.emit();
        }
        // constraint_vec
        let cv = {
            let mut l = Line::new("PGC");
            d.encode(&mut l);
            l.tok(root).arrow();
            let p = PGPattern::from_host_with_root(g.clone(), NodeIndex::new(root));
            let r = catch(|| p.try_to_constraint_vec());
            match &r {
                Ok(Ok(cs)) => {
                    l.tok("ok");
                    l.list(cs, |l, c| enc_pgcons(l, c));
                }
                Ok(Err(_)) => {
                    l.tok("ERR");
                }
                Err(t) => {
                    l.tok("P").tok(t);
                }
            }
            l.emit();
            r.ok().and_then(|x| x.ok())
        };
        // walk_path from every port of a random node
        {
            let v = *rng.pick(&live);
            let offs: Vec<PortOffset> = g.all_port_offsets(NodeIndex::new(v)).collect();
            let mut offs = offs;
            offs.push(PortOffset::new_outgoing(7)); // a port that does not exist
            for off in offs {
                let mut l = Line::new("PGW");
                d.encode(&mut l);
                l.tok(v);
                enc_off(&mut l, &off);
                l.arrow();
                let w = verif_walk_path(&g, NodeIndex::new(v), off);
                l.list(&w, |l, (a, n, b)| {
                    l.opt(a, |l, a| enc_port(l, &g, *a));
                    l.tok(n.index());
                    l.opt(b, |l, b| enc_port(l, &g, *b));
                });
                l.emit();
            }
        }
        // list_bind_options / find_root_candidates on partial bindings grown along the constraints
        if let Some(cs) = cv {
            let mut keys: Vec<PGIndexKey> = vec![];
            for c in &cs {
                for k in c.required_bindings() {
                    if !keys.contains(k) {
                        keys.push(*k);
                    }
                }
            }
            // a host: the graph itself or a copy with extras
            let hd = if rng.chance(1, 2) { d.clone() } else { host_with_copy(&mut rng, &d) };
            let h = hd.build();
            let mut m: FxHashMap<PGIndexKey, NodeIndex> = FxHashMap::default();
            use portmatching::portgraph::indexing::PGIndexingScheme;
            use portmatching::IndexingScheme;
            let keys = PGIndexingScheme.all_missing_bindings(keys, []);
            for k in &keys {
                let mut l = Line::new("PGO");
                hd.encode(&mut l);
                enc_key(&mut l, k);
                enc_pgmap(&mut l, &m);
                l.arrow();
                let opts = catch(|| h.list_bind_options(k, &m));
                match &opts {
                    Ok(o) => {
                        l.tok("ok");
                        let mut o2: Vec<usize> = o.iter().map(|n| n.index()).collect();
                        o2.sort();
                        l.nats(&o2);
                    }
                    Err(t) => {
                        l.tok("P").tok(t);
                    }
                }
                l.emit();
                if matches!(k, PGIndexKey::PathRoot { index } if *index > 0) {
                    let mut l = Line::new("PGR");
                    hd.encode(&mut l);
                    enc_pgmap(&mut l, &m);
                    l.arrow();
                    match catch(|| verif_find_root_candidates(&h, &m)) {
                        Ok(o) => {
                            l.tok("ok");
                            let mut o2: Vec<usize> = o.iter().map(|n| n.index()).collect();
                            o2.sort();
                            l.nats(&o2);
                        }
                        Err(t) => {
                            l.tok("P").tok(t);
                        }
                    }
                    l.emit();
                }
                if let Ok(o) = opts {
                    if !o.is_empty() {
                        m.insert(*k, *rng.pick(&o));
                    } else if rng.chance(1, 2) {
                        break;
                    }
                }
            }
            // decomposition of random sub-lists of the constraints, and conditioned()
            let take: Vec<PGConstraint> = cs.iter().filter(|_| rng.chance(2, 3)).cloned().collect();
            let mut l = Line::new("TRG");
            l.list(&take, |l, c| enc_pgcons(l, c));
            l.arrow();
            let t = PGPredicate::to_constraints_tree(take.clone());
            enc_tree(&mut l, &t, enc_pgcons);
            l.emit();
            if let Some(c) = take.first() {
                let sat: Vec<&PGConstraint> = take.iter().skip(1).filter(|_| rng.chance(1, 2)).collect();
                let mut l = Line::new("PGD");
                enc_pgcons(&mut l, c);
                l.list(&sat, |l, c| enc_pgcons(l, c));
                l.arrow();
                let r = PGPredicate::conditioned(c, &sat);
                l.opt(&r, |l, c| enc_pgcons(l, c));
                l.emit();
            }
        }
    }
}

/// Cross-pattern and synthetic constraint families for the port-graph decomposition: the
/// constraints that meet at an automaton state come from SEVERAL patterns (e.g. two `IsConnected`
/// constraints that share their right end, which no single pattern can contain). Each family is
/// emitted as a `TRG` record (node-for-node comparison with the model + propositional oracle) and
/// as a `TRGH` record: family, a host, injective bindings of the family's keys to host nodes and
/// the real tree, for the semantic faithfulness oracle (all satisfied edges, and the documented
/// `make_det` reading: only the first satisfied child of a `make_det` root).
pub fn run_tree_families(seed: u64, thorough: bool) {
    use portmatching::Constraint;
    let mut rng = Rng::new(seed, "pg.families");
    let n = if thorough { 20000 } else { 2500 };
    for _ in 0..n {
        let mut pool: Vec<PGConstraint> = vec![];
        let np = rng.range(2, 3);
        for _ in 0..np {
            let nn = rng.range(2, 4);
            let d = random_connected(&mut rng, nn, 3, false);
            let g = d.build();
            let live = d.live();
            let root = *rng.pick(&live);
            let p = PGPattern::from_host_with_root(g, NodeIndex::new(root));
            if let Ok(Ok(cs)) = catch(|| p.try_to_constraint_vec()) {
                for c in cs {
                    if !pool.contains(&c) {
                        pool.push(c);
                    }
                }
            }
        }
        let mut keys: Vec<PGIndexKey> = vec![];
        for c in &pool {
            for k in c.required_bindings() {
                if !keys.contains(k) {
                    keys.push(*k);
                }
            }
        }
        let conn: Vec<PGConstraint> = pool
            .iter()
            .filter(|c| matches!(c.predicate(), PGPredicate::IsConnected { .. }))
            .cloned()
            .collect();
        if !conn.is_empty() && keys.len() >= 2 {
            for _ in 0..rng.below(4) {
                let base = rng.pick(&conn).clone();
                let (lp, rp) = match base.predicate() {
                    PGPredicate::IsConnected { left_port, right_port } => (*left_port, *right_port),
                    _ => continue,
                };
                let kb = base.required_bindings();
                let (mut kl, mut kr, mut lp2, mut rp2) = (kb[0], kb[1], lp, rp);
                let flip = |rng: &mut Rng, p: PortOffset| match p {
                    PortOffset::Incoming(_) => PortOffset::new_incoming(rng.below(3)),
                    PortOffset::Outgoing(_) => PortOffset::new_outgoing(rng.below(3)),
                };
                match rng.below(4) {
                    0 => {
                        // same left end, another right end
                        kr = *rng.pick(&keys);
                        rp2 = flip(&mut rng, rp);
                    }
                    1 => {
                        // same right end, another left end
                        kl = *rng.pick(&keys);
                        lp2 = flip(&mut rng, lp);
                    }
                    2 => {
                        kr = *rng.pick(&keys);
                    }
                    _ => {
                        kl = *rng.pick(&keys);
                    }
                }
                if let Ok(c) = Constraint::try_new(
                    PGPredicate::IsConnected { left_port: lp2, right_port: rp2 },
                    vec![kl, kr],
                ) {
                    if !pool.contains(&c) {
                        pool.push(c);
                    }
                }
            }
        }
        let mut family: Vec<PGConstraint> = pool.iter().filter(|_| rng.chance(2, 3)).cloned().collect();
        if family.is_empty() {
            continue;
        }
        // a random rotation: the decomposition must not depend on the input order
        let r = rng.below(family.len());
        family.rotate_left(r);
        let t = match catch(|| PGPredicate::to_constraints_tree(family.clone())) {
            Ok(t) => t,
            Err(_) => continue,
        };
        {
            let mut l = Line::new("TRG");
            l.list(&family, |l, c| enc_pgcons(l, c));
            l.arrow();
            enc_tree(&mut l, &t, enc_pgcons);
            l.emit();
        }
        // conditioned() across patterns
        {
            let c = rng.pick(&family).clone();
            let sat: Vec<&PGConstraint> = family.iter().filter(|x| **x != c && rng.chance(1, 2)).collect();
            let mut l = Line::new("PGD");
            enc_pgcons(&mut l, &c);
            l.list(&sat, |l, c| enc_pgcons(l, c));
            l.arrow();
            let r = PGPredicate::conditioned(&c, &sat);
            l.opt(&r, |l, c| enc_pgcons(l, c));
            l.emit();
        }
        // host + injective bindings
        let mut fkeys: Vec<PGIndexKey> = vec![];
        for c in &family {
            for k in c.required_bindings() {
                if !fkeys.contains(k) {
                    fkeys.push(*k);
                }
            }
        }
        let hn = fkeys.len() + rng.below(2);
        let mut hd = GDesc { nodes: vec![Some((3, 3)); hn], links: vec![] };
        let mut maps: Vec<FxHashMap<PGIndexKey, NodeIndex>> = vec![];
        for _ in 0..4 {
            let mut nodes: Vec<usize> = (0..hn).collect();
            let mut m: FxHashMap<PGIndexKey, NodeIndex> = FxHashMap::default();
            for k in &fkeys {
                let i = rng.below(nodes.len());
                m.insert(*k, NodeIndex::new(nodes.swap_remove(i)));
            }
            maps.push(m);
        }
        let mut used_out: Vec<(usize, usize)> = vec![];
        let mut used_in: Vec<(usize, usize)> = vec![];
        let mut add = |hd: &mut GDesc, o: (usize, usize), i: (usize, usize)| {
            if o.1 < 3 && i.1 < 3 && !used_out.contains(&o) && !used_in.contains(&i) {
                used_out.push(o);
                used_in.push(i);
                hd.links.push((o, i));
            }
        };
        for (mi, m) in maps.iter().enumerate() {
            for c in &family {
                if let PGPredicate::IsConnected { left_port, right_port } = c.predicate() {
                    if !rng.chance(if mi == 0 { 2 } else { 1 }, 3) {
                        continue;
                    }
                    let kb = c.required_bindings();
                    let (a, b) = (m[&kb[0]].index(), m[&kb[1]].index());
                    match (left_port, right_port) {
                        (PortOffset::Outgoing(o), PortOffset::Incoming(i)) => {
                            add(&mut hd, (a, *o as usize), (b, *i as usize))
                        }
                        (PortOffset::Incoming(i), PortOffset::Outgoing(o)) => {
                            add(&mut hd, (b, *o as usize), (a, *i as usize))
                        }
                        _ => {}
                    }
                }
            }
        }
        for _ in 0..rng.below(3) {
            let o = (rng.below(hn), rng.below(3));
            let i = (rng.below(hn), rng.below(3));
            add(&mut hd, o, i);
        }
        let mut l = Line::new("TRGH");
        l.list(&family, |l, c| enc_pgcons(l, c));
        hd.encode(&mut l);
        l.list(&maps, |l, m| enc_pgmap(l, m));
        l.arrow();
        enc_tree(&mut l, &t, enc_pgcons);
        l.emit();
    }
}
