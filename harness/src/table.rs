//! The harness-defined *table domain* (DESIGN §3.4): keys and values are small integers, the
//! prerequisite relation and the offered values are given by tables, predicates record their
//! invocations. Generic in the binding map (FxHashMap / BTreeMap).
use portmatching::{ArityPredicate, BindMap, IndexedData, IndexingScheme, Predicate};
use std::borrow::Borrow;
use std::cell::RefCell;
use std::marker::PhantomData;

use crate::proto::Line;

thread_local! {
    /// `required_bindings` table of the current case (the scheme type must be `Default`).
    pub static REQ: RefCell<Vec<Vec<usize>>> = const { RefCell::new(Vec::new()) };
    /// Invocation log of `TPred::check`.
    pub static CALLS: RefCell<Vec<Vec<usize>>> = const { RefCell::new(Vec::new()) };
}

pub fn set_req(req: &[Vec<usize>]) {
    REQ.with(|r| *r.borrow_mut() = req.to_vec());
}

pub fn take_calls() -> Vec<Vec<usize>> {
    CALLS.with(|c| std::mem::take(&mut *c.borrow_mut()))
}

pub struct TScheme<M>(PhantomData<M>);
impl<M> Default for TScheme<M> {
    fn default() -> Self {
        TScheme(PhantomData)
    }
}
impl<M> Clone for TScheme<M> {
    fn clone(&self) -> Self {
        TScheme(PhantomData)
    }
}

impl<M: BindMap<Key = usize, Value = usize>> IndexingScheme for TScheme<M> {
    type BindMap = M;
    fn required_bindings(&self, key: &usize) -> Vec<usize> {
        REQ.with(|r| r.borrow().get(*key).cloned().unwrap_or_default())
    }
}

/// One rule of a host table: if `cond` holds of the current bindings, offer `vals`.
#[derive(Clone, Debug)]
pub struct Rule {
    pub cond: Option<(usize, usize)>,
    pub vals: Vec<usize>,
}

#[derive(Clone, Debug)]
pub struct THost<M> {
    /// Offer nothing when a prerequisite of the key is unbound (the documented contract).
    pub strict: bool,
    pub rules: Vec<Vec<Rule>>,
    pub _m: PhantomData<M>,
}

impl<M> THost<M> {
    pub fn new(strict: bool, rules: Vec<Vec<Rule>>) -> Self {
        THost {
            strict,
            rules,
            _m: PhantomData,
        }
    }
    pub fn encode(&self, l: &mut Line) {
        l.tok(self.strict as usize);
        l.list(&self.rules, |l, rs| {
            l.list(rs, |l, r| {
                l.opt(&r.cond, |l, (k, v)| {
                    l.tok(k).tok(v);
                });
                l.nats(&r.vals);
            });
        });
    }
}

impl<M: BindMap<Key = usize, Value = usize>> IndexedData for THost<M> {
    type IndexingScheme = TScheme<M>;
    fn list_bind_options(&self, key: &usize, known: &M) -> Vec<usize> {
        if self.strict {
            let reqs = REQ.with(|r| r.borrow().get(*key).cloned().unwrap_or_default());
            if reqs.iter().any(|r| known.get(r).is_none()) {
                return vec![];
            }
        }
        let mut out = vec![];
        if let Some(rules) = self.rules.get(*key) {
            for r in rules {
                let holds = match r.cond {
                    None => true,
                    Some((k, v)) => known.get(&k).map(|x| *x.borrow()) == Some(v),
                };
                if holds {
                    out.extend(r.vals.iter().copied());
                }
            }
        }
        out
    }
}

/// Predicates of the table domain. Every `check` call is recorded in `CALLS`.
#[derive(Clone, Copy, Debug, PartialEq, Eq, Hash, PartialOrd, Ord)]
pub enum TPred {
    /// arity 2: the two values are equal
    Eq,
    /// arity 2: the two values differ
    Ne,
    /// arity 1: the value equals the constant
    Const(usize),
    /// arity n: always true
    True(usize),
    /// arity 2: first value is smaller
    Lt,
    /// arity n+1: the first value differs from all the others (the table-domain analogue of
    /// `PGPredicate::IsNotEqual`)
    NotIn(usize),
}

impl TPred {
    pub fn encode(&self, l: &mut Line) {
        match self {
            TPred::Eq => l.tok(0),
            TPred::Ne => l.tok(1),
            TPred::Const(c) => l.tok(2).tok(c),
            TPred::True(n) => l.tok(3).tok(n),
            TPred::Lt => l.tok(4),
            TPred::NotIn(n) => l.tok(5).tok(n),
        };
    }
}

impl ArityPredicate for TPred {
    fn arity(&self) -> usize {
        match self {
            TPred::Eq | TPred::Ne | TPred::Lt => 2,
            TPred::Const(_) => 1,
            TPred::True(n) => *n,
            TPred::NotIn(n) => *n + 1,
        }
    }
}

impl<M: BindMap<Key = usize, Value = usize>> Predicate<THost<M>> for TPred {
    fn check(&self, _data: &THost<M>, args: &[impl Borrow<usize>]) -> bool {
        let vals: Vec<usize> = args.iter().map(|a| *a.borrow()).collect();
        CALLS.with(|c| c.borrow_mut().push(vals.clone()));
        match (self, vals.as_slice()) {
            (TPred::Eq, [a, b]) => a == b,
            (TPred::Ne, [a, b]) => a != b,
            (TPred::Lt, [a, b]) => a < b,
            (TPred::Const(c), [a]) => a == c,
            (TPred::True(n), v) if v.len() == *n => true,
            (TPred::NotIn(n), v) if v.len() == *n + 1 => !v[1..].contains(&v[0]),
            _ => panic!("tpred arity"),
        }
    }
}

// ---------------------------------------------------------------------------------------
// Constraint-tree strategies of the table domain (each respects the documented contract).

use portmatching::{ConditionedPredicate, Constraint, ConstraintTree, ToConstraintsTree};
use std::collections::BTreeSet;

thread_local! {
    /// 0 first-only, 1 transitive mutex, 2 pairwise mutex, 3 powerset (<= 4 constraints),
    /// 4 root labels for trivially true constraints + transitive mutex,
    /// 5 first only, `Ne(a,b)` split into the siblings `Lt(a,b)` / `Lt(b,a)` with the same label
    pub static STRATEGY: RefCell<usize> = const { RefCell::new(0) };
}

pub fn set_strategy(s: usize) {
    STRATEGY.with(|x| *x.borrow_mut() = s);
}

pub type TCons = Constraint<usize, TPred>;

/// sort key of a table constraint: (largest argument, predicate, arguments)
pub fn tcons_key(c: &TCons) -> (usize, TPred, Vec<usize>) {
    (
        c.required_bindings().iter().copied().max().unwrap_or(0),
        *c.predicate(),
        c.required_bindings().to_vec(),
    )
}

/// genuinely mutually exclusive: two `Const` checks of the same key against different constants
pub fn tcons_mutex(a: &TCons, b: &TCons) -> bool {
    match (a.predicate(), b.predicate()) {
        (TPred::Const(x), TPred::Const(y)) => {
            x != y && a.required_bindings() == b.required_bindings()
        }
        _ => false,
    }
}

impl ConditionedPredicate<usize> for TPred {
    fn conditioned(constraint: &TCons, satisfied: &[&TCons]) -> Option<TCons> {
        match constraint.predicate() {
            TPred::True(_) => None,
            TPred::NotIn(_) => {
                let first = constraint.required_bindings()[0];
                let mut keys: BTreeSet<usize> =
                    constraint.required_bindings()[1..].iter().copied().collect();
                for s in satisfied.iter().filter(|s| {
                    matches!(s.predicate(), TPred::NotIn(_)) && s.required_bindings()[0] == first
                }) {
                    for k in &s.required_bindings()[1..] {
                        keys.remove(k);
                    }
                }
                if keys.is_empty() {
                    return None;
                }
                let mut args = vec![first];
                let n = keys.len();
                args.extend(keys);
                Some(Constraint::try_new(TPred::NotIn(n), args).unwrap())
            }
            _ => Some(constraint.clone()),
        }
    }
}

impl ToConstraintsTree<usize> for TPred {
    fn to_constraints_tree(constraints: Vec<TCons>) -> ConstraintTree<TCons> {
        if constraints.is_empty() {
            return ConstraintTree::new();
        }
        let mut sorted: Vec<(TCons, usize)> =
            constraints.into_iter().enumerate().map(|(i, c)| (c, i)).collect();
        sorted.sort_by_key(|(c, _)| tcons_key(c));
        match STRATEGY.with(|s| *s.borrow()) {
            0 => {
                sorted.truncate(1);
                ConstraintTree::with_children(sorted.into_iter().map(|(c, i)| (c, vec![i])))
            }
            1 => ConstraintTree::with_transitive_mutex(sorted, tcons_mutex),
            2 => ConstraintTree::with_pairwise_mutex(sorted, tcons_mutex),
            3 => {
                sorted.truncate(4);
                ConstraintTree::with_powerset(sorted)
            }
            5 => {
                // one constraint index on several sibling nodes: Ne(a, b) = Lt(a, b) | Lt(b, a)
                sorted.truncate(1);
                let (c, i) = sorted.pop().unwrap();
                if let (TPred::Ne, [a, b]) = (*c.predicate(), c.required_bindings()) {
                    let lt1 = Constraint::try_new(TPred::Lt, vec![*a, *b]).unwrap();
                    let lt2 = Constraint::try_new(TPred::Lt, vec![*b, *a]).unwrap();
                    ConstraintTree::with_children([(lt1, vec![i]), (lt2, vec![i])])
                } else {
                    ConstraintTree::with_children([(c, vec![i])])
                }
            }
            _ => {
                // trivially true constraints label the root only; the others form a
                // transitive-mutex tree (deterministic root)
                let (trues, rest): (Vec<_>, Vec<_>) = sorted
                    .into_iter()
                    .partition(|(c, _)| matches!(c.predicate(), TPred::True(_)));
                let mut t = ConstraintTree::with_transitive_mutex(rest, tcons_mutex);
                t.set_make_det(true);
                for (_, i) in trues {
                    t.add_constraint_index(t.root(), i);
                }
                t
            }
        }
    }
}
