//! The harness-defined *table domain* (DESIGN §3.4): keys and values are small integers, the
//! prerequisite relation and the offered values are given by tables, predicates record their
//! invocations. Generic in the binding map (FxHashMap / BTreeMap).
use portmatching::{ArityPredicate, BindMap, IndexedData, IndexingScheme, Predicate};
use std::borrow::Borrow;
use std::cell::RefCell;
use std::marker::PhantomData;

use crate::proto::Line;

thread_local! {
    /// `required_bindings` table of the current case (the scheme type must be `Default`).
    pub static REQ: RefCell<Vec<Vec<usize>>> = const { RefCell::new(Vec::new()) };
    /// Invocation log of `TPred::check`.
    pub static CALLS: RefCell<Vec<Vec<usize>>> = const { RefCell::new(Vec::new()) };
}

pub fn set_req(req: &[Vec<usize>]) {
    REQ.with(|r| *r.borrow_mut() = req.to_vec());
}

pub fn take_calls() -> Vec<Vec<usize>> {
    CALLS.with(|c| std::mem::take(&mut *c.borrow_mut()))
}

pub struct TScheme<M>(PhantomData<M>);
impl<M> Default for TScheme<M> {
    fn default() -> Self {
        TScheme(PhantomData)
    }
}
impl<M> Clone for TScheme<M> {
    fn clone(&self) -> Self {
        TScheme(PhantomData)
    }
}

impl<M: BindMap<Key = usize, Value = usize>> IndexingScheme for TScheme<M> {
    type BindMap = M;
    fn required_bindings(&self, key: &usize) -> Vec<usize> {
        REQ.with(|r| r.borrow().get(*key).cloned().unwrap_or_default())
    }
}

/// One rule of a host table: if `cond` holds of the current bindings, offer `vals`.
#[derive(Clone, Debug)]
pub struct Rule {
    pub cond: Option<(usize, usize)>,
    pub vals: Vec<usize>,
}

#[derive(Clone, Debug)]
pub struct THost<M> {
    /// Offer nothing when a prerequisite of the key is unbound (the documented contract).
    pub strict: bool,
    pub rules: Vec<Vec<Rule>>,
    pub _m: PhantomData<M>,
}

impl<M> THost<M> {
    pub fn new(strict: bool, rules: Vec<Vec<Rule>>) -> Self {
        THost {
            strict,
            rules,
            _m: PhantomData,
        }
    }
    pub fn encode(&self, l: &mut Line) {
        l.tok(self.strict as usize);
        l.list(&self.rules, |l, rs| {
            l.list(rs, |l, r| {
                l.opt(&r.cond, |l, (k, v)| {
                    l.tok(k).tok(v);
                });
                l.nats(&r.vals);
            });
        });
    }
}

impl<M: BindMap<Key = usize, Value = usize>> IndexedData for THost<M> {
    type IndexingScheme = TScheme<M>;
    fn list_bind_options(&self, key: &usize, known: &M) -> Vec<usize> {
        if self.strict {
            let reqs = REQ.with(|r| r.borrow().get(*key).cloned().unwrap_or_default());
            if reqs.iter().any(|r| known.get(r).is_none()) {
                return vec![];
            }
        }
        let mut out = vec![];
        if let Some(rules) = self.rules.get(*key) {
            for r in rules {
                let holds = match r.cond {
                    None => true,
                    Some((k, v)) => known.get(&k).map(|x| *x.borrow()) == Some(v),
                };
                if holds {
                    out.extend(r.vals.iter().copied());
                }
            }
        }
        out
    }
}

/// Predicates of the table domain. Every `check` call is recorded in `CALLS`.
#[derive(Clone, Copy, Debug, PartialEq, Eq, Hash, PartialOrd, Ord)]
pub enum TPred {
    /// arity 2: the two values are equal
    Eq,
    /// arity 2: the two values differ
    Ne,
    /// arity 1: the value equals the constant
    Const(usize),
    /// arity n: always true
    True(usize),
    /// arity 2: first value is smaller
    Lt,
}

impl TPred {
    pub fn encode(&self, l: &mut Line) {
        match self {
            TPred::Eq => l.tok(0),
            TPred::Ne => l.tok(1),
            TPred::Const(c) => l.tok(2).tok(c),
            TPred::True(n) => l.tok(3).tok(n),
            TPred::Lt => l.tok(4),
        };
    }
}

impl ArityPredicate for TPred {
    fn arity(&self) -> usize {
        match self {
            TPred::Eq | TPred::Ne | TPred::Lt => 2,
            TPred::Const(_) => 1,
            TPred::True(n) => *n,
        }
    }
}

impl<M: BindMap<Key = usize, Value = usize>> Predicate<THost<M>> for TPred {
    fn check(&self, _data: &THost<M>, args: &[impl Borrow<usize>]) -> bool {
        let vals: Vec<usize> = args.iter().map(|a| *a.borrow()).collect();
        CALLS.with(|c| c.borrow_mut().push(vals.clone()));
        match (self, vals.as_slice()) {
            (TPred::Eq, [a, b]) => a == b,
            (TPred::Ne, [a, b]) => a != b,
            (TPred::Lt, [a, b]) => a < b,
            (TPred::Const(c), [a]) => a == c,
            (TPred::True(n), v) if v.len() == *n => true,
            _ => panic!("tpred arity"),
        }
    }
}
