//! Stage MAP: the four shipped `BindMap`s driven through the public trait by operation
//! sequences; after every operation `get` is read for every probe key.
use crate::proto::{catch, Line};
use crate::rng::Rng;
use portmatching::indexing::BindVariableError;
use portmatching::matrix::{MatrixPatternPosition, MatrixPositionMap, MatrixSubjectPosition};
use portmatching::string::{StringPatternPosition, StringPositionMap, StringSubjectPosition};
use portmatching::BindMap;
use rustc_hash::{FxHashMap, FxHashSet};
use std::borrow::Borrow;
use std::collections::BTreeMap;
use std::hash::Hash;

#[derive(Clone, Debug)]
pub enum Op<K, V> {
    Bind(K, V),
    Retain(Vec<K>),
}

/// Drive one map through `ops`; `ek`/`ev` encode keys and values.
fn drive<M, K, V>(
    kind: usize,
    probes: &[K],
    ops: &[Op<K, V>],
    ek: impl Fn(&mut Line, &K),
    ev: impl Fn(&mut Line, &V),
) where
    M: BindMap<Key = K, Value = V>,
    K: Copy + Eq + Hash,
    V: Clone,
{
    let mut inp = Line::new("MO");
    inp.tok(kind);
    inp.list(probes, |l, k| ek(l, k));
    let mut outp = Line::default();
    let mut m = M::default();
    let mut done_ops: Vec<(Op<K, V>, Vec<K>)> = vec![];
    for op in ops {
        let mut order = vec![];
        let res: Result<Result<(), BindVariableError>, String> = match op {
            Op::Bind(k, v) => {
                let (k, v) = (*k, v.clone());
                catch(|| m.bind(k, v))
            }
            Op::Retain(ks) => {
                let set: FxHashSet<K> = ks.iter().copied().collect();
                // the order in which `retain_keys` will iterate the set (choice point c8)
                order = set.iter().copied().collect();
                catch(|| {
                    m.retain_keys(&set);
                    Ok(())
                })
            }
        };
        done_ops.push((op.clone(), order));
        match &res {
            Ok(Ok(())) => outp.tok("ok"),
            Ok(Err(BindVariableError::VariableExists { .. })) => outp.tok("E1"),
            Ok(Err(BindVariableError::InvalidKey { .. })) => outp.tok("E2"),
            Ok(Err(_)) => outp.tok("E?"),
            Err(_) => outp.tok("P"),
        };
        if res.is_err() {
            // a panicking operation ends the history (the map may be half-updated)
            break;
        }
        for p in probes {
            match catch(|| m.get(p).map(|v| v.borrow().clone())) {
                Ok(None) => {
                    outp.tok(0);
                }
                Ok(Some(v)) => {
                    outp.tok(1);
                    ev(&mut outp, &v);
                }
                Err(_) => {
                    outp.tok("P");
                }
            }
        }
    }
    inp.list(&done_ops, |l, (op, order)| match op {
        Op::Bind(k, v) => {
            l.tok("B");
            ek(l, k);
            ev(l, v);
        }
        Op::Retain(_) => {
            l.tok("R");
            l.list(order, |l, k| ek(l, k));
        }
    });
    println!("{} =>{}", inp.0, outp.0);
}

fn ek_nat(l: &mut Line, k: &usize) {
    l.tok(k);
}

fn all_seqs<K: Clone, V: Clone>(alphabet: &[Op<K, V>], len: usize) -> Vec<Vec<Op<K, V>>> {
    let mut out: Vec<Vec<Op<K, V>>> = vec![vec![]];
    let mut frontier: Vec<Vec<Op<K, V>>> = vec![vec![]];
    for _ in 0..len {
        let mut next = vec![];
        for s in &frontier {
            for o in alphabet {
                let mut s2 = s.clone();
                s2.push(o.clone());
                next.push(s2);
            }
        }
        out.extend(next.iter().cloned());
        frontier = next;
    }
    out
}

pub fn run(seed: u64, thorough: bool) {
    let mut rng = Rng::new(seed, "maps");
    let depth = if thorough { 5 } else { 4 };
    // ---- generic maps: keys {0,1,2}, values {0,1}
    {
        let mut alpha: Vec<Op<usize, usize>> = vec![];
        for k in 0..3 {
            for v in 0..2 {
                alpha.push(Op::Bind(k, v));
            }
        }
        alpha.push(Op::Retain(vec![]));
        alpha.push(Op::Retain(vec![0]));
        alpha.push(Op::Retain(vec![1, 2]));
        alpha.push(Op::Retain(vec![0, 2]));
        let probes = [0usize, 1, 2, 3];
        for s in all_seqs(&alpha, depth) {
            drive::<FxHashMap<usize, usize>, _, _>(0, &probes, &s, ek_nat, ek_nat);
            drive::<BTreeMap<usize, usize>, _, _>(1, &probes, &s, ek_nat, ek_nat);
        }
    }
    // ---- string position map: keys {0,1,2}, values {0,3}
    {
        let sk = |l: &mut Line, k: &StringPatternPosition| {
            let k: usize = (*k).into();
            l.tok(k);
        };
        let sv = |l: &mut Line, v: &StringSubjectPosition| {
            let v: usize = (*v).into();
            l.tok(v);
        };
        let key = StringPatternPosition::from;
        let val = StringSubjectPosition::from;
        let mut alpha = vec![];
        for k in 0..3usize {
            for v in [0usize, 3] {
                alpha.push(Op::Bind(key(k), val(v)));
            }
        }
        // prerequisite-closed key sets (contain the start key or are empty)
        alpha.push(Op::Retain(vec![]));
        alpha.push(Op::Retain(vec![key(0)]));
        alpha.push(Op::Retain(vec![key(0), key(1)]));
        alpha.push(Op::Retain(vec![key(0), key(2)]));
        let probes: Vec<_> = (0..4usize).map(key).collect();
        for s in all_seqs(&alpha, depth) {
            drive::<StringPositionMap, _, _>(2, &probes, &s, sk, sv);
        }
        // S4: retain_keys with every prerequisite-closed subset of 12 keys (hash order decides
        // whether the start key is re-bound first)
        let nsub = if thorough { 4096 } else { 600 };
        for i in 0..nsub {
            let mask = if thorough { i } else { rng.below(4096) };
            let mut ks = vec![key(0)];
            for b in 1..12usize {
                if mask >> b & 1 == 1 {
                    ks.push(key(b));
                }
            }
            let ops = vec![
                Op::Bind(key(0), val(rng.below(5))),
                Op::Bind(key(11), val(0)),
                Op::Retain(ks),
            ];
            let probes: Vec<_> = (0..13usize).map(key).collect();
            drive::<StringPositionMap, _, _>(2, &probes, &ops, sk, sv);
        }
        // malformed stream: non-closed key sets (only model agreement, incl. the panic)
        for _ in 0..(if thorough { 3000 } else { 300 }) {
            let mut ks = vec![];
            for b in 0..6usize {
                if rng.chance(1, 2) {
                    ks.push(key(b));
                }
            }
            let ops = vec![
                Op::Bind(key(0), val(rng.below(5))),
                Op::Bind(key(rng.range(1, 5)), val(0)),
                Op::Retain(ks),
                Op::Bind(key(rng.below(4)), val(1)),
            ];
            let probes: Vec<_> = (0..7usize).map(key).collect();
            drive::<StringPositionMap, _, _>(2, &probes, &ops, sk, sv);
        }
    }
    // ---- matrix position map
    {
        let mk = |l: &mut Line, k: &MatrixPatternPosition| {
            let k: (isize, isize) = (*k).into();
            l.tok(k.0).tok(k.1);
        };
        let mv = |l: &mut Line, v: &MatrixSubjectPosition| {
            let v: (usize, usize) = (*v).into();
            l.tok(v.0).tok(v.1);
        };
        let key = |r: isize, c: isize| MatrixPatternPosition::from((r, c));
        let val = |r: usize, c: usize| MatrixSubjectPosition::from((r, c));
        let mut alpha = vec![];
        for (r, c) in [(0, 0), (0, 1), (1, 0), (1, 1)] {
            for v in [(0usize, 0usize), (2, 1)] {
                alpha.push(Op::Bind(key(r, c), val(v.0, v.1)));
            }
        }
        alpha.push(Op::Retain(vec![]));
        alpha.push(Op::Retain(vec![key(0, 0)]));
        alpha.push(Op::Retain(vec![key(0, 0), key(1, 1)]));
        alpha.push(Op::Retain(vec![key(0, 0), key(0, 1), key(1, 0)]));
        let probes: Vec<_> = [(0, 0), (0, 1), (1, 0), (1, 1), (2, 0), (0, 2)]
            .iter()
            .map(|&(r, c)| key(r, c))
            .collect();
        let mdepth = if thorough { 4 } else { 3 };
        for s in all_seqs(&alpha, mdepth) {
            drive::<MatrixPositionMap, _, _>(3, &probes, &s, mk, mv);
        }
        // random, with negative offsets (hand-built keys) and the get-underflow panic
        let n = if thorough { 40000 } else { 4000 };
        for _ in 0..n {
            let len = rng.range(1, 8);
            let mut ops = vec![];
            for _ in 0..len {
                if rng.chance(1, 4) {
                    let mut ks = vec![];
                    if rng.chance(4, 5) {
                        ks.push(key(0, 0));
                    }
                    for _ in 0..rng.below(4) {
                        ks.push(key(rng.below(4) as isize - 1, rng.below(4) as isize - 1));
                    }
                    ops.push(Op::Retain(ks));
                } else {
                    let k = if rng.chance(1, 3) {
                        key(0, 0)
                    } else {
                        key(rng.below(4) as isize - 1, rng.below(4) as isize - 1)
                    };
                    ops.push(Op::Bind(k, val(rng.below(3), rng.below(3))));
                }
            }
            let probes: Vec<_> = (-2..3isize)
                .flat_map(|r| (-2..3isize).map(move |c| (r, c)))
                .map(|(r, c)| key(r, c))
                .collect();
            drive::<MatrixPositionMap, _, _>(3, &probes, &ops, mk, mv);
        }
        // S4 for matrices: closed subsets of a 4x4 box
        let nsub = if thorough { 3000 } else { 400 };
        for _ in 0..nsub {
            let mut ks = vec![key(0, 0)];
            for r in 0..4isize {
                for c in 0..4isize {
                    if (r, c) != (0, 0) && rng.chance(1, 2) {
                        ks.push(key(r, c));
                    }
                }
            }
            let ops = vec![
                Op::Bind(key(0, 0), val(rng.below(3), rng.below(3))),
                Op::Bind(key(3, 3), val(0, 0)),
                Op::Retain(ks),
            ];
            let probes: Vec<_> = (0..5isize)
                .flat_map(|r| (0..5isize).map(move |c| (r, c)))
                .map(|(r, c)| key(r, c))
                .collect();
            drive::<MatrixPositionMap, _, _>(3, &probes, &ops, mk, mv);
        }
    }
    // ---- random long histories on the generic maps (<= 30 ops, <= 8 keys)
    let n = if thorough { 20000 } else { 2000 };
    for _ in 0..n {
        let len = rng.range(5, 30);
        let mut ops = vec![];
        for _ in 0..len {
            if rng.chance(1, 5) {
                let ks: Vec<usize> = (0..8).filter(|_| rng.chance(1, 2)).collect();
                ops.push(Op::Retain(ks));
            } else {
                ops.push(Op::Bind(rng.below(8), rng.below(3)));
            }
        }
        let probes: Vec<usize> = (0..9).collect();
        drive::<FxHashMap<usize, usize>, _, _>(0, &probes, &ops, ek_nat, ek_nat);
        drive::<BTreeMap<usize, usize>, _, _>(1, &probes, &ops, ek_nat, ek_nat);
    }
}
