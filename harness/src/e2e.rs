//! End-to-end stage: patterns -> ManyMatcher (with event log and automaton dump) -> matches on
//! several hosts, next to the naive baseline. String, matrix and table domains.
use crate::con::enc_rows;
use crate::idx::{enc_pairs, enc_scheme, random_dag, random_host};
use crate::proto::{catch, Line};
use crate::rng::Rng;
use crate::table::{set_req, set_strategy, TCons, THost, TPred, TScheme};
use crate::tree::{enc_mcons, enc_scons, enc_tcons, random_tcons};
use portmatching::matrix::{MatrixPattern, MatrixPatternPosition, MatrixPositionMap, MatrixString};
use portmatching::string::{
    CharVar, CharacterPredicate, StringIndexingScheme, StringPattern, StringPatternPosition,
    StringPositionMap,
};
use portmatching::verif::{take_log, AutomatonDump, VerifEvent};
use portmatching::{
    Constraint, DetHeuristic, ManyMatcher, NaiveManyMatcher, Pattern, PatternFallback, PatternID,
    PortMatcher,
};
use rustc_hash::FxHashMap;
use std::cell::RefCell;
use std::rc::Rc;

#[derive(Clone, Debug)]
pub enum Heur {
    Default,
    Never,
    Custom(Vec<bool>),
}

impl Heur {
    pub fn encode(&self, l: &mut Line) {
        match self {
            Heur::Default => {
                l.tok(0);
            }
            Heur::Never => {
                l.tok(1);
            }
            Heur::Custom(a) => {
                l.tok(2);
                l.list(a, |l, b| {
                    l.tok(*b as usize);
                });
            }
        }
    }
    pub fn make<K: 'static, P: 'static>(&self) -> (DetHeuristic<K, P>, Rc<RefCell<usize>>) {
        let calls = Rc::new(RefCell::new(0usize));
        let h = match self {
            Heur::Default => DetHeuristic::Default,
            Heur::Never => DetHeuristic::Never,
            Heur::Custom(a) => {
                let a = a.clone();
                let c = calls.clone();
                DetHeuristic::Custom(RefCell::new(Box::new(move |_cs: &[&Constraint<K, P>]| {
                    let i = *c.borrow();
                    *c.borrow_mut() += 1;
                    a.get(i).copied().unwrap_or(false)
                })))
            }
        };
        (h, calls)
    }
}

pub fn enc_events(l: &mut Line, evs: &[VerifEvent]) {
    let evs: Vec<&VerifEvent> = evs
        .iter()
        .filter(|e| !matches!(e, VerifEvent::Snapshot(..)))
        .collect();
    l.list(&evs, |l, e| match e {
        VerifEvent::Topo(s) => {
            l.tok("T").tok(s);
        }
        VerifEvent::Group(s, ts) => {
            l.tok("G").tok(s).nats(ts);
        }
        VerifEvent::DetAsk(s) => {
            l.tok("A").tok(s);
        }
        VerifEvent::DetYes(s) => {
            l.tok("Y").tok(s);
        }
        VerifEvent::MergeTopo(n) => {
            l.tok("O").tok(n);
        }
        VerifEvent::Merge(n, v) => {
            l.tok("M").tok(n).nats(v);
        }
        VerifEvent::IterEnd(s) => {
            l.tok("I").tok(s);
        }
        VerifEvent::Snapshot(..) => {}
    });
}

/// The dump's strings are already protocol-encoded constraints / keys.
pub fn enc_dump(l: &mut Line, d: &AutomatonDump) {
    l.tok(d.root);
    l.list(&d.states, |l, s| {
        l.tok(s.id).tok(s.deterministic as usize);
        l.list(&s.matches, |l, (pid, ks)| {
            l.tok(pid);
            l.list(ks, |l, k| {
                l.tok(k);
            });
        });
        l.list(&s.scope, |l, k| {
            l.tok(k);
        });
        l.nats(&s.constraint_order);
        l.nats(&s.epsilon_order);
        l.list(&s.out_edges, |l, (e, t, c)| {
            l.tok(e).tok(t);
            l.opt(c, |l, c| {
                l.tok(c);
            });
        });
        l.list(&s.in_edges, |l, (e, src)| {
            l.tok(e).tok(src);
        });
    });
}

fn sub(f: impl FnOnce(&mut Line)) -> String {
    let mut l = Line::default();
    f(&mut l);
    l.0.trim_start().to_string()
}

pub fn enc_strmap(l: &mut Line, m: &StringPositionMap) {
    match m {
        StringPositionMap::Unbound => {
            l.tok(0);
        }
        StringPositionMap::Bound { start_pos, str_len } => {
            let s: usize = (*start_pos).into();
            l.tok(1).tok(s).tok(str_len);
        }
    }
}

pub fn enc_matmap(l: &mut Line, m: &MatrixPositionMap) {
    match m {
        MatrixPositionMap::Unbound => {
            l.tok(0);
        }
        MatrixPositionMap::Bound {
            start_pos,
            min_pos,
            max_pos,
        } => {
            let s: (usize, usize) = (*start_pos).into();
            let lo: (isize, isize) = (*min_pos).into();
            let hi: (isize, isize) = (*max_pos).into();
            l.tok(1).tok(s.0).tok(s.1).tok(lo.0).tok(lo.1).tok(hi.0).tok(hi.1);
        }
    }
}

pub fn enc_charvars(l: &mut Line, p: &[CharVar]) {
    l.list(p, |l, cv| match cv {
        CharVar::Literal(c) => {
            l.tok(0).tok(*c as u32);
        }
        CharVar::Variable(c) => {
            l.tok(1).tok(*c as u32);
        }
    });
}

// ------------------------------------------------------------------------------ strings

pub fn string_case(kind: &str, pats: &[Vec<CharVar>], heur: &Heur, hosts: &[String]) {
    let mut l = Line::new(kind);
    l.tok("S");
    l.list(pats, |l, p| enc_charvars(l, p));
    l.tok(1); // fallback Fail (string conversion never fails)
    heur.encode(&mut l);
    l.list(hosts, |l, h| {
        let cs: Vec<usize> = h.chars().map(|c| c as usize).collect();
        l.nats(&cs);
    });
    l.arrow();
    let patterns: Vec<StringPattern> = pats.iter().map(|p| StringPattern::new(p.clone())).collect();
    let r = catch(|| {
        take_log();
        let (h, _calls) = heur.make();
        let m: ManyMatcher<StringPattern, StringPatternPosition, CharacterPredicate, StringIndexingScheme> =
            ManyMatcher::try_from_patterns_with_det_heuristic(
                patterns.clone(),
                PatternFallback::Fail,
                h,
            )
            .unwrap();
        let evs = take_log();
        let naive = NaiveManyMatcher::try_from_patterns(patterns.iter()).unwrap();
        let mut out = Line::default();
        out.tok("ok");
        // constraint vectors as produced by the implementation
        let cvs: Vec<Vec<_>> = patterns
            .iter()
            .map(|p| p.try_to_constraint_vec().unwrap())
            .collect();
        out.list(&cvs, |l, cv| {
            l.tok(1);
            l.list(cv, |l, c| enc_scons(l, c));
        });
        out.tok(m.n_patterns());
        let gp: Vec<usize> = (0..patterns.len() + 2)
            .map(|i| m.get_pattern(PatternID(i)).is_some() as usize)
            .collect();
        out.nats(&gp);
        out.tok(m.n_states());
        enc_events(&mut out, &evs);
        let d = m.verif_automaton().verif_dump(
            |c| sub(|l| enc_scons(l, c)),
            |k| {
                let k: usize = (*k).into();
                k.to_string()
            },
        );
        enc_dump(&mut out, &d);
        out.tok(m.dot_string().matches("->").count());
        for h in hosts {
            let ms: Vec<_> = m.find_matches(h).collect();
            out.list(&ms, |l, pm| {
                l.tok(pm.pattern.0);
                enc_strmap(l, &pm.match_data);
            });
            match catch(|| naive.find_matches(h).collect::<Vec<_>>()) {
                Ok(ns) => {
                    out.tok(1);
                    out.list(&ns, |l, pm| {
                        l.tok(pm.pattern.0);
                        enc_strmap(l, &pm.match_data);
                    });
                }
                Err(_) => {
                    out.tok(0);
                }
            }
        }
        out
    });
    match r {
        Ok(out) => println!("{} {}", l.0, out.0.trim_start()),
        Err(t) => println!("{} P {}", l.0, t),
    }
}

const LITS: [char; 3] = ['a', 'b', 'c'];
const VARS: [char; 3] = ['x', 'y', 'z'];

pub fn random_charvars(rng: &mut Rng, maxlen: usize, nlits: usize) -> Vec<CharVar> {
    let len = if rng.chance(1, 12) { 0 } else { rng.range(1, maxlen) };
    (0..len)
        .map(|_| {
            if rng.chance(2, 5) {
                CharVar::Variable(*rng.pick(&VARS))
            } else {
                CharVar::Literal(LITS[rng.below(nlits)])
            }
        })
        .collect()
}

/// instantiate a pattern consistently, with one perturbed position with probability 1/2
fn instantiate(rng: &mut Rng, p: &[CharVar], perturb: bool) -> Vec<char> {
    let mut env: FxHashMap<char, char> = FxHashMap::default();
    let mut out: Vec<char> = p
        .iter()
        .map(|cv| match cv {
            CharVar::Literal(c) => *c,
            CharVar::Variable(v) => *env.entry(*v).or_insert_with(|| *rng.pick(&LITS)),
        })
        .collect();
    if perturb && !out.is_empty() && rng.chance(1, 2) {
        let i = rng.below(out.len());
        out[i] = *rng.pick(&['a', 'b', 'c', 'd']);
    }
    out
}

pub fn planted_host(rng: &mut Rng, pats: &[Vec<CharVar>], maxlen: usize) -> String {
    match rng.below(12) {
        0 => return String::new(),
        1 => {
            // non-ASCII host: multi-byte characters shift byte length against char count
            let n = rng.range(1, 5);
            return (0..n).map(|_| *rng.pick(&['a', 'é', 'b', '\u{10348}'])).collect();
        }
        _ => {}
    }
    let mut out: Vec<char> = vec![];
    while out.len() < maxlen {
        if !pats.is_empty() && rng.chance(2, 3) {
            let p = rng.pick(pats).clone();
            out.extend(instantiate(rng, &p, true));
        } else {
            out.push(*rng.pick(&LITS));
        }
        if rng.chance(1, 4) {
            break;
        }
    }
    out.truncate(maxlen);
    out.into_iter().collect()
}

pub fn random_heur(rng: &mut Rng) -> Heur {
    match rng.below(4) {
        0 => Heur::Default,
        1 => Heur::Never,
        _ => Heur::Custom((0..40).map(|_| rng.chance(1, 2)).collect()),
    }
}

pub fn gen_string_set(rng: &mut Rng, thorough: bool) -> Vec<Vec<CharVar>> {
    let np = if rng.chance(1, 30) { 0 } else { rng.range(1, if thorough { 10 } else { 6 }) };
    let nlits = rng.range(1, 3);
    let mut pats: Vec<Vec<CharVar>> = vec![];
    for _ in 0..np {
        if !pats.is_empty() && rng.chance(1, 3) {
            // share a prefix with / duplicate / be an instance of an earlier pattern
            let base = rng.pick(&pats).clone();
            match rng.below(3) {
                0 => pats.push(base),
                1 => {
                    let cut = rng.below(base.len() + 1);
                    let mut p = base[..cut].to_vec();
                    p.extend(random_charvars(rng, 3, nlits));
                    pats.push(p);
                }
                _ => {
                    let p: Vec<CharVar> = base
                        .iter()
                        .map(|cv| match cv {
                            CharVar::Variable(_) if rng.chance(1, 2) => {
                                CharVar::Literal(LITS[rng.below(nlits)])
                            }
                            c => *c,
                        })
                        .collect();
                    pats.push(p);
                }
            }
        } else {
            pats.push(random_charvars(rng, 6, nlits));
        }
    }
    pats
}

pub fn run_strings(seed: u64, thorough: bool, n: usize) {
    let mut rng = Rng::new(seed, "e2e.str");
    // fixed cases first (corpus): witnesses of past findings and the repository's own cases
    let lit = |s: &str| -> Vec<CharVar> {
        let mut out = vec![];
        let mut it = s.chars();
        while let Some(c) = it.next() {
            if c == '$' {
                out.push(CharVar::Variable(it.next().unwrap()));
            } else {
                out.push(CharVar::Literal(c));
            }
        }
        out
    };
    for (host, pats) in [
        ("abccdc", vec!["ab$xcd$x", "abcc"]),
        ("ab", vec!["$x$y$z"]),
        ("ab", vec![""]),
        ("aa", vec!["$x$x$z"]),
        ("eaaa", vec!["a", "$aa", "$b$a$ca", "$b$c$e$e"]),
        ("fef", vec!["$b$a", "fe", "$ae"]),
        ("aab", vec!["ab", "$x$y", "$x$x", "a$x"]),
    ] {
        let ps: Vec<Vec<CharVar>> = pats.iter().map(|p| lit(p)).collect();
        for h in [Heur::Default, Heur::Never, Heur::Custom(vec![true, false, true, false, true])] {
            string_case("E2E", &ps, &h, &[host.to_string(), String::new()]);
        }
    }
    for _ in 0..n {
        let pats = gen_string_set(&mut rng, thorough);
        let heur = random_heur(&mut rng);
        let nh = rng.range(2, 4);
        let hosts: Vec<String> = (0..nh).map(|_| planted_host(&mut rng, &pats, 12)).collect();
        string_case("E2E", &pats, &heur, &hosts);
    }
}
