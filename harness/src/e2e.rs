//! End-to-end stage: patterns -> ManyMatcher (with event log and automaton dump) -> matches on
//! several hosts, next to the naive baseline. String, matrix and table domains.
use crate::con::enc_rows;
use crate::idx::{enc_pairs, enc_scheme, random_dag, random_host};
use crate::proto::{catch, Line};
use crate::rng::Rng;
use crate::table::{set_req, set_strategy, TCons, THost, TPred, TScheme};
use crate::tree::{enc_mcons, enc_scons, enc_tcons, random_tcons};
use portmatching::matrix::{MatrixPattern, MatrixPatternPosition, MatrixPositionMap, MatrixString};
use portmatching::string::{
    CharVar, CharacterPredicate, StringIndexingScheme, StringPattern, StringPatternPosition,
    StringPositionMap,
};
use portmatching::verif::{take_log, AutomatonDump, VerifEvent};
use portmatching::{
    Constraint, DetHeuristic, ManyMatcher, NaiveManyMatcher, Pattern, PatternFallback, PatternID,
    PortMatcher,
};
use rustc_hash::FxHashMap;
use std::cell::RefCell;
use std::rc::Rc;

#[derive(Clone, Debug)]
pub enum Heur {
    Default,
    Never,
    Custom(Vec<bool>),
}

impl Heur {
    pub fn encode(&self, l: &mut Line) {
        match self {
            Heur::Default => {
                l.tok(0);
            }
            Heur::Never => {
                l.tok(1);
            }
            Heur::Custom(a) => {
                l.tok(2);
                l.list(a, |l, b| {
                    l.tok(*b as usize);
                });
            }
        }
    }
    pub fn make<K: 'static, P: 'static>(&self) -> (DetHeuristic<K, P>, Rc<RefCell<usize>>) {
        let calls = Rc::new(RefCell::new(0usize));
        let h = match self {
            Heur::Default => DetHeuristic::Default,
            Heur::Never => DetHeuristic::Never,
            Heur::Custom(a) => {
                let a = a.clone();
                let c = calls.clone();
                DetHeuristic::Custom(RefCell::new(Box::new(move |_cs: &[&Constraint<K, P>]| {
                    let i = *c.borrow();
                    *c.borrow_mut() += 1;
                    a.get(i).copied().unwrap_or(false)
                })))
            }
        };
        (h, calls)
    }
}

pub fn enc_events(l: &mut Line, evs: &[VerifEvent]) {
    let evs: Vec<&VerifEvent> = evs
        .iter()
        .filter(|e| !matches!(e, VerifEvent::Snapshot(..)))
        .collect();
    l.list(&evs, |l, e| match e {
        VerifEvent::Topo(s) => {
            l.tok("T").tok(s);
        }
        VerifEvent::Group(s, ts) => {
            l.tok("G").tok(s).nats(ts);
        }
        VerifEvent::DetAsk(s) => {
            l.tok("A").tok(s);
        }
        VerifEvent::DetYes(s) => {
            l.tok("Y").tok(s);
        }
        VerifEvent::MergeTopo(n) => {
            l.tok("O").tok(n);
        }
        VerifEvent::Merge(n, v) => {
            l.tok("M").tok(n).nats(v);
        }
        VerifEvent::IterEnd(s) => {
            l.tok("I").tok(s);
        }
        VerifEvent::Snapshot(..) => {}
    });
}

/// The dump's strings are already protocol-encoded constraints / keys.
pub fn enc_dump(l: &mut Line, d: &AutomatonDump) {
    l.tok(d.root);
    l.list(&d.states, |l, s| {
        l.tok(s.id).tok(s.deterministic as usize);
        l.list(&s.matches, |l, (pid, ks)| {
            l.tok(pid);
            l.list(ks, |l, k| {
                l.tok(k);
            });
        });
        l.list(&s.scope, |l, k| {
            l.tok(k);
        });
        l.nats(&s.constraint_order);
        l.nats(&s.epsilon_order);
        l.list(&s.out_edges, |l, (e, t, c)| {
            l.tok(e).tok(t);
            l.opt(c, |l, c| {
                l.tok(c);
            });
        });
        l.list(&s.in_edges, |l, (e, src)| {
            l.tok(e).tok(src);
        });
    });
}

fn sub(f: impl FnOnce(&mut Line)) -> String {
    let mut l = Line::default();
    f(&mut l);
    l.0.trim_start().to_string()
}

pub fn enc_strmap(l: &mut Line, m: &StringPositionMap) {
    match m {
        StringPositionMap::Unbound => {
            l.tok(0);
        }
        StringPositionMap::Bound { start_pos, str_len } => {
            let s: usize = (*start_pos).into();
            l.tok(1).tok(s).tok(str_len);
        }
    }
}

pub fn enc_matmap(l: &mut Line, m: &MatrixPositionMap) {
    match m {
        MatrixPositionMap::Unbound => {
            l.tok(0);
        }
        MatrixPositionMap::Bound {
            start_pos,
            min_pos,
            max_pos,
        } => {
            let s: (usize, usize) = (*start_pos).into();
            let lo: (isize, isize) = (*min_pos).into();
            let hi: (isize, isize) = (*max_pos).into();
            l.tok(1).tok(s.0).tok(s.1).tok(lo.0).tok(lo.1).tok(hi.0).tok(hi.1);
        }
    }
}

pub fn enc_charvars(l: &mut Line, p: &[CharVar]) {
    l.list(p, |l, cv| match cv {
        CharVar::Literal(c) => {
            l.tok(0).tok(*c as u32);
        }
        CharVar::Variable(c) => {
            l.tok(1).tok(*c as u32);
        }
    });
}

// ------------------------------------------------------------------------------ generic

use portmatching::indexing::{DataBindMap, DataKey};
use portmatching::{IndexedData, IndexingScheme, Predicate, ToConstraintsTree};
use std::hash::Hash;

/// Build the matcher, log, dump, and match all hosts; appends everything after `=>` to `l` and
/// prints the record. `prefix` already holds the encoded inputs.
#[allow(clippy::too_many_arguments)]
pub fn e2e_generic<PT, P, D>(
    mut l: Line,
    patterns: Vec<PT>,
    fallback: PatternFallback,
    heur: &Heur,
    hosts: &[D],
    enc_cons: impl Fn(&mut Line, &Constraint<DataKey<D>, P>) + Copy,
    enc_key: impl Fn(&DataKey<D>) -> String,
    enc_map: impl Fn(&mut Line, &DataBindMap<D>) + Copy,
) -> Option<E2EResult>
where
    D: IndexedData,
    D::IndexingScheme: Default,
    DataKey<D>: 'static,
    P: Predicate<D> + ToConstraintsTree<DataKey<D>> + std::fmt::Debug + 'static,
    PT: Pattern<Key = DataKey<D>, Predicate = P> + Clone + std::fmt::Debug,
    Constraint<DataKey<D>, P>: Eq + Clone + Hash,
{
    l.arrow();
    if std::env::var("PM_TRACE").is_ok() {
        eprintln!("TRACE {}", l.0);
    }
    let mut result: Option<E2EResult> = None;
    let r = catch(|| {
        take_log();
        let (h, _calls) = heur.make();
        let m: Result<ManyMatcher<PT, DataKey<D>, P, D::IndexingScheme>, _> =
            ManyMatcher::try_from_patterns_with_det_heuristic(patterns.clone(), fallback, h);
        let evs = take_log();
        let mut out = Line::default();
        let m = match m {
            Ok(m) => m,
            Err(_) => {
                out.tok("ERR");
                return out;
            }
        };
        out.tok("ok");
        // constraint vectors as produced by the implementation
        let cvs: Vec<Option<Vec<_>>> = patterns
            .iter()
            .map(|p| p.try_to_constraint_vec().ok())
            .collect();
        out.list(&cvs, |l, cv| {
            l.opt(cv, |l, cv| {
                l.list(cv, |l, c| enc_cons(l, c));
            });
        });
        out.tok(m.n_patterns());
        // 0 = None, 1 = Some(the pattern at that input position), 2 = Some(another pattern)
        let gp: Vec<usize> = (0..patterns.len() + 2)
            .map(|i| match m.get_pattern(PatternID(i)) {
                None => 0,
                Some(p) => {
                    if patterns.get(i).map(|q| format!("{:?}", q)) == Some(format!("{:?}", p)) {
                        1
                    } else {
                        2
                    }
                }
            })
            .collect();
        out.nats(&gp);
        out.tok(m.n_states());
        enc_events(&mut out, &evs);
        let d = m
            .verif_automaton()
            .verif_dump(|c| sub(|l| enc_cons(l, c)), &enc_key);
        enc_dump(&mut out, &d);
        out.tok(m.dot_string().matches(" -> ").count());
        // the baseline is built from the convertible patterns only (it has no fallback mode)
        let convertible: Vec<&PT> = patterns
            .iter()
            .filter(|p| p.try_to_constraint_vec().is_ok())
            .collect();
        let naive = NaiveManyMatcher::try_from_patterns(convertible.into_iter()).ok();
        let mut res = E2EResult {
            asks: evs.iter().filter(|e| matches!(e, VerifEvent::DetAsk(_))).count(),
            n_states: m.n_states(),
            dot: m.dot_string(),
            events: sub(|l| enc_events(l, &evs)),
            many: vec![],
            naive: vec![],
        };
        for h in hosts {
            let ms: Vec<_> = m.find_matches(h).collect();

            out.list(&ms, |l, pm| {
                l.tok(pm.pattern.0);
                enc_map(l, &pm.match_data);
            });
            res.many.push(sub(|l| {
                l.list(&ms, |l, pm| {
                    l.tok(pm.pattern.0);
                    enc_map(l, &pm.match_data);
                });
            }));
            let ns = naive
                .as_ref()
                .and_then(|n| catch(|| n.find_matches(h).collect::<Vec<_>>()).ok());
            out.opt(&ns, |l, ns| {
                l.list(ns, |l, pm| {
                    l.tok(pm.pattern.0);
                    enc_map(l, &pm.match_data);
                });
            });
            res.naive.push(sub(|l| {
                l.opt(&ns, |l, ns| {
                    l.list(ns, |l, pm| {
                        l.tok(pm.pattern.0);
                        enc_map(l, &pm.match_data);
                    });
                });
            }));
        }
        result = Some(res);
        out
    });
    match r {
        Ok(out) => {
            if !quiet() {
                println!("{} {}", l.0, out.0.trim_start())
            }
        }
        Err(t) => println!("{} P {}", l.0, t),
    }
    result
}

/// What a caller needs from an end-to-end case to assemble cross-case records.
pub struct E2EResult {
    pub asks: usize,
    pub n_states: usize,
    pub dot: String,
    pub events: String,
    pub many: Vec<String>,
    pub naive: Vec<String>,
}

thread_local! {
    static QUIET: RefCell<bool> = const { RefCell::new(false) };
}
/// Suppress the E2E record itself (used for probing runs whose record is not wanted).
pub fn set_quiet(q: bool) {
    QUIET.with(|x| *x.borrow_mut() = q);
}
pub fn is_quiet() -> bool {
    quiet()
}
fn quiet() -> bool {
    QUIET.with(|x| *x.borrow())
}

// ------------------------------------------------------------------------------ strings

pub fn string_case(kind: &str, pats: &[Vec<CharVar>], heur: &Heur, hosts: &[String]) -> Option<E2EResult> {
    let mut l = Line::new(kind);
    l.tok("S");
    l.list(pats, |l, p| enc_charvars(l, p));
    l.tok(1); // fallback Fail (string conversion never fails)
    heur.encode(&mut l);
    l.list(hosts, |l, h| {
        let cs: Vec<usize> = h.chars().map(|c| c as usize).collect();
        l.nats(&cs);
    });
    let patterns: Vec<StringPattern> = pats.iter().map(|p| StringPattern::new(p.clone())).collect();
    e2e_generic::<StringPattern, CharacterPredicate, String>(
        l,
        patterns,
        PatternFallback::Fail,
        heur,
        hosts,
        enc_scons,
        |k| {
            let k: usize = (*k).into();
            k.to_string()
        },
        enc_strmap,
    )
}

// ------------------------------------------------------------------------------ matrices

pub type MatPat = Vec<Vec<Option<CharVar>>>;

pub fn enc_matpat(l: &mut Line, p: &MatPat) {
    l.list(p, |l, row| {
        l.list(row, |l, cell| {
            match cell {
                None => l.tok(2).tok(0),
                Some(CharVar::Literal(c)) => l.tok(0).tok(*c as u32),
                Some(CharVar::Variable(c)) => l.tok(1).tok(*c as u32),
            };
        });
    });
}

pub fn matrix_case(kind: &str, pats: &[MatPat], heur: &Heur, hosts: &[Vec<Vec<char>>]) -> Option<E2EResult> {
    let mut l = Line::new(kind);
    l.tok("M");
    l.list(pats, |l, p| enc_matpat(l, p));
    l.tok(1);
    heur.encode(&mut l);
    l.list(hosts, |l, h| enc_rows(l, h));
    let patterns: Vec<MatrixPattern> = pats.iter().map(|p| MatrixPattern::new(p.clone())).collect();
    let hs: Vec<MatrixString> = hosts.iter().map(|h| MatrixString { rows: h.clone() }).collect();
    e2e_generic::<MatrixPattern, CharacterPredicate, MatrixString>(
        l,
        patterns,
        PatternFallback::Fail,
        heur,
        &hs,
        enc_mcons,
        |k: &MatrixPatternPosition| {
            let k: (isize, isize) = (*k).into();
            format!("{} {}", k.0, k.1)
        },
        enc_matmap,
    )
}

pub fn random_matpat(rng: &mut Rng, nlits: usize) -> MatPat {
    let nrows = if rng.chance(1, 15) { 0 } else { rng.range(1, 3) };
    (0..nrows)
        .map(|_| {
            let ncols = rng.range(0, 3);
            (0..ncols)
                .map(|_| match rng.below(7) {
                    0 => None,
                    1 | 2 => Some(CharVar::Variable(*rng.pick(&VARS))),
                    _ => Some(CharVar::Literal(LITS[rng.below(nlits)])),
                })
                .collect()
        })
        .collect()
}

fn instantiate_mat(rng: &mut Rng, p: &MatPat) -> Vec<Vec<char>> {
    let mut env: FxHashMap<char, char> = FxHashMap::default();
    p.iter()
        .map(|row| {
            row.iter()
                .map(|cell| match cell {
                    None => *rng.pick(&LITS),
                    Some(CharVar::Literal(c)) => *c,
                    Some(CharVar::Variable(v)) => *env.entry(*v).or_insert_with(|| *rng.pick(&LITS)),
                })
                .collect()
        })
        .collect()
}

pub fn planted_mat_host(rng: &mut Rng, pats: &[MatPat]) -> Vec<Vec<char>> {
    match rng.below(14) {
        0 => return vec![],
        1 => return vec![vec![], vec!['a']],
        _ => {}
    }
    let nrows = rng.range(1, 5);
    let mut rows: Vec<Vec<char>> = (0..nrows)
        .map(|_| {
            let n = rng.range(0, 6);
            (0..n).map(|_| *rng.pick(&LITS)).collect()
        })
        .collect();
    // plant up to two instantiated patterns
    for _ in 0..rng.range(0, 2) {
        if pats.is_empty() {
            break;
        }
        let chosen = rng.pick(pats).clone();
        let inst = instantiate_mat(rng, &chosen);
        let r0 = rng.below(nrows);
        let c0 = rng.below(4);
        for (i, row) in inst.iter().enumerate() {
            if r0 + i >= rows.len() {
                if rng.chance(1, 2) {
                    break;
                }
                rows.push(vec![]);
            }
            let hr = &mut rows[r0 + i];
            for (j, ch) in row.iter().enumerate() {
                while hr.len() <= c0 + j {
                    hr.push(*rng.pick(&LITS));
                }
                hr[c0 + j] = *ch;
            }
        }
    }
    if rng.chance(1, 4) && !rows.is_empty() {
        // perturb one cell / shorten one row
        let r = rng.below(rows.len());
        if !rows[r].is_empty() {
            if rng.chance(1, 2) {
                let c = rng.below(rows[r].len());
                rows[r][c] = 'd';
            } else {
                rows[r].pop();
            }
        }
    }
    rows
}

pub fn gen_matrix_set(rng: &mut Rng, thorough: bool) -> Vec<MatPat> {
    let np = if rng.chance(1, 30) { 0 } else { rng.range(1, if thorough { 8 } else { 5 }) };
    let nlits = rng.range(1, 3);
    let mut pats: Vec<MatPat> = vec![];
    for _ in 0..np {
        if !pats.is_empty() && rng.chance(1, 4) {
            let mut base = rng.pick(&pats).clone();
            if rng.chance(1, 2) && !base.is_empty() {
                let r = rng.below(base.len());
                base[r].push(Some(CharVar::Literal(LITS[rng.below(nlits)])));
            }
            pats.push(base);
        } else {
            pats.push(random_matpat(rng, nlits));
        }
    }
    pats
}

pub fn run_matrices(seed: u64, thorough: bool, n: usize) {
    let mut rng = Rng::new(seed, "e2e.mat");
    let l = |c: char| Some(CharVar::Literal(c));
    let v = |c: char| Some(CharVar::Variable(c));
    // fixed cases first: the F2 witness and relatives
    let fixed: Vec<(Vec<MatPat>, Vec<Vec<char>>)> = vec![
        (vec![vec![vec![l('a'), v('x')]]], vec![vec!['a']]),
        (vec![vec![vec![l('a'), v('x')]]], vec![vec!['a', 'b'], vec!['a']]),
        (vec![vec![vec![v('x')], vec![v('y')]]], vec![vec!['a', 'b']]),
        (vec![vec![vec![None, l('a')]], vec![]], vec![vec!['b', 'a'], vec!['a']]),
        (vec![vec![vec![v('x'), v('x')], vec![l('a')]]], vec![vec!['b', 'b', 'b'], vec!['a', 'a']]),
    ];
    for (pats, host) in fixed {
        for h in [Heur::Default, Heur::Never] {
            matrix_case("E2E", &pats, &h, &[host.clone(), vec![]]);
        }
    }
    for _ in 0..n {
        let pats = gen_matrix_set(&mut rng, thorough);
        let heur = random_heur(&mut rng);
        let nh = rng.range(1, 3);
        let hosts: Vec<Vec<Vec<char>>> = (0..nh).map(|_| planted_mat_host(&mut rng, &pats)).collect();
        matrix_case("E2E", &pats, &heur, &hosts);
    }
}

// ------------------------------------------------------------------------------ table domain

type HM = FxHashMap<usize, usize>;

/// A table-domain pattern: a constraint list, optional extra required keys, and a flag making
/// it non-convertible (for the fallback modes).
#[derive(Clone, Debug)]
pub struct TPattern {
    pub cons: Vec<TCons>,
    pub extra: Option<Vec<usize>>,
    pub convertible: bool,
}

impl Pattern for TPattern {
    type Key = usize;
    type Predicate = TPred;
    type Error = ();
    fn try_to_constraint_vec(&self) -> Result<Vec<TCons>, ()> {
        if self.convertible {
            Ok(self.cons.clone())
        } else {
            Err(())
        }
    }
    fn required_bindings(&self) -> Option<Vec<usize>> {
        self.extra.clone()
    }
}

pub fn enc_tmap(l: &mut Line, m: &HM) {
    let mut v: Vec<(usize, usize)> = m.iter().map(|(a, b)| (*a, *b)).collect();
    v.sort();
    enc_pairs(l, &v);
}

#[allow(clippy::too_many_arguments)]
pub fn table_case(
    kind: &str,
    req: &[Vec<usize>],
    strategy: usize,
    pats: &[TPattern],
    fallback_fail: bool,
    heur: &Heur,
    hosts: &[THost<HM>],
) -> Option<E2EResult> {
    set_req(req);
    set_strategy(strategy);
    let mut l = Line::new(kind);
    l.tok("T");
    enc_scheme(&mut l, req);
    l.tok(strategy);
    l.list(pats, |l, p| {
        l.list(&p.cons, |l, c| enc_tcons(l, c));
        l.opt(&p.extra, |l, e| {
            l.nats(e);
        });
        l.tok(p.convertible as usize);
    });
    l.tok(fallback_fail as usize);
    heur.encode(&mut l);
    l.list(hosts, |l, h| h.encode(l));
    e2e_generic::<TPattern, TPred, THost<HM>>(
        l,
        pats.to_vec(),
        if fallback_fail { PatternFallback::Fail } else { PatternFallback::Skip },
        heur,
        hosts,
        enc_tcons,
        |k| k.to_string(),
        enc_tmap,
    )
}

pub fn run_table(seed: u64, thorough: bool, n: usize) {
    let mut rng = Rng::new(seed, "e2e.table");
    // fixed case first: the F4 witness — a constraint that holds trivially labels the tree root
    {
        let req = vec![vec![]];
        let t = Constraint::try_new(TPred::True(1), vec![0]).unwrap();
        let c1 = Constraint::try_new(TPred::Const(1), vec![0]).unwrap();
        let pats = vec![
            TPattern { cons: vec![t], extra: None, convertible: true },
            TPattern { cons: vec![c1], extra: None, convertible: true },
        ];
        let host = THost::<HM>::new(
            true,
            vec![vec![crate::table::Rule { cond: None, vals: vec![1, 2] }]],
        );
        for h in [Heur::Default, Heur::Never] {
            table_case("E2E", &req, 4, &pats, true, &h, &[host.clone()]);
        }
    }
    // the F5 witness (repaired): a pattern without constraints that requests key 0; both
    // matchers must report one binding {0: v} per offered v
    {
        let req = vec![vec![]];
        let pats = vec![TPattern { cons: vec![], extra: Some(vec![0]), convertible: true }];
        let host = THost::<HM>::new(
            true,
            vec![vec![crate::table::Rule { cond: None, vals: vec![1, 2] }]],
        );
        for h in [Heur::Default, Heur::Never] {
            table_case("E2E", &req, 0, &pats, true, &h, &[host.clone()]);
        }
    }
    // the patterns of the model-level witness `C09PGEx.tIn2` (Props/C09PGTL.lean: a disciplined MODEL
    // log over the nested powerset decomposition ending with a two-fallback state): what does the
    // real loop do with them? Judged by the driver like any other build (wfCheck on the dump).
    {
        let req: Vec<Vec<usize>> = vec![vec![]; 4];
        let c = |p: TPred, a: Vec<usize>| Constraint::try_new(p, a).unwrap();
        let pats = vec![
            TPattern { cons: vec![c(TPred::Const(2), vec![3])], extra: None, convertible: true },
            TPattern { cons: vec![c(TPred::NotIn(1), vec![3, 0]), c(TPred::True(1), vec![1])], extra: None, convertible: true },
            TPattern {
                cons: vec![c(TPred::Eq, vec![1, 0]), c(TPred::Eq, vec![3, 1]), c(TPred::NotIn(1), vec![3, 2]), c(TPred::Const(1), vec![1])],
                extra: None,
                convertible: true,
            },
            TPattern { cons: vec![c(TPred::Eq, vec![3, 3]), c(TPred::Ne, vec![2, 3]), c(TPred::Eq, vec![2, 2])], extra: None, convertible: true },
        ];
        let rule = || vec![crate::table::Rule { cond: None, vals: vec![1, 2, 3] }];
        let host = THost::<HM>::new(true, vec![rule(), rule(), rule(), rule()]);
        for h in [Heur::Default, Heur::Never, Heur::Custom(vec![true; 64]), Heur::Custom((0..64).map(|i| i % 3 != 1).collect())] {
            table_case("E2E", &req, 3, &pats, true, &h, &[host.clone()]);
        }
    }
    for _ in 0..n {
        let nkeys = rng.range(2, 5);
        let req = random_dag(&mut rng, nkeys, 2);
        let strategy = rng.below(6);
        let np = rng.range(1, if thorough { 7 } else { 5 });
        let mut pats: Vec<TPattern> = vec![];
        for _ in 0..np {
            let nc = rng.range(0, 4);
            let mut cons: Vec<TCons> = if !pats.is_empty() && rng.chance(1, 3) {
                // share a prefix
                let base = &rng.pick(&pats).cons;
                base[..rng.below(base.len() + 1)].to_vec()
            } else {
                vec![]
            };
            while cons.len() < nc {
                let mut c = random_tcons(&mut rng, nkeys);
                if strategy == 3 {
                    // the powerset strategy re-adds unconditioned constraints below every
                    // branch (exponential automata); like the port-graph decomposition it is
                    // only used on not-in / trivially true constraints
                    while !matches!(c.predicate(), TPred::NotIn(_) | TPred::True(_)) {
                        c = random_tcons(&mut rng, nkeys);
                    }
                }
                cons.push(c);
            }
            if strategy == 3 {
                cons.truncate(3);
            }
            let extra = if rng.chance(1, 6) { Some(vec![rng.below(nkeys)]) } else { None };
            pats.push(TPattern { cons, extra, convertible: !rng.chance(1, 10) });
        }
        let fallback_fail = rng.chance(1, 2);
        let heur = random_heur(&mut rng);
        let nh = rng.range(1, 3);
        let hosts: Vec<THost<HM>> = (0..nh)
            .map(|_| {
                let mut h = random_host::<HM>(&mut rng, nkeys, 3);
                // contract-conforming hosts only: offer nothing while a prerequisite is
                // unbound, and let the offer depend on the values of prerequisites only
                h.strict = true;
                for (k, rules) in h.rules.iter_mut().enumerate() {
                    for r in rules.iter_mut() {
                        if let Some((ck, cv)) = r.cond {
                            r.cond = if req[k].is_empty() {
                                None
                            } else {
                                Some((req[k][ck % req[k].len()], cv))
                            };
                        }
                    }
                }
                h
            })
            .collect();
        table_case("E2E", &req, strategy, &pats, fallback_fail, &heur, &hosts);
    }
}

const LITS: [char; 3] = ['a', 'b', 'c'];
const VARS: [char; 3] = ['x', 'y', 'z'];

pub fn random_charvars(rng: &mut Rng, maxlen: usize, nlits: usize) -> Vec<CharVar> {
    let len = if rng.chance(1, 12) { 0 } else { rng.range(1, maxlen) };
    (0..len)
        .map(|_| {
            if rng.chance(2, 5) {
                CharVar::Variable(*rng.pick(&VARS))
            } else {
                CharVar::Literal(LITS[rng.below(nlits)])
            }
        })
        .collect()
}

/// instantiate a pattern consistently, with one perturbed position with probability 1/2
#[allow(dead_code)]
fn instantiate(rng: &mut Rng, p: &[CharVar], perturb: bool) -> Vec<char> {
    let mut env: FxHashMap<char, char> = FxHashMap::default();
    let mut out: Vec<char> = p
        .iter()
        .map(|cv| match cv {
            CharVar::Literal(c) => *c,
            CharVar::Variable(v) => *env.entry(*v).or_insert_with(|| *rng.pick(&LITS)),
        })
        .collect();
    if perturb && !out.is_empty() && rng.chance(1, 2) {
        let i = rng.below(out.len());
        out[i] = *rng.pick(&['a', 'b', 'c', 'd']);
    }
    out
}

pub fn planted_host(rng: &mut Rng, pats: &[Vec<CharVar>], maxlen: usize) -> String {
    match rng.below(12) {
        0 => return String::new(),
        1 => {
            // non-ASCII host: multi-byte characters shift byte length against char count
            let n = rng.range(1, 5);
            return (0..n).map(|_| *rng.pick(&['a', 'é', 'b', '\u{10348}'])).collect();
        }
        _ => {}
    }
    let mut out: Vec<char> = vec![];
    while out.len() < maxlen {
        if !pats.is_empty() && rng.chance(2, 3) {
            let p = rng.pick(pats).clone();
            out.extend(instantiate(rng, &p, true));
        } else {
            out.push(*rng.pick(&LITS));
        }
        if rng.chance(1, 4) {
            break;
        }
    }
    out.truncate(maxlen);
    out.into_iter().collect()
}

pub fn random_heur(rng: &mut Rng) -> Heur {
    match rng.below(4) {
        0 => Heur::Default,
        1 => Heur::Never,
        _ => Heur::Custom((0..40).map(|_| rng.chance(1, 2)).collect()),
    }
}

pub fn gen_string_set(rng: &mut Rng, thorough: bool) -> Vec<Vec<CharVar>> {
    let np = if rng.chance(1, 30) { 0 } else { rng.range(1, if thorough { 10 } else { 6 }) };
    let nlits = rng.range(1, 3);
    let mut pats: Vec<Vec<CharVar>> = vec![];
    for _ in 0..np {
        if !pats.is_empty() && rng.chance(1, 3) {
            // share a prefix with / duplicate / be an instance of an earlier pattern
            let base = rng.pick(&pats).clone();
            match rng.below(3) {
                0 => pats.push(base),
                1 => {
                    let cut = rng.below(base.len() + 1);
                    let mut p = base[..cut].to_vec();
                    p.extend(random_charvars(rng, 3, nlits));
                    pats.push(p);
                }
                _ => {
                    let p: Vec<CharVar> = base
                        .iter()
                        .map(|cv| match cv {
                            CharVar::Variable(_) if rng.chance(1, 2) => {
                                CharVar::Literal(LITS[rng.below(nlits)])
                            }
                            c => *c,
                        })
                        .collect();
                    pats.push(p);
                }
            }
        } else {
            pats.push(random_charvars(rng, 6, nlits));
        }
    }
    pats
}

pub fn run_strings(seed: u64, thorough: bool, n: usize) {
    let mut rng = Rng::new(seed, "e2e.str");
    // fixed cases first (corpus): witnesses of past findings and the repository's own cases
    let lit = |s: &str| -> Vec<CharVar> {
        let mut out = vec![];
        let mut it = s.chars();
        while let Some(c) = it.next() {
            if c == '$' {
                out.push(CharVar::Variable(it.next().unwrap()));
            } else {
                out.push(CharVar::Literal(c));
            }
        }
        out
    };
    for (host, pats) in [
        ("abccdc", vec!["ab$xcd$x", "abcc"]),
        ("ab", vec!["$x$y$z"]),
        ("ab", vec![""]),
        ("aa", vec!["$x$x$z"]),
        ("eaaa", vec!["a", "$aa", "$b$a$ca", "$b$c$e$e"]),
        ("fef", vec!["$b$a", "fe", "$ae"]),
        ("aab", vec!["ab", "$x$y", "$x$x", "a$x"]),
    ] {
        let ps: Vec<Vec<CharVar>> = pats.iter().map(|p| lit(p)).collect();
        for h in [Heur::Default, Heur::Never, Heur::Custom(vec![true, false, true, false, true])] {
            string_case("E2E", &ps, &h, &[host.to_string(), String::new()]);
        }
    }
    for _ in 0..n {
        let pats = gen_string_set(&mut rng, thorough);
        let heur = random_heur(&mut rng);
        let nh = rng.range(2, 4);
        let hosts: Vec<String> = (0..nh).map(|_| planted_host(&mut rng, &pats, 12)).collect();
        string_case("E2E", &pats, &heur, &hosts);
    }
}
