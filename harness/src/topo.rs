//! Stage TOPO: the real `OnlineToposort` driven on a `StableDiGraph<(), ()>` through histories
//! of `next` calls interleaved with graph edits. Before every `next` the scan order of the
//! visited set (hash order) is read through the `verif_state` hook.
use crate::rng::Rng;
use petgraph::graph::{EdgeIndex, NodeIndex};
use petgraph::stable_graph::StableDiGraph;
use portmatching::utils::{verif_online_toposort, VerifOnlineToposort};
use std::fmt::Write;

#[derive(Clone, Debug)]
pub enum Step {
    Next,
    AddNode,
    AddEdge(usize, usize),
    RemoveEdge(usize),
    RemoveNode(usize),
}

type G = StableDiGraph<(), ()>;

/// Build the initial graph (nodes 0..n, given edges), then run the history. One record.
fn run_history(n: usize, edges: &[(usize, usize)], root: usize, steps: &[Step]) {
    let mut out = String::from("TP");
    write!(out, " {} {}", n, edges.len()).unwrap();
    let mut g = G::default();
    for _ in 0..n {
        g.add_node(());
    }
    for &(a, b) in edges {
        g.add_edge(NodeIndex::new(a), NodeIndex::new(b), ());
        write!(out, " {} {}", a, b).unwrap();
    }
    write!(out, " {}", root).unwrap();
    let mut t: VerifOnlineToposort<NodeIndex> = verif_online_toposort(NodeIndex::new(root));
    let mut body = String::new();
    let mut count = 0;
    for s in steps {
        match s {
            Step::Next => {
                let (scan, _) = t.verif_state();
                let r = t.next(&g);
                let (_, stack) = t.verif_state();
                write!(body, " N {}", scan.len()).unwrap();
                for v in scan {
                    write!(body, " {}", v.index()).unwrap();
                }
                match r {
                    Some(x) => write!(body, " 1 {}", x.index()).unwrap(),
                    None => write!(body, " 0").unwrap(),
                }
                write!(body, " {}", stack.len()).unwrap();
                for v in stack {
                    write!(body, " {}", v.index()).unwrap();
                }
            }
            Step::AddNode => {
                let i = g.add_node(());
                write!(body, " AN {}", i.index()).unwrap();
            }
            Step::AddEdge(a, b) => {
                let (a, b) = (NodeIndex::new(*a), NodeIndex::new(*b));
                if !g.contains_node(a) || !g.contains_node(b) {
                    continue;
                }
                let e = g.add_edge(a, b, ());
                write!(body, " AE {} {} {}", a.index(), b.index(), e.index()).unwrap();
            }
            Step::RemoveEdge(e) => {
                let ok = g.remove_edge(EdgeIndex::new(*e)).is_some();
                write!(body, " RE {} {}", e, ok as usize).unwrap();
            }
            Step::RemoveNode(a) => {
                let ok = g.remove_node(NodeIndex::new(*a)).is_some();
                write!(body, " RN {} {}", a, ok as usize).unwrap();
            }
        }
        count += 1;
    }
    println!("{} {}{}", out, count, body);
}

/// A history generated *online* so that it stays admissible: edits are chosen with knowledge
/// of what has been emitted (new nodes hang below existing ones, new edges only point into
/// unvisited nodes from smaller topological positions, an edge is removed only if its target
/// keeps another predecessor, a node is removed only if it is an unvisited leaf or if all its
/// successors keep another predecessor). Mirrors what the automaton builder does.
fn run_admissible(rng: &mut Rng, n0: usize, len: usize) {
    let mut g = G::default();
    let mut topo_pos: Vec<usize> = vec![]; // node index -> position in a fixed topological order
    for i in 0..n0 {
        g.add_node(());
        topo_pos.push(i * 1000);
    }
    let mut edges0 = vec![];
    for j in 1..n0 {
        let i = rng.below(j);
        g.add_edge(NodeIndex::new(i), NodeIndex::new(j), ());
        edges0.push((i, j));
        if j >= 2 && rng.chance(1, 3) {
            let i2 = rng.below(j);
            if i2 != i {
                g.add_edge(NodeIndex::new(i2), NodeIndex::new(j), ());
                edges0.push((i2, j));
            }
        }
    }
    let mut out = format!("TP {} {}", n0, edges0.len());
    for (a, b) in &edges0 {
        write!(out, " {} {}", a, b).unwrap();
    }
    write!(out, " 0").unwrap();
    let mut t: VerifOnlineToposort<NodeIndex> = verif_online_toposort(NodeIndex::new(0));
    let mut visited: Vec<usize> = vec![];
    let mut ever_removed: Vec<usize> = vec![];
    let mut body = String::new();
    let mut count = 0;
    let mut do_next = |g: &G, t: &mut VerifOnlineToposort<NodeIndex>, body: &mut String, visited: &mut Vec<usize>| -> bool {
        let (scan, _) = t.verif_state();
        let r = t.next(g);
        let (_, stack) = t.verif_state();
        write!(body, " N {}", scan.len()).unwrap();
        for v in scan {
            write!(body, " {}", v.index()).unwrap();
        }
        match r {
            Some(x) => {
                write!(body, " 1 {}", x.index()).unwrap();
                visited.push(x.index());
            }
            None => write!(body, " 0").unwrap(),
        }
        write!(body, " {}", stack.len()).unwrap();
        for v in stack {
            write!(body, " {}", v.index()).unwrap();
        }
        r.is_some()
    };
    for _ in 0..len {
        let live: Vec<usize> = g.node_indices().map(|n| n.index()).collect();
        match rng.below(10) {
            0..=3 => {
                do_next(&g, &mut t, &mut body, &mut visited);
                count += 1;
            }
            4 | 5 => {
                // new node below an existing one (never reuse an index that was emitted)
                let a = *rng.pick(&live);
                let i = g.add_node(()).index();
                write!(body, " AN {}", i).unwrap();
                count += 1;
                if visited.contains(&i) || ever_removed.contains(&i) && visited.contains(&i) {
                    // index reuse of an emitted node: the history is inadmissible from here on;
                    // the driver notices. (Kept: the builder does exactly this.)
                }
                if topo_pos.len() <= i {
                    topo_pos.resize(i + 1, 0);
                }
                topo_pos[i] = topo_pos[a] + 1 + rng.below(400);
                let e = g.add_edge(NodeIndex::new(a), NodeIndex::new(i), ());
                write!(body, " AE {} {} {}", a, i, e.index()).unwrap();
                count += 1;
            }
            6 | 7 => {
                // extra edge a -> b, forward in the fixed order, into an unvisited node
                let a = *rng.pick(&live);
                let b = *rng.pick(&live);
                if topo_pos[a] < topo_pos[b] && !visited.contains(&b) {
                    let e = g.add_edge(NodeIndex::new(a), NodeIndex::new(b), ());
                    write!(body, " AE {} {} {}", a, b, e.index()).unwrap();
                    count += 1;
                }
            }
            8 => {
                // remove an edge whose target keeps another predecessor
                let es: Vec<_> = g.edge_indices().collect();
                if !es.is_empty() {
                    let e = *rng.pick(&es);
                    let (_, b) = g.edge_endpoints(e).unwrap();
                    if g.neighbors_directed(b, petgraph::Direction::Incoming).count() >= 2 {
                        g.remove_edge(e);
                        write!(body, " RE {} 1", e.index()).unwrap();
                        count += 1;
                    }
                }
            }
            _ => {
                // remove a non-root node all of whose successors keep another predecessor
                let a = *rng.pick(&live);
                let ok = a != 0
                    && g.neighbors_directed(NodeIndex::new(a), petgraph::Direction::Outgoing)
                        .all(|s| {
                            g.neighbors_directed(s, petgraph::Direction::Incoming)
                                .filter(|p| p.index() != a)
                                .count()
                                >= 1
                        });
                if ok {
                    g.remove_node(NodeIndex::new(a));
                    ever_removed.push(a);
                    write!(body, " RN {} 1", a).unwrap();
                    count += 1;
                }
            }
        }
    }
    // run to exhaustion
    loop {
        let more = do_next(&g, &mut t, &mut body, &mut visited);
        count += 1;
        if !more {
            break;
        }
    }
    println!("{} {}{}", out, count, body);
}

/// all DAGs on nodes 0..n with edges i -> j (i < j) in which every node j > 0 has a predecessor
fn small_dags(n: usize) -> Vec<Vec<(usize, usize)>> {
    let pairs: Vec<(usize, usize)> = (0..n)
        .flat_map(|i| ((i + 1)..n).map(move |j| (i, j)))
        .collect();
    let mut out = vec![];
    for mask in 0..(1usize << pairs.len()) {
        let es: Vec<(usize, usize)> = pairs
            .iter()
            .enumerate()
            .filter(|(k, _)| mask >> k & 1 == 1)
            .map(|(_, p)| *p)
            .collect();
        if (1..n).all(|j| es.iter().any(|&(_, b)| b == j)) {
            out.push(es);
        }
    }
    out
}

fn edit_repertoire(n: usize, nedges: usize) -> Vec<Vec<Step>> {
    let mut eds: Vec<Vec<Step>> = vec![];
    for a in 0..n {
        for b in 0..n {
            if a != b {
                eds.push(vec![Step::AddEdge(a, b)]);
            }
        }
        // new node hanging off `a` (index n if nothing was removed before)
        eds.push(vec![Step::AddNode, Step::AddEdge(a, n)]);
        eds.push(vec![Step::RemoveNode(a)]);
        // remove and re-add: index reuse
        eds.push(vec![Step::RemoveNode(a), Step::AddNode, Step::AddEdge(0, a)]);
    }
    for e in 0..nedges {
        eds.push(vec![Step::RemoveEdge(e)]);
    }
    eds
}

pub fn run(seed: u64, thorough: bool) {
    let mut rng = Rng::new(seed, "topo");
    // exhaustive small space
    for n in 1..=4usize {
        for es in small_dags(n) {
            // plain traversal
            let nexts = vec![Step::Next; n + 2];
            run_history(n, &es, 0, &nexts);
            let rep = edit_repertoire(n, es.len());
            for pos in 0..=n {
                for e1 in &rep {
                    let mut steps = vec![Step::Next; pos];
                    steps.extend(e1.iter().cloned());
                    steps.extend(vec![Step::Next; n + 3 - pos]);
                    run_history(n, &es, 0, &steps);
                    // two edit groups at two positions
                    for pos2 in pos..=n {
                        for e2 in &rep {
                            if !thorough && !rng.chance(1, 40) {
                                continue;
                            }
                            let mut steps = vec![Step::Next; pos];
                            steps.extend(e1.iter().cloned());
                            steps.extend(vec![Step::Next; pos2 - pos]);
                            steps.extend(e2.iter().cloned());
                            steps.extend(vec![Step::Next; n + 4 - pos2]);
                            run_history(n, &es, 0, &steps);
                        }
                    }
                }
            }
        }
    }
    // random admissible histories (generated online)
    let nadm = if thorough { 40000 } else { 4000 };
    for _ in 0..nadm {
        let n0 = rng.range(1, 6);
        let len = rng.range(4, 30);
        run_admissible(&mut rng, n0, len);
    }
    // random histories in the style of the builder: grow below visited nodes, split, fuse, merge
    let nrand = if thorough { 30000 } else { 3000 };
    for _ in 0..nrand {
        let n = rng.range(2, 7);
        let mut es = vec![];
        for j in 1..n {
            let np = rng.range(1, 2.min(j));
            for _ in 0..np {
                let i = rng.below(j);
                if !es.contains(&(i, j)) {
                    es.push((i, j));
                }
            }
        }
        let len = rng.range(5, 25);
        let mut steps = vec![];
        let mut approx_nodes = n;
        let mut approx_edges = es.len();
        for _ in 0..len {
            match rng.below(10) {
                0..=4 => steps.push(Step::Next),
                5 => {
                    steps.push(Step::AddNode);
                    steps.push(Step::AddEdge(rng.below(approx_nodes), approx_nodes));
                    approx_nodes += 1;
                    approx_edges += 1;
                }
                6 => {
                    let a = rng.below(approx_nodes);
                    let b = rng.below(approx_nodes);
                    if a < b {
                        steps.push(Step::AddEdge(a, b));
                        approx_edges += 1;
                    }
                }
                7 => {
                    if approx_edges > 0 {
                        steps.push(Step::RemoveEdge(rng.below(approx_edges)));
                    }
                }
                8 => {
                    if rng.chance(1, 3) {
                        steps.push(Step::RemoveNode(rng.range(1, approx_nodes - 1)));
                    }
                }
                _ => {
                    // split: new node, copy of an edge target
                    steps.push(Step::AddNode);
                    let a = rng.below(approx_nodes);
                    steps.push(Step::AddEdge(a, approx_nodes));
                    if rng.chance(1, 2) && approx_nodes + 1 < 12 {
                        let b = rng.below(approx_nodes);
                        if b > a {
                            steps.push(Step::AddEdge(approx_nodes, b));
                        }
                    }
                    approx_nodes += 1;
                }
            }
        }
        steps.extend(vec![Step::Next; approx_nodes + 2]);
        run_history(n, &es, 0, &steps);
    }
}
