//! Token encoding of the line protocol (DESIGN Appendix B): whitespace separated tokens,
//! lists are length-prefixed, options are `0` / `1 x`.
use std::fmt::Write;

#[derive(Default, Clone)]
pub struct Line(pub String);

impl Line {
    pub fn new(kind: &str) -> Self {
        Line(kind.to_string())
    }
    pub fn tok(&mut self, t: impl std::fmt::Display) -> &mut Self {
        write!(self.0, " {}", t).unwrap();
        self
    }
    pub fn list<T>(&mut self, xs: &[T], mut f: impl FnMut(&mut Line, &T)) -> &mut Self {
        self.tok(xs.len());
        for x in xs {
            f(self, x);
        }
        self
    }
    pub fn nats(&mut self, xs: &[usize]) -> &mut Self {
        self.list(xs, |l, x| {
            l.tok(x);
        })
    }
    pub fn opt<T>(&mut self, x: &Option<T>, f: impl FnOnce(&mut Line, &T)) -> &mut Self {
        match x {
            None => {
                self.tok(0);
            }
            Some(v) => {
                self.tok(1);
                f(self, v);
            }
        }
        self
    }
    pub fn arrow(&mut self) -> &mut Self {
        self.tok("=>")
    }
    pub fn emit(&self) {
        println!("{}", self.0);
    }
}

/// Run `f`, catching panics; the panic message (first line, spaces replaced) is the tag.
pub fn catch<T>(f: impl FnOnce() -> T) -> Result<T, String> {
    let r = std::panic::catch_unwind(std::panic::AssertUnwindSafe(f));
    r.map_err(|e| {
        let msg = if let Some(s) = e.downcast_ref::<&str>() {
            s.to_string()
        } else if let Some(s) = e.downcast_ref::<String>() {
            s.clone()
        } else {
            "panic".to_string()
        };
        msg.lines().next().unwrap_or("panic").replace(' ', "_")
    })
}
