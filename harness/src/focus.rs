//! Focused search: given the input parts of end-to-end records on which model and
//! implementation disagreed (or a proof-side check failed), re-run the SAME pattern sets
//! exhaustively — every heuristic answer string (up to a limit) and every small host over the
//! patterns' alphabet — so that the oracles of the driver can exhibit a concrete failing input.
//! `pm-harness focus <file>`: one record prefix per line (`E2E S …`, `E2E M …`, `E2E G …`).
use crate::e2e::{matrix_case, set_quiet, string_case, Heur, MatPat};
use crate::pg::{decoy_hosts, fold_hosts, host_with_copy, pg_case, GDesc, PgPat};
use crate::rng::Rng;
use portmatching::string::CharVar;

struct Cur<'a> {
    toks: Vec<&'a str>,
    i: usize,
}
impl<'a> Cur<'a> {
    fn nat(&mut self) -> Option<usize> {
        let t = self.toks.get(self.i)?;
        self.i += 1;
        t.parse().ok()
    }
    fn list<T>(&mut self, mut f: impl FnMut(&mut Cur<'a>) -> Option<T>) -> Option<Vec<T>> {
        let n = self.nat()?;
        if n > 10_000 {
            return None;
        }
        let mut v = Vec::with_capacity(n);
        for _ in 0..n {
            v.push(f(self)?);
        }
        Some(v)
    }
}

fn charvar(c: &mut Cur) -> Option<Option<CharVar>> {
    let kind = c.nat()?;
    let code = c.nat()? as u32;
    Some(match kind {
        0 => Some(CharVar::Literal(char::from_u32(code)?)),
        1 => Some(CharVar::Variable(char::from_u32(code)?)),
        _ => None,
    })
}

fn heuristics(rng: &mut Rng, asks: usize, limit: usize) -> Vec<Heur> {
    let mut v = vec![Heur::Default, Heur::Never];
    if asks <= limit {
        for x in 0..(1usize << asks) {
            v.push(Heur::Custom((0..asks).map(|i| x >> i & 1 == 1).collect()));
        }
    } else {
        v.push(Heur::Custom(vec![true; asks]));
        for _ in 0..(1usize << limit) {
            v.push(Heur::Custom((0..asks).map(|_| rng.chance(1, 2)).collect()));
        }
    }
    v
}

fn alphabet(lits: &mut Vec<char>, cap: usize) -> Vec<char> {
    lits.sort();
    lits.dedup();
    lits.truncate(cap);
    // one character that no pattern mentions
    let fresh = ('a'..='z').rev().find(|c| !lits.contains(c)).unwrap_or('~');
    lits.push(fresh);
    lits.clone()
}

fn all_strings(alpha: &[char], maxlen: usize, cap: usize) -> Vec<String> {
    let mut out = vec![String::new()];
    let mut layer = vec![String::new()];
    for _ in 0..maxlen {
        let mut next = vec![];
        for s in &layer {
            for c in alpha {
                let mut t = s.clone();
                t.push(*c);
                next.push(t);
            }
        }
        if out.len() + next.len() > cap {
            break;
        }
        out.extend(next.iter().cloned());
        layer = next;
    }
    out
}

fn focus_strings(rng: &mut Rng, pats: &[Vec<CharVar>], thorough: bool) {
    let mut lits: Vec<char> = pats
        .iter()
        .flatten()
        .filter_map(|cv| if let CharVar::Literal(c) = cv { Some(*c) } else { None })
        .collect();
    let alpha = alphabet(&mut lits, 3);
    let maxlen = pats.iter().map(|p| p.len()).max().unwrap_or(0) + 1;
    let hosts = all_strings(&alpha, maxlen.min(if thorough { 7 } else { 6 }), if thorough { 20000 } else { 6000 });
    set_quiet(true);
    let probe = string_case("E2E", pats, &Heur::Default, &[]);
    set_quiet(false);
    let asks = probe.map(|p| p.asks).unwrap_or(0);
    for heur in heuristics(rng, asks, if thorough { 8 } else { 6 }) {
        for chunk in hosts.chunks(400) {
            string_case("E2E", pats, &heur, chunk);
        }
    }
}

fn all_grids(alpha: &[char], cap: usize, rng: &mut Rng) -> Vec<Vec<Vec<char>>> {
    let mut out: Vec<Vec<Vec<char>>> = vec![vec![], vec![vec![]]];
    let k = alpha.len();
    for (r, c) in [(1, 1), (1, 2), (2, 1), (1, 3), (3, 1), (2, 2), (1, 4), (2, 3), (3, 2)] {
        let cells = r * c;
        let total = k.pow(cells as u32);
        let mut idxs: Vec<usize> = if total <= cap / 4 {
            (0..total).collect()
        } else {
            (0..cap / 4).map(|_| rng.below(total)).collect()
        };
        idxs.dedup();
        for mut x in idxs {
            let mut g = vec![vec!['a'; c]; r];
            for row in g.iter_mut() {
                for cell in row.iter_mut() {
                    *cell = alpha[x % k];
                    x /= k;
                }
            }
            out.push(g);
        }
        // a ragged variant of the shape: drop the last cell of the last row
        if c > 1 {
            let mut g = vec![vec![alpha[0]; c]; r];
            g[r - 1].pop();
            out.push(g);
        }
    }
    out.truncate(cap);
    out
}

fn focus_matrices(rng: &mut Rng, pats: &[MatPat], thorough: bool) {
    let mut lits: Vec<char> = pats
        .iter()
        .flatten()
        .flatten()
        .filter_map(|cv| if let Some(CharVar::Literal(c)) = cv { Some(*c) } else { None })
        .collect();
    let alpha = alphabet(&mut lits, 2);
    let hosts = all_grids(&alpha, if thorough { 8000 } else { 3000 }, rng);
    set_quiet(true);
    let probe = matrix_case("E2E", pats, &Heur::Default, &[]);
    set_quiet(false);
    let asks = probe.map(|p| p.asks).unwrap_or(0);
    for heur in heuristics(rng, asks, if thorough { 6 } else { 4 }) {
        for chunk in hosts.chunks(300) {
            matrix_case("E2E", pats, &heur, chunk);
        }
    }
}

fn gdesc(c: &mut Cur) -> Option<GDesc> {
    let nodes = c.list(|c| {
        let live = c.nat()?;
        if live == 0 {
            Some(None)
        } else {
            Some(Some((c.nat()?, c.nat()?)))
        }
    })?;
    let links = c.list(|c| Some(((c.nat()?, c.nat()?), (c.nat()?, c.nat()?))))?;
    Some(GDesc { nodes, links })
}

fn focus_pg(rng: &mut Rng, pats: &[PgPat], fallback_fail: bool, thorough: bool) {
    let mut hosts: Vec<GDesc> = pats.iter().map(|p| p.0.clone()).collect();
    for p in pats {
        hosts.extend(decoy_hosts(&p.0));
        hosts.extend(fold_hosts(&p.0));
    }
    let n = if thorough { 600 } else { 200 };
    for _ in 0..n {
        let p = rng.pick(pats).0.clone();
        if p.live().is_empty() {
            continue;
        }
        hosts.push(host_with_copy(rng, &p));
    }
    set_quiet(true);
    let probe = pg_case("E2E", pats, fallback_fail, &Heur::Default, &[]);
    set_quiet(false);
    let asks = probe.map(|p| p.asks).unwrap_or(0);
    for heur in heuristics(rng, asks, if thorough { 5 } else { 3 }) {
        for chunk in hosts.chunks(40) {
            pg_case("E2E", pats, fallback_fail, &heur, chunk);
        }
    }
}

pub fn run(path: &str, seed: u64, thorough: bool) {
    let mut rng = Rng::new(seed, "focus");
    let text = std::fs::read_to_string(path).unwrap_or_default();
    for line in text.lines() {
        let toks: Vec<&str> = line.split_whitespace().collect();
        if toks.len() < 3 || toks[0] != "E2E" {
            continue;
        }
        let mut c = Cur { toks: toks.clone(), i: 2 };
        match toks[1] {
            "S" => {
                let pats = c.list(|c| c.list(|c| charvar(c).and_then(|x| x)));
                if let Some(pats) = pats {
                    focus_strings(&mut rng, &pats, thorough);
                }
            }
            "M" => {
                let pats: Option<Vec<MatPat>> = c.list(|c| c.list(|c| c.list(charvar)));
                if let Some(pats) = pats {
                    focus_matrices(&mut rng, &pats, thorough);
                }
            }
            "G" => {
                let pats: Option<Vec<PgPat>> = c.list(|c| {
                    let g = gdesc(c)?;
                    let has_root = c.nat()?;
                    let root = if has_root == 1 { Some(c.nat()?) } else { None };
                    Some((g, root))
                });
                let ff = c.nat().unwrap_or(1) == 1;
                if let Some(pats) = pats {
                    if !pats.is_empty() {
                        focus_pg(&mut rng, &pats, ff, thorough);
                    }
                }
            }
            _ => {}
        }
    }
}

fn heur(c: &mut Cur) -> Option<Heur> {
    Some(match c.nat()? {
        0 => Heur::Default,
        1 => Heur::Never,
        _ => Heur::Custom(c.list(|c| Some(c.nat()? == 1))?),
    })
}

fn chars(c: &mut Cur) -> Option<Vec<char>> {
    c.list(|c| char::from_u32(c.nat()? as u32))
}

/// `pm-harness rerun <file>`: re-execute exactly the cases whose record prefixes (everything
/// before `=>`) are in the file — same patterns, fallback mode, heuristic and hosts — against
/// the current tree. Used by `check.py --replay`.
pub fn rerun(path: &str) {
    let text = std::fs::read_to_string(path).unwrap_or_default();
    for line in text.lines() {
        let toks: Vec<&str> = line.split_whitespace().collect();
        if toks.len() < 3 || toks[0] != "E2E" {
            println!("BADREC rerun: only end-to-end records of strings, matrices and port graphs can be re-executed");
            continue;
        }
        let mut c = Cur { toks: toks.clone(), i: 2 };
        let done = match toks[1] {
            "S" => (|| {
                let pats = c.list(|c| c.list(|c| charvar(c).and_then(|x| x)))?;
                let _ff = c.nat()?;
                let h = heur(&mut c)?;
                let hosts: Vec<String> = c.list(|c| Some(chars(c)?.into_iter().collect::<String>()))?;
                string_case("E2E", &pats, &h, &hosts);
                Some(())
            })(),
            "M" => (|| {
                let pats: Vec<MatPat> = c.list(|c| c.list(|c| c.list(charvar)))?;
                let _ff = c.nat()?;
                let h = heur(&mut c)?;
                let hosts: Vec<Vec<Vec<char>>> = c.list(|c| c.list(chars))?;
                matrix_case("E2E", &pats, &h, &hosts);
                Some(())
            })(),
            "G" => (|| {
                let pats: Vec<PgPat> = c.list(|c| {
                    let g = gdesc(c)?;
                    let has_root = c.nat()?;
                    let root = if has_root == 1 { Some(c.nat()?) } else { None };
                    Some((g, root))
                })?;
                let ff = c.nat()? == 1;
                let h = heur(&mut c)?;
                let hosts: Vec<GDesc> = c.list(gdesc)?;
                pg_case("E2E", &pats, ff, &h, &hosts);
                Some(())
            })(),
            _ => None,
        };
        if done.is_none() {
            println!("BADREC rerun: could not parse the record prefix");
        }
    }
}
