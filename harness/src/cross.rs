//! Cross-case stages: heuristic sweeps (C04), pattern-set variants (C06), host extension chains
//! (C11) and the reproducibility digest (C17). Each emits ordinary E2E records (full checks) and
//! one summary record tying the cases together.
use crate::e2e::{
    gen_matrix_set, gen_string_set, matrix_case, planted_host, planted_mat_host, set_quiet,
    string_case, table_case, E2EResult, Heur, MatPat, TPattern,
};
use crate::idx::{random_dag, random_host};
use crate::pg::{gen_pg_set, host_with_copy, pg_case, GDesc, PgPat};
use crate::proto::Line;
use crate::rng::Rng;
use crate::table::THost;
use crate::tree::random_tcons;
use portmatching::string::CharVar;
use rustc_hash::FxHashMap;

type HM = FxHashMap<usize, usize>;

fn all_answers(m: usize) -> Vec<Vec<bool>> {
    (0..(1usize << m))
        .map(|x| (0..m).map(|i| x >> i & 1 == 1).collect())
        .collect()
}

fn answer_sets(rng: &mut Rng, asks: usize, limit: usize) -> Vec<Vec<bool>> {
    if asks <= limit {
        all_answers(asks)
    } else {
        let mut v: Vec<Vec<bool>> = vec![vec![true; asks], vec![false; asks]];
        for _ in 0..14 {
            v.push((0..asks).map(|_| rng.chance(1, 2)).collect());
        }
        v
    }
}

fn emit_hsum(dom: &str, results: &[(Vec<bool>, E2EResult)]) {
    let mut l = Line::new("HSUM");
    l.tok(dom);
    l.list(results, |l, (ans, r)| {
        l.list(ans, |l, b| {
            l.tok(*b as usize);
        });
        l.tok(r.n_states);
        l.list(&r.many, |l, m| {
            l.tok(m);
        });
    });
    l.emit();
}

/// C04: every answer string of the heuristic (exhaustively when few questions are asked).
pub fn run_heur(seed: u64, thorough: bool) {
    let mut rng = Rng::new(seed, "cross.heur");
    let limit = if thorough { 9 } else { 5 };
    let n = if thorough { 400 } else { 40 };
    for _ in 0..n {
        // strings
        let pats = gen_string_set(&mut rng, false);
        let hosts: Vec<String> = (0..3).map(|_| planted_host(&mut rng, &pats, 10)).collect();
        set_quiet(true);
        let probe = string_case("E2E", &pats, &Heur::Default, &hosts);
        set_quiet(false);
        if let Some(probe) = probe {
            let mut results = vec![];
            for ans in answer_sets(&mut rng, probe.asks, limit) {
                if let Some(r) = string_case("E2E", &pats, &Heur::Custom(ans.clone()), &hosts) {
                    results.push((ans, r));
                }
            }
            for h in [Heur::Default, Heur::Never] {
                if let Some(r) = string_case("E2E", &pats, &h, &hosts) {
                    results.push((vec![], r));
                }
            }
            emit_hsum("S", &results);
        }
        // matrices
        let pats = gen_matrix_set(&mut rng, false);
        let hosts: Vec<Vec<Vec<char>>> = (0..2).map(|_| planted_mat_host(&mut rng, &pats)).collect();
        set_quiet(true);
        let probe = matrix_case("E2E", &pats, &Heur::Default, &hosts);
        set_quiet(false);
        if let Some(probe) = probe {
            let mut results = vec![];
            for ans in answer_sets(&mut rng, probe.asks, limit.min(4)) {
                if let Some(r) = matrix_case("E2E", &pats, &Heur::Custom(ans.clone()), &hosts) {
                    results.push((ans, r));
                }
            }
            for h in [Heur::Default, Heur::Never] {
                if let Some(r) = matrix_case("E2E", &pats, &h, &hosts) {
                    results.push((vec![], r));
                }
            }
            emit_hsum("M", &results);
        }
        // table domain (all five strategies over time)
        {
            let nkeys = rng.range(2, 4);
            let req = random_dag(&mut rng, nkeys, 2);
            let strategy = rng.below(6);
            let np = rng.range(1, 4);
            let pats: Vec<TPattern> = (0..np)
                .map(|_| {
                    let nc = rng.range(1, 3);
                    TPattern {
                        cons: (0..nc)
                            .map(|_| {
                                let mut c = random_tcons(&mut rng, nkeys);
                                while strategy == 3
                                    && !matches!(
                                        c.predicate(),
                                        crate::table::TPred::NotIn(_) | crate::table::TPred::True(_)
                                    )
                                {
                                    c = random_tcons(&mut rng, nkeys);
                                }
                                c
                            })
                            .collect(),
                        extra: None,
                        convertible: true,
                    }
                })
                .collect();
            let hosts: Vec<THost<HM>> = (0..2)
                .map(|_| {
                    let mut h = random_host::<HM>(&mut rng, nkeys, 3);
                    h.strict = true;
                    for (k, rules) in h.rules.iter_mut().enumerate() {
                        for r in rules.iter_mut() {
                            if let Some((ck, cv)) = r.cond {
                                r.cond = if req[k].is_empty() { None } else { Some((req[k][ck % req[k].len()], cv)) };
                            }
                        }
                    }
                    h
                })
                .collect();
            set_quiet(true);
            let probe = table_case("E2E", &req, strategy, &pats, true, &Heur::Default, &hosts);
            set_quiet(false);
            if let Some(probe) = probe {
                let mut results = vec![];
                for ans in answer_sets(&mut rng, probe.asks, limit) {
                    if let Some(r) = table_case("E2E", &req, strategy, &pats, true, &Heur::Custom(ans.clone()), &hosts) {
                        results.push((ans, r));
                    }
                }
                emit_hsum("T", &results);
            }
        }
        // port graphs
        {
            let pats = gen_pg_set(&mut rng, false, false);
            let hosts: Vec<GDesc> = (0..2)
                .map(|_| {
                    let p = rng.pick(&pats).0.clone();
                    host_with_copy(&mut rng, &p)
                })
                .collect();
            set_quiet(true);
            let probe = pg_case("E2E", &pats, true, &Heur::Default, &hosts);
            set_quiet(false);
            if let Some(probe) = probe {
                let mut results = vec![];
                for ans in answer_sets(&mut rng, probe.asks, limit.min(4)) {
                    if let Some(r) = pg_case("E2E", &pats, true, &Heur::Custom(ans.clone()), &hosts) {
                        results.push((ans, r));
                    }
                }
                emit_hsum("G", &results);
            }
        }
    }
}

fn emit_ssum(dom: &str, variants: &[(Vec<Option<usize>>, E2EResult)]) {
    // each variant: for every position of the variant's pattern list, the index of that
    // pattern in the original list (None = a pattern that is not in the original list)
    let mut l = Line::new("SSUM");
    l.tok(dom);
    l.list(variants, |l, (idmap, r)| {
        l.list(idmap, |l, o| {
            l.opt(o, |l, i| {
                l.tok(i);
            });
        });
        l.list(&r.many, |l, m| {
            l.tok(m);
        });
    });
    l.emit();
}

fn variants_of(rng: &mut Rng, n: usize) -> Vec<Vec<usize>> {
    // whole, each alone, a permutation, a sub-multiset with duplicates
    let mut v: Vec<Vec<usize>> = vec![(0..n).collect()];
    for i in 0..n {
        v.push(vec![i]);
    }
    let mut perm: Vec<usize> = (0..n).collect();
    rng.shuffle(&mut perm);
    v.push(perm);
    if n > 0 {
        let k = rng.range(1, n + 1);
        v.push((0..k).map(|_| rng.below(n)).collect());
    }
    v
}

/// C06: the same patterns compiled whole, alone, permuted, as a sub-multiset with duplicates;
/// port graphs and table patterns also with non-convertible members under both fallback modes.
pub fn run_sets(seed: u64, thorough: bool) {
    let mut rng = Rng::new(seed, "cross.sets");
    let n = if thorough { 600 } else { 60 };
    for _ in 0..n {
        {
            let pats: Vec<Vec<CharVar>> = gen_string_set(&mut rng, false);
            let hosts: Vec<String> = (0..2).map(|_| planted_host(&mut rng, &pats, 10)).collect();
            let heur = crate::e2e::random_heur(&mut rng);
            let mut vs = vec![];
            for v in variants_of(&mut rng, pats.len()) {
                let ps: Vec<Vec<CharVar>> = v.iter().map(|&i| pats[i].clone()).collect();
                if let Some(r) = string_case("E2E", &ps, &heur, &hosts) {
                    vs.push((v.iter().map(|&i| Some(i)).collect(), r));
                }
            }
            emit_ssum("S", &vs);
        }
        {
            let pats: Vec<MatPat> = gen_matrix_set(&mut rng, false);
            let hosts: Vec<Vec<Vec<char>>> = (0..2).map(|_| planted_mat_host(&mut rng, &pats)).collect();
            let heur = crate::e2e::random_heur(&mut rng);
            let mut vs = vec![];
            for v in variants_of(&mut rng, pats.len()) {
                let ps: Vec<MatPat> = v.iter().map(|&i| pats[i].clone()).collect();
                if let Some(r) = matrix_case("E2E", &ps, &heur, &hosts) {
                    vs.push((v.iter().map(|&i| Some(i)).collect(), r));
                }
            }
            emit_ssum("M", &vs);
        }
        {
            // port graphs, some patterns without root (not convertible), both fallback modes
            let pats: Vec<PgPat> = gen_pg_set(&mut rng, false, true);
            let hosts: Vec<GDesc> = (0..2)
                .map(|_| {
                    let p = rng.pick(&pats).0.clone();
                    host_with_copy(&mut rng, &p)
                })
                .collect();
            let heur = crate::e2e::random_heur(&mut rng);
            let mut vs = vec![];
            for v in variants_of(&mut rng, pats.len()) {
                let ps: Vec<PgPat> = v.iter().map(|&i| pats[i].clone()).collect();
                // Skip mode: ids must not be renumbered
                if let Some(r) = pg_case("E2E", &ps, false, &heur, &hosts) {
                    vs.push((v.iter().map(|&i| Some(i)).collect(), r));
                }
                // Fail mode: construction error iff a pattern lacks a root
                pg_case("E2E", &ps, true, &heur, &hosts);
            }
            emit_ssum("G", &vs);
        }
    }
}

fn emit_ext(dom: &str, shifts: &[(isize, isize)], r: &E2EResult) {
    let mut l = Line::new("EXT");
    l.tok(dom);
    l.list(shifts, |l, (a, b)| {
        l.tok(a).tok(b);
    });
    l.list(&r.many, |l, m| {
        l.tok(m);
    });
    l.list(&r.naive, |l, m| {
        l.tok(m);
    });
    l.emit();
}

/// C11: a pattern in itself, and chains of host extensions (anchors are transported by the
/// accumulated shift).
pub fn run_ext(seed: u64, thorough: bool) {
    let mut rng = Rng::new(seed, "cross.ext");
    let n = if thorough { 3000 } else { 300 };
    let lits = ['a', 'b', 'c'];
    for _ in 0..n {
        // strings: host 0 is an instantiated pattern or a planted host; each step prepends or
        // appends characters
        {
            let pats = gen_string_set(&mut rng, false);
            if pats.is_empty() {
                continue;
            }
            let mut h: Vec<char> = if rng.chance(1, 2) {
                let p = rng.pick(&pats).clone();
                let mut env: FxHashMap<char, char> = FxHashMap::default();
                p.iter()
                    .map(|cv| match cv {
                        CharVar::Literal(c) => *c,
                        CharVar::Variable(v) => *env.entry(*v).or_insert_with(|| *rng.pick(&lits)),
                    })
                    .collect()
            } else {
                planted_host(&mut rng, &pats, 8).chars().collect()
            };
            let mut hosts: Vec<String> = vec![h.iter().collect()];
            let mut shifts: Vec<(isize, isize)> = vec![(0, 0)];
            let mut shift = 0isize;
            for _ in 0..rng.range(1, 5) {
                let k = rng.range(1, 2);
                let add: Vec<char> = (0..k).map(|_| *rng.pick(&['a', 'b', 'c', 'é'])).collect();
                if rng.chance(1, 2) {
                    shift += add.len() as isize;
                    let mut nh = add.clone();
                    nh.extend(h.iter());
                    h = nh;
                } else {
                    h.extend(add.iter());
                }
                hosts.push(h.iter().collect());
                shifts.push((shift, 0));
            }
            let heur = crate::e2e::random_heur(&mut rng);
            if let Some(r) = string_case("E2E", &pats, &heur, &hosts) {
                emit_ext("S", &shifts, &r);
            }
        }
        // matrices: rows appended below / characters appended to rows / rows prepended / one
        // column prepended to every row
        {
            let pats = gen_matrix_set(&mut rng, false);
            if pats.is_empty() {
                continue;
            }
            let mut h = planted_mat_host(&mut rng, &pats);
            let mut hosts = vec![h.clone()];
            let mut shifts: Vec<(isize, isize)> = vec![(0, 0)];
            let (mut sr, mut sc) = (0isize, 0isize);
            for _ in 0..rng.range(1, 4) {
                match rng.below(4) {
                    0 => h.push((0..rng.range(0, 4)).map(|_| *rng.pick(&lits)).collect()),
                    1 => {
                        if !h.is_empty() {
                            let r = rng.below(h.len());
                            h[r].push(*rng.pick(&lits));
                        }
                    }
                    2 => {
                        h.insert(0, (0..rng.range(0, 4)).map(|_| *rng.pick(&lits)).collect());
                        sr += 1;
                    }
                    _ => {
                        for row in h.iter_mut() {
                            row.insert(0, *rng.pick(&lits));
                        }
                        sc += 1;
                    }
                }
                hosts.push(h.clone());
                shifts.push((sr, sc));
            }
            let heur = crate::e2e::random_heur(&mut rng);
            if let Some(r) = matrix_case("E2E", &pats, &heur, &hosts) {
                emit_ext("M", &shifts, &r);
            }
        }
    }
}

/// C11 for port graphs: chains of host extensions (relabel nodes by a permutation, add a
/// node, add a port at the end of a node's inputs or outputs, link two previously unlinked
/// ports). Each step records the node map rho from the previous host's node ids to the new
/// host's. The E2E record carries the full checks; the EXTG record ties the hosts together.
pub fn run_ext_pg(seed: u64, thorough: bool) {
    let mut rng = Rng::new(seed, "cross.ext.pg");
    let n = if thorough { 3000 } else { 300 };
    for _ in 0..n {
        let pats: Vec<PgPat> = gen_pg_set(&mut rng, false, false);
        // host 0: a pattern itself, or a host containing a relabelled copy
        let base = rng.pick(&pats).0.clone();
        let mut h: GDesc = if rng.chance(1, 2) { base.clone() } else { host_with_copy(&mut rng, &base) };
        let mut hosts = vec![h.clone()];
        let mut rhos: Vec<Vec<usize>> = vec![];
        for _ in 0..rng.range(1, 4) {
            let nn = h.nodes.len();
            let mut rho: Vec<usize> = (0..nn).collect();
            let live: Vec<usize> = h.live();
            match rng.below(4) {
                0 => {
                    // relabel by a permutation of the node slots
                    let mut perm: Vec<usize> = (0..nn).collect();
                    rng.shuffle(&mut perm);
                    let mut nodes = vec![None; nn];
                    for i in 0..nn {
                        nodes[perm[i]] = h.nodes[i];
                    }
                    let links = h
                        .links
                        .iter()
                        .map(|((a, oa), (b, ob))| ((perm[*a], *oa), (perm[*b], *ob)))
                        .collect();
                    h = GDesc { nodes, links };
                    rho = perm;
                }
                1 => {
                    h.nodes.push(Some((rng.range(0, 2), rng.range(0, 2))));
                }
                2 => {
                    if !live.is_empty() {
                        let v = *rng.pick(&live);
                        let (i, o) = h.nodes[v].unwrap();
                        h.nodes[v] = if rng.chance(1, 2) { Some((i + 1, o)) } else { Some((i, o + 1)) };
                    }
                }
                _ => {
                    // link two previously unlinked ports
                    let mut free_out = vec![];
                    let mut free_in = vec![];
                    for &v in &live {
                        let (i, o) = h.nodes[v].unwrap();
                        for k in 0..o {
                            if !h.links.iter().any(|l| l.0 == (v, k)) {
                                free_out.push((v, k));
                            }
                        }
                        for k in 0..i {
                            if !h.links.iter().any(|l| l.1 == (v, k)) {
                                free_in.push((v, k));
                            }
                        }
                    }
                    if !free_out.is_empty() && !free_in.is_empty() {
                        h.links.push((*rng.pick(&free_out), *rng.pick(&free_in)));
                    }
                }
            }
            hosts.push(h.clone());
            rhos.push(rho);
        }
        let heur = crate::e2e::random_heur(&mut rng);
        if let Some(r) = pg_case("E2E", &pats, true, &heur, &hosts) {
            let mut l = Line::new("EXTG");
            l.list(&pats, |l, (g, root)| {
                g.encode(l);
                l.opt(root, |l, r| {
                    l.tok(r);
                });
            });
            l.list(&rhos, |l, rho| {
                l.nats(rho);
            });
            l.list(&r.many, |l, m| {
                l.tok(m);
            });
            l.list(&r.naive, |l, m| {
                l.tok(m);
            });
            l.emit();
        }
    }
}

fn fnv(s: &str) -> u64 {
    let mut h: u64 = 0xcbf29ce484222325;
    for b in s.bytes() {
        h ^= b as u64;
        h = h.wrapping_mul(0x100000001b3);
    }
    h
}

/// C17: a digest per case — number of states, hash of the rendered automaton, the event log and
/// the exact sequence of matches — to be compared between separate processes. With `--warmup`
/// unrelated matchers are built first (different allocation history).
pub fn run_repro(seed: u64, thorough: bool, warmup: bool) {
    let mut rng = Rng::new(seed, "cross.repro");
    if warmup {
        let mut wr = Rng::new(seed ^ 0x5555, "warmup");
        set_quiet(true);
        let mut keep = vec![];
        for _ in 0..50 {
            let pats = gen_string_set(&mut wr, false);
            keep.push(string_case("E2E", &pats, &Heur::Default, &[String::from("abcabc")]));
        }
        set_quiet(false);
        std::mem::forget(keep);
    }
    let n = if thorough { 1500 } else { 150 };
    let mut prng = Rng::new(seed ^ 0x7777, "repro.perturb");
    set_quiet(true);
    for case in 0..n {
        let mut digest = |dom: &str, r: Option<E2EResult>| {
            if let Some(r) = r {
                println!(
                    "RP {} {} {} {:016x} {:016x} {:016x}",
                    case,
                    dom,
                    r.n_states,
                    fnv(&r.dot),
                    fnv(&r.events),
                    fnv(&r.many.join("|"))
                );
            } else {
                println!("RP {} {} failed", case, dom);
            }
        };
        let pats = gen_string_set(&mut rng, false);
        let hosts: Vec<String> = (0..3).map(|_| planted_host(&mut rng, &pats, 10)).collect();
        let heur = crate::e2e::random_heur(&mut rng);
        let a = string_case("E2E", &pats, &heur, &hosts);
        // built twice within the process
        let b = string_case("E2E", &pats, &heur, &hosts);
        if let (Some(a), Some(b)) = (&a, &b) {
            if a.dot != b.dot || a.many != b.many || a.events != b.events || a.n_states != b.n_states {
                println!("RP {} S in-process-rebuild-differs", case);
            }
        }
        // the same build (c) in a freshly spawned thread (clean thread-local state) and (d) on this
        // thread right after an unrelated large build: a matcher may not depend on what was built
        // before it in the process (a reused scratch container, a counter that is not reset, ...)
        if let Some(a) = &a {
            let (p2, h2, hs2) = (pats.clone(), heur.clone(), hosts.clone());
            let c = std::thread::spawn(move || {
                std::panic::set_hook(Box::new(|_| {}));
                set_quiet(true);
                string_case("E2E", &p2, &h2, &hs2).map(|r| (r.n_states, r.dot, r.events, r.many))
            })
            .join()
            .ok()
            .flatten();
            let mut big: Vec<Vec<CharVar>> = vec![];
            for _ in 0..14 {
                let len = prng.range(2, 5);
                big.push(
                    (0..len)
                        .map(|_| match prng.below(4) {
                            0 => CharVar::Literal('a'),
                            1 => CharVar::Literal('b'),
                            2 => CharVar::Variable('x'),
                            _ => CharVar::Variable('y'),
                        })
                        .collect(),
                );
            }
            let _ = string_case("E2E", &big, &Heur::Default, &[]);
            let d = string_case("E2E", &pats, &heur, &hosts).map(|r| (r.n_states, r.dot, r.events, r.many));
            let base = (a.n_states, a.dot.clone(), a.events.clone(), a.many.clone());
            for (name, x) in [("fresh-thread", &c), ("after-unrelated-build", &d)] {
                match x {
                    Some(x) if *x == base => {}
                    Some(x) => println!(
                        "RP {} S {}-build-differs states {} vs {} dot {:016x} vs {:016x} events {:016x} vs {:016x} matches {:016x} vs {:016x}",
                        case, name, base.0, x.0, fnv(&base.1), fnv(&x.1), fnv(&base.2), fnv(&x.2),
                        fnv(&base.3.join("|")), fnv(&x.3.join("|"))
                    ),
                    None => println!("RP {} S {}-build failed", case, name),
                }
            }
        }
        digest("S", a);
        let pats = gen_matrix_set(&mut rng, false);
        let hosts: Vec<Vec<Vec<char>>> = (0..2).map(|_| planted_mat_host(&mut rng, &pats)).collect();
        digest("M", matrix_case("E2E", &pats, &heur, &hosts));
        let pats = gen_pg_set(&mut rng, false, false);
        let hosts: Vec<GDesc> = (0..2)
            .map(|_| {
                let p = rng.pick(&pats).0.clone();
                host_with_copy(&mut rng, &p)
            })
            .collect();
        digest("G", pg_case("E2E", &pats, true, &heur, &hosts));
    }
    set_quiet(false);
}
