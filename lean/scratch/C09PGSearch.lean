import PmVerif.Proofs.C09PGTL
import PmVerif.Proofs.C01GenAuto
import PmVerif.Model.ManyMatcher
import PmVerif.Model.PGPattern
import PmVerif.Model.TableDom
open Pm Pm.Automaton Pm.C01G

abbrev PA := Automaton PGKey PGPred
section Gen
variable {K P : Type} [DecidableEq K] [DecidableEq P]
abbrev RM := StateM StdGen

def rnd (n : Nat) : RM Nat := do
  if n == 0 then return 0
  let g ← get
  let (x, g') := randNat g 0 (n - 1)
  set g'
  return x

def pick {α} [Inhabited α] (xs : List α) : RM α := do
  let i ← rnd xs.length
  return xs[i]!

def shuffle {α} [Inhabited α] : Nat → List α → RM (List α)
  | 0, xs => pure xs
  | _, [] => pure []
  | n + 1, xs => do
    let i ← rnd xs.length
    let x := xs[i]!
    let rest ← shuffle n (xs.eraseIdx i)
    return x :: rest

/-- random port graph: n nodes with 2 in / 2 out ports, k random links -/
def randPG (n k : Nat) : RM PortGraph := do
  let mut links : List (Port × Port) := []
  -- a spanning chain first so that everything is reachable from node 0
  for v in [1:n] do
    let u ← rnd v
    let outs := ([0, 1, 2].filter fun i => !links.any fun l => l.1 = (u, ⟨.out, i⟩))
    let ins := ([0, 1, 2].filter fun j => !links.any fun l => l.2 = (v, ⟨.inc, j⟩))
    if outs.isEmpty || ins.isEmpty then
      -- try the other direction
      let outs' := ([0, 1, 2].filter fun i => !links.any fun l => l.1 = (v, ⟨.out, i⟩))
      let ins' := ([0, 1, 2].filter fun j => !links.any fun l => l.2 = (u, ⟨.inc, j⟩))
      if outs'.isEmpty || ins'.isEmpty then continue
      let i ← pick outs'
      let j ← pick ins'
      links := links ++ [((v, ⟨.out, i⟩), (u, ⟨.inc, j⟩))]
    else
      let dirFlip ← rnd 3
      if dirFlip == 0 then
        let outs' := ([0, 1, 2].filter fun i => !links.any fun l => l.1 = (v, ⟨.out, i⟩))
        let ins' := ([0, 1, 2].filter fun j => !links.any fun l => l.2 = (u, ⟨.inc, j⟩))
        if outs'.isEmpty || ins'.isEmpty then continue
        let i ← pick outs'
        let j ← pick ins'
        links := links ++ [((v, ⟨.out, i⟩), (u, ⟨.inc, j⟩))]
      else
        let i ← pick outs
        let j ← pick ins
        links := links ++ [((u, ⟨.out, i⟩), (v, ⟨.inc, j⟩))]
  for _ in [0:k] do
    let u ← rnd n
    let v ← rnd n
    let outs := ([0, 1, 2].filter fun i => !links.any fun l => l.1 = (u, ⟨.out, i⟩))
    let ins := ([0, 1, 2].filter fun j => !links.any fun l => l.2 = (v, ⟨.inc, j⟩))
    if outs.isEmpty || ins.isEmpty then continue
    let i ← pick outs
    let j ← pick ins
    links := links ++ [((u, ⟨.out, i⟩), (v, ⟨.inc, j⟩))]
  return ⟨List.replicate n (some ⟨3, 3⟩), links⟩


def tryMerges (a : Automaton K P) (E : List Nat) : Nat → RM (Automaton K P × List Ev)
  | 0 => pure (a, [])
  | k + 1 => do
    let n ← pick a.g.nodeIndices
    let sibs := ((a.siblingsOf n).eraseDups.filter fun m =>
      m ≠ n && (match a.sameTuple n m with | .ok true => true | _ => false))
    if sibs.isEmpty then tryMerges a E k
    else
      let mut chosen : List Nat := []
      for m in sibs do
        let c ← rnd 3
        if c != 0 then chosen := chosen ++ [m]
      if chosen.isEmpty then chosen := [sibs.head!]
      let nodes0 ← shuffle 20 (n :: chosen)
      -- bias: survivor not emitted, so that an emitted id is freed
      let b ← rnd 3
      let nodes := if b != 0 then
          (nodes0.filter fun x => !E.contains x) ++ (nodes0.filter fun x => E.contains x)
        else nodes0
      match a.doMerge n nodes with
      | .ok a' =>
        let (a'', evs) ← tryMerges a' E k
        return (a'', Ev.merge n nodes :: evs)
      | .error _ => tryMerges a E k

def randIteration (toTree : List (Constraint K P) → Option (CTree (Constraint K P))) (a : Automaton K P) (E : List Nat) (s : Nat) (nm : Nat) : RM (Except String (Automaton K P × List Ev)) := do
  match pendingGroups a s with
  | .error _ => return .error "pg1"
  | .ok g1 =>
    let g1 ← shuffle 20 g1
    let ev1 := g1.map (Ev.group s)
    match a.makeConstraintsUnique s ev1 with
    | .error _ => return .error "mcu1"
    | .ok (a, _) =>
      match insertConstraintTree toTree a s 200 with
      | .error _ => return .error "tree"
      | .ok (a, treeDet) =>
        match pendingGroups a s with
        | .error _ => return .error "pg2"
        | .ok g2 =>
          let g2 ← shuffle 20 g2
          let ev2 := g2.map (Ev.group s)
          match a.makeConstraintsUnique s ev2 with
          | .error _ => return .error "mcu2"
          | .ok (a, _) =>
            let yes ← rnd 4
            let (a, evd) ← (do
              if treeDet then
                if yes != 0 then
                  match a.makeDetL s with
                  | .ok a' => pure (a', [Ev.detAsk s, Ev.detYes s])
                  | .error _ => pure (a, [Ev.detAsk s])
                else pure (a, [Ev.detAsk s])
              else pure (a, []) : RM (Automaton K P × List Ev))
            let (a, evm) ← tryMerges a (s :: E) nm
            return .ok (a, [Ev.topo s] ++ ev1 ++ ev2 ++ evd ++ evm ++ [Ev.iterEnd s])

def twoEps (a : Automaton K P) : List Nat :=
  a.g.nodeIndices.filter fun s => (a.stateD s).eorder.length ≥ 2

structure Res (K P : Type) where
  a : Automaton K P
  log : List Ev
  viol : List Nat      -- emissions at which c1K failed
  selfEps : List Nat   -- emissions at which the state itself had an epsilon
  two : List Nat       -- two-eps states seen at some iteration boundary

def randLoop (toTree : List (Constraint K P) → Option (CTree (Constraint K P))) : Nat → Automaton K P → List Nat → List Ev → List Nat → List Nat → List Nat → Nat →
    RM (Except String (Res K P))
  | 0, _, _, _, _, _, _, _ => pure (.error "fuel")
  | n + 1, a, E, log, viol, se, two, nm => do
    let adm := a.g.nodeIndices.filter fun s => a.topoAdmissible E s
    if adm.isEmpty then return .ok ⟨a, log, viol, se, two⟩
    let s ← pick adm
    let viol := if GE.childEpsFree a s then viol else
      let bad := (a.g.succs s).eraseDups.filter fun c => !(a.stateD c).eorder.isEmpty
      let info := bad.map fun c => (c, E.contains c, (a.g.preds c).eraseDups.map fun p => (p, E.contains p))
      dbgTrace s!"VIOL at emission of {s} (step {E.length}): bad children (id, emitted?, preds) {info}; preds of s {(a.g.preds s).eraseDups}" fun _ => s :: viol
    let se := if (a.stateD s).eorder.isEmpty then se else s :: se
    match ← randIteration toTree a E s nm with
    | .error e => return .error e
    | .ok (a', ev) =>
      let a := a'
      randLoop toTree n a (s :: E) (log ++ ev) viol se (two ++ twoEps a) nm

end Gen

def toTreePG : List PGCons → Option (CTree PGCons) := fun cs => pgTree cs 200

def trial (seed : Nat) (verbose : Bool := false) (findD : Bool := false) (small : Bool := false) : IO (Nat × Nat × Nat × Nat) := do
  let gen := mkStdGen seed
  let act : RM (Except String (Res PGKey PGPred × List (Nat × List PGCons × List PGKey))) := do
    let np ← rnd (if small then 2 else 4)
    let np := np + 2
    let mut pats : List (PortGraph × Nat) := []
    let mode ← rnd 2
    let n0 ← rnd 3
    let k0 ← rnd 3
    let g0 ← randPG (n0 + 2) k0
    for _ in [0:np] do
      if mode == 0 then
        let n ← rnd 4
        let k ← rnd 3
        let g ← randPG (n + 2) k
        let r ← rnd (n + 2)
        pats := pats ++ [(g, r)]
      else
        -- mutation of a common base: extra node(s) hanging off random nodes, extra links
        let extra ← rnd 3
        let mut links := g0.links
        let mut nn := n0 + 2
        for _ in [0:extra] do
          let u ← rnd nn
          let outs := ([0, 1, 2].filter fun i => !links.any fun l => l.1 = (u, ⟨.out, i⟩))
          if outs.isEmpty then continue
          let i ← pick outs
          let j ← rnd 3
          links := links ++ [((u, ⟨.out, i⟩), (nn, ⟨.inc, j⟩))]
          nn := nn + 1
        let el ← rnd 2
        for _ in [0:el] do
          let u ← rnd nn
          let v ← rnd nn
          let outs := ([0, 1, 2].filter fun i => !links.any fun l => l.1 = (u, ⟨.out, i⟩))
          let ins := ([0, 1, 2].filter fun j => !links.any fun l => l.2 = (v, ⟨.inc, j⟩))
          if outs.isEmpty || ins.isEmpty then continue
          let i ← pick outs
          let j ← pick ins
          links := links ++ [((u, ⟨.out, i⟩), (v, ⟨.inc, j⟩))]
        let r ← rnd 2
        pats := pats ++ [(⟨List.replicate nn (some ⟨3, 3⟩), links⟩, r)]
    match manyInputs (fun p : PortGraph × Nat => pgConstraints p.1 p.2) (fun _ => ([] : List PGKey))
        true pats 0 with
    | none => return .error "inputs"
    | some inputs =>
      match addPatterns pgReq 200 (new : PA) inputs with
      | .error _ => return .error "addPatterns"
      | .ok a0 =>
        let nm ← rnd 8
        match ← randLoop toTreePG 400 a0 [] [] [] [] [] nm with
        | .error e => return .error e
        | .ok r => return .ok (r, inputs)
  let (r, _) := act.run gen
  match r with
  | .error e =>
    if verbose then IO.println s!"seed {seed}: error {e}"
    return (0, 0, 0, 1)
  | .ok (res, inputs) =>
    let fin := twoEps res.a
    if findD then
      match buildTD toTreePG pgReq 200 inputs res.log with
      | .ok _ => pure ()
      | .error _ =>
        if res.log.length < 130 && res.viol.isEmpty then
          IO.println s!"D seed {seed}: log length {res.log.length} states {res.a.g.nodeIndices.length}"
          IO.println s!"  inputs: {repr inputs}"
          IO.println s!"  log: {repr res.log}"
    let nmerge := (res.log.filter fun e => match e with | .merge .. => true | _ => false).length
    let ntopo := (res.log.filter fun e => match e with | .topo .. => true | _ => false).length
    let neps := (res.a.g.nodeIndices.filter fun s => (res.a.stateD s).eorder.length ≥ 1).length
    if !res.viol.isEmpty || !fin.isEmpty || verbose then
      IO.println s!"seed {seed}: pats {inputs.length} states {res.a.g.nodeIndices.length} topo {ntopo} merges {nmerge} epsStates {neps} c1Kviol {res.viol} selfEps {res.selfEps} twoSeen {res.two} twoFinal {fin}"
    if !fin.isEmpty || !res.viol.isEmpty then
      IO.println s!"  inputs: {repr inputs}"
      IO.println s!"  log: {repr res.log}"
      -- confirm with the model
      match buildTL toTreePG pgReq 200 inputs res.log with
      | .ok A => IO.println s!"  buildTL ok, wfOneEpsilon = {A.wfOneEpsilon}"
      | .error _ => IO.println s!"  buildTL ERROR"
    return ((if res.viol.isEmpty then 0 else 1), (if res.selfEps.isEmpty then 0 else 1),
      (if fin.isEmpty then 0 else 1), 0)


def randTCons : RM TCons := do
  let k ← rnd 6
  let a ← rnd 4
  let b ← rnd 4
  let c ← rnd 3
  match k with
  | 0 => return ⟨.const c, [a]⟩
  | 1 => return ⟨.lt, [a, b]⟩
  | 2 => return ⟨.ne, [a, b]⟩
  | 3 => return ⟨.eq, [a, b]⟩
  | 4 => return ⟨.true_ 1, [a]⟩
  | _ => return ⟨.notIn 1, [a, b]⟩

def trialT (seed : Nat) (verbose : Bool := false) : IO (Nat × Nat × Nat × Nat) := do
  let gen := mkStdGen seed
  let strat := 3
  let toT : List TCons → Option (CTree TCons) := fun cs => tTreeAll strat cs 200
  let act : RM (Except String (Res Nat TPred × List (Nat × List TCons × List Nat))) := do
    let np ← rnd 4
    let mut inputs : List (Nat × List TCons × List Nat) := []
    for i in [0:np + 2] do
      let n ← rnd 4
      let mut cs : List TCons := []
      for _ in [0:n + 1] do
        let c ← randTCons
        cs := cs ++ [c]
      inputs := inputs ++ [(i, cs, [])]
    match addPatterns (fun _ => ([] : List Nat)) 200 (new : Automaton Nat TPred) inputs with
    | .error _ => return .error "addPatterns"
    | .ok a0 =>
      let nm ← rnd 8
      match ← randLoop toT 400 a0 [] [] [] [] [] nm with
      | .error e => return .error e
      | .ok r => return .ok (r, inputs)
  let (r, _) := act.run gen
  match r with
  | .error e =>
    if verbose then IO.println s!"seed {seed}: error {e}"
    return (0, 0, 0, 1)
  | .ok (res, inputs) =>
    let fin := twoEps res.a
    if !res.viol.isEmpty || !fin.isEmpty || verbose then
      IO.println s!"T seed {seed} strat {strat}: pats {inputs.length} states {res.a.g.nodeIndices.length} c1Kviol {res.viol} selfEps {res.selfEps} twoSeen {res.two} twoFinal {fin}"
    if !fin.isEmpty then
      match buildTL toT (fun _ => ([] : List Nat)) 200 inputs res.log with
      | .ok A => IO.println s!"  TWOEPS buildTL ok, wfOneEpsilon = {A.wfOneEpsilon}, states {res.a.g.nodeIndices.length}, log length {res.log.length}"
      | .error _ => IO.println s!"  buildTL ERROR"
      IO.println s!"  inputs: {repr inputs}"
      IO.println s!"  log: {repr res.log}"
    return ((if res.viol.isEmpty then 0 else 1), (if res.selfEps.isEmpty then 0 else 1),
      (if fin.isEmpty then 0 else 1), 0)

def main (args : List String) : IO Unit := do
  let lo := args[0]!.toNat!
  let hi := args[1]!.toNat!
  let mut v := 0
  let mut se := 0
  let mut f := 0
  let mut er := 0
  for seed in [lo:hi] do
    let (a, b, c, d) ← (if args.length > 3 then trialT seed (args.length > 2 && args[2]! == "v") else trial seed (args.length > 2 && args[2]! == "v") (args.length > 2 && args[2]! == "D") (args.length > 2 && args[2]! == "S"))
    v := v + a; se := se + b; f := f + c; er := er + d
  IO.println s!"seeds {lo}..{hi}: c1K violations {v}, self-eps emissions {se}, final two-eps {f}, errors {er}"
