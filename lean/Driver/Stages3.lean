/-
Driver/Stages3.lean — record handler for stage TOPO (property C15) — also validates the
`StableGraph` model (indices returned by add_node / add_edge).
-/
import Driver.Stages2
import PmVerif.Spec.TopoSpec
namespace Drv
open Pm

structure TopoRun where
  g : SGraph Unit Unit
  t : Topo
  root : Nat
  adm : Bool := true
  reusedVisited : Bool := false
  emitted : List Nat := []
  dis : Option String := none
  oracle : List String := []
  nNext : Nat := 0
  nEdits : Nat := 0
  exhausted : Bool := false

def topoStep (r : TopoRun) : Parser TopoRun := do
  let k ← tok
  match k with
  | "N" => do
    let scan ← pList pNat
    let res ← pOpt pNat
    let stack ← pList pNat
    -- the real visited set must be the model's (as sets)
    let visOk := scan.length == r.t.visited.length && scan.all r.t.visited.contains
    match Topo.next r.g scan 100000 r.t with
    | none => pure { r with dis := r.dis <|> some "DISAGREE TOPO model-out-of-fuel" }
    | some (mres, t') =>
      let dis := if !visOk then some s!"DISAGREE TOPO visited-set model={sNats r.t.visited} impl={sNats scan}"
        else if mres != res then some s!"DISAGREE TOPO emitted model={sOpt toString mres} impl={sOpt toString res}"
        else if t'.stack != stack then some s!"DISAGREE TOPO stack model={sNats t'.stack} impl={sNats stack}"
        else none
      -- oracle on the implementation's emission
      let o1 := match res with
        | some n =>
          (if r.emitted.contains n then [s!"C15 emitted-twice {n}"] else []) ++
          (if !(r.g.preds n).all r.emitted.contains then [s!"C15 emitted-before-predecessor {n}"] else []) ++
          (if !r.g.containsNode n then [s!"C15 emitted-vacant {n}"] else [])
        | none =>
          if r.adm && !r.reusedVisited && !allVisited r.g r.emitted then
            [s!"C15 exhausted-with-unvisited-nodes emitted={sNats r.emitted}"] else []
      let emitted := match res with | some n => r.emitted ++ [n] | none => r.emitted
      pure { r with t := t', dis := r.dis <|> dis, oracle := r.oracle ++ o1, emitted := emitted,
                    nNext := r.nNext + 1, exhausted := r.exhausted || res.isNone }
  | "AN" => do
    let idx ← pNat
    let (g', i) := r.g.addNode ()
    let dis := if i != idx then some s!"DISAGREE GRAPH add_node model={i} impl={idx}" else none
    -- clause (iv): identifiers never reused
    let reused := r.emitted.contains idx
    pure { r with g := g', dis := r.dis <|> dis, reusedVisited := r.reusedVisited || reused,
                  nEdits := r.nEdits + 1 }
  | "AE" => do
    let a ← pNat; let b ← pNat; let e ← pNat
    match r.g.addEdge a b () with
    | .error _ => pure { r with dis := r.dis <|> some "DISAGREE GRAPH add_edge model-panics" }
    | .ok (g', e') =>
      let dis := if e' != e then some s!"DISAGREE GRAPH add_edge model={e'} impl={e}" else none
      pure { r with g := g', dis := r.dis <|> dis, nEdits := r.nEdits + 1 }
  | "RE" => do
    let e ← pNat; let ok ← pBool
    match r.g.removeEdge e with
    | none =>
      pure { r with dis := r.dis <|> (if ok then some "DISAGREE GRAPH remove_edge model=absent" else none) }
    | some (g', _) =>
      pure { r with g := g', dis := r.dis <|> (if !ok then some "DISAGREE GRAPH remove_edge model=present" else none),
                    nEdits := r.nEdits + 1 }
  | "RN" => do
    let a ← pNat; let ok ← pBool
    let had := r.g.containsNode a
    pure { r with g := r.g.removeNode a,
                  dis := r.dis <|> (if had != ok then some "DISAGREE GRAPH remove_node presence" else none),
                  nEdits := r.nEdits + 1 }
  | _ => fun _ => none

def topoSteps : Nat → TopoRun → Parser TopoRun
  | 0, r => pure r
  | n + 1, r => do
    -- admissibility is a property of the state at each `next` call (edits happen in between)
    let isNext := fun (ts : List String) => some (ts.head? == some "N", ts)
    let atNext ← isNext
    -- hypotheses of c15_exhaustive_hist at every call: admissible state and a live root
    let r := if atNext then { r with adm := r.adm && admState r.g r.root r.emitted && r.g.containsNode r.root } else r
    let r' ← topoStep r
    topoSteps n r'

def handleTP : Parser String := do
  let n ← pNat
  let ne ← pNat
  let edges ← pRep (pPair pNat pNat) ne
  let root ← pNat
  let nsteps ← pNat
  let g0 : SGraph Unit Unit := (List.range n).foldl (fun g _ => (g.addNode ()).1) SGraph.empty
  let g0 := edges.foldl (fun g (ab : Nat × Nat) =>
    match g.addEdge ab.1 ab.2 () with | .ok (g', _) => g' | .error _ => g) g0
  let r0 : TopoRun := { g := g0, t := Topo.new root, root := root }
  let r ← topoSteps nsteps r0
  let flags := join ([s!"next={r.nNext}", s!"edits={r.nEdits}"] ++
    (if r.adm && !r.reusedVisited then ["admissible"] else ["inadmissible"]) ++
    (if r.reusedVisited then ["index-reuse"] else []) ++
    (if r.exhausted then ["exhausted"] else []) ++
    (if r.nEdits > 0 && r.nNext ≥ 2 then ["nt"] else []))
  pure (verdict r.oracle r.dis flags)

end Drv
