/-
Driver/Stages2.lean — record handlers for stage TREE (property C10).
-/
import Driver.Stages1
import PmVerif.Spec.TreeSpec
namespace Drv
open Pm

def pTCons : Parser TCons := do
  let p ← pTPred
  let args ← pList pNat
  pure ⟨p, args⟩

def pSCons : Parser StrCons := do
  let p ← pCharPred
  let args ← pList pNat
  pure ⟨p, args⟩

def pMCons : Parser MatCons := do
  let p ← pCharPred
  let args ← pList pMKey
  pure ⟨p, args⟩

def sCharPred : CharPred → String
  | .bindingEq => "0"
  | .constVal c => s!"1 {c}"

def sTPred : TPred → String
  | .eq => "0" | .ne => "1" | .const c => s!"2 {c}" | .true_ n => s!"3 {n}" | .lt => "4"
  | .notIn n => s!"5 {n}"

def sTCons (c : TCons) : String := s!"{sTPred c.pred} {sNats c.args}"
def sSCons (c : StrCons) : String := s!"{sCharPred c.pred} {sNats c.args}"
def sMCons (c : MatCons) : String :=
  s!"{sCharPred c.pred} {sList (fun (k : MKey) => s!"{k.1} {k.2}") c.args}"

def sTree {C} (sc : C → String) (t : CTree C) : String :=
  join ([if t.makeDet then "1" else "0", toString t.nodes.length] ++
    t.nodes.map fun nd => s!"{sNats nd.labels} {sList (fun (ch : C × Nat) => s!"{sc ch.1} {ch.2}") nd.children}")

def pTree {C} (pc : Parser C) : Parser (CTree C) := do
  let md ← pBool
  let n ← pNat
  let nodes ← pRep (do
    let labels ← pList pNat
    let children ← pList (pPair pc pNat)
    pure (TreeNode.mk labels children)) n
  pure ⟨nodes, md⟩

/-- all Boolean assignments to the given (distinct) constraints, as functions -/
def allAssignments {C} [DecidableEq C] (cs : List C) : List (C → Bool) :=
  let ds := cs.foldl (fun acc c => if acc.contains c then acc else acc ++ [c]) []
  (List.range (2 ^ ds.length)).map fun mask c =>
    match ds.idxOf? c with
    | some i => (mask >>> i) % 2 == 1
    | none => false

def treeEdgeConstraints {C} (t : CTree C) : List C := t.nodes.flatMap fun nd => nd.children.map (·.1)

/-- C10 oracle on the implementation's tree. `σs` = the assignments to test. -/
def treeOracle {C} [DecidableEq C] (t : CTree C) (cs : List C) (smallest : Option Nat)
    (σs : List (C → Bool)) : List String :=
  let invalid := t.allLabels.any (· ≥ cs.length)
  let small := match smallest with
    | none => true
    | some i => t.allLabels.contains i
  let unfaithful := σs.any fun σ => !t.faithfulAt cs σ
  (if invalid then ["C10 invalid-index"] else []) ++
  (if !small then ["C10 smallest-missing"] else []) ++
  (if unfaithful then ["C10 unfaithful"] else [])

def treeFlags {C} (t : CTree C) (cs : List C) : String :=
  join ([s!"n={cs.length}", s!"nodes={t.nodes.length}", s!"labels={t.allLabels.length}"] ++
    (if t.makeDet then ["det"] else []) ++ (if (t.labelsAt 0).length > 0 then ["rootlabel"] else []) ++
    (if t.nodes.length ≥ 3 then ["nt"] else []))

def handleTreeChar {K} [DecidableEq K] (pc : Parser (Constraint K CharPred))
    (sc : Constraint K CharPred → String) (lt : K → K → Bool) (stage : String) : Parser String := do
  let cs ← pList pc
  expect "=>"
  let implToks ← rest
  let impl := join implToks
  let model := charTree lt cs
  let modelS := match model with | some t => sTree sc t | none => "P"
  let dis := if modelS != impl then some s!"DISAGREE {stage} model={modelS} impl={impl}" else none
  let oracle := match pTree pc implToks with
    | some (t, _) =>
      let smallest := (sortWithIndices (strConsLe lt) cs).head?.map (·.2)
      treeOracle t cs smallest (allAssignments (cs ++ treeEdgeConstraints t))
    | none => ["C10 unparsable-tree"]
  pure (verdict oracle dis (match model with | some t => treeFlags t cs | none => "panic"))

def handleTRH : Parser String := do
  let kind ← pNat
  let cs ← pList pTCons
  let rel ← pList (pList pBool)
  expect "=>"
  let implToks ← rest
  let impl := join implToks
  let isMutex := fun (a b : TCons) =>
    match cs.idxOf? a, cs.idxOf? b with
    | some i, some j => (rel.getD i []).getD j false
    | _, _ => false
  let indexed := cs.zip (List.range cs.length)
  let model := if kind == 0 then CTree.withTransitiveMutex indexed isMutex
               else CTree.withPairwiseMutex indexed isMutex
  let modelS := sTree sTCons model
  let dis := if modelS != impl then some s!"DISAGREE TREE.helper model={modelS} impl={impl}" else none
  let oracle := match pTree pTCons implToks with
    | some (t, _) =>
      treeOracle t cs (if cs.isEmpty then none else some 0) (allAssignments (cs ++ treeEdgeConstraints t))
    | none => ["C10 unparsable-tree"]
  pure (verdict oracle dis (treeFlags model cs))

/-- all bindings of keys 0..5 to values {0,1,2} (3^6 = 729) as association lists -/
def allBindings6 : List TMap :=
  (List.range 729).map fun n =>
    (List.range 6).map fun k => (k, (n / (3 ^ k)) % 3)

def tSat (m : TMap) (c : TCons) : Bool :=
  match isSatisfied alGet TPred.check c (⟨false, []⟩ : THost) m with
  | .ok (some b) => b
  | _ => false

def handleTRT : Parser String := do
  let s ← pNat
  let cs ← pList pTCons
  expect "=>"
  let implToks ← rest
  let impl := join implToks
  let model := tTreeAll s cs FUEL
  let modelS := match model with | some t => sTree sTCons t | none => "F"
  let dis := if modelS != impl then some s!"DISAGREE TREE.table model={modelS} impl={impl}" else none
  let oracle := match pTree pTCons implToks with
    | some (t, _) =>
      let smallest := (sortWithIndices tconsLe cs).head?.map (·.2)
      -- semantic assignments: every binding of the keys to three values
      treeOracle t cs smallest (allBindings6.map fun m => tSat m)
    | none => ["C10 unparsable-tree"]
  pure (verdict oracle dis (match model with | some t => s!"strategy={s} {treeFlags t cs}" | none => "fuel"))

end Drv
