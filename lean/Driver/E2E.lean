/-
Driver/E2E.lean — end-to-end records: pattern conversion, exact replay of the build against
the dumped automaton, well-formedness of the dump, traversal and baseline on the
implementation's own artefacts, and the occurrence oracles (C01–C09).
-/
import Driver.Dump
import PmVerif.Model.ManyMatcher
import PmVerif.Model.BuilderT
import PmVerif.Model.TraversalX
import PmVerif.Proofs.C07Check
import PmVerif.Props.TBuildLCore
import PmVerif.Spec.Occurs
import PmVerif.Spec.MatRun
namespace Drv
open Pm

inductive HeurSpec where
  | default | never | custom (a : List Bool)

def pHeur : Parser HeurSpec := do
  let k ← pNat
  match k with
  | 0 => pure .default
  | 1 => pure .never
  | _ => do let a ← pList pBool; pure (.custom a)

/-- the answers the heuristic gave, read off the event log -/
def loggedAnswers : List Ev → List Bool
  | .detAsk _ :: .detYes _ :: rest => true :: loggedAnswers rest
  | .detAsk _ :: rest => false :: loggedAnswers rest
  | _ :: rest => loggedAnswers rest
  | [] => []

def heurConsistent (h : HeurSpec) (ans : List Bool) : Bool :=
  match h with
  | .default => ans.all id
  | .never => ans.all (!·)
  | .custom a => (List.range ans.length).all fun i => ans[i]? == some (a.getD i false)

/-- insertion sort of strings (canonical multisets) -/
def sortStrings (xs : List String) : List String :=
  xs.foldl (fun acc x =>
    let (lo, hi) := acc.span (fun y => y ≤ x)
    lo ++ x :: hi) []

def multisetDiff (xs ys : List String) : List String :=
  ys.foldl (fun acc y => acc.erase y) xs

/-- Everything domain specific about an end-to-end record. -/
structure E2EDom (K V P H M Pat : Type) where
  name : String
  D : Domain K V P H M
  toTree : List (Constraint K P) → Option (CTree (Constraint K P))
  pKey : Parser K
  pCons : Parser (Constraint K P)
  pPat : Parser Pat
  pHost : Parser H
  pMap : Parser M
  sMap : M → String
  /-- model of `try_to_constraint_vec` (`none` = conversion error) -/
  convert : Pat → Option (List (Constraint K P))
  consEq : List (Constraint K P) → List (Constraint K P) → Bool
  extraKeys : Pat → List K
  /-- occurrence oracle: given the match data reported for this pattern on this host, returns
  (reported but not occurring, occurring but not reported, reported more than once) -/
  judge : Option (Pat → H → List M → List String × List String × List String)
  /-- classify a miss / false positive as a listed known finding (signature), if any -/
  known : Pat → Option String := fun _ => none
  /-- classify an automaton-vs-baseline difference as a listed known finding, if any -/
  knownC03 : Pat → Option String := fun _ => none
  /-- compare the baseline's results in emission order (false: as multisets, where the order
  depends on a hash iteration order, c9) -/
  orderedBaseline : Bool := true
  /-- decidable per-program condition of the anchored-traversal theorem, if the domain has one:
  0 = fails, 1 = holds, 2 = not applicable (outside the theorem's domain) -/
  programOK : Option (Automaton K P → List Pat → List (Option (List (Constraint K P))) → Nat) := none
  /-- hosts to enumerate exhaustively when the replay hits a model guard (search for a
  concrete failing input on the dumped automaton) -/
  windows : List Pat → List H := fun _ => []
  sHost : H → String := fun _ => "?"
  /-- well-formedness hypotheses of the domain theorems, evaluated on every pattern and host of
  the stream (port graphs: `LinksOK`, `tdom_pg_linksOKb_iff`) -/
  wfPat : Pat → Bool := fun _ => true
  wfHost : H → Bool := fun _ => true
  /-- decidable structural unambiguity of the dumped automaton (C07: `c07_string_checked`), if
  the domain has one -/
  unambOK : Option (Automaton K P → Bool) := none

structure E2EOut where
  oracle : List String := []
  dis : List String := []
  known : List String := []
  flags : List String := []

def E2EOut.render (o : E2EOut) : String :=
  let items := o.oracle.map (s!"ORACLE-FAIL {·}") ++ o.dis.map (s!"DISAGREE {·}") ++
    o.known.map (s!"KNOWN {·}")
  if o.oracle.isEmpty && o.dis.isEmpty then
    (if o.known.isEmpty then s!"ok {join o.flags}"
     else s!"KNOWN {join o.flags} ;; {String.intercalate " ;; " (o.known.map (s!"KNOWN {·}"))}")
  else String.intercalate " ;; " items

def handleE2E {K V P H M Pat} [DecidableEq K] [DecidableEq V] [DecidableEq P]
    (dom : E2EDom K V P H M Pat) : Parser String := do
  let pats ← pList dom.pPat
  let fallbackFail ← pBool
  let heur ← pHeur
  let hosts ← pList dom.pHost
  expect "=>"
  let status ← tok
  if status == "P" then
    let tag := join (← rest)
    pure (E2EOut.render { oracle := [s!"C08 implementation-panicked {tag}"] })
  else if status == "ERR" then
    -- construction failed under PatternFallback::Fail: some pattern must be non-convertible
    let anyBad := pats.any fun p => (dom.convert p).isNone
    pure (E2EOut.render
      (if fallbackFail && anyBad then { flags := ["conversion-error"] }
       else { oracle := ["C06 construction-error-without-nonconvertible-pattern"] }))
  else do
  let cvs ← pList (pOpt (pList dom.pCons))
  let nPatterns ← pNat
  let getFlags ← pList pNat
  let nStates ← pNat
  let evs ← pEvents
  let dump ← pDump dom.pKey dom.pCons
  let nArrows ← pNat
  let perHost ← pRep (do
    let many ← pList (pPair pNat dom.pMap)
    let naive ← pOpt (pList (pPair pNat dom.pMap))
    pure (many, naive)) hosts.length
  let mut out : E2EOut := {}
  if !(pats.all dom.wfPat) || !(hosts.all dom.wfHost) then
    out := { out with dis := out.dis ++ [s!"{dom.name}.wf a pattern or host violates the well-formedness hypothesis of the domain theorems"] }
  -- (a) pattern conversion
  let modelCvs := pats.map dom.convert
  let convOk := (modelCvs.zip cvs).all fun (m, i) =>
    match m, i with
    | some a, some b => dom.consEq a b
    | none, none => true
    | _, _ => false
  if !convOk || modelCvs.length != cvs.length then
    out := { out with dis := out.dis ++ [s!"{dom.name}.pattern constraint vectors differ"] }
  -- (b) ids, n_patterns, get_pattern
  let idx := List.range pats.length
  let compiled := idx.filter fun i => (cvs.getD i none).isSome
  if nPatterns != compiled.length then
    out := { out with oracle := out.oracle ++ [s!"C06 n_patterns={nPatterns} compiled={compiled.length}"] }
  let expectFlags := (List.range (pats.length + 2)).map fun i => if compiled.contains i then 1 else 0
  if getFlags != expectFlags then
    out := { out with oracle := out.oracle ++ ["C06 get_pattern does not reflect the compiled patterns"] }
  if fallbackFail && compiled.length != pats.length then
    out := { out with oracle := out.oracle ++ ["C06 fallback=Fail but a pattern was skipped"] }
  -- (c) exact replay of the build from the implementation's constraint vectors
  let inputs : List (Nat × List (Constraint K P) × List K) := idx.filterMap fun i =>
    match cvs.getD i none, pats[i]? with
    | some cv, some p => some (i, cv, dom.extraKeys p)
    | _, _ => none
  -- the replay follows the Rust code (no make_det guard) and must reproduce the dump exactly
  match Automaton.buildTL dom.toTree dom.D.req FUEL inputs evs with
  | .error e => out := { out with dis := out.dis ++ [s!"BUILD.replay model-error {e}"] }
  | .ok a =>
    match compareWithDump a dump with
    | some d => out := { out with dis := out.dis ++ [s!"BUILD.replay {d}"] }
    | none => pure ()
  -- the guarded build is the one the builder theorem (T-BUILD) speaks about; when a guard
  -- fires, this build is outside the region the theorem covers: search the dumped automaton
  -- (model traversal, which the RUN stage ties to the implementation) for a failing host.
  let mut guardHit := false
  let mut guardE := true
  let mut accOk := true
  -- strict replay: buildTE (c1T, c1C, c4T, c1D, c1E) for the shipped domains; the table test
  -- domain, on whose real logs c1E can fail, is judged against buildTD
  match (if dom.name == "TAB" then Automaton.buildTD dom.toTree dom.D.req FUEL inputs evs
         else Automaton.buildTE dom.toTree dom.D.req FUEL inputs evs) with
  | .ok _ => pure ()
  | .error _ =>
    guardHit := true
    -- outside the strict replay. Set-level theorems still cover the build if the weaker
    -- guard E holds along the log (`TBL.buildTL_acc_partial`) or the dumped automaton passes
    -- the per-build determinism check (`TBL.buildTL_acc_checked`); multiplicity and totality
    -- are covered per build (unambOK, wfCheck). Only when BOTH fail is the build outside every
    -- set-level theorem: reported as a disagreement, and searched for a failing host.
    guardE := TBL.guardE_ok dom.toTree dom.D.req FUEL inputs evs
    accOk := TBL.accOK dump.toAutomaton
    if !guardE && !accOk then
      out := { out with dis := out.dis ++ ["BUILD.outside the build trips the make_det guard, fails guard E and the dumped automaton fails accOK: outside every set-level theorem"] }
    match dom.judge with
    | none => pure ()
    | some judge =>
      let A := dump.toAutomaton
      let mut found := false
      for hw in dom.windows pats do
        if !found then
          match Pm.run dom.D A hw FUEL with
          | .error _ => pure ()
          | .ok (ms, _) =>
            for i in idx do
              match pats[i]?, cvs.getD i none with
              | some p, some _ =>
                let got := (ms.filter (·.1 == i)).map (·.2)
                let (fp, missed, dups) := judge p hw got
                if !found && (!fp.isEmpty || !missed.isEmpty || !dups.isEmpty) then
                  found := true
                  out := { out with oracle := out.oracle ++
                    [s!"{if !fp.isEmpty then "C01" else if !missed.isEmpty then "C02" else "C07"} window-search host={dom.sHost hw} pattern={i} false-pos={join fp} missed={join missed} dups={join dups}"] }
              | _, _ => pure ()
  -- (d) heuristic answers
  let answers := loggedAnswers evs
  if !heurConsistent heur answers then
    out := { out with dis := out.dis ++ ["CON.heuristic logged answers do not match the heuristic"] }
  -- (e) (f) the dumped automaton
  let A := dump.toAutomaton
  if nStates != dump.states.length then
    out := { out with oracle := out.oracle ++ [s!"C09 n_states={nStates} dump={dump.states.length}"] }
  let nEdges := (dump.states.map (·.out.length)).sum
  if nArrows < nEdges then
    out := { out with dis := out.dis ++ [s!"BUILD.dump dot_string has {nArrows} arrows, dump has {nEdges} edges"] }
  let wf := A.wfFailures dom.D.req compiled
  if !wf.isEmpty then
    out := { out with oracle := out.oracle ++ [s!"C09 {join wf}"] }
  -- (g) (h) per host
  let mut nOcc := 0
  let mut nMatches := 0
  for (h, (many, naive)) in hosts.zip perHost do
    let implMany := many.map fun (i, m) => s!"{i}:{dom.sMap m}"
    nMatches := nMatches + implMany.length
    -- model traversal on the dumped automaton
    let mut modelMatches : Option (List (Nat × M)) := none
    match Pm.run dom.D A h FUEL with
    | .error e => out := { out with dis := out.dis ++ [s!"RUN.run model-error {e}"] }
    | .ok (ms, _) =>
      modelMatches := some ms
      let modelMany := ms.map fun (i, m) => s!"{i}:{dom.sMap m}"
      if sortStrings modelMany != sortStrings implMany then
        out := { out with dis := out.dis ++
          [s!"RUN.run matches differ model={join (sortStrings modelMany)} impl={join (sortStrings implMany)}"] }
    -- model baseline on the implementation's constraint vectors
    match naive with
    | none => out := { out with oracle := out.oracle ++ ["C08 baseline-panicked"] }
    | some naive =>
      let implNaive := naive.map fun (i, m) => s!"{i}:{dom.sMap m}"
      -- NaiveManyMatcher numbers the compiled patterns by their position among them
      match naiveMatchesX dom.D h FUEL (inputs.map fun x => (x.2.1, x.2.2)) 0 with
      | .error e => out := { out with dis := out.dis ++ [s!"SINGLE.run model-error {e}"] }
      | .ok ns =>
        let modelNaive := ns.map fun (i, m) => s!"{i}:{dom.sMap m}"
        if (if dom.orderedBaseline then modelNaive != implNaive
            else sortStrings modelNaive != sortStrings implNaive) then
          out := { out with dis := out.dis ++ [s!"SINGLE.run matches differ model={join modelNaive} impl={join implNaive}"] }
      -- C03: automaton vs baseline (ids of the baseline are positions among the compiled ones)
      for i in compiled do
        let j := compiled.idxOf i
        let manySet := (sortStrings ((many.filter (·.1 == i)).map fun (_, m) => dom.sMap m)).eraseDups
        let naiveSet := (sortStrings ((naive.filter (·.1 == j)).map fun (_, m) => dom.sMap m)).eraseDups
        if manySet != naiveSet then
          match (pats[i]?).bind dom.knownC03 with
          | some sig => out := { out with known := out.known ++ [s!"C03 {sig}"] }
          | none => out := { out with oracle := out.oracle ++
              [s!"C03 automaton-vs-baseline pattern={i} many-only={join (multisetDiff manySet naiveSet)} baseline-only={join (multisetDiff naiveSet manySet)}"] }
      -- C05 baseline vs occurrence oracle
      match dom.judge with
      | none => pure ()
      | some judge =>
        for i in compiled do
          match pats[i]? with
          | none => pure ()
          | some p =>
            let j := compiled.idxOf i
            let got := (naive.filter (·.1 == j)).map (·.2)
            let (fp, missed, _) := judge p h got
            if !fp.isEmpty || !missed.isEmpty then
              match dom.known p with
              | some sig => out := { out with known := out.known ++ [s!"C05 {sig}"] }
              | none => out := { out with oracle := out.oracle ++
                  [s!"C05 baseline pattern={i} reported-but-not-occurring={join fp} occurring-but-not-reported={join missed}"] }
    -- C01 / C02 / C07 against the occurrence oracle
    match dom.judge with
    | none => pure ()
    | some judge =>
      for i in compiled do
        match pats[i]? with
        | none => pure ()
        | some p =>
          let got := (many.filter (·.1 == i)).map (·.2)
          let (falsePos, missed, dups) := judge p h got
          nOcc := nOcc + got.length
          if !falsePos.isEmpty then
            match dom.known p with
            | some sig => out := { out with known := out.known ++ [s!"C01 {sig}"] }
            | none => out := { out with oracle := out.oracle ++ [s!"C01 pattern={i} reported-but-not-occurring={join falsePos}"] }
          if !missed.isEmpty then
            -- a miss is a listed known finding only if the pattern carries the signature AND the
            -- model (which reproduces the pinned algorithm) misses the same occurrences
            let modelMissed := match modelMatches with
              | some mm => (judge p h ((mm.filter fun (x : Nat × M) => x.1 == i).map fun (x : Nat × M) => x.2)).2.1
              | none => missed
            let newMisses := missed.filter fun x => !modelMissed.contains x
            match dom.known p, newMisses.isEmpty with
            | some sig, true => out := { out with known := out.known ++ [s!"C02 {sig}"] }
            | _, _ => out := { out with oracle := out.oracle ++ [s!"C02 pattern={i} occurring-but-not-reported={join (if newMisses.isEmpty then missed else newMisses)}"] }
          if !dups.isEmpty then
            out := { out with oracle := out.oracle ++ [s!"C07 pattern={i} reported-more-than-once={join dups}"] }
      -- a non-compiled id must never be reported
      if many.any fun (i, _) => !compiled.contains i then
        out := { out with oracle := out.oracle ++ ["C06 match reported for a skipped pattern id"] }
  -- the decidable side conditions of the end-to-end theorems, on the dumped automaton: for
  -- strings and matrices `strProg_built` / `matProg_built` make programOK a theorem about every
  -- build, so a failure means model and code differ; unambOK is the hypothesis of
  -- `c07_string_checked` (exactly-once for every host)
  if dom.name == "STR" || dom.name == "MAT" then
    match dom.programOK with
    | some f => if f A pats cvs == 0 then
        out := { out with dis := out.dis ++ ["BUILD.programOK the dumped automaton violates the per-state conditions proved for every build"] }
    | none => pure ()
  match dom.unambOK with
  | some f => if !f A then
      out := { out with dis := out.dis ++ ["RUN.unambOK the dumped automaton fails the structural unambiguity check (hypothesis of c07_string_checked)"] }
  | none => pure ()
  let nMerges := (evs.filter fun e => match e with | .merge _ v => v.length ≥ 2 | _ => false).length
  let nFuse := (evs.filter fun e => match e with | .group .. => true | _ => false).length
  out := { out with flags :=
    [s!"dom={dom.name}", s!"patterns={pats.length}", s!"states={dump.states.length}",
     s!"asks={answers.length}", s!"yes={(answers.filter id).length}"] ++
    (if nMerges > 0 then ["merge"] else []) ++ (if nFuse > 0 then ["fuse"] else []) ++
    (if nOcc > 0 then ["occ"] else []) ++ (if guardHit then ["outside-tbuild-guard"] ++ (if guardE then ["guardE-ok"] else ["guardE-FAILS"]) ++ (if accOk then ["accOK"] else ["accOK-FAILS"]) else []) ++
    (match dom.programOK with
     | none => []
     | some f => match f A pats cvs with | 1 => ["programOK"] | 0 => ["programOK-FAILS"] | _ => ["programOK-na"]) ++
    (match dom.unambOK with
     | none => []
     | some f => if f A then ["unambOK"] else ["unambOK-FAILS"]) ++
    (if nMatches > 0 || nMerges > 0 || nFuse > 0 then ["nt"] else []) }
  pure out.render

/-! ### domain instances -/

def pCharVar : Parser CharVar := do
  let k ← pNat
  let c ← pNat
  pure (if k == 0 then .lit c else .var c)

def pStrPos : Parser StrPos := do
  let k ← pNat
  if k == 0 then pure .unbound else do
    let s ← pNat; let l ← pNat; pure (.bound s l)

def sStrPos : StrPos → String
  | .unbound => "U"
  | .bound s l => s!"B{s}+{l}"

/-- expected matches of a string pattern: the empty pattern once, unbound; otherwise one per
occurrence, extent = pattern length -/
def strExpected (p : List CharVar) (h : List Nat) : List StrPos :=
  if p.isEmpty then [.unbound] else (strOccurrences p h).map fun a => .bound a p.length

/-- judge from an expected multiset of match data -/
def judgeExpected {Pat H M} (sMap : M → String) (exp : Pat → H → List M) (p : Pat) (h : H)
    (got : List M) : List String × List String × List String :=
  let want := (exp p h).map sMap
  let gotS := got.map sMap
  (gotS.filter fun g => !want.contains g, want.filter fun w => !gotS.contains w,
    multisetDiff gotS gotS.eraseDups)

/-- all hosts up to the longest pattern's length + 1 (at most 8, and at most ≈ 40 000 hosts) over
the literals of the patterns plus two fresh characters (two, so that a variable equality can be
made false on non-literal characters) -/
def strWindows (pats : List (List CharVar)) : List (List Nat) :=
  let lits := (pats.flatMap fun p => p.filterMap fun cv => match cv with | .lit c => some c | _ => none).eraseDups
  let alpha := lits ++ [1000, 1001]
  let maxLen := min 8 ((pats.map (·.length)).foldl max 0 + 1)
  let rec fit (l : Nat) : Nat → Nat
    | 0 => l
    | f + 1 => if alpha.length ^ l > 40000 ∧ l > 1 then fit (l - 1) f else l
  let len := fit maxLen 8
  let rec go : Nat → List (List Nat)
    | 0 => [[]]
    | n + 1 => let prev := go n; prev ++ (prev.filter (·.length == n)).flatMap fun h => alpha.map fun c => h ++ [c]
  go len

def strE2E : E2EDom Nat Nat CharPred (List Nat) StrPos (List CharVar) :=
  { name := "STR", D := strDomain, toTree := charTree natLt,
    pKey := pNat, pCons := pSCons, pPat := pList pCharVar, pHost := pList pNat, pMap := pStrPos,
    sMap := sStrPos, convert := fun p => some (strConstraints p), consEq := fun a b => a == b,
    extraKeys := fun _ => [], judge := some (judgeExpected sStrPos strExpected),
    windows := strWindows, sHost := sNats, programOK := some fun a ps _ => if strProgramOK a ps then 1 else 0,
    unambOK := some fun a => C07.unambOK C07.charMx a }

end Drv

namespace Drv
open Pm

def pMatCell : Parser (Option CharVar) := do
  let k ← pNat
  let c ← pNat
  pure (match k with | 0 => some (.lit c) | 1 => some (.var c) | _ => none)

def sMatPos : MatPos → String
  | .unbound => "U"
  | .bound sr sc a b c d => s!"B{sr},{sc}[{a},{b}..{c},{d}]"

def matExpected (p : MatPattern) (h : MatHost) : List MatPos :=
  let ext := matExtent p
  (matOccurrences p h).map fun (r, c) => .bound r c 0 0 ext.1 ext.2

def matE2E : E2EDom MKey MVal CharPred MatHost MatPos MatPattern :=
  { name := "MAT", D := matDomain, toTree := charTree mkeyLt,
    pKey := pMKey, pCons := pMCons, pPat := pList (pList pMatCell), pHost := pList (pList pNat),
    pMap := pMatPos, sMap := sMatPos, convert := fun p => some (matConstraints p),
    consEq := fun a b => a == b, extraKeys := fun _ => [], judge := some (judgeExpected sMatPos matExpected),
    programOK := some fun a ps _ => if matProgramOK a ps then 1 else 0,
    unambOK := some fun a => C07.unambOK C07.charMx a }

structure TPat where
  cons : List TCons
  extra : Option (List Nat)
  convertible : Bool

def tableE2E (s : TScheme) (strategy : Nat) : E2EDom Nat Nat TPred THost TMap TPat :=
  { name := "TAB",
    D := { req := s.req, opts := THost.opts s, map := tMap, arity := TPred.arity,
           check := fun p h vs => TPred.check p h vs },
    toTree := fun cs => tTreeAll strategy cs FUEL,
    pKey := pNat, pCons := pTCons,
    pPat := (do
      let cons ← pList pTCons
      let extra ← pOpt (pList pNat)
      let conv ← pBool
      pure ⟨cons, extra, conv⟩),
    pHost := pTHost, pMap := pList (pPair pNat pNat),
    sMap := fun m => sPairs (sortPairs m),
    convert := fun p => if p.convertible then some p.cons else none,
    consEq := fun a b => a == b,
    extraKeys := fun p => p.extra.getD [],
    judge := none }

def handleE2ETable : Parser String := do
  let s ← pScheme
  let strategy ← pNat
  handleE2E (tableE2E s strategy)

end Drv
