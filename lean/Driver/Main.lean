/-
Driver/Main.lean — `pmdriver`: reads correspondence records (one per line) on stdin, recomputes
each with the executable model, evaluates the property oracles on the implementation's
observed output, and answers one line per record:
  `ok <flags…>` | `DISAGREE <kind> model=<…> impl=<…>` | `ORACLE-FAIL <property> <detail>` |
  `KNOWN <property> <signature> …` | `BADREC <kind>`.
-/
import Driver.Cross
import Driver.ParseStage
import Driver.RenderStage
import Driver.TreeDet
open Pm Drv

def handle (line : String) : String :=
  match (line.splitOn " ").filter (· ≠ "") with
  | [] => "BADREC empty"
  | kind :: ts =>
    let p : Option (Parser String) := match kind with
      | "MB1" => some (handleMissing true)
      | "MBA" => some (handleMissing false)
      | "BA" => some handleBindAll
      | "CS" => some handleCS
      | "CSS" => some handleCSS
      | "CSM" => some handleCSM
      | "MO" => some handleMO
      | "TRS" => some (handleTreeChar pSCons sSCons natLt "TREE.string")
      | "TRM" => some (handleTreeChar pMCons sMCons mkeyLt "TREE.matrix")
      | "TRH" => some handleTRH
      | "TRT" => some handleTRT
      | "TP" => some handleTP
      | "HSUM" => some (handleCross "HSUM")
      | "SSUM" => some (handleCross "SSUM")
      | "EXT" => some (handleCross "EXT")
      | "EXTG" => some handleEXTG
      | "PGL" => some handlePGL
      | "PGC" => some handlePGC
      | "PGW" => some handlePGW
      | "PGO" => some handlePGO
      | "PGR" => some handlePGR
      | "TRG" => some handleTRG
      | "TRGH" => some handleTRGH
      | "PS" => some handlePS
      | "PM" => some handlePM
      | "PH" => some handlePH
      | "RND" => some handleRND
      | "PGD" => some handlePGD
      | "HUNT" => some (fun ts => some (s!"ok hunt cases={ts.getD 1 "?"} suspicious={ts.getD 2 "?"}", []))
      | "E2E" => (match ts.head? with
          | some "S" => some (fun ts => handleE2E strE2E (ts.drop 1))
          | some "M" => some (fun ts => handleE2E matE2E (ts.drop 1))
          | some "T" => some (fun ts => handleE2ETable (ts.drop 1))
          | some "G" => some (fun ts => handleE2E pgE2E (ts.drop 1))
          | _ => none)
      | _ => none
    match p with
    | none => s!"BADREC unknown-kind {kind}"
    | some p =>
      match p ts with
      | some (out, _) => out
      | none => s!"BADREC parse {kind}"

partial def loop (h : IO.FS.Stream) (out : IO.FS.Stream) : IO Unit := do
  let line ← h.getLine
  if line.isEmpty then return ()
  let l := line.trimAscii.toString
  out.putStrLn (handle l)
  loop h out

def main : IO Unit := do
  let stdin ← IO.getStdin
  let stdout ← IO.getStdout
  loop stdin stdout
