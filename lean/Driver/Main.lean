/-
Driver/Main.lean — `pmdriver`: reads correspondence records (one per line) on stdin, recomputes
each with the executable model, evaluates the property oracles on the implementation's
observed output, and answers one line per record:
  `ok <flags…>` | `DISAGREE <kind> model=<…> impl=<…>` | `ORACLE-FAIL <property> <detail>` |
  `BADREC <kind>`.
-/
import Driver.Proto
import PmVerif.Spec.Needed
open Pm Drv

def FUEL : Nat := 1000000

def isAcyclicScheme (s : TScheme) : Bool :=
  -- Kahn-style: repeatedly remove keys all of whose prerequisites are removed
  let n := s.length
  let rec go (fuel : Nat) (done : List Nat) : Bool :=
    match fuel with
    | 0 => done.length == n
    | f + 1 =>
      let next := (List.range n).filter fun k =>
        !done.contains k && (s.req k).all (fun r => r ≥ n || done.contains r)
      if next.isEmpty then done.length == n else go f (done ++ next)
  go (n + 1) []

def flagsMissing (s : TScheme) (out : List Nat) : String :=
  let shared := (List.range s.length).any fun p =>
    ((List.range s.length).filter fun k => (s.req k).contains p).length ≥ 2
  join ([s!"len={out.length}"] ++ (if shared then ["shared"] else []) ++
    (if out.length ≥ 2 then ["nt"] else []))

def handleMissing (single : Bool) : Parser String := do
  let s ← pScheme
  let (keys, known) ← (if single then do
      let known ← pList pNat
      let k ← pNat
      pure ([k], known)
    else do
      let keys ← pList pNat
      let known ← pList pNat
      pure (keys, known))
  expect "=>"
  let implToks ← rest
  let impl := join implToks
  let model :=
    if single then missingBindings s.req known (keys.headD 0) FUEL
    else allMissingBindings s.req keys known FUEL
  let modelS := match model with
    | some out => s!"ok {sNats out}"
    | none => "F"
  if modelS != impl then
    pure s!"DISAGREE IDX.missing model={modelS} impl={impl}"
  else
    match model with
    | none => pure "DISAGREE IDX.missing model-out-of-fuel"
    | some out =>
      let acyc := isAcyclicScheme s
      if acyc && !checkMissing s.req known keys out then
        pure s!"ORACLE-FAIL C12 clauses-fail out={sNats out}"
      else
        pure s!"ok {if acyc then "acyclic" else "cyclic"} {flagsMissing s out}"

def handleBindAll : Parser String := do
  let _kind ← pNat
  let s ← pScheme
  let h ← pTHost
  let start ← pList (pPair pNat pNat)
  let keys ← pList pNat
  let inc ← pBool
  expect "=>"
  let implToks ← rest
  let impl := join implToks
  let res := bindAll tMap (THost.opts s) h start keys inc
  let modelS := s!"ok {sList (fun m => sPairs (sortPairs m)) res}"
  if modelS != impl then
    pure s!"DISAGREE IDX.bindall model={modelS} impl={impl}"
  else
    pure s!"ok n={res.length} {if res.length ≥ 2 then "nt" else ""} {if inc then "inc" else "complete"}"

def handle (line : String) : String :=
  match (line.splitOn " ").filter (· ≠ "") with
  | [] => "BADREC empty"
  | kind :: ts =>
    let p : Option (Parser String) := match kind with
      | "MB1" => some (handleMissing true)
      | "MBA" => some (handleMissing false)
      | "BA" => some handleBindAll
      | _ => none
    match p with
    | none => s!"BADREC unknown-kind {kind}"
    | some p =>
      match p ts with
      | some (out, _) => out
      | none => s!"BADREC parse {kind}"

partial def loop (h : IO.FS.Stream) (out : IO.FS.Stream) : IO Unit := do
  let line ← h.getLine
  if line.isEmpty then return ()
  let l := line.trimAscii.toString
  out.putStrLn (handle l)
  loop h out

def main : IO Unit := do
  let stdin ← IO.getStdin
  let stdout ← IO.getStdout
  loop stdin stdout
