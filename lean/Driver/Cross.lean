/-
Driver/Cross.lean — summary records tying several end-to-end cases together: heuristic sweeps
(C04), pattern-set variants (C06), host-extension chains (C11).
-/
import Driver.PG
namespace Drv
open Pm

/-- matches of one host: list of (pattern id, rendered map) -/
def pMatchList {M} (pm : Parser M) (sm : M → String) : Parser (List (Nat × String)) := do
  let ms ← pList (pPair pNat pm)
  pure (ms.map fun (i, m) => (i, sm m))

def canonMulti (ms : List (Nat × String)) : List String :=
  sortStrings (ms.map fun (i, s) => s!"{i}:{s}")

def handleHSUMWith {M} (pm : Parser M) (sm : M → String) (asSet : Bool) : Parser String := do
  let variants ← pList (do
    let ans ← pList pBool
    let nStates ← pNat
    let hosts ← pList (pMatchList pm sm)
    pure (ans, nStates, hosts))
  let canon := fun (ms : List (Nat × String)) =>
    if asSet then (canonMulti ms).eraseDups else canonMulti ms
  match variants with
  | [] => pure "ok variants=0"
  | (_, _, h0) :: rest =>
    let bad := rest.filter fun (_, _, hs) => hs.map canon != h0.map canon
    let sizes := (variants.map (·.2.1)).eraseDups
    if bad.isEmpty then
      pure s!"ok variants={variants.length} sizes={sizes.length} {if variants.length ≥ 2 then "nt" else ""}"
    else
      let (ans, _, hs) := bad.head!
      pure s!"ORACLE-FAIL C04 matches-depend-on-heuristic answers={sList (fun b => if b then "1" else "0") ans} got={join (hs.map fun h => join (canon h))} first={join (h0.map fun h => join (canon h))}"

def handleSSUMWith {M} (pm : Parser M) (sm : M → String) (asSet : Bool) : Parser String := do
  let variants ← pList (do
    let idmap ← pList (pOpt pNat)
    let hosts ← pList (pMatchList pm sm)
    pure (idmap, hosts))
  let canon := fun (ms : List String) =>
    if asSet then (sortStrings ms).eraseDups else sortStrings ms
  match variants with
  | [] => pure "ok variants=0"
  | (_, whole) :: rest =>
    let bad := rest.filterMap fun (idmap, hs) =>
      (List.range idmap.length).findSome? fun j =>
        match idmap.getD j none with
        | none => none
        | some i =>
          (List.range hs.length).findSome? fun hi =>
            let here := canon (((hs.getD hi []).filter (·.1 == j)).map (·.2))
            let there := canon (((whole.getD hi []).filter (·.1 == i)).map (·.2))
            if here != there then
              some s!"variant-position={j} original={i} host={hi} variant={join here} whole={join there}"
            else none
    if bad.isEmpty then pure s!"ok variants={variants.length} {if variants.length ≥ 3 then "nt" else ""}"
    else pure s!"ORACLE-FAIL C06 pattern-results-depend-on-the-set {bad.head!}"

def handleEXTWith {M} (pm : Parser M) (sm : M → String) (shiftMap : Int → Int → M → M) :
    Parser String := do
  let shifts ← pList (pPair pInt pInt)
  let many ← pList (pList (pPair pNat pm))
  let naive ← pList (pOpt (pList (pPair pNat pm)))
  let check := fun (name : String) (lists : List (List (Nat × M))) =>
    (List.range lists.length).findSome? fun i =>
      (List.range lists.length).findSome? fun j =>
        if i < j then
          let (ri, ci) := shifts.getD i (0, 0)
          let (rj, cj) := shifts.getD j (0, 0)
          let later := (lists.getD j []).map fun (p, m) => s!"{p}:{sm m}"
          ((lists.getD i []).findSome? fun (p, m) =>
            let t := s!"{p}:{sm (shiftMap (rj - ri) (cj - ci) m)}"
            if later.contains t then none
            else some s!"{name} match {p}:{sm m} of host {i} is not reported as {t} in extended host {j}")
        else none
  let bad := (check "automaton" many) <|> (check "baseline" (naive.map fun o => o.getD []))
  let total := (many.map (·.length)).sum
  match bad with
  | some b => pure s!"ORACLE-FAIL C11 {b}"
  | none => pure s!"ok hosts={many.length} matches={total} {if total > 0 && many.length ≥ 2 then "nt" else ""}"

def shiftStr (dr _dc : Int) : StrPos → StrPos
  | .unbound => .unbound
  | .bound a l => .bound (a + dr).toNat l

def shiftMat (dr dc : Int) : MatPos → MatPos
  | .unbound => .unbound
  | .bound r c a b x y => .bound (r + dr).toNat (c + dc).toNat a b x y

def handleCross (kind : String) : Parser String := do
  let dom ← tok
  match kind, dom with
  | "HSUM", "S" => handleHSUMWith pStrPos sStrPos false
  | "HSUM", "M" => handleHSUMWith pMatPos sMatPos false
  | "HSUM", "T" => handleHSUMWith (pList (pPair pNat pNat)) (fun m => sPairs (sortPairs m)) true
  | "HSUM", "G" => handleHSUMWith pPGMap sPGMap true
  | "SSUM", "S" => handleSSUMWith pStrPos sStrPos false
  | "SSUM", "M" => handleSSUMWith pMatPos sMatPos false
  | "SSUM", "G" => handleSSUMWith pPGMap sPGMap true
  | "EXT", "S" => handleEXTWith pStrPos sStrPos shiftStr
  | "EXT", "M" => handleEXTWith pMatPos sMatPos shiftMat
  | _, _ => fun _ => none

end Drv

namespace Drv
open Pm

/-- EXTG: port-graph extension chains. For i < j every root image reported in host i for a
pattern must be reported, transported by the composed node map, in host j. Patterns inside the
known-finding signature are reported as KNOWN (the secondary-root search is context dependent). -/
def handleEXTG : Parser String := do
  let pats ← pList (pPair pGraph (pOpt pNat))
  let rhos ← pList (pList pNat)
  let many ← pList (pList (pPair pNat pPGMap))
  let naive ← pList (pOpt (pList (pPair pNat pPGMap)))
  -- node map from host i to host j (i ≤ j)
  let transport := fun (i j : Nat) (x : Nat) =>
    (List.range (j - i)).foldl (fun v k => (rhos.getD (i + k) []).getD v v) x
  let roots := fun (ms : List (Nat × PGMap)) => ms.filterMap fun (p, m) => (alGet m (.root 0)).map fun r => (p, r)
  let check := fun (name : String) (lists : List (List (Nat × PGMap))) =>
    (List.range lists.length).flatMap fun i =>
      (List.range lists.length).flatMap fun j =>
        if i < j then
          let later := roots (lists.getD j [])
          (roots (lists.getD i [])).filterMap fun (p, r) =>
            if later.contains (p, transport i j r) then none
            else some (p, s!"{name}: pattern {p} reported at node {r} of host {i} but not at node {transport i j r} of extended host {j}")
        else []
  let bad := check "automaton" many ++ check "baseline" (naive.map fun o => o.getD [])
  let (known, new) := bad.partition fun (p, _) => match pats[p]? with
    | some pat => (pgKnown pat).isSome
    | none => false
  let total := (many.map (·.length)).sum
  match new.head? with
  | some (_, msg) => pure s!"ORACLE-FAIL C11 {msg}"
  | none =>
    if known.isEmpty then pure s!"ok hosts={many.length} matches={total} {if total > 0 then "nt" else ""}"
    else pure s!"KNOWN hosts={many.length} matches={total} nt ;; KNOWN C11 pg:multiRoot"

end Drv
