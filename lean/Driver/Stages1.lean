/-
Driver/Stages1.lean — record handlers for the pure stages IDX, CON, MAP.
-/
import Driver.Proto
import PmVerif.Spec.Needed
import PmVerif.Model.MatrixDom
namespace Drv
open Pm

def FUEL : Nat := 1000000

/-- verdict assembly: oracle failures first (a concrete property failure on the
implementation's own output), then model disagreement, else ok -/
def verdict (oracle : List String) (disagree : Option String) (flags : String) : String :=
  match oracle, disagree with
  | o :: _, some d => s!"ORACLE-FAIL {o} ;; also {d}"
  | o :: _, none => s!"ORACLE-FAIL {o}"
  | [], some d => d
  | [], none => s!"ok {flags}"

def isAcyclicScheme (s : TScheme) : Bool :=
  let n := s.length
  let rec go (fuel : Nat) (done : List Nat) : Bool :=
    match fuel with
    | 0 => done.length == n
    | f + 1 =>
      let next := (List.range n).filter fun k =>
        !done.contains k && (s.req k).all (fun r => r ≥ n || done.contains r)
      if next.isEmpty then done.length == n else go f (done ++ next)
  go (n + 1) []

def flagsMissing (s : TScheme) (out : List Nat) : String :=
  let shared := (List.range s.length).any fun p =>
    ((List.range s.length).filter fun k => (s.req k).contains p).length ≥ 2
  join ([s!"len={out.length}"] ++ (if shared then ["shared"] else []) ++
    (if out.length ≥ 2 then ["nt"] else []))

/-- parse `ok <list>` | `P tag` -/
def pImplNats : Parser (Option (List Nat)) := do
  let t ← tok
  if t == "ok" then do
    let xs ← pList pNat
    pure (some xs)
  else do
    let _ ← rest
    pure none

def handleMissing (single : Bool) : Parser String := do
  let s ← pScheme
  let (keys, known) ← (if single then do
      let known ← pList pNat
      let k ← pNat
      pure ([k], known)
    else do
      let keys ← pList pNat
      let known ← pList pNat
      pure (keys, known))
  expect "=>"
  let implToks ← rest
  let impl := join implToks
  let implOut := (pImplNats implToks).bind (·.1)
  let model :=
    if single then missingBindings s.req known (keys.headD 0) FUEL
    else allMissingBindings s.req keys known FUEL
  let modelS := match model with
    | some out => s!"ok {sNats out}"
    | none => "F"
  let acyc := isAcyclicScheme s
  let oracle : List String :=
    if acyc then
      match implOut with
      | some out => if checkMissing s.req known keys out then []
                    else [s!"C12 clauses-fail impl-out={sNats out}"]
      | none => [s!"C12 impl-panicked-or-unparsable {impl}"]
    else []
  let dis := if modelS != impl then some s!"DISAGREE IDX.missing model={modelS} impl={impl}" else none
  pure (verdict oracle dis
    s!"{if acyc then "acyclic" else "cyclic"} {flagsMissing s (model.getD [])}")

def handleBindAll : Parser String := do
  let _kind ← pNat
  let s ← pScheme
  let h ← pTHost
  let start ← pList (pPair pNat pNat)
  let keys ← pList pNat
  let inc ← pBool
  expect "=>"
  let implToks ← rest
  let impl := join implToks
  let res := bindAll tMap (THost.opts s) h start keys inc
  let modelS := s!"ok {sList (fun m => sPairs (sortPairs m)) res}"
  let dis := if modelS != impl then some s!"DISAGREE IDX.bindall model={modelS} impl={impl}" else none
  pure (verdict [] dis
    s!"n={res.length} {if res.length ≥ 2 then "nt" else ""} {if inc then "inc" else "complete"}")

/-! ### CON -/

def sTryNew {K P} : Except (ConErr K) (Constraint K P) → String
  | .ok _ => "ok"
  | .error (.invalidArity pa aa) => s!"E {pa} {aa}"
  | .error (.unboundVariable _) => "E?"

def sSat {K} (sk : K → String) : Except (ConErr K) (Option Bool) → String
  | .ok (some true) => "T"
  | .ok (some false) => "F"
  | .ok none => "P"
  | .error (.unboundVariable k) => s!"U {sk k}"
  | .error (.invalidArity ..) => "E?"

def handleCS : Parser String := do
  let p ← pTPred
  let args ← pList pNat
  let m ← pList (pPair pNat pNat)
  expect "=>"
  let impl := join (← rest)
  let c := tryNew TPred.arity p args
  let tri := match args with
    | [l, r] => s!"tri {sTryNew (tryBinaryFromTriple TPred.arity l p r)}"
    | _ => "notri"
  let host : THost := ⟨false, []⟩
  let (modelS, flags) := match c with
    | .error _ => (s!"{sTryNew c} {tri}", "arity-err")
    | .ok c' =>
      let (r, calls) := isSatisfiedLog alGet TPred.check c' host m
      (s!"ok {tri} {sSat toString r} {sList sNats calls}",
        match r with | .ok _ => "evaluated nt" | .error _ => "unbound nt")
  -- oracle (C16): arity clause and no-call clause on the implementation's own output
  let oracle : List String :=
    let implOk := impl.startsWith "ok"
    (if implOk != (args.length == p.arity) then [s!"C16 try_new-success-iff-arity impl={impl}"] else [])
  let dis := if modelS != impl then some s!"DISAGREE CON.sat model={modelS} impl={impl}" else none
  pure (verdict oracle dis flags)

def pCharPred : Parser CharPred := do
  let t ← pNat
  if t == 0 then pure .bindingEq else do
    let c ← pNat
    pure (.constVal c)

def handleCSS : Parser String := do
  let p ← pCharPred
  let args ← pList pNat
  let host ← pList pNat
  let mp ← pOpt (pPair pNat pNat)
  expect "=>"
  let impl := join (← rest)
  let m : StrPos := match mp with | none => .unbound | some (s, n) => .bound s n
  let c := tryNew CharPred.arity p args
  let (modelS, flags) := match c with
    | .error _ => (sTryNew c, "arity-err")
    | .ok c' =>
      let r := isSatisfied StrPos.get strCheck c' host m
      (s!"ok {sSat toString r}", match r with | .ok _ => "evaluated nt" | .error _ => "unbound nt")
  let dis := if modelS != impl then some s!"DISAGREE CON.sat.str model={modelS} impl={impl}" else none
  pure (verdict [] dis flags)

def pMKey : Parser MKey := pPair pInt pInt
def pMVal : Parser MVal := pPair pNat pNat
def pMatPos : Parser MatPos := do
  let o ← pOpt (do
    let sr ← pNat; let sc ← pNat
    let lr ← pInt; let lc ← pInt; let hr ← pInt; let hc ← pInt
    pure (MatPos.bound sr sc lr lc hr hc))
  pure (o.getD .unbound)

def handleCSM : Parser String := do
  let p ← pCharPred
  let args ← pList pMKey
  let host ← pList (pList pNat)
  let m ← pMatPos
  expect "=>"
  let impl := join (← rest)
  let c := tryNew CharPred.arity p args
  let (modelS, flags) := match c with
    | .error _ => (sTryNew c, "arity-err")
    | .ok c' =>
      let r := isSatisfied MatPos.get matCheck c' host m
      (s!"ok {sSat (fun (k : MKey) => s!"{k.1} {k.2}") r}",
        match r with | .ok _ => "evaluated nt" | .error _ => "unbound nt")
  let dis := if modelS != impl then some s!"DISAGREE CON.sat.mat model={modelS} impl={impl}" else none
  pure (verdict [] dis flags)

/-! ### MAP -/

inductive MOp (K V : Type) where
  | bind (k : K) (v : V)
  | retain (order : List K)

def pMOp {K V} (pk : Parser K) (pv : Parser V) : Parser (MOp K V) := do
  let t ← tok
  if t == "B" then do
    let k ← pk; let v ← pv; pure (.bind k v)
  else if t == "R" then do
    let ks ← pList pk; pure (.retain ks)
  else fun _ => none

/-- Run a history on a model map; `getP` returns `none` when the real `get` panics. -/
def runMapOps {K V M} (ops : MapOps K V M) (getP : M → K → Option (Option V))
    (sv : V → String) (probes : List K) : List (MOp K V) → M → List String → List String
  | [], _, acc => acc
  | op :: rest, m, acc =>
    let r : Except String M := match op with
      | .bind k v => match ops.bind m k v with
        | .ok m' => .ok m'
        | .error .variableExists => .error "E1"
        | .error .invalidKey => .error "E2"
      | .retain order => match ops.retain m order with
        | some m' => .ok m'
        | none => .error "P"
    match r with
    | .error "P" => acc ++ ["P"]
    | .error e =>
      -- a rejected bind leaves the map as it was
      runMapOps ops getP sv probes rest m
        (acc ++ [e] ++ probes.map fun k => match getP m k with
          | none => "P" | some none => "0" | some (some v) => s!"1 {sv v}")
    | .ok m' =>
      runMapOps ops getP sv probes rest m'
        (acc ++ ["ok"] ++ probes.map fun k => match getP m' k with
          | none => "P" | some none => "0" | some (some v) => s!"1 {sv v}")

def mapFlags {K V} (ops : List (MOp K V)) (out : List String) : String :=
  let nb := (ops.filter fun o => match o with | .bind .. => true | _ => false).length
  let nr := ops.length - nb
  join ([s!"ops={ops.length}"] ++ (if nr > 0 then ["retain"] else []) ++
    (if out.contains "E1" then ["E1"] else []) ++ (if out.contains "E2" then ["E2"] else []) ++
    (if out.contains "P" then ["panic"] else []) ++ (if ops.length ≥ 2 then ["nt"] else []))

def handleMO : Parser String := do
  let kind ← pNat
  match kind with
  | 0 | 1 => do
    let probes ← pList pNat
    let ops ← pList (pMOp pNat pNat)
    expect "=>"
    let impl := join (← rest)
    let out := runMapOps tMap (fun m k => some (alGet m k)) toString probes ops [] []
    let modelS := join out
    let dis := if modelS != impl then some s!"DISAGREE MAP.generic model={modelS} impl={impl}" else none
    pure (verdict [] dis s!"kind={kind} {mapFlags ops out}")
  | 2 => do
    let probes ← pList pNat
    let ops ← pList (pMOp pNat pNat)
    expect "=>"
    let impl := join (← rest)
    let out := runMapOps strPosMap (fun m k => some (m.get k)) toString probes ops .unbound []
    let modelS := join out
    let dis := if modelS != impl then some s!"DISAGREE MAP.strpos model={modelS} impl={impl}" else none
    -- oracle (C14): retain_keys on a prerequisite-closed key set must not panic
    let closedRetainPanics := out.contains "P" &&
      (match ops.getLast? with
        | some (.retain order) => order.isEmpty || order.contains 0
        | _ => false)
    let oracle := if impl.splitOn " " |>.contains "P" then
        (if closedRetainPanics then [s!"C14 retain_keys-panics-on-closed-set impl={impl}"] else [])
      else []
    pure (verdict oracle dis s!"kind=2 {mapFlags ops out}")
  | 3 => do
    let probes ← pList pMKey
    let ops ← pList (pMOp pMKey pMVal)
    expect "=>"
    let impl := join (← rest)
    let out := runMapOps matPosMap (fun m k => m.getP k) (fun (v : MVal) => s!"{v.1} {v.2}")
      probes ops .unbound []
    let modelS := join out
    let dis := if modelS != impl then some s!"DISAGREE MAP.matpos model={modelS} impl={impl}" else none
    pure (verdict [] dis s!"kind=3 {mapFlags ops out}")
  | _ => fun _ => none

end Drv
