/-
Driver/ParseStage.lean — record handlers for stage PARSE (`harness/src/parse.rs`):
  PS <input> => P | ok <Debug string> <constraint vector>     StringPattern::parse_str
  PM <input> => P | ok <Debug string> <constraint vector>     MatrixPattern::parse_str
  PH <input> => P | ok <rows> <Debug string>                  MatrixString::from
Recomputed with `Model/Parse` (+ `strConstraints` / `matConstraints` of the parsed pattern).
Flag `nt` (non-trivial): a variable, a panic, or at least two lines.
-/
import Driver.Stages2
import PmVerif.Model.Parse
namespace Drv
open Pm

def parseVerdict (sub : String) (modelS impl : String) (nt : Bool) (flags : String) : String :=
  if modelS == impl then s!"ok {if nt then "nt " else ""}{flags}"
  else
    let kind := if (modelS == "P") != (impl == "P") then "panic" else "out"
    s!"DISAGREE PARSE.{sub}.{kind} model={modelS} impl={impl}"

def isVarCV : CharVar → Bool
  | .var _ => true
  | .lit _ => false

def handlePS : Parser String := do
  let s ← pList pNat
  expect "=>"
  let impl := join (← rest)
  let lines := (linesOf s).length
  match parseStr s with
  | none => pure (parseVerdict "str" "P" impl true "panic")
  | some p =>
    let modelS := s!"ok {sNats (showStrPattern p)} {sList sSCons (strConstraints p)}"
    let hasVar := p.any isVarCV
    pure (parseVerdict "str" modelS impl (hasVar || lines ≥ 2)
      s!"len={p.length}{if hasVar then " var" else ""}")

def handlePM : Parser String := do
  let s ← pList pNat
  expect "=>"
  let impl := join (← rest)
  let lines := (linesOf s).length
  match parseMat s with
  | none => pure (parseVerdict "mat" "P" impl true "panic")
  | some p =>
    let modelS := s!"ok {sNats (showMatPattern p)} {sList sMCons (matConstraints p)}"
    let hasVar := p.any fun row => row.any fun
      | some cv => isVarCV cv
      | none => false
    let hasHole := p.any fun row => row.any (·.isNone)
    pure (parseVerdict "mat" modelS impl (hasVar || lines ≥ 2)
      s!"rows={p.length}{if hasVar then " var" else ""}{if hasHole then " hole" else ""}")

def handlePH : Parser String := do
  let s ← pList pNat
  expect "=>"
  let impl := join (← rest)
  let h := matHostOfStr s
  let modelS := s!"ok {sList sNats h} {sNats (showMatHost h)}"
  pure (parseVerdict "host" modelS impl (h.length ≥ 2) s!"rows={h.length}")

end Drv
