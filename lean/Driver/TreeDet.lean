/-
Driver/TreeDet.lean — semantic C10 oracle for port-graph constraint trees on a host and bindings
(records `TRGH`): literal reading (every satisfied edge is followed) and the documented `make_det`
reading of `constraint_tree.rs` (at a `make_det` root only the FIRST satisfied child is entered).
-/
import Driver.PG
import PmVerif.Spec.TreeDet
open Pm Drv

namespace Drv

/-- Truth value of a port-graph constraint on a host under a binding (`none`: a key is unbound or
the arity is wrong). -/
def pgSatHost (g : PortGraph) (m : PGMap) (c : PGCons) : Option Bool :=
  match c.args.mapM (fun k => alGet m k) with
  | none => none
  | some vs => pgCheck c.pred g vs

def handleTRGH : Parser String := do
  let cs ← pList pPGCons
  let g ← pGraph
  let ms ← pList pPGMap
  expect "=>"
  let implToks ← rest
  match pTree pPGCons implToks with
  | none => pure "ORACLE-FAIL C10 unparsable-tree"
  | some (t, _) =>
    let atoms := cs ++ treeEdgeConstraints t
    let usable := ms.filter fun m => atoms.all fun c => (pgSatHost g m c).isSome
    let σs : List (PGCons → Bool) := usable.map fun m => fun c => (pgSatHost g m c).getD false
    let headNE := match (sortWithIndices pgConsLe cs).head? with
      | some (c, _) => (match c.pred with | .isNotEqual _ => true | _ => false)
      | none => false
    let lit := σs.any fun σ => !t.faithfulAt cs σ
    let det := σs.any fun σ => !t.detFaithfulAt cs σ
    let nTrue := (σs.map fun σ => (cs.filter σ).length).foldl max 0
    let oracle := (if lit then ["C10 unfaithful-on-host"] else []) ++
      (if det && !lit then ["C10 det-unfaithful-on-host (first satisfied child of a make_det root)"] else [])
    pure (verdict oracle none
      (join ([s!"bindings={σs.length}", s!"maxtrue={nTrue}"] ++ (if t.makeDet then ["det"] else []) ++
        (if headNE then ["ne"] else ["conn"]) ++ (if σs.length > 0 && nTrue ≥ 1 then ["nt"] else []))))

end Drv
