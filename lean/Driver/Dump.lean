/-
Driver/Dump.lean — the automaton dump produced by the `verif` hook: parsing, conversion to the
model's `Automaton`, and comparison with a replayed automaton.
-/
import Driver.Stages3
import PmVerif.Model.Traversal
import PmVerif.Spec.WF
namespace Drv
open Pm

structure DState (K P : Type) where
  id : Nat
  det : Bool
  matches_ : List (Nat × List K)
  scope : List K
  corder : List Nat
  eorder : List Nat
  out : List (Nat × Nat × Option (Constraint K P))
  inc : List (Nat × Nat)

structure Dump (K P : Type) where
  root : Nat
  states : List (DState K P)

def pDump {K P} (pk : Parser K) (pc : Parser (Constraint K P)) : Parser (Dump K P) := do
  let root ← pNat
  let states ← pList (do
    let id ← pNat
    let det ← pBool
    let ms ← pList (pPair pNat (pList pk))
    let scope ← pList pk
    let co ← pList pNat
    let eo ← pList pNat
    let out ← pList (do
      let e ← pNat; let t ← pNat; let c ← pOpt pc
      pure (e, t, c))
    let inc ← pList (pPair pNat pNat)
    pure (DState.mk id det ms scope co eo out inc))
  pure ⟨root, states⟩

def pEvents : Parser (List Ev) := do
  let evs ← pList (do
    let k ← tok
    match k with
    | "T" => do let s ← pNat; pure (some (Ev.topo s))
    | "G" => do let s ← pNat; let ts ← pList pNat; pure (some (Ev.group s ts))
    | "A" => do let s ← pNat; pure (some (Ev.detAsk s))
    | "Y" => do let s ← pNat; pure (some (Ev.detYes s))
    | "O" => do let _ ← pNat; pure none
    | "M" => do let n ← pNat; let v ← pList pNat; pure (some (Ev.merge n v))
    | "I" => do let s ← pNat; pure (some (Ev.iterEnd s))
    | _ => fun _ => none)
  pure (evs.filterMap id)

/-- Build the model's automaton structure from a dump (free lists are not observable and left
empty: the result is used for running and checking, not for further edits). -/
def Dump.toAutomaton {K P} (d : Dump K P) : Automaton K P :=
  let nNodes := d.states.foldl (fun m s => max m (s.id + 1)) 0
  let nEdges := d.states.foldl (fun m s => s.out.foldl (fun m e => max m (e.1 + 1)) m) 0
  let nodes : List (Option (GNode (AState K))) := (List.range nNodes).map fun i =>
    (d.states.find? (·.id == i)).map fun s =>
      { w := { matches_ := s.matches_, det := s.det, corder := s.corder, eorder := s.eorder,
               scope := s.scope },
        out := s.out.map (·.1), inc := s.inc.map (·.1) }
  let edges : List (Option (GEdge (Option (Constraint K P)))) := (List.range nEdges).map fun e =>
    d.states.findSome? fun s =>
      (s.out.find? (·.1 == e)).map fun (_, t, c) => ⟨s.id, t, c⟩
  ⟨⟨nodes, edges, [], []⟩, d.root⟩

def sortByFst {α} (xs : List (Nat × α)) : List (Nat × α) :=
  xs.foldl (fun acc x =>
    let (lo, hi) := acc.span (fun y => y.1 ≤ x.1)
    lo ++ x :: hi) []

/-- First difference between a replayed automaton and the dump, if any. -/
def compareWithDump {K P} [DecidableEq K] [DecidableEq P] (a : Automaton K P) (d : Dump K P) :
    Option String :=
  if a.root != d.root then some s!"root model={a.root} impl={d.root}" else
  let live := a.g.nodeIndices
  let dIds := d.states.map (·.id)
  if live != dIds then some s!"live-states model={sNats live} impl={sNats dIds}" else
  d.states.findSome? fun s =>
    match a.g.node? s.id with
    | none => some s!"state {s.id} missing"
    | some nd =>
      let w := nd.w
      if w.det != s.det then some s!"state {s.id} det model={w.det} impl={s.det}"
      else if w.corder != s.corder then
        some s!"state {s.id} constraint_order model={sNats w.corder} impl={sNats s.corder}"
      else if w.eorder != s.eorder then
        some s!"state {s.id} epsilon_order model={sNats w.eorder} impl={sNats s.eorder}"
      else if decide (w.scope ≠ s.scope) then some s!"state {s.id} scope differs"
      else if decide (sortByFst w.matches_ ≠ sortByFst s.matches_) then
        some s!"state {s.id} matches differ"
      else
        let mOut : List (Nat × Nat × Option (Constraint K P)) := nd.out.map fun e => match a.g.edge? e with
          | some ed => (e, ed.dst, ed.w)
          | none => (e, 0, none)
        if decide (mOut ≠ s.out) then
          some s!"state {s.id} out-adjacency model={sNats (mOut.map (·.1))} impl={sNats (s.out.map (·.1))} (or targets/constraints differ)"
        else
          let mIn := nd.inc.map fun e => match a.g.edge? e with
            | some ed => (e, ed.src)
            | none => (e, 0)
          if mIn != s.inc then
            some s!"state {s.id} in-adjacency model={sNats (mIn.map (·.1))} impl={sNats (s.inc.map (·.1))}"
          else none

end Drv
