/-
Driver/Proto.lean — token parser / printer of the correspondence line protocol.
Not part of the model; trusted as part of the correspondence check (DESIGN §6).
-/
import PmVerif.Model.TableDom
namespace Drv
open Pm

/-- A parser over a token list. -/
abbrev Parser (α : Type) := List String → Option (α × List String)

instance : Monad Parser where
  pure a := fun ts => some (a, ts)
  bind p f := fun ts => match p ts with
    | none => none
    | some (a, ts') => f a ts'

def tok : Parser String
  | [] => none
  | t :: ts => some (t, ts)

def pNat : Parser Nat := do
  let t ← tok
  match t.toNat? with
  | some n => pure n
  | none => fun _ => none

def pInt : Parser Int := do
  let t ← tok
  match t.toInt? with
  | some n => pure n
  | none => fun _ => none

def pBool : Parser Bool := do
  let n ← pNat
  pure (n != 0)

def expect (s : String) : Parser Unit := do
  let t ← tok
  if t == s then pure () else fun _ => none

def pRep {α} (p : Parser α) : Nat → Parser (List α)
  | 0 => pure []
  | n + 1 => do
    let x ← p
    let xs ← pRep p n
    pure (x :: xs)

def pList {α} (p : Parser α) : Parser (List α) := do
  let n ← pNat
  pRep p n

def pOpt {α} (p : Parser α) : Parser (Option α) := do
  let n ← pNat
  if n == 0 then pure none else do
    let x ← p
    pure (some x)

def pPair {α β} (p : Parser α) (q : Parser β) : Parser (α × β) := do
  let a ← p
  let b ← q
  pure (a, b)

/-- Rest of the line (the implementation's observed output), re-joined. -/
def rest : Parser (List String) := fun ts => some (ts, [])

/-! printing, mirroring harness/src/proto.rs -/
def sList {α} (f : α → String) (xs : List α) : String :=
  String.intercalate " " (toString xs.length :: xs.map f)

def sNats (xs : List Nat) : String := sList toString xs

def sPairs (xs : List (Nat × Nat)) : String := sList (fun (a, b) => s!"{a} {b}") xs

def sOpt {α} (f : α → String) : Option α → String
  | none => "0"
  | some x => s!"1 {f x}"

def join (xs : List String) : String := String.intercalate " " xs

/-- insertion sort on naturals / pairs (canonicalisation of map dumps) -/
def sortPairs (xs : List (Nat × Nat)) : List (Nat × Nat) :=
  xs.foldl (fun acc x =>
    let (lo, hi) := acc.span (fun y => y.1 < x.1 || (y.1 == x.1 && y.2 ≤ x.2))
    lo ++ x :: hi) []

def pScheme : Parser TScheme := pList (pList pNat)

def pTHost : Parser THost := do
  let strict ← pBool
  let rules ← pList (pList (do
    let cond ← pOpt (pPair pNat pNat)
    let vals ← pList pNat
    pure (TRule.mk cond vals)))
  pure ⟨strict, rules⟩

def pTPred : Parser TPred := do
  let t ← pNat
  match t with
  | 0 => pure .eq
  | 1 => pure .ne
  | 2 => do let c ← pNat; pure (.const c)
  | 3 => do let n ← pNat; pure (.true_ n)
  | 4 => pure .lt
  | 5 => do let n ← pNat; pure (.notIn n)
  | _ => fun _ => none

end Drv
