/-
Driver/PG.lean — port-graph records: stage-level (line_partition, constraint_vec, walk_path,
list_bind_options, find_root_candidates, decomposition, conditioned) and the end-to-end domain.
-/
import Driver.E2E
import PmVerif.Spec.PGSpec
import PmVerif.Spec.PGAnch
import PmVerif.Spec.PGWF
namespace Drv
open Pm

def pPOff : Parser POff := do
  let d ← pNat
  let i ← pNat
  pure ⟨if d == 0 then .inc else .out, i⟩

def sPOff (o : POff) : String := s!"{if o.dir == .inc then 0 else 1} {o.idx}"

def pPGKey : Parser PGKey := do
  let k ← pNat
  if k == 0 then do let i ← pNat; pure (.root i)
  else do
    let r ← pNat; let o ← pPOff; let l ← pNat
    pure (.along r o l)

def sPGKey : PGKey → String
  | .root i => s!"0 {i}"
  | .along r o l => s!"1 {r} {sPOff o} {l}"

def pPGPred : Parser PGPred := do
  let k ← pNat
  match k with
  | 0 => pure .hasNodeWeight
  | 1 => do let l ← pPOff; let r ← pPOff; pure (.isConnected l r)
  | _ => do let n ← pNat; pure (.isNotEqual n)

def sPGPred : PGPred → String
  | .hasNodeWeight => "0"
  | .isConnected l r => s!"1 {sPOff l} {sPOff r}"
  | .isNotEqual n => s!"2 {n}"

def pPGCons : Parser PGCons := do
  let p ← pPGPred
  let args ← pList pPGKey
  pure ⟨p, args⟩

def sPGCons (c : PGCons) : String := s!"{sPGPred c.pred} {sList sPGKey c.args}"

def pGraph : Parser PortGraph := do
  let nodes ← pList (do
    let live ← pNat
    if live == 0 then pure none else do
      let i ← pNat; let o ← pNat
      pure (some (PGNode.mk i o)))
  let links ← pList (do
    let na ← pNat; let oa ← pNat; let nb ← pNat; let ob ← pNat
    pure (((na, ⟨.out, oa⟩), (nb, ⟨.inc, ob⟩)) : Port × Port))
  pure ⟨nodes, links⟩

def pPort : Parser Port := pPair pNat pPOff
def sPort (p : Port) : String := s!"{p.1} {sPOff p.2}"

def pPGMap : Parser PGMap := pList (pPair pPGKey pNat)

def sortPGMap (m : PGMap) : PGMap :=
  m.foldl (fun acc x =>
    let (lo, hi) := acc.span (fun y => !x.1.lt y.1)
    lo ++ x :: hi) []

def sPGMap (m : PGMap) : String := sList (fun (kv : PGKey × Nat) => s!"{sPGKey kv.1} {kv.2}") (sortPGMap m)

def sortNats (xs : List Nat) : List Nat :=
  xs.foldl (fun acc x =>
    let (lo, hi) := acc.span (· ≤ x)
    lo ++ x :: hi) []

/-- constraints equal up to a permutation of the "other" arguments of `IsNotEqual` (c6) -/
def pgConsEq (a b : PGCons) : Bool :=
  a.pred == b.pred &&
  (match a.pred with
   | .isNotEqual _ =>
     a.args.head? == b.args.head? && a.args.length == b.args.length &&
       (a.args.drop 1).all (b.args.drop 1).contains && (b.args.drop 1).all (a.args.drop 1).contains
   | _ => a.args == b.args)

def pgConsListEq (a b : List PGCons) : Bool :=
  a.length == b.length && (a.zip b).all fun (x, y) => pgConsEq x y

def handlePGL : Parser String := do
  let g ← pGraph
  let root ← pNat
  expect "=>"
  let impl := join (← rest)
  let lines := linePartition g root
  let modelS := s!"ok {sList (fun line => sList (fun (l : PLink) => s!"{sPort l.1} {sPort l.2}") line) lines}"
  let dis := if modelS != impl then some s!"DISAGREE PGP.lines model={modelS} impl={impl}" else none
  -- coverage property used by the theorems: every link of a connected graph is in some line
  let covered := g.links.all fun l => lines.any fun line => line.any (sameLink l)
  let flags := s!"lines={lines.length} {if covered then "covered" else "uncovered"} {if pgSigLineThroughStart g root then "through-start" else ""} {if lines.length ≥ 2 then "nt" else ""}"
  pure (verdict [] dis flags)

def handlePGC : Parser String := do
  let g ← pGraph
  let root ← pNat
  expect "=>"
  let toks ← rest
  let impl := join toks
  let model := pgConstraints g root
  let ok := match model, toks with
    | some cs, "ok" :: r => (match pList pPGCons r with
        | some (ics, _) => pgConsListEq cs ics
        | none => false)
    | none, "P" :: _ => true
    | _, _ => false
  let dis := if !ok then some s!"DISAGREE PGP.cons model={match model with | some cs => sList sPGCons cs | none => "P"} impl={impl}" else none
  -- C08: conversion of a connected pattern must not panic
  let oracle := if pgConnected g && toks.head? == some "P" then ["C08 constraint_vec-panicked-on-connected-pattern"] else []
  let flags := match model with
    | some cs => s!"cons={cs.length} {if pgSigMultiRoot cs then "multi-root" else "single-root"} {if cs.length ≥ 3 then "nt" else ""}"
    | none => "panic"
  pure (verdict oracle dis flags)

def handlePGW : Parser String := do
  let g ← pGraph
  let v ← pNat
  let off ← pPOff
  expect "=>"
  let impl := join (← rest)
  let w := walkPath g v off
  let modelS := sList (fun (x : Option Port × Nat × Option Port) =>
    s!"{sOpt sPort x.1} {x.2.1} {sOpt sPort x.2.2}") w
  let dis := if modelS != impl then some s!"DISAGREE PGI.walk model={modelS} impl={impl}" else none
  pure (verdict [] dis s!"len={w.length} {if w.length ≥ 2 then "nt" else ""}")

def handlePGO : Parser String := do
  let g ← pGraph
  let k ← pPGKey
  let m ← pPGMap
  expect "=>"
  let impl := join (← rest)
  let modelS := match pgOptsP g k m with
    | some o => s!"ok {sNats (sortNats o)}"
    | none => "P"
  let dis := if modelS != impl && !(modelS == "P" && impl.startsWith "P") then
    some s!"DISAGREE PGI.opts model={modelS} impl={impl}" else none
  pure (verdict [] dis s!"{match k with | .root 0 => "root0" | .root _ => "rootN" | .along .. => "along"} nt")

def handlePGR : Parser String := do
  let g ← pGraph
  let m ← pPGMap
  expect "=>"
  let impl := join (← rest)
  let modelS := match findRootCandidates g m with
    | some o => s!"ok {sNats (sortNats o)}"
    | none => "P"
  let dis := if modelS != impl && !(modelS == "P" && impl.startsWith "P") then
    some s!"DISAGREE PGI.roots model={modelS} impl={impl}" else none
  pure (verdict [] dis "nt")

/-- all bindings of the given keys to nodes {0,1,2} -/
def pgBindings (keys : List PGKey) : List PGMap :=
  let n := keys.length
  (List.range (3 ^ n)).map fun x => (keys.zip (List.range n)).map fun (k, i) => (k, (x / 3 ^ i) % 3)

def pgSatOn (m : PGMap) (c : PGCons) : Bool :=
  -- only `IsNotEqual` is evaluated semantically here; others are opaque atoms keyed by the map
  match c.pred with
  | .isNotEqual _ =>
    (match c.args with
     | [] => false
     | k :: os => match alGet m k with
       | none => false
       | some v => os.all fun o => match alGet m o with | some w => w != v | none => false)
  | _ => true

def handleTRG : Parser String := do
  let cs ← pList pPGCons
  expect "=>"
  let implToks ← rest
  let impl := join implToks
  let model := pgTree cs FUEL
  let modelS := match model with | some t => sTree sPGCons t | none => "F"
  let dis := if modelS != impl then some s!"DISAGREE TREE.pg model={modelS} impl={impl}" else none
  let oracle := match pTree pPGCons implToks with
    | some (t, _) =>
      let smallest := (sortWithIndices pgConsLe cs).head?.map (·.2)
      let isNE := t.nodes.length > 1 && (match (sortWithIndices pgConsLe cs).head? with
        | some (c, _) => (match c.pred with | .isNotEqual _ => true | _ => false)
        | none => false)
      if isNE then
        let keys := (cs.flatMap (·.args)).eraseDups
        if keys.length ≤ 6 then treeOracle t cs smallest ((pgBindings keys).map fun m => pgSatOn m)
        else treeOracle t cs smallest []
      else treeOracle t cs smallest (allAssignments (cs ++ treeEdgeConstraints t))
    | none => ["C10 unparsable-tree"]
  pure (verdict oracle dis (match model with | some t => treeFlags t cs | none => "fuel"))

def handlePGD : Parser String := do
  let c ← pPGCons
  let sat ← pList pPGCons
  expect "=>"
  let impl := join (← rest)
  let modelS := sOpt sPGCons (pgCond c sat)
  let dis := if modelS != impl then some s!"DISAGREE TREE.conditioned model={modelS} impl={impl}" else none
  pure (verdict [] dis "nt")

/-! ### end-to-end domain -/

abbrev PgPat := PortGraph × Option Nat

/-- C01/C02 judge for port graphs: a reported match must be an embedding (through the keys
`constraint_vec` gives the pattern's nodes); every root image admitting an embedding must be
reported. -/
def pgJudge (p : PgPat) (h : PortGraph) (got : List PGMap) : List String × List String × List String :=
  match p.2 with
  | none => ([], [], [])
  | some root =>
    let keys := pgNodeKeys p.1 root
    let falsePos := got.filter fun m =>
      let φ := keys.filterMap fun (n, k) => (alGet m k).map fun v => (n, v)
      !(embedsPG p.1 h φ && alGet m (.root 0) == alGet φ root)
    let want := pgRootImages p.1 h root
    let reportedRoots := got.filterMap fun m => alGet m (.root 0)
    let missed := want.filter fun r => !reportedRoots.contains r
    (falsePos.map sPGMap, missed.map toString, [])

def pgKnown (p : PgPat) : Option String :=
  match p.2 with
  | none => none
  | some root =>
    match pgConstraints p.1 root with
    | none => none
    | some cs =>
      if pgSigMultiRoot cs then some "pg:multiRoot"
      else if pgSigLineThroughStart p.1 root then some "pg:lineThroughStart"
      else none

def pgE2E : E2EDom PGKey Nat PGPred PortGraph PGMap PgPat :=
  { name := "PG", D := pgDomain, toTree := fun cs => pgTree cs FUEL,
    pKey := pPGKey, pCons := pPGCons,
    pPat := pPair pGraph (pOpt pNat), pHost := pGraph, pMap := pPGMap, sMap := sPGMap,
    convert := fun p => match p.2 with | none => none | some r => pgConstraints p.1 r,
    consEq := pgConsListEq, extraKeys := fun _ => [],
    judge := some pgJudge, known := pgKnown, orderedBaseline := false,
    programOK := some fun a _ cvs =>
      if (cvs.any fun o => match o with | some cs => pgSigMultiRoot cs | none => false) then 2
      else if pgProgramOK a cvs then 1 else 0,
    knownC03 := fun p => match pgKnown p with | some "pg:multiRoot" => some "pg:multiRoot" | _ => none,
    wfPat := fun p => p.1.linksOKb, wfHost := fun h => h.linksOKb }

end Drv
