/-
Driver/RenderStage.lean — records `RND S` / `RND M` / `RND G` (harness stage `render`): replay the build
exactly as `handleE2E` does (same `buildTL`, same comparison with the dump), then compare the
model's rendering `Render.dotTxt` of the MODEL automaton with the real `dot_string()`, code
point by code point.

The only thing taken from the dump for the rendering is the order in which each state's
`matches` map iterates (choice point c7; `compareWithDump` has checked that the dumped list is
a permutation of the model's).
-/
import Driver.E2E
import Driver.PG
import PmVerif.Model.Render
import PmVerif.Model.RenderPG
namespace Drv
open Pm

/-- put each state's accepted list into the dumped (hash-iteration) order -/
def withDumpedMatchOrder {K P} (a : Automaton K P) (d : Dump K P) : Automaton K P :=
  d.states.foldl (fun a s =>
    { a with g := a.g.setWeight s.id fun w => { w with matches_ := s.matches_ } }) a

def cpChar (c : Nat) : Char := if c == 10 then '⏎' else Char.ofNat c

/-- first differing position with 40 code points of context (10 before) -/
def firstDiff (xs ys : List Nat) : Nat :=
  let rec go : List Nat → List Nat → Nat → Nat
    | x :: xs, y :: ys, i => if x == y then go xs ys (i + 1) else i
    | _, _, i => i
  go xs ys 0

def diffContext (xs : List Nat) (pos : Nat) : String :=
  let ctx := (xs.drop (pos - 10)).take 40
  s!"@{pos}/{xs.length}:«{String.ofList (ctx.map cpChar)}»"

def handleRender {K V P H M Pat} [DecidableEq K] [DecidableEq V] [DecidableEq P]
    (dom : E2EDom K V P H M Pat) (showKey : K → Render.Txt) (showPred : P → Render.Txt)
    (litsOf : Pat → List Nat) : Parser String := do
  let pats ← pList dom.pPat
  let fallbackFail ← pBool
  let heur ← pHeur
  expect "=>"
  let status ← tok
  if status == "P" then
    let tag := join (← rest)
    pure s!"ORACLE-FAIL C08 implementation-panicked {tag}"
  else if status == "ERR" then
    let anyBad := pats.any fun p => (dom.convert p).isNone
    pure (if fallbackFail && anyBad then "ok conversion-error"
          else "ORACLE-FAIL C06 construction-error-without-nonconvertible-pattern")
  else do
  let cvs ← pList (pOpt (pList dom.pCons))
  let evs ← pEvents
  let dump ← pDump dom.pKey dom.pCons
  let dot ← pList pNat
  let mut dis : List String := []
  -- pattern conversion (as handleE2E (a))
  let modelCvs := pats.map dom.convert
  let convOk := (modelCvs.zip cvs).all fun (m, i) =>
    match m, i with
    | some a, some b => dom.consEq a b
    | none, none => true
    | _, _ => false
  if !convOk || modelCvs.length != cvs.length then
    dis := dis ++ [s!"{dom.name}.pattern constraint vectors differ"]
  if !heurConsistent heur (loggedAnswers evs) then
    dis := dis ++ ["CON.heuristic logged answers do not match the heuristic"]
  -- exact replay (as handleE2E (c))
  let idx := List.range pats.length
  let inputs : List (Nat × List (Constraint K P) × List K) := idx.filterMap fun i =>
    match cvs.getD i none, pats[i]? with
    | some cv, some p => some (i, cv, dom.extraKeys p)
    | _, _ => none
  let mut flags : List String := []
  match Automaton.buildTL dom.toTree dom.D.req FUEL inputs evs with
  | .error e => dis := dis ++ [s!"BUILD.replay model-error {e}"]
  | .ok a =>
    match compareWithDump a dump with
    | some d => dis := dis ++ [s!"BUILD.replay {d}"]
    | none =>
      let a' := withDumpedMatchOrder a dump
      let model := Render.dotTxt showKey showPred a'
      if model != dot then
        let pos := firstDiff model dot
        dis := dis ++ [s!"RENDER.dot model={diffContext model pos} impl={diffContext dot pos}"]
      -- the packed `String` is what `dot_string()` returns; its code points must be the same
      else if (Render.dotString showKey showPred a').toList.map Char.toNat != dot then
        dis := dis ++ ["RENDER.dot the packed String differs from its code points"]
      let nLive := a'.g.nodeCount
      let nAcc := (dump.states.filter fun s => !s.matches_.isEmpty).length
      let nEdges := (Render.edgeIndices a'.g).length
      let lits := pats.flatMap litsOf
      flags :=
        (if nLive ≥ 4 && nAcc ≥ 1 then ["nt"] else []) ++ [dom.name] ++
        (if lits.any (fun c => c == 34 || c == 92 || c == 10) then ["esc"] else []) ++
        (if a'.g.nodes.length > nLive || a'.g.edges.length > nEdges then ["vacant"] else []) ++
        (if dump.states.any (fun s => s.matches_.length ≥ 2) then ["acc2"] else []) ++
        (if dump.states.any (fun s => s.matches_ != sortByFst s.matches_) then ["hashorder"] else [])
  if dis.isEmpty then pure s!"ok {join flags}"
  else pure (String.intercalate " ;; " (dis.map (s!"DISAGREE {·}")))

def charVarLit : CharVar → Option Nat
  | .lit c => some c
  | .var _ => none

def handleRND : Parser String
  | "S" :: ts =>
    handleRender strE2E Render.strKeyTxt Render.charPredTxt (fun p => p.filterMap charVarLit) ts
  | "M" :: ts =>
    handleRender matE2E Render.matKeyTxt Render.charPredTxt
      (fun p => p.flatMap fun row => row.filterMap fun c => c.bind charVarLit) ts
  -- port graphs: same replay as `handleE2E pgE2E` (the record carries no hosts), then
  -- `Render.pgDotTxt` (= `dotTxt pgKeyTxt pgPredTxt`) against the real text
  | "G" :: ts =>
    handleRender pgE2E Render.pgKeyTxt Render.pgPredTxt (fun _ => []) ts
  | _ => none

end Drv
