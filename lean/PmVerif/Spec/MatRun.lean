/-
Spec/MatRun.lean — ingredients of the anchored-traversal theorem for matrices
(T-RUN-ANCH-MAT), parallel to Spec/StrRun.lean.
-/
import PmVerif.Spec.StrRun
namespace Pm
open Automaton

/-- `σ_{h,(r,c)}`: the truth of a matrix constraint when key `(i, j)` denotes host cell
`(r + i, c + j)` (keys of compiled matrix patterns are non-negative). -/
def matSigma (h : MatHost) (r c : Nat) (k : MatCons) : Bool :=
  matCheck k.pred h (k.args.map fun ij => (r + ij.1.toNat, c + ij.2.toNat)) == some true

/-- The keys `add_pattern` records for a matrix pattern. -/
def matPatternKeys (p : MatPattern) : List MKey :=
  (matConstraints p).foldl (fun keys c =>
    keys ++ (allMissingBindings matReq c.args keys 16).getD []) []

/-- Decidable per-program condition for matrices (same clauses as `strProgramOK`, start key
`(0,0)`; additionally every key is non-negative). -/
def matProgramOK (a : Automaton MKey CharPred) (ps : List MatPattern) : Bool :=
  a.liveStates.all fun s =>
    let w := a.stateD s
    decide (w.eorder.length ≤ 1) &&
    (w.corder.all fun t => match a.g.edge? t with
      | some ⟨_, _, some c⟩ => decide (c.args.length = c.pred.arity) && c.args.all w.scope.contains
      | _ => false) &&
    (w.eorder.all fun t => match a.g.edge? t with
      | some ⟨_, _, none⟩ => true
      | _ => false) &&
    ((w.corder.isEmpty && w.eorder.isEmpty) || !w.scope.isEmpty) &&
    prereqOrdered matReq w.scope && decide w.scope.Nodup &&
    (w.scope.all fun k => decide (0 ≤ k.1) && decide (0 ≤ k.2)) &&
    (w.matches_.all fun m =>
      prereqOrdered matReq m.2 && decide m.2.Nodup &&
      (s == a.root || !m.2.isEmpty) &&
      (m.2.all fun k => decide (0 ≤ k.1) && decide (0 ≤ k.2)) &&
      (match ps[m.1]? with
       | some p => decide (m.2 = matPatternKeys p)
       | none => false))

end Pm
