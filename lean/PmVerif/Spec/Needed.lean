/-
Spec/Needed.lean — key-free specification of C12 and its executable checker.
-/
import PmVerif.Model.Indexing
namespace Pm
variable {K : Type} [DecidableEq K]

/-- `Needed req known ks x`: `x` is not known and is reachable from one of the requested keys
`ks` along a chain of prerequisites none of which is known (a known key's own prerequisites are
taken as satisfied; this coincides with "transitive prerequisites not in `known`" whenever
`known` is prerequisite-closed, which is how every caller uses it — DESIGN §5 C12). -/
inductive Needed (req : K → List K) (known : List K) (ks : List K) : K → Prop where
  | root {k} : k ∈ ks → k ∉ known → Needed req known ks k
  | step {x p} : Needed req known ks x → p ∈ req x → p ∉ known → Needed req known ks p

/-- `RankAcyclic req`: the scheme admits a rank function (DESIGN §5 C12). -/
def RankAcyclic (req : K → List K) : Prop :=
  ∃ rank : K → Nat, ∀ k p, p ∈ req k → rank p < rank k

/-- The three clauses of C12 for an output list, as a `Prop`. -/
structure MissingSpec (req : K → List K) (known ks out : List K) : Prop where
  nodup : out.Nodup
  exact : ∀ x, x ∈ out ↔ Needed req known ks x
  order : ∀ x ∈ out, ∀ p ∈ req x, p ∉ known → p ∈ out ∧ out.idxOf p < out.idxOf x

/-- Executable checker used by the driver on the implementation's output (sound on acyclic
schemes: a member justified only by other members must, following parents, end at a requested
key). -/
def checkMissing (req : K → List K) (known ks out : List K) : Bool :=
  let nodup := decide (out.Nodup)
  let justified := out.all fun x =>
    decide (x ∉ known) && (decide (x ∈ ks) || out.any (fun y => decide (x ∈ req y)))
  let roots := ks.all fun k => decide (k ∈ known) || decide (k ∈ out)
  let closedOrdered := out.all fun x => (req x).all fun p =>
    decide (p ∈ known) || (decide (p ∈ out) && decide (out.idxOf p < out.idxOf x))
  nodup && justified && roots && closedOrdered

end Pm
