/-
Spec/WF.lean — structural well-formedness of a compiled automaton (property C09), as an
executable checker; `Props/C09.lean` relates it to the `Prop`-level statement.
-/
import PmVerif.Model.Builder
namespace Pm
namespace Automaton
variable {K P : Type} [DecidableEq K] [DecidableEq P]

def liveStates (a : Automaton K P) : List Nat := a.g.nodeIndices

def stateD (a : Automaton K P) (s : Nat) : AState K := (a.g.weight? s).getD {}

/-- (a) the live graph is acyclic. -/
def wfAcyclic (a : Automaton K P) : Bool := a.topoOrder.isSome

/-- (b) every live state is reachable from the root. -/
def wfReachable (a : Automaton K P) : Bool :=
  let bound := a.g.nodes.length * (a.g.edges.length + 2) + 2
  let r := a.reachable bound [a.root] []
  a.liveStates.all r.contains

/-- (c) at most one fallback transition per state. -/
def wfOneEpsilon (a : Automaton K P) : Bool :=
  a.liveStates.all fun s => (a.stateD s).eorder.length ≤ 1

/-- (d) no transition from a state to itself. -/
def wfNoSelfLoop (a : Automaton K P) : Bool :=
  a.liveStates.all fun s => (a.g.succs s).all (· ≠ s)

def sameMembers (xs ys : List Nat) : Bool := xs.all ys.contains && ys.all xs.contains

/-- (e) the two orders list exactly the outgoing constraint / fallback transitions, once each. -/
def wfOrders (a : Automaton K P) : Bool :=
  a.liveStates.all fun s =>
    let w := a.stateD s
    let out := (a.g.outEdges s).map (·.1)
    let cons := out.filter fun e => match a.g.edge? e with | some ed => ed.w.isSome | none => false
    let eps := out.filter fun e => match a.g.edge? e with | some ed => ed.w.isNone | none => false
    decide w.corder.Nodup && decide w.eorder.Nodup && sameMembers w.corder cons &&
      sameMembers w.eorder eps

/-- (f) every compiled pattern id is accepted by some state. -/
def wfAccepted (a : Automaton K P) (ids : List Nat) : Bool :=
  ids.all fun pid => a.liveStates.any fun s => (a.stateD s).matches_.any (·.1 == pid)

/-- A key list is prerequisite-ordered: each key comes after all keys `req` demands for it. -/
def prereqOrdered (req : K → List K) (ks : List K) : Bool :=
  (List.range ks.length).all fun i =>
    match ks[i]? with
    | none => true
    | some k => (req k).all fun p => (ks.take i).contains p

/-- (g) scopes and accepted patterns' key lists are prerequisite-ordered. -/
def wfKeyOrder (req : K → List K) (a : Automaton K P) : Bool :=
  a.liveStates.all fun s =>
    let w := a.stateD s
    prereqOrdered req w.scope && w.matches_.all fun m => prereqOrdered req m.2

/-- (h) a state's scope contains every key used by its outgoing constraints. -/
def wfScopeCovers (a : Automaton K P) : Bool :=
  a.liveStates.all fun s =>
    let w := a.stateD s
    w.corder.all fun t =>
      match a.g.edge? t with
      | some ⟨_, _, some c⟩ => c.args.all w.scope.contains
      | _ => true

/-- All clauses; returns the names of the failing ones. -/
def wfFailures (req : K → List K) (a : Automaton K P) (ids : List Nat) : List String :=
  (if a.wfAcyclic then [] else ["a:cyclic"]) ++
  (if a.wfReachable then [] else ["b:unreachable-state"]) ++
  (if a.wfOneEpsilon then [] else ["c:two-fallbacks"]) ++
  (if a.wfNoSelfLoop then [] else ["d:self-loop"]) ++
  (if a.wfOrders then [] else ["e:orders"]) ++
  (if a.wfAccepted ids then [] else ["f:pattern-not-accepted"]) ++
  (if a.wfKeyOrder req then [] else ["g:key-order"]) ++
  (if a.wfScopeCovers then [] else ["h:scope-misses-constraint-key"])

def wfCheck (req : K → List K) (a : Automaton K P) (ids : List Nat) : Bool :=
  (wfFailures req a ids).isEmpty

end Automaton
end Pm
