/-
Spec/StrRun.lean — what the anchored-traversal theorem for strings (T-RUN-ANCH-STR) is stated
with: the truth assignment induced by a host and an anchor, acceptance with recorded keys, and
the decidable per-program condition `strProgramOK` (evaluated by the driver on every dumped
automaton; a consequence of the builder for all programs is the target `strProgramOK_built`).
-/
import PmVerif.Model.ManyMatcher
import PmVerif.Spec.Acc
import PmVerif.Spec.WF
namespace Pm
open Automaton

/-- `σ_{h,a}`: the truth of a string constraint when key `k` denotes host position `a + k`. -/
def strSigma (h : List Nat) (a : Nat) (c : StrCons) : Bool :=
  strCheck c.pred h (c.args.map (a + ·)) == some true

/-- Acceptance (traversal reading) that also records the key list stored with the pattern. -/
inductive AccDetK {K P : Type} (σ : Constraint K P → Bool) (a : Automaton K P) :
    Nat → Nat → List K → Prop where
  | here {s pid ks w} : a.g.weight? s = some w → (pid, ks) ∈ w.matches_ → AccDetK σ a s pid ks
  | con {s pid ks w t e c} : a.g.weight? s = some w → t ∈ w.corder →
      a.g.edge? t = some e → e.w = some c → σ c = true →
      AccDetK σ a e.dst pid ks → AccDetK σ a s pid ks
  | eps {s pid ks w t e} : a.g.weight? s = some w → t ∈ w.eorder →
      a.g.edge? t = some e → (w.det = false ∨ ¬ fires σ a w) →
      AccDetK σ a e.dst pid ks → AccDetK σ a s pid ks

/-- The keys `add_pattern` records for a string pattern: the concatenation, constraint by
constraint, of the keys that are missing so far (`0` first, then each new key once). -/
def strPatternKeys (p : List CharVar) : List Nat :=
  (strConstraints p).foldl (fun keys c =>
    keys ++ (allMissingBindings strReq c.args keys 16).getD []) []

/-- Decidable per-program condition under which the traversal of a string automaton is exactly
anchored acceptance, for ALL hosts:
(1) at most one fallback transition per state; (2) `constraint_order` entries are live edges
carrying an arity-correct constraint all of whose keys are in the state's scope,
`epsilon_order` entries are live edges without constraint; (3) a state with any outgoing
transition has a non-empty scope; (4) scopes and recorded key lists are prerequisite-ordered
(so they are empty or start with the start key 0) and duplicate-free; (5) a non-root state
records a non-empty key list for every pattern it accepts; (6) the key list recorded for
pattern `i` is `strPatternKeys` of the `i`-th pattern. -/
def strProgramOK (a : Automaton Nat CharPred) (ps : List (List CharVar)) : Bool :=
  a.liveStates.all fun s =>
    let w := a.stateD s
    decide (w.eorder.length ≤ 1) &&
    (w.corder.all fun t => match a.g.edge? t with
      | some ⟨_, _, some c⟩ => decide (c.args.length = c.pred.arity) && c.args.all w.scope.contains
      | _ => false) &&
    (w.eorder.all fun t => match a.g.edge? t with
      | some ⟨_, _, none⟩ => true
      | _ => false) &&
    ((w.corder.isEmpty && w.eorder.isEmpty) || !w.scope.isEmpty) &&
    prereqOrdered strReq w.scope && decide w.scope.Nodup &&
    (w.matches_.all fun m =>
      prereqOrdered strReq m.2 && decide m.2.Nodup &&
      (s == a.root || !m.2.isEmpty) &&
      (match ps[m.1]? with
       | some p => decide (m.2 = strPatternKeys p)
       | none => false))

end Pm
