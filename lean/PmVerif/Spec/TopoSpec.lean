/-
Spec/TopoSpec.lean — admissible edit histories and the three clauses of property C15.
-/
import PmVerif.Model.Toposort
namespace Pm
variable {N E : Type}

/-- Kahn-style acyclicity test of the live graph. -/
def SGraph.isAcyclic (g : SGraph N E) : Bool :=
  let live := g.nodeIndices
  let rec go (fuel : Nat) (done : List Nat) : Bool :=
    match fuel with
    | 0 => done.length == live.length
    | f + 1 =>
      let next := live.filter fun n => !done.contains n && (g.preds n).all done.contains
      if next.isEmpty then done.length == live.length else go f (done ++ next)
  go (live.length + 1) []

/-- Admissibility of a state `(g, visited)` of a traversal rooted at `root` (DESIGN §5 C15):
(i) acyclic; (ii) the root is the only source among the nodes still to visit: every unvisited
live node other than an unvisited root has a live predecessor, and an unvisited root has none;
(iii) no edge from an unvisited node into a visited one. (Clause (iv), identifiers never reused,
is a property of the history: see `AdmHist`.) -/
def admState (g : SGraph N E) (root : Nat) (visited : List Nat) : Bool :=
  g.isAcyclic &&
  (g.nodeIndices.all fun n =>
    visited.contains n ||
      (if n = root then (g.preds n).isEmpty else !(g.preds n).isEmpty)) &&
  (g.nodeIndices.all fun n =>
    !visited.contains n || (g.preds n).all visited.contains)

/-- Exhaustion clause: every live node has been emitted. -/
def allVisited (g : SGraph N E) (visited : List Nat) : Bool :=
  g.nodeIndices.all visited.contains

end Pm

namespace Pm
variable {N E : Type}

/-- Structural well-formedness of the graph model (what `StableGraph` guarantees): every live
edge joins live nodes and is listed exactly in its source's out-list and its target's in-list;
adjacency lists only hold live edges of that node, without repetition. -/
structure SGraph.WF (g : SGraph N E) : Prop where
  edge_src : ∀ e ed, g.edge? e = some ed → ∃ nd, g.node? ed.src = some nd ∧ e ∈ nd.out
  edge_dst : ∀ e ed, g.edge? e = some ed → ∃ nd, g.node? ed.dst = some nd ∧ e ∈ nd.inc
  out_edge : ∀ a nd, g.node? a = some nd → ∀ e ∈ nd.out, ∃ ed, g.edge? e = some ed ∧ ed.src = a
  inc_edge : ∀ a nd, g.node? a = some nd → ∀ e ∈ nd.inc, ∃ ed, g.edge? e = some ed ∧ ed.dst = a
  out_nodup : ∀ a nd, g.node? a = some nd → nd.out.Nodup
  inc_nodup : ∀ a nd, g.node? a = some nd → nd.inc.Nodup

/-- Prop-level acyclicity: a rank function on node indices strictly increasing along edges. -/
def SGraph.Acyclic (g : SGraph N E) : Prop :=
  ∃ rank : Nat → Nat, ∀ n p, p ∈ g.preds n → rank p < rank n

/-- Prop-level admissibility of the state at a `next` call (clauses (i)–(iii) of DESIGN §5 C15). -/
structure AdmState (g : SGraph N E) (root : Nat) (visited : List Nat) : Prop where
  acyclic : g.Acyclic
  source : ∀ n, g.containsNode n = true → n ∉ visited →
    (n = root → g.preds n = []) ∧ (n ≠ root → g.preds n ≠ [])
  closed : ∀ n, g.containsNode n = true → n ∈ visited → ∀ p ∈ g.preds n, p ∈ visited

/-- A history of `next` calls: between two calls the graph may be edited arbitrarily, so a
history is the sequence of (graph, scan order of the visited set) seen by the calls. Returns the
results of the calls and the final traversal state; `none` = out of fuel. -/
def Topo.runHist (fuel : Nat) : Topo → List (SGraph N E × List Nat) →
    Option (List (Option Nat) × Topo)
  | t, [] => some ([], t)
  | t, (g, scan) :: rest =>
    match Topo.next g scan fuel t with
    | none => none
    | some (r, t') =>
      match Topo.runHist fuel t' rest with
      | none => none
      | some (rs, t'') => some (r :: rs, t'')

end Pm
