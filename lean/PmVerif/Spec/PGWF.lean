/-
Spec/PGWF.lean — executable form of the link well-formedness hypothesis `PortGraph.LinksOK` of
T-DOM-PG (`Props/TDomPG.lean`): the driver evaluates it on every pattern and host graph of the
correspondence stream, so the hypothesis is checked on the inputs the real code was run on.
`Props/TDomPGWF.lean` proves `linksOKb g = true ↔ g.LinksOK`.
-/
import PmVerif.Model.PortGraph
namespace Pm

/-- A link goes from an output port to an input port, both ends exist, and two links sharing an
end are the same link. -/
def PortGraph.linksOKb (g : PortGraph) : Bool :=
  (g.links.all fun l => decide (l.1.2.dir = .out) && decide (l.2.2.dir = .inc)) &&
  (g.links.all fun l => g.portExists l.1 && g.portExists l.2) &&
  (g.links.all fun l => g.links.all fun l' => !(decide (l.1 = l'.1) || decide (l.2 = l'.2)) || decide (l = l'))

end Pm
