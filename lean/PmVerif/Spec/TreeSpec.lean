/-
Spec/TreeSpec.lean — semantics of constraint trees (property C10): which labels are reachable
from the root along edges whose constraint holds.
-/
import PmVerif.Model.Tree
namespace Pm
variable {C : Type}

/-- Nodes reachable from `n` along satisfied edges (the node array is a tree whose children have
larger indices than their parent, so `fuel = number of nodes` suffices). -/
def CTree.reachFrom (t : CTree C) (σ : C → Bool) : Nat → Nat → List Nat
  | 0, n => [n]
  | fuel + 1, n =>
    n :: ((t.childrenAt n).filter (fun ch => σ ch.1)).flatMap (fun ch => t.reachFrom σ fuel ch.2)

/-- Some node labelled `i` is reachable from the root following satisfied edges. -/
def CTree.reachLabel (t : CTree C) (σ : C → Bool) (i : Nat) : Bool :=
  (t.reachFrom σ t.nodes.length 0).any fun n => (t.labelsAt n).contains i

/-- All labels that occur in the tree. -/
def CTree.allLabels (t : CTree C) : List Nat := t.nodes.flatMap (·.labels)

/-- The C10 checker for one truth assignment: every label is a valid index and is reachable
exactly when its constraint holds. -/
def CTree.faithfulAt (t : CTree C) (cs : List C) (σ : C → Bool) : Bool :=
  t.allLabels.all fun i =>
    match cs[i]? with
    | none => false
    | some c => t.reachLabel σ i == σ c

end Pm

namespace Pm
variable {C : Type}

/-- The conditioning law (DESIGN §5 C10): under the assumption that every constraint of `S`
holds, `cond c S = none` means `c` holds, and `cond c S = some c'` means `c'` is equivalent to
`c`. -/
def CondLaw (cond : C → List C → Option C) (σ : C → Bool) : Prop :=
  ∀ c S, (∀ s ∈ S, σ s = true) →
    (cond c S = none → σ c = true) ∧ (∀ c', cond c S = some c' → σ c' = σ c)

/-- `le` is a total preorder (what Rust's `Ord` guarantees). -/
structure TotalPreorder {α : Type} (le : α → α → Bool) : Prop where
  total : ∀ a b, le a b = true ∨ le b a = true
  trans : ∀ a b c, le a b = true → le b c = true → le a c = true

end Pm
