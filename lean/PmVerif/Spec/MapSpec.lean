/-
Spec/MapSpec.lean — operation histories of a binding map (property C14).
-/
import PmVerif.Model.MatrixDom
namespace Pm
variable {K V M : Type}

/-- One operation of a history. `retain` carries the iteration order of the key set handed to
`retain_keys` (choice point c8). -/
inductive MapOp (K V : Type) where
  | bind (k : K) (v : V)
  | retain (order : List K)

/-- One step: a rejected `bind` leaves the map as it was (the Rust code mutates in place only
after its checks); `none` = `retain_keys` panicked. -/
def MapOps.step (ops : MapOps K V M) (m : M) : MapOp K V → Option M
  | .bind k v => match ops.bind m k v with
    | .ok m' => some m'
    | .error _ => some m
  | .retain order => ops.retain m order

/-- A whole history from a given map. -/
def MapOps.run (ops : MapOps K V M) : M → List (MapOp K V) → Option M
  | m, [] => some m
  | m, op :: rest => match ops.step m op with
    | none => none
    | some m' => ops.run m' rest

/-- A key list is prerequisite-closed for a scheme `req`. -/
def PrereqClosed [DecidableEq K] (req : K → List K) (ks : List K) : Prop :=
  ∀ k ∈ ks, ∀ p ∈ req k, p ∈ ks

/-- Representation invariant of the matrix map: the bounding box contains (0,0) and adding its
corners to the start cell does not underflow (so `get` cannot panic). -/
def MatInv : MatPos → Prop
  | .unbound => True
  | .bound sr sc minr minc maxr maxc =>
    minr ≤ 0 ∧ minc ≤ 0 ∧ 0 ≤ maxr ∧ 0 ≤ maxc ∧ 0 ≤ (sr : Int) + minr ∧ 0 ≤ (sc : Int) + minc

end Pm
