/-
Spec/Occurs.lean — key-free occurrence semantics of string and matrix patterns (C01, C02, C05,
C07, C11). Independent of keys, constraints, automata and binding maps.
-/
import PmVerif.Model.MatrixDom
namespace Pm

/-- First position at which variable `v` occurs in a string pattern. -/
def firstVarPos (p : List CharVar) (v : Nat) : Option Nat :=
  (List.range p.length).find? fun i => p[i]? == some (.var v)

/-- `occursStr p h a`: pattern `p` occurs in host `h` (a list of characters) at character
position `a`: every cell lies on an existing host character, literals are equal, and equal
variables see equal characters. -/
def occursStr (p : List CharVar) (h : List Nat) (a : Nat) : Bool :=
  (List.range p.length).all fun i =>
    match p[i]?, h[a + i]? with
    | some (.lit c), some x => x == c
    | some (.var v), some x =>
      (match firstVarPos p v with
       | some j => h[a + j]? == some x
       | none => false)
    | none, _ => true
    | some _, none => false

/-- The anchors at which a non-empty string pattern occurs. -/
def strOccurrences (p : List CharVar) (h : List Nat) : List Nat :=
  (List.range h.length).filter fun a => occursStr p h a

/-- Non-hole cells of a matrix pattern as `(row, col, cell)`. -/
def matCells (p : MatPattern) : List (Nat × Nat × CharVar) :=
  ((List.range p.length).zip p).flatMap fun (i, row) =>
    ((List.range row.length).zip row).filterMap fun (j, cv) => cv.map fun cv => (i, j, cv)

def firstVarCell (p : MatPattern) (v : Nat) : Option (Nat × Nat) :=
  ((matCells p).find? fun c => c.2.2 == .var v).map fun c => (c.1, c.2.1)

/-- `occursMat p h (r, c)`: the anchor cell exists; every literal or variable cell lies on an
existing host character; literals are equal; equal variables see equal characters. -/
def occursMat (p : MatPattern) (h : MatHost) (r c : Nat) : Bool :=
  (matCell h r c).isSome &&
  (matCells p).all fun (i, j, cv) =>
    match cv, matCell h (r + i) (c + j) with
    | .lit x, some y => y == x
    | .var v, some y =>
      (match firstVarCell p v with
       | some (i', j') => matCell h (r + i') (c + j') == some y
       | none => false)
    | _, none => false

def matOccurrences (p : MatPattern) (h : MatHost) : List (Nat × Nat) :=
  (matAllCells h).filter fun rc => occursMat p h rc.1 rc.2

/-- The extent a reported matrix match carries: the bounding box of the pattern's cells and the
anchor. -/
def matExtent (p : MatPattern) : Nat × Nat :=
  (matCells p).foldl (fun acc c => (max acc.1 c.1, max acc.2 c.2.1)) (0, 0)

end Pm

/-! ### port graphs -/
namespace Pm

/-- All injective maps from `dom` into `cod` (as association lists) that satisfy `ok` on every
partial assignment (pruned backtracking). Used as a brute-force embedding oracle. -/
def injections (ok : List (Nat × Nat) → Bool) : List Nat → List Nat → List (Nat × Nat) →
    List (List (Nat × Nat))
  | [], _, acc => [acc]
  | d :: ds, cod, acc =>
    (cod.filter fun c => !(acc.any fun p => p.2 = c)).flatMap fun c =>
      let acc' := acc ++ [(d, c)]
      if ok acc' then injections ok ds cod acc' else []

end Pm
