/-
Spec/RunSpec.lean — specification-level notions for the traversal and the baseline matcher.
-/
import PmVerif.Model.Traversal
namespace Pm
variable {K V P H M : Type} [DecidableEq K] [DecidableEq V] [DecidableEq P]

/-- The candidate bindings with which the outgoing transitions of `s` are evaluated when the
traversal arrives there with binding `m`: bind the scope (incomplete mode), then retain it. -/
def stepCands (D : Domain K V P H M) (h : H) (w : AState K) (m : M) : R (List M) :=
  retainAll D w.scope (bindAll D.map D.opts h m w.scope true)

/-- Configurations `(state, binding)` the traversal can arrive at (ignoring the visited-set
pruning): the root with the empty binding; and from a reachable configuration, along a
constraint transition whose constraint evaluates to `true` on a candidate binding, or along the
fallback transition when the state is not deterministic or no constraint transition fired on
that candidate. -/
inductive Reach (D : Domain K V P H M) (a : Automaton K P) (h : H) : Nat → M → Prop where
  | root : Reach D a h a.root D.map.empty
  | con {s m w cands m' t e c} : Reach D a h s m → a.g.weight? s = some w →
      stepCands D h w m = .ok cands → m' ∈ cands → t ∈ w.corder → a.g.edge? t = some e →
      e.w = some c → satOrFalse D.map.get D.check c h m' = some true → Reach D a h e.dst m'
  | eps {s m w cands m' t e} : Reach D a h s m → a.g.weight? s = some w →
      stepCands D h w m = .ok cands → m' ∈ cands → t ∈ w.eorder → a.g.edge? t = some e →
      (w.det = false ∨ ∀ t' ∈ w.corder, ∀ e' c', a.g.edge? t' = some e' → e'.w = some c' →
        satOrFalse D.map.get D.check c' h m' ≠ some true) →
      Reach D a h e.dst m'

/-- The baseline matcher as a level-by-level fold: the candidates that survive the constraints
in order (each constraint binds its missing keys completely, then filters). -/
def singleLevels (D : Domain K V P H M) (h : H) (mbFuel : Nat) :
    List (Constraint K P) → List M → List M
  | [], ms => ms
  | c :: cs, ms =>
    let keys := (allMissingBindings D.req c.args [] mbFuel).getD []
    singleLevels D h mbFuel cs
      (ms.flatMap fun m => (bindAll D.map D.opts h m keys false).filter fun m' =>
        satOrFalse D.map.get D.check c h m' == some true)

end Pm
