/-
Spec/PGAnch.lean — single-root port-graph patterns as an *anchored* use of the engine: every
key `root 0` / `along 0 port len` has a value determined by the image `r` of the root
(`walk_path` from `r`), so a truth assignment `σ_{h,r}` exists as for strings and matrices.
Ingredients of T-DOM-PG and of the generic anchored traversal theorem.
-/
import PmVerif.Spec.PGSpec
import PmVerif.Spec.StrRun
namespace Pm

/-- The value of a single-root key when the root is bound to host node `r`. -/
def pgVal (h : PortGraph) (r : Nat) : PGKey → Option Nat
  | .root 0 => some r
  | .along 0 port len => (walkPathNodes h r port)[len]?
  | _ => none

/-- `σ_{h,r}`: a constraint holds when all its keys are defined from `r` and the predicate
holds of their values. -/
def pgSigmaAnch (h : PortGraph) (r : Nat) (c : PGCons) : Bool :=
  match c.args.mapM (pgVal h r) with
  | none => false
  | some vs => pgCheck c.pred h vs == some true

/-- The node map induced by an anchor: pattern node ↦ value of its key (nodes whose key is
undefined are left out). -/
def pgPhi (p : PortGraph) (root : Nat) (h : PortGraph) (r : Nat) : List (Nat × Nat) :=
  (pgNodeKeys p root).filterMap fun (n, k) => (pgVal h r k).map fun v => (n, v)

/-- All keys of a key list are single-root keys. -/
def pgSingleRootKeys (ks : List PGKey) : Bool :=
  ks.all fun k => match k with
    | .root 0 => true
    | .along 0 _ _ => true
    | _ => false

end Pm
