/-
Spec/PGAnch.lean — single-root port-graph patterns as an *anchored* use of the engine: every
key `root 0` / `along 0 port len` has a value determined by the image `r` of the root
(`walk_path` from `r`), so a truth assignment `σ_{h,r}` exists as for strings and matrices.
Ingredients of T-DOM-PG and of the generic anchored traversal theorem.
-/
import PmVerif.Spec.PGSpec
import PmVerif.Spec.StrRun
namespace Pm

/-- The value of a single-root key when the root is bound to host node `r`. -/
def pgVal (h : PortGraph) (r : Nat) : PGKey → Option Nat
  | .root 0 => some r
  | .along 0 port len => (walkPathNodes h r port)[len]?
  | _ => none

/-- `σ_{h,r}`: a constraint holds when all its keys are defined from `r` and the predicate
holds of their values. -/
def pgSigmaAnch (h : PortGraph) (r : Nat) (c : PGCons) : Bool :=
  match c.args.mapM (pgVal h r) with
  | none => false
  | some vs => pgCheck c.pred h vs == some true

/-- The node map induced by an anchor: pattern node ↦ value of its key (nodes whose key is
undefined are left out). -/
def pgPhi (p : PortGraph) (root : Nat) (h : PortGraph) (r : Nat) : List (Nat × Nat) :=
  (pgNodeKeys p root).filterMap fun (n, k) => (pgVal h r k).map fun v => (n, v)

/-- All keys of a key list are single-root keys. -/
def pgSingleRootKeys (ks : List PGKey) : Bool :=
  ks.all fun k => match k with
    | .root 0 => true
    | .along 0 _ _ => true
    | _ => false

end Pm

namespace Pm
open Automaton

/-- The keys `add_pattern` records for a port-graph pattern given its constraint vector. -/
def pgPatternKeys (cs : List PGCons) : List PGKey :=
  cs.foldl (fun keys c => keys ++ (allMissingBindings pgReq c.args keys 64).getD []) []

/-- Decidable per-program condition of the anchored traversal theorem for single-root
port-graph programs (`css` = the constraint vectors of the compiled patterns, by id):
as `strProgramOK`, with start key `root 0`, and every key a single-root key. -/
def pgProgramOK (a : Automaton PGKey PGPred) (css : List (Option (List PGCons))) : Bool :=
  a.liveStates.all fun s =>
    let w := a.stateD s
    decide (w.eorder.length ≤ 1) &&
    (w.corder.all fun t => match a.g.edge? t with
      | some ⟨_, _, some c⟩ => decide (c.args.length = c.pred.arity) && c.args.all w.scope.contains
      | _ => false) &&
    (w.eorder.all fun t => match a.g.edge? t with
      | some ⟨_, _, none⟩ => true
      | _ => false) &&
    ((w.corder.isEmpty && w.eorder.isEmpty) || !w.scope.isEmpty) &&
    prereqOrdered pgReq w.scope && decide w.scope.Nodup && pgSingleRootKeys w.scope &&
    (w.matches_.all fun m =>
      prereqOrdered pgReq m.2 && decide m.2.Nodup && pgSingleRootKeys m.2 &&
      (s == a.root || !m.2.isEmpty) &&
      (match css[m.1]? with
       | some (some cs) => decide (m.2 = pgPatternKeys cs)
       | _ => false))

end Pm
