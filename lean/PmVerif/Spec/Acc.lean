/-
Spec/Acc.lean — propositional acceptance semantics of a constraint automaton (DESIGN §5.0):
for a truth assignment `σ` to the constraints, which pattern ids are accepted from a state.
Two readings: `AccND` follows every transition whose constraint holds (fallback transitions
always); `AccDet` is what the traversal implements — at a deterministic state the fallback
transition is skipped as soon as some constraint transition fires.
-/
import PmVerif.Model.Builder
import PmVerif.Spec.TreeSpec
namespace Pm
namespace Automaton
variable {K P : Type}

/-- Non-deterministic reading. Inductive, so no acyclicity is needed to state it. -/
inductive AccND (σ : Constraint K P → Bool) (a : Automaton K P) : Nat → Nat → Prop where
  | here {s pid w} : a.g.weight? s = some w → pid ∈ w.matches_.map (·.1) → AccND σ a s pid
  | step {s pid w t e} : a.g.weight? s = some w → t ∈ w.corder ++ w.eorder →
      a.g.edge? t = some e → (∀ c, e.w = some c → σ c = true) →
      AccND σ a e.dst pid → AccND σ a s pid

/-- Some constraint transition of `w` fires under `σ`. -/
def fires (σ : Constraint K P → Bool) (a : Automaton K P) (w : AState K) : Prop :=
  ∃ t ∈ w.corder, ∃ e c, a.g.edge? t = some e ∧ e.w = some c ∧ σ c = true

/-- The reading implemented by `next_legal_states`: constraint transitions that hold are all
followed; the fallback (epsilon) transition is followed unless the state is deterministic and
some constraint transition fired. -/
inductive AccDet (σ : Constraint K P → Bool) (a : Automaton K P) : Nat → Nat → Prop where
  | here {s pid w} : a.g.weight? s = some w → pid ∈ w.matches_.map (·.1) → AccDet σ a s pid
  | con {s pid w t e c} : a.g.weight? s = some w → t ∈ w.corder →
      a.g.edge? t = some e → e.w = some c → σ c = true →
      AccDet σ a e.dst pid → AccDet σ a s pid
  | eps {s pid w t e} : a.g.weight? s = some w → t ∈ w.eorder →
      a.g.edge? t = some e → (w.det = false ∨ ¬ fires σ a w) →
      AccDet σ a e.dst pid → AccDet σ a s pid

/-- What the builder needs from `to_constraints_tree` for the assignment `σ`: every tree it
returns uses valid indices and is faithful under `σ` (property C10 provides this for the
shipped decompositions and every `σ`, resp. every `σ` satisfying the conditioning law). -/
def TreeOK (toTree : List (Constraint K P) → Option (CTree (Constraint K P)))
    (σ : Constraint K P → Bool) : Prop :=
  ∀ cs t, toTree cs = some t →
    (∀ i ∈ t.allLabels, i < cs.length) ∧
    (∀ i ∈ t.allLabels, ∀ c, cs[i]? = some c → (t.reachLabel σ i = true ↔ σ c = true))

/-- Structural invariant the semantic proofs carry: the transition orders of every live state
list live edges that start at that state, without repetition; epsilon order entries carry no
constraint and constraint order entries carry one; vacant edge ids are exactly the unused
ones (free list entries are vacant). -/
structure OrdersOK (a : Automaton K P) : Prop where
  corder_edge : ∀ s w, a.g.weight? s = some w → ∀ t ∈ w.corder,
    ∃ e, a.g.edge? t = some e ∧ e.src = s ∧ e.w.isSome
  eorder_edge : ∀ s w, a.g.weight? s = some w → ∀ t ∈ w.eorder,
    ∃ e, a.g.edge? t = some e ∧ e.src = s ∧ e.w.isNone
  nodup : ∀ s w, a.g.weight? s = some w → (w.corder ++ w.eorder).Nodup
  edge_live : ∀ t e, a.g.edge? t = some e → a.g.containsNode e.src = true ∧ a.g.containsNode e.dst = true
  edge_listed : ∀ t e, a.g.edge? t = some e → ∀ w, a.g.weight? e.src = some w → t ∈ w.corder ++ w.eorder
  free_edges : ∀ t ∈ a.g.freeEdges, a.g.edge? t = none
  free_nodes : ∀ n ∈ a.g.freeNodes, a.g.containsNode n = false

end Automaton
end Pm
