/-
Spec/PGSpec.lean — occurrence semantics for port graphs (C01, C02, C05, C11): injective,
link-preserving embeddings; and the decidable pattern signatures of finding F3.
-/
import PmVerif.Model.PGPattern
import PmVerif.Spec.Occurs
namespace Pm

/-- `φ` (an association list pattern node ↦ host node) preserves every pattern link both of
whose ends are assigned: the host has the link between the images, same offsets. -/
def linksPreserved (p h : PortGraph) (φ : List (Nat × Nat)) : Bool :=
  p.links.all fun l =>
    match alGet φ l.1.1, alGet φ l.2.1 with
    | some a, some b => h.portExists (a, l.1.2) && h.portLink (a, l.1.2) == some (b, l.2.2)
    | _, _ => true

/-- `embedsPG p h φ`: `φ` is total on the pattern's nodes, injective, maps into live host nodes
and preserves every link with its two port offsets. -/
def embedsPG (p h : PortGraph) (φ : List (Nat × Nat)) : Bool :=
  p.nodesIter.all (fun n => (alGet φ n).isSome) &&
  decide ((φ.map (·.2)).Nodup) &&
  φ.all (fun x => (h.node? x.2).isSome) &&
  linksPreserved p h φ

/-- Brute force: all embeddings of `p` into `h` (root first, so that pruning is effective). -/
def allEmbeddings (p h : PortGraph) (root : Nat) : List (List (Nat × Nat)) :=
  let dom := root :: p.nodesIter.filter (· ≠ root)
  (injections (linksPreserved p h) dom h.nodesIter []).filter (embedsPG p h)

/-- The root images that admit an embedding. -/
def pgRootImages (p h : PortGraph) (root : Nat) : List Nat :=
  ((allEmbeddings p h root).filterMap fun φ => alGet φ root).eraseDups

/-- The key each pattern node gets in `constraint_vec` (recomputed along the same lines). -/
def pgNodeKeys (g : PortGraph) (root : Nat) : List (Nat × PGKey) :=
  let rec lines : List (List PLink) → List (Nat × PGKey) → List (Nat × Nat) → List (Nat × PGKey)
    | [], n2k, _ => n2k
    | line :: rest, n2k, n2r =>
      match line.head? with
      | none => n2k
      | some first =>
        let rootNode := first.1.1
        let (ri, n2r) := match alGet n2r rootNode with
          | some i => (i, n2r)
          | none => (n2r.length, n2r ++ [(rootNode, n2r.length)])
        let n2k := (line.zip (List.range line.length)).foldl (fun n2k (li : PLink × Nat) =>
          if (alGet n2k li.1.2.1).isSome then n2k
          else n2k ++ [(li.1.2.1, PGKey.along ri first.1.2 (li.2 + 1))]) n2k
        lines rest n2k n2r
  lines (linePartition g root) [(root, .root 0)] [(root, 0)]

/-- Signature `multiRoot` of finding F3b: the constraint vector mentions a root index ≥ 1. -/
def pgSigMultiRoot (cs : List PGCons) : Bool :=
  cs.any fun c => c.args.any fun k => match k with
    | .root i => i ≥ 1
    | .along r _ _ => r ≥ 1

/-- Signature `lineThroughStart` of finding F3a: some line of `line_partition` re-enters its own
start node before its last link. -/
def pgSigLineThroughStart (g : PortGraph) (root : Nat) : Bool :=
  (linePartition g root).any fun line =>
    match line.head? with
    | none => false
    | some first => (line.dropLast).any fun l => l.2.1 = first.1.1

/-- Connectedness of the live part of a port graph (well-formedness of a pattern). -/
def pgConnected (g : PortGraph) : Bool :=
  match g.nodesIter with
  | [] => false
  | start :: _ =>
    let nbrs := fun n => g.links.filterMap fun l =>
      if l.1.1 = n then some l.2.1 else if l.2.1 = n then some l.1.1 else none
    let rec go : Nat → List Nat → List Nat → List Nat
      | 0, _, seen => seen
      | _, [], seen => seen
      | f + 1, n :: work, seen =>
        if seen.contains n then go f work seen else go f (nbrs n ++ work) (n :: seen)
    let seen := go (g.nodes.length * (g.links.length + 2) + 2) [start] []
    g.nodesIter.all seen.contains

end Pm
