/-
Spec/TreeDet.lean — the documented `make_det` reading of constraint trees (module docs of
`constraint_tree.rs`): "if `p` is the tree root and the flag `make_det=true`, then `n` must be the
smallest sibling for which the edge constraint from `p` to the sibling is satisfied". `reachFrom` /
`reachLabel` / `faithfulAt` (Spec/TreeSpec.lean) are the literal reading of property C10 (every
satisfied edge is followed); the definitions here are the stricter documented reading, evaluated by
the driver on hosts and injective bindings (records `TRGH`).
-/
import PmVerif.Spec.TreeSpec
namespace Pm
variable {C : Type}

/-- Nodes reachable under the documented `make_det` reading: at a `make_det` root only the first
satisfied child is entered; below it every satisfied edge is followed. -/
def CTree.reachFromDet (t : CTree C) (σ : C → Bool) : List Nat :=
  let sat := (t.childrenAt 0).filter (fun ch => σ ch.1)
  let entered := if t.makeDet then sat.take 1 else sat
  0 :: entered.flatMap (fun ch => t.reachFrom σ t.nodes.length ch.2)

/-- Some node labelled `i` is reachable under the documented `make_det` reading. -/
def CTree.reachLabelDet (t : CTree C) (σ : C → Bool) (i : Nat) : Bool :=
  (t.reachFromDet σ).any fun n => (t.labelsAt n).contains i

/-- The C10 checker under the documented `make_det` reading. -/
def CTree.detFaithfulAt (t : CTree C) (cs : List C) (σ : C → Bool) : Bool :=
  t.allLabels.all fun i =>
    match cs[i]? with
    | none => false
    | some c => t.reachLabelDet σ i == σ c

end Pm
