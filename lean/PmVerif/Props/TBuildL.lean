/-
Props/TBuildL.lean — T-BUILD for the LENIENT build (the Rust code path, no `make_det` guard):
overview; the statements are in `Props/TBuildLCore.lean` (generic) and `Props/TBuildLStr.lean`
(strings, end to end).
Namespace `Pm.TBL`; proofs in `Proofs/TBuildLDet.lean`, `TBuildLMain.lean`, `TBuildLND.lean`,
`TBuildLCheck.lean`.

Background. T-BUILD (`Props/TBuild.lean`, `build_acc`) is proved for the GUARDED replay `build`
("make_det: a constraint child is already deterministic" is an error) and is false for the
unguarded `buildL` on an UNDISCIPLINED log with an artificial decomposition
(`build_acc_unguarded_counterexample`).  About 1 in 3000 real string builds trips the guard and
was therefore outside every set-level theorem.  Suspected failure: `make_det(s)` appends the
transitions of the fallback state of `s` onto a constraint child that is already deterministic
and has its own fallback transition, which is then skipped when only a copied transition fires.

SEARCH (scratch/srch, scratch/*.lean, rs/ — not part of the deliverable).  ≈ 2.1 million random
DISCIPLINED lenient string logs (`buildTL (charTree natLt) strReq … = .ok A`; random
c1T-admissible emission orders, random heuristic answers, random sibling merges with random
survivor) and a rare-event (splitting) search of ≈ 7 million more logs: > 15 000 logs outside
`buildTD` (c1D), > 5 000 tripping the `make_det` guard.  For each of those, acceptance of the built
automaton in the traversal reading was compared with the specification for all hosts up to the
longest pattern over the pattern alphabet + 2 fresh characters and for all 2ⁿ truth assignments
(lawful or not): NO counterexample, and not a single violation of guard E below.  Mechanism of the
reachable guard trips: a merge removes an EMITTED state; `StableGraph` hands its id to a fresh
state which the toposort never emits (its id is in `visited`); a child of that "zombie" is
emitted and determinised early; a later `split_target`/fuse clone of the zombie is emitted with
that deterministic child.  In every observed case the deterministic child is a raw trie state
(one constraint transition, no fallback); a deterministic child WITH a fallback needs two nested
such levels and was never reached.

REAL LOGS (harness `pm-harness e2e.{str,mat,pg} --thorough`, replayed by a scratch driver):
4 004 200 real string builds (818 outside c1D, 59 tripping the `make_det` guard), 1 080 720 real
matrix builds (486 / 76) and 864 720 real port-graph builds (1 489 / 377).  EVERY outside build
passes `guardE_ok`; for strings and matrices (flat decompositions) `accOK` passes on EVERY build,
inside or outside, and `strProgramOK` on every outside string build; for port graphs (non-flat
decompositions) `accOK` is sound but incomplete (passes on ≈ 95 % of all and ≈ 22 % of the
outside builds), so there the per-log check `guardE_ok` is the one to use.

THEOREMS.
1. Unconditional half, for EVERY lenient build and EVERY log, disciplined or not
   (`Proofs/TBuildLND.lean`): unguarded `make_det` preserves the structural invariant and the
   ND language of the root, so `buildL_accND` (`AccND σ A A.root pid ↔ spec`),
   `buildL_ordersOK`, `buildL_acyclic`, and hence
   * `buildL_acc_sound` — `AccDet σ A A.root pid → spec`: the traversal reading never accepts
     an id whose pattern does not hold (no false positive), and
   * `buildL_acc_of_detOK` — T-BUILD for `buildL` from `DetOK σ A` of the FINAL automaton.
   Corollaries for the disciplined `buildTL`: `buildTL_accND`, `buildTL_acc_sound`,
   `buildTL_acc_of_detOK`.  Only COMPLETENESS can fail beyond the guard, and only through `DetOK`.
2. Per-build check, no hypothesis on the log (`Proofs/TBuildLCheck.lean`): `accOK A`
   (= `detOKc A`, a syntactic set-simulation check of `DetOK` for all `σ` at once, polynomial in
   practice, host independent) with `detOKc_sound` gives `buildL_acc_checked` /
   `buildTL_acc_checked`: `buildTL … = .ok A → accOK A = true → ∀ σ, TreeOK toTree σ →
   (AccDet σ A A.root pid ↔ spec)`.  It passed on all ≈ 6 000 random disciplined builds and all
   ≈ 300 guard-tripping builds it was run on.
3. Per-log result (`Proofs/TBuildLDet.lean`, `TBuildLMain.lean`): `makeDetE` = `make_det` with the
   weaker GUARD E (a deterministic constraint child is allowed if neither it nor the fallback
   state of `s` has a fallback transition); `buildTG` = disciplined replay with guard E;
   `buildTG_acc` (T-BUILD, plus `buildTG_accND/detOK/ordersOK/acyclic`);
   `buildT_imp_buildTG`, `buildTG_imp_buildTL` (`buildT ⊑ buildTG ⊑ buildTL`);
   `buildTL_acc_partial`: T-BUILD for `buildTL` on every log that passes the decidable replay
   check `guardE_ok`.  All guard-tripping logs of the search pass it.
4. Strings, end to end (`Props/TBuildLStr.lean`): `c01_string_lenient` — C01 for EVERY lenient
   build (any log) whose automaton passes the per-program check `strProgramOK`;
   `c01_c02_string_lenient_checked` — `run` reports exactly the occurrences on every host for every
   lenient build passing `accOK` and `strProgramOK`; `c01_c02_string_lenient_guardE` — the same for
   every disciplined log passing `guardE_ok`.
5. Non-vacuity (`TBL.Ex`, `TBL.Ex.all_checks`): a disciplined log for 6 string patterns on which the guarded `build`
   fails with the `make_det` guard, `buildTD` fails with c1D, and `guardE_ok`, `accOK` hold.

NOT proved: that guard E (or `accOK`) holds for EVERY disciplined `charTree` log.  A log that
violates it would be the only place left for the suspected missed match.
-/
import PmVerif.Props.TBuildLCore
import PmVerif.Props.TBuildLStr
