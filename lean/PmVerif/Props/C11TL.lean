/-
Props/C11TL.lean — property C11 (self-match; host extension never removes an occurrence) for the
automaton matcher under EVERY log of the Rust loop's replay `buildTL`, strings and matrices:
`c01_c02_string_TL` / `c01_c02_matrix_TL` composed with the monotonicity of the occurrence
specification. The two runs may use different logs and fuels of the same pattern list.
-/
import PmVerif.Props.C01TL
import PmVerif.Props.C11
namespace Pm
open Automaton

theorem c11_string_self_TL (ρ : Nat → Nat) (ps : List (List CharVar)) (evs : List Ev)
    (fuel fuel' : Nat) (inputs : List (Nat × List StrCons × List Nat))
    (A : Automaton Nat CharPred) (ms : List (Match StrPos)) (seen : List (Nat × List (Option Nat)))
    (i : Nat) (p : List CharVar) (hp : ps[i]? = some p) (hne : p ≠ [])
    (hi : TBL.strInputs ps = some inputs)
    (hb : buildTL (charTree natLt) strReq fuel inputs evs = .ok A)
    (hr : run strDomain A (instStr ρ p) fuel' = .ok (ms, seen)) :
    (i, StrPos.bound 0 p.length) ∈ ms :=
  (c01_c02_string_TL ps evs fuel fuel' inputs A _ ms seen hi hb hr i _).mpr
    ⟨p, hp, .inr ⟨hne, 0, c11_occursStr_self ρ p, rfl⟩⟩

theorem c11_string_extend_TL (ps : List (List CharVar)) (evs evs' : List Ev)
    (fuel fuel' fuel2 fuel2' : Nat) (inputs : List (Nat × List StrCons × List Nat))
    (A A' : Automaton Nat CharPred) (h pre post : List Nat) (ms ms' : List (Match StrPos))
    (seen seen' : List (Nat × List (Option Nat)))
    (i : Nat) (p : List CharVar) (a : Nat) (hp : ps[i]? = some p)
    (hi : TBL.strInputs ps = some inputs)
    (hb : buildTL (charTree natLt) strReq fuel inputs evs = .ok A)
    (hb' : buildTL (charTree natLt) strReq fuel2 inputs evs' = .ok A')
    (hr : run strDomain A h fuel' = .ok (ms, seen))
    (hr' : run strDomain A' (pre ++ h ++ post) fuel2' = .ok (ms', seen'))
    (hm : (i, StrPos.bound a p.length) ∈ ms) :
    (i, StrPos.bound (a + pre.length) p.length) ∈ ms' := by
  obtain ⟨q, hq, hcase⟩ := (c01_c02_string_TL ps evs fuel fuel' inputs A h ms seen hi hb hr i _).mp hm
  have hqp : q = p := by rw [hp] at hq; exact (Option.some.inj hq).symm
  subst hqp
  rcases hcase with ⟨_, hcontra⟩ | ⟨hne, a', ho, heq⟩
  · cases hcontra
  · obtain ⟨rfl⟩ : a = a' := by injection heq
    exact (c01_c02_string_TL ps evs' fuel2 fuel2' inputs A' _ ms' seen' hi hb' hr' i _).mpr
      ⟨q, hp, .inr ⟨hne, a + pre.length, c11_occursStr_extend q h pre post a ho, rfl⟩⟩

theorem c11_matrix_self_TL (ρ : Nat → Nat) (ps : List MatPattern) (evs : List Ev)
    (fuel fuel' : Nat) (inputs : List (Nat × List MatCons × List MKey))
    (A : Automaton MKey CharPred) (ms : List (Match MatPos)) (seen : List (Nat × List (Option MVal)))
    (i : Nat) (p : MatPattern) (hp : ps[i]? = some p) (hne : p ≠ []) (hrow : p.head hne ≠ [])
    (hi : TBL.matInputs ps = some inputs)
    (hb : buildTL (charTree mkeyLt) matReq fuel inputs evs = .ok A)
    (hr : run matDomain A (instMat ρ p) fuel' = .ok (ms, seen)) :
    (i, MatPos.bound 0 0 0 0 ((matExtent p).1 : Int) ((matExtent p).2 : Int)) ∈ ms :=
  (c01_c02_matrix_TL ps evs fuel fuel' inputs A _ ms seen hi hb hr i _).mpr
    ⟨p, hp, 0, 0, c11_occursMat_self ρ p hne hrow, rfl⟩

/-- The common shape of the matrix extension steps (rows below: `dr = 0`, `h' = h ++ below`; rows
above: `dr = above.length`; rows extended to the right: `dr = 0`). -/
theorem c11_matrix_transport_TL (ps : List MatPattern) (evs evs' : List Ev)
    (fuel fuel' fuel2 fuel2' : Nat) (inputs : List (Nat × List MatCons × List MKey))
    (A A' : Automaton MKey CharPred) (h h' : MatHost) (dr : Nat) (ms ms' : List (Match MatPos))
    (seen seen' : List (Nat × List (Option MVal)))
    (i : Nat) (p : MatPattern) (r c : Nat) (hp : ps[i]? = some p)
    (hmono : ∀ r c, occursMat p h r c = true → occursMat p h' (r + dr) c = true)
    (hi : TBL.matInputs ps = some inputs)
    (hb : buildTL (charTree mkeyLt) matReq fuel inputs evs = .ok A)
    (hb' : buildTL (charTree mkeyLt) matReq fuel2 inputs evs' = .ok A')
    (hr : run matDomain A h fuel' = .ok (ms, seen))
    (hr' : run matDomain A' h' fuel2' = .ok (ms', seen'))
    (hm : (i, MatPos.bound r c 0 0 ((matExtent p).1 : Int) ((matExtent p).2 : Int)) ∈ ms) :
    (i, MatPos.bound (r + dr) c 0 0 ((matExtent p).1 : Int) ((matExtent p).2 : Int)) ∈ ms' := by
  obtain ⟨q, hq, r', c', ho, heq⟩ :=
    (c01_c02_matrix_TL ps evs fuel fuel' inputs A h ms seen hi hb hr i _).mp hm
  have hqp : q = p := by rw [hp] at hq; exact (Option.some.inj hq).symm
  subst hqp
  obtain ⟨rfl, rfl⟩ : r = r' ∧ c = c' := by
    injection heq with h1 h2; exact ⟨h1, h2⟩
  exact (c01_c02_matrix_TL ps evs' fuel2 fuel2' inputs A' h' ms' seen' hi hb' hr' i _).mpr
    ⟨q, hp, r + dr, c, hmono r c ho, rfl⟩

end Pm
