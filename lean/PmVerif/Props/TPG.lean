/-
Props/TPG.lean — the port-graph family (src/portgraph/*): predicate arities and totality of
`check` (C16/C08), the conditioning law of `PGPredicate::conditioned` and the decomposition
`to_constraints_tree` (the port-graph instance of C10), termination of `walk_path` independent of
its fuel (C08), the specification-level C11 lemmas for embeddings of port graphs, and the
single-step meaning of the predicates. Only property theorems and non-vacuity examples live
here; definitions (`pgSigma`, `PortGraph.LinksOK`, `Extends`, `PortGraph.walkNext`,
`PortGraph.portCount`) and proofs are in `Proofs/PGLemmas.lean`.
-/
import PmVerif.Proofs.PGLemmas
namespace Pm
open CTree

/-! ## 1. Predicates -/

theorem tpg_arity :
    PGPred.hasNodeWeight.arity = 1 ∧ (∀ l r, (PGPred.isConnected l r).arity = 2) ∧
      ∀ n, (PGPred.isNotEqual n).arity = n + 1 :=
  ⟨rfl, fun _ _ => rfl, fun _ => rfl⟩

/-- With matching arity `check` never reaches the `panic!`. -/
theorem tpg_check_total (p : PGPred) (g : PortGraph) (args : List Nat)
    (ha : args.length = p.arity) : (pgCheck p g args).isSome = true :=
  pgCheck_arity_total p g args ha

/-! ## 2. The conditioning law of `pgCond` -/

/-- On an `isNotEqual` constraint with bound keys `pgSigma ρ m` is `is_satisfied == Ok(true)`
(for every host graph and oracle): the first value differs from all the others. -/
theorem tpg_sigma_sat (ρ : PGCons → Bool) (m : PGMap) (g : PortGraph) (n : Nat) (first : PGKey)
    (others : List PGKey) (hb : ∀ k ∈ first :: others, (alGet m k).isSome = true) :
    (pgSigma ρ m ⟨.isNotEqual n, first :: others⟩ = true ↔
      isSatisfied alGet pgCheck (⟨.isNotEqual n, first :: others⟩ : PGCons) g m =
        .ok (some true)) ∧
    (pgSigma ρ m ⟨.isNotEqual n, first :: others⟩ = true ↔
      ∀ k ∈ others, alGet m k ≠ alGet m first) :=
  ⟨pgSigma_sat ρ m g n first others hb, pgSigma_ne ρ m n first others hb⟩

/-- Every other constraint is decided by the oracle. -/
theorem tpg_sigma_other (ρ : PGCons → Bool) (m : PGMap) (c : PGCons)
    (h : ∀ n, c.pred ≠ .isNotEqual n) : pgSigma ρ m c = ρ c := by
  unfold pgSigma
  split
  · next n _ _ hp _ => exact absurd hp (h n)
  · rfl

/-- **Pointwise conditioning law for `pgCond`** (`PGPredicate::conditioned`): for an
`isNotEqual` constraint `c` with bound keys and a list `S` of satisfied `isNotEqual` constraints
with bound keys, both clauses of `CondLaw` hold at `c S`. (No arity hypothesis on `c` is needed:
only that its keys are bound.) -/
theorem tpg_cond_law (ρ : PGCons → Bool) (m : PGMap) (c : PGCons) (S : List PGCons) (n : Nat)
    (hpred : c.pred = .isNotEqual n) (hbound : ∀ k ∈ c.args, (alGet m k).isSome = true)
    (hS : ∀ s ∈ S, (∃ n', s.pred = .isNotEqual n') ∧
      (∀ k ∈ s.args, (alGet m k).isSome = true) ∧ pgSigma ρ m s = true) :
    (pgCond c S = none → pgSigma ρ m c = true) ∧
    (∀ c', pgCond c S = some c' → pgSigma ρ m c' = pgSigma ρ m c) :=
  pgCond_law ρ m c S ((PGCons.isNE_iff c).2 ⟨n, hpred⟩) hbound
    (fun s hs => ⟨(PGCons.isNE_iff s).2 (hS s hs).1, (hS s hs).2.1, (hS s hs).2.2⟩)

/-- The same as an instance of C10's relativised law `CondLawOn`. -/
theorem tpg_cond_lawOn (ρ : PGCons → Bool) (m : PGMap) :
    CondLawOn pgCond (pgSigma ρ m)
      (fun c => (∃ n, c.pred = .isNotEqual n) ∧ ∀ k ∈ c.args, (alGet m k).isSome = true) :=
  fun c S hc hSP hS => by
    obtain ⟨⟨n, hn⟩, hb⟩ := hc
    exact tpg_cond_law ρ m c S n hn hb (fun s hs => ⟨(hSP s hs).1, (hSP s hs).2, hS s hs⟩)

/-- A constraint that is not `isNotEqual` is never conditioned. -/
theorem tpg_cond_other (c : PGCons) (S : List PGCons) (h : ∀ n, c.pred ≠ .isNotEqual n) :
    pgCond c S = some c :=
  pgCond_other c S ((PGCons.isNE_false_iff c).2 h)

/-! ## 3. The decomposition `pgTree` -/

theorem tpg_tree_valid (cs : List PGCons) (fuel : Nat) (t : CTree PGCons)
    (h : pgTree cs fuel = some t) : ∀ i ∈ t.allLabels, i < cs.length :=
  (pgTree_valid_smallest h).1

/-- The smallest constraint (head of the stable sort under `Ord for PGConstraint`) is in the
tree. -/
theorem tpg_tree_smallest (cs : List PGCons) (fuel : Nat) (t : CTree PGCons)
    (h : pgTree cs fuel = some t) (hne : cs ≠ []) :
    ∃ x xs, sortWithIndices pgConsLe cs = x :: xs ∧ x.2 ∈ t.allLabels :=
  (pgTree_valid_smallest h).2 hne

/-- Transitive-mutex branch (the smallest constraint is `hasNodeWeight` or `isConnected`):
faithful for every truth assignment. -/
theorem tpg_tree_faithful_mutex (cs : List PGCons) (fuel : Nat) (t : CTree PGCons)
    (h : pgTree cs fuel = some t)
    (hhead : ∀ x xs, sortWithIndices pgConsLe cs = x :: xs → ∀ n, x.1.pred ≠ .isNotEqual n)
    (σ : PGCons → Bool) :
    ∀ i ∈ t.allLabels, ∀ c, cs[i]? = some c → (t.reachLabel σ i = true ↔ σ c = true) :=
  (pgTree_mutex h (fun x xs hx => (PGCons.isNE_false_iff x.1).2 (hhead x xs hx)) σ).2.1

/-- Powerset branch (the smallest constraint is `isNotEqual`): faithful for `pgSigma ρ m` on
every binding `m` that binds the keys of the `isNotEqual` constraints. -/
theorem tpg_tree_faithful_powerset (cs : List PGCons) (fuel : Nat) (t : CTree PGCons)
    (h : pgTree cs fuel = some t)
    (hhead : ∀ x xs, sortWithIndices pgConsLe cs = x :: xs → ∃ n, x.1.pred = .isNotEqual n)
    (ρ : PGCons → Bool) (m : PGMap)
    (hb : ∀ c ∈ cs, (∃ n, c.pred = .isNotEqual n) → ∀ k ∈ c.args, (alGet m k).isSome = true) :
    ∀ i ∈ t.allLabels, ∀ c, cs[i]? = some c →
      (t.reachLabel (pgSigma ρ m) i = true ↔ pgSigma ρ m c = true) :=
  pgTree_powerset h (fun x xs hx => (PGCons.isNE_iff x.1).2 (hhead x xs hx)) ρ m
    (fun c hc hne => hb c hc ((PGCons.isNE_iff c).1 hne))

/-- Both branches at once, with the checker `faithfulAt` used by the harness. -/
theorem tpg_tree_faithful (cs : List PGCons) (fuel : Nat) (t : CTree PGCons)
    (h : pgTree cs fuel = some t) (ρ : PGCons → Bool) (m : PGMap)
    (hb : ∀ c ∈ cs, (∃ n, c.pred = .isNotEqual n) → ∀ k ∈ c.args, (alGet m k).isSome = true) :
    (∀ i ∈ t.allLabels, ∀ c, cs[i]? = some c →
      (t.reachLabel (pgSigma ρ m) i = true ↔ pgSigma ρ m c = true)) ∧
    t.faithfulAt cs (pgSigma ρ m) = true := by
  have key : ∀ i ∈ t.allLabels, ∀ c, cs[i]? = some c →
      (t.reachLabel (pgSigma ρ m) i = true ↔ pgSigma ρ m c = true) := by
    cases hs : sortWithIndices pgConsLe cs with
    | nil =>
      refine tpg_tree_faithful_mutex cs fuel t h (fun x xs hx => ?_) _
      rw [hs] at hx; cases hx
    | cons y ys =>
      cases hy : y.1.isNE with
      | true =>
        refine tpg_tree_faithful_powerset cs fuel t h (fun x xs hx => ?_) ρ m hb
        rw [hs] at hx; cases hx
        exact (PGCons.isNE_iff _).1 hy
      | false =>
        refine tpg_tree_faithful_mutex cs fuel t h (fun x xs hx => ?_) _
        rw [hs] at hx; cases hx
        exact (PGCons.isNE_false_iff _).1 hy
  exact ⟨key, faithfulAt_of_clauses t cs _ (tpg_tree_valid cs fuel t h) key⟩

theorem tpg_tree_terminates (cs : List PGCons) :
    ∃ fuel, ∀ fuel', fuel ≤ fuel' → (pgTree cs fuel').isSome = true :=
  ⟨2 ^ (cs.length + 1), fun fuel' h => pgTree_terminates cs fuel' h⟩

/-! ## 4. `walk_path` -/

/-- Trivial from the fuel. -/
theorem tpg_walk_length (g : PortGraph) (start : Nat) (off : POff) :
    (walkPath g start off).length ≤ pgWalkFuel g + 1 := by
  have : ∀ f nx, (walkPathFrom g start f nx).length ≤ f := by
    intro f
    induction f with
    | zero => intro nx; simp [walkPathFrom]
    | succ f ih =>
      intro nx
      cases nx with
      | none => rw [walkPathFrom_none]; exact Nat.zero_le _
      | some p =>
        rw [walkPathFrom_succ]
        split
        · exact Nat.zero_le _
        · split
          · exact Nat.zero_le _
          · exact Nat.succ_le_succ (ih _)
  exact Nat.succ_le_succ (this _ _)

/-- The un-fuelled step relation is what `walkPathFrom` executes: with fuel left, the walk from
the departure port `p` emits an entry exactly when the link at `p` leads to a node other than
`start`, and continues from `p'` exactly when `walkNext start p p'`. -/
theorem tpg_walk_step (g : PortGraph) (start f : Nat) (p : Port) :
    (∀ p', g.walkNext start p p' → ∃ q, g.portLink p = some q ∧
      walkPathFrom g start (f + 1) (some p) =
        (some q, q.1, some p') :: walkPathFrom g start f (some p')) ∧
    ((¬ ∃ p', g.walkNext start p p') → (walkPathFrom g start (f + 1) (some p)).length ≤ 1) := by
  constructor
  · rintro p' ⟨q, hq, hs, rfl, he⟩
    refine ⟨q, hq, ?_⟩
    rw [walkPathFrom_succ, hq]
    simp only [if_neg hs, if_pos he]
  · intro hno
    rw [walkPathFrom_succ]
    split
    · exact Nat.zero_le _
    · next q hq =>
      split
      · exact Nat.zero_le _
      · next hs =>
        by_cases he : g.portExists (q.1, q.2.opposite) = true
        · exact absurd ⟨_, q, hq, hs, rfl, he⟩ hno
        · rw [if_neg he, walkPathFrom_none]; exact Nat.le_refl _

/-- The ports through which the walk leaves its nodes are pairwise distinct (at most one entry,
the last, has none). -/
theorem tpg_walk_nodup (g : PortGraph) (hg : g.LinksOK) (start : Nat) (off : POff) :
    ((walkPath g start off).map (·.2.2)).Nodup :=
  walkPath_out_nodup hg start off

/-- Hence the walk has at most one entry per port, plus the initial one, whatever the fuel. -/
theorem tpg_walk_bound (g : PortGraph) (hg : g.LinksOK) (start : Nat) (off : POff) (f : Nat) :
    (walkPathFrom g start f
      (if g.portExists (start, off) then some (start, off) else none)).length ≤ g.portCount ∧
    pgWalkFuel g = g.portCount + 2 :=
  ⟨walkPathFrom_length_le hg start off f, rfl⟩

/-- **The fuel is never the reason the walk stops**: any fuel `≥ pgWalkFuel g` gives the list
`walkPath` computes. -/
theorem tpg_walk_fuel_enough (g : PortGraph) (hg : g.LinksOK) (start : Nat) (off : POff) (f : Nat)
    (hf : pgWalkFuel g ≤ f) :
    walkPathFrom g start f (if g.portExists (start, off) then some (start, off) else none) =
      walkPathFrom g start (pgWalkFuel g)
        (if g.portExists (start, off) then some (start, off) else none) :=
  walkPathFrom_fuel_enough hg start off f hf

/-! ## 5. C11 at the specification level -/

theorem c11_embedsPG_self (p : PortGraph) (hp : p.LinksOK) :
    embedsPG p p (p.nodesIter.map fun n => (n, n)) = true :=
  embedsPG_self hp

/-- An embedding into `h` is (after relabelling by `ρ`) an embedding into every extension of `h`:
relabelled nodes, more nodes, more ports, more links. -/
theorem c11_embedsPG_extend (p h h' : PortGraph) (φ : List (Nat × Nat)) (ρ : Nat → Nat)
    (hemb : embedsPG p h φ = true) (e : Extends h h' ρ) (hok : h'.LinksOK) :
    embedsPG p h' (φ.map fun (n, v) => (n, ρ v)) = true :=
  embedsPG_extend hemb e hok

theorem c11_extends_refl (h : PortGraph) : Extends h h id := Extends.refl h

theorem c11_extends_trans (h h' h'' : PortGraph) (ρ ρ' : Nat → Nat) (e : Extends h h' ρ)
    (e' : Extends h' h'' ρ') : Extends h h'' (ρ' ∘ ρ) :=
  e.trans e'

/-! ## 6. Single-step meaning of the predicates -/

theorem tpg_connected_link (l r : POff) (g : PortGraph) (a b : Nat) :
    (pgCheck (.isConnected l r) g [a, b] = some true ↔
      g.portExists (a, l) = true ∧ g.portLink (a, l) = some (b, r)) ∧
    (g.LinksOK → (pgCheck (.isConnected l r) g [a, b] = some true ↔
      ((a, l), (b, r)) ∈ g.links ∨ ((b, r), (a, l)) ∈ g.links)) :=
  ⟨pgCheck_connected l r g a b, fun hg => pgCheck_connected_mem l r hg a b⟩

theorem tpg_notequal (n : Nat) (g : PortGraph) (v : Nat) (vs : List Nat) :
    pgCheck (.isNotEqual n) g (v :: vs) = some true ↔ v ∉ vs :=
  pgCheck_notEqual n g v vs

/-- Under `LinksOK`, `port_link` is the symmetric closure of the link list, an involution, and
both ends of a reported link exist. -/
theorem tpg_portLink (g : PortGraph) (hg : g.LinksOK) (p q : Port) :
    (g.portLink p = some q ↔ (p, q) ∈ g.links ∨ (q, p) ∈ g.links) ∧
    (g.portLink p = some q → g.portLink q = some p) ∧
    (g.portLink p = some q → g.portExists p = true ∧ g.portExists q = true) :=
  ⟨hg.portLink_iff p q, hg.portLink_symm, hg.portLink_exists⟩

open PGEx

/-! ## Non-vacuity -/

/-- Conditioning: below `k2 ≠ root 0` the constraint `k2 ∉ {root 0, k1}` becomes `k2 ≠ k1`, and
below both it is implied. -/
example :
    pgCond ⟨.isNotEqual 2, [k2, .root 0, k1]⟩ [⟨.isNotEqual 1, [k2, .root 0]⟩] =
      some ⟨.isNotEqual 1, [k2, k1]⟩ ∧
    pgCond ⟨.isNotEqual 2, [k2, .root 0, k1]⟩
      [⟨.isNotEqual 1, [k2, .root 0]⟩, ⟨.isNotEqual 1, [k2, k1]⟩] = none ∧
    pgCond ⟨.isConnected o0 i0, [k1, k2]⟩ [⟨.isNotEqual 1, [k2, .root 0]⟩] =
      some ⟨.isConnected o0 i0, [k1, k2]⟩ := by
  decide

/-- The restriction of `tpg_cond_law` to lists `S` of `isNotEqual` constraints is necessary:
`conditioned` does not look at the predicates of the satisfied constraints, so a satisfied
`isConnected` constraint on the same first key wrongly "implies" an `isNotEqual` constraint that
is false. (`pgTree` never produces such a call: it keeps only `isNotEqual` constraints.) -/
example :
    pgCond ⟨.isNotEqual 1, [k2, k1]⟩ [⟨.isConnected i0 o0, [k2, k1]⟩] = none ∧
    pgSigma (fun _ => true) [(k1, 6), (k2, 6)] ⟨.isConnected i0 o0, [k2, k1]⟩ = true ∧
    pgSigma (fun _ => true) [(k1, 6), (k2, 6)] ⟨.isNotEqual 1, [k2, k1]⟩ = false := by
  decide

/-- Powerset branch: the smallest of `csNE` is `isNotEqual`; the tree is faithful on an injective
binding (label 0 reached) and on one with `k2 = k1` (label 0 not reached). -/
example :
    (sortWithIndices pgConsLe csNE).map (·.2) = [1, 2, 0] ∧
    (pgTree csNE 16).map (fun t => (t.allLabels,
      t.faithfulAt csNE (pgSigma (fun _ => false) [(.root 0, 5), (k1, 6), (k2, 7)]),
      t.reachLabel (pgSigma (fun _ => false) [(.root 0, 5), (k1, 6), (k2, 7)]) 0,
      t.faithfulAt csNE (pgSigma (fun _ => false) [(.root 0, 5), (k1, 6), (k2, 6)]),
      t.reachLabel (pgSigma (fun _ => false) [(.root 0, 5), (k1, 6), (k2, 6)]) 0)) =
    some ([1, 2, 2, 0, 0, 0, 0], true, true, true, false) := by
  decide

/-- The hypotheses of `tpg_tree_faithful_powerset` are satisfiable on `csNE`. -/
example :
    (∀ x xs, sortWithIndices pgConsLe csNE = x :: xs → ∃ n, x.1.pred = .isNotEqual n) ∧
    (∀ c ∈ csNE, (∃ n, c.pred = .isNotEqual n) →
      ∀ k ∈ c.args, (alGet ([(.root 0, 5), (k1, 6), (k2, 7)] : PGMap) k).isSome = true) := by
  refine ⟨fun x xs h => ?_, ?_⟩
  · have : sortWithIndices pgConsLe csNE =
        [(⟨.isNotEqual 1, [k2, .root 0]⟩, 1), (⟨.isNotEqual 1, [k2, k1]⟩, 2),
         (⟨.isNotEqual 2, [k2, .root 0, k1]⟩, 0)] := by decide
    rw [this] at h
    cases h
    exact ⟨1, rfl⟩
  · have : ∀ c ∈ csNE,
      ∀ k ∈ c.args, (alGet ([(.root 0, 5), (k1, 6), (k2, 7)] : PGMap) k).isSome = true := by
      decide
    exact fun c hc _ => this c hc

/-- Transitive-mutex branch: `csPath` is what `constraint_vec` returns for the path; its smallest
constraint is `isConnected`; only that constraint is kept, and the tree is faithful for arbitrary
truth assignments. -/
example :
    pgConstraints gPath 0 = some csPath ∧
    (sortWithIndices pgConsLe csPath).map (·.2) = [1, 0, 3, 2] ∧
    (pgTree csPath 0).map (fun t => (t.allLabels,
      t.faithfulAt csPath (fun _ => true), t.faithfulAt csPath (fun _ => false),
      t.faithfulAt csPath (fun c => c.args.length == 3))) = some ([1], true, true, true) := by
  decide

/-- `walk_path` on the triangle visits the three nodes and stops on returning to the start;
the graph is `LinksOK`, the fuel is 8 and any larger fuel gives the same list. -/
example :
    gCyc.LinksOK ∧ pgWalkFuel gCyc = 8 ∧
    walkPath gCyc 0 o0 =
      [(none, 0, some (0, o0)), (some (1, i0), 1, some (1, o0)), (some (2, i0), 2, some (2, o0))] ∧
    walkPathFrom gCyc 0 100 (some (0, o0)) = walkPathFrom gCyc 0 8 (some (0, o0)) ∧
    gCyc.walkNext 0 (0, o0) (1, o0) := by
  refine ⟨by decide, by decide, by decide, by decide, ⟨(1, i0), by decide, by decide, rfl, by decide⟩⟩

/-- On the path the walk stops at the last node (no opposite port), in both directions. -/
example :
    gPath.LinksOK ∧
    walkPathNodes gPath 0 o0 = [0, 1, 2] ∧ walkPathNodes gPath 2 i0 = [2, 1, 0] := by
  decide

/-- `LinksOK` is necessary for `tpg_walk_fuel_enough`: when an input port occurs in two links the
walk can cycle without ever returning to its start, and only the fuel stops it. -/
example :
    ¬ gBad.LinksOK ∧
    walkPathFrom gBad 0 (pgWalkFuel gBad + 2) (some (0, o0)) ≠
      walkPathFrom gBad 0 (pgWalkFuel gBad) (some (0, o0)) := by
  decide

/-- The four extension steps: renaming nodes, adding a node, adding ports at the end of a node,
linking two free ports; and their composite. -/
example : Extends gPath gPathRev (fun n => 2 - n) := extends_of_chk (by decide)
example : Extends gPath gPathNode id := extends_of_chk (by decide)
example : Extends gPath gPathPorts id := extends_of_chk (by decide)
example : Extends gPathPorts gCyc id := extends_of_chk (by decide)
example : Extends gPath gCyc (id ∘ id) :=
  c11_extends_trans gPath gPathPorts gCyc id id (extends_of_chk (by decide))
    (extends_of_chk (by decide))

/-- `Extends` is not trivially true: removing a link or merging two nodes is not an extension. -/
example : ¬ Extends gCyc gPathPorts id := fun e => by
  have := e.link ((2, o0), (0, i0)) (by decide)
  revert this; decide
example : ¬ Extends gPath gPath (fun _ => 0) := fun e => by
  have := e.inj 0 1 (by decide) (by decide) rfl
  cases this

/-- The path embeds in itself, in its extensions (via `c11_embedsPG_extend`), and — checked
directly — in the triangle at every rotation, but the triangle does not embed in the path. -/
example : embedsPG gPath gPath [(0, 0), (1, 1), (2, 2)] = true := c11_embedsPG_self gPath (by decide)
example : embedsPG gPath gPathRev [(0, 2), (1, 1), (2, 0)] = true :=
  c11_embedsPG_extend gPath gPath gPathRev _ (fun n => 2 - n)
    (c11_embedsPG_self gPath (by decide)) (extends_of_chk (by decide)) (by decide)
example :
    embedsPG gPath gCyc [(0, 0), (1, 1), (2, 2)] = true ∧
    embedsPG gPath gCyc [(0, 1), (1, 2), (2, 0)] = true ∧
    embedsPG gPath gCyc [(0, 0), (1, 2), (2, 1)] = false ∧
    (allEmbeddings gCyc gPath 0).length = 0 ∧ (allEmbeddings gPath gCyc 0).length = 3 := by
  decide

/-- Single steps of the constraint semantics on the triangle. -/
example :
    pgCheck (.isConnected o0 i0) gCyc [0, 1] = some true ∧
    pgCheck (.isConnected i0 o0) gCyc [0, 2] = some true ∧
    pgCheck (.isConnected o0 i0) gCyc [0, 2] = some false ∧
    pgCheck (.isConnected o1 i0) gCyc [0, 1] = some false ∧
    pgCheck (.isNotEqual 2) gCyc [0, 1, 2] = some true ∧
    pgCheck (.isNotEqual 2) gCyc [0, 1, 0] = some false ∧
    pgCheck (.isConnected o0 i0) gCyc [0] = none := by
  decide
end Pm
