/-
Props/C03.lean — property C03 (and the propositional halves of C04, C06, C09(f)): the compiled
automaton is equivalent to matching each pattern on its own. The central theorem is T-BUILD
(`build_acc`, Props/TBuild.lean); here are its instances and corollaries.
-/
import PmVerif.Props.TBuild
import PmVerif.Props.C10
import PmVerif.Props.C06
namespace Pm
open Automaton
variable {K P : Type} [DecidableEq K] [DecidableEq P]

/-- **C03, propositional form (T-BUILD).** For every pattern list, every event log (all hash-
order choices and heuristic answers) and every truth assignment under which the decomposition
is faithful: the automaton accepts `pid` from its root — in the reading the traversal
implements — iff some pattern with that id has all its constraints true. This is the sense in
which the compiled program equals "each pattern on its own", independent of any host. -/
theorem c03_prop (toTree : List (Constraint K P) → Option (CTree (Constraint K P)))
    (req : K → List K) (fuel : Nat) (patterns : List (Nat × List (Constraint K P) × List K))
    (evs : List Ev) (A : Automaton K P) (σ : Constraint K P → Bool) (hT : TreeOK toTree σ)
    (h : build toTree req fuel patterns evs = .ok A) (pid : Nat) :
    AccDet σ A A.root pid ↔ ∃ cs extra, (pid, cs, extra) ∈ patterns ∧ ∀ c ∈ cs, σ c = true :=
  build_acc toTree req fuel patterns evs A σ hT h pid

/-- The string/matrix decomposition satisfies the builder's tree contract for EVERY truth
assignment (no consistency assumption on `σ` needed). -/
theorem c03_treeOK_char {K : Type} [DecidableEq K] (lt : K → K → Bool)
    (σ : Constraint K CharPred → Bool) : TreeOK (charTree lt) σ := by
  intro cs t h
  have := c10_charTree lt cs t σ h
  exact ⟨this.1, this.2.1⟩

/-- The depth-one strategies of the table domain likewise. -/
theorem c03_treeOK_table (s : Nat) (hs : s = 0 ∨ s = 1 ∨ s = 2) (fuel : Nat)
    (σ : TCons → Bool) : TreeOK (fun cs => tTree s cs fuel) σ := by
  intro cs t h
  have := c10_tTree_depth1 s hs cs fuel t σ h
  exact ⟨this.1, this.2.1⟩

/-- **C03 for string pattern sets, propositional.** Whatever the event log, the string automaton
accepts pattern `i` under `σ` iff all constraints of the `i`-th pattern are true under `σ`. -/
theorem c03_string_prop (ps : List (List CharVar)) (evs : List Ev) (fuel : Nat)
    (m : Many Nat CharPred) (σ : StrCons → Bool)
    (h : manyBuild (fun p => some (strConstraints p)) (fun _ => ([] : List Nat))
      (charTree natLt) strReq fuel true ps evs = some (.ok m)) (i : Nat) :
    AccDet σ m.automaton m.automaton.root i ↔
      ∃ p, ps[i]? = some p ∧ ∀ c ∈ strConstraints p, σ c = true := by
  unfold manyBuild at h
  cases hi : manyInputs (fun p => some (strConstraints p)) (fun _ => ([] : List Nat)) true ps 0 with
  | none => simp [hi] at h
  | some inputs =>
    simp only [hi] at h
    cases hb : build (charTree natLt) strReq fuel inputs evs with
    | error e => simp [hb] at h
    | ok A =>
      simp only [hb, Option.some.injEq, Except.ok.injEq] at h
      subst h
      rw [build_acc _ _ _ _ _ _ σ (c03_treeOK_char natLt σ) hb i]
      have hpos := c06_ids_are_positions (fun p => some (strConstraints p))
        (fun _ => ([] : List Nat)) true ps 0 inputs hi
      constructor
      · rintro ⟨cs, ex, hmem, hall⟩
        obtain ⟨k, p, hk, hj, hc, _⟩ := (hpos i cs ex).mp hmem
        simp only [Nat.zero_add] at hj
        subst hj
        simp only [Option.some.injEq] at hc
        subst hc
        exact ⟨p, hk, hall⟩
      · rintro ⟨p, hk, hall⟩
        exact ⟨strConstraints p, [], (hpos i _ _).mpr ⟨i, p, hk, by omega, rfl, rfl⟩, hall⟩

/-- **C04, propositional.** Acceptance does not depend on the event log: two builds of the same
patterns under ANY two sequences of heuristic answers and hash-order choices accept the same
pattern ids under every assignment. -/
theorem c04_prop (toTree : List (Constraint K P) → Option (CTree (Constraint K P)))
    (req : K → List K) (fuel fuel' : Nat) (patterns : List (Nat × List (Constraint K P) × List K))
    (evs evs' : List Ev) (A A' : Automaton K P) (σ : Constraint K P → Bool)
    (hT : TreeOK toTree σ) (h : build toTree req fuel patterns evs = .ok A)
    (h' : build toTree req fuel' patterns evs' = .ok A') (pid : Nat) :
    AccDet σ A A.root pid ↔ AccDet σ A' A'.root pid := by
  rw [build_acc toTree req fuel patterns evs A σ hT h pid,
    build_acc toTree req fuel' patterns evs' A' σ hT h' pid]

/-- **C06, propositional.** Whether pattern `pid` is accepted depends only on the entries with
that id: compiling it together with any other patterns (other ids), in any order, does not
change it. -/
theorem c06_prop (toTree : List (Constraint K P) → Option (CTree (Constraint K P)))
    (req : K → List K) (fuel fuel' : Nat)
    (patterns patterns' : List (Nat × List (Constraint K P) × List K))
    (evs evs' : List Ev) (A A' : Automaton K P) (σ : Constraint K P → Bool)
    (hT : TreeOK toTree σ) (h : build toTree req fuel patterns evs = .ok A)
    (h' : build toTree req fuel' patterns' evs' = .ok A') (pid : Nat)
    (hsame : ∀ cs ex, (pid, cs, ex) ∈ patterns ↔ (pid, cs, ex) ∈ patterns') :
    AccDet σ A A.root pid ↔ AccDet σ A' A'.root pid := by
  rw [build_acc toTree req fuel patterns evs A σ hT h pid,
    build_acc toTree req fuel' patterns' evs' A' σ hT h' pid]
  constructor
  · rintro ⟨cs, ex, hm, ha⟩; exact ⟨cs, ex, (hsame cs ex).mp hm, ha⟩
  · rintro ⟨cs, ex, hm, ha⟩; exact ⟨cs, ex, (hsame cs ex).mpr hm, ha⟩

/-- A skipped (not compiled) id is accepted nowhere from the root. -/
theorem c06_skipped_not_accepted (toTree : List (Constraint K P) → Option (CTree (Constraint K P)))
    (req : K → List K) (fuel : Nat) (patterns : List (Nat × List (Constraint K P) × List K))
    (evs : List Ev) (A : Automaton K P) (σ : Constraint K P → Bool) (hT : TreeOK toTree σ)
    (h : build toTree req fuel patterns evs = .ok A) (pid : Nat)
    (hskip : ∀ cs ex, (pid, cs, ex) ∉ patterns) : ¬ AccDet σ A A.root pid := by
  rw [build_acc toTree req fuel patterns evs A σ hT h pid]
  rintro ⟨cs, ex, hm, _⟩
  exact hskip cs ex hm

/-- The guarded build (what the theorems speak about) and the build the Rust code runs (what
the correspondence replays) coincide whenever the former succeeds. -/
theorem c03_guarded_is_real (toTree : List (Constraint K P) → Option (CTree (Constraint K P)))
    (req : K → List K) (fuel : Nat) (patterns : List (Nat × List (Constraint K P) × List K))
    (evs : List Ev) (A : Automaton K P) (h : build toTree req fuel patterns evs = .ok A) :
    buildL toTree req fuel patterns evs = .ok A :=
  build_imp_buildL toTree req fuel patterns evs A h

end Pm
