/-
Props/F5.lean — the repaired baseline (finding F5, `fix:` commit): `SinglePatternMatcher` now
honours `Pattern::required_bindings`. For a pattern that requests no extra keys — every shipped
pattern type — the repaired matcher IS the old one, so every baseline theorem (T-SINGLE, C05,
C03, C11) applies to it unchanged.
-/
import PmVerif.Model.TraversalX
namespace Pm

section
variable {K V P H M : Type} [DecidableEq K] [DecidableEq V] [DecidableEq P]

theorem finishCandidate_nil (D : Domain K V P H M) (h : H) (requested : List K) (m : M) :
    finishCandidate D h requested [] m =
      match D.map.retain m requested with
      | none => .error (.panic "retain_keys: bind unwrap")
      | some m' =>
        if requested.all fun k => (D.map.get m' k).isSome then .ok [m'] else .ok [] := by
  unfold finishCandidate
  simp only [List.isEmpty_nil, if_true, List.foldr_cons, List.foldr_nil]
  cases D.map.retain m requested <;> rfl

/-- With no extra keys the candidate loop is the old candidate loop. -/
theorem singleLoopX_nil (D : Domain K V P H M) (h : H) (requested : List K) (mbFuel : Nat) :
    ∀ (fuel : Nat) (queue : List (List (Constraint K P) × M)) (out : List M),
      singleLoopX D h requested [] mbFuel fuel queue out =
        singleLoop D h requested mbFuel fuel queue out := by
  intro fuel
  induction fuel with
  | zero =>
    intro queue out
    cases queue <;> rfl
  | succ n ih =>
    intro queue out
    match queue with
    | [] => rfl
    | ([], m) :: queue =>
      rw [singleLoopX, singleLoop, finishCandidate_nil]
      cases hr : D.map.retain m requested with
      | none => rfl
      | some m' =>
        by_cases hall : (requested.all fun k => (D.map.get m' k).isSome) = true
        · simp only [hall, if_true, ih]
        · simp only [hall, Bool.false_eq_true, if_false, List.append_nil, ih]
    | (c :: rest, m) :: queue =>
      rw [singleLoopX, singleLoop]
      cases allMissingBindings D.req c.args [] mbFuel with
      | none => rfl
      | some keys =>
        simp only
        generalize (List.foldr _ _ (bindAll D.map D.opts h m keys false) : R (List M)) = kept
        cases kept with
        | error e => rfl
        | ok kept => simp only [ih]

/-- **F5, no regression.** A pattern that requests no extra keys is matched exactly as before
the repair. -/
theorem singleMatchesX_nil (D : Domain K V P H M) (cs : List (Constraint K P)) (h : H)
    (fuel : Nat) : singleMatchesX D cs [] h fuel = singleMatches D cs h fuel := by
  unfold singleMatchesX singleMatches
  cases requestedBindings D cs fuel with
  | none => rfl
  | some ckeys =>
    simp only [allMissingBindings, allMissingLoop, List.append_nil]
    exact singleLoopX_nil D h ckeys fuel fuel _ _

theorem naiveMatchesX_nil (D : Domain K V P H M) (h : H) (fuel : Nat) :
    ∀ (css : List (List (Constraint K P))) (i : Nat),
      naiveMatchesX D h fuel (css.map fun cs => (cs, [])) i = naiveMatches D h fuel css i := by
  intro css
  induction css with
  | nil => intro i; rfl
  | cons cs rest ih =>
    intro i
    simp only [List.map_cons, naiveMatchesX, naiveMatches, singleMatchesX_nil, ih]
    rfl

end
end Pm
