/-
Props/TDom.lean — the string and matrix domains: the pattern-to-constraint conversions
(`strConstraints`, `matConstraints`) are well-formed (arities, keys inside the pattern, every
cell mentioned) and, under the canonical binding of an anchor, their constraints hold exactly
when the pattern occurs at that anchor in the key-free sense of `Spec/Occurs`
(`occursStr`, `occursMat`). The pre-repair matrix conversion `matConstraintsOld` is unsound
(finding F2). The specification-level lemmas of property C11 (a pattern occurs in its own
instantiation; occurrences survive extending the host) are proved for both domains.

Only property theorems and non-vacuity examples live here; proofs are in `Proofs/DomLemmas`.
-/
import PmVerif.Proofs.DomLemmas
namespace Pm

/-! ### Strings: well-formedness of `strConstraints` -/

theorem tdom_str_arity (p : List CharVar) :
    ∀ c ∈ strConstraints p, c.args.length = c.pred.arity := by
  intro c hc
  rcases mem_strConstraints hc with h | ⟨_, rfl⟩
  · exact (loopOut_shape _ _ c h).arity
  · rfl

theorem tdom_str_keys (p : List CharVar) :
    ∀ c ∈ strConstraints p, ∀ k ∈ c.args, k < p.length := by
  intro c hc k hk
  rcases mem_strConstraints hc with h | ⟨hp, rfl⟩
  · rcases loopOut_args (strCells p) [] c h k hk with ⟨cv, hm⟩ | ⟨v, hv⟩
    · exact (List.getElem?_eq_some_iff.1 (mem_strCells.1 hm)).1
    · simp [alGet] at hv
  · have hpos : 0 < p.length := List.length_pos_iff.2 hp
    simp at hk
    omega

theorem tdom_str_last (p : List CharVar) (hp : p ≠ []) :
    ∃ c ∈ strConstraints p, (p.length - 1) ∈ c.args := by
  cases hn : p.length with
  | zero => exact absurd (List.length_eq_zero_iff.1 hn) hp
  | succ n =>
    rw [strConstraints_succ p n hn]
    split
    · rename_i hany
      obtain ⟨c, hc, hk⟩ := List.any_eq_true.1 hany
      exact ⟨c, hc, by simpa using List.contains_iff_mem.1 hk⟩
    · exact ⟨_, List.mem_append_right _ List.mem_cons_self, by simp⟩

/-! ### Strings: constraints under the canonical binding ⇔ occurrence -/

/-- The constraints of `p` hold under the canonical binding of anchor `a` (position map
`bound a len` with the whole pattern in range) exactly when `p` occurs at character `a`. -/
theorem tdom_str_sat_iff (p : List CharVar) (h : List Nat) (a len : Nat) (hlen : p.length ≤ len) :
    (∀ c ∈ strConstraints p, satOrFalse StrPos.get strCheck c h (.bound a len) = some true) ↔
      occursStr p h a = true := by
  rw [str_sat_all_iff p h a len hlen, occursStr_iff,
    OccursCells.congr (val' := fun k => h[a + k]?) (strVal_congr p h a len hlen)]

/-- An occurrence of a non-empty pattern never extends past the host. -/
theorem tdom_str_sat_short (p : List CharVar) (h : List Nat) (a : Nat)
    (ho : occursStr p h a = true) (hp : p ≠ []) : a + p.length ≤ h.length :=
  occursStr_short p h a ho hp

/-- Hence satisfied constraints of a non-empty pattern keep every cell inside the host. -/
theorem tdom_str_sat_inside (p : List CharVar) (h : List Nat) (a len : Nat)
    (hlen : p.length ≤ len) (hp : p ≠ [])
    (hs : ∀ c ∈ strConstraints p, satOrFalse StrPos.get strCheck c h (.bound a len) = some true) :
    a + p.length ≤ h.length :=
  occursStr_short p h a ((tdom_str_sat_iff p h a len hlen).1 hs) hp

/-! ### Strings: C11 at specification level -/

theorem c11_occursStr_self (ρ : Nat → Nat) (p : List CharVar) :
    occursStr p (instStr ρ p) 0 = true :=
  occursStr_self ρ p

theorem c11_occursStr_extend (p : List CharVar) (h pre post : List Nat) (a : Nat)
    (ho : occursStr p h a = true) : occursStr p (pre ++ h ++ post) (a + pre.length) = true :=
  occursStr_extend p h pre post a ho

/-! ### Matrices: well-formedness of `matConstraints` -/

theorem tdom_mat_arity (p : MatPattern) :
    ∀ c ∈ matConstraints p, c.args.length = c.pred.arity := by
  intro c hc
  rcases mem_matConstraints hc with h | ⟨_, rfl⟩
  · exact (repaired_shape _ c h).arity
  · rfl

/-- Every key of every constraint is the offset of a non-hole cell, or the start key. -/
theorem tdom_mat_keys (p : MatPattern) :
    ∀ c ∈ matConstraints p, ∀ k ∈ c.args,
      k = (0, 0) ∨ ∃ i j cv, (i, j, cv) ∈ matCells p ∧ k = ((i : Int), (j : Int)) := by
  intro c hc k hk
  rcases mem_matConstraints hc with h | ⟨_, rfl⟩
  · obtain ⟨cv, hm⟩ := repaired_args _ c h k hk
    obtain ⟨i, j, hm', rfl⟩ := mem_matEnumerate.1 hm
    exact .inr ⟨i, j, cv, hm', rfl⟩
  · simp at hk; exact .inl hk

/-- Every non-hole cell is mentioned by some constraint (the F2 repair). -/
theorem tdom_mat_covers (p : MatPattern) :
    ∀ i j cv, (i, j, cv) ∈ matCells p →
      ∃ c ∈ matConstraints p, ((i : Int), (j : Int)) ∈ c.args := by
  intro i j cv hm
  have hm' : (((i : Int), (j : Int)), cv) ∈ matEnumerate p :=
    mem_matEnumerate.2 ⟨i, j, hm, rfl⟩
  obtain ⟨c, hc, hk⟩ := repaired_covers _ _ _ hm'
  refine ⟨c, ?_, hk⟩
  rw [matConstraints_eq]
  split
  · rename_i he
    rw [List.isEmpty_iff.1 he] at hc
    simp at hc
  · exact hc

theorem tdom_mat_nonempty (p : MatPattern) : matConstraints p ≠ [] := by
  rw [matConstraints_eq]
  split
  · simp
  · rename_i he
    intro h
    exact he (by rw [h]; rfl)

/-! ### Matrices: constraints under the canonical binding ⇔ occurrence -/

/-- The constraints of `p` hold under the canonical binding of anchor `(r, c)` (position map
with extent covering the pattern's bounding box) and the anchor cell exists, exactly when `p`
occurs at `(r, c)`. (`occursMat` demands the anchor cell; the constraints alone do not imply it
when the pattern has a hole at offset `(0, 0)`.) -/
theorem tdom_mat_sat_iff (p : MatPattern) (h : MatHost) (r c : Nat) (maxr maxc : Int)
    (hbox : ((matExtent p).1 : Int) ≤ maxr ∧ ((matExtent p).2 : Int) ≤ maxc) :
    ((matCell h r c).isSome ∧ ∀ k ∈ matConstraints p,
        satOrFalse MatPos.get matCheck k h (.bound r c 0 0 maxr maxc) = some true) ↔
      occursMat p h r c = true :=
  mat_sat_iff_occurs p h r c maxr maxc hbox

/-- Finding F2: for the pattern `a$x` on the one-cell host `a`, all constraints of the pre-repair
conversion hold under the canonical binding of anchor `(0, 0)`, the anchor cell exists, but the
pattern does not occur (its second cell lies outside the host). -/
theorem tdom_mat_old_unsound :
    matExtent [[some (.lit 97), some (.var 120)]] = (0, 1) ∧
    (matCell [[97]] 0 0).isSome ∧
    (∀ k ∈ matConstraintsOld [[some (.lit 97), some (.var 120)]],
      satOrFalse MatPos.get matCheck k [[97]] (.bound 0 0 0 0 0 1) = some true) ∧
    occursMat [[some (.lit 97), some (.var 120)]] [[97]] 0 0 = false := by
  decide

/-- Hence the analogue of `tdom_mat_sat_iff` for `matConstraintsOld` is false. -/
theorem tdom_mat_old_no_sat_iff :
    ¬ ∀ (p : MatPattern) (h : MatHost) (r c : Nat) (maxr maxc : Int),
      ((matExtent p).1 : Int) ≤ maxr ∧ ((matExtent p).2 : Int) ≤ maxc →
      (((matCell h r c).isSome ∧ ∀ k ∈ matConstraintsOld p,
          satOrFalse MatPos.get matCheck k h (.bound r c 0 0 maxr maxc) = some true) ↔
        occursMat p h r c = true) := by
  intro H
  have h1 := tdom_mat_old_unsound
  have := (H [[some (.lit 97), some (.var 120)]] [[97]] 0 0 0 1 (by decide)).1 ⟨h1.2.1, h1.2.2.1⟩
  rw [h1.2.2.2] at this
  exact Bool.noConfusion this

/-- The repaired conversion rejects the same input. -/
example :
    ¬ ∀ k ∈ matConstraints [[some (.lit 97), some (.var 120)]],
      satOrFalse MatPos.get matCheck k [[97]] (.bound 0 0 0 0 0 1) = some true := by decide

/-! ### Matrices: C11 at specification level -/

/-- A pattern occurs at the origin of its own instantiation, provided the anchor cell exists:
the pattern has a first row and that row is non-empty. -/
theorem c11_occursMat_self (ρ : Nat → Nat) (p : MatPattern) (hp : p ≠ [])
    (hrow : p.head hp ≠ []) : occursMat p (instMat ρ p) 0 0 = true :=
  occursMat_self ρ p hp hrow

theorem c11_occursMat_extend_rows (p : MatPattern) (h below : MatHost) (r c : Nat)
    (ho : occursMat p h r c = true) : occursMat p (h ++ below) r c = true :=
  occursMat_extend_rows p h below r c ho

theorem c11_occursMat_extend_above (p : MatPattern) (h above : MatHost) (r c : Nat)
    (ho : occursMat p h r c = true) : occursMat p (above ++ h) (r + above.length) c = true :=
  occursMat_extend_above p h above r c ho

/-- Appending characters to the end of rows: `h'` has as many rows as `h` and every row of `h`
is a prefix of the corresponding row of `h'`. -/
theorem c11_occursMat_extend_right (p : MatPattern) (h h' : MatHost) (r c : Nat)
    (hlen : h'.length = h.length)
    (hpre : ∀ (i : Nat) (row row' : List Nat), h[i]? = some row → h'[i]? = some row' → row <+: row')
    (ho : occursMat p h r c = true) : occursMat p h' r c = true :=
  occursMat_extend_right p h h' r c hlen hpre ho

/-! ### Non-vacuity -/

/-- `a$x$x` occurs in `abb` at 0, and its constraints hold there. -/
example : occursStr [.lit 97, .var 120, .var 120] [97, 98, 98] 0 = true := by decide
example : ∀ c ∈ strConstraints [.lit 97, .var 120, .var 120],
    satOrFalse StrPos.get strCheck c [97, 98, 98] (.bound 0 3) = some true := by decide
example : ∀ c ∈ strConstraints [.lit 97, .var 120, .var 120],
    satOrFalse StrPos.get strCheck c [97, 98, 98] (.bound 0 3) = some true :=
  (tdom_str_sat_iff _ _ 0 3 (by decide)).2 (by decide)
/-- `a$x$x` does not occur in `abc`, nor at the end of `abb`; the constraints fail. -/
example : occursStr [.lit 97, .var 120, .var 120] [97, 98, 99] 0 = false := by decide
example : ¬ ∀ c ∈ strConstraints [.lit 97, .var 120, .var 120],
    satOrFalse StrPos.get strCheck c [97, 98, 99] (.bound 0 3) = some true := by decide
example : ¬ ∀ c ∈ strConstraints [.lit 97, .var 120, .var 120],
    satOrFalse StrPos.get strCheck c [97, 98, 98] (.bound 1 3) = some true := by decide
/-- A lone variable needs the self-equality on the last position. -/
example : strConstraints [.var 120] = [⟨.bindingEq, [0, 0]⟩] := by decide
example : strConstraints [.var 120, .lit 97] = [⟨.constVal 97, [1]⟩] := by decide

/-- The 2×2 pattern `[[a, $x], [_, $x]]` (one hole) on a 2×3 host, anchored at `(0, 1)`. -/
example : occursMat [[some (.lit 97), some (.var 120)], [none, some (.var 120)]]
    [[99, 97, 98], [99, 99, 98]] 0 1 = true := by decide
example : matExtent [[some (.lit 97), some (.var 120)], [none, some (.var 120)]] = (1, 1) := by
  decide
example : (matCell [[99, 97, 98], [99, 99, 98]] 0 1).isSome ∧
    ∀ k ∈ matConstraints [[some (.lit 97), some (.var 120)], [none, some (.var 120)]],
      satOrFalse MatPos.get matCheck k [[99, 97, 98], [99, 99, 98]] (.bound 0 1 0 0 1 1) =
        some true := by decide
example : occursMat [[some (.lit 97), some (.var 120)], [none, some (.var 120)]]
    [[99, 97, 98], [99, 99, 98]] 0 1 = true :=
  (tdom_mat_sat_iff _ _ 0 1 1 1 (by decide)).1 (by decide)
/-- The same pattern fails on a ragged host whose second row is too short. -/
example : occursMat [[some (.lit 97), some (.var 120)], [none, some (.var 120)]]
    [[99, 97, 98], [99, 99]] 0 1 = false := by decide
example : ¬ ∀ k ∈ matConstraints [[some (.lit 97), some (.var 120)], [none, some (.var 120)]],
    satOrFalse MatPos.get matCheck k [[99, 97, 98], [99, 99]] (.bound 0 1 0 0 1 1) = some true := by
  decide
/-- The all-hole pattern yields the single start-key constraint. -/
example : matConstraints [[none]] = [⟨.bindingEq, [(0, 0), (0, 0)]⟩] := by decide
/-- C11 instances. -/
example : instStr (fun _ => 98) [.lit 97, .var 120, .var 120] = [97, 98, 98] := by decide
example : instMat (fun _ => 98) [[some (.lit 97), some (.var 120)], [none, some (.var 120)]] =
    [[97, 98], [0, 98]] := by decide

end Pm
