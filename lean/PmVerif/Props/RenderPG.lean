/-
Props/RenderPG.lean — theorems about the model of `dot_string()` for the PORT-GRAPH domain
(`Model/RenderPG.lean`, tied to the code by the correspondence stage `render`, records `RND G`).

The line-level machinery of `Props/Render.lean` asks of a key printer (`KeyCode`) that every key
text starts with `c` (of `char@`). Port-graph keys print as `Root(…)` / `Along(…`, so
`KeyCode pgKeyTxt` is FALSE (`trender_pg_not_KeyCode`). What the proofs really use is only that
a key text does not start with the closing bracket of the list it sits in (`]` or `)`); this is
`KeyCodeG` below, implied by `KeyCode` (`KeyCode.toG`), and the chain
`listTxt → matchTxt → stateTxt / transTxt → itemLine → text` is re-proved for it
(`trender_pg_itemLine_inj`, `trender_pg_text_items`, generic in the key / predicate types).

* `pgKeyCode : KeyCodeG pgKeyTxt`, `pgPredCode : PredCode pgPredTxt` — unique decodability of the
  `Debug` texts of `PGIndexKey` and `PGPredicate<()>` (the predicate text `has_node_weight(())`
  itself contains `(`, `Incoming(0) -> Outgoing(1)` contains ` -> `: neither confuses the
  decoding);
* `trender_pg_text_inj`: equal rendered text ⇒ `SameShown`.
-/
import PmVerif.Props.Render
import PmVerif.Model.RenderPG
namespace Pm
namespace Render

/-! ## the generalised key code -/

section
variable {K P : Type}

/-- what the line-level injectivity needs from a key printer: a key text is non-empty, does not
start with `]` or `)` (the terminators of the lists keys are printed in), and is uniquely
decodable in front of a non-digit -/
structure KeyCodeG (sk : K → Txt) : Prop where
  head : ∀ k, ∃ c r, sk k = c :: r ∧ c ≠ 93 ∧ c ≠ 41
  code : Code sk

/-- the condition of `Props/Render.lean` is a special case -/
theorem KeyCode.toG {sk : K → Txt} (hk : KeyCode sk) : KeyCodeG sk where
  head := fun k => by
    obtain ⟨r, hr⟩ := hk.head k
    exact ⟨99, r, hr, by decide, by decide⟩
  code := hk.code

theorem listTxt_injG {sk : K → Txt} (hk : KeyCodeG sk) (xs ys : List K) (r r' : Txt)
    (h : listTxt sk xs ++ r = listTxt sk ys ++ r') : xs = ys ∧ r = r' := by
  simp only [listTxt, List.cons_append, List.append_assoc, List.cons.injEq, true_and,
    List.nil_append] at h
  refine sepBy_inj hk.code 93 (by decide) (by decide) ?_ xs ys r r' h
  intro x; obtain ⟨c, rest, hr, h93, _⟩ := hk.head x; exact ⟨c, rest, hr, h93⟩

theorem matchTxt_codeG {sk : K → Txt} (hk : KeyCodeG sk) : Code (matchTxt sk) := by
  intro x y c c' r r' _ _ h
  simp only [matchTxt, tColon, List.append_assoc, List.cons_append, List.nil_append] at h
  obtain ⟨h1, h2⟩ := natTxt_sep (by decide) (by decide) h
  simp only [List.cons.injEq, true_and] at h2
  obtain ⟨h3, h4⟩ := listTxt_injG hk _ _ _ _ h2
  exact ⟨Prod.ext h1 h3, h4⟩

/-- the `Debug` text of a state determines the three fields it prints -/
theorem stateTxt_injG {sk : K → Txt} (hk : KeyCodeG sk) (d d' : Bool)
    (ms ms' : List (Nat × List K)) (sc sc' : List K)
    (h : stateTxt sk d ms sc = stateTxt sk d' ms' sc') : d = d' ∧ ms = ms' ∧ sc = sc' := by
  have tail : ∀ (x y : Txt), tScope ++ listTxt sk sc ++ x = tScope ++ listTxt sk sc' ++ y →
      sc = sc' := by
    intro x y hxy
    rw [List.append_assoc, List.append_assoc] at hxy
    exact (listTxt_injG hk _ _ _ _ (List.append_cancel_left hxy)).1
  have both : matchesTxt sk ms ++ cNewline :: (tScope ++ listTxt sk sc) =
      matchesTxt sk ms' ++ cNewline :: (tScope ++ listTxt sk sc') → ms = ms' ∧ sc = sc' := by
    intro hXY
    unfold matchesTxt at hXY
    cases ms with
    | nil =>
      cases ms' with
      | nil =>
        simp only [List.nil_append, List.cons.injEq, true_and] at hXY
        exact ⟨rfl, tail [] [] (by simpa using hXY)⟩
      | cons m' ms' => simp [cNewline] at hXY
    | cons m ms =>
      cases ms' with
      | nil => simp [cNewline] at hXY
      | cons m' ms' =>
        simp only [List.cons_append, List.append_assoc, List.cons.injEq, true_and,
          List.nil_append] at hXY
        obtain ⟨h1, h2⟩ := sepBy_inj (matchTxt_codeG hk) 125 (by decide) (by decide)
          (matchTxt_head sk) _ _ _ _ hXY
        simp only [List.cons.injEq, true_and] at h2
        exact ⟨h1, tail [] [] (by simpa using h2)⟩
  unfold stateTxt at h
  cases d <;> cases d'
  · simp only [Bool.false_eq_true, if_false, List.cons_append, List.nil_append,
      List.cons.injEq, true_and] at h
    exact ⟨rfl, both h⟩
  · simp at h
  · simp at h
  · simp only [if_true, List.cons_append, List.nil_append,
      List.cons.injEq, true_and] at h
    exact ⟨rfl, both h⟩

theorem transTxt_injG {sk : K → Txt} {sp : P → Txt} (hk : KeyCodeG sk) (hp : PredCode sp)
    (c c' : Option (Constraint K P)) (h : transTxt sk sp c = transTxt sk sp c') : c = c' := by
  cases c with
  | none =>
    cases c' with
    | none => rfl
    | some c' =>
      obtain ⟨x, r, hx, hne⟩ := hp.head c'.pred
      simp [transTxt, consTxt, hx, cEps] at h
  | some c =>
    cases c' with
    | none =>
      obtain ⟨x, r, hx, hne⟩ := hp.head c.pred
      simp [transTxt, consTxt, hx, cEps] at h
    | some c' =>
      simp only [transTxt, consTxt] at h
      obtain ⟨h1, h2⟩ := hp.code _ _ _ _ h
      have h3 := (sepBy_inj hk.code 41 (by decide) (by decide)
        (by intro x; obtain ⟨c, rest, hr, _, h41⟩ := hk.head x; exact ⟨c, rest, hr, h41⟩)
        _ _ [] [] h2).1
      cases c; cases c'; simp_all

/-- **line level, generalised key code**: an output line determines the item it prints —
through the escaping. -/
theorem trender_pg_itemLine_inj {sk : K → Txt} {sp : P → Txt} (hk : KeyCodeG sk)
    (hp : PredCode sp) (it it' : DotItem K P) (h : itemLine sk sp it = itemLine sk sp it') :
    it = it' := by
  have lab : ∀ (x y : Txt), tLabelOpen ++ (escape x ++ tLabelClose) =
      tLabelOpen ++ (escape y ++ tLabelClose) → x = y := by
    intro x y hxy
    exact trender_escape_inj _ _ (List.append_cancel_right (List.append_cancel_left hxy))
  cases it with
  | node i d ms sc =>
    cases it' with
    | node i' d' ms' sc' =>
      simp only [itemLine, itemHead, itemLabel, List.append_assoc] at h
      have h := List.append_cancel_left h
      simp only [tLabelOpen, List.cons_append] at h
      obtain ⟨h1, h2⟩ := natTxt_sep (by decide) (by decide) h
      have h3 := lab _ _ (by simpa [tLabelOpen] using h2)
      obtain ⟨h4, h5, h6⟩ := stateTxt_injG hk _ _ _ _ _ _ h3
      rw [h1, h4, h5, h6]
    | edge s' t' c' =>
      simp only [itemLine, itemHead, itemLabel, List.append_assoc] at h
      have h := List.append_cancel_left h
      simp only [tLabelOpen, tArrow, List.cons_append] at h
      obtain ⟨_, h2⟩ := natTxt_sep (by decide) (by decide) h
      simp at h2
  | edge s t c =>
    cases it' with
    | node i' d' ms' sc' =>
      simp only [itemLine, itemHead, itemLabel, List.append_assoc] at h
      have h := List.append_cancel_left h
      simp only [tLabelOpen, tArrow, List.cons_append] at h
      obtain ⟨_, h2⟩ := natTxt_sep (by decide) (by decide) h
      simp at h2
    | edge s' t' c' =>
      simp only [itemLine, itemHead, itemLabel, List.append_assoc] at h
      have h := List.append_cancel_left h
      simp only [tLabelOpen, tArrow, List.cons_append] at h
      obtain ⟨h1, h2⟩ := natTxt_sep (by decide) (by decide) h
      simp only [List.cons.injEq, true_and] at h2
      obtain ⟨h3, h4⟩ := natTxt_sep (by decide) (by decide) h2
      have h5 := lab _ _ (by simpa [tLabelOpen] using h4)
      rw [h1, h3, transTxt_injG hk hp _ _ h5]

/-- **text level, generalised key code**: equal rendered text means equal item sequences. -/
theorem trender_pg_text_items {sk : K → Txt} {sp : P → Txt} (hk : KeyCodeG sk)
    (hp : PredCode sp) (a b : Automaton K P) (h : dotTxt sk sp a = dotTxt sk sp b) :
    dotItems a = dotItems b := by
  have hl := unlines_inj _ _ (dotLines_no_newline sk sp a) (dotLines_no_newline sk sp b) h
  simp only [dotLines, List.cons.injEq, true_and] at hl
  have hm := List.append_cancel_right hl
  exact map_inj_of_inj _ (trender_pg_itemLine_inj hk hp) _ _ hm

end

/-! ## the port-graph printers -/

/-- `in{i}` / `out{i}` in front of a non-digit -/
theorem pgPortShortTxt_sep {o o' : POff} {c c' : Nat} {r r' : Txt} (hc : isDigit c = false)
    (hc' : isDigit c' = false) (h : pgPortShortTxt o ++ c :: r = pgPortShortTxt o' ++ c' :: r') :
    o = o' ∧ c :: r = c' :: r' := by
  obtain ⟨d, i⟩ := o
  obtain ⟨d', i'⟩ := o'
  cases d <;> cases d' <;>
    simp only [pgPortShortTxt, tIn, tOut, List.cons_append, List.nil_append, List.cons.injEq,
      true_and] at h
  · obtain ⟨h1, h2⟩ := natTxt_sep hc hc' h
    exact ⟨by rw [h1], h2⟩
  · exact absurd h.1 (by decide)
  · exact absurd h.1 (by decide)
  · obtain ⟨h1, h2⟩ := natTxt_sep hc hc' h
    exact ⟨by rw [h1], h2⟩

/-- `Incoming(i)` / `Outgoing(i)` in front of anything -/
theorem pgOffTxt_sep {o o' : POff} {r r' : Txt} (h : pgOffTxt o ++ r = pgOffTxt o' ++ r') :
    o = o' ∧ r = r' := by
  obtain ⟨d, i⟩ := o
  obtain ⟨d', i'⟩ := o'
  cases d <;> cases d' <;>
    simp only [pgOffTxt, tIncomingOpen, tOutgoingOpen, List.cons_append, List.nil_append,
      List.append_assoc, List.cons.injEq, true_and] at h
  · obtain ⟨h1, h2⟩ := natTxt_sep (by decide) (by decide) h
    simp only [List.cons.injEq, true_and] at h2
    exact ⟨by rw [h1], h2⟩
  · exact absurd h.1 (by decide)
  · exact absurd h.1 (by decide)
  · obtain ⟨h1, h2⟩ := natTxt_sep (by decide) (by decide) h
    simp only [List.cons.injEq, true_and] at h2
    exact ⟨by rw [h1], h2⟩

theorem pgOffTxt_head (o : POff) : ∃ c r, pgOffTxt o = c :: r ∧ (c = 73 ∨ c = 79) := by
  obtain ⟨d, i⟩ := o
  cases d
  · exact ⟨73, _, rfl, Or.inl rfl⟩
  · exact ⟨79, _, rfl, Or.inr rfl⟩

/-- **unique decodability of `Debug for PGIndexKey`** (in front of a non-digit; the text starts
with `R` or `A`). -/
theorem pgKeyCode : KeyCodeG pgKeyTxt where
  head := by
    intro k
    cases k with
    | root i => exact ⟨82, _, rfl, by decide, by decide⟩
    | along r p l => exact ⟨65, _, rfl, by decide, by decide⟩
  code := by
    intro x y c c' r r' hc hc' h
    cases x with
    | root i =>
      cases y with
      | root j =>
        simp only [pgKeyTxt, List.append_assoc] at h
        have h := List.append_cancel_left h
        simp only [List.cons_append, List.nil_append] at h
        obtain ⟨h1, h2⟩ := natTxt_sep (by decide) (by decide) h
        simp only [List.cons.injEq, true_and] at h2
        exact ⟨by rw [h1], by rw [h2.1, h2.2]⟩
      | along r2 p2 l2 =>
        simp only [pgKeyTxt, tRootOpen, tAlongOpen, List.cons_append, List.cons.injEq] at h
        exact absurd h.1 (by decide)
    | along r1 p1 l1 =>
      cases y with
      | root j =>
        simp only [pgKeyTxt, tRootOpen, tAlongOpen, List.cons_append, List.cons.injEq] at h
        exact absurd h.1 (by decide)
      | along r2 p2 l2 =>
        simp only [pgKeyTxt, List.append_assoc] at h
        have h := List.append_cancel_left h
        simp only [tCloseAt, List.cons_append, List.append_assoc, List.nil_append] at h
        obtain ⟨h1, h2⟩ := natTxt_sep (by decide) (by decide) h
        simp only [List.cons.injEq, true_and] at h2
        obtain ⟨h3, h4⟩ := pgPortShortTxt_sep (by decide) (by decide) h2
        simp only [List.cons.injEq, true_and] at h4
        obtain ⟨h5, h6⟩ := natTxt_sep (by decide) (by decide) h4
        simp only [List.cons.injEq, true_and] at h6
        exact ⟨by rw [h1, h3, h5], by rw [h6.1, h6.2]⟩

/-- **unique decodability of `Debug for PGPredicate<()>`** in front of `(`; the text starts with
`h`, `I`, `O` or `n`, never with `ε`. -/
theorem pgPredCode : PredCode pgPredTxt where
  head := by
    intro p
    cases p with
    | hasNodeWeight => exact ⟨104, _, rfl, by decide⟩
    | isConnected l r =>
      obtain ⟨c, rest, hc, hor⟩ := pgOffTxt_head l
      refine ⟨c, rest ++ (tArrow ++ pgOffTxt r), by simp [pgPredTxt, hc], ?_⟩
      rcases hor with rfl | rfl <;> decide
    | isNotEqual n => exact ⟨110, _, rfl, by decide⟩
  code := by
    intro p q r r' h
    cases p with
    | hasNodeWeight =>
      cases q with
      | hasNodeWeight =>
        have h := List.append_cancel_left h
        exact ⟨rfl, by simpa using h⟩
      | isConnected l' r2' =>
        obtain ⟨c, rest, hc, hor⟩ := pgOffTxt_head l'
        simp only [pgPredTxt, tHasNodeWeightUnit, hc, List.cons_append, List.cons.injEq] at h
        rcases hor with rfl | rfl <;> exact absurd h.1 (by decide)
      | isNotEqual m =>
        simp only [pgPredTxt, tHasNodeWeightUnit, tNotEqualOpen, List.cons_append,
          List.cons.injEq] at h
        exact absurd h.1 (by decide)
    | isConnected l r2 =>
      cases q with
      | hasNodeWeight =>
        obtain ⟨c, rest, hc, hor⟩ := pgOffTxt_head l
        simp only [pgPredTxt, tHasNodeWeightUnit, hc, List.cons_append, List.cons.injEq] at h
        rcases hor with rfl | rfl <;> exact absurd h.1 (by decide)
      | isConnected l' r2' =>
        simp only [pgPredTxt, List.append_assoc] at h
        obtain ⟨h1, h2⟩ := pgOffTxt_sep h
        have h2 := List.append_cancel_left h2
        obtain ⟨h3, h4⟩ := pgOffTxt_sep h2
        simp only [List.cons.injEq, true_and] at h4
        exact ⟨by rw [h1, h3], h4⟩
      | isNotEqual m =>
        obtain ⟨c, rest, hc, hor⟩ := pgOffTxt_head l
        simp only [pgPredTxt, tNotEqualOpen, hc, List.cons_append, List.cons.injEq] at h
        rcases hor with rfl | rfl <;> exact absurd h.1 (by decide)
    | isNotEqual n =>
      cases q with
      | hasNodeWeight =>
        simp only [pgPredTxt, tHasNodeWeightUnit, tNotEqualOpen, List.cons_append,
          List.cons.injEq] at h
        exact absurd h.1 (by decide)
      | isConnected l' r2' =>
        obtain ⟨c, rest, hc, hor⟩ := pgOffTxt_head l'
        simp only [pgPredTxt, tNotEqualOpen, hc, List.cons_append, List.cons.injEq] at h
        rcases hor with rfl | rfl <;> exact absurd h.1 (by decide)
      | isNotEqual m =>
        simp only [pgPredTxt, List.append_assoc] at h
        have h := List.append_cancel_left h
        simp only [List.cons_append, List.nil_append] at h
        obtain ⟨h1, h2⟩ := natTxt_sep (by decide) (by decide) h
        simp only [List.cons.injEq, true_and] at h2
        exact ⟨by rw [h1], h2⟩

/-- the condition of `Props/Render.lean` does NOT hold for port-graph keys (they do not start
with `c`): the generalisation `KeyCodeG` is needed. -/
theorem trender_pg_not_KeyCode : ¬ KeyCode pgKeyTxt := by
  intro hk
  obtain ⟨r, hr⟩ := hk.head (.root 0)
  simp [pgKeyTxt, tRootOpen] at hr

/-- **(b) for C17, port graphs**: two port-graph automata whose `dot_string()` texts are equal
code point by code point show the same automaton — same live state ids; same flag, accepted
list and scope per live state; same live transitions (source, target, label) in edge-index
order. -/
theorem trender_pg_text_inj (a b : Automaton PGKey PGPred) (h : pgDotTxt a = pgDotTxt b) :
    SameShown a b :=
  trender_items_inj a b (trender_pg_text_items pgKeyCode pgPredCode a b h)

/-- the same on the line level -/
theorem trender_pg_lines_inj (a b : Automaton PGKey PGPred)
    (h : dotLines pgKeyTxt pgPredTxt a = dotLines pgKeyTxt pgPredTxt b) : SameShown a b :=
  trender_pg_text_inj a b (by simp only [pgDotTxt, dotTxt, h])

/-- the string and matrix results are instances of the generalised chain as well -/
theorem trender_pg_text_items_of_KeyCode {K P : Type} {sk : K → Txt} {sp : P → Txt}
    (hk : KeyCode sk) (hp : PredCode sp) (a b : Automaton K P)
    (h : dotTxt sk sp a = dotTxt sk sp b) : dotItems a = dotItems b :=
  trender_pg_text_items hk.toG hp a b h

/-! ## non-vacuity -/

-- `pgKeyCode`: texts that share long prefixes are told apart; a key printer that forgets the
-- port direction, or prints every key alike, is NOT a code
example : pgKeyTxt (.along 1 ⟨.inc, 0⟩ 3) ++ [93] ≠ pgKeyTxt (.along 1 ⟨.inc, 0⟩ 31) ++ [93] := by
  decide
example : pgKeyTxt (.along 1 ⟨.inc, 2⟩ 3) ≠ pgKeyTxt (.along 1 ⟨.out, 2⟩ 3) := by decide
example : ¬ KeyCodeG (fun _ : PGKey => [82]) := by
  intro hk
  have := (hk.code (.root 0) (.root 1) 93 93 [] [] (by decide) (by decide) rfl).1
  cases this
example : ¬ Code (fun k : PGKey => match k with
    | .root i => tRootOpen ++ (natTxt i ++ [41])
    | .along r p l => tAlongOpen ++ (natTxt r ++ 44 :: 32 :: (natTxt p.idx ++ (tCloseAt ++ (natTxt l ++ [41]))))) := by
  intro hc
  have := (hc (.along 0 ⟨.inc, 0⟩ 1) (.along 0 ⟨.out, 0⟩ 1) 93 93 [] [] (by decide) (by decide)
    (by decide)).1
  cases this
-- … and `KeyCodeG` really is weaker than `KeyCode`: it holds here, `KeyCode` does not
example : KeyCodeG pgKeyTxt ∧ ¬ KeyCode pgKeyTxt := ⟨pgKeyCode, trender_pg_not_KeyCode⟩

-- `pgPredCode`: the predicate text may itself contain `(` — still decodable in front of `(`;
-- a predicate printer without the port numbers is not
example : pgPredTxt .hasNodeWeight ++ 40 :: [82] ≠ pgPredTxt (.isNotEqual 0) ++ 40 :: [82] := by
  decide
example : pgPredTxt (.isConnected ⟨.out, 1⟩ ⟨.inc, 12⟩) ≠ pgPredTxt (.isConnected ⟨.out, 11⟩ ⟨.inc, 2⟩) := by
  decide
example : ¬ PredCode (fun _ : PGPred => [104]) := by
  intro hp
  have := (hp.code .hasNodeWeight (.isNotEqual 0) [] [] rfl).1
  cases this

/-- states 0 (root, deterministic) and 2 (accepts pattern 0); slot 1 vacant; edge 0 is
`0 -[Outgoing(0) -> Incoming(1)(Root(0), Along(0, out0)@1))]-> 2`, edge slot 1 vacant -/
def pgExA : Automaton PGKey PGPred :=
  ⟨⟨[some ⟨{ det := true, corder := [0], scope := [.root 0] }, [0], []⟩, none,
     some ⟨{ matches_ := [(0, [.root 0, .along 0 ⟨.out, 0⟩ 1])] }, [], [0]⟩],
    [some ⟨0, 2, some ⟨.isConnected ⟨.out, 0⟩ ⟨.inc, 1⟩, [.root 0, .along 0 ⟨.out, 0⟩ 1]⟩⟩,
     none], [1], [1]⟩, 0⟩

/-- the same but the accepted path leaves the root through an INPUT port -/
def pgExB : Automaton PGKey PGPred :=
  ⟨⟨[some ⟨{ det := true, corder := [0], scope := [.root 0] }, [0], []⟩, none,
     some ⟨{ matches_ := [(0, [.root 0, .along 0 ⟨.inc, 0⟩ 1])] }, [], [0]⟩],
    [some ⟨0, 2, some ⟨.isConnected ⟨.out, 0⟩ ⟨.inc, 1⟩, [.root 0, .along 0 ⟨.out, 0⟩ 1]⟩⟩,
     none], [1], [1]⟩, 0⟩

/-- the same as `pgExA` up to free lists and root -/
def pgExA' : Automaton PGKey PGPred := ⟨{ pgExA.g with freeNodes := [], freeEdges := [] }, 2⟩

-- the text, as the harness receives it from `dot_string()`:
-- digraph {
--     0 [ label = "D\lscope: [Root(0)]" ]
--     2 [ label = "ND {0: [Root(0), Along(0, out0)@1)]}\lscope: []" ]
--     0 -> 2 [ label = "Outgoing(0) -> Incoming(1)(Root(0), Along(0, out0)@1))" ]
-- }
example : pgDotString pgExA =
    "digraph {\n    0 [ label = \"D\\lscope: [Root(0)]\" ]\n    2 [ label = \"ND {0: [Root(0), Along(0, out0)@1)]}\\lscope: []\" ]\n    0 -> 2 [ label = \"Outgoing(0) -> Incoming(1)(Root(0), Along(0, out0)@1))\" ]\n}\n" := by
  decide +kernel

-- `trender_pg_text_inj`: hypothesis satisfiable with DIFFERENT automata (free lists, root), the
-- conclusion not trivially true (a different accepted key list gives a different text and is
-- not `SameShown`)
example : pgExA.g.freeNodes ≠ pgExA'.g.freeNodes ∧ pgExA.root ≠ pgExA'.root := by decide
example : SameShown pgExA pgExA' := trender_pg_text_inj pgExA pgExA' (by decide +kernel)
example : pgDotTxt pgExA ≠ pgDotTxt pgExB := by decide +kernel
example : ¬ SameShown pgExA pgExB := by
  intro h
  obtain ⟨nd', h1, _, h2, _⟩ := h.2.1 2 _ rfl
  have : nd' = ⟨{ matches_ := [(0, [.root 0, .along 0 ⟨.inc, 0⟩ 1])] }, [], [0]⟩ := by
    have : pgExB.g.node? 2 = some ⟨{ matches_ := [(0, [.root 0, .along 0 ⟨.inc, 0⟩ 1])] }, [], [0]⟩ := rfl
    rw [this] at h1; exact (Option.some.inj h1).symm
  subst this
  revert h2; decide
-- the arrow inside an `IsConnected` label does not make the node/arrow line count wrong
example : ((dotLines pgKeyTxt pgPredTxt pgExA).filter isArrowLine).length = 1 ∧
    ((dotLines pgKeyTxt pgPredTxt pgExA).filter isNodeLine).length = 2 := by decide +kernel
-- a key printer that is not uniquely decodable makes different automata render equally
example : dotTxt (fun _ : PGKey => [82]) pgPredTxt pgExA = dotTxt (fun _ : PGKey => [82]) pgPredTxt pgExB := by
  decide +kernel

end Render

/-! ## statements under the names the manifest uses -/

export Render (pgKeyCode pgPredCode trender_pg_itemLine_inj trender_pg_text_items
  trender_pg_not_KeyCode trender_pg_text_inj trender_pg_lines_inj
  trender_pg_text_items_of_KeyCode)

end Pm

section AxiomAudit
open Pm
#print axioms pgKeyCode
#print axioms pgPredCode
#print axioms trender_pg_itemLine_inj
#print axioms trender_pg_text_items
#print axioms trender_pg_not_KeyCode
#print axioms trender_pg_text_inj
#print axioms trender_pg_lines_inj
#print axioms trender_pg_text_items_of_KeyCode
end AxiomAudit
