/-
Props/C11.lean — property C11 for the baseline matcher, at full strength for strings and
matrices: a pattern occurs in itself, and extending the host never removes a reported
occurrence. (For the automaton matcher the same statement is C01 ∘ extend ∘ C02 and inherits
their status; the specification lemmas used here are in Props/TDom.lean, the port-graph ones in
Props/TPG.lean.)
-/
import PmVerif.Props.C05
namespace Pm

/-- A string pattern is reported at its own start when the host is the pattern itself, with its
variables instantiated consistently by any `ρ`. -/
theorem c11_single_string_self (ρ : Nat → Nat) (p : List CharVar) (hp : p ≠ []) (fuel : Nat)
    (out : List StrPos)
    (hs : singleMatches strDomain (strConstraints p) (instStr ρ p) fuel = .ok out) :
    StrPos.bound 0 p.length ∈ out :=
  (c05_string_mem p (instStr ρ p) fuel out hs _).mpr
    (.inr ⟨hp, 0, c11_occursStr_self ρ p, rfl⟩)

/-- An occurrence reported on `h` is reported, at the transported anchor, on every host obtained
by prepending and appending characters — hence, by induction, after any sequence of such
extension steps. -/
theorem c11_single_string_extend (p : List CharVar) (h pre post : List Nat) (fuel fuel' : Nat)
    (out out' : List StrPos) (a : Nat)
    (hs : singleMatches strDomain (strConstraints p) h fuel = .ok out)
    (hs' : singleMatches strDomain (strConstraints p) (pre ++ h ++ post) fuel' = .ok out')
    (hm : StrPos.bound a p.length ∈ out) : StrPos.bound (a + pre.length) p.length ∈ out' := by
  rcases (c05_string_mem p h fuel out hs _).mp hm with ⟨_, hcontra⟩ | ⟨hp, a', ho, heq⟩
  · cases hcontra
  · obtain ⟨rfl⟩ : a = a' := by injection heq
    exact (c05_string_mem p _ fuel' out' hs' _).mpr
      (.inr ⟨hp, a + pre.length, c11_occursStr_extend p h pre post a ho, rfl⟩)

/-- The empty string pattern stays reported. -/
theorem c11_single_string_empty (h h' : List Nat) (fuel fuel' : Nat) (out out' : List StrPos)
    (_hs : singleMatches strDomain (strConstraints []) h fuel = .ok out)
    (hs' : singleMatches strDomain (strConstraints []) h' fuel' = .ok out') :
    StrPos.unbound ∈ out' :=
  (c05_string_mem [] h' fuel' out' hs' _).mpr (.inl ⟨rfl, rfl⟩)

/-- Matrices: rows appended below. -/
theorem c11_single_matrix_extend_rows (p : MatPattern) (h below : MatHost) (fuel fuel' : Nat)
    (out out' : List MatPos) (m : MatPos)
    (hs : singleMatches matDomain (matConstraints p) h fuel = .ok out)
    (hs' : singleMatches matDomain (matConstraints p) (h ++ below) fuel' = .ok out')
    (hm : m ∈ out) : m ∈ out' := by
  obtain ⟨r, c, ho, rfl⟩ := (c05_matrix_mem p h fuel out hs m).mp hm
  exact (c05_matrix_mem p _ fuel' out' hs' _).mpr
    ⟨r, c, c11_occursMat_extend_rows p h below r c ho, rfl⟩

/-- Matrices: rows prepended — the anchor row shifts by their number. -/
theorem c11_single_matrix_extend_above (p : MatPattern) (h above : MatHost) (fuel fuel' : Nat)
    (out out' : List MatPos) (r c : Nat)
    (hs : singleMatches matDomain (matConstraints p) h fuel = .ok out)
    (hs' : singleMatches matDomain (matConstraints p) (above ++ h) fuel' = .ok out')
    (hm : MatPos.bound r c 0 0 ((matExtent p).1 : Int) ((matExtent p).2 : Int) ∈ out) :
    MatPos.bound (r + above.length) c 0 0 ((matExtent p).1 : Int) ((matExtent p).2 : Int) ∈ out' := by
  obtain ⟨r', c', ho, heq⟩ := (c05_matrix_mem p h fuel out hs _).mp hm
  obtain ⟨rfl, rfl⟩ : r = r' ∧ c = c' := by
    injection heq with h1 h2; exact ⟨h1, h2⟩
  exact (c05_matrix_mem p _ fuel' out' hs' _).mpr
    ⟨r + above.length, c, c11_occursMat_extend_above p h above r c ho, rfl⟩

/-- Matrices: characters appended to the end of rows (`h'` has as many rows and every row of
`h` is a prefix of the corresponding row of `h'`). -/
theorem c11_single_matrix_extend_right (p : MatPattern) (h h' : MatHost) (fuel fuel' : Nat)
    (out out' : List MatPos) (m : MatPos) (hlen : h'.length = h.length)
    (hpre : ∀ (i : Nat) (row row' : List Nat), h[i]? = some row → h'[i]? = some row' → row <+: row')
    (hs : singleMatches matDomain (matConstraints p) h fuel = .ok out)
    (hs' : singleMatches matDomain (matConstraints p) h' fuel' = .ok out')
    (hm : m ∈ out) : m ∈ out' := by
  obtain ⟨r, c, ho, rfl⟩ := (c05_matrix_mem p h fuel out hs m).mp hm
  exact (c05_matrix_mem p _ fuel' out' hs' _).mpr
    ⟨r, c, c11_occursMat_extend_right p h h' r c hlen hpre ho, rfl⟩

/-- A matrix pattern whose first row is non-empty is reported at (0,0) of itself. -/
theorem c11_single_matrix_self (ρ : Nat → Nat) (p : MatPattern) (hp : p ≠ [])
    (hrow : p.head hp ≠ []) (fuel : Nat) (out : List MatPos)
    (hs : singleMatches matDomain (matConstraints p) (instMat ρ p) fuel = .ok out) :
    MatPos.bound 0 0 0 0 ((matExtent p).1 : Int) ((matExtent p).2 : Int) ∈ out :=
  (c05_matrix_mem p _ fuel out hs _).mpr ⟨0, 0, c11_occursMat_self ρ p hp hrow, rfl⟩

end Pm
