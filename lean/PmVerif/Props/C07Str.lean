/-
Props/C07Str.lean — C07 ("each occurrence of each pattern is reported exactly once, whatever the
heuristic answers, hash orders and host") for string pattern sets.

1. FINDING: the target `c07_string_target` of `Props/Targets.lean`, which quantifies over ALL
   event logs the undisciplined replay `Automaton.build` accepts, is FALSE
   (`c07_string_target_false`, `c07_string_nodup_false`, by `rfl` on a concrete run). The replay
   `Automaton.mainLoop` accepts ANY `Topo s` event whose state exists; it does not require that a
   state is emitted at most once, after its predecessors (what `OnlineToposort::next` guarantees in
   the Rust code). The SET of reported matches is still right for such logs (T-BUILD,
   `c01_c02_string` quantify over all logs), the MULTIPLICITIES are not. The counterexample log
   `C07.cexEvs` for the patterns `$x b`, `a b $x d`, `a b c d` (`C07.cexPats`):
   1. `Topo 0` (root): the two `'a' at 0` transitions are fused into state 9; `'b' at 1`
      (pattern 0) moves under the root's fallback state 5; the heuristic answers "no".
   2. `Topo 9`: the two `'b' at 1` transitions are fused into state 2; "no".
   3. `Topo 2`: tree = `'c' at 2`; `'d' at 3` moves under the fallback state 6; "yes": state 2 is
      deterministic, its constraint child 7 gets a copy `'d' at 3 → 4` of the fallback transition
      (state 4 accepts pattern 1).
   4. `Topo 7`: its own `'d' at 3 → 8` and the copy `'d' at 3 → 4` are fused into state 3, which
      now accepts patterns 2 and 1; state 4 stays (reachable from the fallback state 6). Pattern 1
      is now accepted at the two states 3 and 4 — harmless as long as state 2 is deterministic.
   5. `Topo 0` AGAIN: "yes"; the root is determinised and its constraint child 9 gets the copy
      `'b' at 1 → 1` of the fallback transition.
   6. `Topo 9` AGAIN: `'b' at 1 → 2` and `'b' at 1 → 1` are fused into the fresh,
      NON-deterministic state 8, which clones the transitions of the deterministic state 2 (then
      removed). The determinism of 2 is lost: from 8 both `'c' at 2 → 7` and the fallback `→ 6`
      are followed, and on the host `abcd` the traversal reaches 3 (via 7) and 4 (via 6) and
      reports `(1, .bound 0 4)` twice (`c07_string_cex_run`).
   The log is not a possible output of the Rust builder (`c07_cex_log_not_toposort`); the lenient
   model `buildL` returns the same automaton on it (`c07_string_cex_lenient`), so the duplicate is
   not an artefact of the `make_det` guard.

2. The builder-independent half (any automaton): `c07_string_nodup_of_unamb` — the traversal of a
   string automaton whose states satisfy `Anch.StateOK` and which is unambiguous under every
   anchored truth assignment (`C07.Unamb`) reports no match twice; `c07_unamb_of_xinv` —
   unambiguity follows from the purely structural invariant `C07.XInv` ("two transitions of a
   state towards different targets are syntactically exclusive — `ConstVal` on the same key with
   different characters, or the state is deterministic and exactly one of them is the fallback
   transition — or no pattern id is accepted below both targets; an id accepted at a state is not
   accepted again below it; ids are recorded once per state"); `strUnambOK` — a decidable,
   host-independent per-build check of `XInv`; `c07_string_checked`,
   `c07_strFindMatches_checked` — C07 for every (guarded) build whose automaton passes the check,
   on every host.

3. The theorem for the STRICT disciplined replay `Automaton.buildTD` (Model/BuilderT.lean; guards
   c1T: a state is emitted at most once, after its current predecessors; c1C: every live state has
   been emitted when the log ends; c4T: merge sets are sibling sets; c1D: no child of an emitted
   state is deterministic — all measured on real logs, the rare real builds outside are flagged):
   `c07_string_TD`, `c07_string_nodup_TD`, `c07_string_holds_TD` (= `c07_string_target_TD`) — for
   EVERY strictly disciplined build of EVERY string pattern list and EVERY host, no match is
   reported twice and every occurrence exactly once; no per-build check is involved. The invariant
   `XInv` is carried through every step of the builder (`Proofs/C07X*.lean`, `C07Ids.lean`);
   `buildTD_imp_buildT`, `strFindMatchesTD_imp`: the strict replay is a restriction of the
   disciplined and of the undisciplined one, so C01–C06 apply to it.

Only final statements, the executable definitions they mention and non-vacuity examples live
here; proofs are in `Proofs/C07*.lean` (`C07Unamb`: runs, `Unamb`, `XInv`, first-divergence
argument; `C07Run`: the traversal; `C07Check`: the checker; `C07XDefs`, `C07XFuse`, `C07XTree`,
`C07XTreeSpec`, `C07XDet`, `C07XMerge`, `C07XAdd`, `C07Ids`, `C07CharTree`, `C07Many`, `C07XMain`:
the builder), `Proofs/C08Fuse.lean`, `Proofs/C08BuildT.lean` (from C08: uniqueness after
`make_constraints_unique`, `buildT_imp_build`).
-/
import PmVerif.Props.C01Str
import PmVerif.Props.TBuild
import PmVerif.Props.Targets
import PmVerif.Props.C03
import PmVerif.Proofs.C07Run
import PmVerif.Proofs.C07Check
import PmVerif.Proofs.C07XMain
import PmVerif.Proofs.C07CharTree
import PmVerif.Proofs.C07Many
namespace Pm
open Automaton

namespace C07

/-- `$x b`, `a b $x d`, `a b c d` (`a` = 97, …). -/
def cexPats : List (List CharVar) :=
  [[.var 0, .lit 98], [.lit 97, .lit 98, .var 0, .lit 100], [.lit 97, .lit 98, .lit 99, .lit 100]]

/-- An event log the guarded build accepts although it emits the root 0 and state 9 twice and
determinises state 2 before its parent 9 is normalised for the last time. -/
def cexEvs : List Ev :=
  [.topo 0, .group 0 [1, 4], .detAsk 0, .iterEnd 0,
   .topo 9, .group 9 [1, 2], .detAsk 9, .iterEnd 9,
   .topo 2, .detAsk 2, .detYes 2, .iterEnd 2,
   .topo 7, .group 7 [7, 8], .detAsk 7, .iterEnd 7,
   .topo 0, .detAsk 0, .detYes 0, .iterEnd 0,
   .topo 9, .group 9 [2, 7], .detAsk 9, .iterEnd 9]

/-- The host `abcd`. -/
def cexHost : List Nat := [97, 98, 99, 100]

/-- A log for the same patterns that respects the toposort discipline (root only, fused and
determinised at once). -/
def cexEvsInOrder : List Ev := [.topo 0, .group 0 [1, 4], .detAsk 0, .detYes 0, .iterEnd 0]

/-- The states emitted by a log, in order. -/
def topoStates (evs : List Ev) : List Nat :=
  evs.filterMap fun | .topo s => some s | _ => none

end C07

/-- **The counterexample run.** The guarded build succeeds on `C07.cexEvs`, and on the host
`abcd` the occurrence of pattern 1 (`a b $x d`) at anchor 0 is reported TWICE. -/
theorem c07_string_cex_run :
    strFindMatches C07.cexPats C07.cexEvs C07.cexHost 100 =
      .ok [(0, .bound 0 2), (2, .bound 0 4), (1, .bound 0 4), (1, .bound 0 4)] := by rfl

set_option maxRecDepth 8192 in
/-- The guarded build of the counterexample succeeds (so T-BUILD, `strProg_built` and
`c01_c02_string` all apply to it: the SET of reported matches is right) … -/
theorem c07_string_cex_built :
    ∃ M, manyBuild (fun p => some (strConstraints p)) (fun _ => ([] : List Nat))
        (charTree natLt) strReq 100 true C07.cexPats C07.cexEvs = some (.ok M) ∧
      M.automaton.liveStates = [0, 1, 3, 4, 5, 6, 7, 8, 9] ∧
      M.findMatches strDomain C07.cexHost 100 =
        .ok [(0, .bound 0 2), (2, .bound 0 4), (1, .bound 0 4), (1, .bound 0 4)] :=
  ⟨_, rfl, by rfl, by rfl⟩

/-- … and the lenient build (the Rust code as it runs, no `make_det` guard) returns the same
automaton on this log: the duplicate is not an artefact of the model guard. -/
theorem c07_string_cex_lenient :
    ∃ A, Automaton.build (charTree natLt) strReq 100
          ((manyInputs (K := Nat) (P := CharPred) (fun p => some (strConstraints p))
            (fun _ => ([] : List Nat)) true C07.cexPats 0).getD []) C07.cexEvs = .ok A ∧
      Automaton.buildL (charTree natLt) strReq 100
          ((manyInputs (K := Nat) (P := CharPred) (fun p => some (strConstraints p))
            (fun _ => ([] : List Nat)) true C07.cexPats 0).getD []) C07.cexEvs = .ok A :=
  ⟨_, rfl, build_imp_buildL _ _ _ _ _ _ rfl⟩

/-- The reported list has a duplicate: pattern 1 at anchor 0 is counted twice although it occurs
there (once). -/
theorem c07_string_cex_count :
    C07.cexPats[1]? = some [.lit 97, .lit 98, .var 0, .lit 100] ∧
    occursStr [.lit 97, .lit 98, .var 0, .lit 100] C07.cexHost 0 = true ∧
    ([(0, .bound 0 2), (2, .bound 0 4), (1, .bound 0 4), (1, .bound 0 4)] :
      List (Match StrPos)).count (1, .bound 0 4) = 2 := by decide

/-- **Finding: `c07_string_target` is false** for the model as it stands (the replay accepts logs
that violate the toposort discipline of the Rust main loop). -/
theorem c07_string_target_false : ¬ c07_string_target := by
  intro hT
  have h := (hT C07.cexPats C07.cexEvs C07.cexHost 100 _ c07_string_cex_run 1
    [.lit 97, .lit 98, .var 0, .lit 100] (by decide)).2 (by decide) 0
  revert h
  decide

/-- The same for the duplicate-freeness statement `c07_string_nodup` that was to be proved. -/
theorem c07_string_nodup_false :
    ¬ ∀ (ps : List (List CharVar)) (evs : List Ev) (h : List Nat) (fuel : Nat) ms,
        strFindMatches ps evs h fuel = .ok ms → ms.Nodup := by
  intro hN
  have h := hN C07.cexPats C07.cexEvs C07.cexHost 100 _ c07_string_cex_run
  revert h
  decide

/-- The log is not a possible output of `OnlineToposort`: it emits states 0 and 9 twice. -/
theorem c07_cex_log_not_toposort :
    C07.topoStates C07.cexEvs = [0, 9, 2, 7, 0, 9] ∧ ¬ (C07.topoStates C07.cexEvs).Nodup := by
  decide

/-- Contrast: the same patterns and host under the empty log (the plain trie) and under a log
that respects the discipline report every occurrence once. -/
theorem c07_string_cex_contrast :
    strFindMatches C07.cexPats [] C07.cexHost 100 =
      .ok [(0, .bound 0 2), (1, .bound 0 4), (2, .bound 0 4)] ∧
    strFindMatches C07.cexPats C07.cexEvsInOrder C07.cexHost 100 =
      .ok [(0, .bound 0 2), (1, .bound 0 4), (2, .bound 0 4)] := ⟨by rfl, by rfl⟩


/-! ### The builder-independent half: duplicate-freeness from unambiguity, and the per-build check -/

/-- **No match is reported twice** by the traversal of ANY string automaton whose live states
satisfy `Anch.StateOK` (a theorem for every build: `strProg_built`) and which is unambiguous under
every anchored truth assignment of the host (`C07.Unamb`: at most one reachable state accepts a
given id, an accepting reachable state is entered from one reachable state only, an accepting root
is not re-entered) and records each id once per state. -/
theorem c07_string_nodup_of_unamb (A : Automaton Nat CharPred) (ps : List (List CharVar))
    (h : List Nat) (fuel : Nat) (ms : List (Match StrPos)) (seen : List (Nat × List (Option Nat)))
    (hok : ∀ s w, A.g.weight? s = some w → Pm.Anch.StateOK A ps s w)
    (hU : ∀ a, C07.Unamb (strSigma h a) A) (hN : C07.IdsNodup A)
    (hr : run strDomain A h fuel = .ok (ms, seen)) : ms.Nodup :=
  C07.run_nodup A ps h fuel ms seen hok hU hN hr

/-- The structural invariant `C07.XInv` (for the mutual-exclusion relation `charMx`: `ConstVal` on
the same key with different characters) gives unambiguity for every host and anchor. -/
theorem c07_unamb_of_xinv (A : Automaton Nat CharPred) (ok : OrdersOK A)
    (X : C07.XInv (fun k1 k2 => C07.charMx k1 k2 = true) A) (h : List Nat) (a : Nat) :
    C07.Unamb (strSigma h a) A :=
  C07.unamb_of_xinv X (C07.lawful_strSigma h a) ok

/-- The decidable per-build check (host-independent): `C07.unambOK` for `charMx`. -/
def strUnambOK (A : Automaton Nat CharPred) : Bool := C07.unambOK C07.charMx A

/-- `strFindMatches`-style unfolding of a successful `manyBuild` of string patterns. -/
theorem c07_manyBuild_inv {ps : List (List CharVar)} {evs : List Ev} {fuel : Nat}
    {M : Many Nat CharPred}
    (hb : manyBuild (fun p => some (strConstraints p)) (fun _ => ([] : List Nat))
      (charTree natLt) strReq fuel true ps evs = some (.ok M)) :
    ∃ inputs, Automaton.build (charTree natLt) strReq fuel inputs evs = .ok M.automaton := by
  unfold manyBuild at hb
  cases hi : manyInputs (fun p => some (strConstraints p)) (fun _ => ([] : List Nat)) true ps 0 with
  | none => simp [hi] at hb
  | some inputs =>
    simp only [hi] at hb
    cases hbb : build (charTree natLt) strReq fuel inputs evs with
    | error e => simp [hbb] at hb
    | ok A =>
      simp only [hbb, Option.some.injEq, Except.ok.injEq] at hb
      subst hb
      exact ⟨inputs, hbb⟩

/-- Multiplicities from duplicate-freeness and the set-level theorem `c01_c02_string`. -/
theorem c07_counts_of_nodup (ps : List (List CharVar)) (h : List Nat) (ms : List (Match StrPos))
    (hnd : ms.Nodup)
    (hmem : ∀ i m, (i, m) ∈ ms ↔ ∃ p, ps[i]? = some p ∧
      ((p = [] ∧ m = .unbound) ∨ (p ≠ [] ∧ ∃ a, occursStr p h a = true ∧ m = .bound a p.length)))
    (i : Nat) (p : List CharVar) (hp : ps[i]? = some p) :
    (p = [] → ms.count (i, StrPos.unbound) = 1) ∧
    (p ≠ [] → ∀ a, ms.count (i, StrPos.bound a p.length) = if occursStr p h a then 1 else 0) := by
  refine ⟨fun hnil => ?_, fun hne a => ?_⟩
  · rw [hnd.count, if_pos ((hmem i .unbound).mpr ⟨p, hp, .inl ⟨hnil, rfl⟩⟩)]
  · rw [hnd.count]
    by_cases ho : occursStr p h a = true
    · rw [if_pos ((hmem i _).mpr ⟨p, hp, .inr ⟨hne, a, ho, rfl⟩⟩), if_pos ho]
    · rw [if_neg ho, if_neg]
      intro hin
      obtain ⟨p', hp', hor⟩ := (hmem i _).mp hin
      rw [hp] at hp'
      cases hp'
      rcases hor with ⟨_, hm⟩ | ⟨_, a', ho', hm⟩
      · cases hm
      · cases hm
        exact ho ho'

/-- **C07 for checked string builds.** Whatever the event log of the (guarded) build, if the
built automaton passes the host-independent check `strUnambOK`, then on EVERY host `find_matches`
reports no match twice, i.e. every occurrence of every pattern exactly once. -/
theorem c07_string_checked (ps : List (List CharVar)) (evs : List Ev) (fuel fuel' : Nat)
    (M : Many Nat CharPred) (h : List Nat) (ms : List (Match StrPos))
    (hb : manyBuild (fun p => some (strConstraints p)) (fun _ => ([] : List Nat))
      (charTree natLt) strReq fuel true ps evs = some (.ok M))
    (hck : strUnambOK M.automaton = true)
    (hf : M.findMatches strDomain h fuel' = .ok ms) :
    ms.Nodup ∧ ∀ i p, ps[i]? = some p →
      (p = [] → ms.count (i, StrPos.unbound) = 1) ∧
      (p ≠ [] → ∀ a, ms.count (i, StrPos.bound a p.length) = if occursStr p h a then 1 else 0) := by
  obtain ⟨seen, hr⟩ : ∃ seen, run strDomain M.automaton h fuel' = .ok (ms, seen) := by
    unfold Many.findMatches at hf
    cases hrun : run strDomain M.automaton h fuel' with
    | error e => rw [hrun] at hf; cases hf
    | ok r =>
      rw [hrun] at hf
      cases hf
      exact ⟨r.2, rfl⟩
  obtain ⟨inputs, hbb⟩ := c07_manyBuild_inv hb
  have ok : OrdersOK M.automaton :=
    build_ordersOK _ _ _ _ _ _ (fun _ => true) (c03_treeOK_char natLt _) hbb
  have X := C07.xinv_of_unambOK ok hck
  have hnd : ms.Nodup :=
    c07_string_nodup_of_unamb M.automaton ps h fuel' ms seen (strProg_built ps evs fuel M hb)
      (fun a => c07_unamb_of_xinv M.automaton ok X h a) X.nodup hr
  exact ⟨hnd, c07_counts_of_nodup ps h ms hnd (c01_c02_string ps evs fuel fuel' M h ms hb hf)⟩

/-- The same for the packaged `strFindMatches`: the statement of `c07_string_target` for every run
whose built automaton passes the check. -/
theorem c07_strFindMatches_checked (ps : List (List CharVar)) (evs : List Ev) (h : List Nat)
    (fuel : Nat) (ms : List (Match StrPos)) (hf : strFindMatches ps evs h fuel = .ok ms)
    (hck : ∀ M, manyBuild (fun p => some (strConstraints p)) (fun _ => ([] : List Nat))
      (charTree natLt) strReq fuel true ps evs = some (.ok M) → strUnambOK M.automaton = true) :
    ms.Nodup ∧ ∀ i p, ps[i]? = some p →
      (p = [] → ms.count (i, StrPos.unbound) = 1) ∧
      (p ≠ [] → ∀ a, ms.count (i, StrPos.bound a p.length) = if occursStr p h a then 1 else 0) := by
  unfold strFindMatches at hf
  cases hb : manyBuild (fun p => some (strConstraints p)) (fun _ => ([] : List Nat))
      (charTree natLt) strReq fuel true ps evs with
  | none => rw [hb] at hf; cases hf
  | some r =>
    cases r with
    | error e => rw [hb] at hf; cases hf
    | ok M =>
      rw [hb] at hf
      exact c07_string_checked ps evs fuel fuel M h ms hb (hck M hb) hf

/-! ### Non-vacuity of the check -/

set_option maxRecDepth 8192 in
/-- The real build of `Props/TRunStr.lean` (patterns `ab`, the empty pattern, `a$x$x`; fused,
determinised twice, a fallback state) passes the check; the counterexample build does not. -/
theorem c07_check_examples :
    (∃ M, manyBuild (fun p => some (strConstraints p)) (fun _ => ([] : List Nat))
        (charTree natLt) strReq 50 true exStrPatterns2 exStrEvents = some (.ok M) ∧
      strUnambOK M.automaton = true) ∧
    (∃ M, manyBuild (fun p => some (strConstraints p)) (fun _ => ([] : List Nat))
        (charTree natLt) strReq 100 true C07.cexPats C07.cexEvs = some (.ok M) ∧
      strUnambOK M.automaton = false) :=
  ⟨⟨_, rfl, by rfl⟩, ⟨_, rfl, by rfl⟩⟩

/-- `c07_string_checked` applied to that build and its run on `xabbacc` (four matches, a
deterministic root and a deterministic fused child). -/
example : ([((1 : Nat), StrPos.unbound), (0, .bound 1 2), (2, .bound 1 3), (2, .bound 4 3)] :
    List (Match StrPos)).Nodup := by
  obtain ⟨⟨M, hb, hck⟩, _⟩ := c07_check_examples
  obtain ⟨M', hb', _, _, hf⟩ := exStr_built
  rw [hb] at hb'
  cases hb'
  exact (c07_string_checked _ _ _ _ M _ _ hb hck hf).1


/-! ### C07 for the strict disciplined replay `buildTD` -/

/-- `ManyMatcher::try_from_patterns_with_det_heuristic` replayed with the strict disciplined
builder `Automaton.buildTD` (Model/BuilderT.lean: every state is emitted exactly once, after its
current predecessors (c1T, c1C), merge sets are sibling sets (c4T), and no child of an emitted
state is deterministic (c1D)). -/
def manyBuildTD {K P Pat : Type} [DecidableEq K] [DecidableEq P]
    (convert : Pat → Option (List (Constraint K P))) (extra : Pat → List K)
    (toTree : List (Constraint K P) → Option (CTree (Constraint K P))) (req : K → List K)
    (fuel : Nat) (fallbackFail : Bool) (pats : List Pat) (evs : List Ev) :
    Option (R (Many K P)) :=
  match manyInputs convert extra fallbackFail pats 0 with
  | none => none
  | some inputs =>
    some (match Automaton.buildTD toTree req fuel inputs evs with
      | .error e => .error e
      | .ok a => .ok ⟨a, inputs.map (·.1)⟩)

/-- `strFindMatches` with the strict disciplined replay. -/
def strFindMatchesTD (ps : List (List CharVar)) (evs : List Ev) (h : List Nat) (fuel : Nat) :
    R (List (Match StrPos)) :=
  match manyBuildTD (fun p => some (strConstraints p)) (fun _ => []) (charTree natLt) strReq fuel
      true ps evs with
  | none => .error (.panic "unreachable: string patterns always convert")
  | some (.error e) => .error e
  | some (.ok m) => m.findMatches strDomain h fuel

/-- C07, strings, for the strict replay: … exactly once. -/
def c07_string_target_TD : Prop :=
  ∀ (ps : List (List CharVar)) (evs : List Ev) (h : List Nat) (fuel : Nat) ms,
    strFindMatchesTD ps evs h fuel = .ok ms → ∀ i p, ps[i]? = some p →
      (p = [] → ms.count (i, StrPos.unbound) = 1) ∧
      (p ≠ [] → ∀ a, ms.count (i, StrPos.bound a p.length) = if occursStr p h a then 1 else 0)

/-- **Whenever the strict build succeeds, the disciplined build `buildT` returns the same
automaton** (and hence so do `build` and the lenient `buildL`: `C08.buildT_imp_build`,
`build_imp_buildL`). -/
theorem buildTD_imp_buildT {K P : Type} [DecidableEq K] [DecidableEq P]
    (toTree : List (Constraint K P) → Option (CTree (Constraint K P))) (req : K → List K)
    (fuel : Nat) (patterns : List (Nat × List (Constraint K P) × List K)) (evs : List Ev)
    (A : Automaton K P) (h : Automaton.buildTD toTree req fuel patterns evs = .ok A) :
    Automaton.buildT toTree req fuel patterns evs = .ok A :=
  C07.buildTD_imp_buildT h

/-- A successful strict string build is a successful build (so `strProg_built`,
`c01_c02_string`, … apply), its pattern ids are pairwise different, and — the new fact — its
automaton satisfies the structural unambiguity invariant and records every id once per state. -/
theorem c07_manyBuildTD_inv {ps : List (List CharVar)} {evs : List Ev} {fuel : Nat}
    {M : Many Nat CharPred}
    (hb : manyBuildTD (fun p => some (strConstraints p)) (fun _ => ([] : List Nat))
      (charTree natLt) strReq fuel true ps evs = some (.ok M)) :
    manyBuild (fun p => some (strConstraints p)) (fun _ => ([] : List Nat))
      (charTree natLt) strReq fuel true ps evs = some (.ok M) ∧
    C07.XInv (fun k1 k2 => C07.charMx k1 k2 = true) M.automaton := by
  unfold manyBuildTD at hb
  unfold manyBuild
  cases hi : manyInputs (fun p => some (strConstraints p)) (fun _ => ([] : List Nat)) true ps 0 with
  | none => simp [hi] at hb
  | some inputs =>
    simp only [hi] at hb ⊢
    cases hbb : Automaton.buildTD (charTree natLt) strReq fuel inputs evs with
    | error e => simp [hbb] at hb
    | ok A =>
      simp only [hbb, Option.some.injEq, Except.ok.injEq] at hb
      subst hb
      have hnd := (C07.manyInputs_ids _ _ _ ps 0 inputs hi).1
      obtain ⟨X, hN⟩ := C07.buildTD_xb (Mx := fun k1 k2 => C07.charMx k1 k2 = true)
        C07.charMx_irrefl (C07.flatTreeHyp_charTree natLt) (c03_treeOK_char natLt _) hnd hbb
      have hbuild := C08.buildT_imp_build (C07.buildTD_imp_buildT hbb)
      simp only [hbuild]
      exact ⟨trivial, X.xinv hN⟩

/-- **C07 for strictly disciplined string builds.** Every strictly disciplined build of a string
pattern list — any admissible event log, i.e. any hash orders and heuristic answers — yields a
matcher that on EVERY host reports no match twice, i.e. every occurrence of every pattern exactly
once. No per-build check is involved. -/
theorem c07_string_TD (ps : List (List CharVar)) (evs : List Ev) (fuel fuel' : Nat)
    (M : Many Nat CharPred) (h : List Nat) (ms : List (Match StrPos))
    (hb : manyBuildTD (fun p => some (strConstraints p)) (fun _ => ([] : List Nat))
      (charTree natLt) strReq fuel true ps evs = some (.ok M))
    (hf : M.findMatches strDomain h fuel' = .ok ms) :
    ms.Nodup ∧ ∀ i p, ps[i]? = some p →
      (p = [] → ms.count (i, StrPos.unbound) = 1) ∧
      (p ≠ [] → ∀ a, ms.count (i, StrPos.bound a p.length) = if occursStr p h a then 1 else 0) := by
  obtain ⟨hb', X⟩ := c07_manyBuildTD_inv hb
  obtain ⟨seen, hr⟩ : ∃ seen, run strDomain M.automaton h fuel' = .ok (ms, seen) := by
    unfold Many.findMatches at hf
    cases hrun : run strDomain M.automaton h fuel' with
    | error e => rw [hrun] at hf; cases hf
    | ok r =>
      rw [hrun] at hf
      cases hf
      exact ⟨r.2, rfl⟩
  obtain ⟨inputs, hbb⟩ := c07_manyBuild_inv hb'
  have ok : OrdersOK M.automaton :=
    build_ordersOK _ _ _ _ _ _ (fun _ => true) (c03_treeOK_char natLt _) hbb
  have hnd : ms.Nodup :=
    c07_string_nodup_of_unamb M.automaton ps h fuel' ms seen (strProg_built ps evs fuel M hb')
      (fun a => c07_unamb_of_xinv M.automaton ok X h a) X.nodup hr
  exact ⟨hnd, c07_counts_of_nodup ps h ms hnd (c01_c02_string ps evs fuel fuel' M h ms hb' hf)⟩

/-- Unfolding of the packaged matcher. -/
theorem c07_strFindMatchesTD_inv {ps : List (List CharVar)} {evs : List Ev} {h : List Nat}
    {fuel : Nat} {ms : List (Match StrPos)} (hf : strFindMatchesTD ps evs h fuel = .ok ms) :
    ∃ M, manyBuildTD (fun p => some (strConstraints p)) (fun _ => ([] : List Nat))
        (charTree natLt) strReq fuel true ps evs = some (.ok M) ∧
      M.findMatches strDomain h fuel = .ok ms := by
  unfold strFindMatchesTD at hf
  cases hb : manyBuildTD (fun p => some (strConstraints p)) (fun _ => ([] : List Nat))
      (charTree natLt) strReq fuel true ps evs with
  | none => rw [hb] at hf; cases hf
  | some r =>
    cases r with
    | error e => rw [hb] at hf; cases hf
    | ok M =>
      rw [hb] at hf
      exact ⟨M, rfl, hf⟩

/-- The strict replay is a restriction of `strFindMatches`: the same result whenever it
succeeds, so the theorems about `strFindMatches` (C01–C04, C06) apply to it. -/
theorem strFindMatchesTD_imp (ps : List (List CharVar)) (evs : List Ev) (h : List Nat)
    (fuel : Nat) (ms : List (Match StrPos)) (hf : strFindMatchesTD ps evs h fuel = .ok ms) :
    strFindMatches ps evs h fuel = .ok ms := by
  obtain ⟨M, hb, hfm⟩ := c07_strFindMatchesTD_inv hf
  unfold strFindMatches
  rw [(c07_manyBuildTD_inv hb).1]
  exact hfm

/-- **C07, strings: no match is reported twice** by the strictly disciplined matcher, whatever
the heuristic answers, hash orders (admissible event log) and host. -/
theorem c07_string_nodup_TD (ps : List (List CharVar)) (evs : List Ev) (h : List Nat) (fuel : Nat)
    (ms : List (Match StrPos)) (hr : strFindMatchesTD ps evs h fuel = .ok ms) : ms.Nodup := by
  obtain ⟨M, hb, hfm⟩ := c07_strFindMatchesTD_inv hr
  exact (c07_string_TD ps evs fuel fuel M h ms hb hfm).1

/-- **C07, strings** (`c07_string_target_TD`) is a theorem: each occurrence of each pattern is
reported exactly once. -/
theorem c07_string_holds_TD : c07_string_target_TD := by
  intro ps evs h fuel ms hf
  obtain ⟨M, hb, hfm⟩ := c07_strFindMatchesTD_inv hf
  exact (c07_string_TD ps evs fuel fuel M h ms hb hfm).2

/-! ### Non-vacuity for the strict replay -/

/-- A complete, strictly disciplined log for the patterns `ab`, the empty pattern, `a$x$x`
(`exStrPatterns2`): the root is fused and determinised, so is its fused child 5 (with a fallback
state), then the remaining states are emitted, each once and after its predecessors. -/
def C07.exEvsTD : List Ev :=
  [.topo 0, .group 0 [0, 2], .detAsk 0, .detYes 0, .iterEnd 0,
   .topo 5, .detAsk 5, .detYes 5, .iterEnd 5,
   .topo 2, .iterEnd 2, .topo 3, .iterEnd 3, .topo 4, .iterEnd 4]

/-- A complete, strictly disciplined log for the patterns of the counterexample (`$x b`,
`a b $x d`, `a b c d`): six states are determinised; the fallback transition `'b' at 1` of the
root is copied onto its constraint child 9 and fused there with the child's own ones
(`group 9 [1, 2, 8]`) BEFORE the fused state is emitted and determinised. -/
def C07.cexEvsTD : List Ev :=
  [.topo 0, .group 0 [1, 4], .detAsk 0, .detYes 0, .iterEnd 0,
   .topo 5, .detAsk 5, .detYes 5, .iterEnd 5,
   .topo 9, .group 9 [1, 2, 8], .detAsk 9, .detYes 9, .iterEnd 9,
   .topo 1, .iterEnd 1, .topo 2, .detAsk 2, .detYes 2, .iterEnd 2,
   .topo 6, .detAsk 6, .detYes 6, .iterEnd 6,
   .topo 7, .group 7 [7, 1], .detAsk 7, .detYes 7, .iterEnd 7,
   .topo 3, .iterEnd 3, .topo 4, .iterEnd 4]

set_option maxRecDepth 8192 in
/-- The strict replay accepts both logs (two resp. six deterministic states) and reports four
resp. five matches; it REJECTS the counterexample log of the undisciplined replay (guard c1T: the
root is emitted twice). -/
theorem c07_TD_examples :
    strFindMatchesTD exStrPatterns2 C07.exEvsTD [120, 97, 98, 98, 97, 99, 99] 100 =
      .ok [(1, .unbound), (0, .bound 1 2), (2, .bound 1 3), (2, .bound 4 3)] ∧
    strFindMatchesTD C07.cexPats C07.cexEvsTD [97, 98, 99, 100, 97, 98, 120, 100] 100 =
      .ok [(0, .bound 0 2), (0, .bound 4 2), (2, .bound 0 4), (1, .bound 0 4), (1, .bound 4 4)] ∧
    strFindMatchesTD C07.cexPats C07.cexEvs C07.cexHost 100 =
      .error (.guard "c1T: state emitted twice or before one of its predecessors") :=
  ⟨by rfl, by rfl, by rfl⟩

/-- `c07_string_nodup_TD` / `c07_string_holds_TD` applied to the second run: no duplicates, and
pattern 1 (`a b $x d`) is counted once at each of the anchors 0 and 4 where it occurs, zero times
at anchor 1. -/
example :
    ([(0, .bound 0 2), (0, .bound 4 2), (2, .bound 0 4), (1, .bound 0 4), (1, .bound 4 4)] :
      List (Match StrPos)).Nodup ∧
    ∀ a, ([(0, .bound 0 2), (0, .bound 4 2), (2, .bound 0 4), (1, .bound 0 4), (1, .bound 4 4)] :
      List (Match StrPos)).count (1, .bound a 4) =
        if occursStr [.lit 97, .lit 98, .var 0, .lit 100] [97, 98, 99, 100, 97, 98, 120, 100] a
        then 1 else 0 :=
  ⟨c07_string_nodup_TD _ _ _ _ _ c07_TD_examples.2.1,
   (c07_string_holds_TD _ _ _ _ _ c07_TD_examples.2.1 1
      [.lit 97, .lit 98, .var 0, .lit 100] (by decide)).2 (by decide)⟩

end Pm

section AxiomAudit
open Pm
#print axioms c07_string_cex_run
#print axioms c07_string_target_false
#print axioms c07_string_nodup_false
#print axioms c07_string_nodup_of_unamb
#print axioms c07_string_checked
#print axioms c07_strFindMatches_checked
#print axioms c07_check_examples
#print axioms c07_string_TD
#print axioms c07_string_nodup_TD
#print axioms c07_string_holds_TD
#print axioms strFindMatchesTD_imp
#print axioms c07_TD_examples
end AxiomAudit
