/-
Props/C01PGFinal.lean — port graphs END-TO-END for single-root pattern lists, WITHOUT the
per-program check `pgProgramOK`: the `ManyMatcher` theorems of `Props/C01PG.lean`
(`c01_c02_pg_single`, `c01_pg_single`, …, `c11_many_pg_extend`) re-composed on
`Props/PGProg.lean` (`c01_c02_pg_rooted`, `pgProg_built_many`, `trun_pg_sound_stateOK`: every
successful build of single-root port-graph patterns satisfies the hypotheses of the anchored
traversal theorem T-RUN-ANCH-PG, whatever the event log) instead of `c01_c02_pg_checked_rooted`.

What replaces `hok : pgProgramOK M.automaton … = true` are two hypotheses about ALL patterns of
the list (the build contains all of them, so soundness and completeness for pattern `i` depend on
every pattern being in the domain of `pgProg_built_many`):

* `hsr  : ∀ p ∈ pats, ∀ cs, pgConstraints p.1 p.2 = some cs → pgSigMultiRoot cs = false`
  — every `constraint_vec` is single-root (the complement of known finding F3b, `Props/F3b.lean`);
* `hiso : ∀ p ∈ pats, p.1.edgeCount = 0 ∨ p.1.allLinks p.2 ≠ []`
  — no root is an isolated node of a graph that has links (`pgProgramOK_false_isolated_root` of
  `Props/PGProg.lean` shows this cannot be dropped from `pgProg_built_many`); implied by
  well-formedness + connectedness + a live root (`pg_root_has_link_of_connected`).

Per theorem, the hypotheses on the pattern `i` itself and on the host are those of `C01PG`
(`hsr` for pattern `i` is now an instance of the list-level `hsr`): soundness needs
`g.LinksOK`, `pgConnected g`, a live root and `h.LinksOK`; completeness needs only `g.LinksOK` and
`h.LinksOK`; C03 needs nothing beyond `hsr`, `hiso`.

§1 `c01_c02_pg_single_holds`, `c01_pg_single_holds`, `c01_pg_single_unfolded_holds`,
   `c01_pg_single_rootImages_holds`, `c02_pg_single_holds`, `c02_pg_single_live_holds`,
   `c02_pg_single_rootImages_holds`;
§2 `c03_pg_single_holds`, `c03_pg_all_holds`;
§3 `c11_many_pg_self_holds`, `c11_many_pg_extend_holds`;
§4 THE FINAL STATEMENTS `c01_pg_holds`, `c02_pg_holds`, `c01_c02_pg_holds` under the uniform
   domain hypothesis (every pattern well-formed, connected, rooted at a live node, single-root);
§5 non-vacuity on the real build `exPG_built`.

Helpers are in `Proofs/PGFinal.lean`. The baseline (`SinglePatternMatcher`) theorems of `C01PG`
(`c05_pg_*`, `c11_single_pg_*`, `c02_pg_holds_wf`) never had the hypothesis `hok` and are final as
they stand.
-/
import PmVerif.Proofs.PGFinal
namespace Pm
open Automaton AnchG PGDom PGComp PGFinal

/-! ## 1. `ManyMatcher`: C01 + C02 -/

/-- **C01 + C02 for single-root port-graph patterns, `ManyMatcher`, no program check.** For EVERY
successful build of a list of single-root patterns (none rooted at an isolated node of a graph
with links) under ANY event log, a successful `find_matches` reports for the pattern `(g, root)`
with id `i` — up to the order of the entries of the bindings — exactly the bindings induced by
the embeddings of `g` into the host. -/
theorem c01_c02_pg_single_holds (pats : List (PortGraph × Nat)) (evs : List Ev)
    (fuelT fuel fuel' : Nat) (M : Many PGKey PGPred) (h : PortGraph) (ms : List (Match PGMap))
    (hsr : ∀ p ∈ pats, ∀ cs, pgConstraints p.1 p.2 = some cs → pgSigMultiRoot cs = false)
    (hiso : ∀ p ∈ pats, p.1.edgeCount = 0 ∨ p.1.allLinks p.2 ≠ [])
    (hb : manyBuild (fun p : PortGraph × Nat => pgConstraints p.1 p.2) (fun _ => ([] : List PGKey))
      (fun cs => pgTree cs fuelT) pgReq fuel true pats evs = some (.ok M))
    (hf : M.findMatches pgDomain h fuel' = .ok ms)
    (i : Nat) (g : PortGraph) (root : Nat) (cs : List PGCons) (hi : pats[i]? = some (g, root))
    (hg : g.LinksOK) (hconn : pgConnected g = true) (hroot : (g.node? root).isSome = true)
    (hcs : pgConstraints g root = some cs) (hh : h.LinksOK) (m : PGMap) :
    (∃ m', (i, m') ∈ ms ∧ MapEqv m' m) ↔
      ∃ φ, embedsPG g h φ = true ∧ BindingOf g root φ m := by
  have hsri := sr_at hsr hi hcs
  rw [c01_c02_pg_rooted pats evs fuelT fuel fuel' M h ms hsr hiso hb hf i m,
    ← anch_iff_emb hg hconn hroot hh hcs hsri (patternKeys_nodeKeys hcs hsri) m]
  constructor
  · rintro ⟨p, cs', hp, hcs', hrest⟩
    rw [hi] at hp
    cases hp
    rw [hcs] at hcs'
    cases hcs'
    exact hrest
  · intro hrest
    exact ⟨(g, root), cs, hi, hcs, hrest⟩

/-- **C01 (soundness), `ManyMatcher`, no program check.** Every reported binding is the binding
induced by an embedding of the pattern; no key is listed twice. -/
theorem c01_pg_single_holds (pats : List (PortGraph × Nat)) (evs : List Ev)
    (fuelT fuel fuel' : Nat) (M : Many PGKey PGPred) (h : PortGraph) (ms : List (Match PGMap))
    (hsr : ∀ p ∈ pats, ∀ cs, pgConstraints p.1 p.2 = some cs → pgSigMultiRoot cs = false)
    (hiso : ∀ p ∈ pats, p.1.edgeCount = 0 ∨ p.1.allLinks p.2 ≠ [])
    (hb : manyBuild (fun p : PortGraph × Nat => pgConstraints p.1 p.2) (fun _ => ([] : List PGKey))
      (fun cs => pgTree cs fuelT) pgReq fuel true pats evs = some (.ok M))
    (hf : M.findMatches pgDomain h fuel' = .ok ms)
    (i : Nat) (g : PortGraph) (root : Nat) (cs : List PGCons) (hi : pats[i]? = some (g, root))
    (hg : g.LinksOK) (hconn : pgConnected g = true) (hroot : (g.node? root).isSome = true)
    (hcs : pgConstraints g root = some cs) (hh : h.LinksOK)
    (m : PGMap) (hm : (i, m) ∈ ms) :
    (∃ φ, embedsPG g h φ = true ∧ BindingOf g root φ m) ∧ (m.map (·.1)).Nodup :=
  ⟨(c01_c02_pg_single_holds pats evs fuelT fuel fuel' M h ms hsr hiso hb hf i g root cs hi hg hconn
      hroot hcs hh m).1 ⟨m, hm, fun _ => rfl⟩,
    nodup_rooted pats evs fuelT fuel fuel' M h ms hsr hiso hb hf i m hm⟩

/-- The same with the notion of embedding spelled out: the node map is defined on every live
pattern node, injective, maps into live host nodes, and carries every link of the pattern to a
link of the host between the images, with the same two port offsets; the reported binding maps
the key of each pattern node to the image of the node, `root 0` to the image of the root. -/
theorem c01_pg_single_unfolded_holds (pats : List (PortGraph × Nat)) (evs : List Ev)
    (fuelT fuel fuel' : Nat) (M : Many PGKey PGPred) (h : PortGraph) (ms : List (Match PGMap))
    (hsr : ∀ p ∈ pats, ∀ cs, pgConstraints p.1 p.2 = some cs → pgSigMultiRoot cs = false)
    (hiso : ∀ p ∈ pats, p.1.edgeCount = 0 ∨ p.1.allLinks p.2 ≠ [])
    (hb : manyBuild (fun p : PortGraph × Nat => pgConstraints p.1 p.2) (fun _ => ([] : List PGKey))
      (fun cs => pgTree cs fuelT) pgReq fuel true pats evs = some (.ok M))
    (hf : M.findMatches pgDomain h fuel' = .ok ms)
    (i : Nat) (g : PortGraph) (root : Nat) (cs : List PGCons) (hi : pats[i]? = some (g, root))
    (hg : g.LinksOK) (hconn : pgConnected g = true) (hroot : (g.node? root).isSome = true)
    (hcs : pgConstraints g root = some cs) (hh : h.LinksOK)
    (m : PGMap) (hm : (i, m) ∈ ms) :
    ∃ φ : List (Nat × Nat),
      (∀ n ∈ g.nodesIter, (alGet φ n).isSome = true) ∧
      (φ.map (·.2)).Nodup ∧
      (∀ x ∈ φ, (h.node? x.2).isSome = true) ∧
      (∀ l ∈ g.links, ∀ a b, alGet φ l.1.1 = some a → alGet φ l.2.1 = some b →
        h.portExists (a, l.1.2) = true ∧ h.portLink (a, l.1.2) = some (b, l.2.2)) ∧
      (∀ nk ∈ pgNodeKeys g root, alGet m nk.2 = alGet φ nk.1) ∧
      (∀ k, k ∉ (pgNodeKeys g root).map (·.2) → alGet m k = none) ∧
      alGet m (.root 0) = alGet φ root := by
  obtain ⟨⟨φ, hemb, hbind⟩, _⟩ := c01_pg_single_holds pats evs fuelT fuel fuel' M h ms hsr hiso hb
    hf i g root cs hi hg hconn hroot hcs hh m hm
  obtain ⟨h1, h2, h3, h4⟩ := (embedsPG_iff g h φ).1 hemb
  exact ⟨φ, h1, h2, h3, (linksPreserved_iff g h φ).1 h4, hbind.1, hbind.2, hbind.root hcs⟩

/-- **C02 (completeness), `ManyMatcher`, no program check.** Every embedding is reported, with
the binding it induces. (Neither connectedness of pattern `i` nor liveness of its root is needed
for pattern `i` itself; `hsr`, `hiso` speak about the whole list because the build contains all
of it.) -/
theorem c02_pg_single_holds (pats : List (PortGraph × Nat)) (evs : List Ev)
    (fuelT fuel fuel' : Nat) (M : Many PGKey PGPred) (h : PortGraph) (ms : List (Match PGMap))
    (hsr : ∀ p ∈ pats, ∀ cs, pgConstraints p.1 p.2 = some cs → pgSigMultiRoot cs = false)
    (hiso : ∀ p ∈ pats, p.1.edgeCount = 0 ∨ p.1.allLinks p.2 ≠ [])
    (hb : manyBuild (fun p : PortGraph × Nat => pgConstraints p.1 p.2) (fun _ => ([] : List PGKey))
      (fun cs => pgTree cs fuelT) pgReq fuel true pats evs = some (.ok M))
    (hf : M.findMatches pgDomain h fuel' = .ok ms)
    (i : Nat) (g : PortGraph) (root : Nat) (cs : List PGCons) (hi : pats[i]? = some (g, root))
    (hg : g.LinksOK) (hcs : pgConstraints g root = some cs)
    (hh : h.LinksOK) (φ : List (Nat × Nat)) (r : Nat) (hemb : embedsPG g h φ = true)
    (hr : alGet φ root = some r) :
    ∃ m, (i, m) ∈ ms ∧ BindingOf g root φ m ∧ alGet m (.root 0) = some r := by
  have hsri := sr_at hsr hi hcs
  obtain ⟨h1, h2, h3, h4⟩ :=
    anch_of_emb hg hh hcs hsri (patternKeys_nodeKeys hcs hsri) hemb hr
  have hget := mapGets_mapOf (pgPatternKeys cs) (pgVal h r)
  obtain ⟨m, hm, heq⟩ := (c01_c02_pg_rooted pats evs fuelT fuel fuel' M h ms hsr hiso hb hf i
    (mapOf (pgPatternKeys cs) (pgVal h r))).2 ⟨(g, root), cs, hi, hcs, r, h1, h2, h3, hget⟩
  have hbind : BindingOf g root φ m := ((h4 _).2 hget).congr heq
  exact ⟨m, hm, hbind, (hbind.root hcs).trans hr⟩

/-- With a live root every embedding assigns the root. -/
theorem c02_pg_single_live_holds (pats : List (PortGraph × Nat)) (evs : List Ev)
    (fuelT fuel fuel' : Nat) (M : Many PGKey PGPred) (h : PortGraph) (ms : List (Match PGMap))
    (hsr : ∀ p ∈ pats, ∀ cs, pgConstraints p.1 p.2 = some cs → pgSigMultiRoot cs = false)
    (hiso : ∀ p ∈ pats, p.1.edgeCount = 0 ∨ p.1.allLinks p.2 ≠ [])
    (hb : manyBuild (fun p : PortGraph × Nat => pgConstraints p.1 p.2) (fun _ => ([] : List PGKey))
      (fun cs => pgTree cs fuelT) pgReq fuel true pats evs = some (.ok M))
    (hf : M.findMatches pgDomain h fuel' = .ok ms)
    (i : Nat) (g : PortGraph) (root : Nat) (cs : List PGCons) (hi : pats[i]? = some (g, root))
    (hg : g.LinksOK) (hroot : (g.node? root).isSome = true)
    (hcs : pgConstraints g root = some cs)
    (hh : h.LinksOK) (φ : List (Nat × Nat)) (hemb : embedsPG g h φ = true) :
    ∃ m, (i, m) ∈ ms ∧ BindingOf g root φ m := by
  obtain ⟨r, hr⟩ := emb_root hroot hemb
  obtain ⟨m, hm, hbind, _⟩ := c02_pg_single_holds pats evs fuelT fuel fuel' M h ms hsr hiso hb hf
    i g root cs hi hg hcs hh φ r hemb hr
  exact ⟨m, hm, hbind⟩

/-- **C02 on root images** (the form of `c02_pg_target`, for `ManyMatcher`): every root image of
the brute-force specification `pgRootImages` is reported. -/
theorem c02_pg_single_rootImages_holds (pats : List (PortGraph × Nat)) (evs : List Ev)
    (fuelT fuel fuel' : Nat) (M : Many PGKey PGPred) (h : PortGraph) (ms : List (Match PGMap))
    (hsr : ∀ p ∈ pats, ∀ cs, pgConstraints p.1 p.2 = some cs → pgSigMultiRoot cs = false)
    (hiso : ∀ p ∈ pats, p.1.edgeCount = 0 ∨ p.1.allLinks p.2 ≠ [])
    (hb : manyBuild (fun p : PortGraph × Nat => pgConstraints p.1 p.2) (fun _ => ([] : List PGKey))
      (fun cs => pgTree cs fuelT) pgReq fuel true pats evs = some (.ok M))
    (hf : M.findMatches pgDomain h fuel' = .ok ms)
    (i : Nat) (g : PortGraph) (root : Nat) (cs : List PGCons) (hi : pats[i]? = some (g, root))
    (hg : g.LinksOK) (hcs : pgConstraints g root = some cs) (hh : h.LinksOK) :
    ∀ r ∈ pgRootImages g h root, ∃ m, (i, m) ∈ ms ∧ alGet m (.root 0) = some r := by
  intro r hr
  obtain ⟨φ, hemb, hφ⟩ := mem_pgRootImages hr
  obtain ⟨m, hm, _, h0⟩ := c02_pg_single_holds pats evs fuelT fuel fuel' M h ms hsr hiso hb hf i g
    root cs hi hg hcs hh φ r hemb hφ
  exact ⟨m, hm, h0⟩

/-- … and conversely the root key of every reported binding is a root image. -/
theorem c01_pg_single_rootImages_holds (pats : List (PortGraph × Nat)) (evs : List Ev)
    (fuelT fuel fuel' : Nat) (M : Many PGKey PGPred) (h : PortGraph) (ms : List (Match PGMap))
    (hsr : ∀ p ∈ pats, ∀ cs, pgConstraints p.1 p.2 = some cs → pgSigMultiRoot cs = false)
    (hiso : ∀ p ∈ pats, p.1.edgeCount = 0 ∨ p.1.allLinks p.2 ≠ [])
    (hb : manyBuild (fun p : PortGraph × Nat => pgConstraints p.1 p.2) (fun _ => ([] : List PGKey))
      (fun cs => pgTree cs fuelT) pgReq fuel true pats evs = some (.ok M))
    (hf : M.findMatches pgDomain h fuel' = .ok ms)
    (i : Nat) (g : PortGraph) (root : Nat) (cs : List PGCons) (hi : pats[i]? = some (g, root))
    (hg : g.LinksOK) (hconn : pgConnected g = true) (hroot : (g.node? root).isSome = true)
    (hcs : pgConstraints g root = some cs) (hh : h.LinksOK)
    (m : PGMap) (hm : (i, m) ∈ ms) :
    ∃ r φ, alGet m (.root 0) = some r ∧ embedsPG g h φ = true ∧ alGet φ root = some r := by
  obtain ⟨⟨φ, hemb, hbind⟩, _⟩ := c01_pg_single_holds pats evs fuelT fuel fuel' M h ms hsr hiso hb
    hf i g root cs hi hg hconn hroot hcs hh m hm
  obtain ⟨r, hr⟩ := emb_root hroot hemb
  exact ⟨r, φ, (hbind.root hcs).trans hr, hemb, hr⟩

/-! ## 2. C03: `ManyMatcher` versus the naive matcher -/

/-- **C03 for single-root port-graph patterns, per pattern id, no program check.** EVERY
successful build of `ManyMatcher` and `NaiveManyMatcher` report the same set of bindings for the
pattern with id `i` (up to the order of the entries of the bindings) on EVERY host: no
well-formedness of patterns or host, no connectedness. (In `c03_pg_single` the single-root
signature was needed for pattern `i` only, the other patterns being covered by the check; here
`hsr`, `hiso` are about the whole list.) -/
theorem c03_pg_single_holds (pats : List (PortGraph × Nat)) (css : List (List PGCons))
    (hcss : pats.map (fun p => pgConstraints p.1 p.2) = css.map some) (evs : List Ev)
    (fuelT fuel fuel' fuel'' : Nat) (M : Many PGKey PGPred) (h : PortGraph)
    (ms ns : List (Match PGMap))
    (hsr : ∀ p ∈ pats, ∀ cs, pgConstraints p.1 p.2 = some cs → pgSigMultiRoot cs = false)
    (hiso : ∀ p ∈ pats, p.1.edgeCount = 0 ∨ p.1.allLinks p.2 ≠ [])
    (hb : manyBuild (fun p : PortGraph × Nat => pgConstraints p.1 p.2) (fun _ => ([] : List PGKey))
      (fun cs => pgTree cs fuelT) pgReq fuel true pats evs = some (.ok M))
    (hf : M.findMatches pgDomain h fuel' = .ok ms)
    (hn : naiveMatches pgDomain h fuel'' css 0 = .ok ns)
    (i : Nat) (m : PGMap) :
    (∃ m', (i, m') ∈ ms ∧ MapEqv m' m) ↔ (∃ m', (i, m') ∈ ns ∧ MapEqv m' m) := by
  rw [c01_c02_pg_rooted pats evs fuelT fuel fuel' M h ms hsr hiso hb hf i m]
  have hsri : ∀ p cs, pats[i]? = some p → pgConstraints p.1 p.2 = some cs →
      pgSigMultiRoot cs = false := fun p cs hp hc => hsr p (List.mem_of_getElem? hp) cs hc
  have hci : ∀ p cs, pats[i]? = some p → pgConstraints p.1 p.2 = some cs → css[i]? = some cs := by
    intro p cs hp hc
    have := congrArg (fun l => l[i]?) hcss
    simp only [List.getElem?_map, hp, Option.map_some, hc] at this
    cases hc' : css[i]? with
    | none => rw [hc'] at this; cases this
    | some cs' => rw [hc'] at this; cases this; rfl
  constructor
  · rintro ⟨p, cs, hp, hc, hrest⟩
    obtain ⟨out, hs, hall⟩ := (tnaive_ids hn).2 i cs (hci p cs hp hc)
    obtain ⟨m', hm', he⟩ := (single_anch_iff h fuel'' cs
      (consOK_of_constraints hc (hsri p cs hp hc)) (pgConstraints_ne_nil hc) out hs m).2 hrest
    exact ⟨m', by simpa using hall m' hm', he⟩
  · rintro ⟨m', hm', he⟩
    obtain ⟨cs, out, hc, hs, hmo⟩ := (c05_naive_ids pgDomain h fuel'' css ns hn i m').1 hm'
    have hlen : (pats.map fun p => pgConstraints p.1 p.2)[i]? = some (some cs) := by
      rw [hcss, List.getElem?_map, hc]; rfl
    rw [List.getElem?_map] at hlen
    cases hp : pats[i]? with
    | none => rw [hp] at hlen; cases hlen
    | some p =>
      rw [hp] at hlen
      have hc' : pgConstraints p.1 p.2 = some cs := Option.some.inj hlen
      exact ⟨p, cs, rfl, hc', (single_anch_iff h fuel'' cs
        (consOK_of_constraints hc' (hsri p cs hp hc')) (pgConstraints_ne_nil hc') out hs m).1
        ⟨m', hmo, he⟩⟩

/-- **C03 for single-root port-graph pattern lists, no program check**: the two matchers report
the same set of `(id, binding)` up to the order of the entries of the bindings. -/
theorem c03_pg_all_holds (pats : List (PortGraph × Nat)) (css : List (List PGCons))
    (hcss : pats.map (fun p => pgConstraints p.1 p.2) = css.map some) (evs : List Ev)
    (fuelT fuel fuel' fuel'' : Nat) (M : Many PGKey PGPred) (h : PortGraph)
    (ms ns : List (Match PGMap))
    (hsr : ∀ p ∈ pats, ∀ cs, pgConstraints p.1 p.2 = some cs → pgSigMultiRoot cs = false)
    (hiso : ∀ p ∈ pats, p.1.edgeCount = 0 ∨ p.1.allLinks p.2 ≠ [])
    (hb : manyBuild (fun p : PortGraph × Nat => pgConstraints p.1 p.2) (fun _ => ([] : List PGKey))
      (fun cs => pgTree cs fuelT) pgReq fuel true pats evs = some (.ok M))
    (hf : M.findMatches pgDomain h fuel' = .ok ms)
    (hn : naiveMatches pgDomain h fuel'' css 0 = .ok ns) :
    ∀ (i : Nat) (m : PGMap),
      (∃ m', (i, m') ∈ ms ∧ MapEqv m' m) ↔ (∃ m', (i, m') ∈ ns ∧ MapEqv m' m) :=
  fun i m => c03_pg_single_holds pats css hcss evs fuelT fuel fuel' fuel'' M h ms ns hsr hiso hb hf
    hn i m

/-! ## 3. C11 -/

/-- **C11 self-match, `ManyMatcher`, no program check**: run on the pattern graph itself, pattern
`i` is reported with the identity binding (every node key bound to its own node; `root 0` to
`root`). -/
theorem c11_many_pg_self_holds (pats : List (PortGraph × Nat)) (evs : List Ev)
    (fuelT fuel fuel' : Nat) (M : Many PGKey PGPred) (ms : List (Match PGMap))
    (hsr : ∀ p ∈ pats, ∀ cs, pgConstraints p.1 p.2 = some cs → pgSigMultiRoot cs = false)
    (hiso : ∀ p ∈ pats, p.1.edgeCount = 0 ∨ p.1.allLinks p.2 ≠ [])
    (i : Nat) (g : PortGraph) (root : Nat) (cs : List PGCons) (hi : pats[i]? = some (g, root))
    (hg : g.LinksOK) (hroot : (g.node? root).isSome = true)
    (hcs : pgConstraints g root = some cs)
    (hb : manyBuild (fun p : PortGraph × Nat => pgConstraints p.1 p.2) (fun _ => ([] : List PGKey))
      (fun cs => pgTree cs fuelT) pgReq fuel true pats evs = some (.ok M))
    (hf : M.findMatches pgDomain g fuel' = .ok ms) :
    ∃ m, (i, m) ∈ ms ∧ BindingOf g root (g.nodesIter.map fun n => (n, n)) m ∧
      alGet m (.root 0) = some root :=
  c02_pg_single_holds pats evs fuelT fuel fuel' M g ms hsr hiso hb hf i g root cs hi hg hcs hg _
    root (c11_embedsPG_self g hg) (alGet_diag_mem ((g.mem_nodesIter root).2 hroot))

/-- **C11 host extension, `ManyMatcher`, no program check**: a binding reported on `h` is
reported, transported along `ρ`, on every well-formed extension `h'` of `h` (relabelled nodes,
more nodes, more ports, more links) — by ANY successful build of the same pattern list (another
event log, other fuels). -/
theorem c11_many_pg_extend_holds (pats : List (PortGraph × Nat)) (evs evs' : List Ev)
    (fuelT fuel fuel' fuelT2 fuel2 fuel2' : Nat) (M M' : Many PGKey PGPred)
    (h h' : PortGraph) (ρ : Nat → Nat) (ms ms' : List (Match PGMap))
    (hsr : ∀ p ∈ pats, ∀ cs, pgConstraints p.1 p.2 = some cs → pgSigMultiRoot cs = false)
    (hiso : ∀ p ∈ pats, p.1.edgeCount = 0 ∨ p.1.allLinks p.2 ≠ [])
    (i : Nat) (g : PortGraph) (root : Nat) (cs : List PGCons) (hi : pats[i]? = some (g, root))
    (hg : g.LinksOK) (hconn : pgConnected g = true) (hroot : (g.node? root).isSome = true)
    (hcs : pgConstraints g root = some cs)
    (hh : h.LinksOK) (hh' : h'.LinksOK) (hext : Extends h h' ρ)
    (hb : manyBuild (fun p : PortGraph × Nat => pgConstraints p.1 p.2) (fun _ => ([] : List PGKey))
      (fun cs => pgTree cs fuelT) pgReq fuel true pats evs = some (.ok M))
    (hb' : manyBuild (fun p : PortGraph × Nat => pgConstraints p.1 p.2)
      (fun _ => ([] : List PGKey)) (fun cs => pgTree cs fuelT2) pgReq fuel2 true pats evs'
        = some (.ok M'))
    (hf : M.findMatches pgDomain h fuel' = .ok ms)
    (hf' : M'.findMatches pgDomain h' fuel2' = .ok ms')
    (m : PGMap) (hm : (i, m) ∈ ms) :
    ∃ m', (i, m') ∈ ms' ∧ ∀ k, alGet m' k = (alGet m k).map ρ := by
  obtain ⟨⟨φ, hemb, hbind⟩, _⟩ := c01_pg_single_holds pats evs fuelT fuel fuel' M h ms hsr hiso hb
    hf i g root cs hi hg hconn hroot hcs hh m hm
  have hemb' := c11_embedsPG_extend g h h' φ ρ hemb hext hh'
  rw [pair_map_eq] at hemb'
  obtain ⟨m', hm', hbind'⟩ := c02_pg_single_live_holds pats evs' fuelT2 fuel2 fuel2' M' h' ms' hsr
    hiso hb' hf' i g root cs hi hg hroot hcs hh' _ hemb'
  exact ⟨m', hm', hbind.map ρ hbind'⟩

/-! ## 4. The final statements of C01 and C02 for port graphs

**Domain.**
* *Pattern lists* `pats : List (PortGraph × Nat)` (graph, root) — ANY length, duplicates allowed —
  every element of which is
  - well-formed: `p.1.LinksOK` (every link goes from an existing output port to an existing
    input port, and two links that share an end are the same link: no port occurs in two links),
  - connected: `pgConnected p.1 = true` (the library's documented requirement on patterns),
  - rooted at a live node: `(p.1.node? p.2).isSome = true`,
  - single-root: `pgSigMultiRoot cs = false` for its `constraint_vec` `cs`
    (`pgConstraints p.1 p.2`), i.e. no key of `cs` mentions a root index `≥ 1`: the walk of the
    line partition from the root never had to open a second root.
* *Hosts*: EVERY `h : PortGraph` with `h.LinksOK` (connected or not, any size).
* *Builds*: EVERY event log `evs` (all answers of the determinisation heuristic, all hash
  iteration orders, disciplined or not), EVERY fuel of the tree construction (`fuelT`) and of the
  builder (`fuel`), with `PatternFallback::Fail`; the statements are about builds that succeed
  (`= some (.ok M)`: no conversion error, no `BuildFault`, no fuel exhaustion).
* *Runs*: EVERY traversal fuel `fuel'`; the statements are about runs that succeed (`= .ok ms`).
No per-program check (`pgProgramOK`) and no hypothesis on the built automaton is left.

**Excluded.**
* MULTI-ROOT patterns (`pgSigMultiRoot cs = true`): this is KNOWN FINDING F3b — C02 and C11 FAIL
  there for the pinned code (`Props/F3b.lean`: `f3b_witness_signature`, `f3b_witness_embeds`,
  `f3b_witness_missed`); a list containing ONE multi-root pattern is outside the domain as a whole,
  because all patterns are compiled into the same automaton.
* ill-formed hosts: `c02_pg_target_false` (`Props/C01PG.lean`) — completeness is FALSE for a host
  with an input port in two links;
* disconnected patterns / dead roots (outside the library's contract; in particular the
  isolated-root vector of `pgProgramOK_false_isolated_root`, `Props/PGProg.lean`, for which the
  theorems `…_single_holds` above keep the explicit hypothesis `hiso`).
-/

/-- **C01 for port graphs — final statement (soundness of `ManyMatcher::find_matches`).**
On the domain described above: every reported match `(i, m)` carries the id of a pattern
`(g, root)` of the list (its position), and `m` is the binding induced by an embedding `φ` of `g`
into the host (`embedsPG`: defined on every live pattern node, injective, into live host nodes,
preserving every link with its two port offsets; `BindingOf`: `m` binds the key of every pattern
node to the image of that node and nothing else — in particular `root 0` to the image of the root);
no key is listed twice in `m`. -/
theorem c01_pg_holds (pats : List (PortGraph × Nat)) (evs : List Ev)
    (fuelT fuel fuel' : Nat) (M : Many PGKey PGPred) (h : PortGraph) (ms : List (Match PGMap))
    (hwf : ∀ p ∈ pats, p.1.LinksOK ∧ pgConnected p.1 = true ∧ (p.1.node? p.2).isSome = true)
    (hsr : ∀ p ∈ pats, ∀ cs, pgConstraints p.1 p.2 = some cs → pgSigMultiRoot cs = false)
    (hh : h.LinksOK)
    (hb : manyBuild (fun p : PortGraph × Nat => pgConstraints p.1 p.2) (fun _ => ([] : List PGKey))
      (fun cs => pgTree cs fuelT) pgReq fuel true pats evs = some (.ok M))
    (hf : M.findMatches pgDomain h fuel' = .ok ms)
    (i : Nat) (m : PGMap) (hm : (i, m) ∈ ms) :
    ∃ g root φ, pats[i]? = some (g, root) ∧ embedsPG g h φ = true ∧ BindingOf g root φ m ∧
      alGet m (.root 0) = alGet φ root ∧ (m.map (·.1)).Nodup := by
  have hiso := iso_of_wf hwf
  obtain ⟨p, cs, hp, hcs, _⟩ := (c01_c02_pg_rooted pats evs fuelT fuel fuel' M h ms hsr hiso hb hf
    i m).1 ⟨m, hm, fun _ => rfl⟩
  obtain ⟨g, root⟩ := p
  obtain ⟨hg, hconn, hroot⟩ := hwf (g, root) (List.mem_of_getElem? hp)
  obtain ⟨⟨φ, hemb, hbind⟩, hnd⟩ := c01_pg_single_holds pats evs fuelT fuel fuel' M h ms hsr hiso
    hb hf i g root cs hp hg hconn hroot hcs hh m hm
  exact ⟨g, root, φ, hp, hemb, hbind, hbind.root hcs, hnd⟩

/-- **C02 for port graphs — final statement (completeness of `ManyMatcher::find_matches`).**
On the domain described above: for every pattern `(g, root)` of the list, at position `i`, EVERY
embedding `φ` of `g` into the host is reported: some match `(i, m)` is in the output whose binding
`m` is the one `φ` induces; it binds `root 0` to the image of the root. -/
theorem c02_pg_holds (pats : List (PortGraph × Nat)) (evs : List Ev)
    (fuelT fuel fuel' : Nat) (M : Many PGKey PGPred) (h : PortGraph) (ms : List (Match PGMap))
    (hwf : ∀ p ∈ pats, p.1.LinksOK ∧ pgConnected p.1 = true ∧ (p.1.node? p.2).isSome = true)
    (hsr : ∀ p ∈ pats, ∀ cs, pgConstraints p.1 p.2 = some cs → pgSigMultiRoot cs = false)
    (hh : h.LinksOK)
    (hb : manyBuild (fun p : PortGraph × Nat => pgConstraints p.1 p.2) (fun _ => ([] : List PGKey))
      (fun cs => pgTree cs fuelT) pgReq fuel true pats evs = some (.ok M))
    (hf : M.findMatches pgDomain h fuel' = .ok ms)
    (i : Nat) (g : PortGraph) (root : Nat) (hi : pats[i]? = some (g, root))
    (φ : List (Nat × Nat)) (hemb : embedsPG g h φ = true) :
    ∃ m r, (i, m) ∈ ms ∧ BindingOf g root φ m ∧ alGet φ root = some r ∧
      alGet m (.root 0) = some r := by
  have hmem : (g, root) ∈ pats := List.mem_of_getElem? hi
  obtain ⟨hg, _, hroot⟩ := hwf (g, root) hmem
  obtain ⟨cs, hcs⟩ := converts_of_built _ _ _ _ _ _ _ _ hb (g, root) hmem
  obtain ⟨r, hr⟩ := emb_root hroot hemb
  obtain ⟨m, hm, hbind, h0⟩ := c02_pg_single_holds pats evs fuelT fuel fuel' M h ms hsr
    (iso_of_wf hwf) hb hf i g root cs hi hg hcs hh φ r hemb hr
  exact ⟨m, r, hm, hbind, hr, h0⟩

/-- **C01 + C02 for port graphs in one statement.** On the same domain, for every id `i` and
binding `m`: a binding with the same `get` as `m` is reported with id `i` exactly when `i` is the
position of a pattern `(g, root)` of the list and `m` is the binding induced by an embedding of
`g` into the host. -/
theorem c01_c02_pg_holds (pats : List (PortGraph × Nat)) (evs : List Ev)
    (fuelT fuel fuel' : Nat) (M : Many PGKey PGPred) (h : PortGraph) (ms : List (Match PGMap))
    (hwf : ∀ p ∈ pats, p.1.LinksOK ∧ pgConnected p.1 = true ∧ (p.1.node? p.2).isSome = true)
    (hsr : ∀ p ∈ pats, ∀ cs, pgConstraints p.1 p.2 = some cs → pgSigMultiRoot cs = false)
    (hh : h.LinksOK)
    (hb : manyBuild (fun p : PortGraph × Nat => pgConstraints p.1 p.2) (fun _ => ([] : List PGKey))
      (fun cs => pgTree cs fuelT) pgReq fuel true pats evs = some (.ok M))
    (hf : M.findMatches pgDomain h fuel' = .ok ms) (i : Nat) (m : PGMap) :
    (∃ m', (i, m') ∈ ms ∧ MapEqv m' m) ↔
      ∃ g root φ, pats[i]? = some (g, root) ∧ embedsPG g h φ = true ∧ BindingOf g root φ m := by
  constructor
  · rintro ⟨m', hm', he⟩
    obtain ⟨g, root, φ, hi, hemb, hbind, _, _⟩ :=
      c01_pg_holds pats evs fuelT fuel fuel' M h ms hwf hsr hh hb hf i m' hm'
    exact ⟨g, root, φ, hi, hemb, hbind.congr (fun k => (he k).symm)⟩
  · rintro ⟨g, root, φ, hi, hemb, hbind⟩
    obtain ⟨m', _, hm', hbind', _, _⟩ :=
      c02_pg_holds pats evs fuelT fuel fuel' M h ms hwf hsr hh hb hf i g root hi φ hemb
    exact ⟨m', hm', hbind'.eqv hbind⟩

/-! ## 5. Non-vacuity -/

open PGEx

/-- The patterns of the real build `exPG_built` (`Props/TRunPG.lean`: the edge pattern and the
path pattern, both rooted at node 0, under a log that fuses and determinises) are in the domain
of the final statements. -/
theorem exPG_patterns_wf :
    ∀ p ∈ exPGPatterns, p.1.LinksOK ∧ pgConnected p.1 = true ∧ (p.1.node? p.2).isSome = true := by
  decide

/-- `c01_c02_pg_single_holds` on `exPG_built` and the path host `gPath`, for the path pattern
(id 1): the check `pgProgramOK` (third component of `exPG_built`) is NOT used. -/
example : ∀ m, (∃ m', (1, m') ∈ [((0 : Nat), ([(.root 0, 0), (k1, 1)] : PGMap)),
      (0, [(.root 0, 1), (k1, 2)]), (1, [(.root 0, 0), (k1, 1), (k2, 2)])] ∧ MapEqv m' m) ↔
    ∃ φ, embedsPG gPath gPath φ = true ∧ BindingOf gPath 0 φ m := by
  obtain ⟨M, hb, _, _, hf⟩ := exPG_built
  exact c01_c02_pg_single_holds _ _ _ _ _ M _ _ exPG_patterns_ok.1 exPG_patterns_ok.2 hb hf 1
    gPath 0 csPath (by decide) (by decide) (by decide) (by decide) (by decide) (by decide)

/-- `c01_pg_single_holds`: its reported binding comes from an embedding, … -/
example : ∃ φ, embedsPG gPath gPath φ = true ∧
    BindingOf gPath 0 φ [(.root 0, 0), (k1, 1), (k2, 2)] := by
  obtain ⟨M, hb, _, _, hf⟩ := exPG_built
  exact (c01_pg_single_holds _ _ _ _ _ M _ _ exPG_patterns_ok.1 exPG_patterns_ok.2 hb hf 1 gPath 0
    csPath (by decide) (by decide) (by decide) (by decide) (by decide) (by decide) _
    (by decide)).1

/-- … `c11_many_pg_self_holds`: the identity embedding is reported (the host is the pattern), … -/
example : ∃ m, (1, m) ∈ [((0 : Nat), ([(.root 0, 0), (k1, 1)] : PGMap)),
      (0, [(.root 0, 1), (k1, 2)]), (1, [(.root 0, 0), (k1, 1), (k2, 2)])] ∧
    BindingOf gPath 0 (gPath.nodesIter.map fun n => (n, n)) m ∧ alGet m (.root 0) = some 0 := by
  obtain ⟨M, hb, _, _, hf⟩ := exPG_built
  exact c11_many_pg_self_holds _ _ _ _ _ M _ exPG_patterns_ok.1 exPG_patterns_ok.2 1 gPath 0
    csPath (by decide) (by decide) (by decide) (by decide) hb hf

/-- … `c02_pg_single_rootImages_holds`: the edge pattern (id 0) is reported at both of its root
images, … -/
example : pgRootImages exPGEdge gPath 0 = [0, 1] ∧
    ∀ r ∈ pgRootImages exPGEdge gPath 0, ∃ m, (0, m) ∈ [((0 : Nat), ([(.root 0, 0), (k1, 1)] : PGMap)),
      (0, [(.root 0, 1), (k1, 2)]), (1, [(.root 0, 0), (k1, 1), (k2, 2)])] ∧
      alGet m (.root 0) = some r := by
  obtain ⟨M, hb, _, _, hf⟩ := exPG_built
  exact ⟨by decide, c02_pg_single_rootImages_holds _ _ _ _ _ M _ _ exPG_patterns_ok.1
    exPG_patterns_ok.2 hb hf 0 exPGEdge 0 ((pgConstraints exPGEdge 0).getD []) (by decide)
    (by decide) (by decide) (by decide)⟩

/-- … `c03_pg_all_holds`: the naive matcher on the same two patterns reports the same set. -/
example : ∀ i m, (∃ m', (i, m') ∈ [((0 : Nat), ([(.root 0, 0), (k1, 1)] : PGMap)),
      (0, [(.root 0, 1), (k1, 2)]), (1, [(.root 0, 0), (k1, 1), (k2, 2)])] ∧ MapEqv m' m) ↔
    (∃ m', (i, m') ∈ [((0 : Nat), ([(.root 0, 0), (k1, 1)] : PGMap)),
      (0, [(.root 0, 1), (k1, 2)]), (1, [(.root 0, 0), (k1, 1), (k2, 2)])] ∧ MapEqv m' m) := by
  obtain ⟨M, hb, _, _, hf⟩ := exPG_built
  exact c03_pg_all_holds exPGPatterns [(pgConstraints exPGEdge 0).getD [], csPath] (by decide) _ _
    _ _ 30 M gPath _ _ exPG_patterns_ok.1 exPG_patterns_ok.2 hb hf (by rfl)

/-- The FINAL statements on the same build and run. `c01_pg_holds`: each of the three reported
matches is induced by an embedding of the pattern whose id it carries; … -/
example : ∀ i m, (i, m) ∈ [((0 : Nat), ([(.root 0, 0), (k1, 1)] : PGMap)),
      (0, [(.root 0, 1), (k1, 2)]), (1, [(.root 0, 0), (k1, 1), (k2, 2)])] →
    ∃ g root φ, exPGPatterns[i]? = some (g, root) ∧ embedsPG g gPath φ = true ∧
      BindingOf g root φ m ∧ alGet m (.root 0) = alGet φ root ∧ (m.map (·.1)).Nodup := by
  obtain ⟨M, hb, _, _, hf⟩ := exPG_built
  exact c01_pg_holds _ _ _ _ _ M _ _ exPG_patterns_wf exPG_patterns_ok.1 (by decide) hb hf

/-- … `c02_pg_holds`: the embedding `0 ↦ 1, 1 ↦ 2` of the edge pattern (id 0) into the path is
reported, with root image 1; … -/
example : ∃ m r, (0, m) ∈ [((0 : Nat), ([(.root 0, 0), (k1, 1)] : PGMap)),
      (0, [(.root 0, 1), (k1, 2)]), (1, [(.root 0, 0), (k1, 1), (k2, 2)])] ∧
    BindingOf exPGEdge 0 [(0, 1), (1, 2)] m ∧ alGet [(0, 1), (1, 2)] 0 = some r ∧
    alGet m (.root 0) = some r := by
  obtain ⟨M, hb, _, _, hf⟩ := exPG_built
  exact c02_pg_holds _ _ _ _ _ M _ _ exPG_patterns_wf exPG_patterns_ok.1 (by decide) hb hf 0
    exPGEdge 0 (by decide) [(0, 1), (1, 2)] (by decide)

/-- … and `c01_c02_pg_holds` for all ids and bindings (id 2 is no pattern: nothing is reported
with it). -/
example : ∀ i m, (∃ m', (i, m') ∈ [((0 : Nat), ([(.root 0, 0), (k1, 1)] : PGMap)),
      (0, [(.root 0, 1), (k1, 2)]), (1, [(.root 0, 0), (k1, 1), (k2, 2)])] ∧ MapEqv m' m) ↔
    ∃ g root φ, exPGPatterns[i]? = some (g, root) ∧ embedsPG g gPath φ = true ∧
      BindingOf g root φ m := by
  obtain ⟨M, hb, _, _, hf⟩ := exPG_built
  exact c01_c02_pg_holds _ _ _ _ _ M _ _ exPG_patterns_wf exPG_patterns_ok.1 (by decide) hb hf

end Pm
