/-
Props/TBuildLStrT.lean — the string corollaries of `Props/TBuildLStr.lean` WITHOUT the per-program
check `strProgramOK`, for the disciplined lenient build `buildTL` (the Rust loop): every automaton
`buildTL` returns satisfies `Anch.StateOK` in every live state (`c08_str_run_TL`, from
`C08.strProg_builtWith`), which is all the anchored traversal theorem needs (`trun_str_stateOK`).
Namespace `Pm.TBL`.

* `str_run_sound_of_acc'`, `str_run_of_acc'`: `str_run_sound_of_acc` / `str_run_of_acc` with
  `strProgramOK A ps = true` replaced by "every live state satisfies `Anch.StateOK`".
* `c01_string_lenientT` — **C01 for EVERY `buildTL` build, no check at all**.
* `c01_c02_string_lenient_checked'` — exact occurrences for every `buildTL` build with `accOK`.
* `c01_c02_string_lenient_guardE'` — the same for every `buildTL` log passing `guardE_ok`.

For the undisciplined `buildL` (ANY log) `StateOK` is not available (the invariant `SP` of
`Proofs/StrProg*.lean` is carried by the disciplined main loop only), so
`c01_string_lenient` / `c01_c02_string_lenient_checked` keep `strProgramOK` there.
-/
import PmVerif.Props.TBuildLStr
import PmVerif.Props.C01Str
import PmVerif.Props.C08
namespace Pm
namespace TBL
open Automaton

/-- Every automaton returned by the disciplined lenient string build is an OK program. -/
theorem strTL_stateOK (ps : List (List CharVar)) (evs : List Ev) (fuel : Nat)
    (inputs : List (Nat × List StrCons × List Nat)) (A : Automaton Nat CharPred)
    (hi : strInputs ps = some inputs)
    (hb : buildTL (charTree natLt) strReq fuel inputs evs = .ok A) :
    ∀ s w, A.g.weight? s = some w → Pm.Anch.StateOK A ps s w :=
  (c08_str_run_TL ps evs fuel inputs A hi hb [] 0).1

/-- The key list recorded for pattern `i` anywhere in a string program all of whose live states
are OK. -/
theorem str_recorded' {A : Automaton Nat CharPred} {ps : List (List CharVar)}
    (hok : ∀ s w, A.g.weight? s = some w → Pm.Anch.StateOK A ps s w)
    {σ : StrCons → Bool} {s i : Nat} {ks : List Nat}
    (hacc : AccDetK σ A s i ks) : ∃ s' w', A.g.weight? s' = some w' ∧
      (i, ks) ∈ w'.matches_ ∧ (s' = A.root ∨ ks ≠ []) ∧
      ∃ p, ps[i]? = some p ∧ ks = strPatternKeys p := by
  obtain ⟨s', w', hw', hmem⟩ := Anch.accDetK_recorded hacc
  obtain ⟨_, hroot, hp⟩ := (hok _ _ hw').matches_ i ks hmem
  exact ⟨s', w', hw', hmem, hroot, hp⟩

/-- Soundness of the traversal from soundness of acceptance, from `StateOK`. -/
theorem str_run_sound_of_acc' (A : Automaton Nat CharPred) (ps : List (List CharVar))
    (h : List Nat) (fuel : Nat) (ms : List (Match StrPos)) (seen : List (Nat × List (Option Nat)))
    (hok : ∀ s w, A.g.weight? s = some w → Pm.Anch.StateOK A ps s w)
    (hr : run strDomain A h fuel = .ok (ms, seen))
    (hsound : ∀ (σ : StrCons → Bool) i, AccDet σ A A.root i →
      ∃ p, ps[i]? = some p ∧ ∀ c ∈ strConstraints p, σ c = true)
    (i : Nat) (m : StrPos) (hm : (i, m) ∈ ms) :
    ∃ p, ps[i]? = some p ∧
      ((p = [] ∧ m = .unbound) ∨
       (p ≠ [] ∧ ∃ a, occursStr p h a = true ∧ m = .bound a p.length)) := by
  rw [trun_str_stateOK A ps h fuel ms seen hok hr] at hm
  rcases hm with ⟨rfl, w, hw, hmem⟩ | ⟨a, ks, ha, hne, hacc, hbnd, rfl⟩
  · obtain ⟨_, _, p, hps, hks⟩ := (hok _ _ hw).matches_ i [] hmem
    refine ⟨p, hps, .inl ⟨?_, rfl⟩⟩
    by_cases hp : p = []
    · exact hp
    · exact absurd hks.symm (Anch.strPatternKeys_ne p hp)
  · obtain ⟨_, _, _, _, _, p, hps, hks⟩ := str_recorded' hok hacc
    have hp : p ≠ [] := by
      rintro rfl
      exact hne (hks.trans Anch.strPatternKeys_nil)
    obtain ⟨p', hps', hall⟩ := hsound (strSigma h a) i (Anch.accDet_of_accDetK hacc)
    rw [hps] at hps'
    cases hps'
    refine ⟨p, hps, .inr ⟨hp, a, (Anch.sigma_iff_occurs p h a).mp hall, ?_⟩⟩
    rw [hks, Anch.strPatternKeys_extent p hp]

/-- The traversal reports exactly the occurrences as soon as acceptance is exact, from
`StateOK`. -/
theorem str_run_of_acc' (A : Automaton Nat CharPred) (ps : List (List CharVar))
    (h : List Nat) (fuel : Nat) (ms : List (Match StrPos)) (seen : List (Nat × List (Option Nat)))
    (hok : ∀ s w, A.g.weight? s = some w → Pm.Anch.StateOK A ps s w)
    (hr : run strDomain A h fuel = .ok (ms, seen))
    (hacc : ∀ (σ : StrCons → Bool) i, AccDet σ A A.root i ↔
      ∃ p, ps[i]? = some p ∧ ∀ c ∈ strConstraints p, σ c = true)
    (i : Nat) (m : StrPos) :
    (i, m) ∈ ms ↔ ∃ p, ps[i]? = some p ∧
      ((p = [] ∧ m = .unbound) ∨
       (p ≠ [] ∧ ∃ a, occursStr p h a = true ∧ m = .bound a p.length)) := by
  constructor
  · exact str_run_sound_of_acc' A ps h fuel ms seen hok hr (fun σ i => (hacc σ i).1) i m
  · rw [trun_str_stateOK A ps h fuel ms seen hok hr]
    rintro ⟨p, hps, ⟨rfl, rfl⟩ | ⟨hp, a, ho, rfl⟩⟩
    · left
      have hA : AccDet (strSigma h 0) A A.root i :=
        (hacc (strSigma h 0) i).mpr
          ⟨[], hps, fun c hc => by
            have he : strConstraints [] = [] := by decide
            rw [he] at hc
            cases hc⟩
      obtain ⟨ks, hK⟩ := Anch.accDetK_of_accDet hA
      obtain ⟨s', w', hw', hmem, hroot, p', hps', hks⟩ := str_recorded' hok hK
      rw [hps] at hps'
      cases hps'
      rw [Anch.strPatternKeys_nil] at hks
      subst hks
      have hs : s' = A.root := by
        rcases hroot with h | h
        · exact h
        · exact absurd rfl h
      subst hs
      exact ⟨rfl, w', hw', hmem⟩
    · right
      have hshort := tdom_str_sat_short p h a ho hp
      have hlen := Anch.length_le_byteLen h
      have hpos : 0 < p.length := List.length_pos_iff.mpr hp
      have hA : AccDet (strSigma h a) A A.root i :=
        (hacc (strSigma h a) i).mpr ⟨p, hps, (Anch.sigma_iff_occurs p h a).mpr ho⟩
      obtain ⟨ks, hK⟩ := Anch.accDetK_of_accDet hA
      obtain ⟨_, _, _, _, _, p', hps', hks⟩ := str_recorded' hok hK
      rw [hps] at hps'
      cases hps'
      subst hks
      refine ⟨a, _, by omega, Anch.strPatternKeys_ne p hp, hK, ?_, ?_⟩
      · intro k hk
        have := Anch.strPatternKeys_lt p k hk
        omega
      · rw [Anch.strPatternKeys_extent p hp]

/-! ### the end-to-end statements, no per-program check -/

/-- **C01 for EVERY build of the Rust loop, strings, no check at all**: whatever the log
`buildTL` accepts (in particular every real build that trips the `make_det` guard), every match
`find_matches` reports on any host is an occurrence of the pattern with that id. -/
theorem c01_string_lenientT (ps : List (List CharVar)) (evs : List Ev) (fuel fuel' : Nat)
    (inputs : List (Nat × List StrCons × List Nat)) (A : Automaton Nat CharPred)
    (h : List Nat) (ms : List (Match StrPos)) (seen : List (Nat × List (Option Nat)))
    (hi : strInputs ps = some inputs)
    (hb : buildTL (charTree natLt) strReq fuel inputs evs = .ok A)
    (hr : run strDomain A h fuel' = .ok (ms, seen))
    (i : Nat) (m : StrPos) (hm : (i, m) ∈ ms) :
    ∃ p, ps[i]? = some p ∧
      ((p = [] ∧ m = .unbound) ∨
       (p ≠ [] ∧ ∃ a, occursStr p h a = true ∧ m = .bound a p.length)) :=
  str_run_sound_of_acc' A ps h fuel' ms seen (strTL_stateOK ps evs fuel inputs A hi hb) hr
    (fun σ i => strL_acc_sound ps evs fuel inputs A hi (C08.buildTL_imp_buildL hb) σ i) i m hm

/-- **C01 + C02 per build of the Rust loop, strings**: `accOK A` alone (no `strProgramOK`). -/
theorem c01_c02_string_lenient_checked' (ps : List (List CharVar)) (evs : List Ev)
    (fuel fuel' : Nat) (inputs : List (Nat × List StrCons × List Nat))
    (A : Automaton Nat CharPred) (h : List Nat) (ms : List (Match StrPos))
    (seen : List (Nat × List (Option Nat)))
    (hi : strInputs ps = some inputs)
    (hb : buildTL (charTree natLt) strReq fuel inputs evs = .ok A)
    (hc : accOK A = true)
    (hr : run strDomain A h fuel' = .ok (ms, seen)) (i : Nat) (m : StrPos) :
    (i, m) ∈ ms ↔ ∃ p, ps[i]? = some p ∧
      ((p = [] ∧ m = .unbound) ∨
       (p ≠ [] ∧ ∃ a, occursStr p h a = true ∧ m = .bound a p.length)) :=
  str_run_of_acc' A ps h fuel' ms seen (strTL_stateOK ps evs fuel inputs A hi hb) hr
    (fun σ i => strL_acc_checked ps evs fuel inputs A hi (C08.buildTL_imp_buildL hb) hc σ i) i m

/-- **C01 + C02 for every log of the Rust loop passing `guardE_ok`, strings** (no
`strProgramOK`). -/
theorem c01_c02_string_lenient_guardE' (ps : List (List CharVar)) (evs : List Ev)
    (fuel fuel' : Nat) (inputs : List (Nat × List StrCons × List Nat))
    (A : Automaton Nat CharPred) (h : List Nat) (ms : List (Match StrPos))
    (seen : List (Nat × List (Option Nat)))
    (hi : strInputs ps = some inputs)
    (hb : buildTL (charTree natLt) strReq fuel inputs evs = .ok A)
    (hg : guardE_ok (charTree natLt) strReq fuel inputs evs = true)
    (hr : run strDomain A h fuel' = .ok (ms, seen)) (i : Nat) (m : StrPos) :
    (i, m) ∈ ms ↔ ∃ p, ps[i]? = some p ∧
      ((p = [] ∧ m = .unbound) ∨
       (p ≠ [] ∧ ∃ a, occursStr p h a = true ∧ m = .bound a p.length)) :=
  str_run_of_acc' A ps h fuel' ms seen (strTL_stateOK ps evs fuel inputs A hi hb) hr
    (fun σ i => strTL_acc_guardE ps evs fuel inputs A hi hb hg σ i) i m

/-- Non-vacuity: both theorems apply to the guard-tripping log `TBL.Ex` (`guarded_build_rejects`,
`strict_build_rejects`): whenever the traversal of its automaton returns, it returns exactly the
occurrences. -/
theorem Ex.exact (h : List Nat) (fuel' : Nat) (ms : List (Match StrPos))
    (seen : List (Nat × List (Option Nat))) :
    ∃ A, buildTL (charTree natLt) strReq 100 Ex.inputs Ex.evs = .ok A ∧
      (run strDomain A h fuel' = .ok (ms, seen) → ∀ i m,
        ((i, m) ∈ ms ↔ ∃ p, Ex.pats[i]? = some p ∧
          ((p = [] ∧ m = .unbound) ∨
           (p ≠ [] ∧ ∃ a, occursStr p h a = true ∧ m = .bound a p.length)))) := by
  obtain ⟨hi, A, hb, _, _⟩ := Ex.all_checks
  exact ⟨A, hb, fun hr i m =>
    c01_c02_string_lenient_guardE' Ex.pats Ex.evs 100 fuel' Ex.inputs A h ms seen hi hb
      Ex.guardE_holds hr i m⟩

end TBL
end Pm
