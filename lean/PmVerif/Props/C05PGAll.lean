/-
Props/C05PGAll.lean — property C05 (the BASELINE matcher `SinglePatternMatcher` /
`NaiveManyMatcher`), soundness for port graphs and ALL rooted patterns — multi-root included.
The counterpart, for `singleMatches` / `naiveMatches`, of `c01_pg_all_sound` / `c01_pg_all_holds`
(`Props/C01Gen.lean`, the automaton matcher); `Props/C01PG.lean` (`c05_pg_exact`, `c05_pg_sound`,
`c05_naive_pg`) covers single-root patterns only (hypothesis `pgSigMultiRoot cs = false`).

* `c05_pg_all_sound`       every output of `constraint_vec` (any number of roots), every host, every
                           fuel: a reported binding satisfies EVERY constraint by direct evaluation,
                           binds EXACTLY the requested keys — the keys of the constraints and their
                           transitive prerequisites (`Needed pgReq []`, C12) —, and binds `root 0`
                           to a live host node;
* `c05_pg_all_holds`       … and for a well-formed CONNECTED pattern with a live root and a
                           well-formed host the node map `φ : n ↦ m (key n)` is an EMBEDDING, `m`
                           binds the key of every node to its image, `φ root = m (root 0)`;
* `c05_naive_pg_all_holds` the same for `naiveMatches` on a list of patterns (ids are positions);
* non-vacuity on the multi-root tee pattern `gTee` (one reported match: the identity embedding),
  on the F3b witness `f3bG` (missed on itself — `f3b_witness_missed` — but matched on itself plus
  one link, with a secondary root that is NOT the image of the pattern's), and on a naive run of
  both patterns on one host.

The proofs compose the generic theorems T-SINGLE (`Props/TRun.lean`: `tsingle_mem`,
`tsingle_sound`, `tnaive_ids`) with the map laws of the association-list map and the
arbitrary-valuation soundness of the port-graph domain (`Proofs/C01GenPGEmb.lean`:
`sound_connectedV`); helpers in `Proofs/C05PGAll.lean`.

Not covered: completeness (it FAILS for multi-root patterns: `Props/F3b.lean`) and multiplicities.
-/
import PmVerif.Proofs.C05PGAll
import PmVerif.Props.C01Gen
namespace Pm
open C01G C05A

/-- **C05, binding level, port graphs — every rooted pattern, multi-root included.** For every
output `cs` of `constraint_vec`, every host and every fuel: a binding `m` reported by the baseline
(a) satisfies every constraint of `cs` by direct evaluation; (b) binds exactly the requested keys,
which are exactly the keys of the constraints and their transitive prerequisites, and in
particular contain every key of every constraint; (c) binds `root 0` to a live host node. -/
theorem c05_pg_all_sound (g : PortGraph) (root : Nat) (cs : List PGCons) (h : PortGraph)
    (fuel : Nat) (out : List PGMap) (hcs : pgConstraints g root = some cs)
    (hs : singleMatches pgDomain cs h fuel = .ok out) (m : PGMap) (hm : m ∈ out) :
    (∀ c ∈ cs, satOrFalse alGet (fun p g vs => pgCheck p g vs) c h m = some true) ∧
    (∃ requested, requestedBindings pgDomain cs fuel = some requested ∧
      (∀ k, k ∈ requested ↔ Needed pgReq [] (cs.flatMap (·.args)) k) ∧
      (∀ c ∈ cs, ∀ k ∈ c.args, k ∈ requested) ∧
      ∀ k, (alGet m k).isSome = true ↔ k ∈ requested) ∧
    ∃ r, alGet m (.root 0) = some r ∧ (h.node? r).isSome = true := by
  obtain ⟨requested, hq⟩ := requested_of_ok hs
  obtain ⟨spec, hsub⟩ := requested_spec (D := pgDomain) pgReq_rankAcyclic hq
  obtain ⟨hsat, hbound, m₀, _, hret⟩ := single_sound (pg_lawful h) hs hq hsub hm
  refine ⟨hsat, ⟨requested, hq, spec.exact, hsub, fun k => ⟨fun hk => ?_, hbound k⟩⟩, ?_⟩
  · have : m = alRetain m₀ requested := (Option.some.inj hret).symm
    subst this
    rw [c14_generic_retain] at hk
    split at hk
    · assumption
    · cases hk
  · obtain ⟨c0, hc0, hk0⟩ := root0_in_constraints hcs
    obtain ⟨r, hr⟩ := Option.isSome_iff_exists.1 (hbound _ (hsub c0 hc0 _ hk0))
    exact ⟨r, hr, pg_single_root0_live hs hm hr⟩

/-- **C05 for port graphs, every connected rooted pattern — multi-root included: every match
reported by the baseline is an embedding.** If moreover pattern and host are well-formed, the
pattern is connected and its root is live, then the node map `φ : n ↦ m (key n)` induced by a
reported binding `m` is an embedding of `g` into the host (total on the live nodes, injective,
into live host nodes, preserving every link with its two port offsets), `m` binds the key of
every node to its image, and `φ root = m (root 0)`. (`c05_pg_sound` of `Props/C01PG.lean` has this
for single-root patterns only.) -/
theorem c05_pg_all_holds (g : PortGraph) (root : Nat) (cs : List PGCons) (h : PortGraph)
    (fuel : Nat) (out : List PGMap) (hcs : pgConstraints g root = some cs)
    (hs : singleMatches pgDomain cs h fuel = .ok out) (hh : h.LinksOK) (hg : g.LinksOK)
    (hconn : pgConnected g = true) (hroot : (g.node? root).isSome = true)
    (m : PGMap) (hm : m ∈ out) :
    embedsPG g h (phiV (alGet m) g root) = true ∧
    (∀ nk ∈ pgNodeKeys g root, alGet m nk.2 = alGet (phiV (alGet m) g root) nk.1) ∧
    alGet (phiV (alGet m) g root) root = alGet m (.root 0) := by
  obtain ⟨hsat, _, r, hr, hlive⟩ := c05_pg_all_sound g root cs h fuel out hcs hs m hm
  have hsatV : ∀ c ∈ cs, SatV h (alGet m) c := fun c hc =>
    (sat_iff_vals alGet (fun p g vs => pgCheck p g vs) c h m).1 (hsat c hc)
  obtain ⟨hemb, hroot'⟩ := sound_connectedV h (alGet m) g root cs hh r hr hlive hcs
    (tdom_pg_cover g root hg hconn hroot) hsatV
  refine ⟨hemb, fun nk hnk => ?_, by rw [hroot', hr]⟩
  obtain ⟨v, hv1, hv2⟩ :=
    (sound_coreV h (alGet m) g root cs hh (by rw [hr]; rfl) hcs hsatV).1 nk hnk
  rw [hv1, hv2]

/-- **… for `NaiveManyMatcher`** on a list of patterns (no hypothesis on the OTHER patterns of the
list): a reported `(i, m)` is a binding for the `i`-th pattern `(g, root)` reported by the baseline
on its constraint vector, with all the conclusions of `c05_pg_all_sound`; and if `g` is
well-formed and connected with a live root and the host is well-formed, those of
`c05_pg_all_holds`. -/
theorem c05_naive_pg_all_holds (pats : List (PortGraph × Nat)) (css : List (List PGCons))
    (hcss : pats.map (fun p => pgConstraints p.1 p.2) = css.map some)
    (h : PortGraph) (fuel : Nat) (ns : List (Match PGMap))
    (hn : naiveMatches pgDomain h fuel css 0 = .ok ns) (i : Nat) (m : PGMap) (hm : (i, m) ∈ ns) :
    ∃ g root cs out, pats[i]? = some (g, root) ∧ pgConstraints g root = some cs ∧
      css[i]? = some cs ∧ singleMatches pgDomain cs h fuel = .ok out ∧ m ∈ out ∧
      (∀ c ∈ cs, satOrFalse alGet (fun p g vs => pgCheck p g vs) c h m = some true) ∧
      (∃ requested, requestedBindings pgDomain cs fuel = some requested ∧
        (∀ k, k ∈ requested ↔ Needed pgReq [] (cs.flatMap (·.args)) k) ∧
        (∀ c ∈ cs, ∀ k ∈ c.args, k ∈ requested) ∧
        ∀ k, (alGet m k).isSome = true ↔ k ∈ requested) ∧
      (∃ r, alGet m (.root 0) = some r ∧ (h.node? r).isSome = true) ∧
      (h.LinksOK → g.LinksOK → pgConnected g = true → (g.node? root).isSome = true →
        embedsPG g h (phiV (alGet m) g root) = true ∧
        (∀ nk ∈ pgNodeKeys g root, alGet m nk.2 = alGet (phiV (alGet m) g root) nk.1) ∧
        alGet (phiV (alGet m) g root) root = alGet m (.root 0)) := by
  obtain ⟨cs, hci, _, out, hs, hmo⟩ := (tnaive_ids hn).1 i m hm
  rw [Nat.sub_zero] at hci
  have hpi : (pats[i]?).map (fun p => pgConstraints p.1 p.2) = some (some cs) := by
    have := congrArg (fun l => l[i]?) hcss
    simpa only [List.getElem?_map, hci, Option.map_some] using this
  cases hp : pats[i]? with
  | none => rw [hp] at hpi; cases hpi
  | some p =>
    rw [hp] at hpi
    have hcs : pgConstraints p.1 p.2 = some cs := Option.some.inj hpi
    obtain ⟨h1, h2, h3⟩ := c05_pg_all_sound p.1 p.2 cs h fuel out hcs hs m hmo
    exact ⟨p.1, p.2, cs, out, rfl, hcs, hci, hs, hmo, h1, h2, h3, fun hh hg hconn hroot =>
      c05_pg_all_holds p.1 p.2 cs h fuel out hcs hs hh hg hconn hroot m hmo⟩

/-- Every match of the pattern at position `k` is reported by `NaiveManyMatcher` with id `k`
(so the statement above is about all of them). -/
theorem c05_naive_pg_all_ids (css : List (List PGCons)) (h : PortGraph) (fuel : Nat)
    (ns : List (Match PGMap)) (hn : naiveMatches pgDomain h fuel css 0 = .ok ns)
    (k : Nat) (cs : List PGCons) (hk : css[k]? = some cs) :
    ∃ out, singleMatches pgDomain cs h fuel = .ok out ∧ ∀ m ∈ out, (k, m) ∈ ns := by
  obtain ⟨out, hs, hall⟩ := (tnaive_ids hn).2 k cs hk
  exact ⟨out, hs, fun m hm => by simpa using hall m hm⟩

/-! ### Non-vacuity -/

namespace C05AllEx
open PGDom.Ex C01GenEx

/-- `constraint_vec` of the tee `0 → 1 → {2, 3}` rooted at `0` (six constraints, two roots). -/
def teeCs : List PGCons := (pgConstraints gTee 0).getD []

/-- `constraint_vec` of the F3b witness rooted at `3` (six constraints, two roots). -/
def f3bCs : List PGCons := (pgConstraints f3bG 3).getD []

/-- The F3b witness plus the link `2.out1 → 1.in1`: `find_root_candidates` proposes node `1` (the
first node with a free port on the line from the root) as secondary root, and now the walk from its
port `in1` reaches node `2`. -/
def f3bHost : PortGraph :=
  ⟨f3bG.nodes, f3bG.links ++ [((2, ⟨.out, 1⟩), (1, ⟨.inc, 1⟩))]⟩

/-- The binding reported for the F3b witness on `f3bHost`. It binds `root 1` to host node `1`,
although the pattern's own second line starts at node `0` (`root 1` occurs in no constraint). -/
def mmF3b : PGMap :=
  [(.root 0, 3), (.along 0 ⟨.out, 0⟩ 1, 1), (.along 0 ⟨.out, 0⟩ 2, 0), (.root 1, 1),
   (.along 1 ⟨.inc, 1⟩ 1, 2)]

/-- Disjoint union of the tee (nodes `0–3`) and `f3bHost` (nodes `4–7`). -/
def hostU : PortGraph :=
  ⟨[some ⟨0, 1⟩, some ⟨1, 2⟩, some ⟨1, 0⟩, some ⟨1, 0⟩,
    some ⟨2, 0⟩, some ⟨2, 1⟩, some ⟨1, 2⟩, some ⟨0, 2⟩],
   [((0, ⟨.out, 0⟩), (1, ⟨.inc, 0⟩)), ((1, ⟨.out, 0⟩), (2, ⟨.inc, 0⟩)),
    ((1, ⟨.out, 1⟩), (3, ⟨.inc, 0⟩)),
    ((5, ⟨.out, 0⟩), (4, ⟨.inc, 0⟩)), ((6, ⟨.out, 0⟩), (4, ⟨.inc, 1⟩)),
    ((7, ⟨.out, 0⟩), (5, ⟨.inc, 0⟩)), ((6, ⟨.out, 1⟩), (5, ⟨.inc, 1⟩))]⟩

def mmF3bU : PGMap :=
  [(.root 0, 7), (.along 0 ⟨.out, 0⟩ 1, 5), (.along 0 ⟨.out, 0⟩ 2, 4), (.root 1, 5),
   (.along 1 ⟨.inc, 1⟩ 1, 6)]

/-- Both vectors are outputs of `constraint_vec` with the multi-root signature. -/
theorem vectors :
    pgConstraints gTee 0 = some teeCs ∧ pgSigMultiRoot teeCs = true ∧ teeCs.length = 6 ∧
    pgConstraints f3bG 3 = some f3bCs ∧ pgSigMultiRoot f3bCs = true ∧ f3bCs.length = 6 := by
  decide

/-- The baseline runs: one match of the tee on itself; the F3b witness is missed on itself and
matched once on `f3bHost`; the naive matcher on `hostU` reports one match per pattern. -/
theorem runs :
    singleMatches pgDomain teeCs gTee 64 = .ok [mmTee] ∧
    singleMatches pgDomain f3bCs f3bG 64 = .ok [] ∧
    singleMatches pgDomain f3bCs f3bHost 64 = .ok [mmF3b] ∧
    naiveMatches pgDomain hostU 64 [teeCs, f3bCs] 0 = .ok [(0, mmTee), (1, mmF3bU)] :=
  ⟨by rfl, by rfl, by rfl, by rfl⟩

end C05AllEx

open C05AllEx PGDom.Ex C01GenEx in
/-- The hypotheses of `c05_pg_all_sound` / `c05_pg_all_holds` are jointly satisfiable on a
multi-root pattern with a reported match, and the conclusion is the expected one: the binding
reported for the tee on itself satisfies the six constraints of the vector, binds exactly the five
requested keys (the secondary root `root 1` among them), and induces the identity embedding. -/
example :
    (∀ c ∈ teeCs, satOrFalse alGet (fun p g vs => pgCheck p g vs) c gTee mmTee = some true) ∧
    (∀ k, (alGet mmTee k).isSome = true ↔
      k ∈ [.root 0, .along 0 ⟨.out, 0⟩ 1, .along 0 ⟨.out, 0⟩ 2, .root 1, .along 1 ⟨.out, 1⟩ 1]) ∧
    embedsPG gTee gTee (phiV (alGet mmTee) gTee 0) = true ∧
    phiV (alGet mmTee) gTee 0 = [(0, 0), (1, 1), (2, 2), (3, 3)] := by
  obtain ⟨hcs, _⟩ := vectors
  obtain ⟨hs, _⟩ := runs
  obtain ⟨h1, ⟨requested, hq, _, _, h2⟩, _⟩ :=
    c05_pg_all_sound gTee 0 teeCs gTee 64 _ hcs hs mmTee List.mem_cons_self
  have hreq : requestedBindings pgDomain teeCs 64 = some [.root 0, .along 0 ⟨.out, 0⟩ 1,
      .along 0 ⟨.out, 0⟩ 2, .root 1, .along 1 ⟨.out, 1⟩ 1] := by decide
  rw [hreq] at hq
  cases hq
  exact ⟨h1, h2, (c05_pg_all_holds gTee 0 teeCs gTee 64 _ hcs hs (by decide) (by decide)
    (by decide) (by decide) mmTee List.mem_cons_self).1, by decide⟩

open C05AllEx in
/-- … and on the F3b witness, matched on `f3bHost`: the reported binding induces the identity
embedding although it binds `root 1` to host node `1`, which is not the image of the start node
`0` of the pattern's second line. -/
example :
    (∀ c ∈ f3bCs, satOrFalse alGet (fun p g vs => pgCheck p g vs) c f3bHost mmF3b = some true) ∧
    embedsPG f3bG f3bHost (phiV (alGet mmF3b) f3bG 3) = true ∧
    phiV (alGet mmF3b) f3bG 3 = [(3, 3), (1, 1), (0, 0), (2, 2)] ∧
    alGet mmF3b (.root 1) = some 1 ∧ alGet (phiV (alGet mmF3b) f3bG 3) 0 = some 0 := by
  obtain ⟨_, _, _, hcs, _⟩ := vectors
  obtain ⟨_, _, hs, _⟩ := runs
  exact ⟨(c05_pg_all_sound f3bG 3 f3bCs f3bHost 64 _ hcs hs mmF3b List.mem_cons_self).1,
    (c05_pg_all_holds f3bG 3 f3bCs f3bHost 64 _ hcs hs (by decide) (by decide) (by decide)
      (by decide) mmF3b List.mem_cons_self).1, by decide, by decide, by decide⟩

open C05AllEx PGDom.Ex C01GenEx in
/-- `c05_naive_pg_all_holds` on a run of both multi-root patterns on one host: each of the two
reported matches is an embedding of the pattern at the position given by its id. -/
example : ∀ i m, (i, m) ∈ [(0, mmTee), (1, mmF3bU)] →
    ∃ g root, [(gTee, 0), (f3bG, 3)][i]? = some (g, root) ∧
      embedsPG g hostU (phiV (alGet m) g root) = true ∧
      alGet (phiV (alGet m) g root) root = alGet m (.root 0) := by
  obtain ⟨hc1, _, _, hc2, _⟩ := vectors
  obtain ⟨_, _, _, hn⟩ := runs
  intro i m hm
  obtain ⟨g, root, cs, out, hp, _, _, _, _, _, _, _, hemb⟩ :=
    c05_naive_pg_all_holds [(gTee, 0), (f3bG, 3)] [teeCs, f3bCs] (by simp [hc1, hc2]) hostU 64 _ hn
      i m hm
  have hg : g.LinksOK ∧ pgConnected g = true ∧ (g.node? root).isSome = true := by
    rcases List.mem_cons.1 hm with e | hm
    · cases e; cases hp; decide
    · rcases List.mem_cons.1 hm with e | hm
      · cases e; cases hp; decide
      · cases hm
  obtain ⟨e1, _, e3⟩ := hemb (by decide) hg.1 hg.2.1 hg.2.2
  exact ⟨g, root, hp, e1, e3⟩

/-- The conclusion is not trivially true: the tee's vector on a binding that sends two pattern
nodes to the same host node is violated. -/
example : ¬ ∀ c ∈ C05AllEx.teeCs, satOrFalse alGet (fun p g vs => pgCheck p g vs) c PGDom.Ex.gTee
    [(.root 0, 0), (.along 0 ⟨.out, 0⟩ 1, 1), (.along 0 ⟨.out, 0⟩ 2, 1), (.root 1, 1),
     (.along 1 ⟨.out, 1⟩ 1, 3)] = some true := by
  decide

end Pm
