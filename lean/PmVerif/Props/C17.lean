/-
Props/C17.lean — what a theorem CAN say about reproducibility (C17).

The property speaks about two runs of the real code, in the same or in different processes. Inside
the model a build is a function of (patterns, heuristic answers, event log), where the event log is
the sequence of hash-iteration-order choices the Rust loop made (DESIGN §3.2). Two statements are
proved here; what is left to the cross-process run is named exactly.

(1) `c17_*_same_log`: the automaton and the exact list of matches (order included) are a function
    of the patterns, the log and the host. This is functionality of the model — its content comes
    from the exact replay (`BUILD.replay`, `RUN.run`), which shows on every run that the logged
    choice points are the only inputs of the real build besides the patterns: a new source of
    non-determinism in the code (a `RandomState` map, an address-dependent order) makes the replay
    differ from the dump. What remains a runtime fact is "the log is the same in every process".

(2) `c17_*_any_logs_perm`: even if the logs DIFFER (another hasher seed, another process, another
    hashbrown version), the list of matches reported on any host is a PERMUTATION of the other
    run's list, for strings and matrices: same matches, same multiplicities (C04 + C07 for the
    Rust loop's own replay `buildTL`, no guard). So the order-insensitive half of C17 holds for
    every pair of hash orders whatsoever; only the ORDER of matches and the SHAPE of the automaton
    (state count, rendering) can depend on the hasher, and those are what the three-process run
    compares.
-/
import PmVerif.Props.C07TL
namespace Pm
open Automaton

/-- **C17 (1), strings**: same patterns, same log, same host ⇒ same automaton, same match list in
the same order, same set of expanded configurations. -/
theorem c17_string_same_log (fuel fuel' : Nat) (inputs : List (Nat × List StrCons × List Nat))
    (evs : List Ev) (A A' : Automaton Nat CharPred) (h : List Nat)
    (ms ms' : List (Match StrPos)) (seen seen' : List (Nat × List (Option Nat)))
    (hb : buildTL (charTree natLt) strReq fuel inputs evs = .ok A)
    (hb' : buildTL (charTree natLt) strReq fuel inputs evs = .ok A')
    (hr : run strDomain A h fuel' = .ok (ms, seen))
    (hr' : run strDomain A' h fuel' = .ok (ms', seen')) :
    A = A' ∧ ms = ms' ∧ seen = seen' := by
  have hA : A = A' := by
    have := hb.symm.trans hb'
    exact Except.ok.inj this
  subst hA
  have := Except.ok.inj (hr.symm.trans hr')
  exact ⟨rfl, (Prod.mk.inj this).1, (Prod.mk.inj this).2⟩

/-- **C17 (1), matrices**. -/
theorem c17_matrix_same_log (fuel fuel' : Nat) (inputs : List (Nat × List MatCons × List MKey))
    (evs : List Ev) (A A' : Automaton MKey CharPred) (h : MatHost)
    (ms ms' : List (Match MatPos)) (seen seen' : List (Nat × List (Option MVal)))
    (hb : buildTL (charTree mkeyLt) matReq fuel inputs evs = .ok A)
    (hb' : buildTL (charTree mkeyLt) matReq fuel inputs evs = .ok A')
    (hr : run matDomain A h fuel' = .ok (ms, seen))
    (hr' : run matDomain A' h fuel' = .ok (ms', seen')) :
    A = A' ∧ ms = ms' ∧ seen = seen' := by
  have hA : A = A' := Except.ok.inj (hb.symm.trans hb')
  subst hA
  have := Except.ok.inj (hr.symm.trans hr')
  exact ⟨rfl, (Prod.mk.inj this).1, (Prod.mk.inj this).2⟩

/-- **C17 (2), strings**: two builds of the same patterns under ANY two logs the Rust loop's replay
accepts (any two hash orders, any two heuristic answer sequences) report, on every host, lists of
matches that are permutations of each other. -/
theorem c17_string_any_logs_perm (ps : List (List CharVar)) (evs evs' : List Ev)
    (fuel fuel' fuel2 fuel2' : Nat) (inputs : List (Nat × List StrCons × List Nat))
    (A A' : Automaton Nat CharPred) (h : List Nat) (ms ms' : List (Match StrPos))
    (seen seen' : List (Nat × List (Option Nat)))
    (hi : TBL.strInputs ps = some inputs)
    (hb : buildTL (charTree natLt) strReq fuel inputs evs = .ok A)
    (hb' : buildTL (charTree natLt) strReq fuel2 inputs evs' = .ok A')
    (hr : run strDomain A h fuel' = .ok (ms, seen))
    (hr' : run strDomain A' h fuel2' = .ok (ms', seen')) :
    ms.Perm ms' := by
  have n1 := (c07_string_TL ps evs fuel fuel' inputs A h ms seen hi hb hr).1
  have n2 := (c07_string_TL ps evs' fuel2 fuel2' inputs A' h ms' seen' hi hb' hr').1
  exact (List.perm_ext_iff_of_nodup n1 n2).2
    (fun x => c04_string_TL ps evs evs' fuel fuel' fuel2 fuel2' inputs A A' h ms ms' seen seen'
      hi hb hb' hr hr' x)

/-- **C17 (2), matrices**. -/
theorem c17_matrix_any_logs_perm (ps : List MatPattern) (evs evs' : List Ev)
    (fuel fuel' fuel2 fuel2' : Nat) (inputs : List (Nat × List MatCons × List MKey))
    (A A' : Automaton MKey CharPred) (h : MatHost) (ms ms' : List (Match MatPos))
    (seen seen' : List (Nat × List (Option MVal)))
    (hi : TBL.matInputs ps = some inputs)
    (hb : buildTL (charTree mkeyLt) matReq fuel inputs evs = .ok A)
    (hb' : buildTL (charTree mkeyLt) matReq fuel2 inputs evs' = .ok A')
    (hr : run matDomain A h fuel' = .ok (ms, seen))
    (hr' : run matDomain A' h fuel2' = .ok (ms', seen')) :
    ms.Perm ms' := by
  have n1 := (c07_matrix_TL ps evs fuel fuel' inputs A h ms seen hi hb hr).1
  have n2 := (c07_matrix_TL ps evs' fuel2 fuel2' inputs A' h ms' seen' hi hb' hr').1
  exact (List.perm_ext_iff_of_nodup n1 n2).2
    (fun x => c04_matrix_TL ps evs evs' fuel fuel' fuel2 fuel2' inputs A A' h ms ms' seen seen'
      hi hb hb' hr hr' x)

/-- Consequence: the NUMBER of matches reported on a host does not depend on the log. -/
theorem c17_string_count_indep (ps : List (List CharVar)) (evs evs' : List Ev)
    (fuel fuel' fuel2 fuel2' : Nat) (inputs : List (Nat × List StrCons × List Nat))
    (A A' : Automaton Nat CharPred) (h : List Nat) (ms ms' : List (Match StrPos))
    (seen seen' : List (Nat × List (Option Nat)))
    (hi : TBL.strInputs ps = some inputs)
    (hb : buildTL (charTree natLt) strReq fuel inputs evs = .ok A)
    (hb' : buildTL (charTree natLt) strReq fuel2 inputs evs' = .ok A')
    (hr : run strDomain A h fuel' = .ok (ms, seen))
    (hr' : run strDomain A' h fuel2' = .ok (ms', seen')) :
    ms.length = ms'.length :=
  (c17_string_any_logs_perm ps evs evs' fuel fuel' fuel2 fuel2' inputs A A' h ms ms' seen seen'
    hi hb hb' hr hr').length_eq

/-- Packaged form on the model's `find_matches` (`strFindMatchesTL` = inputs, the Rust loop's
replay, traversal): any two logs, any host. -/
theorem c17_string_findMatches_perm (ps : List (List CharVar)) (evs evs' : List Ev) (h : List Nat)
    (fuel fuel2 : Nat) (ms ms' : List (Match StrPos))
    (hf : strFindMatchesTL ps evs h fuel = .ok ms)
    (hf' : strFindMatchesTL ps evs' h fuel2 = .ok ms') : ms.Perm ms' := by
  obtain ⟨inputs, A, seen, hi, hb, hr⟩ := c07_strFindMatchesTL_inv hf
  obtain ⟨inputs', A', seen', hi', hb', hr'⟩ := c07_strFindMatchesTL_inv hf'
  have : inputs = inputs' := Option.some.inj (hi.symm.trans hi')
  subst this
  exact c17_string_any_logs_perm ps evs evs' fuel fuel fuel2 fuel2 inputs A A' h ms ms' seen seen'
    hi hb hb' hr hr'

/-- Packaged form, matrices. -/
theorem c17_matrix_findMatches_perm (ps : List MatPattern) (evs evs' : List Ev) (h : MatHost)
    (fuel fuel2 : Nat) (ms ms' : List (Match MatPos))
    (hf : matFindMatchesTL ps evs h fuel = .ok ms)
    (hf' : matFindMatchesTL ps evs' h fuel2 = .ok ms') : ms.Perm ms' := by
  obtain ⟨inputs, A, seen, hi, hb, hr⟩ := c07_matFindMatchesTL_inv hf
  obtain ⟨inputs', A', seen', hi', hb', hr'⟩ := c07_matFindMatchesTL_inv hf'
  have : inputs = inputs' := Option.some.inj (hi.symm.trans hi')
  subst this
  exact c17_matrix_any_logs_perm ps evs evs' fuel fuel fuel2 fuel2 inputs A A' h ms ms' seen seen'
    hi hb hb' hr hr'

/-! ### Non-vacuity: two DIFFERENT logs of the same pattern set (`ab`, `b`) — another emission
order of the toposort and other heuristic answers — both accepted by the Rust loop's replay. -/

def C17.exPats : List (List CharVar) := [[.lit 97, .lit 98], [.lit 98]]
def C17.exLogA : List Ev :=
  [.topo 0, .detAsk 0, .iterEnd 0, .topo 1, .detAsk 1, .iterEnd 1, .topo 2, .iterEnd 2,
   .topo 3, .iterEnd 3]
def C17.exLogB : List Ev :=
  [.topo 0, .detAsk 0, .detYes 0, .iterEnd 0, .topo 1, .detAsk 1, .detYes 1, .iterEnd 1,
   .topo 3, .iterEnd 3, .topo 2, .iterEnd 2]

set_option maxRecDepth 100000 in
theorem c17_example_runs :
    strFindMatchesTL C17.exPats C17.exLogA [97, 98, 97] 100 =
      .ok [(1, .bound 1 1), (0, .bound 0 2)] ∧
    strFindMatchesTL C17.exPats C17.exLogB [97, 98, 97] 100 =
      .ok [(1, .bound 1 1), (0, .bound 0 2)] := ⟨by rfl, by rfl⟩

example : ∃ ms ms', strFindMatchesTL C17.exPats C17.exLogA [97, 98, 97] 100 = .ok ms ∧
    strFindMatchesTL C17.exPats C17.exLogB [97, 98, 97] 100 = .ok ms' ∧ ms.Perm ms' ∧ ms ≠ [] :=
  ⟨_, _, c17_example_runs.1, c17_example_runs.2,
    c17_string_findMatches_perm _ _ _ _ _ _ _ _ c17_example_runs.1 c17_example_runs.2, by simp⟩

end Pm

section AxiomAudit
open Pm
#print axioms c17_string_same_log
#print axioms c17_matrix_same_log
#print axioms c17_string_any_logs_perm
#print axioms c17_matrix_any_logs_perm
#print axioms c17_string_count_indep
#print axioms c17_string_findMatches_perm
#print axioms c17_matrix_findMatches_perm
#print axioms c17_example_runs
end AxiomAudit
