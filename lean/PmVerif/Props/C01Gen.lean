/-
Props/C01Gen.lean — property C01 (soundness) at the BINDING level, for ANY domain: every match
`(i, mm)` reported by `run` on an automaton returned by `build` (every pattern list, every event
log, every host) satisfies EVERY constraint of pattern `i` by direct evaluation on `mm`, and
binds every recorded key.

Unlike `C01Str`, `C01Mat`, `C01PGFinal` this needs no anchor (no assignment fixed in advance from
a start value): keys may have several candidate values (secondary roots `root k`, `k ≥ 1`, of
port-graph patterns; multi-valued rules of the table domain) and may be dropped from a scope and
bound again later. What makes it work is *scope correctness* of `populate_scopes`
(`Proofs/C01GenBuilt.lean`, `populateScopes_scope`) together with T-BUILD used as a black box
under the family of truth assignments "all atoms of the constraint lie in a set"
(`Proofs/C01GenRun.lean` explains the invariant).

* `c01_generic_sound`          the generic theorem (hypotheses: rank-acyclic scheme, distinct
                               pattern ids, `LawfulDomain`, an atom system `AtomSys`);
* `c01_generic_sound_keys`     … with the recorded key list: all its keys are bound;
* `c01_generic_sound_faithful` decompositions faithful under every assignment (no atoms needed);
* `c01_built_scope_correct`     the scope-correctness statement for every built automaton;
* `c01_pg_all_sound`, `c01_pg_all_keys`, `c01_pg_all_sound_many`   port graphs, ALL rooted patterns,
                               multi-root included: every constraint holds of the reported
                               binding, which binds exactly the recorded keys;
* `c01_pg_all_holds`           … and for every well-formed CONNECTED pattern (any number of roots)
                               the reported binding induces an EMBEDDING into the host
                               (`Proofs/C01GenPGEmb.lean`: the soundness half of T-DOM-PG for an
                               arbitrary valuation of the keys instead of the anchored one);
* `c01_str_binding_sound`, `c01_mat_binding_sound`, `c01_table_binding_sound`   corollaries;
* `c01_table_powerset_binding_sound`   the table domain's powerset strategy (a second atom system,
                               with the arity side condition `AtomSys.ok`);
* non-vacuity on a build with two multi-root patterns (one of them the F3b witness) and on
  table-domain builds with multi-valued host rules (depth-one and powerset strategies).

Not covered: completeness (it FAILS for multi-root patterns: `Props/F3b.lean`); multiplicities;
the table strategy 4 (`tTreeRoot`, trivially true constraints labelling the root) — no
faithfulness lemma for that decomposition exists yet; duplicate pattern ids (`hids`).
-/
import PmVerif.Proofs.C01GenDoms
import PmVerif.Proofs.C01GenTable
import PmVerif.Proofs.C01GenPGEmb
import PmVerif.Proofs.C01GenAuto
import PmVerif.Props.F3b
namespace Pm
open Automaton C01G

section Generic
variable {K V P H M : Type} [DecidableEq K] [DecidableEq V] [DecidableEq P]

/-- **C01, binding level, any domain.** For every successful `build` (any event log) of patterns
with distinct ids over a rank-acyclic indexing scheme, every lawful domain `D` with an atom system
for the decomposition `toTree` (whose well-formedness condition `ok` the patterns' constraints
satisfy), every host `h` and every successful `run`: a reported match
`(i, mm)` is a match of a compiled pattern with id `i`, and `mm` satisfies every constraint of
that pattern (in particular binds all their keys). -/
theorem c01_generic_sound {D : Domain K V P H M} {h : H}
    {toTree : List (Constraint K P) → Option (CTree (Constraint K P))} {req : K → List K}
    (hacy : RankAcyclic req) {fuel : Nat}
    {inputs : List (Nat × List (Constraint K P) × List K)} {evs : List Ev} {A : Automaton K P}
    (hb : Automaton.build toTree req fuel inputs evs = .ok A)
    (hids : (inputs.map (·.1)).Nodup) (S : AtomSys D h toTree) (L : LawfulDomain D h)
    (hok : ∀ x ∈ inputs, ∀ c ∈ x.2.1, S.ok c)
    {fuel' : Nat} {ms : List (Match M)} {seen : List (Nat × List (Option V))}
    (hr : run D A h fuel' = .ok (ms, seen)) {i : Nat} {mm : M} (hm : (i, mm) ∈ ms) :
    ∃ cs ex, (i, cs, ex) ∈ inputs ∧
      ∀ c ∈ cs, satOrFalse D.map.get D.check c h mm = some true := by
  obtain ⟨cs, ex, _, hin, hs, _⟩ := run_sound S L (facts_of_build hacy hb hids S) hok hr hm
  exact ⟨cs, ex, hin, hs⟩

/-- … together with the key list recorded for the pattern: it contains the keys of all the
pattern's constraints, `mm` binds every key of it, and `mm` is `retain_keys` of that list. -/
theorem c01_generic_sound_keys {D : Domain K V P H M} {h : H}
    {toTree : List (Constraint K P) → Option (CTree (Constraint K P))} {req : K → List K}
    (hacy : RankAcyclic req) {fuel : Nat}
    {inputs : List (Nat × List (Constraint K P) × List K)} {evs : List Ev} {A : Automaton K P}
    (hb : Automaton.build toTree req fuel inputs evs = .ok A)
    (hids : (inputs.map (·.1)).Nodup) (S : AtomSys D h toTree) (L : LawfulDomain D h)
    (hok : ∀ x ∈ inputs, ∀ c ∈ x.2.1, S.ok c)
    {fuel' : Nat} {ms : List (Match M)} {seen : List (Nat × List (Option V))}
    (hr : run D A h fuel' = .ok (ms, seen)) {i : Nat} {mm : M} (hm : (i, mm) ∈ ms) :
    ∃ cs ex keys, (i, cs, ex) ∈ inputs ∧
      (∀ c ∈ cs, satOrFalse D.map.get D.check c h mm = some true) ∧
      (∀ c ∈ cs, ∀ k ∈ c.args, k ∈ keys) ∧ (∀ k ∈ keys, (D.map.get mm k).isSome = true) ∧
      (∃ s w, A.g.weight? s = some w ∧ (i, keys) ∈ w.matches_) ∧
      ∃ m₁, D.map.retain m₁ keys = some mm :=
  run_sound S L (facts_of_build hacy hb hids S) hok hr hm

/-- The same for decompositions that are faithful under EVERY truth assignment (`charTree`, the
depth-one strategies of the table domain, any user decomposition built with `with_children` /
the mutex constructors): no atom system is needed. -/
theorem c01_generic_sound_faithful {D : Domain K V P H M} {h : H}
    {toTree : List (Constraint K P) → Option (CTree (Constraint K P))} {req : K → List K}
    (hacy : RankAcyclic req) (hT : ∀ σ, TreeOK toTree σ) {fuel : Nat}
    {inputs : List (Nat × List (Constraint K P) × List K)} {evs : List Ev} {A : Automaton K P}
    (hb : Automaton.build toTree req fuel inputs evs = .ok A)
    (hids : (inputs.map (·.1)).Nodup) (L : LawfulDomain D h)
    {fuel' : Nat} {ms : List (Match M)} {seen : List (Nat × List (Option V))}
    (hr : run D A h fuel' = .ok (ms, seen)) {i : Nat} {mm : M} (hm : (i, mm) ∈ ms) :
    ∃ cs ex, (i, cs, ex) ∈ inputs ∧
      ∀ c ∈ cs, satOrFalse D.map.get D.check c h mm = some true :=
  c01_generic_sound hacy hb hids (AtomSys.trivial D h toTree hT) L (fun _ _ _ _ => trivial) hr hm

/-- The scope-correctness statement behind the theorem, for every built automaton: a key of a
pattern recorded strictly below `s` is in the scope of `s`, unless some path from the root to `s`
never mentions the key. -/
theorem c01_built_scope_correct
    {toTree : List (Constraint K P) → Option (CTree (Constraint K P))} {req : K → List K}
    (hacy : RankAcyclic req) {fuel : Nat}
    {inputs : List (Nat × List (Constraint K P) × List K)} {evs : List Ev} {A : Automaton K P}
    (hb : Automaton.build toTree req fuel inputs evs = .ok A) :
    ∀ s w, A.g.weight? s = some w → ∀ t ∈ w.corder ++ w.eorder, ∀ e,
      A.g.edge? t = some e → ∀ u wu pid keys, PathP A (fun _ => True) e.dst u →
      A.g.weight? u = some wu → (pid, keys) ∈ wu.matches_ → ∀ k ∈ keys,
      k ∈ w.scope ∨ PathP A (fun c => k ∉ c.args) A.root s := by
  have sh := shape_of_build hb
  unfold Automaton.build at hb
  split at hb
  · cases hb
  · unfold Automaton.finish at hb
    split at hb
    · cases hb
    · exact populateScopes_scope hacy hb sh

end Generic

/-! ### port graphs: all rooted patterns -/

/-- **C01, binding level, port graphs — every rooted pattern, multi-root included.** Whatever
the constraint vectors (any number of roots), the event log and the host: every reported binding
satisfies every constraint of its pattern. (`pgSigMultiRoot` patterns are exactly those for which
completeness fails — `Props/F3b.lean` — and for which no soundness statement existed.) -/
theorem c01_pg_all_sound (fuelT fuel fuel' : Nat) (inputs : List (Nat × List PGCons × List PGKey))
    (evs : List Ev) (A : Automaton PGKey PGPred) (h : PortGraph) (ms : List (Match PGMap))
    (seen : List (Nat × List (Option Nat)))
    (hb : Automaton.build (fun cs => pgTree cs fuelT) pgReq fuel inputs evs = .ok A)
    (hids : (inputs.map (·.1)).Nodup)
    (hr : run pgDomain A h fuel' = .ok (ms, seen)) (i : Nat) (mm : PGMap) (hm : (i, mm) ∈ ms) :
    ∃ cs ex, (i, cs, ex) ∈ inputs ∧
      (∀ c ∈ cs, satOrFalse alGet (fun p g vs => pgCheck p g vs) c h mm = some true) ∧
      ∀ c ∈ cs, ∀ k ∈ c.args, (alGet mm k).isSome = true := by
  obtain ⟨cs, ex, hin, hs⟩ :=
    c01_generic_sound pgReq_rankAcyclic hb hids (pgAtomSys h fuelT) (pg_lawful h)
      (fun _ _ _ _ => trivial) hr hm
  exact ⟨cs, ex, hin, hs, fun c hc => sat_bound _ _ c h mm (hs c hc)⟩

/-- … and it binds EXACTLY the recorded keys of its pattern (the association-list `retain_keys`
keeps nothing else), which contain every key of every constraint. -/
theorem c01_pg_all_keys (fuelT fuel fuel' : Nat) (inputs : List (Nat × List PGCons × List PGKey))
    (evs : List Ev) (A : Automaton PGKey PGPred) (h : PortGraph) (ms : List (Match PGMap))
    (seen : List (Nat × List (Option Nat)))
    (hb : Automaton.build (fun cs => pgTree cs fuelT) pgReq fuel inputs evs = .ok A)
    (hids : (inputs.map (·.1)).Nodup)
    (hr : run pgDomain A h fuel' = .ok (ms, seen)) (i : Nat) (mm : PGMap) (hm : (i, mm) ∈ ms) :
    ∃ cs ex keys, (i, cs, ex) ∈ inputs ∧ (∀ c ∈ cs, ∀ k ∈ c.args, k ∈ keys) ∧
      (∃ s w, A.g.weight? s = some w ∧ (i, keys) ∈ w.matches_) ∧
      ∀ k, (alGet mm k).isSome = true ↔ k ∈ keys := by
  obtain ⟨cs, ex, keys, hin, _, hk, hbound, hrec, m₁, hret⟩ :=
    c01_generic_sound_keys pgReq_rankAcyclic hb hids (pgAtomSys h fuelT) (pg_lawful h)
      (fun _ _ _ _ => trivial) hr hm
  refine ⟨cs, ex, keys, hin, hk, hrec, fun k => ⟨fun hs => ?_, hbound k⟩⟩
  have : mm = alRetain m₁ keys := (Option.some.inj hret).symm
  subst this
  rw [c14_generic_retain] at hs
  split at hs
  · assumption
  · cases hs

/-- Ids assigned by `ManyMatcher` are distinct, and the input with id `i` is pattern `i`. -/
theorem manyInputs_spec {K P Pat : Type} (convert : Pat → Option (List (Constraint K P)))
    (extra : Pat → List K) (ff : Bool) :
    ∀ (pats : List Pat) (i0 : Nat) (inputs : List (Nat × List (Constraint K P) × List K)),
      manyInputs convert extra ff pats i0 = some inputs →
      (inputs.map (·.1)).Nodup ∧ ∀ x ∈ inputs, i0 ≤ x.1 ∧
        ∃ p, pats[x.1 - i0]? = some p ∧ convert p = some x.2.1 ∧ extra p = x.2.2
  | [], i0, inputs, h => by
    rw [manyInputs] at h
    cases h
    exact ⟨List.nodup_nil, fun x hx => by cases hx⟩
  | p :: ps, i0, inputs, h => by
    rw [manyInputs] at h
    split at h
    · split at h
      · cases h
      · obtain ⟨h1, h2⟩ := manyInputs_spec convert extra ff ps (i0 + 1) inputs h
        refine ⟨h1, fun x hx => ?_⟩
        obtain ⟨hle, q, hq, hc, he⟩ := h2 x hx
        refine ⟨by omega, q, ?_, hc, he⟩
        have : x.1 - i0 = (x.1 - (i0 + 1)) + 1 := by omega
        rw [this, List.getElem?_cons_succ]
        exact hq
    · rename_i cs hcs
      split at h
      · cases h
      · rename_i rest hrest
        cases h
        obtain ⟨h1, h2⟩ := manyInputs_spec convert extra ff ps (i0 + 1) rest hrest
        refine ⟨?_, fun x hx => ?_⟩
        · rw [List.map_cons, List.nodup_cons]
          refine ⟨fun hmem => ?_, h1⟩
          obtain ⟨y, hy, e⟩ := List.mem_map.1 hmem
          have := (h2 y hy).1
          simp only at e
          omega
        · rcases List.mem_cons.1 hx with rfl | hx
          · exact ⟨Nat.le_refl _, p, by simp, hcs, rfl⟩
          · obtain ⟨hle, q, hq, hc, he⟩ := h2 x hx
            refine ⟨by omega, q, ?_, hc, he⟩
            have : x.1 - i0 = (x.1 - (i0 + 1)) + 1 := by omega
            rw [this, List.getElem?_cons_succ]
            exact hq

/-- A successful `ManyMatcher` construction and `find_matches`, unfolded. -/
theorem many_unfold {K V P H M Pat : Type} [DecidableEq K] [DecidableEq V] [DecidableEq P]
    {convert : Pat → Option (List (Constraint K P))} {extra : Pat → List K}
    {toTree : List (Constraint K P) → Option (CTree (Constraint K P))} {req : K → List K}
    {fuel fuel' : Nat} {ff : Bool} {pats : List Pat} {evs : List Ev} {Mm : Many K P}
    {D : Domain K V P H M} {h : H} {ms : List (Match M)}
    (hb : manyBuild convert extra toTree req fuel ff pats evs = some (.ok Mm))
    (hf : Mm.findMatches D h fuel' = .ok ms) :
    ∃ inputs A seen, manyInputs convert extra ff pats 0 = some inputs ∧
      Automaton.build toTree req fuel inputs evs = .ok A ∧ run D A h fuel' = .ok (ms, seen) := by
  unfold manyBuild at hb
  split at hb
  · cases hb
  · rename_i inputs hin
    simp only [Option.some.injEq] at hb
    split at hb
    · cases hb
    · rename_i A hA
      cases hb
      unfold Many.findMatches at hf
      cases hrun : run D A h fuel' with
      | error e => rw [hrun] at hf; cases hf
      | ok r =>
        obtain ⟨ms', seen⟩ := r
        rw [hrun] at hf
        cases hf
        exact ⟨inputs, A, seen, hin, hA, hrun⟩

/-- **… for `ManyMatcher`** (`try_from_patterns` + `find_matches`): a reported `(i, mm)` is a
binding for the `i`-th pattern `(g, root)` of the list that satisfies every constraint of
`constraint_vec(g, root)`. No hypothesis on the patterns (single- or multi-root, connected or
not), on the host, or on the log. -/
theorem c01_pg_all_sound_many (pats : List (PortGraph × Nat)) (evs : List Ev)
    (fuelT fuel fuel' : Nat) (ff : Bool) (M : Many PGKey PGPred) (h : PortGraph)
    (ms : List (Match PGMap))
    (hb : manyBuild (fun p : PortGraph × Nat => pgConstraints p.1 p.2) (fun _ => ([] : List PGKey))
      (fun cs => pgTree cs fuelT) pgReq fuel ff pats evs = some (.ok M))
    (hf : M.findMatches pgDomain h fuel' = .ok ms) (i : Nat) (mm : PGMap) (hm : (i, mm) ∈ ms) :
    ∃ g root cs, pats[i]? = some (g, root) ∧ pgConstraints g root = some cs ∧
      (∀ c ∈ cs, satOrFalse alGet (fun p g vs => pgCheck p g vs) c h mm = some true) ∧
      ∀ c ∈ cs, ∀ k ∈ c.args, (alGet mm k).isSome = true := by
  obtain ⟨inputs, A, seen, hin, hA, hrun⟩ := many_unfold hb hf
  obtain ⟨hnd, hspec⟩ := manyInputs_spec _ _ ff pats 0 inputs hin
  obtain ⟨cs, ex, hmem, hs, hbnd⟩ :=
    c01_pg_all_sound fuelT fuel fuel' inputs evs A h ms seen hA hnd hrun i mm hm
  obtain ⟨_, p, hp, hc, _⟩ := hspec (i, cs, ex) hmem
  exact ⟨p.1, p.2, cs, by simpa using hp, hc, hs, hbnd⟩

/-- **C01 for port graphs, every connected rooted pattern — multi-root included: every reported
match is an embedding.** For every list of patterns (no hypothesis on the OTHER patterns of the
list), every event log, every well-formed host: a reported `(i, mm)` is a binding for the `i`-th
pattern `(g, root)` satisfying its constraint vector, and if `g` is well-formed and connected with
a live root, then the node map `φ : n ↦ mm (key n)` is an embedding of `g` into the host
(total on the live nodes, injective, into live host nodes, preserving every link with its two port
offsets), `mm` binds the key of every node to its image, and `φ root = mm (root 0)`.
(`Props/C01PGFinal.lean` has this, plus completeness, for lists of single-root patterns only.) -/
theorem c01_pg_all_holds (pats : List (PortGraph × Nat)) (evs : List Ev)
    (fuelT fuel fuel' : Nat) (ff : Bool) (M : Many PGKey PGPred) (h : PortGraph)
    (ms : List (Match PGMap))
    (hb : manyBuild (fun p : PortGraph × Nat => pgConstraints p.1 p.2) (fun _ => ([] : List PGKey))
      (fun cs => pgTree cs fuelT) pgReq fuel ff pats evs = some (.ok M))
    (hf : M.findMatches pgDomain h fuel' = .ok ms) (hh : h.LinksOK)
    (i : Nat) (mm : PGMap) (hm : (i, mm) ∈ ms) :
    ∃ g root cs, pats[i]? = some (g, root) ∧ pgConstraints g root = some cs ∧
      (∀ c ∈ cs, satOrFalse alGet (fun p g vs => pgCheck p g vs) c h mm = some true) ∧
      (g.LinksOK → pgConnected g = true → (g.node? root).isSome = true →
        embedsPG g h (phiV (alGet mm) g root) = true ∧
        (∀ nk ∈ pgNodeKeys g root, alGet mm nk.2 = alGet (phiV (alGet mm) g root) nk.1) ∧
        alGet (phiV (alGet mm) g root) root = alGet mm (.root 0)) := by
  obtain ⟨g, root, cs, hp, hcs, hs, hbnd⟩ :=
    c01_pg_all_sound_many pats evs fuelT fuel fuel' ff M h ms hb hf i mm hm
  refine ⟨g, root, cs, hp, hcs, hs, fun hg hconn hroot => ?_⟩
  obtain ⟨_, A, seen, _, _, hrun⟩ := many_unfold hb hf
  have hsatV : ∀ c ∈ cs, SatV h (alGet mm) c := fun c hc =>
    (sat_iff_vals alGet (fun p g vs => pgCheck p g vs) c h mm).1 (hs c hc)
  obtain ⟨c0, hc0, hk0⟩ := root0_in_constraints hcs
  obtain ⟨r, hr⟩ := Option.isSome_iff_exists.1 (hbnd c0 hc0 _ hk0)
  have hlive := pg_root0_live hrun hm hr
  obtain ⟨hemb, hroot'⟩ := sound_connectedV h (alGet mm) g root cs hh r hr hlive hcs
    (tdom_pg_cover g root hg hconn hroot) hsatV
  refine ⟨hemb, fun nk hnk => ?_, by rw [hroot', hr]⟩
  obtain ⟨v, hv1, hv2⟩ :=
    (sound_coreV h (alGet mm) g root cs hh (by rw [hr]; rfl) hcs hsatV).1 nk hnk
  rw [hv1, hv2]

/-! ### strings, matrices, tables -/

/-- Strings: every reported binding satisfies all constraints of its pattern (a second,
anchor-free proof of the binding half of `C01Str`). -/
theorem c01_str_binding_sound (fuel fuel' : Nat) (inputs : List (Nat × List StrCons × List Nat))
    (evs : List Ev) (A : Automaton Nat CharPred) (h : List Nat) (ms : List (Match StrPos))
    (seen : List (Nat × List (Option Nat)))
    (hb : Automaton.build (charTree natLt) strReq fuel inputs evs = .ok A)
    (hids : (inputs.map (·.1)).Nodup)
    (hr : run strDomain A h fuel' = .ok (ms, seen)) (i : Nat) (mm : StrPos) (hm : (i, mm) ∈ ms) :
    ∃ cs ex, (i, cs, ex) ∈ inputs ∧
      ∀ c ∈ cs, satOrFalse StrPos.get (fun p h vs => strCheck p h vs) c h mm = some true :=
  c01_generic_sound_faithful StrProg.strReq_acyclic (c03_treeOK_char natLt) hb hids
    (str_lawful h) hr hm

/-- Matrices. -/
theorem c01_mat_binding_sound (fuel fuel' : Nat)
    (inputs : List (Nat × List (Constraint MKey CharPred) × List MKey))
    (evs : List Ev) (A : Automaton MKey CharPred) (h : MatHost) (ms : List (Match MatPos))
    (seen : List (Nat × List (Option MVal)))
    (hb : Automaton.build (charTree mkeyLt) matReq fuel inputs evs = .ok A)
    (hids : (inputs.map (·.1)).Nodup)
    (hr : run matDomain A h fuel' = .ok (ms, seen)) (i : Nat) (mm : MatPos) (hm : (i, mm) ∈ ms) :
    ∃ cs ex, (i, cs, ex) ∈ inputs ∧
      ∀ c ∈ cs, satOrFalse MatPos.get (fun p h vs => matCheck p h vs) c h mm = some true :=
  c01_generic_sound_faithful MatProg.matReq_acyclic (c03_treeOK_char mkeyLt) hb hids
    (mat_lawful h) hr hm

/-- The table domain (arbitrary rank-acyclic scheme `sch`, arbitrary multi-valued host rules),
depth-one strategies. -/
theorem c01_table_binding_sound (s : Nat) (hs : s = 0 ∨ s = 1 ∨ s = 2) (tfuel : Nat)
    (sch : TScheme) (hacy : RankAcyclic sch.req) (fuel fuel' : Nat)
    (inputs : List (Nat × List TCons × List Nat)) (evs : List Ev) (A : Automaton Nat TPred)
    (h : THost) (ms : List (Match TMap)) (seen : List (Nat × List (Option Nat)))
    (hb : Automaton.build (fun cs => tTree s cs tfuel) sch.req fuel inputs evs = .ok A)
    (hids : (inputs.map (·.1)).Nodup)
    (hr : run (tDomain sch) A h fuel' = .ok (ms, seen)) (i : Nat) (mm : TMap)
    (hm : (i, mm) ∈ ms) :
    ∃ cs ex, (i, cs, ex) ∈ inputs ∧
      ∀ c ∈ cs, satOrFalse alGet TPred.check c h mm = some true :=
  c01_generic_sound_faithful hacy (c03_treeOK_table s hs tfuel) hb hids (table_lawful sch h) hr hm

/-- The table domain's POWERSET strategy (`with_powerset` over `tCond`: `true_` constraints are
implied outright, `notIn` constraints are conditioned on the satisfied ones) — a second instance of
the atom-system argument; the patterns' constraints must be arity-correct (a `true_`/`notIn`
predicate called with the wrong number of values panics). -/
theorem c01_table_powerset_binding_sound (s : Nat) (hs : 3 ≤ s) (tfuel : Nat)
    (sch : TScheme) (hacy : RankAcyclic sch.req) (fuel fuel' : Nat)
    (inputs : List (Nat × List TCons × List Nat)) (evs : List Ev) (A : Automaton Nat TPred)
    (h : THost) (ms : List (Match TMap)) (seen : List (Nat × List (Option Nat)))
    (hb : Automaton.build (fun cs => tTree s cs tfuel) sch.req fuel inputs evs = .ok A)
    (hids : (inputs.map (·.1)).Nodup)
    (harity : ∀ x ∈ inputs, ∀ c ∈ x.2.1, c.args.length = c.pred.arity)
    (hr : run (tDomain sch) A h fuel' = .ok (ms, seen)) (i : Nat) (mm : TMap)
    (hm : (i, mm) ∈ ms) :
    ∃ cs ex, (i, cs, ex) ∈ inputs ∧
      ∀ c ∈ cs, satOrFalse alGet TPred.check c h mm = some true :=
  c01_generic_sound hacy hb hids (tAtomSys sch h hs tfuel) (table_lawful sch h) harity hr hm

/-! ### Non-vacuity -/

namespace C01GenEx
open PGDom.Ex

/-- Two MULTI-ROOT patterns: the tee `0 → 1 → {2, 3}` rooted at `0` (a second root opens at node
`1`), and the F3b witness. -/
def pats : List (PortGraph × Nat) := [(gTee, 0), (f3bG, 3)]

/-- A complete log for them (what `C01G.autoLog` produces: smallest admissible state first, always
determinise, never merge). -/
def evs : List Ev :=
  [.topo 0, .group 0 [0, 6], .detAsk 0, .detYes 0, .iterEnd 0,
   .topo 13, .group 13 [0, 1], .detAsk 13, .detYes 13, .iterEnd 13,
   .topo 7, .group 7 [0, 2], .detAsk 7, .detYes 7, .iterEnd 7,
   .topo 8, .group 8 [0, 3], .detAsk 8, .detYes 8, .iterEnd 8,
   .topo 9, .detAsk 9, .detYes 9, .iterEnd 9, .topo 10, .detAsk 10, .detYes 10, .iterEnd 10,
   .topo 11, .detAsk 11, .detYes 11, .iterEnd 11, .topo 4, .detAsk 4, .detYes 4, .iterEnd 4,
   .topo 12, .detAsk 12, .detYes 12, .iterEnd 12, .topo 5, .detAsk 5, .detYes 5, .iterEnd 5,
   .topo 6, .iterEnd 6]

/-- The binding reported for the tee on itself: it binds the secondary root `root 1`. -/
def mmTee : PGMap :=
  [(.root 0, 0), (.along 0 ⟨.out, 0⟩ 1, 1), (.along 0 ⟨.out, 0⟩ 2, 2), (.root 1, 1),
   (.along 1 ⟨.out, 1⟩ 1, 3)]

set_option maxRecDepth 8192 in
/-- Both constraint vectors are multi-root, the log is the generated one, the build succeeds and
the run on the tee reports exactly one match, of pattern `0`. -/
theorem built :
    (pats.map fun p => (pgConstraints p.1 p.2).map pgSigMultiRoot) = [some true, some true] ∧
    ((manyInputs (fun p : PortGraph × Nat => pgConstraints p.1 p.2) (fun _ => ([] : List PGKey))
        true pats 0).map fun inputs => autoLog (fun cs => pgTree cs 50) pgReq 50 inputs) =
      some (.ok evs) ∧
    ∃ M, manyBuild (fun p : PortGraph × Nat => pgConstraints p.1 p.2) (fun _ => ([] : List PGKey))
        (fun cs => pgTree cs 50) pgReq 50 true pats evs = some (.ok M) ∧
      M.findMatches pgDomain gTee 200 = .ok [(0, mmTee)] :=
  ⟨by decide, by rfl, ⟨_, rfl, by rfl⟩⟩

/-- The table domain with multi-valued rules (keys `0` and `1` have several candidates): two
patterns, strategy 1. -/
def tIn : List (Nat × List TCons × List Nat) :=
  [(7, [⟨.const 5, [0]⟩, ⟨.lt, [0, 1]⟩], []), (9, [⟨.const 6, [0]⟩, ⟨.ne, [1, 0]⟩], [])]

def tEvs : List Ev :=
  [.topo 0, .detAsk 0, .detYes 0, .iterEnd 0, .topo 1, .detAsk 1, .detYes 1, .iterEnd 1,
   .topo 2, .iterEnd 2, .topo 3, .detAsk 3, .detYes 3, .iterEnd 3, .topo 4, .iterEnd 4]

def tHost : THost := ⟨false, [[⟨none, [5, 6]⟩], [⟨none, [5, 6, 7]⟩]]⟩

theorem tBuilt : ∃ A, Automaton.build (fun cs => tTree 1 cs 20) (TScheme.req [[], []]) 20 tIn tEvs
      = .ok A ∧
    (run (tDomain [[], []]) A tHost 100).map (·.1) =
      .ok [(7, [(0, 5), (1, 6)]), (7, [(0, 5), (1, 7)]), (9, [(0, 6), (1, 5)]),
        (9, [(0, 6), (1, 7)])] :=
  ⟨_, rfl, by rfl⟩

end C01GenEx

open C01GenEx PGDom.Ex in
/-- The hypotheses of `c01_pg_all_holds` are jointly satisfiable on a build of multi-root patterns
with a reported match, and its conclusion is the expected one: the reported binding satisfies the
six constraints of the tee's vector and induces the identity embedding. -/
example :
    (∃ cs, pgConstraints gTee 0 = some cs ∧ cs.length = 6 ∧
      ∀ c ∈ cs, satOrFalse alGet (fun p g vs => pgCheck p g vs) c gTee mmTee = some true) ∧
    embedsPG gTee gTee (phiV (alGet mmTee) gTee 0) = true ∧
    phiV (alGet mmTee) gTee 0 = [(0, 0), (1, 1), (2, 2), (3, 3)] := by
  obtain ⟨_, _, M, hb, hf⟩ := built
  obtain ⟨g, root, cs, hp, hcs, hs, hemb⟩ :=
    c01_pg_all_holds pats evs 50 50 200 true M gTee _ hb hf (by decide) 0 mmTee
      List.mem_cons_self
  have hp' : (g, root) = (gTee, 0) := by
    have : pats[0]? = some (gTee, 0) := rfl
    rw [this] at hp
    exact (Option.some.inj hp).symm
  cases hp'
  refine ⟨⟨cs, hcs, ?_, hs⟩, (hemb (by decide) (by decide) (by decide)).1, by decide⟩
  have : (pgConstraints gTee 0).map List.length = some 6 := by decide
  rw [hcs] at this
  exact Option.some.inj this

open C01GenEx in
/-- … and of `c01_table_binding_sound` on a host with multi-valued rules: each of the four
reported bindings satisfies both constraints of its pattern. -/
example : ∀ i mm, (i, mm) ∈ [((7 : Nat), ([(0, 5), (1, 6)] : TMap)), (7, [(0, 5), (1, 7)]),
      (9, [(0, 6), (1, 5)]), (9, [(0, 6), (1, 7)])] →
    ∃ cs ex, (i, cs, ex) ∈ tIn ∧ ∀ c ∈ cs, satOrFalse alGet TPred.check c tHost mm = some true := by
  obtain ⟨A, hb, hr⟩ := tBuilt
  cases hrun : run (tDomain [[], []]) A tHost 100 with
  | error e => rw [hrun] at hr; cases hr
  | ok r =>
    obtain ⟨ms, seen⟩ := r
    rw [hrun] at hr
    cases hr
    intro i mm hm
    exact c01_table_binding_sound 1 (.inr (.inl rfl)) 20 [[], []]
      ⟨fun k => 0, fun k p hp => by
        unfold TScheme.req at hp
        have : ([[], []] : TScheme).getD k [] = [] := by
          match k with
          | 0 => rfl
          | 1 => rfl
          | _ + 2 => rfl
        rw [this] at hp; cases hp⟩
      20 100 tIn tEvs A tHost _ seen hb (by decide) hrun i mm hm

/-- The conclusion is not trivially true: a binding that violates a constraint exists (so the
theorem does exclude something), e.g. the tee's vector on a binding that sends two nodes to the
same host node. -/
example : ∃ cs, pgConstraints PGDom.Ex.gTee 0 = some cs ∧
    ¬ ∀ c ∈ cs, satOrFalse alGet (fun p g vs => pgCheck p g vs) c PGDom.Ex.gTee
      [(.root 0, 0), (.along 0 ⟨.out, 0⟩ 1, 1), (.along 0 ⟨.out, 0⟩ 2, 1), (.root 1, 1),
       (.along 1 ⟨.out, 1⟩ 1, 3)] = some true := by
  refine ⟨_, rfl, ?_⟩
  decide

/-- Distinct ids are needed for the statement as given (`add_match` keeps the first key list
recorded for an id): with a duplicated id the conclusion's pattern would not be determined. The
`ManyMatcher` ids are positions, hence distinct (`manyInputs_spec`). -/
example : ((manyInputs (fun p : PortGraph × Nat => pgConstraints p.1 p.2)
    (fun _ => ([] : List PGKey)) true C01GenEx.pats 0).map fun i => i.map (·.1)) = some [0, 1] := by
  decide

namespace C01GenEx

/-- Powerset strategy: a nested `notIn` pair, a `true_` constraint, multi-valued rules. -/
def pIn : List (Nat × List TCons × List Nat) :=
  [(0, [⟨.notIn 2, [2, 0, 1]⟩], []), (1, [⟨.notIn 1, [2, 0]⟩, ⟨.const 5, [1]⟩], []),
   (2, [⟨.true_ 1, [0]⟩, ⟨.const 6, [2]⟩], [])]

def pEvs : List Ev :=
  [.topo 0, .group 0 [1, 0], .detAsk 0, .detYes 0, .iterEnd 0, .topo 2, .detAsk 2, .detYes 2,
   .iterEnd 2, .topo 4, .detAsk 4, .detYes 4, .iterEnd 4,
   .topo 7, .group 7 [7, 6], .group 7 [1, 8], .detAsk 7, .detYes 7, .iterEnd 7,
   .topo 3, .detAsk 3, .detYes 3, .iterEnd 3,
   .topo 10, .group 10 [7, 15], .group 10 [15, 16], .detAsk 10, .detYes 10, .iterEnd 10,
   .topo 5, .iterEnd 5, .topo 6, .group 6 [15, 10], .detAsk 6, .detYes 6, .iterEnd 6,
   .topo 1, .iterEnd 1, .topo 8, .iterEnd 8]

def pHost : THost := ⟨false, [[⟨none, [5, 6]⟩], [⟨none, [5, 6]⟩], [⟨none, [5, 6, 7]⟩]]⟩

set_option maxRecDepth 8192 in
theorem pBuilt : ∃ A, Automaton.build (fun cs => tTree 3 cs 50) (TScheme.req [[], [], []]) 50 pIn
      pEvs = .ok A ∧
    (run (tDomain [[], [], []]) A pHost 1000).map (·.1.length) = .ok 23 :=
  ⟨_, rfl, by rfl⟩

end C01GenEx

open C01GenEx in
/-- `c01_table_powerset_binding_sound` applies to a run with 23 reported matches. -/
example : ∃ A ms seen, run (tDomain [[], [], []]) A pHost 1000 = .ok (ms, seen) ∧ ms.length = 23 ∧
    ∀ i mm, (i, mm) ∈ ms → ∃ cs ex, (i, cs, ex) ∈ pIn ∧
      ∀ c ∈ cs, satOrFalse alGet TPred.check c pHost mm = some true := by
  obtain ⟨A, hb, hr⟩ := pBuilt
  cases hrun : run (tDomain [[], [], []]) A pHost 1000 with
  | error e => rw [hrun] at hr; cases hr
  | ok r =>
    obtain ⟨ms, seen⟩ := r
    rw [hrun] at hr
    refine ⟨A, ms, seen, hrun, ?_, fun i mm hm => ?_⟩
    · simpa [Except.map] using hr
    · exact c01_table_powerset_binding_sound 3 (Nat.le_refl _) 50 [[], [], []]
        ⟨fun k => 0, fun k p hp => by
          unfold TScheme.req at hp
          have : ([[], [], []] : TScheme).getD k [] = [] := by
            match k with
            | 0 => rfl
            | 1 => rfl
            | 2 => rfl
            | _ + 3 => rfl
          rw [this] at hp; cases hp⟩
        50 1000 pIn pEvs A pHost ms seen hb (by decide) (by decide) hrun i mm hm

end Pm
