/-
Props/C08Acyc.lean — property C08 (totality), the last open piece of the builder part: ACYCLICITY
AS A STEP INVARIANT. `Props/C08.lean` shows that, for every pattern list and EVERY event log, the
only panic a disciplined build (`buildT` guarded, `buildTL` = the Rust code) can return is
`expect("Graph should be acyclic")` of `populate_scopes`; T-BUILD certifies acyclicity only a
posteriori. Here:

* `C08A.Acyclic a` (a rank function on state ids strictly increasing along every live transition;
  equivalently, on a well-formed graph, no non-empty path from a state to itself:
  `c08_acyclic_iff_noCycle`) is preserved by EVERY builder step, for every log, every decomposition
  `toTree` and every indexing scheme — part B; no step needs more than its model guards give. For
  merges the c4 guard "`pathExists x y = false` for all distinct members" (PAIRS only) suffices for
  merge sets of any size (`C08A.Sep.fold`), and is in fact implied by the tuple check on an acyclic
  automaton (`c08_merge_path_guard_redundant`): it never fires during a build.
* `c08_topoOrder_of_acyclic`: Kahn's algorithm succeeds on an acyclic well-formed graph.
* `c08_build_acyclic_invariant` (any domain, any `toTree`, any log, all five main loops of the
  model): the automaton the main loop ends with satisfies the structural invariant, is acyclic, its
  Kahn sort succeeds and `populate_scopes` does not raise the acyclicity panic.
* `c08_str_build_acyclic_holds : c08_str_build_acyclic_target` (the target left open in
  `Props/C08.lean`), `c08_str_build_no_panic`, `c08_mat_build_no_panic`, `c08_char_build_no_panic`:
  **the disciplined builds never panic**, for every pattern list, every log, every fuel; with
  `fuel ≥ 16` every error is a guard error of the replay (`c08_*_build_guard_only`), and the combined
  statements `c08_str_total_final`, `c08_mat_total_final`. The strict build `buildTD` (c1D) never
  panics either (`c08_*_buildTD_no_panic`).
* The undisciplined `build` / `buildL` / `manyBuild` can panic with "unknown state" on a `Merge`
  event naming a vacant state (`c08_buildL_merge_dead_panics`), so "no panic" is false for them;
  part F: that is their ONLY panic (`c08_*_build_panic_only_unknown`,
  `c08_*_manyBuild_panic_only_unknown`).

Proofs: `Proofs/C08AcycCore` (definition, frames, `add_pattern`), `C08AcycFuse`, `C08AcycTree`,
`C08AcycDet`, `C08AcycMerge`, `C08AcycPath` (rank form ⇔ path form), `C08AcycMain` (iterations,
main loops, `populate_scopes`), `C08AcycBuild` (disciplined builds), `C08AcycLoose` (undisciplined
builds).
-/
import PmVerif.Proofs.C08AcycBuild
import PmVerif.Proofs.C08AcycLoose
import PmVerif.Proofs.C08AcycPath
import PmVerif.Props.C08
import PmVerif.Props.C09Reach
namespace Pm
open Automaton

/-! ## A. The definition -/

section Generic
variable {K P : Type}

/-- `C08A.Acyclic` is clause (a) of `Automaton.WF` (C09). -/
theorem c08_acyclic_def (a : Automaton K P) :
    C08A.Acyclic a ↔
      ∃ rank : Nat → Nat, ∀ t e, a.g.edge? t = some e → rank e.src < rank e.dst :=
  Iff.rfl

/-- Rank form ⇔ path form on a structurally well-formed graph: no live transition `u → v` with a
path `v →* u` over live transitions (`C08A.Reach`). -/
theorem c08_acyclic_iff_noCycle {a : Automaton K P} (hg : a.g.WF) :
    C08A.Acyclic a ↔
      ∀ t e, a.g.edge? t = some e → ¬ C08A.Reach a e.dst e.src :=
  C08A.acyclic_iff_noCycle hg

/-- The Boolean DFS `pathExists` of the c4 guard decides `C08A.Reach` on a well-formed graph. -/
theorem c08_pathExists_iff {a : Automaton K P} (hg : a.g.WF) (x y : Nat) :
    a.pathExists x y = true ↔ C08A.Reach a x y :=
  ⟨C08A.reach_of_pathExists hg, C08A.pathExists_of_reach hg⟩

/-! ## B. Every builder step preserves acyclicity (under the structural invariant `Inv`, which
every step preserves as well), for every log -/

variable [DecidableEq K] [DecidableEq P]

/-- `with_indexing_scheme` and any sequence of `add_pattern`. -/
theorem c08_acyclic_addPatterns {req : K → List K} {fuel : Nat}
    {ps : List (Nat × List (Constraint K P) × List K)} {a : Automaton K P}
    (h : addPatterns req fuel (new : Automaton K P) ps = .ok a) :
    C08A.Acyclic (new : Automaton K P) ∧ Inv a ∧ C08A.Acyclic a :=
  ⟨C08A.acyclic_new, (C08A.acyclic_addPatterns h).1, (C08A.acyclic_addPatterns h).2.2⟩

/-- `make_constraints_unique(s)` (`fuseGroup` / `absorbChildren` for every logged group). -/
theorem c08_acyclic_makeConstraintsUnique {a a' : Automaton K P} {s : Nat} {evs evs' : List Ev}
    (inv : Inv a) (hs : a.Live s) (H : C08A.Acyclic a)
    (h : a.makeConstraintsUnique s evs = .ok (a', evs')) : C08A.Acyclic a' :=
  C08A.acyclic_makeConstraintsUnique inv hs H h

/-- `insert_constraint_tree(s)`, for EVERY decomposition `toTree`. -/
theorem c08_acyclic_insertConstraintTree
    {toTree : List (Constraint K P) → Option (CTree (Constraint K P))}
    {a a' : Automaton K P} {s fuel : Nat} {det : Bool} (inv : Inv a) (hs : a.Live s)
    (H : C08A.Acyclic a) (h : insertConstraintTree toTree a s fuel = .ok (a', det)) :
    Inv a' ∧ a'.Live s ∧ C08A.Acyclic a' :=
  C08A.acyclic_insertConstraintTree inv hs H h

/-- `make_det(s)`, guarded and as the Rust code runs it (`split_target`, `appendCopies`), at a
state with at most one epsilon transition (what `make_constraints_unique(s)` leaves). -/
theorem c08_acyclic_makeDet {a a' : Automaton K P} {s : Nat} (inv : Inv a) (hs : a.Live s)
    (hle : ∀ w, a.g.weight? s = some w → w.eorder.length ≤ 1) (H : C08A.Acyclic a) :
    (a.makeDet s = .ok a' → Inv a' ∧ C08A.Acyclic a') ∧
    (a.makeDetL s = .ok a' → Inv a' ∧ C08A.Acyclic a') :=
  ⟨C08A.acyclic_makeDet inv hs hle H, C08A.acyclic_makeDetL inv hs hle H⟩

/-- One `Merge` event (`moveIncoming first n`, `removeState n` for every other member `n`): the c4
guard on PAIRS of members is enough, whatever the size of the merge set. -/
theorem c08_acyclic_doMerge {a a' : Automaton K P} {node : Nat} {nodes : List Nat} (inv : Inv a)
    (H : C08A.Acyclic a) (h : a.doMerge node nodes = .ok a') : Inv a' ∧ C08A.Acyclic a' :=
  C08A.acyclic_doMerge inv H h

/-- **The c4 path guard is implied by the c4 tuple guard** on an acyclic automaton: members of a
merge set that passes the tuple check have the same out-edges, so a path between two of them
would close a cycle. Hence no build is ever rejected with "c4: path between merged states". -/
theorem c08_merge_path_guard_redundant {a : Automaton K P} {node : Nat} {nodes : List Nat}
    {same : List Bool} (inv : Inv a) (H : C08A.Acyclic a)
    (hsame : mapR (fun n => a.sameTuple node n) nodes = .ok same) (hall : same.all id = true) :
    nodes.any (fun x => nodes.any fun y => x ≠ y ∧ a.pathExists x y) = false :=
  C08A.doMerge_path_guard_dead inv H hsame hall

/-- `populate_scopes` (the graph is unchanged). -/
theorem c08_acyclic_populateScopes {req : K → List K} {fuel : Nat} {a a' : Automaton K P}
    (H : C08A.Acyclic a) (h : populateScopes req fuel a = .ok a') : C08A.Acyclic a' :=
  C08A.acyclic_populateScopes H h

/-! ## C. Kahn's algorithm -/

/-- **The Kahn sort of `populate_scopes` succeeds on an acyclic well-formed graph** (the converse
is `c09_acyclic_sound`). -/
theorem c08_topoOrder_of_acyclic {a : Automaton K P} (hg : a.g.WF) (H : C08A.Acyclic a) :
    a.topoOrder.isSome = true :=
  C08A.topoOrder_of_acyclic hg H

/-! ## D. The invariant of the main loop, any domain -/

/-- What holds of the automaton a main loop ends with. -/
def C08A.EndOK (req : K → List K) (fuel : Nat) (a : Automaton K P) : Prop :=
  Inv a ∧ C08A.Acyclic a ∧ a.topoOrder.isSome = true ∧
    populateScopes req fuel a ≠ .error (.panic "Graph should be acyclic")

theorem C08A.endOK_of {req : K → List K} {fuel : Nat} {a : Automaton K P}
    (h : Inv a ∧ C08A.Acyclic a) : C08A.EndOK req fuel a :=
  ⟨h.1, h.2, C08A.topoOrder_of_acyclic h.1.wf h.2, C08A.populateScopes_no_acyclic_panic h.1 h.2⟩

/-- **Acyclicity is an invariant of the build**, for any domain, any decomposition `toTree`, any
scheme `req`, any pattern list, ANY event log, any fuel and any loop fuel `n`: whenever the main
loop returns — the disciplined loop with the guarded or the lenient `make_det`, the strict loop
(c1D), or the undisciplined loops of `Model/Builder.lean` — the automaton it ends with satisfies
the structural invariant, is acyclic, its Kahn sort succeeds, and `populate_scopes` does not raise
`expect("Graph should be acyclic")`. -/
theorem c08_build_acyclic_invariant
    (toTree : List (Constraint K P) → Option (CTree (Constraint K P))) (req : K → List K)
    (fuel : Nat) (patterns : List (Nat × List (Constraint K P) × List K)) (evs : List Ev)
    (n : Nat) (emitted : List Nat) (a1 a2 : Automaton K P)
    (h1 : addPatterns req fuel (new : Automaton K P) patterns = .ok a1) :
    (mainLoopWith makeDet toTree fuel n a1 emitted evs = .ok a2 → C08A.EndOK req fuel a2) ∧
    (mainLoopWith makeDetL toTree fuel n a1 emitted evs = .ok a2 → C08A.EndOK req fuel a2) ∧
    (mainLoopD makeDet toTree fuel n a1 emitted evs = .ok a2 → C08A.EndOK req fuel a2) ∧
    (mainLoop toTree fuel n a1 evs = .ok a2 → C08A.EndOK req fuel a2) ∧
    (mainLoopL toTree fuel n a1 evs = .ok a2 → C08A.EndOK req fuel a2) := by
  obtain ⟨inv1, _, H1⟩ := C08A.acyclic_addPatterns h1
  exact ⟨fun h => C08A.endOK_of (C08A.acyclic_mainLoopWith C08A.detAcyc_makeDet _ _ _ inv1 H1 h),
    fun h => C08A.endOK_of (C08A.acyclic_mainLoopWith C08A.detAcyc_makeDetL _ _ _ inv1 H1 h),
    fun h => C08A.endOK_of (C08A.acyclic_mainLoopD C08A.detAcyc_makeDet _ _ _ inv1 H1 h),
    fun h => C08A.endOK_of (C08A.acyclic_mainLoop _ _ inv1 H1 h),
    fun h => C08A.endOK_of (C08A.acyclic_mainLoopL _ _ inv1 H1 h)⟩

/-- Consequence for the five builds of the model, any domain: the acyclicity panic cannot come from
`populate_scopes`; if a build returns it, the main loop itself returned it (which the string and
matrix theorems of part E exclude for the disciplined builds). -/
theorem c08_finish_acyclic_panic_only_from_loop
    (toTree : List (Constraint K P) → Option (CTree (Constraint K P))) (req : K → List K)
    (fuel : Nat) (patterns : List (Nat × List (Constraint K P) × List K)) (evs : List Ev)
    (a1 : Automaton K P) (h1 : addPatterns req fuel (new : Automaton K P) patterns = .ok a1) :
    (finishWith makeDet toTree req fuel a1 evs = .error (.panic "Graph should be acyclic") →
      mainLoopWith makeDet toTree fuel evs.length a1 [] evs =
        .error (.panic "Graph should be acyclic")) ∧
    (finishWith makeDetL toTree req fuel a1 evs = .error (.panic "Graph should be acyclic") →
      mainLoopWith makeDetL toTree fuel evs.length a1 [] evs =
        .error (.panic "Graph should be acyclic")) ∧
    (finishD makeDet toTree req fuel a1 evs = .error (.panic "Graph should be acyclic") →
      mainLoopD makeDet toTree fuel evs.length a1 [] evs =
        .error (.panic "Graph should be acyclic")) ∧
    (finish toTree req fuel a1 evs = .error (.panic "Graph should be acyclic") →
      mainLoop toTree fuel evs.length a1 evs = .error (.panic "Graph should be acyclic")) ∧
    (finishL toTree req fuel a1 evs = .error (.panic "Graph should be acyclic") →
      mainLoopL toTree fuel evs.length a1 evs = .error (.panic "Graph should be acyclic")) := by
  have key := fun a2 => c08_build_acyclic_invariant toTree req fuel patterns evs evs.length [] a1
    a2 h1
  refine ⟨fun h => ?_, fun h => ?_, fun h => ?_, fun h => ?_, fun h => ?_⟩
  · unfold finishWith at h
    split at h
    · rename_i e he; rw [he]; exact h
    · rename_i a2 h2; exact absurd h ((key a2).1 h2).2.2.2
  · unfold finishWith at h
    split at h
    · rename_i e he; rw [he]; exact h
    · rename_i a2 h2; exact absurd h ((key a2).2.1 h2).2.2.2
  · unfold finishD at h
    split at h
    · rename_i e he; rw [he]; exact h
    · rename_i a2 h2; exact absurd h ((key a2).2.2.1 h2).2.2.2
  · unfold finish at h
    split at h
    · rename_i e he; rw [he]; exact h
    · rename_i a2 h2; exact absurd h ((key a2).2.2.2.1 h2).2.2.2
  · unfold finishL at h
    split at h
    · rename_i e he; rw [he]; exact h
    · rename_i a2 h2; exact absurd h ((key a2).2.2.2.2 h2).2.2.2

end Generic

/-! ## E. Strings and matrices: the disciplined builds never panic -/

/-- **The target left open in `Props/C08.lean` holds.** -/
theorem c08_str_build_acyclic_holds : c08_str_build_acyclic_target := by
  intro ps evs fuel inputs a1 a2 _ h1 h2
  exact ((c08_build_acyclic_invariant (charTree natLt) strReq fuel inputs evs evs.length [] a1 a2
    h1).2.1 h2).2.2.1

/-- Goal 3 of C08 at full strength for the Rust code path. -/
theorem c08_str_buildTL_no_panic : c08_str_buildTL_no_panic_target :=
  c08_str_buildTL_no_panic_of_acyclic c08_str_build_acyclic_holds

/-- **Goal 3, generic**: a disciplined build over arity-correct character constraints never
panics — any key type, any order `lt`, any scheme `req`, any log, any fuel. -/
theorem c08_char_build_no_panic {K : Type} [DecidableEq K] (lt : K → K → Bool)
    (req : K → List K) (fuel : Nat)
    (inputs : List (Nat × List (Constraint K CharPred) × List K))
    (har : ∀ p ∈ inputs, ∀ c ∈ p.2.1, c.args.length = c.pred.arity) (evs : List Ev) (tag : String) :
    buildTL (charTree lt) req fuel inputs evs ≠ .error (.panic tag) ∧
    buildT (charTree lt) req fuel inputs evs ≠ .error (.panic tag) :=
  ⟨fun h => (C08A.buildWith_fine (E := fun _ => False) C08.detOK_makeDetL C08A.detAcyc_makeDetL
      (c08_treeFine_char lt) req fuel inputs (fun p hp => ⟨har p hp, fun h => h.elim⟩)
      evs).not_panic tag h,
    fun h => (C08A.buildWith_fine (E := fun _ => False) C08.detOK_makeDet C08A.detAcyc_makeDet
      (c08_treeFine_char lt) req fuel inputs (fun p hp => ⟨har p hp, fun h => h.elim⟩)
      evs).not_panic tag h⟩

/-- **C08, goal 3, strings: the builder never panics.** For every pattern list, EVERY event log
and every fuel, the disciplined builds — `buildT` (guarded) and `buildTL` (the Rust code as it
runs) — do not return a panic: no `unwrap`/`expect`/`assert!`/index of the builder is reachable,
`expect("Graph should be acyclic")` included. -/
theorem c08_str_build_no_panic (ps : List (List CharVar)) (evs : List Ev) (fuel : Nat)
    (inputs : List (Nat × List StrCons × List Nat))
    (hin : manyInputs (fun p => some (strConstraints p)) (fun _ => ([] : List Nat)) true ps 0 =
      some inputs) (tag : String) :
    buildT (charTree natLt) strReq fuel inputs evs ≠ .error (.panic tag) ∧
    buildTL (charTree natLt) strReq fuel inputs evs ≠ .error (.panic tag) := by
  have har : ∀ p ∈ inputs, ∀ c ∈ p.2.1, c.args.length = c.pred.arity := by
    rintro ⟨j, cs, ex⟩ hmem
    obtain ⟨k, p, _, _, hc, _⟩ := (c06_ids_are_positions (fun p => some (strConstraints p))
      (fun _ => ([] : List Nat)) true ps 0 inputs hin j cs ex).mp hmem
    simp only [Option.some.injEq] at hc
    subst hc
    exact tdom_str_arity p
  exact (c08_char_build_no_panic natLt strReq fuel inputs har evs tag).symm

/-- **C08, goal 3, matrices: the builder never panics.** -/
theorem c08_mat_build_no_panic (ps : List MatPattern) (evs : List Ev) (fuel : Nat)
    (inputs : List (Nat × List MatCons × List MKey))
    (hin : manyInputs (fun p => some (matConstraints p)) (fun _ => ([] : List MKey)) true ps 0 =
      some inputs) (tag : String) :
    buildT (charTree mkeyLt) matReq fuel inputs evs ≠ .error (.panic tag) ∧
    buildTL (charTree mkeyLt) matReq fuel inputs evs ≠ .error (.panic tag) := by
  have har : ∀ p ∈ inputs, ∀ c ∈ p.2.1, c.args.length = c.pred.arity := by
    rintro ⟨j, cs, ex⟩ hmem
    obtain ⟨k, p, _, _, hc, _⟩ := (c06_ids_are_positions (fun p => some (matConstraints p))
      (fun _ => ([] : List MKey)) true ps 0 inputs hin j cs ex).mp hmem
    simp only [Option.some.injEq] at hc
    subst hc
    exact tdom_mat_arity p
  exact (c08_char_build_no_panic mkeyLt matReq fuel inputs har evs tag).symm

/-- The strict disciplined build `buildTD` (c1D: `buildT` restricted to logs on which no child of an
emitted state is deterministic) never panics either. -/
theorem c08_char_buildTD_no_panic {K : Type} [DecidableEq K] (lt : K → K → Bool)
    (req : K → List K) (fuel : Nat)
    (inputs : List (Nat × List (Constraint K CharPred) × List K))
    (har : ∀ p ∈ inputs, ∀ c ∈ p.2.1, c.args.length = c.pred.arity) (evs : List Ev) (tag : String) :
    buildTD (charTree lt) req fuel inputs evs ≠ .error (.panic tag) :=
  fun h => C08.Fine.not_panic (C08A.buildTD_only (E := fun _ => False) (A := C08.NoPanic)
    (fun _ => C08.IsGuard.noPanic) C08.detOK_makeDet (c08_treeFine_char lt) req fuel
    (C08.treeStepOK_fine _ fuel) (C08.mbOK_noPanic req fuel) inputs
    (fun p hp => ⟨har p hp, fun h => h.elim⟩) evs) tag h

theorem c08_str_buildTD_no_panic (ps : List (List CharVar)) (evs : List Ev) (fuel : Nat)
    (inputs : List (Nat × List StrCons × List Nat))
    (hin : manyInputs (fun p => some (strConstraints p)) (fun _ => ([] : List Nat)) true ps 0 =
      some inputs) (tag : String) :
    buildTD (charTree natLt) strReq fuel inputs evs ≠ .error (.panic tag) := by
  apply c08_char_buildTD_no_panic
  rintro ⟨j, cs, ex⟩ hmem
  obtain ⟨k, p, _, _, hc, _⟩ := (c06_ids_are_positions (fun p => some (strConstraints p))
    (fun _ => ([] : List Nat)) true ps 0 inputs hin j cs ex).mp hmem
  simp only [Option.some.injEq] at hc
  subst hc
  exact tdom_str_arity p

theorem c08_mat_buildTD_no_panic (ps : List MatPattern) (evs : List Ev) (fuel : Nat)
    (inputs : List (Nat × List MatCons × List MKey))
    (hin : manyInputs (fun p => some (matConstraints p)) (fun _ => ([] : List MKey)) true ps 0 =
      some inputs) (tag : String) :
    buildTD (charTree mkeyLt) matReq fuel inputs evs ≠ .error (.panic tag) := by
  apply c08_char_buildTD_no_panic
  rintro ⟨j, cs, ex⟩ hmem
  obtain ⟨k, p, _, _, hc, _⟩ := (c06_ids_are_positions (fun p => some (matConstraints p))
    (fun _ => ([] : List MKey)) true ps 0 inputs hin j cs ex).mp hmem
  simp only [Option.some.injEq] at hc
  subst hc
  exact tdom_mat_arity p

/-- **Goal 4 without exception, strings**: with `fuel ≥ 16` every error of the disciplined builds is
a guard error of the replay (the log is not one the Rust loop can produce): no panic, no fuel
error. -/
theorem c08_str_build_guard_only (ps : List (List CharVar)) (evs : List Ev) (fuel : Nat)
    (hfuel : 16 ≤ fuel) (inputs : List (Nat × List StrCons × List Nat))
    (hin : manyInputs (fun p => some (strConstraints p)) (fun _ => ([] : List Nat)) true ps 0 =
      some inputs) :
    (∀ e, buildTL (charTree natLt) strReq fuel inputs evs = .error e → C08.IsGuard e) ∧
    (∀ e, buildT (charTree natLt) strReq fuel inputs evs = .error e → C08.IsGuard e) := by
  have har : ∀ p ∈ inputs, ∀ c ∈ p.2.1, c.args.length = c.pred.arity := by
    rintro ⟨j, cs, ex⟩ hmem
    obtain ⟨k, p, _, _, hc, _⟩ := (c06_ids_are_positions (fun p => some (strConstraints p))
      (fun _ => ([] : List Nat)) true ps 0 inputs hin j cs ex).mp hmem
    simp only [Option.some.injEq] at hc
    subst hc
    exact tdom_str_arity p
  obtain ⟨h1, h2⟩ := C08A.char_buildWith_guardOnly natLt (0 : Nat) hfuel inputs har evs
  exact ⟨fun e he => h1 e he, fun e he => h2 e he⟩

/-- **Goal 4 without exception, matrices.** -/
theorem c08_mat_build_guard_only (ps : List MatPattern) (evs : List Ev) (fuel : Nat)
    (hfuel : 16 ≤ fuel) (inputs : List (Nat × List MatCons × List MKey))
    (hin : manyInputs (fun p => some (matConstraints p)) (fun _ => ([] : List MKey)) true ps 0 =
      some inputs) :
    (∀ e, buildTL (charTree mkeyLt) matReq fuel inputs evs = .error e → C08.IsGuard e) ∧
    (∀ e, buildT (charTree mkeyLt) matReq fuel inputs evs = .error e → C08.IsGuard e) := by
  have har : ∀ p ∈ inputs, ∀ c ∈ p.2.1, c.args.length = c.pred.arity := by
    rintro ⟨j, cs, ex⟩ hmem
    obtain ⟨k, p, _, _, hc, _⟩ := (c06_ids_are_positions (fun p => some (matConstraints p))
      (fun _ => ([] : List MKey)) true ps 0 inputs hin j cs ex).mp hmem
    simp only [Option.some.injEq] at hc
    subst hc
    exact tdom_mat_arity p
  obtain ⟨h1, h2⟩ :=
    C08A.char_buildWith_guardOnly mkeyLt ((0 : Int), (0 : Int)) hfuel inputs har evs
  exact ⟨fun e he => h1 e he, fun e he => h2 e he⟩

/-- **C08 for strings, the Rust code path, final form** (`c08_str_total_TL` without the acyclicity
exception): for every pattern list, every event log and `fuel ≥ 16`, `buildTL` returns `.ok` or a
guard error; the traversal of every automaton it returns, on every host and with every fuel,
returns `.ok`, the fuel error (never above the explicit bound), or the `fail_next_state` panic
(only if some state has two epsilon transitions). -/
theorem c08_str_total_final (ps : List (List CharVar)) (evs : List Ev) (fuel : Nat)
    (hfuel : 16 ≤ fuel) (inputs : List (Nat × List StrCons × List Nat))
    (hin : manyInputs (fun p => some (strConstraints p)) (fun _ => ([] : List Nat)) true ps 0 =
      some inputs) :
    (∀ e, buildTL (charTree natLt) strReq fuel inputs evs = .error e → C08.IsGuard e) ∧
    (∀ e, buildT (charTree natLt) strReq fuel inputs evs = .error e → C08.IsGuard e) ∧
    ∀ A, buildTL (charTree natLt) strReq fuel inputs evs = .ok A → ∀ (h : List Nat) (fuel' : Nat),
      (∀ tag, run strDomain A h fuel' = .error (.panic tag) →
        tag = C08.failTag ∧ ¬ C08.EpsLe1 A) ∧
      (C08.strRunBound A h ≤ fuel' → ∀ tag, run strDomain A h fuel' ≠ .error (.fuel tag)) ∧
      (C08.EpsLe1 A → C08.strRunBound A h ≤ fuel' →
        ∃ ms seen, run strDomain A h fuel' = .ok (ms, seen)) :=
  ⟨(c08_str_build_guard_only ps evs fuel hfuel inputs hin).1,
    (c08_str_build_guard_only ps evs fuel hfuel inputs hin).2,
    (c08_str_total_TL ps evs fuel hfuel inputs hin).2⟩

/-- **C08 for matrices, the Rust code path, final form.** -/
theorem c08_mat_total_final (ps : List MatPattern) (evs : List Ev) (fuel : Nat)
    (hfuel : 16 ≤ fuel) (inputs : List (Nat × List MatCons × List MKey))
    (hin : manyInputs (fun p => some (matConstraints p)) (fun _ => ([] : List MKey)) true ps 0 =
      some inputs) :
    (∀ e, buildTL (charTree mkeyLt) matReq fuel inputs evs = .error e → C08.IsGuard e) ∧
    (∀ e, buildT (charTree mkeyLt) matReq fuel inputs evs = .error e → C08.IsGuard e) ∧
    ∀ A, buildTL (charTree mkeyLt) matReq fuel inputs evs = .ok A → ∀ (h : MatHost) (fuel' : Nat),
      (∀ tag, run matDomain A h fuel' = .error (.panic tag) →
        tag = C08.failTag ∧ ¬ C08.EpsLe1 A) ∧
      (C08.matRunBound A h ≤ fuel' → ∀ tag, run matDomain A h fuel' ≠ .error (.fuel tag)) ∧
      (C08.EpsLe1 A → C08.matRunBound A h ≤ fuel' →
        ∃ ms seen, run matDomain A h fuel' = .ok (ms, seen)) :=
  ⟨(c08_mat_build_guard_only ps evs fuel hfuel inputs hin).1,
    (c08_mat_build_guard_only ps evs fuel hfuel inputs hin).2,
    (c08_mat_total_TL ps evs fuel hfuel inputs hin).2⟩

/-! ## F. The undisciplined replays `build` / `buildL` / `manyBuild`

They accept any `Topo` sequence of live states and any same-tuple, path-free merge set, and
evaluate `state_tuple` of the ids a `Merge` event supplies before any liveness check: on a vacant
id they panic with "unknown state" (`c08_buildL_merge_dead_panics`). That is their ONLY panic. -/

/-- **Undisciplined builds, generic character constraints**: the only panic is "unknown state". -/
theorem c08_char_build_panic_only_unknown {K : Type} [DecidableEq K] (lt : K → K → Bool)
    (req : K → List K) (fuel : Nat)
    (inputs : List (Nat × List (Constraint K CharPred) × List K))
    (har : ∀ p ∈ inputs, ∀ c ∈ p.2.1, c.args.length = c.pred.arity) (evs : List Ev) (tag : String) :
    (build (charTree lt) req fuel inputs evs = .error (.panic tag) → tag = "unknown state") ∧
    (buildL (charTree lt) req fuel inputs evs = .error (.panic tag) → tag = "unknown state") := by
  obtain ⟨h1, h2⟩ := C08A.build_loose (E := fun _ => False) (c08_treeFine_char lt) req fuel inputs
    (fun p hp => ⟨har p hp, fun h => h.elim⟩) evs
  exact ⟨fun h => h1 _ h tag rfl, fun h => h2 _ h tag rfl⟩

theorem c08_str_build_panic_only_unknown (ps : List (List CharVar)) (evs : List Ev) (fuel : Nat)
    (inputs : List (Nat × List StrCons × List Nat))
    (hin : manyInputs (fun p => some (strConstraints p)) (fun _ => ([] : List Nat)) true ps 0 =
      some inputs) (tag : String) :
    (build (charTree natLt) strReq fuel inputs evs = .error (.panic tag) →
      tag = "unknown state") ∧
    (buildL (charTree natLt) strReq fuel inputs evs = .error (.panic tag) →
      tag = "unknown state") := by
  apply c08_char_build_panic_only_unknown
  rintro ⟨j, cs, ex⟩ hmem
  obtain ⟨k, p, _, _, hc, _⟩ := (c06_ids_are_positions (fun p => some (strConstraints p))
    (fun _ => ([] : List Nat)) true ps 0 inputs hin j cs ex).mp hmem
  simp only [Option.some.injEq] at hc
  subst hc
  exact tdom_str_arity p

theorem c08_mat_build_panic_only_unknown (ps : List MatPattern) (evs : List Ev) (fuel : Nat)
    (inputs : List (Nat × List MatCons × List MKey))
    (hin : manyInputs (fun p => some (matConstraints p)) (fun _ => ([] : List MKey)) true ps 0 =
      some inputs) (tag : String) :
    (build (charTree mkeyLt) matReq fuel inputs evs = .error (.panic tag) →
      tag = "unknown state") ∧
    (buildL (charTree mkeyLt) matReq fuel inputs evs = .error (.panic tag) →
      tag = "unknown state") := by
  apply c08_char_build_panic_only_unknown
  rintro ⟨j, cs, ex⟩ hmem
  obtain ⟨k, p, _, _, hc, _⟩ := (c06_ids_are_positions (fun p => some (matConstraints p))
    (fun _ => ([] : List MKey)) true ps 0 inputs hin j cs ex).mp hmem
  simp only [Option.some.injEq] at hc
  subst hc
  exact tdom_mat_arity p

/-- `ManyMatcher` construction as an event replay (`manyBuild`, over the guarded `build`), strings:
for every pattern list, every log and every fuel, its only panic is "unknown state". -/
theorem c08_str_manyBuild_panic_only_unknown (ps : List (List CharVar)) (evs : List Ev)
    (fuel : Nat) (tag : String)
    (h : manyBuild (fun p => some (strConstraints p)) (fun _ => ([] : List Nat))
      (charTree natLt) strReq fuel true ps evs = some (.error (.panic tag))) :
    tag = "unknown state" := by
  unfold manyBuild at h
  cases hi : manyInputs (fun p => some (strConstraints p)) (fun _ => ([] : List Nat)) true ps 0 with
  | none => simp [hi] at h
  | some inputs =>
    simp only [hi] at h
    cases hb : build (charTree natLt) strReq fuel inputs evs with
    | ok A => simp [hb] at h
    | error e =>
      simp only [hb, Option.some.injEq, Except.error.injEq] at h
      subst h
      exact (c08_str_build_panic_only_unknown ps evs fuel inputs hi tag).1 hb

theorem c08_mat_manyBuild_panic_only_unknown (ps : List MatPattern) (evs : List Ev)
    (fuel : Nat) (tag : String)
    (h : manyBuild (fun p => some (matConstraints p)) (fun _ => ([] : List MKey))
      (charTree mkeyLt) matReq fuel true ps evs = some (.error (.panic tag))) :
    tag = "unknown state" := by
  unfold manyBuild at h
  cases hi : manyInputs (fun p => some (matConstraints p)) (fun _ => ([] : List MKey)) true ps 0 with
  | none => simp [hi] at h
  | some inputs =>
    simp only [hi] at h
    cases hb : build (charTree mkeyLt) matReq fuel inputs evs with
    | ok A => simp [hb] at h
    | error e =>
      simp only [hb, Option.some.injEq, Except.error.injEq] at h
      subst h
      exact (c08_mat_build_panic_only_unknown ps evs fuel inputs hi tag).1 hb

/-! ## Non-vacuity -/

namespace C08A

/-- The inputs of the patterns `ab`, the empty pattern, `a$x$x` of `Props/TRunStr.lean`. -/
def exInputs : List (Nat × List StrCons × List Nat) :=
  (manyInputs (fun p => some (strConstraints p)) (fun _ => ([] : List Nat)) true
    exStrPatterns2 0).getD []

/-- The automaton after `add_pattern`. -/
def exA1 : Automaton Nat CharPred := C09Ex.okOr new (addPatterns strReq 50 new exInputs)

/-- The automaton the disciplined main loop (Rust code path) ends with on `c08ExEvents`. -/
def exA2 : Automaton Nat CharPred :=
  C09Ex.okOr new (mainLoopWith makeDetL (charTree natLt) 50 c08ExEvents.length exA1 [] c08ExEvents)

/-- The automata before and after the two merges of `C09ReachEx.evs`. -/
def exM1 : Automaton Nat CharPred :=
  C09Ex.okOr new (addPatterns strReq 16 new C09ReachEx.pats)

def exM2 : Automaton Nat CharPred :=
  C09Ex.okOr new (mainLoop (charTree natLt) 16 C09ReachEx.evs.length exM1 C09ReachEx.evs)

/-- Patterns `a`, `c` compiled under the SAME id `0`, and `$x b` (id 1): after `make_det(root)` the
states 1 and 2 are twins (accept id 0, one transition `'b'@1 → 3` copied from the fail state). -/
def exTPats : List (Nat × List StrCons × List Nat) :=
  [(0, [⟨.constVal 97, [0]⟩], []), (0, [⟨.constVal 99, [0]⟩], []), (1, [⟨.constVal 98, [1]⟩], [])]

/-- A DISCIPLINED log (c1T, c4T, c1C) with a merge: 2 is folded into its sibling 1 (both are
parents of 3, the first child of 1). -/
def exTEvs : List Ev :=
  [.topo 0, .detAsk 0, .detYes 0, .merge 1 [1, 2], .iterEnd 0, .topo 1, .detAsk 1, .detYes 1,
   .iterEnd 1, .topo 4, .detAsk 4, .detYes 4, .iterEnd 4, .topo 3, .iterEnd 3]

def exT1 : Automaton Nat CharPred := C09Ex.okOr new (addPatterns strReq 16 new exTPats)

def exT2 : Automaton Nat CharPred :=
  C09Ex.okOr new (mainLoopWith makeDetL (charTree natLt) 16 exTEvs.length exT1 [] exTEvs)

/-- A well-formed two-state cycle. -/
def cyc : Automaton Nat Nat :=
  ⟨⟨[some ⟨{}, [0], [1]⟩, some ⟨{}, [1], [0]⟩], [some ⟨0, 1, none⟩, some ⟨1, 0, none⟩], [], []⟩, 0⟩

end C08A

/-- The disciplined log `c08ExEvents` of `Props/C08.lean` (patterns `ab`, the empty pattern,
`a$x$x`; a fused group, a constraint tree with a fail state, two `make_det`): the hypotheses of
`c08_str_build_acyclic_holds` hold, the main loop returns, and the automaton it ends with is
acyclic with a successful Kahn sort — the latter also checked by evaluation. -/
example :
    manyInputs (fun p => some (strConstraints p)) (fun _ => ([] : List Nat)) true
      exStrPatterns2 0 = some C08A.exInputs ∧
    addPatterns strReq 50 (Automaton.new : Automaton Nat CharPred) C08A.exInputs =
      .ok C08A.exA1 ∧
    mainLoopWith makeDetL (charTree natLt) 50 c08ExEvents.length C08A.exA1 [] c08ExEvents =
      .ok C08A.exA2 ∧
    C08A.Acyclic C08A.exA2 ∧ C08A.exA2.topoOrder.isSome = true ∧
    C08A.exA2.topoOrder = some [0, 5, 2, 3, 4] := by
  have h0 : manyInputs (fun p => some (strConstraints p)) (fun _ => ([] : List Nat)) true
      exStrPatterns2 0 = some C08A.exInputs := rfl
  have h1 : addPatterns strReq 50 (Automaton.new : Automaton Nat CharPred) C08A.exInputs =
      .ok C08A.exA1 := rfl
  have h2 : mainLoopWith makeDetL (charTree natLt) 50 c08ExEvents.length C08A.exA1 []
      c08ExEvents = .ok C08A.exA2 := rfl
  refine ⟨h0, h1, h2, ?_, ?_, by decide⟩
  · exact ((c08_build_acyclic_invariant (charTree natLt) strReq 50 _ c08ExEvents _ [] _ _
      h1).2.1 h2).2.1
  · exact c08_str_build_acyclic_holds exStrPatterns2 c08ExEvents 50 _ _ _ h0 h1 h2

/-- A log with two successful `Merge` events (`Props/C09Reach.lean`: two twins folded, then their
parents; the c4 path guard is evaluated on both sets): the undisciplined main loop returns —
five states before, three after — and part D applies. -/
example :
    addPatterns strReq 16 (Automaton.new : Automaton Nat CharPred) C09ReachEx.pats =
      .ok C08A.exM1 ∧
    mainLoop (charTree natLt) 16 C09ReachEx.evs.length C08A.exM1 C09ReachEx.evs = .ok C08A.exM2 ∧
    C08A.exM1.g.nodeCount = 5 ∧ C08A.exM2.g.nodeCount = 3 ∧ C08A.EndOK strReq 16 C08A.exM2 := by
  have h1 : addPatterns strReq 16 (Automaton.new : Automaton Nat CharPred) C09ReachEx.pats =
      .ok C08A.exM1 := rfl
  have h2 : mainLoop (charTree natLt) 16 C09ReachEx.evs.length C08A.exM1 C09ReachEx.evs =
      .ok C08A.exM2 := rfl
  refine ⟨h1, h2, by decide, by decide, ?_⟩
  exact (c08_build_acyclic_invariant (charTree natLt) strReq 16 C09ReachEx.pats C09ReachEx.evs
    _ [] _ _ h1).2.2.2.1 h2

/-- A disciplined log with a `Merge` event admissible under c4T: the disciplined main loop (Rust
code path) returns — four states before the loop, four after (one fail state added, the twin 2
folded into 1) — part D applies, and both disciplined builds succeed (so, in particular, do not panic:
`c08_char_build_no_panic`, whose arity hypothesis holds). -/
example :
    addPatterns strReq 16 (Automaton.new : Automaton Nat CharPred) C08A.exTPats = .ok C08A.exT1 ∧
    mainLoopWith makeDetL (charTree natLt) 16 C08A.exTEvs.length C08A.exT1 [] C08A.exTEvs =
      .ok C08A.exT2 ∧
    C08A.exT1.g.nodeCount = 4 ∧ C08A.exT2.g.nodeCount = 4 ∧ C08A.exT2.g.containsNode 2 = false ∧
    C08A.EndOK strReq 16 C08A.exT2 ∧
    (∀ p ∈ C08A.exTPats, ∀ c ∈ p.2.1, c.args.length = c.pred.arity) ∧
    (∃ A, buildTL (charTree natLt) strReq 16 C08A.exTPats C08A.exTEvs = .ok A ∧
      buildT (charTree natLt) strReq 16 C08A.exTPats C08A.exTEvs = .ok A) := by
  have h1 : addPatterns strReq 16 (Automaton.new : Automaton Nat CharPred) C08A.exTPats =
      .ok C08A.exT1 := rfl
  have h2 : mainLoopWith makeDetL (charTree natLt) 16 C08A.exTEvs.length C08A.exT1 []
      C08A.exTEvs = .ok C08A.exT2 := rfl
  refine ⟨h1, h2, by decide, by decide, by decide, ?_, by decide, ⟨_, rfl, rfl⟩⟩
  exact (c08_build_acyclic_invariant (charTree natLt) strReq 16 C08A.exTPats C08A.exTEvs
    _ [] _ _ h1).2.1 h2

/-- `C08A.Acyclic` is not vacuous: a well-formed two-state cycle is not acyclic, its Kahn sort
fails, and `populate_scopes` raises the panic (the state the invariant excludes). -/
example : ¬ C08A.Acyclic C08A.cyc ∧ C08A.cyc.topoOrder = none ∧
    populateScopes (fun _ => []) 10 C08A.cyc = .error (.panic "Graph should be acyclic") := by
  refine ⟨?_, by decide, by rfl⟩
  rintro ⟨rank, m⟩
  have h1 := m 0 ⟨0, 1, none⟩ rfl
  have h2 := m 1 ⟨1, 0, none⟩ rfl
  simp only at h1 h2
  omega

end Pm
