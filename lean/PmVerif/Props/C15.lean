/-
Props/C15.lean — property C15: the online topological sort (`OnlineToposort`) over a
`StableGraph` that is edited between calls.

On an acyclic graph whose only source is the root, and while that graph is being edited between
calls in the documented ways, the traversal emits each node at most once (`c15_once`), emits a
node only after all of its current predecessors (`c15_next_emits`, `c15_after_preds`,
`c15_after_preds_at`), and when it reports exhaustion every node of the graph has been emitted
(`c15_exhaustive`, `c15_exhaustive_hist`) — for all graphs, histories and scan orders. One call
always terminates on a well-formed graph (`c15_terminates`). The Boolean admissibility checker
evaluated by the test driver implies the Prop-level hypotheses (`c15_isAcyclic_sound`,
`c15_admState_sound`), and the graph operations preserve well-formedness (`c15_wf_*`).

Only property theorems and non-vacuity examples live here; proofs are in `Proofs/TopoLemmas`.
-/
import PmVerif.Proofs.TopoLemmas
namespace Pm
variable {N E : Type}

/-! ### One call of `next` -/

/-- An emitted node is live, all of its current predecessors are visited, it is appended to the
visited list, and the new stack is what remains below it of the old stack — or, if the old stack
ran empty, of the refill (`dropped` are the vacant / not-ready nodes popped above it). -/
theorem c15_next_emits {g : SGraph N E} {scan : List Nat} {fuel : Nat} {t t' : Topo} {n : Nat}
    (h : Topo.next g scan fuel t = some (some n, t')) :
    g.containsNode n = true ∧ Topo.isReady g t.visited n = true ∧
      (∀ p ∈ g.preds n, p ∈ t.visited) ∧ t'.visited = t.visited ++ [n] ∧
      ∃ st dropped, (st = t.stack ∨ Topo.refill g t scan = some st) ∧
        st = t'.stack ++ n :: dropped := by
  obtain ⟨h1, h2, h3, h4⟩ := (Topo.next_run h).emit_spec
  exact ⟨h1, h2, Topo.isReady_iff.1 h2, h3, h4⟩

/-- Exhaustion leaves the visited list unchanged and the stack empty; the refill scan found
nothing, and every node that was still on the stack was vacant or not ready. -/
theorem c15_next_none {g : SGraph N E} {scan : List Nat} {fuel : Nat} {t t' : Topo}
    (h : Topo.next g scan fuel t = some (none, t')) :
    t'.visited = t.visited ∧ t'.stack = [] ∧ Topo.refill g t scan = none ∧
      ∀ n ∈ t.stack, ¬ (g.containsNode n = true ∧ Topo.isReady g t.visited n = true) :=
  (Topo.next_run h).none_spec

/-- A successful refill yields a non-empty, duplicate-free list of ready unvisited successors of
one scanned node. -/
theorem c15_refill_some {g : SGraph N E} {t : Topo} {scan ready : List Nat}
    (h : Topo.refill g t scan = some ready) :
    ready ≠ [] ∧ ready.Nodup ∧ ∃ v ∈ scan, ∀ n ∈ ready,
      n ∈ g.succs v ∧ Topo.isReady g t.visited n = true ∧ n ∉ t.visited :=
  Topo.refill_some h

theorem c15_inv_new (root : Nat) : TopoInv (Topo.new root) := topoInv_new root

theorem c15_inv_next {g : SGraph N E} {scan : List Nat} {fuel : Nat} {t t' : Topo}
    {r : Option Nat} (inv : TopoInv t) (h : Topo.next g scan fuel t = some (r, t')) :
    TopoInv t' :=
  (Topo.next_run h).inv inv

theorem c15_emit_fresh {g : SGraph N E} {scan : List Nat} {fuel : Nat} {t t' : Topo} {n : Nat}
    (inv : TopoInv t) (h : Topo.next g scan fuel t = some (some n, t')) : n ∉ t.visited :=
  (Topo.next_run h).emit_fresh inv

/-- On a well-formed graph one call needs at most `stack.length + 1` loop passes. -/
theorem c15_terminates_bound {g : SGraph N E} (wf : g.WF) (scan : List Nat) (t : Topo) :
    (Topo.next g scan (t.stack.length + 1) t).isSome = true :=
  Topo.next_isSome wf scan _ t rfl

theorem c15_terminates {g : SGraph N E} (wf : g.WF) (scan : List Nat) (t : Topo) :
    ∃ fuel, (Topo.next g scan fuel t).isSome = true :=
  ⟨_, c15_terminates_bound wf scan t⟩

theorem c15_fuel_mono {g : SGraph N E} {scan : List Nat} {fuel fuel' : Nat} {t : Topo}
    {res : Option Nat × Topo} (h : Topo.next g scan fuel t = some res) (hle : fuel ≤ fuel') :
    Topo.next g scan fuel' t = some res :=
  Topo.next_fuel_mono h hle

/-- The root stays queued until it is emitted, as long as it is live and, while unvisited, has
no predecessors (both follow from the hypotheses of `c15_exhaustive`). -/
theorem c15_root_inv_next {g : SGraph N E} {scan : List Nat} {fuel : Nat} {t t' : Topo}
    {r : Option Nat} {root : Nat} (hlive : g.containsNode root = true)
    (hsrc : root ∉ t.visited → g.preds root = [])
    (ri : root ∈ t.visited ∨ root ∈ t.stack) (h : Topo.next g scan fuel t = some (r, t')) :
    root ∈ t'.visited ∨ root ∈ t'.stack :=
  (Topo.next_run h).rootInv hlive hsrc ri

/-- Exhaustion on an admissible state: every live node has been emitted. -/
theorem c15_exhaustive {g : SGraph N E} {scan : List Nat} {fuel : Nat} {t t' : Topo} {root : Nat}
    (wf : g.WF) (adm : AdmState g root t.visited) (hscan : ∀ v ∈ t.visited, v ∈ scan)
    (ri : root ∈ t.visited ∨ root ∈ t.stack) (hlive : g.containsNode root = true)
    (inv : TopoInv t) (h : Topo.next g scan fuel t = some (none, t')) :
    ∀ n, g.containsNode n = true → n ∈ t.visited :=
  (Topo.next_run h).exhaustive wf adm hscan ri hlive inv

/-! ### Histories of calls, each seeing its own graph -/

/-- Each node is emitted at most once — whatever the graphs and scan orders. -/
theorem c15_once {fuel root : Nat} {hist : List (SGraph N E × List Nat)}
    {outs : List (Option Nat)} {t : Topo}
    (h : Topo.runHist fuel (Topo.new root) hist = some (outs, t)) :
    (outs.filterMap id).Nodup ∧ t.visited = outs.filterMap id := by
  obtain ⟨_, h2, h3⟩ := Topo.runHist_once (topoInv_new root) (by simp [Topo.new]) h
  have : t.visited = outs.filterMap id := by simpa [Topo.new] using h3
  exact ⟨this ▸ h2, this⟩

/-- One result per call. -/
theorem c15_outs_length {fuel : Nat} {t0 t : Topo} {hist : List (SGraph N E × List Nat)}
    {outs : List (Option Nat)} (h : Topo.runHist fuel t0 hist = some (outs, t)) :
    outs.length = hist.length :=
  Topo.runHist_length h

/-- If the `i`-th call, seeing graph `g`, emits `n`, then `n` is live in `g` and every current
predecessor of `n` in `g` was emitted by an earlier call. -/
theorem c15_after_preds_at {fuel root : Nat} {hist : List (SGraph N E × List Nat)}
    {outs : List (Option Nat)} {t : Topo}
    (h : Topo.runHist fuel (Topo.new root) hist = some (outs, t))
    (i : Nat) (g : SGraph N E) (scan : List Nat) (n : Nat)
    (hi : hist[i]? = some (g, scan)) (ho : outs[i]? = some (some n)) :
    g.containsNode n = true ∧ ∀ p ∈ g.preds n, p ∈ (outs.take i).filterMap id := by
  simpa [Topo.new] using Topo.runHist_after_preds h i g scan n hi ho

/-- The same, for the last call of a history. -/
theorem c15_after_preds {fuel root : Nat} {pre : List (SGraph N E × List Nat)}
    {g : SGraph N E} {scan : List Nat} {outs : List (Option Nat)} {n : Nat} {t : Topo}
    (h : Topo.runHist fuel (Topo.new root) (pre ++ [(g, scan)]) = some (outs ++ [some n], t)) :
    ∀ p ∈ g.preds n, p ∈ outs.filterMap id := by
  have hlen := c15_outs_length h
  simp only [List.length_append, List.length_singleton, Nat.add_right_cancel_iff] at hlen
  have := (c15_after_preds_at h pre.length g scan n (by simp) (by simp [← hlen])).2
  simpa [← hlen] using this

/-- If the calls up to the `i`-th see well-formed graphs in admissible states (with respect to
the nodes emitted before each call), scan orders covering the emitted nodes, and a live root,
then whenever the `i`-th call reports exhaustion every live node of its graph has been emitted
before. -/
theorem c15_exhaustive_hist {fuel root : Nat} {hist : List (SGraph N E × List Nat)}
    {outs : List (Option Nat)} {t : Topo}
    (h : Topo.runHist fuel (Topo.new root) hist = some (outs, t)) (i : Nat)
    (H : ∀ j, j ≤ i → ∀ (g : SGraph N E) (scan : List Nat), hist[j]? = some (g, scan) →
      g.WF ∧ AdmState g root ((outs.take j).filterMap id) ∧
      (∀ v ∈ (outs.take j).filterMap id, v ∈ scan) ∧ g.containsNode root = true)
    (g : SGraph N E) (scan : List Nat) (hi : hist[i]? = some (g, scan))
    (ho : outs[i]? = some none) :
    ∀ n, g.containsNode n = true → n ∈ (outs.take i).filterMap id := by
  have := Topo.runHist_exhaustive (topoInv_new root) (rootInv_new root) h i
    (by simpa [Topo.new] using H) g scan hi ho
  simpa [Topo.new] using this

/-- The root invariant of `c15_exhaustive` holds after any history all of whose calls see a live
root that has no predecessors while it is unvisited (both implied by the hypotheses of
`c15_exhaustive_hist`: `AdmState.source`). -/
theorem c15_root_inv_hist {fuel root : Nat} {hist : List (SGraph N E × List Nat)}
    {outs : List (Option Nat)} {t : Topo}
    (h : Topo.runHist fuel (Topo.new root) hist = some (outs, t))
    (H : ∀ j (g : SGraph N E) (scan : List Nat), hist[j]? = some (g, scan) →
      g.containsNode root = true ∧
      (root ∉ (outs.take j).filterMap id → g.preds root = [])) :
    root ∈ t.visited ∨ root ∈ t.stack :=
  Topo.runHist_rootInv (rootInv_new root) h (by simpa [Topo.new] using H)

/-! ### The Boolean checkers of the test driver imply the Prop-level hypotheses -/

/-- Soundness of the Kahn test (holds without well-formedness). -/
theorem c15_isAcyclic_sound {g : SGraph N E} (h : g.isAcyclic = true) : g.Acyclic :=
  SGraph.isAcyclic_sound h

theorem c15_admState_sound {g : SGraph N E} {root : Nat} {visited : List Nat}
    (h : admState g root visited = true) : AdmState g root visited :=
  admState_sound h

/-! ### The graph model: every operation preserves well-formedness

Finding: `SGraph.WF` says nothing about the free lists, yet `addNode` / `addEdge` reuse the head
of the free list as a vacant slot, so `WF` alone is *not* preserved by them
(`c15_wf_addNode_needs_free`, `c15_wf_addEdge_needs_free`: states unreachable from `empty`).
The theorems carry the minimal extra hypothesis "the reused slot, if any, is vacant (and inside
the edge table)"; it follows from `SGraph.FreeOK`, which holds of `empty` and is itself preserved
by every operation, so `WF ∧ FreeOK` is an inductive invariant of the model. -/

theorem c15_wf_empty : (SGraph.empty : SGraph N E).WF := SGraph.wf_empty

theorem c15_wf_addNode {g : SGraph N E} (wf : g.WF) (w : N)
    (hfree : ∀ i, g.freeNodes.head? = some i → g.node? i = none) : (g.addNode w).1.WF :=
  SGraph.wf_addNode wf w hfree

theorem c15_wf_addEdge {g g' : SGraph N E} (wf : g.WF) {a b e : Nat} {w : E}
    (hfree : ∀ x, g.freeEdges.head? = some x → x < g.edges.length ∧ g.edge? x = none)
    (h : g.addEdge a b w = .ok (g', e)) : g'.WF :=
  SGraph.wf_addEdge wf hfree h

theorem c15_wf_removeEdge {g g' : SGraph N E} (wf : g.WF) {e : Nat} {ed : GEdge E}
    (h : g.removeEdge e = some (g', ed)) : g'.WF :=
  SGraph.wf_removeEdge wf h

theorem c15_wf_removeEdges {g : SGraph N E} (wf : g.WF) (es : List Nat) :
    (g.removeEdges es).WF :=
  SGraph.wf_removeEdges es wf

theorem c15_wf_removeNode {g : SGraph N E} (wf : g.WF) (a : Nat) : (g.removeNode a).WF :=
  SGraph.wf_removeNode wf a

/-- `FreeOK` provides the extra hypotheses of `c15_wf_addNode` and `c15_wf_addEdge`. -/
theorem c15_freeOK_head {g : SGraph N E} (fo : g.FreeOK) :
    (∀ i, g.freeNodes.head? = some i → g.node? i = none) ∧
      (∀ x, g.freeEdges.head? = some x → x < g.edges.length ∧ g.edge? x = none) :=
  ⟨fo.head_node, fo.head_edge⟩

theorem c15_freeOK_empty : (SGraph.empty : SGraph N E).FreeOK := SGraph.freeOK_empty

theorem c15_freeOK_addNode {g : SGraph N E} (fo : g.FreeOK) (w : N) : (g.addNode w).1.FreeOK :=
  SGraph.freeOK_addNode fo w

theorem c15_freeOK_addEdge {g g' : SGraph N E} (fo : g.FreeOK) {a b e : Nat} {w : E}
    (h : g.addEdge a b w = .ok (g', e)) : g'.FreeOK :=
  SGraph.freeOK_addEdge fo h

theorem c15_freeOK_removeEdge {g g' : SGraph N E} (fo : g.FreeOK) {e : Nat} {ed : GEdge E}
    (h : g.removeEdge e = some (g', ed)) : g'.FreeOK :=
  SGraph.freeOK_removeEdge fo h

theorem c15_freeOK_removeNode {g : SGraph N E} (fo : g.FreeOK) (a : Nat) :
    (g.removeNode a).FreeOK :=
  SGraph.freeOK_removeNode fo a

/-- `addNode` on a `WF` state whose node free list names an occupied slot breaks `WF`. -/
theorem c15_wf_addNode_needs_free :
    C15Ex.badN.WF ∧ ¬ (C15Ex.badN.addNode ()).1.WF := by
  refine ⟨C15Ex.badN_wf, fun wf => ?_⟩
  obtain ⟨nd, hnd, hm⟩ := wf.edge_src 0 ⟨0, 0, ()⟩ rfl
  have h2 : (C15Ex.badN.addNode ()).1.node? 0 = some ⟨(), [], []⟩ := rfl
  rw [h2] at hnd
  cases hnd
  cases hm

/-- `addEdge` on a `WF` state whose edge free list names a slot outside the edge table breaks
`WF`. -/
theorem c15_wf_addEdge_needs_free :
    C15Ex.badE.WF ∧ ∃ g' e, C15Ex.badE.addEdge 0 0 () = .ok (g', e) ∧ ¬ g'.WF := by
  refine ⟨C15Ex.badE_wf, _, _, rfl, fun wf => ?_⟩
  obtain ⟨ed, hed, _⟩ := wf.out_edge 0 ⟨(), [5], [5]⟩ rfl 5 (by simp)
  cases hed

/-! ### Non-vacuity: a 3-node graph, one edit (node `3` and edge `2 → 3` added) -/

example : Topo.runHist 10 (Topo.new 0) C15Ex.hist =
    some ([some 0, some 1, some 2, some 3, none], ⟨[0, 1, 2, 3], []⟩) := by decide

example : C15Ex.gA.succs 0 = [2, 1] ∧ C15Ex.gA.preds 2 = [1, 0] ∧ C15Ex.gB.preds 3 = [2] := by
  decide

example : admState C15Ex.gA 0 [] = true ∧ admState C15Ex.gA 0 [0] = true ∧
    admState C15Ex.gB 0 [0, 1] = true ∧ admState C15Ex.gB 0 [0, 1, 2] = true ∧
    admState C15Ex.gB 0 [0, 1, 2, 3] = true := by decide

example : allVisited C15Ex.gB [0, 1, 2, 3] = true := by decide

example : C15Ex.gA.WF ∧ C15Ex.gB.WF := ⟨C15Ex.wfo_gA.1, C15Ex.wfo_gB.1⟩

/-- The hypotheses of `c15_exhaustive_hist` are jointly satisfiable: they hold of every call of
the concrete history, whose last call reports exhaustion. -/
example : ∀ n, C15Ex.gB.containsNode n = true → n ∈ [0, 1, 2, 3] := by
  have h : Topo.runHist 10 (Topo.new 0) C15Ex.hist =
      some ([some 0, some 1, some 2, some 3, none], ⟨[0, 1, 2, 3], []⟩) := by decide
  refine c15_exhaustive_hist h 4 ?_ C15Ex.gB [0, 1, 2, 3] rfl rfl
  intro j hj g scan hg
  match j, hj, hg with
  | 0, _, hg =>
    cases hg
    exact ⟨C15Ex.wfo_gA.1, c15_admState_sound (by decide), by decide, by decide⟩
  | 1, _, hg =>
    cases hg
    exact ⟨C15Ex.wfo_gA.1, c15_admState_sound (by decide), by decide, by decide⟩
  | 2, _, hg =>
    cases hg
    exact ⟨C15Ex.wfo_gB.1, c15_admState_sound (by decide), by decide, by decide⟩
  | 3, _, hg =>
    cases hg
    exact ⟨C15Ex.wfo_gB.1, c15_admState_sound (by decide), by decide, by decide⟩
  | 4, _, hg =>
    cases hg
    exact ⟨C15Ex.wfo_gB.1, c15_admState_sound (by decide), by decide, by decide⟩
  | j + 5, hj, _ => omega

end Pm
