/-
Props/C01Mat.lean — C01/C02 (and the matrix instances of C03, C04, C06) for matrix pattern sets
END TO END, without the per-program check `matProgramOK`.

`matProg_built`: EVERY successful guarded build of a matrix pattern list — any event log (any
heuristic answers and hash orders), any fuel — yields an automaton every live state of which
satisfies `AnchM.StateOK`, the conditions under which the anchored traversal theorem for matrices
holds: (con) the entries of `constraint_order` are live edges carrying an arity-correct constraint
all of whose keys are in the state's scope; (scope_ne) a state with an outgoing transition has a
non-empty scope; (scope_shape) scopes are empty or start with the start key `(0,0)`, which does
not occur again; (scope_nn) scope keys are non-negative; (matches_) the key list recorded for
pattern `i` is `matPatternKeys` of the `i`-th pattern, it has the same shape, its keys are
non-negative, and the empty key list is recorded at the root only.
`trun_mat_sound_stateOK`, `trun_mat_complete_stateOK`, `trun_mat_stateOK` are T-RUN-ANCH-MAT under
that hypothesis (the clauses "at most one fallback" and "fallback entries are constraint-free live
edges" of `matProgramOK` are not needed); `trun_mat_of_built` the instance for built automata
(which witness their recorded keys on every host: `trun_mat_witnessed_of_built`). Hence, for every
build and EVERY (ragged) host:

* `c01_c02_matrix` — `find_matches` reports exactly the occurrences of the patterns: pattern `p`
  once per host cell `(r, c)` at which it occurs, with the position map
  `.bound r c 0 0 (matExtent p)`;
* `c03_matrix` — the same set as the baseline `NaiveManyMatcher`;
* `c04_matrix` — independent of the event log; `c06_matrix` — the matches labelled `i` depend on
  the `i`-th pattern only;
* the targets `c01_matrix_target`, `c02_matrix_target` of `Props/Targets.lean` are theorems
  (`c01_matrix_holds`, `c02_matrix_holds`); `c03_matFindMatches`, `c04_matFindMatches` are the
  matrix analogues of `c03_string_target`, `c04_string_target` for the packaged matcher.
  (Multiplicities — C07 — are not addressed here.)

Only final statements and non-vacuity examples live here; proofs are in `Proofs/MatProg*.lean`
(`MatProgRun`: the traversal theorem from `StateOK`; `MatProgCor`: its corollaries; `MatProgKeys`:
recorded key lists; `MatProgScopes`: `populate_scopes` on a star scheme; `MatProgMain`:
`matProg_built`), which reuse the step-level invariant `SP` of `Proofs/StrProg*.lean` (generic in
the key type) through every step of the builder.
-/
import PmVerif.Proofs.MatProgMain
import PmVerif.Proofs.MatProgCor
import PmVerif.Props.TRunMat
import PmVerif.Props.Targets
namespace Pm
open Automaton

/-- **Every built matrix automaton is an OK program.** No hypothesis on the event log, the fuel
or the patterns beyond the success of the guarded build. -/
theorem matProg_built (ps : List MatPattern) (evs : List Ev) (fuel : Nat)
    (M : Many MKey CharPred)
    (hb : manyBuild (fun p => some (matConstraints p)) (fun _ => ([] : List MKey))
      (charTree mkeyLt) matReq fuel true ps evs = some (.ok M)) :
    ∀ s w, M.automaton.g.weight? s = some w → Pm.AnchM.StateOK M.automaton ps s w :=
  MatProg.matProg_built ps evs fuel M hb

/-- The check implies the hypothesis of `trun_mat_stateOK` (so `trun_mat` is an instance). -/
theorem stateOK_of_matProgramOK (A : Automaton MKey CharPred) (ps : List MatPattern)
    (hok : matProgramOK A ps = true) :
    ∀ s w, A.g.weight? s = some w → Pm.AnchM.StateOK A ps s w :=
  MatProg.allOK_of_programOK hok

/-- **T-RUN-ANCH-MAT, soundness, from `StateOK`.** `trun_mat_sound` with the decidable check
`matProgramOK A ps` replaced by what its proof uses: every live state satisfies
`AnchM.StateOK`. -/
theorem trun_mat_sound_stateOK (A : Automaton MKey CharPred) (ps : List MatPattern) (h : MatHost)
    (fuel : Nat) (ms : List (Match MatPos)) (seen : List (Nat × List (Option MVal)))
    (hok : ∀ s w, A.g.weight? s = some w → Pm.AnchM.StateOK A ps s w)
    (hr : run matDomain A h fuel = .ok (ms, seen))
    (i : Nat) (m : MatPos) (hm : (i, m) ∈ ms) :
    (m = .unbound ∧ ∃ w, A.g.weight? A.root = some w ∧ (i, []) ∈ w.matches_) ∨
    (∃ r c ks, (matCell h r c).isSome ∧ ks ≠ [] ∧ AccDetK (matSigma h r c) A A.root i ks ∧
      m = .bound r c 0 0 (AnchM.boxMax ks).1 (AnchM.boxMax ks).2) :=
  MatProg.trun_mat_sound A ps h fuel ms seen hok hr i m hm

/-- **T-RUN-ANCH-MAT, completeness, from `StateOK`.** -/
theorem trun_mat_complete_stateOK (A : Automaton MKey CharPred) (ps : List MatPattern)
    (h : MatHost) (fuel : Nat) (ms : List (Match MatPos))
    (seen : List (Nat × List (Option MVal)))
    (hok : ∀ s w, A.g.weight? s = some w → Pm.AnchM.StateOK A ps s w)
    (hr : run matDomain A h fuel = .ok (ms, seen))
    (i : Nat) (m : MatPos)
    (hrhs : (m = .unbound ∧ ∃ w, A.g.weight? A.root = some w ∧ (i, []) ∈ w.matches_) ∨
      (∃ r c ks, (matCell h r c).isSome ∧ ks ≠ [] ∧ AccDetK (matSigma h r c) A A.root i ks ∧
        (∀ k ∈ ks, (matCell h (r + k.1.toNat) (c + k.2.toNat)).isSome) ∧
        m = .bound r c 0 0 (AnchM.boxMax ks).1 (AnchM.boxMax ks).2)) :
    (i, m) ∈ ms :=
  MatProg.trun_mat_complete A ps h fuel ms seen hok hr i m hrhs

/-- **T-RUN-ANCH-MAT from `StateOK`.** The traversal of a matrix program every live state of
which satisfies `StateOK` and whose accepting paths witness their recorded keys on `h` reports
exactly anchored acceptance. -/
theorem trun_mat_stateOK (A : Automaton MKey CharPred) (ps : List MatPattern) (h : MatHost)
    (fuel : Nat) (ms : List (Match MatPos)) (seen : List (Nat × List (Option MVal)))
    (hok : ∀ s w, A.g.weight? s = some w → Pm.AnchM.StateOK A ps s w)
    (hwit : AnchM.KeysWitnessed A h)
    (hr : run matDomain A h fuel = .ok (ms, seen)) (i : Nat) (m : MatPos) :
    (i, m) ∈ ms ↔
      (m = .unbound ∧ ∃ w, A.g.weight? A.root = some w ∧ (i, []) ∈ w.matches_) ∨
      (∃ r c ks, (matCell h r c).isSome ∧ ks ≠ [] ∧ AccDetK (matSigma h r c) A A.root i ks ∧
        (∀ k ∈ ks, (matCell h (r + k.1.toNat) (c + k.2.toNat)).isSome) ∧
        m = .bound r c 0 0 (AnchM.boxMax ks).1 (AnchM.boxMax ks).2) :=
  MatProg.trun_mat_main A ps h fuel ms seen hok hwit hr i m

/-- Built automata witness their recorded keys on every host (no check). -/
theorem trun_mat_witnessed_of_built (ps : List MatPattern) (evs : List Ev) (fuel : Nat)
    (M : Many MKey CharPred) (h : MatHost)
    (hb : manyBuild (fun p => some (matConstraints p)) (fun _ => ([] : List MKey))
      (charTree mkeyLt) matReq fuel true ps evs = some (.ok M)) :
    AnchM.KeysWitnessed M.automaton h :=
  MatProg.keysWitnessed_of_allOK hb (MatProg.allOK_built ps evs fuel M hb) h

/-- **T-RUN-ANCH-MAT for built automata.** The traversal of ANY successfully built matrix
automaton reports exactly anchored acceptance, on every host. -/
theorem trun_mat_of_built (ps : List MatPattern) (evs : List Ev) (fuel fuel' : Nat)
    (M : Many MKey CharPred) (h : MatHost) (ms : List (Match MatPos))
    (seen : List (Nat × List (Option MVal)))
    (hb : manyBuild (fun p => some (matConstraints p)) (fun _ => ([] : List MKey))
      (charTree mkeyLt) matReq fuel true ps evs = some (.ok M))
    (hr : run matDomain M.automaton h fuel' = .ok (ms, seen)) (i : Nat) (m : MatPos) :
    (i, m) ∈ ms ↔
      (m = .unbound ∧ ∃ w, M.automaton.g.weight? M.automaton.root = some w ∧
        (i, []) ∈ w.matches_) ∨
      (∃ r c ks, (matCell h r c).isSome ∧ ks ≠ [] ∧
        AccDetK (matSigma h r c) M.automaton M.automaton.root i ks ∧
        (∀ k ∈ ks, (matCell h (r + k.1.toNat) (c + k.2.toNat)).isSome) ∧
        m = .bound r c 0 0 (AnchM.boxMax ks).1 (AnchM.boxMax ks).2) :=
  trun_mat_stateOK M.automaton ps h fuel' ms seen (matProg_built ps evs fuel M hb)
    (trun_mat_witnessed_of_built ps evs fuel M h hb) hr i m

/-- **C01/C02 for matrix pattern sets.** Whatever the event log of the build, `find_matches`
reports exactly the occurrences of the patterns: pattern `p` once per host cell `(r, c)` at which
it occurs, with the position map `.bound r c 0 0 (matExtent p)`. -/
theorem c01_c02_matrix (ps : List MatPattern) (evs : List Ev) (fuel fuel' : Nat)
    (M : Many MKey CharPred) (h : MatHost) (ms : List (Match MatPos))
    (hb : manyBuild (fun p => some (matConstraints p)) (fun _ => ([] : List MKey))
      (charTree mkeyLt) matReq fuel true ps evs = some (.ok M))
    (hf : M.findMatches matDomain h fuel' = .ok ms) (i : Nat) (m : MatPos) :
    (i, m) ∈ ms ↔ ∃ p, ps[i]? = some p ∧ ∃ r c, occursMat p h r c = true ∧
      m = .bound r c 0 0 ((matExtent p).1 : Int) ((matExtent p).2 : Int) :=
  MatProg.c01_c02_of_allOK fuel' h ms hb (MatProg.allOK_built ps evs fuel M hb) hf i m

/-- **C03 for matrix pattern sets.** The automaton reports the same set of matches as the
baseline `NaiveManyMatcher` (whenever both succeed, with whatever fuels). -/
theorem c03_matrix (ps : List MatPattern) (evs : List Ev) (fuel fuel' fuel'' : Nat)
    (M : Many MKey CharPred) (h : MatHost) (ms ns : List (Match MatPos))
    (hb : manyBuild (fun p => some (matConstraints p)) (fun _ => ([] : List MKey))
      (charTree mkeyLt) matReq fuel true ps evs = some (.ok M))
    (hf : M.findMatches matDomain h fuel' = .ok ms)
    (hn : naiveMatches matDomain h fuel'' (ps.map matConstraints) 0 = .ok ns)
    (x : Match MatPos) : x ∈ ms ↔ x ∈ ns := by
  obtain ⟨i, m⟩ := x
  rw [c01_c02_matrix ps evs fuel fuel' M h ms hb hf, MatProg.mem_naive_matrix ps h fuel'' ns hn]

/-- **C04 for matrix pattern sets.** Two builds of the same patterns under ANY two event logs
(heuristic answers, hash orders) and fuels report the same set of matches on every host. -/
theorem c04_matrix (ps : List MatPattern) (evs evs' : List Ev)
    (fuel₁ fuel₂ fuel₁' fuel₂' : Nat) (M M' : Many MKey CharPred) (h : MatHost)
    (ms ms' : List (Match MatPos))
    (hb : manyBuild (fun p => some (matConstraints p)) (fun _ => ([] : List MKey))
      (charTree mkeyLt) matReq fuel₁ true ps evs = some (.ok M))
    (hb' : manyBuild (fun p => some (matConstraints p)) (fun _ => ([] : List MKey))
      (charTree mkeyLt) matReq fuel₁' true ps evs' = some (.ok M'))
    (hf : M.findMatches matDomain h fuel₂ = .ok ms)
    (hf' : M'.findMatches matDomain h fuel₂' = .ok ms') (i : Nat) (m : MatPos) :
    (i, m) ∈ ms ↔ (i, m) ∈ ms' := by
  rw [c01_c02_matrix ps evs fuel₁ fuel₂ M h ms hb hf,
    c01_c02_matrix ps evs' fuel₁' fuel₂' M' h ms' hb' hf']

/-- **C06 for matrix pattern sets.** The matches labelled `i` depend only on the `i`-th pattern:
if position `i` of `ps` and position `j` of `ps'` hold the same pattern (or both nothing), then —
whatever else is compiled alongside, in whatever order and under whatever event logs — the
bindings reported with label `i` by the first matcher are those reported with label `j` by the
second. -/
theorem c06_matrix (ps ps' : List MatPattern) (evs evs' : List Ev)
    (fuel₁ fuel₂ fuel₁' fuel₂' : Nat) (M M' : Many MKey CharPred) (h : MatHost)
    (ms ms' : List (Match MatPos))
    (hb : manyBuild (fun p => some (matConstraints p)) (fun _ => ([] : List MKey))
      (charTree mkeyLt) matReq fuel₁ true ps evs = some (.ok M))
    (hb' : manyBuild (fun p => some (matConstraints p)) (fun _ => ([] : List MKey))
      (charTree mkeyLt) matReq fuel₁' true ps' evs' = some (.ok M'))
    (hf : M.findMatches matDomain h fuel₂ = .ok ms)
    (hf' : M'.findMatches matDomain h fuel₂' = .ok ms') (i j : Nat) (hij : ps[i]? = ps'[j]?)
    (m : MatPos) :
    (i, m) ∈ ms ↔ (j, m) ∈ ms' := by
  rw [c01_c02_matrix ps evs fuel₁ fuel₂ M h ms hb hf,
    c01_c02_matrix ps' evs' fuel₁' fuel₂' M' h ms' hb' hf', hij]

/-- The same for the packaged `matFindMatches` (build, then match, one fuel). -/
theorem c01_c02_matFindMatches (ps : List MatPattern) (evs : List Ev) (h : MatHost)
    (fuel : Nat) (ms : List (Match MatPos)) (hf : matFindMatches ps evs h fuel = .ok ms)
    (i : Nat) (m : MatPos) :
    (i, m) ∈ ms ↔ ∃ p, ps[i]? = some p ∧ ∃ r c, occursMat p h r c = true ∧
      m = .bound r c 0 0 ((matExtent p).1 : Int) ((matExtent p).2 : Int) := by
  unfold matFindMatches at hf
  cases hb : manyBuild (fun p => some (matConstraints p)) (fun _ => ([] : List MKey))
      (charTree mkeyLt) matReq fuel true ps evs with
  | none => rw [hb] at hf; cases hf
  | some r =>
    cases r with
    | error e => rw [hb] at hf; cases hf
    | ok M =>
      rw [hb] at hf
      exact c01_c02_matrix ps evs fuel fuel M h ms hb hf i m

/-! ### The targets of `Props/Targets.lean` -/

/-- **C01, matrices** (`c01_matrix_target`) is a theorem. -/
theorem c01_matrix_holds : c01_matrix_target := by
  intro ps evs h fuel ms hf i m hm
  exact (c01_c02_matFindMatches ps evs h fuel ms hf i m).mp hm

/-- **C02, matrices** (`c02_matrix_target`) is a theorem. -/
theorem c02_matrix_holds : c02_matrix_target := by
  intro ps evs h fuel ms hf i p hp r c ho
  exact (c01_c02_matFindMatches ps evs h fuel ms hf i _).mpr ⟨p, hp, r, c, ho, rfl⟩

/-- **C03, matrices**, in the shape of `c03_string_target`: the packaged matcher reports the same
set as the baseline. -/
theorem c03_matFindMatches (ps : List MatPattern) (evs : List Ev) (h : MatHost) (fuel : Nat)
    (ms ns : List (Match MatPos)) (hf : matFindMatches ps evs h fuel = .ok ms)
    (hn : naiveMatches matDomain h fuel (ps.map matConstraints) 0 = .ok ns)
    (x : Match MatPos) : x ∈ ms ↔ x ∈ ns := by
  obtain ⟨i, m⟩ := x
  rw [c01_c02_matFindMatches ps evs h fuel ms hf, MatProg.mem_naive_matrix ps h fuel ns hn]

/-- **C04, matrices**, in the shape of `c04_string_target`: the set of reported matches does not
depend on the event log. -/
theorem c04_matFindMatches (ps : List MatPattern) (evs evs' : List Ev) (h : MatHost)
    (fuel : Nat) (ms ms' : List (Match MatPos)) (hf : matFindMatches ps evs h fuel = .ok ms)
    (hf' : matFindMatches ps evs' h fuel = .ok ms') (x : Match MatPos) :
    x ∈ ms ↔ x ∈ ms' := by
  obtain ⟨i, m⟩ := x
  rw [c01_c02_matFindMatches ps evs h fuel ms hf, c01_c02_matFindMatches ps evs' h fuel ms' hf']

/-! ### Non-vacuity -/

/-- The real build of `Props/TRunMat.lean` (patterns `ab / c` (ragged) and `a$x / _$x` (one
hole); a log that fuses, determinises twice and creates a fallback state): `matProg_built` applies
to it, so every live state of its automaton satisfies `StateOK` — here without evaluating any
check. -/
example : ∃ M, manyBuild (fun p => some (matConstraints p)) (fun _ => ([] : List MKey))
      (charTree mkeyLt) matReq 50 true AnchM.exMatPatterns2 AnchM.exMatEvents = some (.ok M) ∧
    M.automaton.liveStates = [0, 1, 2, 3, 4, 5, 6] ∧
    ∀ s w, M.automaton.g.weight? s = some w →
      Pm.AnchM.StateOK M.automaton AnchM.exMatPatterns2 s w := by
  obtain ⟨M, hb, hl, _, _, _⟩ := AnchM.exMat_built
  exact ⟨M, hb, hl, matProg_built _ _ _ M hb⟩

/-- The hypotheses of `c01_c02_matrix` hold of that build and its run on the ragged host
`xab / acb / c`; its conclusion for that run (the check `matProgramOK` is no longer among the
hypotheses). -/
example : ∀ i m, (i, m) ∈ [((0 : Nat), MatPos.bound 0 1 0 0 1 1), (1, .bound 0 1 0 0 1 1)] ↔
    ∃ p, AnchM.exMatPatterns2[i]? = some p ∧ ∃ r c,
      occursMat p [[120, 97, 98], [97, 99, 98], [99]] r c = true ∧
      m = .bound r c 0 0 ((matExtent p).1 : Int) ((matExtent p).2 : Int) := by
  obtain ⟨M, hb, _, _, hf, _⟩ := AnchM.exMat_built
  exact c01_c02_matrix _ _ _ _ M _ _ hb hf

/-- The packaged matcher succeeds on that input, so the targets are not vacuous. -/
example : matFindMatches AnchM.exMatPatterns2 AnchM.exMatEvents
      [[120, 97, 98], [97, 99, 98], [99]] 100 =
    .ok [(0, .bound 0 1 0 0 1 1), (1, .bound 0 1 0 0 1 1)] := by rfl

/-- … and so does the baseline, with the same set of matches (`c03_matFindMatches`). -/
example : naiveMatches matDomain [[120, 97, 98], [97, 99, 98], [99]] 100
      (AnchM.exMatPatterns2.map matConstraints) 0 =
    .ok [(0, .bound 0 1 0 0 1 1), (1, .bound 0 1 0 0 1 1)] := by rfl

end Pm
