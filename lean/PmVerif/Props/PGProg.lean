/-
Props/PGProg.lean — C01/C02 (and the port-graph instances of C04, C06) for SINGLE-ROOT port-graph
pattern sets END TO END, without the per-program check `pgProgramOK`.

`pgProg_built`: EVERY successful guarded build — any event log (any heuristic answers and hash
orders), any fuels — of builder inputs whose constraints are arity-correct, mention single-root
keys only and are not one-key `isNotEqual` constraints (`PGProg.pgNoUnary`), without extra required
keys, yields an automaton every live state of which satisfies `AnchG.StateOK`, the conditions
under which the anchored traversal theorem T-RUN-ANCH-PG holds:
(con) the entries of `constraint_order` are live edges carrying an arity-correct constraint all of
whose keys are in the state's scope; (scope_ne) a state with an outgoing transition has a non-empty
scope; (scope_shape) scopes consist of single-root keys and are empty or start with `root 0`;
(matches_) the key list recorded for pattern `i` is `pgPatternKeys` of the `i`-th constraint
vector, has the same shape, and the empty key list is recorded at the root only.
`trun_pg_stateOK` is T-RUN-ANCH-PG under that hypothesis (the clauses "at most one fallback",
"fallback entries are constraint-free live edges", `Nodup` and `prereqOrdered` of `pgProgramOK`
are not needed); `trun_pg_built` its instance for built automata. Hence, for every build and EVERY
host, up to the order of the entries of the bindings:

* `pg_built` — builder inputs given directly;
* `c01_c02_pg` / `c01_c02_pg_rooted` — `find_matches` of a `ManyMatcher` over single-root outputs
  of `constraint_vec` reports for the `i`-th pattern exactly the bindings of its key list from the
  live host nodes at which all its constraints hold and all keys are defined;
* `c01_c02_pg_embeddings` — the same in terms of EMBEDDINGS (with T-DOM-PG): for well-formed
  connected single-root patterns and a well-formed host, pattern `i` is reported exactly at the
  host nodes `r` such that the pattern embeds with its root sent to `r`, with the binding of its
  key list to the nodes the host walks from `r` reach;
* `c04_pg` — independent of the event log; `c06_pg` — the matches labelled `i` depend on the
  `i`-th pattern only.

FINDING (`pgProgramOK_false_isolated_root`, `pgProg_built_literal_false`): the statement without
the `pgNoUnary` hypothesis is FALSE. For a pattern whose root has no link while the graph has
links, `constraint_vec` returns `[isNotEqual 0 [root 0]]` (exactly then:
`pgConstraints_isolated_iff`); `PGPredicate::conditioned` reports that constraint as implied by
nothing, `with_powerset` labels the ROOT of the constraint tree, `add_constraint_tree` turns the
transition into a fallback transition of the state itself, and `populate_scopes` gives that state
the empty scope although it has an outgoing transition: `pgProgramOK` (clause "a state with a
transition has a non-empty scope") and `StateOK.scope_ne` fail on a disciplined, complete event
log. The traversal still reports the right matches there (`exIso_run`): it is the hypothesis of
T-RUN-ANCH-PG that is too strong for this degenerate pattern, not C01/C02 that fails. The
corollaries therefore exclude that one vector (`hiso`; for rooted graphs: the root has a link or
the graph has none — true of every connected pattern, `pg_root_has_link_of_connected`, and the
library requires patterns to be connected).

FINDING (`pgProgramOK_false_two_fallbacks`): even under all hypotheses of `pgProg_built` the FULL
check `pgProgramOK` is not a theorem of `build`: its clause "at most one fallback transition"
fails for a log that emits two states twice (accepted by `build`, rejected by the disciplined
`buildT`): determinising the root on its second emission copies a transition onto a state that was
normalised already, whose second emission then fuses two children that both own a fallback
transition. That is why `pgProg_built` concludes `StateOK` (which does hold there) and T-RUN-ANCH-PG
is restated from it.

Only final statements and non-vacuity examples live here; proofs are in `Proofs/PGProg*.lean`
(`PGProgDefs`: the edge predicate `CQ`, the conditional tree hypothesis `TreeHypC` and the
step-level invariant `StrProg.SP` through the builder under it; `PGProgTree`: `pgTree` satisfies
`TreeHypC CQ`; `PGProgKeys`: recorded key lists; `PGProgScopes`: `populate_scopes` on a scheme
that is a star scheme on a key predicate; `PGProgMain`: `stateOK_build`; `PGProgRun`, `PGProgCor`:
the traversal theorem and its corollaries from `StateOK`; `PGProgIso`: the isolated-root vector;
`PGProgEmb`: embeddings).
-/
import PmVerif.Proofs.PGProgIso
import PmVerif.Proofs.PGProgEmb
import PmVerif.Props.TRunPG
import PmVerif.Model.BuilderT
namespace Pm
open Automaton AnchG

/-! ### every built single-root automaton is an OK program -/

/-- **Every built single-root port-graph automaton is an OK program** (builder inputs given
directly). No hypothesis on the event log or the fuels beyond the success of the guarded build. -/
theorem pgProg_built (inputs : List (Nat × List PGCons × List PGKey)) (evs : List Ev)
    (fuel fuelT : Nat) (A : Automaton PGKey PGPred) (css : List (Option (List PGCons)))
    (hb : Automaton.build (fun cs => pgTree cs fuelT) pgReq fuel inputs evs = .ok A)
    (hsingle : ∀ p ∈ inputs, ∀ c ∈ p.2.1, pgSingleRootKeys c.args = true ∧
      c.args.length = c.pred.arity ∧ PGProg.pgNoUnary c = true)
    (hextra : ∀ p ∈ inputs, p.2.2 = [])
    (hcss : ∀ p ∈ inputs, css[p.1]? = some (some p.2.1)) :
    ∀ s w, A.g.weight? s = some w → AnchG.StateOK A css s w :=
  PGProg.stateOK_build inputs evs fuel fuelT A css hb
    (fun p hp c hc =>
      ⟨(hsingle p hp c hc).2.1, (pgSingleRootKeys_iff _).1 (hsingle p hp c hc).1,
        (hsingle p hp c hc).2.2⟩) hextra hcss

/-- **Every built single-root port-graph matcher is an OK program** (`ManyMatcher` over
single-root outputs of `constraint_vec` other than the isolated-root vector). -/
theorem pgProg_built_many {Pat : Type} (convert : Pat → Option (List PGCons))
    (ff : Bool) (pats : List Pat) (evs : List Ev) (fuelT fuel : Nat) (M : Many PGKey PGPred)
    (hconv : ∀ p ∈ pats, ∀ cs, convert p = some cs → ∃ g root, pgConstraints g root = some cs)
    (hsr : ∀ p ∈ pats, ∀ cs, convert p = some cs → pgSigMultiRoot cs = false)
    (hiso : ∀ p ∈ pats, convert p ≠ some PGProg.pgIsolatedVec)
    (hb : manyBuild convert (fun _ => ([] : List PGKey)) (fun cs => pgTree cs fuelT) pgReq fuel ff
      pats evs = some (.ok M)) :
    ∀ s w, M.automaton.g.weight? s = some w → AnchG.StateOK M.automaton (pats.map convert) s w :=
  PGProg.allOK_many convert ff pats evs fuelT fuel M hconv hsr hiso hb

/-- `constraint_vec` returns the isolated-root vector `[isNotEqual 0 [root 0]]` exactly when the
graph has links but the root has none. -/
theorem pgConstraints_isolated_iff (g : PortGraph) (root : Nat) :
    pgConstraints g root = some [⟨.isNotEqual 0, [.root 0]⟩] ↔
      g.edgeCount ≠ 0 ∧ g.allLinks root = [] :=
  PGProg.pgConstraints_isolated_iff g root

/-- `constraint_vec` emits a one-key `isNotEqual` constraint only as that whole vector. -/
theorem pgConstraints_noUnary (g : PortGraph) (root : Nat) (cs : List PGCons)
    (h : pgConstraints g root = some cs) :
    cs = [⟨.isNotEqual 0, [.root 0]⟩] ∨ ∀ c ∈ cs, PGProg.pgNoUnary c = true :=
  PGProg.pgConstraints_noUnary h

/-! ### T-RUN-ANCH-PG from `StateOK` -/

/-- **T-RUN-ANCH-PG from `StateOK`.** `trun_pg` with the decidable check `pgProgramOK A css`
replaced by what its proof uses: every live state satisfies `AnchG.StateOK`. -/
theorem trun_pg_stateOK (A : Automaton PGKey PGPred) (css : List (Option (List PGCons)))
    (h : PortGraph) (fuel : Nat) (ms : List (Match PGMap)) (seen : List (Nat × List (Option Nat)))
    (hok : ∀ s w, A.g.weight? s = some w → AnchG.StateOK A css s w)
    (hr : run pgDomain A h fuel = .ok (ms, seen)) (i : Nat) (m : PGMap) :
    (∃ m', (i, m') ∈ ms ∧ MapEqv m' m) ↔
      (m = [] ∧ ∃ w, A.g.weight? A.root = some w ∧ (i, []) ∈ w.matches_) ∨
      (∃ r ks, r ∈ h.nodesIter ∧ ks ≠ [] ∧ AccDetK (pgSigmaAnch h r) A A.root i ks ∧
        (∀ k ∈ ks, (pgVal h r k).isSome = true) ∧ MapGets m ks (pgVal h r)) :=
  PGProg.trun_pg_of_allOK A css h fuel ms seen hok hr i m

/-- Soundness with the extensional `MapIs` (no key twice) on the right. -/
theorem trun_pg_sound_stateOK (A : Automaton PGKey PGPred) (css : List (Option (List PGCons)))
    (h : PortGraph) (fuel : Nat) (ms : List (Match PGMap)) (seen : List (Nat × List (Option Nat)))
    (hok : ∀ s w, A.g.weight? s = some w → AnchG.StateOK A css s w)
    (hr : run pgDomain A h fuel = .ok (ms, seen)) (i : Nat) (m : PGMap) (hm : (i, m) ∈ ms) :
    (m = [] ∧ ∃ w, A.g.weight? A.root = some w ∧ (i, []) ∈ w.matches_) ∨
    (∃ r ks, r ∈ h.nodesIter ∧ ks ≠ [] ∧ AccDetK (pgSigmaAnch h r) A A.root i ks ∧
      (∀ k ∈ ks, (pgVal h r k).isSome = true) ∧ MapIs m ks (pgVal h r)) :=
  PGProg.trun_pg_sound_of_allOK A css h fuel ms seen hok hr i m hm

/-- Completeness (non-empty key lists). -/
theorem trun_pg_complete_stateOK (A : Automaton PGKey PGPred) (css : List (Option (List PGCons)))
    (h : PortGraph) (fuel : Nat) (ms : List (Match PGMap)) (seen : List (Nat × List (Option Nat)))
    (hok : ∀ s w, A.g.weight? s = some w → AnchG.StateOK A css s w)
    (hr : run pgDomain A h fuel = .ok (ms, seen))
    (i r : Nat) (ks : List PGKey) (hrn : r ∈ h.nodesIter) (hne : ks ≠ [])
    (hacc : AccDetK (pgSigmaAnch h r) A A.root i ks)
    (hb : ∀ k ∈ ks, (pgVal h r k).isSome = true) :
    ∃ m, (i, m) ∈ ms ∧ MapIs m ks (pgVal h r) :=
  PGProg.trun_pg_complete_of_allOK A css h fuel ms seen hok hr i r ks hrn hne hacc hb

/-- The check implies the hypothesis of `trun_pg_stateOK` (so `trun_pg` is an instance). -/
theorem stateOK_of_pgProgramOK (A : Automaton PGKey PGPred) (css : List (Option (List PGCons)))
    (hok : pgProgramOK A css = true) :
    ∀ s w, A.g.weight? s = some w → AnchG.StateOK A css s w :=
  PGProg.allOK_of_programOK hok

/-- **T-RUN-ANCH-PG for built automata.** The traversal of ANY successfully built single-root
port-graph automaton reports exactly anchored acceptance, on every host. -/
theorem trun_pg_built (inputs : List (Nat × List PGCons × List PGKey)) (evs : List Ev)
    (fuel fuelT fuel' : Nat) (A : Automaton PGKey PGPred) (css : List (Option (List PGCons)))
    (h : PortGraph) (ms : List (Match PGMap)) (seen : List (Nat × List (Option Nat)))
    (hb : Automaton.build (fun cs => pgTree cs fuelT) pgReq fuel inputs evs = .ok A)
    (hsingle : ∀ p ∈ inputs, ∀ c ∈ p.2.1, pgSingleRootKeys c.args = true ∧
      c.args.length = c.pred.arity ∧ PGProg.pgNoUnary c = true)
    (hextra : ∀ p ∈ inputs, p.2.2 = [])
    (hcss : ∀ p ∈ inputs, css[p.1]? = some (some p.2.1))
    (hr : run pgDomain A h fuel' = .ok (ms, seen)) (i : Nat) (m : PGMap) :
    (∃ m', (i, m') ∈ ms ∧ MapEqv m' m) ↔
      (m = [] ∧ ∃ w, A.g.weight? A.root = some w ∧ (i, []) ∈ w.matches_) ∨
      (∃ r ks, r ∈ h.nodesIter ∧ ks ≠ [] ∧ AccDetK (pgSigmaAnch h r) A A.root i ks ∧
        (∀ k ∈ ks, (pgVal h r k).isSome = true) ∧ MapGets m ks (pgVal h r)) :=
  trun_pg_stateOK A css h fuel' ms seen
    (pgProg_built inputs evs fuel fuelT A css hb hsingle hextra hcss) hr i m

/-! ### corollaries for built automata, without the check -/

/-- **C01/C02 for single-root port-graph programs, builder inputs given directly.** Whatever the
event log: a successful traversal reports — up to the order of the entries of the bindings —
exactly the empty binding for an input without constraints, and for an input `cs ≠ []` the binding
of `pgPatternKeys cs` from every live host node `r` at which all constraints of `cs` hold and all
keys are defined. (`pg_built_checked` without `pgProgramOK`.) -/
theorem pg_built (inputs : List (Nat × List PGCons × List PGKey)) (evs : List Ev)
    (fuelT fuel fuel' : Nat) (A : Automaton PGKey PGPred) (css : List (Option (List PGCons)))
    (h : PortGraph) (ms : List (Match PGMap)) (seen : List (Nat × List (Option Nat)))
    (hb : Automaton.build (fun cs => pgTree cs fuelT) pgReq fuel inputs evs = .ok A)
    (hsingle : ∀ p ∈ inputs, ∀ c ∈ p.2.1, pgSingleRootKeys c.args = true ∧
      c.args.length = c.pred.arity ∧ PGProg.pgNoUnary c = true)
    (hextra : ∀ p ∈ inputs, p.2.2 = [])
    (hcss : ∀ p ∈ inputs, css[p.1]? = some (some p.2.1))
    (hr : run pgDomain A h fuel' = .ok (ms, seen)) (i : Nat) (m : PGMap) :
    (∃ m', (i, m') ∈ ms ∧ MapEqv m' m) ↔
      ∃ cs ex, (i, cs, ex) ∈ inputs ∧
        ((cs = [] ∧ m = []) ∨
         (cs ≠ [] ∧ ∃ r, r ∈ h.nodesIter ∧ (∀ c ∈ cs, pgSigmaAnch h r c = true) ∧
           (∀ k ∈ pgPatternKeys cs, (pgVal h r k).isSome = true) ∧
           MapGets m (pgPatternKeys cs) (pgVal h r))) :=
  PGProg.pg_built inputs evs fuelT fuel fuel' A css h ms seen hb
    (fun p hp c hc =>
      ⟨(hsingle p hp c hc).2.1, (pgSingleRootKeys_iff _).1 (hsingle p hp c hc).1,
        (hsingle p hp c hc).2.2⟩) hextra hcss hr i m

/-- **C01/C02 for single-root port-graph pattern sets** (`ManyMatcher`), without the check: for
any conversion all of whose results are outputs of `constraint_vec`, single-root
(`pgSigMultiRoot cs = false`) and not the isolated-root vector, whatever the event log,
`find_matches` reports — up to the order of the entries of the bindings — for the `i`-th pattern
with constraint vector `cs` exactly the bindings of `pgPatternKeys cs` from the live host nodes
`r` at which all constraints hold and all keys are defined. -/
theorem c01_c02_pg {Pat : Type} (convert : Pat → Option (List PGCons))
    (hconv : ∀ p cs, convert p = some cs → ∃ g root, pgConstraints g root = some cs)
    (ff : Bool) (pats : List Pat) (evs : List Ev) (fuelT fuel fuel' : Nat)
    (M : Many PGKey PGPred) (h : PortGraph) (ms : List (Match PGMap))
    (hsr : ∀ p ∈ pats, ∀ cs, convert p = some cs → pgSigMultiRoot cs = false)
    (hiso : ∀ p ∈ pats, convert p ≠ some PGProg.pgIsolatedVec)
    (hb : manyBuild convert (fun _ => ([] : List PGKey)) (fun cs => pgTree cs fuelT) pgReq fuel ff
      pats evs = some (.ok M))
    (hf : M.findMatches pgDomain h fuel' = .ok ms) (i : Nat) (m : PGMap) :
    (∃ m', (i, m') ∈ ms ∧ MapEqv m' m) ↔
      ∃ p cs, pats[i]? = some p ∧ convert p = some cs ∧
        ∃ r, r ∈ h.nodesIter ∧ (∀ c ∈ cs, pgSigmaAnch h r c = true) ∧
          (∀ k ∈ pgPatternKeys cs, (pgVal h r k).isSome = true) ∧
          MapGets m (pgPatternKeys cs) (pgVal h r) :=
  PGProg.pg_many convert hconv ff pats evs fuelT fuel fuel' M h ms hsr hiso hb hf i m

/-- The instance for patterns given as `(graph, root)`: every root has a link, or its graph has
none. -/
theorem c01_c02_pg_rooted (pats : List (PortGraph × Nat)) (evs : List Ev)
    (fuelT fuel fuel' : Nat) (M : Many PGKey PGPred) (h : PortGraph) (ms : List (Match PGMap))
    (hsr : ∀ p ∈ pats, ∀ cs, pgConstraints p.1 p.2 = some cs → pgSigMultiRoot cs = false)
    (hiso : ∀ p ∈ pats, p.1.edgeCount = 0 ∨ p.1.allLinks p.2 ≠ [])
    (hb : manyBuild (fun p : PortGraph × Nat => pgConstraints p.1 p.2) (fun _ => ([] : List PGKey))
      (fun cs => pgTree cs fuelT) pgReq fuel true pats evs = some (.ok M))
    (hf : M.findMatches pgDomain h fuel' = .ok ms) (i : Nat) (m : PGMap) :
    (∃ m', (i, m') ∈ ms ∧ MapEqv m' m) ↔
      ∃ p cs, pats[i]? = some p ∧ pgConstraints p.1 p.2 = some cs ∧
        ∃ r, r ∈ h.nodesIter ∧ (∀ c ∈ cs, pgSigmaAnch h r c = true) ∧
          (∀ k ∈ pgPatternKeys cs, (pgVal h r k).isSome = true) ∧
          MapGets m (pgPatternKeys cs) (pgVal h r) :=
  c01_c02_pg (fun p : PortGraph × Nat => pgConstraints p.1 p.2)
    (fun p _ hc => ⟨p.1, p.2, hc⟩) true pats evs fuelT fuel fuel' M h ms hsr
    (fun p hp hc => by
      obtain ⟨h1, h2⟩ := (PGProg.pgConstraints_isolated_iff p.1 p.2).1 hc
      rcases hiso p hp with h3 | h3
      · exact h1 h3
      · exact h3 h2) hb hf i m

/-- If all constraints of a vector hold at an anchor, all keys of its recorded key list are defined
there (every recorded key is `root 0` or an argument of a constraint): the conjunct "all keys are
defined" of `c01_c02_pg` is implied by the one before it. -/
theorem pgKeys_defined_of_sat (h : PortGraph) (r : Nat) (cs : List PGCons)
    (hs : ∀ c ∈ cs, pgSigmaAnch h r c = true) :
    ∀ k ∈ pgPatternKeys cs, (pgVal h r k).isSome = true :=
  PGProg.keys_defined_of_sat hs

/-- **C01/C02 for single-root port-graph pattern sets, in terms of embeddings.** For well-formed
connected patterns `(graph, root)` (the library's documented requirement on patterns) whose
constraint vectors are single-root, and a well-formed host, whatever the event log of the build:
`find_matches` reports — up to the order of the entries of the bindings — for the `i`-th pattern
`p` exactly the bindings of its key list `pgPatternKeys cs` to the values `pgVal h r` (the nodes
the host walks from `r` reach) for the host nodes `r` such that `p` EMBEDS in the host with its
root sent to `r`. (`c01_c02_pg_rooted` + T-DOM-PG `tdom_pg_iff_connected`; the isolated-root
vector does not occur for connected patterns.) -/
theorem c01_c02_pg_embeddings (pats : List (PortGraph × Nat)) (evs : List Ev)
    (fuelT fuel fuel' : Nat) (M : Many PGKey PGPred) (h : PortGraph) (ms : List (Match PGMap))
    (hwf : ∀ p ∈ pats, p.1.LinksOK ∧ pgConnected p.1 = true ∧ (p.1.node? p.2).isSome = true)
    (hsr : ∀ p ∈ pats, ∀ cs, pgConstraints p.1 p.2 = some cs → pgSigMultiRoot cs = false)
    (hh : h.LinksOK)
    (hb : manyBuild (fun p : PortGraph × Nat => pgConstraints p.1 p.2) (fun _ => ([] : List PGKey))
      (fun cs => pgTree cs fuelT) pgReq fuel true pats evs = some (.ok M))
    (hf : M.findMatches pgDomain h fuel' = .ok ms) (i : Nat) (m : PGMap) :
    (∃ m', (i, m') ∈ ms ∧ MapEqv m' m) ↔
      ∃ p cs, pats[i]? = some p ∧ pgConstraints p.1 p.2 = some cs ∧
        ∃ r φ, embedsPG p.1 h φ = true ∧ alGet φ p.2 = some r ∧
          MapGets m (pgPatternKeys cs) (pgVal h r) :=
  PGProg.pg_many_embeddings pats evs fuelT fuel fuel' M h ms hwf hsr hh hb hf i m

/-- The root of a well-formed connected pattern has a link unless the graph has none: connected
patterns never produce the isolated-root vector. -/
theorem pg_root_has_link_of_connected (p : PortGraph) (root : Nat) (hp : p.LinksOK)
    (hc : pgConnected p = true) (hr : (p.node? root).isSome = true) :
    p.edgeCount = 0 ∨ p.allLinks root ≠ [] :=
  PGProg.root_has_link_of_connected hp hc hr

/-- **C04 for single-root port-graph pattern sets.** Two builds of the same patterns under ANY two
event logs (heuristic answers, hash orders) and fuels report the same set of matches on every host
(up to the order of the entries of the bindings). -/
theorem c04_pg {Pat : Type} (convert : Pat → Option (List PGCons))
    (hconv : ∀ p cs, convert p = some cs → ∃ g root, pgConstraints g root = some cs)
    (ff : Bool) (pats : List Pat) (evs evs' : List Ev)
    (fuelT fuelT' fuel₁ fuel₁' fuel₂ fuel₂' : Nat)
    (M M' : Many PGKey PGPred) (h : PortGraph) (ms ms' : List (Match PGMap))
    (hsr : ∀ p ∈ pats, ∀ cs, convert p = some cs → pgSigMultiRoot cs = false)
    (hiso : ∀ p ∈ pats, convert p ≠ some PGProg.pgIsolatedVec)
    (hb : manyBuild convert (fun _ => ([] : List PGKey)) (fun cs => pgTree cs fuelT) pgReq fuel₁
      ff pats evs = some (.ok M))
    (hb' : manyBuild convert (fun _ => ([] : List PGKey)) (fun cs => pgTree cs fuelT') pgReq fuel₁'
      ff pats evs' = some (.ok M'))
    (hf : M.findMatches pgDomain h fuel₂ = .ok ms)
    (hf' : M'.findMatches pgDomain h fuel₂' = .ok ms') (i : Nat) (m : PGMap) :
    (∃ m', (i, m') ∈ ms ∧ MapEqv m' m) ↔ (∃ m', (i, m') ∈ ms' ∧ MapEqv m' m) := by
  rw [c01_c02_pg convert hconv ff pats evs fuelT fuel₁ fuel₂ M h ms hsr hiso hb hf,
    c01_c02_pg convert hconv ff pats evs' fuelT' fuel₁' fuel₂' M' h ms' hsr hiso hb' hf']

/-- **C06 for single-root port-graph pattern sets.** The matches labelled `i` depend only on the
`i`-th pattern: if position `i` of `pats` and position `j` of `pats'` hold the same pattern (or both
nothing), then — whatever else is compiled alongside, in whatever order and under whatever event
logs — the bindings reported with label `i` by the first matcher are those reported with label
`j` by the second (up to the order of the entries). -/
theorem c06_pg {Pat : Type} (convert : Pat → Option (List PGCons))
    (hconv : ∀ p cs, convert p = some cs → ∃ g root, pgConstraints g root = some cs)
    (ff ff' : Bool) (pats pats' : List Pat) (evs evs' : List Ev)
    (fuelT fuelT' fuel₁ fuel₁' fuel₂ fuel₂' : Nat)
    (M M' : Many PGKey PGPred) (h : PortGraph) (ms ms' : List (Match PGMap))
    (hsr : ∀ p ∈ pats, ∀ cs, convert p = some cs → pgSigMultiRoot cs = false)
    (hiso : ∀ p ∈ pats, convert p ≠ some PGProg.pgIsolatedVec)
    (hsr' : ∀ p ∈ pats', ∀ cs, convert p = some cs → pgSigMultiRoot cs = false)
    (hiso' : ∀ p ∈ pats', convert p ≠ some PGProg.pgIsolatedVec)
    (hb : manyBuild convert (fun _ => ([] : List PGKey)) (fun cs => pgTree cs fuelT) pgReq fuel₁
      ff pats evs = some (.ok M))
    (hb' : manyBuild convert (fun _ => ([] : List PGKey)) (fun cs => pgTree cs fuelT') pgReq fuel₁'
      ff' pats' evs' = some (.ok M'))
    (hf : M.findMatches pgDomain h fuel₂ = .ok ms)
    (hf' : M'.findMatches pgDomain h fuel₂' = .ok ms') (i j : Nat) (hij : pats[i]? = pats'[j]?)
    (m : PGMap) :
    (∃ m', (i, m') ∈ ms ∧ MapEqv m' m) ↔ (∃ m', (j, m') ∈ ms' ∧ MapEqv m' m) := by
  rw [c01_c02_pg convert hconv ff pats evs fuelT fuel₁ fuel₂ M h ms hsr hiso hb hf,
    c01_c02_pg convert hconv ff' pats' evs' fuelT' fuel₁' fuel₂' M' h ms' hsr' hiso' hb' hf', hij]

/-! ### Finding: the isolated-root vector -/

open PGEx

/-- Three nodes, one link `1 → 2`; rooted at the isolated node `0`. -/
def exIsoGraph : PortGraph :=
  ⟨[some ⟨0, 0⟩, some ⟨0, 1⟩, some ⟨1, 0⟩], [((1, ⟨.out, 0⟩), (2, ⟨.inc, 0⟩))]⟩

/-- A complete, disciplined log: the root (its tree asks for determinisation), then the accepting
state. -/
def exIsoEvents : List Ev := [.topo 0, .detAsk 0, .detYes 0, .iterEnd 0, .topo 1, .iterEnd 1]

/-- The automaton built from `(exIsoGraph, 0)`: the root has a single FALLBACK transition to the
accepting state, and the empty scope. -/
def exIsoAutomaton : Automaton PGKey PGPred :=
  { g := { nodes := [some ⟨{ det := true, eorder := [0] }, [0], []⟩,
                     some ⟨{ matches_ := [(0, [.root 0])] }, [], [0]⟩],
           edges := [some ⟨0, 1, none⟩], freeNodes := [], freeEdges := [] },
    root := 0 }

theorem exIso_constraints : pgConstraints exIsoGraph 0 = some [⟨.isNotEqual 0, [.root 0]⟩] := by
  decide

theorem exIso_built :
    manyBuild (fun p : PortGraph × Nat => pgConstraints p.1 p.2) (fun _ => ([] : List PGKey))
      (fun cs => pgTree cs 50) pgReq 50 true [(exIsoGraph, 0)] exIsoEvents =
      some (.ok ⟨exIsoAutomaton, [0]⟩) := by rfl

/-- **Finding.** A single-root, arity-correct pattern and a complete disciplined event log whose
build FAILS the per-program check: the root has a transition but the empty scope. -/
theorem pgProgramOK_false_isolated_root :
    pgSigMultiRoot [⟨.isNotEqual 0, [.root 0]⟩] = false ∧
    Automaton.build (fun cs => pgTree cs 50) pgReq 50 [(0, [⟨.isNotEqual 0, [.root 0]⟩], [])]
      exIsoEvents = .ok exIsoAutomaton ∧
    pgProgramOK exIsoAutomaton [some [⟨.isNotEqual 0, [.root 0]⟩]] = false :=
  ⟨by decide, by rfl, by decide⟩

/-- … and the per-state hypothesis of `trun_pg_stateOK` fails too (clause `scope_ne` at the
root). -/
theorem exIso_not_stateOK :
    ¬ ∀ s w, exIsoAutomaton.g.weight? s = some w →
      AnchG.StateOK exIsoAutomaton [some [⟨.isNotEqual 0, [.root 0]⟩]] s w := by
  intro H
  exact (H 0 { det := true, eorder := [0] } rfl).scope_ne (.inr (by decide)) rfl

/-- The traversal of that automaton nevertheless reports what C01/C02 ask for: the root key bound
to every live host node (`isNotEqual 0 [root 0]` holds at every anchor). -/
theorem exIso_run : run pgDomain exIsoAutomaton gPath 20 =
    .ok ([(0, [(.root 0, 0)]), (0, [(.root 0, 1)]), (0, [(.root 0, 2)])],
      [(0, []), (1, [none])]) := by rfl

example : (gPath.nodesIter.map fun r => pgSigmaAnch gPath r ⟨.isNotEqual 0, [.root 0]⟩) =
    [true, true, true] := by decide

/-- **The statement of `pgProg_built` without the `pgNoUnary` hypothesis, concluding the check, is
false.** -/
theorem pgProg_built_literal_false :
    ¬ ∀ (inputs : List (Nat × List PGCons × List PGKey)) (evs : List Ev) (fuel fuelT : Nat)
        (A : Automaton PGKey PGPred) (css : List (Option (List PGCons))),
        Automaton.build (fun cs => pgTree cs fuelT) pgReq fuel inputs evs = .ok A →
        (∀ p ∈ inputs, ∀ c ∈ p.2.1, pgSingleRootKeys c.args = true ∧
          c.args.length = c.pred.arity) →
        (∀ p ∈ inputs, p.2.2 = []) →
        (∀ p ∈ inputs, css[p.1]? = some (some p.2.1)) →
        pgProgramOK A css = true := by
  intro H
  have := H [(0, [⟨.isNotEqual 0, [.root 0]⟩], [])] exIsoEvents 50 50 exIsoAutomaton
    [some [⟨.isNotEqual 0, [.root 0]⟩]] (by rfl) (by decide) (by decide) (by decide)
  revert this
  decide

/-! ### Finding: "at most one fallback" is not a theorem of the undisciplined `build` -/

def exEpsA : PGCons := ⟨.isConnected o0 i0, [.root 0, k1]⟩
def exEpsC : PGCons := ⟨.isConnected o1 i0, [.root 0, .along 0 o1 1]⟩

/-- Four constraint vectors (arity-correct, single-root, no one-key `isNotEqual`): two start with
`A, C` and two with `C`, where `A` and `C` are not mutually exclusive; each pair then diverges on
two constraints that are not mutually exclusive either. -/
def exEpsInputs : List (Nat × List PGCons × List PGKey) :=
  [(0, [exEpsA, exEpsC, ⟨.isConnected o0 i0, [k1, k2]⟩], []),
   (1, [exEpsA, exEpsC, ⟨.isConnected o1 i0, [k1, .along 0 ⟨.out, 2⟩ 1]⟩], []),
   (2, [exEpsC, ⟨.isConnected o0 i0, [.along 0 o1 1, .along 0 o1 2]⟩], []),
   (3, [exEpsC, ⟨.isConnected o1 i0, [.along 0 o1 1, .along 0 ⟨.out, 3⟩ 1]⟩], [])]

def exEpsCss : List (Option (List PGCons)) := exEpsInputs.map fun x => some x.2.1

/-- A log that `build` accepts but the toposort discipline does not: the root (`0`) and the state
`11` after `A` are emitted TWICE. First round: the root is normalised without determinisation
(fallback state `9` with `C → 4`), state `11` fuses its two `C` transitions into state `7`, and
states `7` and `4` each get a fallback state. Second round: the root is determinised, which copies
`C → 4` onto state `11`; state `11` then fuses `C → 7` and `C → 4` into the new state `1`, which
inherits BOTH fallback transitions. -/
def exEpsEvents : List Ev :=
  [.topo 0, .group 0 [0, 3], .group 0 [6, 8], .detAsk 0, .iterEnd 0,
   .topo 11, .group 11 [0, 1], .detAsk 11, .iterEnd 11,
   .topo 7, .detAsk 7, .iterEnd 7,
   .topo 4, .detAsk 4, .iterEnd 4,
   .topo 0, .detAsk 0, .detYes 0, .iterEnd 0,
   .topo 11, .group 11 [1, 10], .detAsk 11, .iterEnd 11]

theorem exEps_inputs_ok :
    (∀ p ∈ exEpsInputs, ∀ c ∈ p.2.1, pgSingleRootKeys c.args = true ∧
      c.args.length = c.pred.arity ∧ PGProg.pgNoUnary c = true) ∧
    (∀ p ∈ exEpsInputs, p.2.2 = []) ∧
    (∀ p ∈ exEpsInputs, exEpsCss[p.1]? = some (some p.2.1)) := by decide

/-- **Finding.** Under ALL hypotheses of `pgProg_built`, a successful guarded `build` whose result
has a state with TWO fallback transitions, so that `pgProgramOK` (clause `eorder.length ≤ 1`) is
false: the full check is not a theorem of `build`, only `StateOK` is. (The traversal of that
automaton panics in `fail_next_state` as soon as it reaches that state, so T-RUN-ANCH-PG, which
speaks about successful runs, is not contradicted.) -/
theorem pgProgramOK_false_two_fallbacks : ∃ A,
    Automaton.build (fun cs => pgTree cs 50) pgReq 50 exEpsInputs exEpsEvents = .ok A ∧
    (A.stateD 1).eorder = [11, 0] ∧ pgProgramOK A exEpsCss = false :=
  ⟨_, rfl, by decide, by decide⟩

/-- `pgProg_built` applies to that build: every live state satisfies `StateOK` although the check
fails. -/
example : ∃ A,
    Automaton.build (fun cs => pgTree cs 50) pgReq 50 exEpsInputs exEpsEvents = .ok A ∧
    pgProgramOK A exEpsCss = false ∧
    ∀ s w, A.g.weight? s = some w → AnchG.StateOK A exEpsCss s w := by
  obtain ⟨A, hb, _, hf⟩ := pgProgramOK_false_two_fallbacks
  exact ⟨A, hb, hf, pgProg_built _ _ _ _ A _ hb exEps_inputs_ok.1 exEps_inputs_ok.2.1
    exEps_inputs_ok.2.2⟩

/-- The disciplined replay `buildT` (a state is emitted at most once, after its predecessors)
rejects that log. -/
example : Automaton.buildT (fun cs => pgTree cs 50) pgReq 50 exEpsInputs exEpsEvents =
    .error (.guard "c1T: state emitted twice or before one of its predecessors") := by rfl

set_option maxRecDepth 8000 in
/-- On a host with a node with two outputs the traversal of that automaton reaches the state with
two fallback transitions and panics (`assert!` in `fail_next_state`). -/
example : ∃ A,
    Automaton.build (fun cs => pgTree cs 50) pgReq 50 exEpsInputs exEpsEvents = .ok A ∧
    run pgDomain A ⟨[some ⟨0, 2⟩, some ⟨1, 0⟩, some ⟨1, 0⟩], [((0, o0), (1, i0)), ((0, o1), (2, i0))]⟩
      100 = .error (.panic "fail_next_state: more than one epsilon transition") :=
  ⟨_, rfl, by rfl⟩

/-! ### Non-vacuity -/

/-- The hypotheses on the patterns of the real build `exPG_built` of `Props/TRunPG.lean`. -/
theorem exPG_patterns_ok :
    (∀ p ∈ exPGPatterns, ∀ cs, pgConstraints p.1 p.2 = some cs → pgSigMultiRoot cs = false) ∧
    (∀ p ∈ exPGPatterns, p.1.edgeCount = 0 ∨ p.1.allLinks p.2 ≠ []) := by
  refine ⟨?_, by decide⟩
  intro p hp cs hcs
  have hall : ∀ q ∈ exPGPatterns, ((pgConstraints q.1 q.2).map pgSigMultiRoot) = some false := by
    decide
  have := hall p hp
  rw [hcs] at this
  exact Option.some.inj this

/-- `pgProg_built_many` applies to `exPG_built` (the edge pattern and the path pattern under a log
that fuses and determinises): every live state of its automaton satisfies `StateOK` — here without
evaluating any check. -/
example : ∃ M, manyBuild (fun p : PortGraph × Nat => pgConstraints p.1 p.2)
      (fun _ => ([] : List PGKey)) (fun cs => pgTree cs 50) pgReq 50 true exPGPatterns exPGEvents =
        some (.ok M) ∧
    M.automaton.liveStates = [0, 2, 4, 5, 6, 7] ∧
    ∀ s w, M.automaton.g.weight? s = some w →
      AnchG.StateOK M.automaton (exPGPatterns.map fun p => pgConstraints p.1 p.2) s w := by
  obtain ⟨M, hb, hl, _, _⟩ := exPG_built
  refine ⟨M, hb, hl, ?_⟩
  exact pgProg_built_many (fun p : PortGraph × Nat => pgConstraints p.1 p.2) true exPGPatterns
    exPGEvents 50 50 M (fun p _ cs hc => ⟨p.1, p.2, hc⟩) exPG_patterns_ok.1
    (fun p hp hc => by
      obtain ⟨h1, h2⟩ := (PGProg.pgConstraints_isolated_iff p.1 p.2).1 hc
      rcases exPG_patterns_ok.2 p hp with h3 | h3
      · exact h1 h3
      · exact h3 h2) hb

/-- The hypotheses of `c01_c02_pg_rooted` hold of that build and its run on the path host; its
conclusion for that run (the check `pgProgramOK` is no longer among the hypotheses). -/
example : ∀ i m, (∃ m', (i, m') ∈ [((0 : Nat), ([(.root 0, 0), (k1, 1)] : PGMap)),
      (0, [(.root 0, 1), (k1, 2)]), (1, [(.root 0, 0), (k1, 1), (k2, 2)])] ∧ MapEqv m' m) ↔
    ∃ p cs, exPGPatterns[i]? = some p ∧ pgConstraints p.1 p.2 = some cs ∧
      ∃ r, r ∈ gPath.nodesIter ∧ (∀ c ∈ cs, pgSigmaAnch gPath r c = true) ∧
        (∀ k ∈ pgPatternKeys cs, (pgVal gPath r k).isSome = true) ∧
        MapGets m (pgPatternKeys cs) (pgVal gPath r) := by
  obtain ⟨M, hb, _, _, hf⟩ := exPG_built
  exact c01_c02_pg_rooted _ _ _ _ _ M _ _ exPG_patterns_ok.1 exPG_patterns_ok.2 hb hf

/-- … and in terms of embeddings (`c01_c02_pg_embeddings`): both patterns are well-formed and
connected, the host is well-formed. -/
example : ∀ i m, (∃ m', (i, m') ∈ [((0 : Nat), ([(.root 0, 0), (k1, 1)] : PGMap)),
      (0, [(.root 0, 1), (k1, 2)]), (1, [(.root 0, 0), (k1, 1), (k2, 2)])] ∧ MapEqv m' m) ↔
    ∃ p cs, exPGPatterns[i]? = some p ∧ pgConstraints p.1 p.2 = some cs ∧
      ∃ r φ, embedsPG p.1 gPath φ = true ∧ alGet φ p.2 = some r ∧
        MapGets m (pgPatternKeys cs) (pgVal gPath r) := by
  obtain ⟨M, hb, _, _, hf⟩ := exPG_built
  exact c01_c02_pg_embeddings _ _ _ _ _ M _ _ (by decide) exPG_patterns_ok.1 (by decide) hb hf

end Pm
