/-
Props/C08PG.lean — property C08 (totality: no panic, no non-termination) for PORT GRAPHS.

PART 1 — the traversal (`run` / `find_matches`) of a built port-graph automaton.
* `c08_pg_run_panic_only` — for EVERY pattern list `pats : List (PortGraph × Nat)` (single- or
  MULTI-root, the isolated-root vector included: no hypothesis on the patterns at all), every event
  log the guarded build accepts, every fuels, EVERY host value (no `LinksOK`) and every fuel: the
  only panic `run pgDomain M.automaton h fuel'` can return is the `assert!` of `fail_next_state`,
  and only if some live state has two epsilon transitions (`¬ C08.EpsLe1`); no guard error; the only
  fuel tag is "traversal". Unreachable: `a.state` on a dead state, `retain_keys` (association
  lists), `predicate check` (every edge constraint of a built automaton is arity-correct:
  `C08PG.arityOK_build`, and `pgCheck` is total at the matching arity), `constraint(t).unwrap()`,
  `nextState`/`constraintOf` on dead edges (`OrdersOK`).
  `c08_pg_run_panic_only_conv`: the same for any conversion into arity-correct vectors.
* `c08_pg_run_no_panic_partial` — with the decidable `C08.EpsLe1 M.automaton` no panic at all.
* FINDING `c08_pg_run_panics_undisciplined` — as for strings, the epsilon hypothesis cannot be
  dropped for the undisciplined `build`: a single-root arity-correct input list, a log `build`
  accepts (`buildT` rejects it: c1T) and a host on which `run` returns that panic.
* `c08_pg_run_terminates` — single-root vectors (`hsr`; the isolated-root vector is NOT excluded):
  EXPLICIT fuel bound `C08PG.pgRunBound A h = geom (max 1 |live host nodes| · outDeg A) |node
  slots of A|` above which `run` does not return the fuel error; `c08_pg_find_matches_total`.
* `c08_pg_opts_no_hidden_panic` — `pgDomain.opts` collapses the `expect` of
  `find_root_candidates` (an unbound path root) into "no options"; for single-root programs every
  key the traversal ever passes to `list_bind_options` is a single-root key, on which
  `pgOptsP` never returns `none`.
* `c08_pg_no_hidden_panic` — the same for EVERY pattern list, multi-root included: every binding
  the traversal of a built automaton hands to `list_bind_options` binds the root of each of its
  bound path keys (`C08PG.PathRoots`), and then `pgOptsP` is `some`
  (`c08_pg_single_no_hidden_panic`: the baseline).

PART 2 — the same for automata returned by the DISCIPLINED builds, the lenient `buildTL` (the
Rust code as it runs, no `make_det` guard) included: `c08_pg_run_TL`.

PART 3 — the builder (`buildT` / `buildTL` with `toTree := fun cs => pgTree cs fuelT`).
* `c08_pg_buildT_panic_tags` — EVERY input list (no hypothesis), every log, every fuels, any
  indexing scheme: the only panic tags are "Graph should be acyclic" and "to_constraints_tree"
  (= `pgTree … fuelT = none`: the MODEL's fuel for `with_powerset` ran out; the Rust loop has none).
* `c08_pg_buildT_panic_only` — with `fuelT ≥ C08PG.pgTreeBound inputs = 2 ^ (|universe| + 1)` the
  only panic tag is "Graph should be acyclic" (`c08_treeFine_pg`: the `TreeFine`-style facts about
  `pgTree`; `C08PG.pgUniverse inputs`: an explicit finite superset of the constraints that can sit
  on an edge; `c08_pg_universe_length`: its size).
* `c08_pg_build_errors` (`…_inputs`) — single-root inputs, `fuel ≥ C08PG.pgBuildBound inputs =
  max 16 (2 ^ (|universe| + 1))`, `fuelT ≥ C08PG.pgTreeBound inputs`: every error is a guard error
  of the replay or that panic; no fuel error.
* COMBINED: `c08_pg_total` (guarded disciplined build), `c08_pg_total_TL` (the Rust code path).
* Remaining target, as for strings: acyclicity of the automaton the main loop ends with
  (`c08_str_build_acyclic_target`), and `C08.EpsLe1` of the result (see "Where (I2) is NOT
  inductive" in `Props/C08.lean`); both are decidable per build.

PART 4 — the baseline `SinglePatternMatcher`.
* `c08_pg_single_no_panic` — for every output of `constraint_vec` (single- or multi-root), every
  host value and every fuel, `singleMatches pgDomain cs h fuel` returns `.ok` or one of its two
  fuel errors; `c08_pg_single_terminates`: some fuel suffices, and then every larger one;
  `c08_pg_single_total`: single-root vectors, explicit bound `cs.length · |live host nodes| + 4`.

Proofs: `Proofs/C08PGRun.lean` (`RunSafe` for `pgDomain`, candidate bound), `C08PGBuilt` (what a
successful guarded build provides), `C08PGSingle` (baseline), `C08PGBuildT` (the disciplined
builds with the edge invariant `AnchG.EQ` as the only passenger), `C08PGBuildPG` (`pgTree`, the
universe), `C08PGFuel` (`all_missing_bindings` relativised to single-root keys), `C08PGTreeLoop`
(`add_constraint_tree` on nested trees), `C08PGErrors` (assembly), `C08PGOpts` (the `expect` of
`find_root_candidates`).
-/
import PmVerif.Proofs.C08PGRun
import PmVerif.Proofs.C08PGBuilt
import PmVerif.Proofs.C08PGSingle
import PmVerif.Proofs.C08PGErrors
import PmVerif.Proofs.C08PGOpts
import PmVerif.Props.C08
import PmVerif.Props.PGProg
import PmVerif.Props.C01PG
import PmVerif.Props.F3b
namespace Pm
open Automaton

/-! ## PART 1 — the traversal -/

section Traversal
variable {Pat : Type} (convert : Pat → Option (List PGCons))

/-- What the guarded build provides (port graphs, any conversion into arity-correct vectors). -/
theorem c08_pg_built_facts (ff : Bool) (pats : List Pat) (evs : List Ev) (fuelT fuel : Nat)
    (M : Many PGKey PGPred)
    (har : ∀ p ∈ pats, ∀ cs, convert p = some cs → ∀ c ∈ cs, c.args.length = c.pred.arity)
    (hb : manyBuild convert (fun _ => ([] : List PGKey)) (fun cs => pgTree cs fuelT) pgReq fuel ff
      pats evs = some (.ok M)) :
    OrdersOK M.automaton ∧ (∃ w, M.automaton.g.weight? M.automaton.root = some w) ∧
      C08PG.ArityOK M.automaton ∧
      ∃ rank : Nat → Nat, (∀ s, rank s ≤ M.automaton.g.nodes.length) ∧
        ∀ t e, M.automaton.g.edge? t = some e → rank e.dst < rank e.src :=
  C08PG.many_facts convert har hb

/-- **C08, port graphs: the only reachable panic of the traversal**, for any conversion into
arity-correct constraint vectors. -/
theorem c08_pg_run_panic_only_conv (ff : Bool) (pats : List Pat) (evs : List Ev)
    (fuelT fuel : Nat) (M : Many PGKey PGPred)
    (har : ∀ p ∈ pats, ∀ cs, convert p = some cs → ∀ c ∈ cs, c.args.length = c.pred.arity)
    (hb : manyBuild convert (fun _ => ([] : List PGKey)) (fun cs => pgTree cs fuelT) pgReq fuel ff
      pats evs = some (.ok M)) (h : PortGraph) (fuel' : Nat) :
    (∀ tag, run pgDomain M.automaton h fuel' = .error (.panic tag) →
      tag = C08.failTag ∧ ¬ C08.EpsLe1 M.automaton) ∧
    (∀ tag, run pgDomain M.automaton h fuel' ≠ .error (.guard tag)) ∧
    (∀ tag, run pgDomain M.automaton h fuel' = .error (.fuel tag) → tag = "traversal") := by
  obtain ⟨ok, hroot, harity, _⟩ := c08_pg_built_facts convert ff pats evs fuelT fuel M har hb
  have hres := C08PG.pg_run_res h ok hroot harity fuel'
  refine ⟨fun tag ht => ?_, fun tag ht => ?_, fun tag ht => ?_⟩ <;>
    rcases hres with ⟨x, hx⟩ | hx | ⟨hne, hx⟩ <;> rw [hx] at ht <;> cases ht
  · exact ⟨rfl, hne⟩
  · rfl

/-- **C08, port graphs, goal 2 for any conversion into single-root arity-correct vectors:
explicit termination bound** (no epsilon hypothesis; the isolated-root vector is allowed). -/
theorem c08_pg_run_terminates_conv (ff : Bool) (pats : List Pat) (evs : List Ev)
    (fuelT fuel : Nat) (M : Many PGKey PGPred)
    (har : ∀ p ∈ pats, ∀ cs, convert p = some cs → ∀ c ∈ cs, c.args.length = c.pred.arity)
    (hsr : ∀ p ∈ pats, ∀ cs, convert p = some cs → pgSigMultiRoot cs = false)
    (hb : manyBuild convert (fun _ => ([] : List PGKey)) (fun cs => pgTree cs fuelT) pgReq fuel ff
      pats evs = some (.ok M)) (h : PortGraph) :
    ∀ fuel', C08PG.pgRunBound M.automaton h ≤ fuel' →
      C08.Res M.automaton (run pgDomain M.automaton h fuel') := by
  intro fuel' hf
  obtain ⟨ok, hroot, harity, rank, hle, hrank⟩ :=
    c08_pg_built_facts convert ff pats evs fuelT fuel M har hb
  exact C08PG.pg_run_total h ok hroot harity
    (fun s w hw => (C08PG.many_scopeShape convert hsr hb s w hw).1) rank hle hrank fuel' hf

end Traversal

section Rooted
variable (pats : List (PortGraph × Nat)) (evs : List Ev) (fuelT fuel : Nat)
  (M : Many PGKey PGPred)

/-- **C08, port graphs: the only reachable panic of the traversal.** EVERY pattern list (no
hypothesis: multi-root patterns and the isolated-root vector included), every log the guarded
build accepts, every host value, every fuel. -/
theorem c08_pg_run_panic_only
    (hb : manyBuild (fun p : PortGraph × Nat => pgConstraints p.1 p.2) (fun _ => ([] : List PGKey))
      (fun cs => pgTree cs fuelT) pgReq fuel true pats evs = some (.ok M))
    (h : PortGraph) (fuel' : Nat) :
    (∀ tag, run pgDomain M.automaton h fuel' = .error (.panic tag) →
      tag = C08.failTag ∧ ¬ C08.EpsLe1 M.automaton) ∧
    (∀ tag, run pgDomain M.automaton h fuel' ≠ .error (.guard tag)) ∧
    (∀ tag, run pgDomain M.automaton h fuel' = .error (.fuel tag) → tag = "traversal") :=
  c08_pg_run_panic_only_conv _ true pats evs fuelT fuel M
    (fun p _ cs hcs => tdom_pg_arity p.1 p.2 cs hcs) hb h fuel'

/-- **C08, port graphs, goal 1 with the epsilon hypothesis**: the traversal of a built automaton
each of whose states has at most one epsilon transition never panics. -/
theorem c08_pg_run_no_panic_partial
    (hb : manyBuild (fun p : PortGraph × Nat => pgConstraints p.1 p.2) (fun _ => ([] : List PGKey))
      (fun cs => pgTree cs fuelT) pgReq fuel true pats evs = some (.ok M))
    (heps : C08.EpsLe1 M.automaton) (h : PortGraph) (fuel' : Nat) :
    ∀ tag, run pgDomain M.automaton h fuel' ≠ .error (.panic tag) :=
  fun tag ht => ((c08_pg_run_panic_only pats evs fuelT fuel M hb h fuel').1 tag ht).2 heps

/-- The per-program check `pgProgramOK` (evaluated by the driver on every dumped automaton)
contains the epsilon clause. -/
theorem c08_epsLe1_of_pgProgramOK (A : Automaton PGKey PGPred) (css : List (Option (List PGCons)))
    (hok : pgProgramOK A css = true) : C08.EpsLe1 A := by
  intro s w hw
  have hall := (liveStates_all A fun s w =>
    decide (w.eorder.length ≤ 1) &&
    (w.corder.all fun t => match A.g.edge? t with
      | some ⟨_, _, some c⟩ => decide (c.args.length = c.pred.arity) && c.args.all w.scope.contains
      | _ => false) &&
    (w.eorder.all fun t => match A.g.edge? t with
      | some ⟨_, _, none⟩ => true
      | _ => false) &&
    ((w.corder.isEmpty && w.eorder.isEmpty) || !w.scope.isEmpty) &&
    prereqOrdered pgReq w.scope && decide w.scope.Nodup && pgSingleRootKeys w.scope &&
    (w.matches_.all fun m =>
      prereqOrdered pgReq m.2 && decide m.2.Nodup && pgSingleRootKeys m.2 &&
      (s == A.root || !m.2.isEmpty) &&
      (match css[m.1]? with
       | some (some cs) => decide (m.2 = pgPatternKeys cs)
       | _ => false))).mp hok s w hw
  simp only [Bool.and_eq_true, decide_eq_true_eq] at hall
  exact hall.1.1.1.1.1.1.1

/-- **C08, port graphs, goal 2: explicit termination bound** for single-root pattern lists (no
epsilon hypothesis, the isolated-root vector allowed, any host value). -/
theorem c08_pg_run_terminates
    (hsr : ∀ p ∈ pats, ∀ cs, pgConstraints p.1 p.2 = some cs → pgSigMultiRoot cs = false)
    (hb : manyBuild (fun p : PortGraph × Nat => pgConstraints p.1 p.2) (fun _ => ([] : List PGKey))
      (fun cs => pgTree cs fuelT) pgReq fuel true pats evs = some (.ok M)) (h : PortGraph) :
    ∀ fuel', C08PG.pgRunBound M.automaton h ≤ fuel' →
      ∀ tag, run pgDomain M.automaton h fuel' ≠ .error (.fuel tag) := by
  intro fuel' hf tag ht
  rcases c08_pg_run_terminates_conv _ true pats evs fuelT fuel M
      (fun p _ cs hcs => tdom_pg_arity p.1 p.2 cs hcs) hsr hb h fuel' hf with
    ⟨x, hx⟩ | ⟨_, hx⟩ <;> rw [hx] at ht <;> cases ht

/-- **C08, port graphs: `find_matches` is total** on built single-root automata with at most one
epsilon transition per state: for every host and every fuel above the explicit bound, `run`
returns. -/
theorem c08_pg_find_matches_total
    (hsr : ∀ p ∈ pats, ∀ cs, pgConstraints p.1 p.2 = some cs → pgSigMultiRoot cs = false)
    (hb : manyBuild (fun p : PortGraph × Nat => pgConstraints p.1 p.2) (fun _ => ([] : List PGKey))
      (fun cs => pgTree cs fuelT) pgReq fuel true pats evs = some (.ok M))
    (heps : C08.EpsLe1 M.automaton) (h : PortGraph) (fuel' : Nat)
    (hf : C08PG.pgRunBound M.automaton h ≤ fuel') :
    ∃ ms seen, run pgDomain M.automaton h fuel' = .ok (ms, seen) ∧
      M.findMatches pgDomain h fuel' = .ok ms := by
  rcases c08_pg_run_terminates_conv _ true pats evs fuelT fuel M
      (fun p _ cs hcs => tdom_pg_arity p.1 p.2 cs hcs) hsr hb h fuel' hf with
    ⟨⟨ms, seen⟩, hx⟩ | ⟨hne, _⟩
  · exact ⟨ms, seen, hx, by simp [Many.findMatches, hx, Except.map]⟩
  · exact absurd heps hne

/-- **No hidden panic in `list_bind_options`** for single-root programs: every key of every scope
and of every recorded key list of the built automaton is a single-root key, and on such keys
`pgOptsP` (`list_bind_options` with the `expect` of `find_root_candidates` as `none`) is `some`
for every host and binding — so `pgDomain.opts = (pgOptsP · · ·).getD []` hides nothing. -/
theorem c08_pg_opts_no_hidden_panic
    (hsr : ∀ p ∈ pats, ∀ cs, pgConstraints p.1 p.2 = some cs → pgSigMultiRoot cs = false)
    (hb : manyBuild (fun p : PortGraph × Nat => pgConstraints p.1 p.2) (fun _ => ([] : List PGKey))
      (fun cs => pgTree cs fuelT) pgReq fuel true pats evs = some (.ok M)) :
    ∀ s w, M.automaton.g.weight? s = some w → ∀ k,
      (k ∈ w.scope ∨ ∃ pid ks, (pid, ks) ∈ w.matches_ ∧ k ∈ ks) →
      ∀ (h : PortGraph) (m : PGMap), (pgOptsP h k m).isSome = true := by
  intro s w hw k hk h m
  apply C08PG.pgOptsP_isSome_of_SR
  rcases hk with hk | ⟨pid, ks, hm, hk⟩
  · exact (C08PG.many_scopeShape _ hsr hb s w hw).1 k hk
  · exact (C08PG.many_matchesShape _ hsr hb s w hw (pid, ks) hm).1 k hk

/-- **No hidden panic in `list_bind_options`, EVERY pattern list (multi-root included).**
`pgDomain.opts` collapses the `expect` of `find_root_candidates` (`nodes_with_free_ports`: "the
root of a traversed path is not bound") into "no options", so part 1 does not see it. It is
unreachable: every binding of every configuration the traversal of a built automaton can arrive
at binds the root of each of its bound path keys (`C08PG.PathRoots`: scopes of built automata are
prerequisite-ordered, `c09_built_scopes_ordered`, and `list_bind_options` offers nothing for
`along r _ _` while `root r` is unbound); `bind_all` — with ANY key list, in either mode — keeps
that; and on such a binding `pgOptsP` is `some` for every key. -/
theorem c08_pg_no_hidden_panic (pats : List (PortGraph × Nat)) (evs : List Ev) (fuelT fuel : Nat)
    (M : Many PGKey PGPred)
    (hb : manyBuild (fun p : PortGraph × Nat => pgConstraints p.1 p.2) (fun _ => ([] : List PGKey))
      (fun cs => pgTree cs fuelT) pgReq fuel true pats evs = some (.ok M)) (h : PortGraph) :
    (∀ s m, Reach pgDomain M.automaton h s m → C08PG.PathRoots m) ∧
    (∀ m ks inc, C08PG.PathRoots m →
      ∀ m' ∈ bindAll assocMap pgOpts h m ks inc, C08PG.PathRoots m') ∧
    (∀ m, C08PG.PathRoots m → ∀ (g : PortGraph) (k : PGKey), (pgOptsP g k m).isSome = true) := by
  obtain ⟨ok, hroot, harity, _⟩ := c08_pg_built_facts _ true pats evs fuelT fuel M
    (fun p _ cs hcs => tdom_pg_arity p.1 p.2 cs hcs) hb
  obtain ⟨inputs, _, hbuild⟩ := C08PG.many_parts _ hb
  have hsc := c09_built_scopes_ordered (fun cs => pgTree cs fuelT) pgReq c09_pgReq_acyclic fuel
    inputs evs M.automaton hbuild
  have S := C08PG.pgSafe_roots h ok hroot harity hsc
  exact ⟨fun s m hr => C08PG.reach_inv_of_runSafe S hr,
    fun m ks inc hm => C08.bindAll_inv assocMap pgOpts h inc C08PG.PathRoots S.bind m hm ks,
    fun m hm g k => C08PG.pgOptsP_isSome g k hm⟩

end Rooted

set_option maxRecDepth 8000 in
/-- **FINDING** (the port-graph analogue of `c08_str_run_no_panic_target_false`): without the
epsilon hypothesis the no-panic statement is false for the undisciplined `build`. `exEpsInputs`
(four single-root, arity-correct vectors without one-key `isNotEqual`), the log `exEpsEvents`
(accepted by `build`; it emits two states twice, so `buildT` rejects it: c1T) and a host with a
node with two outputs: the traversal reaches a state with two fallback transitions and returns
the `fail_next_state` panic. -/
theorem c08_pg_run_panics_undisciplined : ∃ A,
    (∀ p ∈ exEpsInputs, ∀ c ∈ p.2.1, pgSingleRootKeys c.args = true ∧
      c.args.length = c.pred.arity ∧ PGProg.pgNoUnary c = true) ∧
    Automaton.build (fun cs => pgTree cs 50) pgReq 50 exEpsInputs exEpsEvents = .ok A ∧
    ¬ C08.EpsLe1 A ∧
    run pgDomain A ⟨[some ⟨0, 2⟩, some ⟨1, 0⟩, some ⟨1, 0⟩],
      [((0, PGEx.o0), (1, PGEx.i0)), ((0, PGEx.o1), (2, PGEx.i0))]⟩ 100 =
      .error (.panic C08.failTag) ∧
    Automaton.buildT (fun cs => pgTree cs 50) pgReq 50 exEpsInputs exEpsEvents =
      .error (.guard "c1T: state emitted twice or before one of its predecessors") := by
  obtain ⟨A, hb, heo, _⟩ := pgProgramOK_false_two_fallbacks
  have hfacts : ∃ A', Automaton.build (fun cs => pgTree cs 50) pgReq 50 exEpsInputs exEpsEvents =
      .ok A' ∧ A'.g.weight? 1 = some (A'.stateD 1) ∧
      run pgDomain A' ⟨[some ⟨0, 2⟩, some ⟨1, 0⟩, some ⟨1, 0⟩],
        [((0, PGEx.o0), (1, PGEx.i0)), ((0, PGEx.o1), (2, PGEx.i0))]⟩ 100 =
        .error (.panic C08.failTag) := ⟨_, rfl, by decide, by rfl⟩
  obtain ⟨A', hb', hw', hr'⟩ := hfacts
  rw [hb] at hb'
  cases hb'
  refine ⟨A, exEps_inputs_ok.1, hb, fun heps => ?_, hr', by rfl⟩
  have := heps 1 _ hw'
  rw [heo] at this
  simp at this

/-! ## PART 2 — the traversal of automata returned by the DISCIPLINED builds, the lenient
`buildTL` (the Rust code as it runs, no `make_det` guard) included

Part 1 is about the guarded `build` (and hence `buildT`, which refines it). The model guard of
`make_det` is not needed for totality: the edge invariant `AnchG.EQ` is carried through the
lenient main loop (`C08PG.builtWith_factsQ`), so the same statements hold of `buildTL`. -/

/-- **C08, port graphs, traversal of every automaton built by the Rust code path** (`buildTL`) or
by the guarded disciplined build (`buildT`): the only panic is the `fail_next_state` assert (only
with two epsilon transitions somewhere); no guard error; for single-root pattern lists the
explicit bound `C08PG.pgRunBound A h` excludes the fuel error and, with `C08.EpsLe1 A`, the run
returns. EVERY pattern list for the panic statement, every log, every host value, every fuel. -/
theorem c08_pg_run_TL (pats : List (PortGraph × Nat)) (evs : List Ev) (fuelT fuel : Nat)
    (inputs : List (Nat × List PGCons × List PGKey)) (A : Automaton PGKey PGPred)
    (hin : manyInputs (fun p : PortGraph × Nat => pgConstraints p.1 p.2)
      (fun _ => ([] : List PGKey)) true pats 0 = some inputs)
    (hb : buildTL (fun cs => pgTree cs fuelT) pgReq fuel inputs evs = .ok A ∨
      buildT (fun cs => pgTree cs fuelT) pgReq fuel inputs evs = .ok A)
    (h : PortGraph) (fuel' : Nat) :
    (∀ tag, run pgDomain A h fuel' = .error (.panic tag) → tag = C08.failTag ∧ ¬ C08.EpsLe1 A) ∧
    (∀ tag, run pgDomain A h fuel' ≠ .error (.guard tag)) ∧
    ((∀ p ∈ pats, ∀ cs, pgConstraints p.1 p.2 = some cs → pgSigMultiRoot cs = false) →
      C08PG.pgRunBound A h ≤ fuel' →
      (∀ tag, run pgDomain A h fuel' ≠ .error (.fuel tag)) ∧
      (C08.EpsLe1 A → ∃ ms seen, run pgDomain A h fuel' = .ok (ms, seen))) := by
  have har : ∀ p ∈ pats, ∀ cs, pgConstraints p.1 p.2 = some cs →
      ∀ c ∈ cs, c.args.length = c.pred.arity := fun p _ cs hcs => tdom_pg_arity p.1 p.2 cs hcs
  have facts : OrdersOK A ∧ (∃ w, A.g.weight? A.root = some w) ∧ C08PG.ArityOK A ∧
      ∃ rank : Nat → Nat, (∀ s, rank s ≤ A.g.nodes.length) ∧
        ∀ t e, A.g.edge? t = some e → rank e.dst < rank e.src := by
    rcases hb with hb | hb
    · rw [C08.buildTL_eq_buildWith] at hb
      exact C08PG.many_builtWith_facts _ C08PG.detOKQ_makeDetL har hin hb
    · rw [C08.buildT_eq_buildWith] at hb
      exact C08PG.many_builtWith_facts _ C08PG.detOKQ_makeDet har hin hb
  obtain ⟨ok, hroot, harity, rank, hle, hrank⟩ := facts
  have hres := C08PG.pg_run_res h ok hroot harity fuel'
  refine ⟨fun tag ht => ?_, fun tag ht => ?_, fun hsr hf => ?_⟩
  · rcases hres with ⟨x, hx⟩ | hx | ⟨hne, hx⟩ <;> rw [hx] at ht <;> cases ht
    exact ⟨rfl, hne⟩
  · rcases hres with ⟨x, hx⟩ | hx | ⟨hne, hx⟩ <;> rw [hx] at ht <;> cases ht
  · have hshape : ∀ s w, A.g.weight? s = some w → AnchG.Sh w.scope := by
      rcases hb with hb | hb
      · rw [C08.buildTL_eq_buildWith] at hb
        exact (C08PG.many_builtWith_shapes _ C08PG.detOKQ_makeDetL C08.detMFrom_makeDetL hsr hin
          hb).1
      · rw [C08.buildT_eq_buildWith] at hb
        exact (C08PG.many_builtWith_shapes _ C08PG.detOKQ_makeDet C08.detMFrom_makeDet hsr hin
          hb).1
    have htot := C08PG.pg_run_total h ok hroot harity (fun s w hw => (hshape s w hw).1) rank hle
      hrank fuel' hf
    refine ⟨fun tag ht => ?_, fun heps => ?_⟩
    · rcases htot with ⟨x, hx⟩ | ⟨_, hx⟩ <;> rw [hx] at ht <;> cases ht
    · rcases htot with ⟨⟨ms, seen⟩, hx⟩ | ⟨hne, _⟩
      · exact ⟨ms, seen, hx⟩
      · exact absurd heps hne

/-! ## PART 3 — the builder

For EVERY input list (no hypothesis: multi-root vectors, the isolated-root vector, even
arity-incorrect constraints), EVERY event log and EVERY fuels, the disciplined builds `buildTL`
(the Rust code as it runs) and `buildT` (guarded) over `pgTree` return `.ok`, a guard error (the
log is not one the Rust loop can produce), a fuel error, or one of two panics:
`expect("Graph should be acyclic")` of `populate_scopes` — as for strings, acyclicity of the
automaton the main loop ends with is not an invariant carried by the proofs — and
"to_constraints_tree", which in the model is `pgTree cs fuelT = none`: the model's fuel `fuelT` for
the worklist loop of `with_powerset` ran out (the Rust loop has no fuel and terminates:
`tpg_tree_terminates`; `PGPredicate::to_constraints_tree` has no panic site). The latter is
excluded once `fuelT ≥ C08PG.pgTreeBound inputs = 2 ^ (|C08PG.pgUniverse inputs| + 1)`: the list
handed to `to_constraints_tree` is duplicate-free (it is computed right after
`make_constraints_unique`: `C08PG.drained_nodup`) and drawn from the explicit finite universe
`C08PG.pgUniverse inputs` of constraints that can ever sit on an edge (the input constraints and a
superset of their conditioned forms: `C08PG.pgCond_universe`). All other panic sites of the builder
(`StableGraph::add_edge`, `invalid state`, `unknown state`, `invalid transition`,
`children[ind]: index out of bounds`, `children[i]`, `removed_transition.unwrap()`,
`fail_next_state` inside `make_det`, `forward_scopes.remove(&node).unwrap()`, …) are unreachable. -/

/-- **Goal 3, port graphs, any fuels**: the only panic tags of the disciplined builds. -/
theorem c08_pg_buildT_panic_tags (req : PGKey → List PGKey) (fuel fuelT : Nat)
    (inputs : List (Nat × List PGCons × List PGKey)) (evs : List Ev) :
    (∀ tag, buildTL (fun cs => pgTree cs fuelT) req fuel inputs evs = .error (.panic tag) →
      tag = C08.acyclicTag ∨ tag = C08PG.treeTag) ∧
    (∀ tag, buildT (fun cs => pgTree cs fuelT) req fuel inputs evs = .error (.panic tag) →
      tag = C08.acyclicTag ∨ tag = C08PG.treeTag) :=
  ⟨C08PG.pg_buildWith_panics C08PG.detOKQ_makeDetL req fuel fuelT inputs evs,
    C08PG.pg_buildWith_panics C08PG.detOKQ_makeDet req fuel fuelT inputs evs⟩

/-- **Goal 3, port graphs**: with `fuelT` above the universe bound, the only panic tag of the
disciplined builds is "Graph should be acyclic" — every input list, every log, every `fuel`. -/
theorem c08_pg_buildT_panic_only (req : PGKey → List PGKey) (fuel fuelT : Nat)
    (inputs : List (Nat × List PGCons × List PGKey))
    (hfT : C08PG.pgTreeBound inputs ≤ fuelT) (evs : List Ev) :
    (∀ tag, buildTL (fun cs => pgTree cs fuelT) req fuel inputs evs = .error (.panic tag) →
      tag = C08.acyclicTag) ∧
    (∀ tag, buildT (fun cs => pgTree cs fuelT) req fuel inputs evs = .error (.panic tag) →
      tag = C08.acyclicTag) :=
  ⟨C08PG.pg_buildWith_panics_universe inputs C08PG.detOKQ_makeDetL req fuel fuelT hfT evs,
    C08PG.pg_buildWith_panics_universe inputs C08PG.detOKQ_makeDet req fuel fuelT hfT evs⟩

/-- Goal 3 at full strength (no excluded tag) needs exactly the acyclicity of the automaton the
main loop ends with (then the Kahn sort of `populate_scopes` succeeds): the port-graph analogue of
`c08_str_buildTL_no_panic_of_acyclic`. -/
theorem c08_pg_buildTL_no_panic_of_acyclic (req : PGKey → List PGKey) (fuel fuelT : Nat)
    (inputs : List (Nat × List PGCons × List PGKey))
    (hfT : C08PG.pgTreeBound inputs ≤ fuelT) (evs : List Ev)
    (hac : ∀ a1 a2, addPatterns req fuel (Automaton.new : Automaton PGKey PGPred) inputs = .ok a1 →
      mainLoopWith makeDetL (fun cs => pgTree cs fuelT) fuel evs.length a1 [] evs = .ok a2 →
      a2.topoOrder.isSome = true) :
    ∀ tag, buildTL (fun cs => pgTree cs fuelT) req fuel inputs evs ≠ .error (.panic tag) :=
  fun tag ht => (C08PG.pg_buildWith_noPanic_of_acyclic inputs C08PG.detOKQ_makeDetL req fuel fuelT
    hfT evs hac).not_panic tag ht

/-- `pgTree` satisfies the `TreeFine`-style hypotheses of the port-graph totality proof
(the analogue of `c08_treeFine_char`): valid labels and the tree contract for some truth
assignment, edge constraints inside the universe, and totality on duplicate-free lists of
universe constraints above the bound. -/
theorem c08_treeFine_pg (inputs : List (Nat × List PGCons × List PGKey)) (fuelT : Nat)
    (hfT : C08PG.pgTreeBound inputs ≤ fuelT) :
    C08PG.TreeQ C08PG.pgSigma0 (fun c => c ∈ C08PG.pgUniverse inputs) (fun cs => pgTree cs fuelT) ∧
    (∀ cs : List PGCons, cs.Nodup → (∀ c ∈ cs, c ∈ C08PG.pgUniverse inputs) →
      (pgTree cs fuelT).isSome = true) ∧
    (∀ p ∈ inputs, ∀ c ∈ p.2.1, c ∈ C08PG.pgUniverse inputs) := by
  refine ⟨C08PG.treeQ_pg (fun _ _ _ h hc => C08PG.pgCond_universe inputs h hc) fuelT, ?_,
    C08PG.inputs_sub_universe inputs⟩
  rcases C08PG.pgTree_tot_universe (fun _ => False) inputs hfT with h | h
  · exact h.elim
  · exact h

/-- The size of the universe: one entry per input constraint plus, for every input `isNotEqual`
constraint with `m` other keys, `1 + m + … + mᵐ` candidate conditioned forms. -/
theorem c08_pg_universe_length (inputs : List (Nat × List PGCons × List PGKey)) :
    (C08PG.pgUniverse inputs).length =
      ((inputs.flatMap fun p => p.2.1).map fun c => 1 + (C08PG.condForms c).length).sum ∧
    ∀ n first others, (C08PG.condForms ⟨.isNotEqual n, first :: others⟩).length =
      C08.geom others.length others.length := by
  constructor
  · unfold C08PG.pgUniverse
    induction inputs with
    | nil => rfl
    | cons p ps ih =>
      rw [List.flatMap_cons, List.length_append, ih, List.flatMap_cons, List.map_append,
        List.sum_append]
      congr 1
      generalize p.2.1 = cs
      induction cs with
      | nil => rfl
      | cons c cs ihc =>
        rw [List.flatMap_cons, List.length_append, ihc, List.map_cons, List.sum_cons,
          List.length_cons]
        omega
  · intro n first others
    simp [C08PG.condForms, C08PG.length_listsUpTo]

/-- **Goal 3/4, port graphs: fuel sufficiency.** Single-root inputs (constraint and extra keys
are single-root keys); `fuel ≥ C08PG.pgBuildBound inputs = max 16 (2 ^ (|universe| + 1))` and
`fuelT ≥ C08PG.pgTreeBound inputs = 2 ^ (|universe| + 1)`: EVERY error of the disciplined builds,
on EVERY log, is a guard error of the replay or the panic "Graph should be acyclic" — no fuel
error (`all_missing_bindings`: `pgReq` is the star scheme on single-root keys, 16 steps;
`add_constraint_tree`: at most `2 ^ (|universe| + 1)` tree nodes, each popped once; main loop:
the length of the log), no other panic. -/
theorem c08_pg_build_errors_inputs (inputs : List (Nat × List PGCons × List PGKey))
    (hsr : ∀ p ∈ inputs, (∀ c ∈ p.2.1, pgSingleRootKeys c.args = true) ∧
      pgSingleRootKeys p.2.2 = true)
    (fuel fuelT : Nat) (hfuel : C08PG.pgBuildBound inputs ≤ fuel)
    (hfT : C08PG.pgTreeBound inputs ≤ fuelT) (evs : List Ev) :
    (∀ e, buildTL (fun cs => pgTree cs fuelT) pgReq fuel inputs evs = .error e →
      C08.IsGuard e ∨ e = .panic C08.acyclicTag) ∧
    (∀ e, buildT (fun cs => pgTree cs fuelT) pgReq fuel inputs evs = .error e →
      C08.IsGuard e ∨ e = .panic C08.acyclicTag) := by
  have hsr' : ∀ p ∈ inputs, (∀ c ∈ p.2.1, ∀ k ∈ c.args, AnchG.SR k) ∧ ∀ k ∈ p.2.2, AnchG.SR k :=
    fun p hp => ⟨fun c hc => (AnchG.pgSingleRootKeys_iff _).1 ((hsr p hp).1 c hc),
      (AnchG.pgSingleRootKeys_iff _).1 (hsr p hp).2⟩
  exact ⟨fun e he => C08PG.pg_buildWith_errors inputs C08PG.detOKQ_makeDetL hsr' fuel fuelT hfuel
      hfT evs e he,
    fun e he => C08PG.pg_buildWith_errors inputs C08PG.detOKQ_makeDet hsr' fuel fuelT hfuel
      hfT evs e he⟩

/-- **Goal 3/4 for single-root pattern lists** (`ManyMatcher` inputs). -/
theorem c08_pg_build_errors (pats : List (PortGraph × Nat)) (evs : List Ev) (fuel fuelT : Nat)
    (inputs : List (Nat × List PGCons × List PGKey))
    (hsr : ∀ p ∈ pats, ∀ cs, pgConstraints p.1 p.2 = some cs → pgSigMultiRoot cs = false)
    (hin : manyInputs (fun p : PortGraph × Nat => pgConstraints p.1 p.2)
      (fun _ => ([] : List PGKey)) true pats 0 = some inputs)
    (hfuel : C08PG.pgBuildBound inputs ≤ fuel) (hfT : C08PG.pgTreeBound inputs ≤ fuelT) :
    (∀ e, buildTL (fun cs => pgTree cs fuelT) pgReq fuel inputs evs = .error e →
      C08.IsGuard e ∨ e = .panic C08.acyclicTag) ∧
    (∀ e, buildT (fun cs => pgTree cs fuelT) pgReq fuel inputs evs = .error e →
      C08.IsGuard e ∨ e = .panic C08.acyclicTag) := by
  have hsr' := C08PG.many_inputs_sr _ hsr hin
  exact ⟨fun e he => C08PG.pg_buildWith_errors inputs C08PG.detOKQ_makeDetL hsr' fuel fuelT hfuel
      hfT evs e he,
    fun e he => C08PG.pg_buildWith_errors inputs C08PG.detOKQ_makeDet hsr' fuel fuelT hfuel
      hfT evs e he⟩

/-- `manyInputs` never fails on patterns given as `(graph, root)`: `constraint_vec` is total
(`tdom_pg_total`). -/
theorem c08_pg_inputs_total (pats : List (PortGraph × Nat)) :
    ∃ inputs, manyInputs (fun p : PortGraph × Nat => pgConstraints p.1 p.2)
      (fun _ => ([] : List PGKey)) true pats 0 = some inputs := by
  suffices H : ∀ i, ∃ inputs, manyInputs (fun p : PortGraph × Nat => pgConstraints p.1 p.2)
      (fun _ => ([] : List PGKey)) true pats i = some inputs from H 0
  induction pats with
  | nil => exact fun _ => ⟨[], rfl⟩
  | cons p ps ih =>
    intro i
    obtain ⟨cs, hcs⟩ := tdom_pg_total p.1 p.2
    obtain ⟨rest, hrest⟩ := ih (i + 1)
    exact ⟨(i, cs, []) :: rest, by simp only [manyInputs, hcs, hrest]⟩

/-- **C08 for single-root port-graph pattern lists, the Rust code path, combined**: for every
event log and fuels above the explicit bounds, `buildTL` returns `.ok`, a guard error (the log is
not one the Rust loop can produce) or the panic "Graph should be acyclic"; the traversal of every
automaton it returns, on every host value and with every fuel, returns `.ok`, the fuel error (never
above the explicit bound), or the `fail_next_state` panic (only if some state has two epsilon
transitions). -/
theorem c08_pg_total_TL (pats : List (PortGraph × Nat)) (evs : List Ev) (fuel fuelT : Nat)
    (inputs : List (Nat × List PGCons × List PGKey))
    (hsr : ∀ p ∈ pats, ∀ cs, pgConstraints p.1 p.2 = some cs → pgSigMultiRoot cs = false)
    (hin : manyInputs (fun p : PortGraph × Nat => pgConstraints p.1 p.2)
      (fun _ => ([] : List PGKey)) true pats 0 = some inputs)
    (hfuel : C08PG.pgBuildBound inputs ≤ fuel) (hfT : C08PG.pgTreeBound inputs ≤ fuelT) :
    (∀ e, buildTL (fun cs => pgTree cs fuelT) pgReq fuel inputs evs = .error e →
      C08.IsGuard e ∨ e = .panic C08.acyclicTag) ∧
    ∀ A, buildTL (fun cs => pgTree cs fuelT) pgReq fuel inputs evs = .ok A →
      ∀ (h : PortGraph) (fuel' : Nat),
      (∀ tag, run pgDomain A h fuel' = .error (.panic tag) →
        tag = C08.failTag ∧ ¬ C08.EpsLe1 A) ∧
      (C08PG.pgRunBound A h ≤ fuel' → ∀ tag, run pgDomain A h fuel' ≠ .error (.fuel tag)) ∧
      (C08.EpsLe1 A → C08PG.pgRunBound A h ≤ fuel' →
        ∃ ms seen, run pgDomain A h fuel' = .ok (ms, seen)) :=
  ⟨(c08_pg_build_errors pats evs fuel fuelT inputs hsr hin hfuel hfT).1, fun A hb h fuel' => by
    obtain ⟨h1, _, h3⟩ := c08_pg_run_TL pats evs fuelT fuel inputs A hin (.inl hb) h fuel'
    exact ⟨h1, fun hf => (h3 hsr hf).1, fun heps hf => (h3 hsr hf).2 heps⟩⟩

/-- **C08 for single-root port-graph pattern lists, combined** (guarded disciplined build). -/
theorem c08_pg_total (pats : List (PortGraph × Nat)) (evs : List Ev) (fuel fuelT : Nat)
    (inputs : List (Nat × List PGCons × List PGKey))
    (hsr : ∀ p ∈ pats, ∀ cs, pgConstraints p.1 p.2 = some cs → pgSigMultiRoot cs = false)
    (hin : manyInputs (fun p : PortGraph × Nat => pgConstraints p.1 p.2)
      (fun _ => ([] : List PGKey)) true pats 0 = some inputs)
    (hfuel : C08PG.pgBuildBound inputs ≤ fuel) (hfT : C08PG.pgTreeBound inputs ≤ fuelT) :
    (∀ e, buildT (fun cs => pgTree cs fuelT) pgReq fuel inputs evs = .error e →
      C08.IsGuard e ∨ e = .panic C08.acyclicTag) ∧
    ∀ A, buildT (fun cs => pgTree cs fuelT) pgReq fuel inputs evs = .ok A →
      ∀ (h : PortGraph) (fuel' : Nat),
      (∀ tag, run pgDomain A h fuel' = .error (.panic tag) →
        tag = C08.failTag ∧ ¬ C08.EpsLe1 A) ∧
      (C08PG.pgRunBound A h ≤ fuel' → ∀ tag, run pgDomain A h fuel' ≠ .error (.fuel tag)) ∧
      (C08.EpsLe1 A → C08PG.pgRunBound A h ≤ fuel' →
        ∃ ms seen, run pgDomain A h fuel' = .ok (ms, seen)) :=
  ⟨(c08_pg_build_errors pats evs fuel fuelT inputs hsr hin hfuel hfT).2, fun A hb h fuel' => by
    obtain ⟨h1, _, h3⟩ := c08_pg_run_TL pats evs fuelT fuel inputs A hin (.inr hb) h fuel'
    exact ⟨h1, fun hf => (h3 hsr hf).1, fun heps hf => (h3 hsr hf).2 heps⟩⟩

/-! ## PART 4 — the baseline `SinglePatternMatcher` -/

/-- **C08, port graphs, baseline: never a panic.** For EVERY output of `constraint_vec` (single-
or multi-root), every host value and every fuel, `singleMatches` returns `.ok` or one of its two
fuel errors. Unreachable: `retain_keys` (association lists) and `predicate check`
(`tdom_pg_arity` + `tpg_check_total`). The `expect` of `find_root_candidates`, which is not in the
model's panic channel, is unreachable too: `c08_pg_single_no_hidden_panic`. -/
theorem c08_pg_single_no_panic (g : PortGraph) (root : Nat) (cs : List PGCons)
    (hcs : pgConstraints g root = some cs) (h : PortGraph) (fuel : Nat) :
    (∀ tag, singleMatches pgDomain cs h fuel ≠ .error (.panic tag)) ∧
    (∀ tag, singleMatches pgDomain cs h fuel ≠ .error (.guard tag)) ∧
    (∀ tag, singleMatches pgDomain cs h fuel = .error (.fuel tag) →
      tag = "get_all_bindings" ∨ tag = "all_missing_bindings") := by
  have ho := C08PG.pg_single_only cs (tdom_pg_arity g root cs hcs) h fuel
  refine ⟨fun tag ht => ?_, fun tag ht => ?_, fun tag ht => ?_⟩
  · rcases ho _ ht with h1 | h1 <;> cases h1
  · rcases ho _ ht with h1 | h1 <;> cases h1
  · rcases ho _ ht with h1 | h1 <;> cases h1
    · exact .inl rfl
    · exact .inr rfl

/-- The baseline has no hidden panic either (multi-root vectors included): every candidate binding
at every level of `get_all_bindings` (`singleLevels`, the level-by-level form of the FIFO loop:
`Proofs/BaselineDom.lean`) has bound path roots, `bind_all` keeps that, and on such bindings
`pgOptsP` is `some`. -/
theorem c08_pg_single_no_hidden_panic (cs : List PGCons) (h : PortGraph) (mbFuel : Nat) :
    (∀ m ∈ singleLevels pgDomain h mbFuel cs [pgDomain.map.empty], C08PG.PathRoots m) ∧
    (∀ m ks inc, C08PG.PathRoots m →
      ∀ m' ∈ bindAll assocMap pgOpts h m ks inc, C08PG.PathRoots m') ∧
    (∀ m, C08PG.PathRoots m → ∀ (g : PortGraph) (k : PGKey), (pgOptsP g k m).isSome = true) :=
  ⟨C08PG.singleLevels_pathRoots h mbFuel cs _ (fun m hm => by
      rw [List.mem_singleton.1 hm]; exact C08PG.pathRoots_nil),
    fun m ks inc hm => C08.bindAll_inv assocMap pgOpts h inc C08PG.PathRoots
      (fun _ _ _ _ hI hv hb => C08PG.pathRoots_bind hI hv hb) m hm ks,
    fun m hm g k => C08PG.pgOptsP_isSome g k hm⟩

/-- **C08, port graphs, baseline: termination** for every output of `constraint_vec` (multi-root
included): some fuel suffices, and then every larger one gives the same result. -/
theorem c08_pg_single_terminates (g : PortGraph) (root : Nat) (cs : List PGCons)
    (hcs : pgConstraints g root = some cs) (h : PortGraph) :
    ∃ fuel0 out, ∀ fuel, fuel0 ≤ fuel → singleMatches pgDomain cs h fuel = .ok out :=
  C08PG.pg_single_terminates cs (tdom_pg_arity g root cs hcs) h

/-- **C08, port graphs, baseline, single-root vectors: total with an explicit bound.** No panic
for any fuel; for `fuel ≥ cs.length · |live host nodes| + 4` the baseline returns (`c05_pg_total`
gives the value). -/
theorem c08_pg_single_total (g : PortGraph) (root : Nat) (cs : List PGCons)
    (hcs : pgConstraints g root = some cs) (hsr : pgSigMultiRoot cs = false) (h : PortGraph) :
    (∀ fuel tag, singleMatches pgDomain cs h fuel ≠ .error (.panic tag)) ∧
    ∀ fuel, cs.length * h.nodesIter.length + 4 ≤ fuel →
      ∃ out, singleMatches pgDomain cs h fuel = .ok out :=
  ⟨fun fuel => (c08_pg_single_no_panic g root cs hcs h fuel).1,
    fun fuel hf => ⟨_, c05_pg_total g root cs h fuel hcs hsr hf⟩⟩

/-! ## Non-vacuity -/

open PGEx

/-- The real build `exPG_built` of `Props/TRunPG.lean` (the edge pattern and the path pattern):
the hypotheses of the traversal theorems hold — the build succeeds, the patterns are single-root,
every state has at most one epsilon transition —, so its traversal of ANY host value is total above
the bound; on the path host the bound is `geom (3·3) 8`. -/
example : ∃ M, manyBuild (fun p : PortGraph × Nat => pgConstraints p.1 p.2)
      (fun _ => ([] : List PGKey)) (fun cs => pgTree cs 50) pgReq 50 true exPGPatterns exPGEvents =
        some (.ok M) ∧
    C08.EpsLe1 M.automaton ∧
    C08PG.pgRunBound M.automaton gPath = C08.geom 9 8 ∧
    (∀ h fuel' tag, run pgDomain M.automaton h fuel' ≠ .error (.panic tag)) ∧
    ∀ h fuel', C08PG.pgRunBound M.automaton h ≤ fuel' →
      ∃ ms seen, run pgDomain M.automaton h fuel' = .ok (ms, seen) := by
  obtain ⟨M, hb, _, hok, _⟩ := exPG_built
  have heps := c08_epsLe1_of_pgProgramOK M.automaton _ hok
  refine ⟨M, hb, heps, ?_, fun h fuel' => c08_pg_run_no_panic_partial _ _ _ _ M hb heps h fuel',
    fun h fuel' hf => ?_⟩
  · obtain ⟨M', hb', hl⟩ : ∃ M', manyBuild (fun p : PortGraph × Nat => pgConstraints p.1 p.2)
        (fun _ => ([] : List PGKey)) (fun cs => pgTree cs 50) pgReq 50 true exPGPatterns
          exPGEvents = some (.ok M') ∧
        C08PG.pgRunBound M'.automaton gPath = C08.geom 9 8 := ⟨_, rfl, by decide⟩
    rw [hb] at hb'
    cases hb'
    exact hl
  · obtain ⟨ms, seen, hr, _⟩ :=
      c08_pg_find_matches_total _ _ _ _ M exPG_patterns_ok.1 hb heps h fuel' hf
    exact ⟨ms, seen, hr⟩

/-- A complete DISCIPLINED log (c1T, c4T, c1C) for the same two patterns: the root (fused,
determinised), then the states 7, 3, 5, 6 in topological order. -/
def c08PGExEvents : List Ev :=
  [.topo 0, .group 0 [0, 2], .detAsk 0, .detYes 0, .iterEnd 0,
   .topo 7, .group 7 [0, 1], .detAsk 7, .iterEnd 7, .topo 3, .detAsk 3, .iterEnd 3,
   .topo 5, .detAsk 5, .iterEnd 5, .topo 6, .iterEnd 6]

/-- On it the disciplined guarded and lenient builds succeed (with the small fuels `50`), the
built automaton has at most one epsilon transition per state, and so — `c08_pg_run_TL` — its
traversal of ANY host value never panics and is total above the explicit bound. -/
example : ∃ inputs A,
    manyInputs (fun p : PortGraph × Nat => pgConstraints p.1 p.2) (fun _ => ([] : List PGKey)) true
      exPGPatterns 0 = some inputs ∧
    buildT (fun cs => pgTree cs 50) pgReq 50 inputs c08PGExEvents = .ok A ∧
    buildTL (fun cs => pgTree cs 50) pgReq 50 inputs c08PGExEvents = .ok A ∧
    A.liveStates = [0, 3, 5, 6, 7] ∧ C08.EpsLe1 A ∧
    (∀ h fuel' tag, run pgDomain A h fuel' ≠ .error (.panic tag)) ∧
    ∀ h fuel', C08PG.pgRunBound A h ≤ fuel' →
      ∃ ms seen, run pgDomain A h fuel' = .ok (ms, seen) := by
  refine ⟨_, _, rfl, rfl, rfl, by decide, (c08_epsLe1_iff _).1 (by decide), ?_, ?_⟩
  · intro h fuel' tag ht
    exact ((c08_pg_run_TL exPGPatterns c08PGExEvents 50 50 _ _ rfl (.inl rfl) h fuel').1 tag ht).2
      ((c08_epsLe1_iff _).1 (by decide))
  · intro h fuel' hf
    exact ((c08_pg_run_TL exPGPatterns c08PGExEvents 50 50 _ _ rfl (.inl rfl) h fuel').2.2
      exPG_patterns_ok.1 hf).2 ((c08_epsLe1_iff _).1 (by decide))

/-- The universe of these inputs has 17 constraints: the bounds of `c08_pg_build_errors` are
`fuelT ≥ 2¹⁸` and `fuel ≥ 2¹⁸`; above them EVERY log gives `.ok`, a guard error or the acyclicity
panic — and so does every log with ANY fuels as far as panics are concerned, up to the tag
"to_constraints_tree" (`c08_pg_buildT_panic_tags`). -/
example : ∃ inputs,
    manyInputs (fun p : PortGraph × Nat => pgConstraints p.1 p.2) (fun _ => ([] : List PGKey)) true
      exPGPatterns 0 = some inputs ∧
    (C08PG.pgUniverse inputs).length = 17 ∧ C08PG.pgTreeBound inputs = 2 ^ 18 ∧
    C08PG.pgBuildBound inputs = 2 ^ 18 ∧
    ∀ evs fuel fuelT, 2 ^ 18 ≤ fuel → 2 ^ 18 ≤ fuelT →
      ∀ e, buildTL (fun cs => pgTree cs fuelT) pgReq fuel inputs evs = .error e →
        C08.IsGuard e ∨ e = .panic C08.acyclicTag := by
  refine ⟨_, rfl, by decide, by decide, by decide, fun evs fuel fuelT hf hfT => ?_⟩
  exact (c08_pg_build_errors exPGPatterns evs fuel fuelT _ exPG_patterns_ok.1 rfl
    (by rw [show C08PG.pgBuildBound _ = 2 ^ 18 by decide]; exact hf)
    (by rw [show C08PG.pgTreeBound _ = 2 ^ 18 by decide]; exact hfT)).1

/-- The log of `Props/TRunPG.lean` itself is truncated (it stops after the root): the disciplined
replay rejects it with the guard error c1C — one of the outcomes `c08_pg_build_errors` allows. -/
example : buildTL (fun cs => pgTree cs 50) pgReq 50
    ((manyInputs (fun p : PortGraph × Nat => pgConstraints p.1 p.2) (fun _ => ([] : List PGKey))
      true exPGPatterns 0).getD []) exPGEvents =
    .error (.guard "c1C: the log ends although a live state was never emitted") := by rfl

/-- With too little fuel for `with_powerset` the model reports "to_constraints_tree" — the one
extra panic tag of `c08_pg_buildT_panic_tags` (a model artefact: the Rust loop has no fuel). -/
example : buildTL (fun cs => pgTree cs 1) pgReq 50
    ((manyInputs (fun p : PortGraph × Nat => pgConstraints p.1 p.2) (fun _ => ([] : List PGKey))
      true exPGPatterns 0).getD []) c08PGExEvents = .error (.panic C08PG.treeTag) := by rfl

/-- The isolated-root vector is NOT excluded from the traversal theorems (unlike in
`pgProg_built_many`): they apply to `exIso_built`, whose root has the empty scope and a fallback
transition. -/
example : (∀ h fuel' tag, run pgDomain exIsoAutomaton h fuel' ≠ .error (.panic tag)) ∧
    ∀ h fuel', C08PG.pgRunBound exIsoAutomaton h ≤ fuel' →
      ∃ ms seen, run pgDomain exIsoAutomaton h fuel' = .ok (ms, seen) := by
  have heps : C08.EpsLe1 exIsoAutomaton := (c08_epsLe1_iff _).1 (by decide)
  have hsr : ∀ p ∈ [(exIsoGraph, 0)], ∀ cs, pgConstraints p.1 p.2 = some cs →
      pgSigMultiRoot cs = false := by
    intro p hp cs hcs
    rw [List.mem_singleton.1 hp, exIso_constraints] at hcs
    cases hcs
    decide
  refine ⟨fun h fuel' => c08_pg_run_no_panic_partial _ _ _ _ _ exIso_built heps h fuel',
    fun h fuel' hf => ?_⟩
  obtain ⟨ms, seen, hr, _⟩ := c08_pg_find_matches_total _ _ _ _ _ hsr exIso_built heps h fuel' hf
  exact ⟨ms, seen, hr⟩

/-- The baseline on a MULTI-ROOT vector (the witness of known finding F3b): never a panic, on any
host, with any fuel; and it terminates. -/
example : ∃ cs, pgConstraints f3bG 3 = some cs ∧ pgSigMultiRoot cs = true ∧
    (∀ h fuel tag, singleMatches pgDomain cs h fuel ≠ .error (.panic tag)) ∧
    ∀ h, ∃ fuel0 out, ∀ fuel, fuel0 ≤ fuel → singleMatches pgDomain cs h fuel = .ok out := by
  obtain ⟨cs, hcs⟩ := tdom_pg_total f3bG 3
  have hsig := f3b_witness_signature
  rw [hcs] at hsig
  exact ⟨cs, hcs, Option.some.inj hsig,
    fun h fuel => (c08_pg_single_no_panic f3bG 3 cs hcs h fuel).1,
    fun h => c08_pg_single_terminates f3bG 3 cs hcs h⟩

/-- The baseline on the path pattern: total on every host from fuel `4 · |live host nodes| + 4`. -/
example : ∀ (h : PortGraph) (fuel : Nat), 4 * h.nodesIter.length + 4 ≤ fuel →
    ∃ out, singleMatches pgDomain csPath h fuel = .ok out := by
  have hcs : pgConstraints gPath 0 = some csPath := by decide
  intro h fuel hf
  exact (c08_pg_single_total gPath 0 csPath hcs (by decide) h).2 fuel hf

end Pm
