/-
Props/C09Reach.lean — property C09 for EVERY built automaton, continued: clauses (b), (f), (g),
and the removal of every hypothesis on the tree decomposition.

Props/C09Built.lean proves clauses (a), (d), (e), (f), (h) of `Automaton.WF` for every automaton a
successful guarded `build` returns, assuming the tree decomposition is faithful (`TreeOK`), and
leaves (b), (c), (g, first half) to the per-automaton checker. Here, for every decomposition
`toTree` (NO `TreeOK` hypothesis: the arguments are purely structural), every pattern list, every
event log (every hash-iteration order and heuristic answer) and every domain:

* `c09_built_structure`    the graph is structurally well-formed and (a), (d), (e) hold;
* `c09_built_hasIn`        every live state other than the root has an incoming live transition:
                            the LOCAL invariant carried through every builder step (`add_pattern`,
                            `make_constraints_unique`, `insert_constraint_tree`, `make_det`,
                            `try_merge_new_nodes`, `populate_scopes`; Proofs/C09Reach*.lean);
* `c09_built_reachable`    clause (b): every live state is reachable from the root (`Path`, the
                            relation `WF` uses; `c09_built_reachable'` for the edge-level closure
                            `Reachable`); it follows from the local invariant and acyclicity;
* `c09_built_wfReachable`  hence the Boolean clause `wfReachable` of `wfCheck` is `true`;
* `c09_built_accepted_any` clause (f) without `TreeOK`: a state is only removed after its recorded
                            ids were copied onto a surviving state;
* `c09_built_scopes_ordered` clause (g), first half, for EVERY rank-acyclic scheme: the scopes
                            computed by `populate_scopes` are prerequisite-ordered (the `filter` by
                            the backward scope cannot drop a prerequisite of a key it keeps: backward
                            scopes are unions of recorded key lists, which are prerequisite-closed);
* `c09_built_keyOrder`, `c09_built_wfKeyOrder` clause (g) in full, Prop and Boolean
                            (`_star`, `_str`, `_mat` instances);
* `c09_built_butC`         all clauses of `WF` except (c), packaged as `Automaton.WFButC`, for every
                            build on a rank-acyclic scheme;
* `c09_built_wf_iff_oneEpsilon`, `c09_built_checked_c_only` the per-automaton checked part shrinks
                            to clause (c) "at most one fallback transition" alone;
* instances: strings (`c09_built_str`: `charTree natLt`, `strReq`), matrices (`c09_built_mat`:
  `charTree mkeyLt`, `matReq`), tables (`c09_built_table`), port graphs (`c09_built_pg`), and the
  `ManyMatcher` forms `c09_many_butC`, `c09_many_str`, `c09_many_mat`.

No discipline on the log (`buildT`) is needed: the statements are about `build` and all logs.
Clause (c) is NOT covered here. Only final theorems and examples; proofs in `Proofs/C09Reach*`.
-/
import PmVerif.Proofs.C09ReachScopes
import PmVerif.Proofs.C09ReachIds
import PmVerif.Props.C09Built
namespace Pm
open Automaton
variable {K P : Type}

/-! ### the reachability relation over live transitions -/

namespace Automaton

/-- Reflexive-transitive closure of "there is a live transition `t : m → d`". -/
inductive Reachable (a : Automaton K P) : Nat → Nat → Prop where
  | refl (s : Nat) : Reachable a s s
  | step {s m d t : Nat} {e : GEdge (Option (Constraint K P))} :
      Reachable a s m → a.g.edge? t = some e → e.src = m → e.dst = d → Reachable a s d

/-- On a structurally well-formed graph `Reachable` (live edges) and `Path` (out-adjacency, the
relation used by `WF` and by the checker's DFS) coincide. -/
theorem reachable_iff_path {a : Automaton K P} (hg : a.g.WF) {s d : Nat} :
    Reachable a s d ↔ Path a s d := by
  constructor
  · intro h
    induction h with
    | refl => exact Path.refl _
    | step _ he hs hd ih => exact Path.step ih ((c09b_mem_outEdges hg).2 ⟨_, he, hs, hd⟩)
  · intro h
    induction h with
    | refl => exact Reachable.refl _
    | step _ ht ih =>
      obtain ⟨e, he, hs, hd⟩ := (c09b_mem_outEdges hg).1 ht
      exact Reachable.step ih he hs hd

/-- All clauses of `WF` except (c) "at most one fallback transition per state". -/
structure WFButC (req : K → List K) (a : Automaton K P) (ids : List Nat) : Prop where
  /-- (a) -/
  acyclic : ∃ rank : Nat → Nat, ∀ t e, a.g.edge? t = some e → rank e.src < rank e.dst
  /-- (b) -/
  reachable : ∀ s, a.g.containsNode s = true → Path a a.root s
  /-- (d) -/
  noSelfLoop : ∀ s, a.g.containsNode s = true → ∀ t d, (t, d) ∈ a.g.outEdges s → d ≠ s
  /-- (e) -/
  orders : ∀ s w, a.g.weight? s = some w →
    w.corder.Nodup ∧ w.eorder.Nodup ∧
    (∀ t, t ∈ w.corder ↔
      ∃ d e c, (t, d) ∈ a.g.outEdges s ∧ a.g.edge? t = some e ∧ e.w = some c) ∧
    (∀ t, t ∈ w.eorder ↔ ∃ d e, (t, d) ∈ a.g.outEdges s ∧ a.g.edge? t = some e ∧ e.w = none)
  /-- (f) -/
  accepted : ∀ pid ∈ ids, ∃ s w keys, a.g.weight? s = some w ∧ (pid, keys) ∈ w.matches_
  /-- (g) -/
  keyOrder : ∀ s w, a.g.weight? s = some w →
    PrereqOrdered req w.scope ∧ ∀ m ∈ w.matches_, PrereqOrdered req m.2
  /-- (h) -/
  scopeCovers : ∀ s w, a.g.weight? s = some w → ∀ t ∈ w.corder,
    ∀ e c, a.g.edge? t = some e → e.w = some c → ∀ k ∈ c.args, k ∈ w.scope

theorem WFButC.wf {req : K → List K} {a : Automaton K P} {ids : List Nat} (h : a.WFButC req ids)
    (hc : ∀ s w, a.g.weight? s = some w → w.eorder.length ≤ 1) : a.WF req ids :=
  ⟨h.acyclic, h.reachable, hc, h.noSelfLoop, h.orders, h.accepted, h.keyOrder, h.scopeCovers⟩

theorem WF.butC {req : K → List K} {a : Automaton K P} {ids : List Nat} (h : a.WF req ids) :
    a.WFButC req ids :=
  ⟨h.acyclic, h.reachable, h.noSelfLoop, h.orders, h.accepted, h.keyOrder, h.scopeCovers⟩

end Automaton

variable [DecidableEq K] [DecidableEq P]

/-! ### the structural clauses, without any hypothesis -/

/-- The graph of every built automaton is structurally well-formed (the hypothesis `hg` of
`c09_wfCheck_sound`), and clauses (a), (d), (e) hold — for every decomposition `toTree`, every
scheme, every pattern list and every event log. (`c09_built_partial` assumes `TreeOK`.) -/
theorem c09_built_structure
    (toTree : List (Constraint K P) → Option (CTree (Constraint K P))) (req : K → List K)
    (fuel : Nat) (patterns : List (Nat × List (Constraint K P) × List K)) (evs : List Ev)
    (A : Automaton K P) (h : Automaton.build toTree req fuel patterns evs = .ok A) :
    A.g.WF ∧
    (∃ rank : Nat → Nat, ∀ t e, A.g.edge? t = some e → rank e.src < rank e.dst) ∧
    (∀ s, A.g.containsNode s = true → ∀ t d, (t, d) ∈ A.g.outEdges s → d ≠ s) ∧
    (∀ s w, A.g.weight? s = some w →
      w.corder.Nodup ∧ w.eorder.Nodup ∧
      (∀ t, t ∈ w.corder ↔
        ∃ d e c, (t, d) ∈ A.g.outEdges s ∧ A.g.edge? t = some e ∧ e.w = some c) ∧
      (∀ t, t ∈ w.eorder ↔
        ∃ d e, (t, d) ∈ A.g.outEdges s ∧ A.g.edge? t = some e ∧ e.w = none)) := by
  obtain ⟨inv, _, hr⟩ := C09R.build_inv_hasIn h
  exact ⟨inv.wf, hr, c09b_noSelfLoop_of_inv inv, c09b_orders_of_inv inv⟩

/-! ### clause (b) -/

/-- **The local invariant.** Every live state of a built automaton other than the root is the
target of a live transition — for every decomposition, pattern list and event log. -/
theorem c09_built_hasIn
    (toTree : List (Constraint K P) → Option (CTree (Constraint K P))) (req : K → List K)
    (fuel : Nat) (patterns : List (Nat × List (Constraint K P) × List K)) (evs : List Ev)
    (A : Automaton K P) (h : Automaton.build toTree req fuel patterns evs = .ok A) :
    ∀ s, A.g.containsNode s = true → s ≠ A.root → ∃ t e, A.g.edge? t = some e ∧ e.dst = s :=
  (C09R.build_inv_hasIn h).2.1

/-- **Clause (b)**: every live state of a built automaton is reachable from the root — for every
decomposition `toTree` (no `TreeOK` hypothesis), every scheme, every pattern list, every event
log, every domain. -/
theorem c09_built_reachable
    (toTree : List (Constraint K P) → Option (CTree (Constraint K P))) (req : K → List K)
    (fuel : Nat) (patterns : List (Nat × List (Constraint K P) × List K)) (evs : List Ev)
    (A : Automaton K P) (h : Automaton.build toTree req fuel patterns evs = .ok A) :
    ∀ s, A.g.containsNode s = true → Path A A.root s :=
  C09R.build_reachable h

/-- Clause (b) over live edges. -/
theorem c09_built_reachable'
    (toTree : List (Constraint K P) → Option (CTree (Constraint K P))) (req : K → List K)
    (fuel : Nat) (patterns : List (Nat × List (Constraint K P) × List K)) (evs : List Ev)
    (A : Automaton K P) (h : Automaton.build toTree req fuel patterns evs = .ok A) :
    ∀ s, A.g.containsNode s = true → Reachable A A.root s := fun s hs =>
  (reachable_iff_path (C09R.build_inv_hasIn h).1.wf).2
    (c09_built_reachable toTree req fuel patterns evs A h s hs)

/-- The Boolean clause (b) of `wfCheck` holds of every built automaton (the DFS fuel bound is
sufficient on a structurally well-formed graph, `c09_reachable_complete`). -/
theorem c09_built_wfReachable
    (toTree : List (Constraint K P) → Option (CTree (Constraint K P))) (req : K → List K)
    (fuel : Nat) (patterns : List (Nat × List (Constraint K P) × List K)) (evs : List Ev)
    (A : Automaton K P) (h : Automaton.build toTree req fuel patterns evs = .ok A) :
    A.wfReachable = true :=
  c09_reachable_complete A (C09R.build_inv_hasIn h).1.wf
    (c09_built_reachable toTree req fuel patterns evs A h)

/-! ### clause (f), without `TreeOK` -/

/-- **Clause (f)** for every decomposition: every compiled pattern id is recorded at some live
state (a state is only removed after its recorded ids were copied onto a surviving state). -/
theorem c09_built_accepted_any
    (toTree : List (Constraint K P) → Option (CTree (Constraint K P))) (req : K → List K)
    (fuel : Nat) (patterns : List (Nat × List (Constraint K P) × List K)) (evs : List Ev)
    (A : Automaton K P) (h : Automaton.build toTree req fuel patterns evs = .ok A) :
    ∀ pid ∈ patterns.map (·.1), ∃ s w keys, A.g.weight? s = some w ∧ (pid, keys) ∈ w.matches_ :=
  C09R.build_accepted h

/-! ### clause (g) -/

/-- **Clause (g), first half, every rank-acyclic scheme**: every scope of a built automaton is
prerequisite-ordered. -/
theorem c09_built_scopes_ordered
    (toTree : List (Constraint K P) → Option (CTree (Constraint K P))) (req : K → List K)
    (hacy : RankAcyclic req)
    (fuel : Nat) (patterns : List (Nat × List (Constraint K P) × List K)) (evs : List Ev)
    (A : Automaton K P) (h : Automaton.build toTree req fuel patterns evs = .ok A) :
    ∀ s w, A.g.weight? s = some w → PrereqOrdered req w.scope :=
  C09R.build_scopes_po hacy h

omit [DecidableEq P] in
/-- The step behind it: `populate_scopes` computes prerequisite-ordered scopes on ANY automaton
whose recorded key lists are prerequisite-ordered. -/
theorem c09_populateScopes_scopes_ordered {req : K → List K} (hacy : RankAcyclic req)
    {fuel : Nat} {a A : Automaton K P} (h : Automaton.populateScopes req fuel a = .ok A)
    (hk : ∀ s w, a.g.weight? s = some w → ∀ m ∈ w.matches_, PrereqOrdered req m.2) :
    ∀ s w, A.g.weight? s = some w → PrereqOrdered req w.scope :=
  C09R.populateScopes_po hacy h hk

/-- **Clause (g)** in full. -/
theorem c09_built_keyOrder
    (toTree : List (Constraint K P) → Option (CTree (Constraint K P))) (req : K → List K)
    (hacy : RankAcyclic req)
    (fuel : Nat) (patterns : List (Nat × List (Constraint K P) × List K)) (evs : List Ev)
    (A : Automaton K P) (h : Automaton.build toTree req fuel patterns evs = .ok A) :
    ∀ s w, A.g.weight? s = some w →
      PrereqOrdered req w.scope ∧ ∀ m ∈ w.matches_, PrereqOrdered req m.2 := fun s w hw =>
  ⟨C09R.build_scopes_po hacy h s w hw,
    c09b_mfrom_build (S := fun m => PrereqOrdered req m.2) hacy h
      (fun _ _ keys hk => (c09_prereqOrdered_iff req keys).1 hk) s w hw⟩

/-- The Boolean clause (g) of `wfCheck` holds of every automaton built on a rank-acyclic scheme. -/
theorem c09_built_wfKeyOrder
    (toTree : List (Constraint K P) → Option (CTree (Constraint K P))) (req : K → List K)
    (hacy : RankAcyclic req)
    (fuel : Nat) (patterns : List (Nat × List (Constraint K P) × List K)) (evs : List Ev)
    (A : Automaton K P) (h : Automaton.build toTree req fuel patterns evs = .ok A) :
    A.wfKeyOrder req = true :=
  c09_keyOrder_complete req A (c09_built_keyOrder toTree req hacy fuel patterns evs A h)

/-- Star schemes (every key other than the centre requires exactly the centre), any domain. -/
theorem c09_built_wfKeyOrder_star (s0 : K)
    (toTree : List (Constraint K P) → Option (CTree (Constraint K P)))
    (fuel : Nat) (patterns : List (Nat × List (Constraint K P) × List K)) (evs : List Ev)
    (A : Automaton K P)
    (h : Automaton.build toTree (Baseline.starReq s0) fuel patterns evs = .ok A) :
    A.wfKeyOrder (Baseline.starReq s0) = true :=
  c09_built_wfKeyOrder toTree _ (MatProg.starReq_acyclic s0) fuel patterns evs A h

/-- String builds: `wfKeyOrder strReq A = true`. -/
theorem c09_built_wfKeyOrder_str
    (toTree : List StrCons → Option (CTree StrCons))
    (fuel : Nat) (patterns : List (Nat × List StrCons × List Nat)) (evs : List Ev)
    (A : Automaton Nat CharPred)
    (h : Automaton.build toTree strReq fuel patterns evs = .ok A) :
    A.wfKeyOrder strReq = true :=
  c09_built_wfKeyOrder toTree strReq StrProg.strReq_acyclic fuel patterns evs A h

/-- Matrix builds: `wfKeyOrder matReq A = true`. -/
theorem c09_built_wfKeyOrder_mat
    (toTree : List (Constraint MKey CharPred) → Option (CTree (Constraint MKey CharPred)))
    (fuel : Nat) (patterns : List (Nat × List (Constraint MKey CharPred) × List MKey))
    (evs : List Ev) (A : Automaton MKey CharPred)
    (h : Automaton.build toTree matReq fuel patterns evs = .ok A) :
    A.wfKeyOrder matReq = true :=
  c09_built_wfKeyOrder toTree matReq MatProg.matReq_acyclic fuel patterns evs A h

/-! ### assembling: everything but clause (c) -/

/-- **Every clause of `WF` except (c)** holds of every automaton built on a rank-acyclic scheme:
any decomposition `toTree` (no `TreeOK` hypothesis), any pattern list, any event log. -/
theorem c09_built_butC
    (toTree : List (Constraint K P) → Option (CTree (Constraint K P))) (req : K → List K)
    (hacy : RankAcyclic req)
    (fuel : Nat) (patterns : List (Nat × List (Constraint K P) × List K)) (evs : List Ev)
    (A : Automaton K P) (h : Automaton.build toTree req fuel patterns evs = .ok A) :
    A.WFButC req (patterns.map (·.1)) := by
  obtain ⟨_, ha, hd, he⟩ := c09_built_structure toTree req fuel patterns evs A h
  refine ⟨ha, c09_built_reachable toTree req fuel patterns evs A h, hd, he,
    c09_built_accepted_any toTree req fuel patterns evs A h,
    c09_built_keyOrder toTree req hacy fuel patterns evs A h, ?_⟩
  unfold Automaton.build at h
  split at h
  · cases h
  · unfold Automaton.finish at h
    split at h
    · cases h
    · exact c09_populateScopes_scopeCovers hacy h

/-- What is left per automaton is clause (c) alone ... -/
theorem c09_built_wf_of_oneEpsilon
    (toTree : List (Constraint K P) → Option (CTree (Constraint K P))) (req : K → List K)
    (hacy : RankAcyclic req)
    (fuel : Nat) (patterns : List (Nat × List (Constraint K P) × List K)) (evs : List Ev)
    (A : Automaton K P) (h : Automaton.build toTree req fuel patterns evs = .ok A)
    (hc : ∀ s w, A.g.weight? s = some w → w.eorder.length ≤ 1) :
    A.WF req (patterns.map (·.1)) :=
  (c09_built_butC toTree req hacy fuel patterns evs A h).wf hc

/-- ... on built automata `WF` is equivalent to the Boolean clause (c) ... -/
theorem c09_built_wf_iff_oneEpsilon
    (toTree : List (Constraint K P) → Option (CTree (Constraint K P))) (req : K → List K)
    (hacy : RankAcyclic req)
    (fuel : Nat) (patterns : List (Nat × List (Constraint K P) × List K)) (evs : List Ev)
    (A : Automaton K P) (h : Automaton.build toTree req fuel patterns evs = .ok A) :
    A.WF req (patterns.map (·.1)) ↔ A.wfOneEpsilon = true :=
  ⟨fun hw => c09_oneEpsilon_complete A hw.oneEpsilon,
    fun hc => c09_built_wf_of_oneEpsilon toTree req hacy fuel patterns evs A h
      (c09_oneEpsilon_sound A hc)⟩

/-- ... and so is the whole checker: **the per-build checked part is clause (c) alone.** -/
theorem c09_built_checked_c_only
    (toTree : List (Constraint K P) → Option (CTree (Constraint K P))) (req : K → List K)
    (hacy : RankAcyclic req)
    (fuel : Nat) (patterns : List (Nat × List (Constraint K P) × List K)) (evs : List Ev)
    (A : Automaton K P) (h : Automaton.build toTree req fuel patterns evs = .ok A) :
    A.wfCheck req (patterns.map (·.1)) = true ↔ A.wfOneEpsilon = true := by
  rw [c09_wfCheck_iff req A _ (c09_built_structure toTree req fuel patterns evs A h).1]
  exact c09_built_wf_iff_oneEpsilon toTree req hacy fuel patterns evs A h

/-! ### instances: strings, matrices, tables -/

/-- **Strings**: every clause of `WF` but (c), for every build. -/
theorem c09_built_str (fuel : Nat) (patterns : List (Nat × List StrCons × List Nat))
    (evs : List Ev) (A : Automaton Nat CharPred)
    (h : Automaton.build (charTree natLt) strReq fuel patterns evs = .ok A) :
    A.WFButC strReq (patterns.map (·.1)) :=
  c09_built_butC (charTree natLt) strReq StrProg.strReq_acyclic fuel patterns evs A h

/-- **Matrices**: every clause of `WF` but (c), for every build. -/
theorem c09_built_mat (fuel : Nat)
    (patterns : List (Nat × List (Constraint MKey CharPred) × List MKey)) (evs : List Ev)
    (A : Automaton MKey CharPred)
    (h : Automaton.build (charTree mkeyLt) matReq fuel patterns evs = .ok A) :
    A.WFButC matReq (patterns.map (·.1)) :=
  c09_built_butC (charTree mkeyLt) matReq MatProg.matReq_acyclic fuel patterns evs A h

/-- The table domain, any strategy, any rank-acyclic scheme. -/
theorem c09_built_table (s : Nat) (tfuel : Nat)
    (req : Nat → List Nat) (hacy : RankAcyclic req) (fuel : Nat)
    (patterns : List (Nat × List TCons × List Nat)) (evs : List Ev) (A : Automaton Nat TPred)
    (h : Automaton.build (fun cs => tTree s cs tfuel) req fuel patterns evs = .ok A) :
    A.WFButC req (patterns.map (·.1)) :=
  c09_built_butC (fun cs => tTree s cs tfuel) req hacy fuel patterns evs A h

/-- The port-graph indexing scheme is rank-acyclic (`root i` needs `root (i-1)`, `along r _ _`
needs `root r`). -/
theorem c09_pgReq_acyclic : RankAcyclic pgReq :=
  ⟨fun k => match k with | .root i => i | .along r _ _ => r + 1, fun k p hp => by
    cases k with
    | root i =>
      cases i with
      | zero => simp [pgReq] at hp
      | succ i =>
        simp only [pgReq, List.mem_singleton] at hp
        subst hp
        exact Nat.lt_succ_self i
    | along r o l =>
      simp only [pgReq, List.mem_singleton] at hp
      subst hp
      exact Nat.lt_succ_self r⟩

/-- **Port graphs**: every clause of `WF` but (c), for every build (no hypothesis on `pgTree`). -/
theorem c09_built_pg (fuelT fuel : Nat) (patterns : List (Nat × List PGCons × List PGKey))
    (evs : List Ev) (A : Automaton PGKey PGPred)
    (h : Automaton.build (fun cs => pgTree cs fuelT) pgReq fuel patterns evs = .ok A) :
    A.WFButC pgReq (patterns.map (·.1)) ∧
      (A.wfCheck pgReq (patterns.map (·.1)) = true ↔ A.wfOneEpsilon = true) :=
  ⟨c09_built_butC _ pgReq c09_pgReq_acyclic fuel patterns evs A h,
    c09_built_checked_c_only _ pgReq c09_pgReq_acyclic fuel patterns evs A h⟩

/-- Strings: the checker reduces to clause (c). -/
theorem c09_built_checked_c_only_str (fuel : Nat)
    (patterns : List (Nat × List StrCons × List Nat)) (evs : List Ev) (A : Automaton Nat CharPred)
    (h : Automaton.build (charTree natLt) strReq fuel patterns evs = .ok A) :
    A.wfCheck strReq (patterns.map (·.1)) = true ↔ A.wfOneEpsilon = true :=
  c09_built_checked_c_only (charTree natLt) strReq StrProg.strReq_acyclic fuel patterns evs A h

/-- Matrices: the checker reduces to clause (c). -/
theorem c09_built_checked_c_only_mat (fuel : Nat)
    (patterns : List (Nat × List (Constraint MKey CharPred) × List MKey)) (evs : List Ev)
    (A : Automaton MKey CharPred)
    (h : Automaton.build (charTree mkeyLt) matReq fuel patterns evs = .ok A) :
    A.wfCheck matReq (patterns.map (·.1)) = true ↔ A.wfOneEpsilon = true :=
  c09_built_checked_c_only (charTree mkeyLt) matReq MatProg.matReq_acyclic fuel patterns evs A h

/-- Strings: `WF` from clause (c). -/
theorem c09_built_str_wf (fuel : Nat) (patterns : List (Nat × List StrCons × List Nat))
    (evs : List Ev) (A : Automaton Nat CharPred)
    (h : Automaton.build (charTree natLt) strReq fuel patterns evs = .ok A)
    (hc : A.wfOneEpsilon = true) : A.WF strReq (patterns.map (·.1)) :=
  (c09_built_str fuel patterns evs A h).wf (c09_oneEpsilon_sound A hc)

/-- Matrices: `WF` from clause (c). -/
theorem c09_built_mat_wf (fuel : Nat)
    (patterns : List (Nat × List (Constraint MKey CharPred) × List MKey)) (evs : List Ev)
    (A : Automaton MKey CharPred)
    (h : Automaton.build (charTree mkeyLt) matReq fuel patterns evs = .ok A)
    (hc : A.wfOneEpsilon = true) : A.WF matReq (patterns.map (·.1)) :=
  (c09_built_mat fuel patterns evs A h).wf (c09_oneEpsilon_sound A hc)

/-! ### the `ManyMatcher` form -/

/-- A successful `manyBuild` is a successful `build` of its inputs, whose ids are `M.ids`. -/
theorem c09_manyBuild_inv {Pat : Type} {convert : Pat → Option (List (Constraint K P))}
    {extra : Pat → List K} {toTree : List (Constraint K P) → Option (CTree (Constraint K P))}
    {req : K → List K} {fuel : Nat} {ff : Bool} {pats : List Pat} {evs : List Ev} {M : Many K P}
    (hb : manyBuild convert extra toTree req fuel ff pats evs = some (.ok M)) :
    ∃ inputs, Automaton.build toTree req fuel inputs evs = .ok M.automaton ∧
      M.ids = inputs.map (·.1) := by
  unfold manyBuild at hb
  split at hb
  · cases hb
  · rename_i inputs _
    cases hbuild : Automaton.build toTree req fuel inputs evs with
    | error e => rw [hbuild] at hb; cases hb
    | ok a =>
      rw [hbuild] at hb
      cases hb
      exact ⟨inputs, hbuild, rfl⟩

/-- Every clause of `WF` but (c) for every automaton `manyBuild` returns, and its checker
reduces to clause (c). -/
theorem c09_many_butC {Pat : Type} (convert : Pat → Option (List (Constraint K P)))
    (extra : Pat → List K) (toTree : List (Constraint K P) → Option (CTree (Constraint K P)))
    (req : K → List K) (hacy : RankAcyclic req) (fuel : Nat) (ff : Bool) (pats : List Pat)
    (evs : List Ev) (M : Many K P)
    (hb : manyBuild convert extra toTree req fuel ff pats evs = some (.ok M)) :
    M.automaton.WFButC req M.ids ∧
      (M.automaton.wfCheck req M.ids = true ↔ M.automaton.wfOneEpsilon = true) := by
  obtain ⟨inputs, h, hids⟩ := c09_manyBuild_inv hb
  rw [hids]
  exact ⟨c09_built_butC toTree req hacy fuel inputs evs M.automaton h,
    c09_built_checked_c_only toTree req hacy fuel inputs evs M.automaton h⟩

/-- String pattern sets as `ManyMatcher` compiles them (the form of `strProg_built`). -/
theorem c09_many_str (ps : List (List CharVar)) (evs : List Ev) (fuel : Nat)
    (M : Many Nat CharPred)
    (hb : manyBuild (fun p => some (strConstraints p)) (fun _ => ([] : List Nat))
      (charTree natLt) strReq fuel true ps evs = some (.ok M)) :
    M.automaton.WFButC strReq M.ids ∧
      (M.automaton.wfCheck strReq M.ids = true ↔ M.automaton.wfOneEpsilon = true) :=
  c09_many_butC _ _ _ strReq StrProg.strReq_acyclic fuel true ps evs M hb

/-- Matrix pattern sets as `ManyMatcher` compiles them (the form of `matProg_built`). -/
theorem c09_many_mat (ps : List MatPattern) (evs : List Ev) (fuel : Nat)
    (M : Many MKey CharPred)
    (hb : manyBuild (fun p => some (matConstraints p)) (fun _ => ([] : List MKey))
      (charTree mkeyLt) matReq fuel true ps evs = some (.ok M)) :
    M.automaton.WFButC matReq M.ids ∧
      (M.automaton.wfCheck matReq M.ids = true ↔ M.automaton.wfOneEpsilon = true) :=
  c09_many_butC _ _ _ matReq MatProg.matReq_acyclic fuel true ps evs M hb

/-! ### Non-vacuity -/

namespace C09ReachEx

/-- Two string patterns `"ab"`, `"cb"` compiled under the SAME id `0`, so that their accepting
states (2 and 4) and then their middle states (1 and 3) have equal state tuples. -/
def pats : List (Nat × List StrCons × List Nat) :=
  [(0, [⟨.constVal 97, [0]⟩, ⟨.constVal 98, [1]⟩], []),
   (0, [⟨.constVal 99, [0]⟩, ⟨.constVal 98, [1]⟩], [])]

/-- A log with two merges: state 4 is folded into 2 (`move_incoming` + `remove_state`), then
state 3 into 1 — its child 2 stays reachable through the twin 1. -/
def evs : List Ev := [.topo 0, .detAsk 0, .merge 2 [2, 4], .merge 1 [1, 3], .iterEnd 0]

/-- The result: `0 —'a'@0→ 1`, `0 —'c'@0→ 1`, `1 —'b'@1→ 2`; states 3, 4 are gone. -/
def A : Automaton Nat CharPred :=
  C09Ex.okOr new (Automaton.build (charTree natLt) strReq 16 pats evs)

theorem built : Automaton.build (charTree natLt) strReq 16 pats evs = .ok A := by rfl

/-- Two live states, no transition, root 0: state 1 is unreachable. -/
def bad : Automaton Nat CharPred := ⟨⟨[some ⟨{}, [], []⟩, some ⟨{}, [], []⟩], [], [], []⟩, 0⟩

end C09ReachEx

/-- The merges really happened: three live states are left, the root has two transitions into
state 1. -/
example : C09ReachEx.A.g.nodeIndices = [0, 1, 2] ∧
    C09ReachEx.A.g.outEdges 0 = [(0, 1), (2, 1)] ∧ C09ReachEx.A.g.outEdges 1 = [(1, 2)] := by
  decide

/-- `c09_built_reachable` applies to it (its hypotheses are jointly satisfiable) ... -/
example : ∀ s, C09ReachEx.A.g.containsNode s = true → Path C09ReachEx.A C09ReachEx.A.root s :=
  c09_built_reachable (charTree natLt) strReq 16 C09ReachEx.pats C09ReachEx.evs C09ReachEx.A
    C09ReachEx.built

/-- ... and so do the assembled statements: everything but (c), and `WF` once clause (c) is
checked. -/
example : C09ReachEx.A.WFButC strReq [0, 0] :=
  c09_built_str 16 C09ReachEx.pats C09ReachEx.evs C09ReachEx.A C09ReachEx.built

example : C09ReachEx.A.WF strReq [0, 0] :=
  c09_built_str_wf 16 C09ReachEx.pats C09ReachEx.evs C09ReachEx.A C09ReachEx.built (by decide)

/-- The Boolean clauses agree with the evaluation of the checker. -/
example : C09ReachEx.A.wfReachable = true ∧ C09ReachEx.A.wfKeyOrder strReq = true ∧
    C09ReachEx.A.wfFailures strReq [0, 0] = [] := by decide

/-- Likewise on the build of Props/C09Built.lean (fusion with removal of the two old children,
two determinisations): the scopes `[0]`, `[0, 1]` are prerequisite-ordered for `strReq`. -/
example : ∀ s w, C09BuiltEx.A.g.weight? s = some w → PrereqOrdered strReq w.scope :=
  c09_built_scopes_ordered (charTree natLt) strReq StrProg.strReq_acyclic 16 C09BuiltEx.pats
    C09BuiltEx.evs C09BuiltEx.A C09BuiltEx.built

example : ∀ s, C09BuiltEx.A.g.containsNode s = true → Reachable C09BuiltEx.A C09BuiltEx.A.root s :=
  c09_built_reachable' (charTree natLt) strReq 16 C09BuiltEx.pats C09BuiltEx.evs C09BuiltEx.A
    C09BuiltEx.built

/-- Clause (b) is not trivially true: a structurally well-formed automaton that is not the result
of a build can have an unreachable live state (and the checker reports it). -/
example : C09ReachEx.bad.g.WF ∧ C09ReachEx.bad.wfFailures strReq [] = ["b:unreachable-state"] ∧
    ¬ ∀ s, C09ReachEx.bad.g.containsNode s = true → Path C09ReachEx.bad C09ReachEx.bad.root s :=
  ⟨c09_graph_wfB_sound (by decide), by decide, fun h =>
    absurd (c09_reachable_complete C09ReachEx.bad (c09_graph_wfB_sound (by decide)) h)
      (by decide)⟩

/-- The admissibility guard c4 of `doMerge` ("equal state tuples") is what clause (b) rests on in
the merge step: folding state 3 into state 1 of the automaton for `"ab"`, `"cd"`
(`0 → 1 → 2`, `0 → 3 → 4`) with the bare `mergeLoop` (`move_incoming` + `remove_state`, the
place where a seeded defect produced unreachable states) leaves the live state 4 without
incoming transition; the guarded `doMerge` rejects that merge set. -/
example :
    let a : Automaton Nat CharPred := C09Ex.okOr new (Automaton.addPatterns strReq 16 new
      [(0, [⟨.constVal 97, [0]⟩, ⟨.constVal 98, [1]⟩], []),
       (1, [⟨.constVal 99, [0]⟩, ⟨.constVal 100, [1]⟩], [])])
    a.wfReachable = true ∧
      (C09Ex.okOr new (a.mergeLoop 1 [3])).g.nodeIndices = [0, 1, 2, 4] ∧
      (C09Ex.okOr new (a.mergeLoop 1 [3])).g.inEdges 4 = [] ∧
      (C09Ex.okOr new (a.mergeLoop 1 [3])).wfReachable = false := by decide

example :
    (C09Ex.okOr new (Automaton.addPatterns strReq 16 (new : Automaton Nat CharPred)
      [(0, [⟨.constVal 97, [0]⟩, ⟨.constVal 98, [1]⟩], []),
       (1, [⟨.constVal 99, [0]⟩, ⟨.constVal 100, [1]⟩], [])])).doMerge 1 [1, 3] =
      .error (.guard "c4: merge set member with a different state tuple") := by rfl

/-- Clause (g) is not trivially true either: `[1, 0]` is not prerequisite-ordered for `strReq`. -/
example : prereqOrdered strReq [1, 0] = false ∧ prereqOrdered strReq [0, 1] = true := by decide

end Pm
