/-
Props/TRunPG.lean — theorem T-RUN-ANCH-PG (anchored traversal theorem for SINGLE-ROOT port-graph
programs over the generic association-list binding map) and its corollaries for built automata.

Every key `root 0` / `along 0 port len` has a value `pgVal h r k` determined by the image `r` of
the root (`walk_path` from `r`), possibly undefined; `pgSigmaAnch h r` is the induced truth
assignment. For ANY automaton `A` and constraint vectors `css` passing the decidable per-program
check `pgProgramOK A css` (Spec/PGAnch.lean) and ANY host `h`, a successful traversal
`run pgDomain A h` reports exactly anchored acceptance:

* `trun_pg_sound` — a reported `(i, m)` is the empty binding of a pattern the root accepts with
  no keys, or there are a live host node `r` and a non-empty key list `ks` such that the
  automaton accepts `i` from its root under `pgSigmaAnch h r` at a state recording `ks`
  (`AccDetK`), every key of `ks` is defined at `r`, and `m` is exactly the binding of `ks` to
  its values (`AnchG.MapIs`: no key twice, `get` is `pgVal h r` on `ks` and nothing elsewhere);
* `trun_pg_complete`, `trun_pg_complete_nil` — conversely every such `(i, r, ks)` is reported
  with some binding `m` satisfying `MapIs m ks (pgVal h r)`: the visited-set pruning loses
  nothing and the hash order of scopes and key lists plays no role;
* `trun_pg` — the two as one equivalence for all `i`, `m`, up to the order of the entries of the
  binding (`AnchG.MapEqv`: same `get`; the Rust side compares maps as sets of entries).

The order of the entries of a reported association list is an artefact of the path the traversal
took (a step yields `retain scope (m ++ newly bound scope keys)`), and the visited set keeps
whichever of two configurations with the same projection came first; so the statement with `∈`
on the left and the extensional `MapIs` on the right is FALSE (`trun_pg_literal_false`).

Corollaries for BUILT automata (`pg_built_checked` for builder inputs, `c01_c02_pg_checked` for
`ManyMatcher` over `constraint_vec`, `c04_pg_checked`), via T-BUILD. Finding: the tree
decomposition `pgTree` is NOT faithful for `pgSigmaAnch h r` itself (`tpg_treeOK_anch_fails`:
`PGPredicate::conditioned` reports a one-key `isNotEqual` constraint as implied by the empty set
of satisfied constraints, but under `pgSigmaAnch` it is false when its key is undefined). It is
faithful for `AnchG.pgSigmaAnch'`, which differs from `pgSigmaAnch` on those corner constraints
only (`tpg_treeOK_anch'`); `constraint_vec` never emits a corner constraint
(`tpg_constraints_noCorner`), the builder never creates one (`tpg_build_noCorner`), so on built
automata the two assignments accept the same patterns.

Only final statements and non-vacuity examples live here; proofs are in
`Proofs/AnchGDefs.lean` (vocabulary), `Proofs/AnchGBind.lean` (bindings in closed form,
evaluation = `pgSigmaAnch`), `Proofs/AnchGReach.lean` (reachable configurations),
`Proofs/AnchGRun.lean` (pruning is lossless; the theorem), `Proofs/AnchGTree.lean` (`TreeOK` for
`pgSigmaAnch'`), `Proofs/AnchGCorner*.lean` (corner-freeness through the builder) and
`Proofs/AnchGBuilt.lean` (the corollaries).
-/
import PmVerif.Proofs.AnchGBuilt
namespace Pm
open Automaton AnchG

/-! ### T-RUN-ANCH-PG -/

/-- **T-RUN-ANCH-PG, soundness.** -/
theorem trun_pg_sound (A : Automaton PGKey PGPred) (css : List (Option (List PGCons)))
    (h : PortGraph) (fuel : Nat) (ms : List (Match PGMap)) (seen : List (Nat × List (Option Nat)))
    (hok : pgProgramOK A css = true) (hr : run pgDomain A h fuel = .ok (ms, seen))
    (i : Nat) (m : PGMap) (hm : (i, m) ∈ ms) :
    (m = [] ∧ ∃ w, A.g.weight? A.root = some w ∧ (i, []) ∈ w.matches_) ∨
    (∃ r ks, r ∈ h.nodesIter ∧ ks ≠ [] ∧ AccDetK (pgSigmaAnch h r) A A.root i ks ∧
      (∀ k ∈ ks, (pgVal h r k).isSome = true) ∧ MapIs m ks (pgVal h r)) :=
  AnchG.trun_pg_sound A css h fuel ms seen hok hr i m hm

/-- **T-RUN-ANCH-PG, completeness** (non-empty key lists). -/
theorem trun_pg_complete (A : Automaton PGKey PGPred) (css : List (Option (List PGCons)))
    (h : PortGraph) (fuel : Nat) (ms : List (Match PGMap)) (seen : List (Nat × List (Option Nat)))
    (hok : pgProgramOK A css = true) (hr : run pgDomain A h fuel = .ok (ms, seen))
    (i r : Nat) (ks : List PGKey) (hrn : r ∈ h.nodesIter) (hne : ks ≠ [])
    (hacc : AccDetK (pgSigmaAnch h r) A A.root i ks)
    (hb : ∀ k ∈ ks, (pgVal h r k).isSome = true) :
    ∃ m, (i, m) ∈ ms ∧ MapIs m ks (pgVal h r) :=
  AnchG.trun_pg_complete A css h fuel ms seen hok hr i r ks hrn hne hacc hb

/-- **T-RUN-ANCH-PG, completeness** (a pattern the root accepts with no keys; no program check
needed). -/
theorem trun_pg_complete_nil (A : Automaton PGKey PGPred) (h : PortGraph) (fuel : Nat)
    (ms : List (Match PGMap)) (seen : List (Nat × List (Option Nat)))
    (hr : run pgDomain A h fuel = .ok (ms, seen)) (i : Nat) (w : AState PGKey)
    (hw : A.g.weight? A.root = some w) (hk : (i, []) ∈ w.matches_) : (i, ([] : PGMap)) ∈ ms :=
  AnchG.trun_pg_complete_nil A h fuel ms seen hr i w hw hk

/-- **T-RUN-ANCH-PG.** The traversal of an OK single-root port-graph program reports exactly
anchored acceptance — for all `i`, `m`, up to the order of the entries of the binding. -/
theorem trun_pg (A : Automaton PGKey PGPred) (css : List (Option (List PGCons))) (h : PortGraph)
    (fuel : Nat) (ms : List (Match PGMap)) (seen : List (Nat × List (Option Nat)))
    (hok : pgProgramOK A css = true) (hr : run pgDomain A h fuel = .ok (ms, seen))
    (i : Nat) (m : PGMap) :
    (∃ m', (i, m') ∈ ms ∧ MapEqv m' m) ↔
      (m = [] ∧ ∃ w, A.g.weight? A.root = some w ∧ (i, []) ∈ w.matches_) ∨
      (∃ r ks, r ∈ h.nodesIter ∧ ks ≠ [] ∧ AccDetK (pgSigmaAnch h r) A A.root i ks ∧
        (∀ k ∈ ks, (pgVal h r k).isSome = true) ∧ MapGets m ks (pgVal h r)) :=
  AnchG.trun_pg_main A css h fuel ms seen hok hr i m

/-- Every reported binding lists each key at most once. -/
theorem trun_pg_nodup (A : Automaton PGKey PGPred) (css : List (Option (List PGCons)))
    (h : PortGraph) (fuel : Nat) (ms : List (Match PGMap)) (seen : List (Nat × List (Option Nat)))
    (hok : pgProgramOK A css = true) (hr : run pgDomain A h fuel = .ok (ms, seen))
    (i : Nat) (m : PGMap) (hm : (i, m) ∈ ms) : (m.map (·.1)).Nodup := by
  rcases trun_pg_sound A css h fuel ms seen hok hr i m hm with ⟨rfl, _⟩ | ⟨_, _, _, _, _, _, hmap⟩
  · simp
  · exact hmap.1

/-- `trun_pg` does not depend on the visit log or the fuel: any two successful runs report the
same set of matches (up to the order of the entries of the bindings). -/
theorem trun_pg_set (A : Automaton PGKey PGPred) (css : List (Option (List PGCons)))
    (h : PortGraph) (fuel fuel' : Nat) (ms ms' : List (Match PGMap))
    (seen seen' : List (Nat × List (Option Nat)))
    (hok : pgProgramOK A css = true) (hr : run pgDomain A h fuel = .ok (ms, seen))
    (hr' : run pgDomain A h fuel' = .ok (ms', seen')) (i : Nat) (m : PGMap) :
    (∃ m', (i, m') ∈ ms ∧ MapEqv m' m) ↔ (∃ m', (i, m') ∈ ms' ∧ MapEqv m' m) := by
  rw [trun_pg A css h fuel ms seen hok hr, trun_pg A css h fuel' ms' seen' hok hr']

/-! ### the tree decomposition and corner constraints -/

/-- Finding: `pgTree` is not faithful for `pgSigmaAnch` on a one-key `isNotEqual` constraint
whose key is undefined. -/
theorem tpg_treeOK_anch_fails :
    ¬ Automaton.TreeOK (fun cs => pgTree cs 10) (pgSigmaAnch ⟨[some ⟨0, 0⟩], []⟩ 0) :=
  AnchG.treeOK_sigma_fails

/-- `pgTree` is faithful for the adjusted assignment, for every host and anchor. -/
theorem tpg_treeOK_anch' (h : PortGraph) (r fuel : Nat) :
    Automaton.TreeOK (fun cs => pgTree cs fuel) (pgSigmaAnch' h r) :=
  AnchG.treeOK_sigma' h r fuel

/-- The adjusted assignment agrees with `pgSigmaAnch` on every corner-free constraint. -/
theorem tpg_sigma'_eq (h : PortGraph) (r : Nat) (c : PGCons) (hc : pgNoCorner c = true) :
    pgSigmaAnch' h r c = pgSigmaAnch h r c :=
  AnchG.sigma'_eq_of_noCorner hc

/-- `constraint_vec` never emits a corner constraint, nor the empty vector. -/
theorem tpg_constraints_noCorner (g : PortGraph) (root : Nat) (cs : List PGCons)
    (h : pgConstraints g root = some cs) : cs ≠ [] ∧ ∀ c ∈ cs, pgNoCorner c = true :=
  ⟨AnchG.pgConstraints_ne_nil h, AnchG.pgConstraints_noCorner h⟩

/-- The builder creates no corner constraint: if no input constraint is a corner constraint,
no edge of the built automaton carries one (whatever the event log). -/
theorem tpg_build_noCorner (fuelT fuel : Nat) (inputs : List (Nat × List PGCons × List PGKey))
    (evs : List Ev) (A : Automaton PGKey PGPred)
    (hb : Automaton.build (fun cs => pgTree cs fuelT) pgReq fuel inputs evs = .ok A)
    (hp : ∀ p ∈ inputs, ∀ c ∈ p.2.1, pgNoCorner c = true) :
    ∀ t e c, A.g.edge? t = some e → e.w = some c → pgNoCorner c = true :=
  AnchG.build_noCorner (AnchG.treeOK_sigma' ⟨[], []⟩ 0 fuelT) hb hp

/-! ### corollaries for built automata -/

/-- **C01/C02 for checked single-root port-graph programs, builder inputs given directly.**
Whatever the event log: if the inputs carry no corner constraint, `css` lists the constraint
vectors by id and the built automaton passes `pgProgramOK`, a successful traversal reports — up
to the order of the entries of the bindings — exactly the empty binding for an input without
constraints, and for an input `cs ≠ []` the binding of `pgPatternKeys cs` from every live host
node `r` at which all constraints of `cs` hold and all keys are defined. -/
theorem pg_built_checked (inputs : List (Nat × List PGCons × List PGKey)) (evs : List Ev)
    (fuelT fuel fuel' : Nat) (A : Automaton PGKey PGPred) (css : List (Option (List PGCons)))
    (h : PortGraph) (ms : List (Match PGMap)) (seen : List (Nat × List (Option Nat)))
    (hb : Automaton.build (fun cs => pgTree cs fuelT) pgReq fuel inputs evs = .ok A)
    (hnc : ∀ p ∈ inputs, ∀ c ∈ p.2.1, pgNoCorner c = true)
    (hcss : ∀ p ∈ inputs, css[p.1]? = some (some p.2.1))
    (hok : pgProgramOK A css = true) (hr : run pgDomain A h fuel' = .ok (ms, seen))
    (i : Nat) (m : PGMap) :
    (∃ m', (i, m') ∈ ms ∧ MapEqv m' m) ↔
      ∃ cs ex, (i, cs, ex) ∈ inputs ∧
        ((cs = [] ∧ m = []) ∨
         (cs ≠ [] ∧ ∃ r, r ∈ h.nodesIter ∧ (∀ c ∈ cs, pgSigmaAnch h r c = true) ∧
           (∀ k ∈ pgPatternKeys cs, (pgVal h r k).isSome = true) ∧
           MapGets m (pgPatternKeys cs) (pgVal h r))) :=
  AnchG.pg_built_checked inputs evs fuelT fuel fuel' A css h ms seen hb hnc hcss hok hr i m

/-- **C01/C02 for checked single-root port-graph pattern sets** (`ManyMatcher`): for any
conversion all of whose results are outputs of `constraint_vec`, whatever the event log, if the
built automaton passes `pgProgramOK` against the constraint vectors `pats.map convert`, then
`find_matches` reports — up to the order of the entries of the bindings — for the `i`-th pattern
with constraint vector `cs` exactly the bindings of `pgPatternKeys cs` from the live host nodes
`r` at which all constraints hold and all keys are defined. No side hypothesis on the patterns. -/
theorem c01_c02_pg_checked {Pat : Type} (convert : Pat → Option (List PGCons))
    (hconv : ∀ p cs, convert p = some cs → ∃ g root, pgConstraints g root = some cs)
    (ff : Bool) (pats : List Pat) (evs : List Ev) (fuelT fuel fuel' : Nat)
    (M : Many PGKey PGPred) (h : PortGraph) (ms : List (Match PGMap))
    (hb : manyBuild convert (fun _ => ([] : List PGKey)) (fun cs => pgTree cs fuelT) pgReq fuel ff
      pats evs = some (.ok M))
    (hok : pgProgramOK M.automaton (pats.map convert) = true)
    (hf : M.findMatches pgDomain h fuel' = .ok ms) (i : Nat) (m : PGMap) :
    (∃ m', (i, m') ∈ ms ∧ MapEqv m' m) ↔
      ∃ p cs, pats[i]? = some p ∧ convert p = some cs ∧
        ∃ r, r ∈ h.nodesIter ∧ (∀ c ∈ cs, pgSigmaAnch h r c = true) ∧
          (∀ k ∈ pgPatternKeys cs, (pgVal h r k).isSome = true) ∧
          MapGets m (pgPatternKeys cs) (pgVal h r) :=
  AnchG.pg_many_checked convert hconv ff pats evs fuelT fuel fuel' M h ms hb hok hf i m

/-- The instance for patterns given as `(graph, root)`. -/
theorem c01_c02_pg_checked_rooted (pats : List (PortGraph × Nat)) (evs : List Ev)
    (fuelT fuel fuel' : Nat) (M : Many PGKey PGPred) (h : PortGraph) (ms : List (Match PGMap))
    (hb : manyBuild (fun p : PortGraph × Nat => pgConstraints p.1 p.2) (fun _ => ([] : List PGKey))
      (fun cs => pgTree cs fuelT) pgReq fuel true pats evs = some (.ok M))
    (hok : pgProgramOK M.automaton (pats.map fun p => pgConstraints p.1 p.2) = true)
    (hf : M.findMatches pgDomain h fuel' = .ok ms) (i : Nat) (m : PGMap) :
    (∃ m', (i, m') ∈ ms ∧ MapEqv m' m) ↔
      ∃ p cs, pats[i]? = some p ∧ pgConstraints p.1 p.2 = some cs ∧
        ∃ r, r ∈ h.nodesIter ∧ (∀ c ∈ cs, pgSigmaAnch h r c = true) ∧
          (∀ k ∈ pgPatternKeys cs, (pgVal h r k).isSome = true) ∧
          MapGets m (pgPatternKeys cs) (pgVal h r) :=
  c01_c02_pg_checked (fun p : PortGraph × Nat => pgConstraints p.1 p.2)
    (fun p _ hc => ⟨p.1, p.2, hc⟩) true pats evs fuelT fuel fuel' M h ms hb hok hf i m

/-- **C04 for checked single-root port-graph pattern sets.** Two builds of the same patterns
under ANY two event logs, both passing `pgProgramOK`, report the same set of matches on every
host (up to the order of the entries of the bindings). -/
theorem c04_pg_checked {Pat : Type} (convert : Pat → Option (List PGCons))
    (hconv : ∀ p cs, convert p = some cs → ∃ g root, pgConstraints g root = some cs)
    (ff : Bool) (pats : List Pat) (evs evs' : List Ev)
    (fuelT fuelT' fuel₁ fuel₁' fuel₂ fuel₂' : Nat)
    (M M' : Many PGKey PGPred) (h : PortGraph) (ms ms' : List (Match PGMap))
    (hb : manyBuild convert (fun _ => ([] : List PGKey)) (fun cs => pgTree cs fuelT) pgReq fuel₁
      ff pats evs = some (.ok M))
    (hb' : manyBuild convert (fun _ => ([] : List PGKey)) (fun cs => pgTree cs fuelT') pgReq fuel₁'
      ff pats evs' = some (.ok M'))
    (hok : pgProgramOK M.automaton (pats.map convert) = true)
    (hok' : pgProgramOK M'.automaton (pats.map convert) = true)
    (hf : M.findMatches pgDomain h fuel₂ = .ok ms)
    (hf' : M'.findMatches pgDomain h fuel₂' = .ok ms') (i : Nat) (m : PGMap) :
    (∃ m', (i, m') ∈ ms ∧ MapEqv m' m) ↔ (∃ m', (i, m') ∈ ms' ∧ MapEqv m' m) := by
  rw [c01_c02_pg_checked convert hconv ff pats evs fuelT fuel₁ fuel₂ M h ms hb hok hf,
    c01_c02_pg_checked convert hconv ff pats evs' fuelT' fuel₁' fuel₂' M' h ms' hb' hok' hf']

/-! ### Non-vacuity -/

open PGEx

/-- Three states: the root (scope `[root 0]`) has a transition `hasNodeWeight(root 0)` to a state
(scope `[root 0, k1]`, `k1 = along 0 o0 1`) with a transition `isConnected o0 i0 (root 0, k1)` to
a leaf accepting pattern 0 with keys `[root 0, k1]`. -/
def exPGAutomaton : Automaton PGKey PGPred :=
  { g := { nodes := [some ⟨{ corder := [0], scope := [.root 0] }, [0], []⟩,
                     some ⟨{ corder := [1], scope := [.root 0, k1] }, [1], [0]⟩,
                     some ⟨{ matches_ := [(0, [.root 0, k1])] }, [], [1]⟩],
           edges := [some ⟨0, 1, some ⟨.hasNodeWeight, [.root 0]⟩⟩,
                     some ⟨1, 2, some ⟨.isConnected o0 i0, [.root 0, k1]⟩⟩],
           freeNodes := [], freeEdges := [] },
    root := 0 }

def exPGCss : List (Option (List PGCons)) :=
  [some [⟨.hasNodeWeight, [.root 0]⟩, ⟨.isConnected o0 i0, [.root 0, k1]⟩]]

/-- The program passes the check … -/
example : pgProgramOK exPGAutomaton exPGCss = true := by decide

/-- … and on the path `0 → 1 → 2` the traversal reports the edge pattern at anchors 0 and 1
(at anchor 2 the key `k1` is undefined: the walk along `o0` from node 2 stops at once). -/
theorem exPG_run : run pgDomain exPGAutomaton gPath 20 =
    .ok ([(0, [(.root 0, 0), (k1, 1)]), (0, [(.root 0, 1), (k1, 2)])],
      [(0, [none]), (1, [some 0, none]), (1, [some 1, none]), (1, [some 2, none]),
       (2, [some 0, some 1]), (2, [some 1, some 2])]) := by rfl

example : pgVal gPath 0 k1 = some 1 ∧ pgVal gPath 1 k1 = some 2 ∧ pgVal gPath 2 k1 = none := by
  decide

/-- The acceptance path of `trun_pg`'s right-hand side at anchor 0. -/
theorem exPG_acc : AccDetK (pgSigmaAnch gPath 0) exPGAutomaton exPGAutomaton.root 0 [.root 0, k1] :=
  .con (w := { corder := [0], scope := [.root 0] }) (t := 0)
    (e := ⟨0, 1, some ⟨.hasNodeWeight, [.root 0]⟩⟩) rfl (by decide) rfl rfl (by decide)
    (.con (w := { corder := [1], scope := [.root 0, k1] }) (t := 1)
      (e := ⟨1, 2, some ⟨.isConnected o0 i0, [.root 0, k1]⟩⟩) rfl (by decide) rfl rfl (by decide)
      (.here (w := { matches_ := [(0, [.root 0, k1])] }) rfl (by decide)))

/-- `trun_pg_complete` applied to that run. -/
example : ∃ m, (0, m) ∈ [((0 : Nat), ([(.root 0, 0), (k1, 1)] : PGMap)),
      (0, [(.root 0, 1), (k1, 2)])] ∧ MapIs m [.root 0, k1] (pgVal gPath 0) :=
  trun_pg_complete exPGAutomaton exPGCss gPath 20 _ _ (by decide) exPG_run 0 0 [.root 0, k1]
    (by decide) (by decide) exPG_acc (by decide)

/-- The entries of the reported binding in the other order: the same `get`, not reported. -/
theorem exPG_mapIs_swapped : MapIs [(k1, 1), (.root 0, 0)] [.root 0, k1] (pgVal gPath 0) := by
  refine ⟨by decide, fun k => ?_⟩
  by_cases h1 : k = k1
  · subst h1; decide
  · by_cases h0 : k = .root 0
    · subst h0; decide
    · have e1 : ¬ k1 = k := fun e => h1 e.symm
      have e0 : ¬ PGKey.root 0 = k := fun e => h0 e.symm
      simp [alGet, h1, h0, e1, e0]

/-- **The literal statement (membership on the left, extensional `MapIs` on the right) is
false**: the reported association list is one particular ordering of its entries. -/
theorem trun_pg_literal_false :
    ¬ ∀ (A : Automaton PGKey PGPred) (css : List (Option (List PGCons))) (h : PortGraph)
        (fuel : Nat) (ms : List (Match PGMap)) (seen : List (Nat × List (Option Nat))),
        pgProgramOK A css = true → run pgDomain A h fuel = .ok (ms, seen) → ∀ (i : Nat) (m : PGMap),
        ((i, m) ∈ ms ↔
          (m = [] ∧ ∃ w, A.g.weight? A.root = some w ∧ (i, []) ∈ w.matches_) ∨
          (∃ r ks, r ∈ h.nodesIter ∧ ks ≠ [] ∧ AccDetK (pgSigmaAnch h r) A A.root i ks ∧
            (∀ k ∈ ks, (pgVal h r k).isSome = true) ∧ MapIs m ks (pgVal h r))) := by
  intro H
  have hmem := (H exPGAutomaton exPGCss gPath 20 _ _ (by decide) exPG_run 0
    [(k1, 1), (.root 0, 0)]).mpr
    (.inr ⟨0, [.root 0, k1], by decide, by decide, exPG_acc, by decide, exPG_mapIs_swapped⟩)
  revert hmem
  decide

/-- A real build: the edge pattern `0 → 1` and the path pattern `0 → 1 → 2`, both rooted at
node 0, under an event log that fuses the two `isNotEqual(k1, root 0)` transitions of the root and
determinises it. The built automaton has six live states, passes the check, and on the path host
reports the edge twice and the path once. -/
def exPGEdge : PortGraph := ⟨[some ⟨0, 1⟩, some ⟨1, 0⟩], [((0, o0), (1, i0))]⟩

def exPGPatterns : List (PortGraph × Nat) := [(exPGEdge, 0), (gPath, 0)]

def exPGEvents : List Ev := [.topo 0, .group 0 [0, 2], .detAsk 0, .detYes 0, .iterEnd 0]

theorem exPG_built : ∃ M,
    manyBuild (fun p : PortGraph × Nat => pgConstraints p.1 p.2) (fun _ => ([] : List PGKey))
      (fun cs => pgTree cs 50) pgReq 50 true exPGPatterns exPGEvents = some (.ok M) ∧
    M.automaton.liveStates = [0, 2, 4, 5, 6, 7] ∧
    pgProgramOK M.automaton (exPGPatterns.map fun p => pgConstraints p.1 p.2) = true ∧
    M.findMatches pgDomain gPath 100 =
      .ok [(0, [(.root 0, 0), (k1, 1)]), (0, [(.root 0, 1), (k1, 2)]),
           (1, [(.root 0, 0), (k1, 1), (k2, 2)])] :=
  ⟨_, rfl, by decide, by decide, by rfl⟩

/-- The hypotheses of `c01_c02_pg_checked_rooted` hold of it; its conclusion for that run. -/
example : ∀ i m, (∃ m', (i, m') ∈ [((0 : Nat), ([(.root 0, 0), (k1, 1)] : PGMap)),
      (0, [(.root 0, 1), (k1, 2)]), (1, [(.root 0, 0), (k1, 1), (k2, 2)])] ∧ MapEqv m' m) ↔
    ∃ p cs, exPGPatterns[i]? = some p ∧ pgConstraints p.1 p.2 = some cs ∧
      ∃ r, r ∈ gPath.nodesIter ∧ (∀ c ∈ cs, pgSigmaAnch gPath r c = true) ∧
        (∀ k ∈ pgPatternKeys cs, (pgVal gPath r k).isSome = true) ∧
        MapGets m (pgPatternKeys cs) (pgVal gPath r) := by
  obtain ⟨M, hb, _, hok, hf⟩ := exPG_built
  exact c01_c02_pg_checked_rooted _ _ _ _ _ M _ _ hb hok hf

end Pm
