/-
Props/TDomPG.lean — T-DOM-PG for single-root port-graph patterns: the constraint vector
`pgConstraints p root` (the Rust `constraint_vec`), read under the anchored truth assignment
`pgSigmaAnch h r` (every key `root 0` / `along 0 port len` denotes the node the host walk from
`r` reaches), holds exactly when `p` embeds in `h` with the root sent to `r`.
Only final statements and non-vacuity examples live here; definitions (`onLines`, `LinesCover`)
are in `Proofs/PGDomDefs.lean`, proofs in `Proofs/PGDomLines.lean` (structure of lines and of
the emitted constraints), `Proofs/PGDomSound.lean`, `Proofs/PGDomComplete.lean`,
`Proofs/PGDomCover.lean`.
-/
import PmVerif.Proofs.PGDomComplete
import PmVerif.Proofs.PGDomCover
namespace Pm
open PGDom

/-! ## 1. Soundness -/

/-- **Soundness.** If every constraint of `pgConstraints p root` holds under the anchor `r`, then
the induced node map `pgPhi p root h r` (a) is defined, with the value of its key, on every node
that `constraint_vec` keys, (b) is injective, (b') maps into live host nodes, (c) preserves every
link of `p` that lies on a line of `linePartition p root`, (d) sends `root` to `r`.
(No hypothesis on `p` and no single-root hypothesis: a constraint mentioning a key of another
root is false under `pgSigmaAnch`.) -/
theorem tdom_pg_sound (p h : PortGraph) (root r : Nat) (cs : List PGCons) (hh : h.LinksOK)
    (hr : (h.node? r).isSome = true) (hcs : pgConstraints p root = some cs)
    (hsat : ∀ c ∈ cs, pgSigmaAnch h r c = true) :
    (∀ nk ∈ pgNodeKeys p root, ∃ v, pgVal h r nk.2 = some v ∧
      alGet (pgPhi p root h r) nk.1 = some v) ∧
    ((pgPhi p root h r).map (·.2)).Nodup ∧
    (∀ x ∈ pgPhi p root h r, (h.node? x.2).isSome = true) ∧
    (∀ l ∈ p.links, onLines p root l = true → ∀ a b,
      alGet (pgPhi p root h r) l.1.1 = some a → alGet (pgPhi p root h r) l.2.1 = some b →
      h.portExists (a, l.1.2) = true ∧ h.portLink (a, l.1.2) = some (b, l.2.2)) ∧
    alGet (pgPhi p root h r) root = some r :=
  sound_core p h root r cs hh hr hcs hsat

/-- **Soundness, subgraph form**: `pgPhi p root h r` is an embedding of the part of `p` that the
lines cover (`coveredPart p root`: the keyed nodes and the links lying on a line). -/
theorem tdom_pg_sound_covered (p h : PortGraph) (root r : Nat) (cs : List PGCons)
    (hh : h.LinksOK) (hr : (h.node? r).isSome = true) (hcs : pgConstraints p root = some cs)
    (hsat : ∀ c ∈ cs, pgSigmaAnch h r c = true) :
    embedsPG (coveredPart p root) h (pgPhi p root h r) = true :=
  sound_covered p h root r cs hh hr hcs hsat

/-- **Soundness under coverage**: when the lines cover the pattern the induced map is an
embedding of the whole pattern. -/
theorem tdom_pg_sound_connected (p h : PortGraph) (root r : Nat) (cs : List PGCons)
    (hh : h.LinksOK) (hr : (h.node? r).isSome = true) (hcs : pgConstraints p root = some cs)
    (hcov : LinesCover p root) (hsat : ∀ c ∈ cs, pgSigmaAnch h r c = true) :
    embedsPG p h (pgPhi p root h r) = true ∧ alGet (pgPhi p root h r) root = some r :=
  ⟨sound_connected p h root r cs hh hr hcs hcov hsat,
    (sound_core p h root r cs hh hr hcs hsat).2.2.2.2⟩

/-! ## 2. Coverage -/

/-- **Coverage** (unconditional: the fuel of `extendLine` and of `linePartitionLoop` is shown to
suffice): for a well-formed connected pattern and a live root, every link lies on a line and
every live node is keyed. -/
theorem tdom_pg_cover (p : PortGraph) (root : Nat) (hp : p.LinksOK) (hc : pgConnected p = true)
    (hr : (p.node? root).isSome = true) : LinesCover p root :=
  cover_core p root hp hc hr

/-! ## 3. Completeness -/

/-- **The host walk follows the lines that start at the root.** For a line of
`linePartition p root` whose first link leaves the root through port `first.1.2`, and an embedding
`φ` with `φ root = r`, position `j + 1` of `walkPathNodes h r first.1.2` is the image of the
right-hand node of the line's `j`-th link (unless that node is the root itself, where both the
line and the walk end). -/
theorem tdom_pg_walk_follows_line (p h : PortGraph) (root r : Nat) (φ : List (Nat × Nat))
    (hp : p.LinksOK) (hh : h.LinksOK) (hemb : embedsPG p h φ = true)
    (hroot : alGet φ root = some r) (line : List PLink) (hline : line ∈ linePartition p root)
    (first : PLink) (hfirst : line.head? = some first) (hstart : first.1.1 = root)
    (j : Nat) (x : PLink) (hx : line[j]? = some x) (hxr : x.2.1 ≠ root) :
    ∃ v, alGet φ x.2.1 = some v ∧ (walkPathNodes h r first.1.2)[j + 1]? = some v :=
  walk_follows_line hh (Emb.of_embedsPG hp hh hemb) hroot (linePartition_isLine p root line hline)
    hfirst hstart j x hx hxr

/-- **Completeness for single-root patterns.** An embedding with `φ root = r` satisfies every
constraint under the anchor `r`. (No coverage hypothesis.) -/
theorem tdom_pg_complete (p h : PortGraph) (root r : Nat) (cs : List PGCons)
    (φ : List (Nat × Nat)) (hp : p.LinksOK) (hh : h.LinksOK)
    (hcs : pgConstraints p root = some cs) (hsr : pgSigMultiRoot cs = false)
    (hemb : embedsPG p h φ = true) (hroot : alGet φ root = some r) :
    ∀ c ∈ cs, pgSigmaAnch h r c = true :=
  (complete_core p h root r cs φ hp hh hcs hsr hemb hroot).1

/-- Moreover the anchored value of every assigned key is the image of its node. -/
theorem tdom_pg_complete_keys (p h : PortGraph) (root r : Nat) (cs : List PGCons)
    (φ : List (Nat × Nat)) (hp : p.LinksOK) (hh : h.LinksOK)
    (hcs : pgConstraints p root = some cs) (hsr : pgSigMultiRoot cs = false)
    (hemb : embedsPG p h φ = true) (hroot : alGet φ root = some r) :
    ∀ nk ∈ pgNodeKeys p root, ∃ v, alGet φ nk.1 = some v ∧ pgVal h r nk.2 = some v :=
  (complete_core p h root r cs φ hp hh hcs hsr hemb hroot).2

/-! ## 4. The equivalence -/

/-- **T-DOM-PG** for single-root constraint vectors, under coverage. -/
theorem tdom_pg_iff (p h : PortGraph) (root r : Nat) (cs : List PGCons) (hp : p.LinksOK)
    (hh : h.LinksOK) (hr : (h.node? r).isSome = true) (hcs : pgConstraints p root = some cs)
    (hsr : pgSigMultiRoot cs = false) (hcov : LinesCover p root) :
    (∀ c ∈ cs, pgSigmaAnch h r c = true) ↔
      ∃ φ, embedsPG p h φ = true ∧ alGet φ root = some r := by
  constructor
  · intro hsat
    exact ⟨pgPhi p root h r, tdom_pg_sound_connected p h root r cs hh hr hcs hcov hsat⟩
  · rintro ⟨φ, hemb, hroot⟩
    exact tdom_pg_complete p h root r cs φ hp hh hcs hsr hemb hroot

/-- … and then the embedding is unique on the nodes of `p`: it agrees with `pgPhi p root h r`. -/
theorem tdom_pg_unique (p h : PortGraph) (root r : Nat) (cs : List PGCons)
    (φ : List (Nat × Nat)) (hp : p.LinksOK) (hh : h.LinksOK)
    (hcs : pgConstraints p root = some cs) (hsr : pgSigMultiRoot cs = false)
    (hcov : LinesCover p root) (hemb : embedsPG p h φ = true) (hroot : alGet φ root = some r) :
    ∀ n ∈ p.nodesIter, alGet φ n = alGet (pgPhi p root h r) n := by
  intro n hn
  obtain ⟨hsat, hag⟩ := complete_core p h root r cs φ hp hh hcs hsr hemb hroot
  have hr : (h.node? r).isSome = true :=
    ((embedsPG_iff p h φ).1 hemb).2.2.1 (root, r) (alGet_mem hroot)
  obtain ⟨k, hk⟩ := Option.isSome_iff_exists.1 (hcov.2 n hn)
  obtain ⟨v, hv1, hv2⟩ := hag (n, k) (alGet_mem hk)
  obtain ⟨v', hv1', hv2'⟩ := (sound_core p h root r cs hh hr hcs hsat).1 (n, k) (alGet_mem hk)
  rw [hv1, hv2']
  rw [hv2] at hv1'
  exact hv1'

/-- T-DOM-PG with connectedness in place of the coverage hypothesis. -/
theorem tdom_pg_iff_connected (p h : PortGraph) (root r : Nat) (cs : List PGCons)
    (hp : p.LinksOK) (hconn : pgConnected p = true) (hroot : (p.node? root).isSome = true)
    (hh : h.LinksOK) (hr : (h.node? r).isSome = true) (hcs : pgConstraints p root = some cs)
    (hsr : pgSigMultiRoot cs = false) :
    (∀ c ∈ cs, pgSigmaAnch h r c = true) ↔
      ∃ φ, embedsPG p h φ = true ∧ alGet φ root = some r :=
  tdom_pg_iff p h root r cs hp hh hr hcs hsr (tdom_pg_cover p root hp hconn hroot)

/-! ## 5. Small facts -/

/-- `constraint_vec` never reaches its `expect("unknown edge LHS")` (nor `line[0]` on an empty
line) — for every graph and root, connected or not. -/
theorem tdom_pg_total (p : PortGraph) (root : Nat) : ∃ cs, pgConstraints p root = some cs :=
  pgConstraints_total p root

theorem tdom_pg_arity (p : PortGraph) (root : Nat) (cs : List PGCons)
    (hcs : pgConstraints p root = some cs) : ∀ c ∈ cs, c.args.length = c.pred.arity :=
  pgConstraints_arity hcs

/-- The signature `multiRoot` is off exactly when every constraint mentions single-root keys
only. -/
theorem tdom_pg_single_root (cs : List PGCons) :
    pgSigMultiRoot cs = false ↔ ∀ c ∈ cs, pgSingleRootKeys c.args = true :=
  pgSigMultiRoot_false_iff cs

/-- The lines: each is non-empty, consists of links of the graph, enters a node and leaves it
through the opposite offset, and never continues through the node it started from; each line
starts at the root or at the right-hand end of a link of an earlier line. -/
theorem tdom_pg_lines (p : PortGraph) (root : Nat) :
    (∀ line ∈ linePartition p root, IsLine p line) ∧ Ordered [root] (linePartition p root) :=
  ⟨linePartition_isLine p root, linePartition_ordered p root⟩

/-- Keys of the constraints versus `pgNodeKeys` (when there is at least one line constraint, i.e.
`cs` is what `consLines` returns): the root is keyed `root 0`, keyed nodes are pairwise distinct,
every key of a constraint is the key of a node, and every key other than `root 0` is the first
argument of some constraint (its `isNotEqual`). -/
theorem tdom_pg_keys (p : PortGraph) (root : Nat) (cs : List PGCons)
    (hcs : consLines (linePartition p root) [(root, .root 0)] [(root, 0)] [] = some cs) :
    alGet (pgNodeKeys p root) root = some (.root 0) ∧
    ((pgNodeKeys p root).map (·.1)).Nodup ∧
    (∀ c ∈ cs, ∀ k ∈ c.args, k ∈ (pgNodeKeys p root).map (·.2)) ∧
    (∀ k ∈ (pgNodeKeys p root).map (·.2), k = .root 0 ∨ ∃ c ∈ cs, c.args.head? = some k) :=
  consLines_keys p root cs hcs

/-! ## Non-vacuity -/
open PGEx PGDom.Ex

/-- The 3-node path `0 → 1 → 2` rooted at 0 (`csPath`, single-root, covered) in the host
`gPathNode` (the path plus an isolated node): all constraints hold under the anchor 0 and the
induced map is the embedding; under the anchors 1 and 3 some constraint fails. -/
example :
    pgConstraints gPath 0 = some csPath ∧ pgSigMultiRoot csPath = false ∧ LinesCover gPath 0 ∧
    gPath.LinksOK ∧ gPathNode.LinksOK ∧ pgConnected gPath = true ∧
    csPath.map (pgSigmaAnch gPathNode 0) = [true, true, true, true] ∧
    pgPhi gPath 0 gPathNode 0 = [(0, 0), (1, 1), (2, 2)] ∧
    embedsPG gPath gPathNode (pgPhi gPath 0 gPathNode 0) = true ∧
    csPath.map (pgSigmaAnch gPathNode 1) = [true, true, false, false] ∧
    csPath.map (pgSigmaAnch gPathNode 3) = [false, false, false, false] := by
  decide

/-- `tdom_pg_iff` applied: the path occurs in `gPathNode` at 0 and not at 1. -/
example : ∃ φ, embedsPG gPath gPathNode φ = true ∧ alGet φ 0 = some 0 :=
  (tdom_pg_iff gPath gPathNode 0 0 csPath (by decide) (by decide) (by decide) (by decide)
    (by decide) (by decide)).1 (by decide)
example : ¬ ∃ φ, embedsPG gPath gPathNode φ = true ∧ alGet φ 0 = some 1 := fun hex =>
  absurd ((tdom_pg_iff gPath gPathNode 0 1 csPath (by decide) (by decide) (by decide) (by decide)
    (by decide) (by decide)).2 hex) (by decide)

/-- The triangle `0 → 1 → 2 → 0` of `Proofs/PGLemmas` rooted at 0: a single line that returns to
the root (its last `isConnected` constraint closes the cycle); single-root and covered. In the
host `gCyc` every anchor works (rotations), and the induced map from anchor 1 is the rotation;
in `gPathPorts` (no closing link) no constraint holds. -/
example :
    (pgConstraints gCyc 0).map (·.length) = some 5 ∧
    (pgConstraints gCyc 0).map pgSigMultiRoot = some false ∧ LinesCover gCyc 0 ∧
    (linePartition gCyc 0).map (·.length) = [3] ∧
    (pgConstraints gCyc 0).map (fun cs => (List.range 3).map fun r => cs.all (pgSigmaAnch gCyc r)) =
      some [true, true, true] ∧
    pgPhi gCyc 0 gCyc 1 = [(0, 1), (2, 0), (1, 2)] ∧
    embedsPG gCyc gCyc (pgPhi gCyc 0 gCyc 1) = true ∧
    (pgConstraints gCyc 0).map (fun cs => cs.map (pgSigmaAnch gPathPorts 0)) =
      some [false, false, false, false, false] := by
  decide

/-- A fork (two lines from the root) in a host that contains it only at node 3. -/
example :
    gFork.LinksOK ∧ hFork.LinksOK ∧ pgConnected gFork = true ∧
    (linePartition gFork 0).map (·.length) = [1, 1] ∧
    (pgConstraints gFork 0).map pgSigMultiRoot = some false ∧
    (pgConstraints gFork 0).map (fun cs => (List.range 5).map fun r => cs.all (pgSigmaAnch hFork r)) =
      some [false, false, false, true, false] ∧
    pgPhi gFork 0 hFork 3 = [(0, 3), (1, 1), (2, 4)] ∧
    embedsPG gFork hFork (pgPhi gFork 0 hFork 3) = true := by
  decide

/-- The single-root hypothesis of `tdom_pg_complete` is necessary: rooted at 0, `gTee` needs a
second root (a line starts at node 1), and although `gTee` embeds in itself, the two constraints
that mention the key `along 1 _ _` are false under the anchored assignment. Rooted at node 1 the
same graph is single-root (three lines from the root) and all constraints hold. -/
example :
    (pgConstraints gTee 0).map pgSigMultiRoot = some true ∧ LinesCover gTee 0 ∧
    embedsPG gTee gTee [(0, 0), (1, 1), (2, 2), (3, 3)] = true ∧
    (pgConstraints gTee 0).map (fun cs => cs.map (pgSigmaAnch gTee 0)) =
      some [true, true, true, true, false, false] ∧
    (pgConstraints gTee 1).map pgSigMultiRoot = some false ∧
    (linePartition gTee 1).map (·.length) = [1, 1, 1] ∧
    (pgConstraints gTee 1).map (fun cs => cs.all (pgSigmaAnch gTee 1)) = some true := by
  decide

end Pm
