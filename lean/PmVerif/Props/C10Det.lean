/-
Props/C10Det.lean — property C10 under the DOCUMENTED `make_det` reading (Spec/TreeDet.lean: at a
`make_det` root only the first satisfied child is entered) for the port-graph decomposition
`pgTree` (`mutex_filter` + `to_constraints_tree`, src/portgraph/constraint{.rs,/mutex.rs}).

For a family whose smallest constraint is `isConnected`, `pgTree` is `with_transitive_mutex` of
the sorted list under the mutex rule "same left key and same left port". On a host graph and a
binding that is injective on the keys of the family, two different children
`kl.lp → kr.rp` and `kl.lp → kr'.rp'` cannot both hold (`port_link` is a function), so at most one
child of the root is satisfied, the documented reading coincides with the literal one
(Spec/TreeSpec.lean), and the tree is faithful under the documented reading. Injectivity is
necessary, and the documented reading (unlike the literal one) rejects a wrong mutex rule.
Helper lemmas are in Proofs/C10DetLemmas.lean.
-/
import PmVerif.Proofs.C10DetLemmas
import PmVerif.Props.TPG
namespace Pm
open CTree

/-! ## 1. The semantic truth assignment of a host graph and a binding -/

/-- `σ_{g,m}`: a constraint holds when all its argument keys are bound in `m` and the predicate
holds of their values in the host `g` (`false` on an unbound key or a predicate panic). -/
def pgSigmaHost (g : PortGraph) (m : PGMap) (c : PGCons) : Bool :=
  match resolveArgs alGet m c.args with
  | .ok vs => pgCheck c.pred g vs == some true
  | .error _ => false

/-- `pgSigmaHost` is `is_satisfied(host, m) == Ok(true)`. -/
theorem c10_sigmaHost_iff (g : PortGraph) (m : PGMap) (c : PGCons) :
    pgSigmaHost g m c = true ↔ isSatisfied alGet pgCheck c g m = .ok (some true) := by
  unfold pgSigmaHost isSatisfied isSatisfiedLog
  cases resolveArgs alGet m c.args with
  | error e => simp
  | ok vs => simp

/-- A satisfied `isConnected` constraint has exactly two bound keys whose values are joined by the
host's `port_link` at the two offsets. -/
theorem c10_sigmaHost_connected {g : PortGraph} {m : PGMap} {c : PGCons} {l r : POff}
    (hp : c.pred = .isConnected l r) (hσ : pgSigmaHost g m c = true) :
    ∃ ka kb a b, c.args = [ka, kb] ∧ alGet m ka = some a ∧ alGet m kb = some b ∧
      g.portExists (a, l) = true ∧ g.portLink (a, l) = some (b, r) := by
  unfold pgSigmaHost at hσ
  rw [hp] at hσ
  cases hr : resolveArgs alGet m c.args with
  | error e => rw [hr] at hσ; cases hσ
  | ok vs =>
    rw [hr] at hσ
    have hmap := c10det_resolveArgs_ok _ _ hr
    match vs, hσ, hmap with
    | [], hσ, _ => simp [pgCheck] at hσ
    | [_], hσ, _ => simp [pgCheck] at hσ
    | _ :: _ :: _ :: _, hσ, _ => simp [pgCheck] at hσ
    | [a, b], hσ, hmap =>
      simp only [pgCheck, beq_iff_eq, Option.some.injEq, Bool.and_eq_true] at hσ
      match hargs : c.args, hmap with
      | [], hmap => simp at hmap
      | [_], hmap => simp at hmap
      | _ :: _ :: _ :: _, hmap => simp at hmap
      | [ka, kb], hmap =>
        simp only [List.map_cons, List.map_nil, List.cons.injEq, and_true] at hmap
        exact ⟨ka, kb, a, b, rfl, hmap.1, hmap.2, hσ.1, hσ.2⟩

/-- The keys occurring in a family. -/
def pgKeyOf (cs : List PGCons) (k : PGKey) : Prop := ∃ c ∈ cs, k ∈ c.args

/-- `m` is injective on the keys of `cs`: different keys are bound to different host nodes. -/
def pgInjOn (cs : List PGCons) (m : PGMap) : Prop :=
  ∀ k k' v, pgKeyOf cs k → pgKeyOf cs k' → alGet m k = some v → alGet m k' = some v → k = k'

theorem c10_injOn_of_injective (cs : List PGCons) (m : PGMap)
    (h : ∀ k k' v, alGet m k = some v → alGet m k' = some v → k = k') : pgInjOn cs m :=
  fun k k' v _ _ => h k k' v

/-- A binding whose values are pairwise different is injective. -/
theorem c10_injective_of_nodup (m : PGMap) (hnd : (m.map (·.2)).Nodup) :
    ∀ k k' v, alGet m k = some v → alGet m k' = some v → k = k' := by
  have hmem : ∀ (m : PGMap) k v, alGet m k = some v → (k, v) ∈ m := by
    intro m
    induction m with
    | nil => intro k v h; cases h
    | cons kv m ih =>
      intro k v h
      obtain ⟨k₀, v₀⟩ := kv
      simp only [alGet] at h
      split at h
      · next he => cases h; subst he; exact List.mem_cons_self ..
      · exact List.mem_cons_of_mem _ (ih k v h)
  have huniq : ∀ (m : PGMap), (m.map (·.2)).Nodup → ∀ k k' v, (k, v) ∈ m → (k', v) ∈ m →
      k = k' := by
    intro m
    induction m with
    | nil => intro _ k k' v h; cases h
    | cons kv m ih =>
      intro hnd k k' v h h'
      rw [List.map_cons, List.nodup_cons] at hnd
      rcases List.mem_cons.1 h with e | g
      · rcases List.mem_cons.1 h' with e' | g'
        · exact (Prod.mk.inj (e.trans e'.symm)).1
        · subst e
          exact (hnd.1 (List.mem_map.2 ⟨(k', v), g', rfl⟩)).elim
      · rcases List.mem_cons.1 h' with e' | g'
        · subst e'
          exact (hnd.1 (List.mem_map.2 ⟨(k, v), g, rfl⟩)).elim
        · exact ih hnd.2 k k' v g g'
  exact fun k k' v h h' => huniq m hnd k k' v (hmem m k v h) (hmem m k' v h')

/-- **The semantic core.** Two `isConnected` constraints of the family with the same left port and
the same left key that both hold on a host under a binding injective on the family's keys are
equal: `port_link` is a function, so they have the same right end. -/
theorem c10_connected_mutex_unique (cs : List PGCons) (g : PortGraph) (m : PGMap)
    (hinj : pgInjOn cs m) {c₁ c₂ : PGCons} {l r₁ r₂ : POff} (h₁ : c₁ ∈ cs) (h₂ : c₂ ∈ cs)
    (hp₁ : c₁.pred = .isConnected l r₁) (hp₂ : c₂.pred = .isConnected l r₂)
    (hfst : fstArgEq c₁ c₂ = true)
    (hσ₁ : pgSigmaHost g m c₁ = true) (hσ₂ : pgSigmaHost g m c₂ = true) : c₁ = c₂ := by
  obtain ⟨ka, kb, a, b, hargs, ha, hb, -, hlink⟩ := c10_sigmaHost_connected hp₁ hσ₁
  obtain ⟨ka', kb', a', b', hargs', ha', hb', -, hlink'⟩ := c10_sigmaHost_connected hp₂ hσ₂
  have hk : ka = ka' := by
    unfold fstArgEq at hfst
    rw [hargs, hargs'] at hfst
    simpa using hfst
  subst hk
  have ha2 : a = a' := Option.some.inj (ha.symm.trans ha')
  subst ha2
  have hbr : (b, r₁) = (b', r₂) := Option.some.inj (hlink.symm.trans hlink')
  obtain ⟨hb2, hr⟩ := Prod.mk.inj hbr
  subst hb2 hr
  have hkb : kb = kb' :=
    hinj kb kb' b ⟨c₁, h₁, by rw [hargs]; simp⟩ ⟨c₂, h₂, by rw [hargs']; simp⟩ hb hb'
  subst hkb
  obtain ⟨p₁, args₁⟩ := c₁
  obtain ⟨p₂, args₂⟩ := c₂
  simp only at hp₁ hp₂ hargs hargs'
  rw [hp₁, hp₂, hargs, hargs']

/-! ## 2. The two readings agree on `isConnected`-headed families -/

/-- The constraints `pgTree` can put on a child of the root when the smallest constraint is
`first`: members of the family that are `first` or mutually exclusive with it. -/
def pgDetChild (cs : List PGCons) (first c : PGCons) : Prop :=
  c ∈ cs ∧ (c = first ∨ pgMutex first c = true)

/-- Shape of `pgTree` on an `isConnected`-headed family: a depth-one tree whose children carry
pairwise different constraints, each a member of the family with the left port and left key of the
smallest constraint. -/
theorem c10_pgTree_depthOne {cs : List PGCons} {fuel : Nat} {t : CTree PGCons}
    (h : pgTree cs fuel = some t) {x : PGCons × Nat} {xs : List (PGCons × Nat)}
    (hs : sortWithIndices pgConsLe cs = x :: xs) (hne : x.1.isNE = false) :
    DepthOne (pgDetChild cs x.1) t := by
  rcases pgTree_cons_cases (fuel := fuel) hs with ⟨hne', -⟩ | ⟨-, ht⟩
  · rw [hne] at hne'; cases hne'
  · rw [ht] at h
    cases h
    obtain ⟨first, fi⟩ := x
    have hmemcs : ∀ ci ∈ (first, fi) :: xs, ci.1 ∈ cs := by
      intro ci hci
      rw [← hs] at hci
      exact List.mem_of_getElem? ((mem_sortWithIndices pgConsLe cs ci.1 ci.2).1 hci)
    refine DepthOne.setMakeDet (DepthOne.setMakeDet (DepthOne_withChildren _ ?_) true) true
    intro ch hch
    rcases List.mem_cons.1 hch with rfl | hch
    · exact ⟨hmemcs _ (List.mem_cons_self ..), Or.inl rfl⟩
    · obtain ⟨ci, hci, rfl⟩ := List.mem_map.1 hch
      have hf := List.mem_filter.1 hci
      exact ⟨hmemcs ci (List.mem_cons_of_mem _ hf.1), Or.inr hf.2⟩

/-- A possible child constraint is `isConnected` at the smallest constraint's left port and left
key. -/
theorem c10_pgDetChild_connected {cs : List PGCons} {first c : PGCons} {l r : POff}
    (hp : first.pred = .isConnected l r) (hc : pgDetChild cs first c) :
    c ∈ cs ∧ (∃ r', c.pred = .isConnected l r') ∧ fstArgEq first c = true := by
  refine ⟨hc.1, ?_⟩
  rcases hc.2 with rfl | hm
  · exact ⟨⟨r, hp⟩, by simp [fstArgEq]⟩
  · unfold pgMutex at hm
    rw [hp] at hm
    cases hcp : c.pred with
    | hasNodeWeight => rw [hcp] at hm; cases hm
    | isNotEqual n => rw [hcp] at hm; cases hm
    | isConnected l' r' =>
      rw [hcp] at hm
      simp only [Bool.and_eq_true, beq_iff_eq] at hm
      exact ⟨⟨r', by rw [hm.1]⟩, hm.2⟩

/-- **Main theorem.** Let the smallest constraint of `cs` be `isConnected`, `pgTree cs fuel = some t`
and `m` injective on the keys of `cs`. Under `σ = pgSigmaHost g m`, for every host `g`: at most one
child of the root is satisfied; the documented `make_det` reading reaches exactly the nodes the
literal reading reaches; hence the same labels; hence the two checkers agree. -/
theorem tpg_tree_det_agrees (cs : List PGCons) (fuel : Nat) (t : CTree PGCons)
    (h : pgTree cs fuel = some t)
    (hhead : ∀ x xs, sortWithIndices pgConsLe cs = x :: xs → ∃ l r, x.1.pred = .isConnected l r)
    (g : PortGraph) (m : PGMap) (hinj : pgInjOn cs m) :
    ((t.childrenAt 0).filter (fun ch => pgSigmaHost g m ch.1)).length ≤ 1 ∧
    t.reachFromDet (pgSigmaHost g m) = t.reachFrom (pgSigmaHost g m) t.nodes.length 0 ∧
    (∀ i, t.reachLabelDet (pgSigmaHost g m) i = t.reachLabel (pgSigmaHost g m) i) ∧
    t.detFaithfulAt cs (pgSigmaHost g m) = t.faithfulAt cs (pgSigmaHost g m) := by
  have key : ((t.childrenAt 0).filter (fun ch => pgSigmaHost g m ch.1)).length ≤ 1 ∧
      t.reachFromDet (pgSigmaHost g m) = t.reachFrom (pgSigmaHost g m) t.nodes.length 0 := by
    cases hs : sortWithIndices pgConsLe cs with
    | nil =>
      have : cs = [] := Classical.byContradiction fun hne => sortWithIndices_ne_nil _ hne hs
      subst this
      cases h
      exact (DepthOne_new (fun _ => False)).det_agrees _ (fun _ _ hf => hf.elim)
    | cons x xs =>
      obtain ⟨l, r, hp⟩ := hhead x xs hs
      have hne : x.1.isNE = false :=
        (PGCons.isNE_false_iff x.1).2 (fun n hn => by rw [hp] at hn; cases hn)
      refine (c10_pgTree_depthOne h hs hne).det_agrees _ ?_
      intro c₁ c₂ hc₁ hc₂ hσ₁ hσ₂
      obtain ⟨hm₁, ⟨r₁, hp₁⟩, hf₁⟩ := c10_pgDetChild_connected hp hc₁
      obtain ⟨hm₂, ⟨r₂, hp₂⟩, hf₂⟩ := c10_pgDetChild_connected hp hc₂
      refine c10_connected_mutex_unique cs g m hinj hm₁ hm₂ hp₁ hp₂ ?_ hσ₁ hσ₂
      unfold fstArgEq at hf₁ hf₂ ⊢
      rw [beq_iff_eq] at hf₁ hf₂ ⊢
      exact hf₁.symm.trans hf₂
  have hlab := reachLabelDet_eq_of_reachFromDet_eq t _ key.2
  exact ⟨key.1, key.2, hlab, detFaithfulAt_eq_of_reachLabelDet_eq t cs _ hlab⟩

/-- The same for a binding that is injective outright (different keys ↦ different nodes). -/
theorem tpg_tree_det_agrees_injective (cs : List PGCons) (fuel : Nat) (t : CTree PGCons)
    (h : pgTree cs fuel = some t)
    (hhead : ∀ x xs, sortWithIndices pgConsLe cs = x :: xs → ∃ l r, x.1.pred = .isConnected l r)
    (g : PortGraph) (m : PGMap)
    (hinj : ∀ k k' v, alGet m k = some v → alGet m k' = some v → k = k') :
    ((t.childrenAt 0).filter (fun ch => pgSigmaHost g m ch.1)).length ≤ 1 ∧
    t.reachFromDet (pgSigmaHost g m) = t.reachFrom (pgSigmaHost g m) t.nodes.length 0 ∧
    (∀ i, t.reachLabelDet (pgSigmaHost g m) i = t.reachLabel (pgSigmaHost g m) i) ∧
    t.detFaithfulAt cs (pgSigmaHost g m) = t.faithfulAt cs (pgSigmaHost g m) :=
  tpg_tree_det_agrees cs fuel t h hhead g m (c10_injOn_of_injective cs m hinj)

/-! ## 3. Faithfulness under the documented reading -/

/-- **Corollary.** For an `isConnected`-headed family the tree is faithful under the documented
`make_det` reading, for every host graph and every binding injective on the family's keys: a label
is reached (entering only the first satisfied child of the root) exactly when its constraint
holds; and the checker `detFaithfulAt` accepts. (`tpg_tree_faithful_mutex` needs no side condition
in this branch.) -/
theorem tpg_tree_det_faithful (cs : List PGCons) (fuel : Nat) (t : CTree PGCons)
    (h : pgTree cs fuel = some t)
    (hhead : ∀ x xs, sortWithIndices pgConsLe cs = x :: xs → ∃ l r, x.1.pred = .isConnected l r)
    (g : PortGraph) (m : PGMap) (hinj : pgInjOn cs m) :
    (∀ i ∈ t.allLabels, ∀ c, cs[i]? = some c →
      (t.reachLabelDet (pgSigmaHost g m) i = true ↔ pgSigmaHost g m c = true)) ∧
    t.detFaithfulAt cs (pgSigmaHost g m) = true := by
  obtain ⟨-, -, hlab, hchk⟩ := tpg_tree_det_agrees cs fuel t h hhead g m hinj
  have hhead' : ∀ x xs, sortWithIndices pgConsLe cs = x :: xs → ∀ n, x.1.pred ≠ .isNotEqual n := by
    intro x xs hs n hn
    obtain ⟨l, r, hp⟩ := hhead x xs hs
    rw [hp] at hn; cases hn
  have hlit := tpg_tree_faithful_mutex cs fuel t h hhead' (pgSigmaHost g m)
  refine ⟨fun i hi c hc => ?_, ?_⟩
  · rw [hlab i]; exact hlit i hi c hc
  · rw [hchk]
    exact faithfulAt_of_clauses t cs _ (tpg_tree_valid cs fuel t h) hlit

/-- The same for a binding that is injective outright. -/
theorem tpg_tree_det_faithful_injective (cs : List PGCons) (fuel : Nat) (t : CTree PGCons)
    (h : pgTree cs fuel = some t)
    (hhead : ∀ x xs, sortWithIndices pgConsLe cs = x :: xs → ∃ l r, x.1.pred = .isConnected l r)
    (g : PortGraph) (m : PGMap)
    (hinj : ∀ k k' v, alGet m k = some v → alGet m k' = some v → k = k') :
    ∀ i ∈ t.allLabels, ∀ c, cs[i]? = some c →
      (t.reachLabelDet (pgSigmaHost g m) i = true ↔ pgSigmaHost g m c = true) :=
  (tpg_tree_det_faithful cs fuel t h hhead g m (c10_injOn_of_injective cs m hinj)).1

/-! ## 4. Counterexamples -/

namespace C10DetEx
def o0 : POff := ⟨.out, 0⟩
def o2 : POff := ⟨.out, 2⟩
def i0 : POff := ⟨.inc, 0⟩
def i1 : POff := ⟨.inc, 1⟩
def k0 : PGKey := .root 0
def k1 : PGKey := .along 0 o0 1
def k2 : PGKey := .along 0 o0 2
def k3 : PGKey := .along 0 o0 3

/-- `A = k0.out0 → k1.in0`. -/
def cA : PGCons := ⟨.isConnected o0 i0, [k0, k1]⟩
/-- `A' = k0.out0 → k2.in0`: the same ports as `A`, another right key. -/
def cA' : PGCons := ⟨.isConnected o0 i0, [k0, k2]⟩
/-- `B = k0.out0 → k2.in1`: shares `A`'s left end. -/
def cB : PGCons := ⟨.isConnected o0 i1, [k0, k2]⟩
/-- `C = k3.out2 → k1.in0`: shares only `A`'s RIGHT end. -/
def cC : PGCons := ⟨.isConnected o2 i0, [k3, k1]⟩

/-- Host: one link `0.out0 → 1.in0`. -/
def gOne : PortGraph := ⟨[some ⟨0, 1⟩, some ⟨1, 0⟩], [((0, o0), (1, i0))]⟩
/-- A NON-injective binding: `k1` and `k2` are both bound to host node 1. -/
def mMerge : PGMap := [(k0, 0), (k1, 1), (k2, 1)]

/-- Host: links `0.out0 → 2.in1` and `3.out2 → 1.in0` (and nothing at `1.in0` from node 0). -/
def gTwo : PortGraph :=
  ⟨[some ⟨0, 1⟩, some ⟨1, 0⟩, some ⟨2, 0⟩, some ⟨0, 3⟩], [((0, o0), (2, i1)), ((3, o2), (1, i0))]⟩
/-- An injective binding. -/
def mId : PGMap := [(k0, 0), (k1, 1), (k2, 2), (k3, 3)]

/-- The tree a WRONG mutex rule ("shares an end with the first constraint") would build for
`[A, B, C]`: three children under a `make_det` root. -/
def tMutant : CTree PGCons :=
  { CTree.withChildren [(cA, [0]), (cB, [1]), (cC, [2])] with makeDet := true }

/-- A wrong mutex rule: two `isConnected` constraints that share SOME key (either end). -/
def mutexWrong (a b : PGCons) : Bool :=
  match a.pred, b.pred with
  | .isConnected .., .isConnected .. => a.args.any fun k => b.args.contains k
  | _, _ => false
end C10DetEx

open C10DetEx

/-- **Injectivity is necessary.** For `[k0.out0 → k1.in0, k0.out0 → k2.in0]`, the host
`0.out0 → 1.in0` and the binding `k1, k2 ↦ 1`, both children of the root hold: the literal reading
is faithful, the documented one is not (the second child is never entered although its constraint
holds). -/
theorem c10_det_injectivity_needed :
    (sortWithIndices pgConsLe [cA, cA']).map (·.2) = [0, 1] ∧
    (pgTree [cA, cA'] 0).map (fun t =>
      (t.makeDet, (t.childrenAt 0).map (·.1),
       ((t.childrenAt 0).filter (fun ch => pgSigmaHost gOne mMerge ch.1)).length,
       t.faithfulAt [cA, cA'] (pgSigmaHost gOne mMerge),
       t.detFaithfulAt [cA, cA'] (pgSigmaHost gOne mMerge))) =
      some (true, [cA, cA'], 2, true, false) ∧
    (pgTree [cA, cA'] 0).map (fun t =>
      (t.reachLabel (pgSigmaHost gOne mMerge) 1, t.reachLabelDet (pgSigmaHost gOne mMerge) 1,
       pgSigmaHost gOne mMerge cA')) = some (true, false, true) ∧
    ¬ pgInjOn [cA, cA'] mMerge := by
  refine ⟨by decide, by decide, by decide, fun hinj => ?_⟩
  have := hinj k1 k2 1 ⟨cA, by decide, by decide⟩ ⟨cA', by decide, by decide⟩
    (by decide) (by decide)
  revert this
  decide

/-- **The documented reading sees a wrong mutex rule; the literal reading does not.** The
depth-one `make_det` tree on `[A, B, C]` — `B` shares `A`'s left end, `C` only its right end — is
faithful under the literal reading but NOT under the documented reading on the host
`0.out0 → 2.in1, 3.out2 → 1.in0` with the injective binding `ki ↦ i`: `A` fails, `B` and `C` hold,
and only `B` is entered. -/
theorem c10_det_mutant_unfaithful :
    tMutant.makeDet = true ∧ (tMutant.childrenAt 0).map (·.1) = [cA, cB, cC] ∧
    [cA, cB, cC].map (pgSigmaHost gTwo mId) = [false, true, true] ∧
    tMutant.faithfulAt [cA, cB, cC] (pgSigmaHost gTwo mId) = true ∧
    tMutant.detFaithfulAt [cA, cB, cC] (pgSigmaHost gTwo mId) = false ∧
    tMutant.reachLabelDet (pgSigmaHost gTwo mId) 2 = false ∧
    (∀ k k' v, alGet mId k = some v → alGet mId k' = some v → k = k') :=
  ⟨by decide, by decide, by decide, by decide, by decide, by decide,
    c10_injective_of_nodup mId (by decide)⟩

/-- `tMutant` is what `with_transitive_mutex` builds from the sorted family under the wrong rule
`mutexWrong`; under the rule of `pgTree` (`pgMutex`) the child `C` is dropped. -/
theorem c10_det_mutant_is_transitive_mutex :
    CTree.withTransitiveMutex (sortWithIndices pgConsLe [cA, cB, cC]) mutexWrong = tMutant ∧
    ((CTree.withTransitiveMutex (sortWithIndices pgConsLe [cA, cB, cC]) pgMutex).childrenAt 0).map
      (·.1) = [cA, cB] := by
  decide

/-- The tree `pgTree` really builds for `[A, B, C]` keeps `A` and `B` only (`C` does not share `A`'s
left end) and is accepted by both checkers on the same host and binding. -/
theorem c10_det_pgTree_not_mutant :
    (pgTree [cA, cB, cC] 0).map (fun t =>
      (t.makeDet, (t.childrenAt 0).map (·.1), t.allLabels,
       t.faithfulAt [cA, cB, cC] (pgSigmaHost gTwo mId),
       t.detFaithfulAt [cA, cB, cC] (pgSigmaHost gTwo mId))) =
      some (true, [cA, cB], [0, 1], true, true) := by
  decide

/-! ## 5. Non-vacuity -/

/-- The hypotheses of `tpg_tree_det_agrees` / `tpg_tree_det_faithful` hold of the family
`[A, B, C]` (two children under the root) and the injective binding `mId`. -/
theorem c10_det_example_hyps :
    (∀ x xs, sortWithIndices pgConsLe [cA, cB, cC] = x :: xs →
      ∃ l r, x.1.pred = .isConnected l r) ∧
    pgInjOn [cA, cB, cC] mId := by
  refine ⟨fun x xs h => ?_, c10_injOn_of_injective _ _ (c10_injective_of_nodup mId (by decide))⟩
  have : sortWithIndices pgConsLe [cA, cB, cC] = [(cA, 0), (cB, 1), (cC, 2)] := by decide
  rw [this] at h
  cases h
  exact ⟨o0, i0, rfl⟩

/-- The theorems apply to it, for every host graph … -/
example (g : PortGraph) (t : CTree PGCons) (h : pgTree [cA, cB, cC] 0 = some t) :
    ((t.childrenAt 0).filter (fun ch => pgSigmaHost g mId ch.1)).length ≤ 1 ∧
    t.detFaithfulAt [cA, cB, cC] (pgSigmaHost g mId) = true :=
  ⟨(tpg_tree_det_agrees _ 0 t h c10_det_example_hyps.1 g mId c10_det_example_hyps.2).1,
   (tpg_tree_det_faithful _ 0 t h c10_det_example_hyps.1 g mId c10_det_example_hyps.2).2⟩

/-- … and on two hosts the conclusion is checked by evaluation: on `gTwo` exactly one of the two
children (`B`) holds and its label is reached under the documented reading; on `gOne` it is `A`. -/
example :
    (pgTree [cA, cB, cC] 0).map (fun t =>
      ((t.childrenAt 0).length,
       ((t.childrenAt 0).filter (fun ch => pgSigmaHost gTwo mId ch.1)).map (·.1),
       t.reachFromDet (pgSigmaHost gTwo mId) == t.reachFrom (pgSigmaHost gTwo mId) t.nodes.length 0,
       t.reachLabelDet (pgSigmaHost gTwo mId) 0, t.reachLabelDet (pgSigmaHost gTwo mId) 1)) =
      some (2, [cB], true, false, true) ∧
    (pgTree [cA, cB, cC] 0).map (fun t =>
      (((t.childrenAt 0).filter (fun ch => pgSigmaHost gOne mId ch.1)).map (·.1),
       t.reachLabelDet (pgSigmaHost gOne mId) 0, t.reachLabelDet (pgSigmaHost gOne mId) 1,
       t.detFaithfulAt [cA, cB, cC] (pgSigmaHost gOne mId))) =
      some ([cA], true, false, true) :=
  ⟨by decide, by decide⟩

/-- `pgSigmaHost` on single constraints: bound and linked, bound and not linked, unbound key,
wrong arity. -/
example :
    pgSigmaHost gOne mId cA = true ∧ pgSigmaHost gOne mId cB = false ∧
    pgSigmaHost gOne [(k0, 0)] cA = false ∧
    pgSigmaHost gOne mId ⟨.isConnected o0 i0, [k0]⟩ = false ∧
    isSatisfied alGet pgCheck cA gOne mId = .ok (some true) :=
  ⟨by decide, by decide, by decide, by decide, (c10_sigmaHost_iff _ _ _).1 (by decide)⟩

section AxiomAudit
#print axioms c10_sigmaHost_iff
#print axioms c10_sigmaHost_connected
#print axioms c10_injOn_of_injective
#print axioms c10_injective_of_nodup
#print axioms c10_connected_mutex_unique
#print axioms c10_pgTree_depthOne
#print axioms c10_pgDetChild_connected
#print axioms tpg_tree_det_agrees
#print axioms tpg_tree_det_agrees_injective
#print axioms tpg_tree_det_faithful
#print axioms tpg_tree_det_faithful_injective
#print axioms c10_det_injectivity_needed
#print axioms c10_det_mutant_unfaithful
#print axioms c10_det_mutant_is_transitive_mutex
#print axioms c10_det_pgTree_not_mutant
#print axioms c10_det_example_hyps
end AxiomAudit

end Pm
