/-
Props/TRun.lean — the traversal (`run`) and the baseline matcher (`singleMatches`,
`naiveMatches`) of `Model/Traversal.lean`, for an arbitrary domain `D`, automaton `a`, host `h`.

Traversal. A successful `run` is described by the list `exp` of *expanded configurations*
`(state, binding)`: the visit log is their `(state, projection)` keys, duplicate-free; the
reported matches are the concatenation of what each expanded configuration emits; every expanded
configuration is reachable (`Spec.Reach`); the visit log contains the root and is closed under
`nextLegalStates` from every expanded configuration (`trun_expanded`, `trun_sound`,
`trun_closed`); `Reach` is the closure of the root under `nextLegalStates`
(`mem_nextLegalStates`); more fuel never changes a successful result (`trun_fuel_mono`).

Baseline. `singleMatches` is the level-by-level fold `Spec.singleLevels` followed by
`retain`/"all requested keys bound" (`tsingle_eq`); the survivors of the fold satisfy every
constraint (`tsingle_sound`) and are exactly the bindings described by the derivations
`SingleDeriv` (`tsingle_complete`, `tsingle_exact`); `naiveMatches` labels the matches of the
`k`-th pattern with `i + k` (`tnaive_ids`).

Only property theorems and non-vacuity examples live here; definitions used in the statements
(`Forall2`, `SingleDeriv`) and all proofs are in `Proofs/RunLemmas`.
-/
import PmVerif.Proofs.RunLemmas
namespace Pm

/-! ### Traversal -/

section Step
variable {K V P H M : Type} {D : Domain K V P H M} {a : Automaton K P} {h : H}

/-- Membership in the result of `emitMatches`: `(pid, mm)` is emitted at binding `m` iff `pid`
accepts with some key list `keys`, and `mm` is `retain keys` of one of the results `m₁` of binding
the missing keys of `keys` completely. (When nothing is missing the model takes `[m]` directly;
that is what `bindAll` over the empty key list returns — `trun_nothing_missing`.) -/
theorem mem_emitMatches {m : M} {pats : List (Nat × List K)} {out : List (Match M)}
    (he : emitMatches D h m pats = .ok out) (pid : Nat) (mm : M) :
    (pid, mm) ∈ out ↔ ∃ keys, (pid, keys) ∈ pats ∧
      ∃ m₁ ∈ bindAll D.map D.opts h m (keys.filter fun k => (D.map.get m k).isNone) false,
        D.map.retain m₁ keys = some mm :=
  mem_emitMatches_aux he pid mm

theorem trun_nothing_missing (m : M) (inc : Bool) : bindAll D.map D.opts h m [] inc = [m] := rfl

/-- Membership in the result of `nextLegalStates`, matching exactly the `con` and `eps`
constructors of `Reach`: the successors of `(s, m)` are the `(e.dst, m')` with `m'` a step
candidate and either `e` a constraint transition whose constraint is `true` on `m'`, or `e` the
fallback transition and the state non-deterministic or no constraint transition `true` on `m'`. -/
theorem mem_nextLegalStates {s : Nat} {m : M} {nexts : List (Nat × M)}
    (hn : nextLegalStates D a h s m = .ok nexts) (s' : Nat) (m' : M) :
    (s', m') ∈ nexts ↔ ∃ w cands, a.g.weight? s = some w ∧ stepCands D h w m = .ok cands ∧
      m' ∈ cands ∧
      ((∃ t e c, t ∈ w.corder ∧ a.g.edge? t = some e ∧ e.w = some c ∧
          satOrFalse D.map.get D.check c h m' = some true ∧ e.dst = s') ∨
       (∃ t e, t ∈ w.eorder ∧ a.g.edge? t = some e ∧
          (w.det = false ∨ ∀ t' ∈ w.corder, ∀ e' c', a.g.edge? t' = some e' → e'.w = some c' →
            satOrFalse D.map.get D.check c' h m' ≠ some true) ∧ e.dst = s')) :=
  mem_nextLegalStates_aux hn s' m'

/-- `Reach` is closed under `nextLegalStates` (and by `mem_nextLegalStates` every `con`/`eps`
step of `Reach` is such a step whenever `nextLegalStates` succeeds). -/
theorem trun_reach_step {s : Nat} {m : M} {nexts : List (Nat × M)} (hr : Reach D a h s m)
    (hn : nextLegalStates D a h s m = .ok nexts) {sm' : Nat × M} (hm : sm' ∈ nexts) :
    Reach D a h sm'.1 sm'.2 :=
  reach_next hr hn hm

/-- … and it is the least such set: any set of configurations that contains the root and is
closed under (successful) `nextLegalStates` contains every reachable configuration. -/
theorem trun_reach_least (C : Nat → M → Prop) (hroot : C a.root D.map.empty)
    (hstep : ∀ s m, C s m → ∃ nexts, nextLegalStates D a h s m = .ok nexts ∧
      ∀ sm' ∈ nexts, C sm'.1 sm'.2) :
    ∀ s m, Reach D a h s m → C s m := by
  intro s m hr
  induction hr with
  | root => exact hroot
  | con _ hw hc hm' ht he hcw hsat ih =>
    obtain ⟨nexts, hn, hcl⟩ := hstep _ _ ih
    exact hcl (_, _) ((mem_nextLegalStates hn _ _).mpr
      ⟨_, _, hw, hc, hm', .inl ⟨_, _, _, ht, he, hcw, hsat, rfl⟩⟩)
  | eps _ hw hc hm' ht he hd ih =>
    obtain ⟨nexts, hn, hcl⟩ := hstep _ _ ih
    exact hcl (_, _) ((mem_nextLegalStates hn _ _).mpr
      ⟨_, _, hw, hc, hm', .inr ⟨_, _, ht, he, hd, rfl⟩⟩)

end Step

section Traversal
variable {K V P H M : Type} [DecidableEq K] [DecidableEq V]
  {D : Domain K V P H M} {a : Automaton K P} {h : H}

/-- **Expanded configurations.** A successful run expands a list `exp` of configurations such
that (a) the visit log is, entry by entry, `(s, visitKey D w m)` with `w` the weight of `s`;
(b) no `(state, projection)` is expanded twice; (c) the output is the concatenation, in order, of
the (successful) `emitMatches` results of the expanded configurations; (d) every expanded
configuration is reachable. -/
theorem trun_expanded {fuel : Nat} {ms : List (Match M)} {seen : List (Nat × List (Option V))}
    (hr : run D a h fuel = .ok (ms, seen)) :
    ∃ exp : List (Nat × M),
      Forall2 (fun sm key => ∃ w, a.g.weight? sm.1 = some w ∧ key = (sm.1, visitKey D w sm.2))
        exp seen ∧
      seen.Nodup ∧
      (∃ ems, Forall2 (fun sm em => ∃ w, a.g.weight? sm.1 = some w ∧
          emitMatches D h sm.2 w.matches_ = .ok em) exp ems ∧ ms = ems.flatten) ∧
      ∀ sm ∈ exp, Reach D a h sm.1 sm.2 := by
  obtain ⟨exp, h1, h2, h3, h4, _, _⟩ := run_trace hr
  exact ⟨exp, h1, h2, h3, h4⟩

/-- **Soundness.** Every reported match comes from a reachable configuration `(s, m)` whose
state accepts the pattern with key list `keys`; its binding is `retain keys` of a complete
binding `m₁` of the missing keys of `keys` over `m`. -/
theorem trun_sound {fuel : Nat} {ms : List (Match M)} {seen : List (Nat × List (Option V))}
    (hr : run D a h fuel = .ok (ms, seen)) (pid : Nat) (mm : M) (hm : (pid, mm) ∈ ms) :
    ∃ s m w keys, Reach D a h s m ∧ a.g.weight? s = some w ∧ (pid, keys) ∈ w.matches_ ∧
      ∃ m₁ ∈ bindAll D.map D.opts h m (keys.filter fun k => (D.map.get m k).isNone) false,
        D.map.retain m₁ keys = some mm := by
  obtain ⟨exp, _, _, ⟨ems, hf, rfl⟩, hreach⟩ := trun_expanded hr
  obtain ⟨sm, hsm, em, ⟨w, hw, hem⟩, hmem⟩ := hf.mem_flatten hm
  obtain ⟨keys, hk, hrest⟩ := (mem_emitMatches hem pid mm).mp hmem
  exact ⟨sm.1, sm.2, w, keys, hreach sm hsm, hw, hk, hrest⟩

/-- **Breadth-first closure.** The key of the root configuration is in the visit log, and for
the same list `exp` of expanded configurations as in `trun_expanded`: from every expanded
configuration `nextLegalStates` succeeded and the key of each of its successors is in the visit
log. -/
theorem trun_closed {fuel : Nat} {ms : List (Match M)} {seen : List (Nat × List (Option V))}
    (hr : run D a h fuel = .ok (ms, seen)) :
    (∃ w, a.g.weight? a.root = some w ∧ (a.root, visitKey D w D.map.empty) ∈ seen) ∧
    ∃ exp : List (Nat × M),
      Forall2 (fun sm key => ∃ w, a.g.weight? sm.1 = some w ∧ key = (sm.1, visitKey D w sm.2))
        exp seen ∧
      (∃ ems, Forall2 (fun sm em => ∃ w, a.g.weight? sm.1 = some w ∧
          emitMatches D h sm.2 w.matches_ = .ok em) exp ems ∧ ms = ems.flatten) ∧
      (∀ sm ∈ exp, Reach D a h sm.1 sm.2) ∧
      ∀ sm ∈ exp, ∃ nexts, nextLegalStates D a h sm.1 sm.2 = .ok nexts ∧
        ∀ sm' ∈ nexts, ∃ w', a.g.weight? sm'.1 = some w' ∧
          (sm'.1, visitKey D w' sm'.2) ∈ seen := by
  obtain ⟨exp, h1, _, h3, h4, h5, h6⟩ := run_trace hr
  exact ⟨h5, exp, h1, h3, h4, h6⟩

/-- More fuel does not change a successful result. -/
theorem trun_fuel_mono {fuel fuel' : Nat} {r : List (Match M) × List (Nat × List (Option V))}
    (hr : run D a h fuel = .ok r) (hle : fuel ≤ fuel') : run D a h fuel' = .ok r :=
  runLoop_fuel_mono fuel fuel' _ _ _ r hr hle

end Traversal

/-! ### Baseline -/

section Baseline
variable {K V P H M : Type} [DecidableEq K] {D : Domain K V P H M} {h : H}

/-- **The baseline is the level-by-level fold.** Every `allMissingBindings` call the loop makes
returns `some` (a constraint is reached iff the fold over the constraints before it is
non-empty — so the `getD []` of `singleLevels` is never used on a reached level), every
`retain` of a survivor succeeds, and the output is, in order, the retained survivors in which
every requested key is bound. -/
theorem tsingle_eq {cs : List (Constraint K P)} {fuel : Nat} {out : List M} {requested : List K}
    (hs : singleMatches D cs h fuel = .ok out)
    (hq : requestedBindings D cs fuel = some requested) :
    (∀ pre c post, cs = pre ++ c :: post → singleLevels D h fuel pre [D.map.empty] ≠ [] →
      ∃ keys, allMissingBindings D.req c.args [] fuel = some keys) ∧
    ∃ rs : List M,
      (singleLevels D h fuel cs [D.map.empty]).map (fun m => D.map.retain m requested)
        = rs.map some ∧
      out = rs.filter fun m' => requested.all fun k => (D.map.get m' k).isSome := by
  unfold singleMatches at hs
  rw [hq] at hs
  obtain ⟨h1, rs, h2, h3⟩ := singleLoop_levels cs [D.map.empty] fuel [] out hs
  exact ⟨h1, rs, h2, by simpa using h3⟩

omit [DecidableEq K] in
/-- A constraint that evaluates to `true` still does after the binding is extended. -/
theorem satOrFalse_mono (c : Constraint K P) (m m' : M)
    (hext : ∀ k v, D.map.get m k = some v → D.map.get m' k = some v)
    (hs : satOrFalse D.map.get D.check c h m = some true) :
    satOrFalse D.map.get D.check c h m' = some true :=
  satOrFalse_mono_aux _ _ c h m m' hext hs

/-- **Soundness of the fold.** With a map whose successful `bind` keeps existing bindings, every
survivor satisfies every constraint of the pattern. -/
theorem tsingle_sound
    (keeps : ∀ m k v m', D.map.bind m k v = .ok m' →
      ∀ k' v', D.map.get m k' = some v' → D.map.get m' k' = some v')
    (cs : List (Constraint K P)) (fuel : Nat) (m : M)
    (hm : m ∈ singleLevels D h fuel cs [D.map.empty]) :
    ∀ c ∈ cs, satOrFalse D.map.get D.check c h m = some true := by
  obtain ⟨_, _, _, hsat⟩ := singleLevels_sound keeps cs _ m hm
  exact hsat

/-- **Completeness of the fold.** A binding obtained from the empty one by extending, constraint
by constraint, over the constraint's missing keys (`Ext … false`) such that each constraint is
`true` right after its own extension, survives. -/
theorem tsingle_complete {cs : List (Constraint K P)} {fuel : Nat} {m : M}
    (hd : SingleDeriv D h fuel cs D.map.empty m) : m ∈ singleLevels D h fuel cs [D.map.empty] :=
  singleLevels_of_deriv hd _ List.mem_cons_self

/-- **Exactness**, whenever the baseline succeeds: the survivors are exactly the derivable
bindings. -/
theorem tsingle_exact {cs : List (Constraint K P)} {fuel : Nat} {out : List M}
    (hs : singleMatches D cs h fuel = .ok out) (m : M) :
    m ∈ singleLevels D h fuel cs [D.map.empty] ↔ SingleDeriv D h fuel cs D.map.empty m := by
  constructor
  · intro hm
    have hq : ∃ requested, requestedBindings D cs fuel = some requested := by
      unfold singleMatches at hs
      cases hq : requestedBindings D cs fuel with
      | none => rw [hq] at hs; cases hs
      | some r => exact ⟨r, rfl⟩
    obtain ⟨requested, hq⟩ := hq
    obtain ⟨m₀, hm₀, hd⟩ := deriv_of_singleLevels cs _ m (tsingle_eq hs hq).1 hm
    rw [List.mem_singleton] at hm₀
    subst hm₀
    exact hd
  · exact tsingle_complete

/-- Exactness under the plain hypothesis that the missing keys of every constraint can be
computed with the given fuel. -/
theorem tsingle_exact_of_missing {cs : List (Constraint K P)} {fuel : Nat}
    (hall : ∀ c ∈ cs, ∃ keys, allMissingBindings D.req c.args [] fuel = some keys) (m : M) :
    m ∈ singleLevels D h fuel cs [D.map.empty] ↔ SingleDeriv D h fuel cs D.map.empty m := by
  constructor
  · intro hm
    obtain ⟨m₀, hm₀, hd⟩ := deriv_of_singleLevels cs _ m
      (fun pre c post he _ => hall c (by rw [he]; simp)) hm
    rw [List.mem_singleton] at hm₀
    subst hm₀
    exact hd
  · exact tsingle_complete

/-- The reported bindings of the baseline, as a membership characterisation. -/
theorem tsingle_mem {cs : List (Constraint K P)} {fuel : Nat} {out : List M} {requested : List K}
    (hs : singleMatches D cs h fuel = .ok out)
    (hq : requestedBindings D cs fuel = some requested) (m' : M) :
    m' ∈ out ↔ (∃ m, SingleDeriv D h fuel cs D.map.empty m ∧ D.map.retain m requested = some m') ∧
      ∀ k ∈ requested, (D.map.get m' k).isSome := by
  obtain ⟨_, rs, h1, rfl⟩ := tsingle_eq hs hq
  have hrs : m' ∈ rs ↔ ∃ m ∈ singleLevels D h fuel cs [D.map.empty],
      D.map.retain m requested = some m' := by
    constructor
    · intro hm
      have : some m' ∈ rs.map some := List.mem_map.mpr ⟨m', hm, rfl⟩
      rw [← h1] at this
      exact List.mem_map.mp this
    · rintro ⟨m, hm, hr⟩
      have : some m' ∈ (singleLevels D h fuel cs [D.map.empty]).map
          (fun m => D.map.retain m requested) := List.mem_map.mpr ⟨m, hm, hr⟩
      rw [h1] at this
      obtain ⟨x, hx, he⟩ := List.mem_map.mp this
      cases he; exact hx
  rw [List.mem_filter, hrs, List.all_eq_true]
  constructor
  · rintro ⟨⟨m, hm, hr⟩, hb⟩
    exact ⟨⟨m, (tsingle_exact hs m).mp hm, hr⟩, hb⟩
  · rintro ⟨⟨m, hd, hr⟩, hb⟩
    exact ⟨⟨m, tsingle_complete hd, hr⟩, hb⟩

/-- **Ids of the naive many-pattern matcher** are positions in the input (duplicates
included): a reported `(j, m)` is a match of the pattern at position `j - i`, and every match of
the pattern at position `k` is reported with id `i + k` (the baseline succeeded on every
pattern). -/
theorem tnaive_ids {fuel : Nat} {css : List (List (Constraint K P))} {i : Nat}
    {ms : List (Match M)} (hn : naiveMatches D h fuel css i = .ok ms) :
    (∀ j m, (j, m) ∈ ms → ∃ cs, css[j - i]? = some cs ∧ i ≤ j ∧
      ∃ out, singleMatches D cs h fuel = .ok out ∧ m ∈ out) ∧
    (∀ k cs, css[k]? = some cs → ∃ out, singleMatches D cs h fuel = .ok out ∧
      ∀ m ∈ out, (i + k, m) ∈ ms) := by
  constructor
  · intro j m hm
    obtain ⟨k, cs, out, rfl, hk, hs, hmo⟩ := (mem_naiveMatches css i ms hn j m).mp hm
    exact ⟨cs, by simpa using hk, by omega, out, hs, hmo⟩
  · intro k cs hk
    obtain ⟨out, hs⟩ := naiveMatches_all_ok css i ms hn cs (List.mem_of_getElem? hk)
    exact ⟨out, hs, fun m hm => (mem_naiveMatches css i ms hn _ m).mpr ⟨k, cs, out, rfl, hk, hs, hm⟩⟩

end Baseline

/-! ### Non-vacuity -/

/-- The table domain over the scheme `s`. -/
def tDomain (s : TScheme) : Domain Nat Nat TPred THost TMap :=
  { req := s.req, opts := THost.opts s, map := tMap, arity := TPred.arity, check := TPred.check }

/-- Two states: the root (scope `[0]`) with one transition `const 5 (0)` to an accepting state
for pattern 7 with key list `[0]`. -/
def exAutomaton : Automaton Nat TPred :=
  { g := { nodes := [some ⟨{ corder := [0], scope := [0] }, [0], []⟩,
                     some ⟨{ matches_ := [(7, [0])], scope := [0] }, [], [0]⟩],
           edges := [some ⟨0, 1, some ⟨.const 5, [0]⟩⟩], freeNodes := [], freeEdges := [] },
    root := 0 }

/-- The host offers 5 and 6 for key 0: one match, two expanded configurations. -/
example :
    run (tDomain [[]]) exAutomaton ⟨false, [[⟨none, [5, 6]⟩]]⟩ 10
      = .ok ([(7, [(0, 5)])], [(0, [none]), (1, [some 5, some 5])]) := by rfl

example :
    singleMatches (tDomain [[]]) [⟨.const 5, [0]⟩] ⟨false, [[⟨none, [5, 6]⟩]]⟩ 10
      = .ok [[(0, 5)]] := by rfl

example :
    naiveMatches (tDomain [[]]) ⟨false, [[⟨none, [5, 6]⟩]]⟩ 10
      [[⟨.const 5, [0]⟩], [⟨.ne, [0, 0]⟩], [⟨.const 6, [0]⟩]] 3
      = .ok [(3, [(0, 5)]), (5, [(0, 6)])] := by rfl

end Pm
