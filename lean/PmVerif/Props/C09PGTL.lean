/-
Props/C09PGTL.lean — property C09 clause (c) ("every live state of a built automaton has at most one
epsilon (fallback) transition", `C08.EpsLe1`) for the replay of the Rust loop ITSELF
(`Automaton.buildTL`) over NON-FLAT decompositions — port graphs (`pgTree`: transitive-mutex trees
and NESTED powerset trees with conditioned constraints), tables — as far as it goes.

STATUS.  FINDING `c09_buildTL_oneEpsilon_nested_false`: clause (c) is FALSE for `buildTL` over the table
domain's nested powerset decomposition (a disciplined log ending with a two-fallback state, checked by
the kernel).  For `pgTree` the full statement `c09_buildTL_oneEpsilon_pg_target` is NOT proved here and
no counterexample to it was found.  The stronger statement `c09_pg_c1K_target` ("c1K — hence c1E — is a
theorem for `pgTree` logs", the analogue of `c09_buildTL_c1E_char`) is REFUTED EMPIRICALLY in the
model: the random search (below) produced a disciplined log (c1T, c1C, c4T; 5 patterns, 346 states,
82 merges; seed 153902 of scratch/C09PGSearch.lean, inputs and log in scratch/witness_153902.txt) that `buildTL` accepts and on which c1K FAILS at
two emissions — the final automaton still has at most one fallback per state.  The log is too
large for a kernel `rfl`, so it is recorded as evidence, not as a theorem.  Mechanism (as far as read off the
trace): a merge removes an emitted state, its id is recycled for a fresh state Z (never emitted: a
zombie) that sits under a still pending state p; a child c of Z is emitted and processed (gets its
fail state) because all its parents' ids are emitted; at the emission of p a fuse/split clone Z' of
Z is created with a fresh id, and at the emission of Z' its child c carries a fallback.  For flat
decompositions this cannot happen (`GE.INV`: everything below the children of a pending state is a
chain, and processing a chain state creates no fallback).  Whether the Rust `find_mergeable_nodes`
can produce such a merge set is not decided by the model.  Consequently route (B) CANNOT go through
"no child of an emitted state has a fallback" for `pgTree`; a proof of (A) needs a finer accounting
(at most one fallback in each fused group and below `make_det`), or (A) is false in the model.
What is proved, for EVERY decomposition `toTree`
(no flatness, no `TreeOK`), every scheme, ANY builder inputs, every fuel and every log:

* `c09_buildTLK_oneEpsilon` (`_edges`, `_epsLe1`) — clause (c) for `C09PG.buildTLK` = `buildTL` + the
  ONE decidable emission-time guard c1K (`GE.childEpsFree`): when a state is emitted no CURRENT CHILD
  of it has a fallback transition.  No c1D (deterministic children are allowed), no condition on
  the emitted state itself (it may carry an inherited fallback), no `make_det` guard: the loop is
  the lenient `makeDetL` code path.
* `c09_buildTLK_imp_buildTL` (c1K only rejects), `c09_buildTLE_imp_buildTLK`,
  `c09_buildTE_imp_buildTLK`: c1K is WEAKER than c1E (`buildTLE`) and than c1D + c1E + the
  `make_det` guard (`buildTE`) — every log inside `c09_buildTE_oneEpsilon` is inside, and logs on
  which c1D fails (0.1–0.2 % of real port-graph logs) are inside as long as c1K holds
  (`c09_PGTL_example_outside_TE`).
* `c09_buildTL_oneEpsilon_of_c1K_partial`, `c09_buildTL_oneEpsilon_pg_partial`,
  `c09_built_wf_TL_pg_partial` — in "per-log check" form: a `buildTL` result whose log passes the
  Boolean `c09_c1K_ok` has clause (c), hence (port graphs) the FULL `Automaton.WF`, `wfCheck = true`.
* `c09_buildTL_oneEpsilon_of_inv` — the invariant route (B) in abstract form: what
  `C09TL.buildTL_iff_buildTLE_of` really needs from the decomposition is an emission-time invariant
  `I a E` (`C09PG.EmitInv`: holds of the trie, kept by `iterationWith makeDetL toTree`, gives
  `ChildEF a s` at an admissible emission); any such `I` yields clause (c) AND c1K for `buildTL`
  itself.  `GE.INV` (+ `TreeKeeps`, `DetKeepsJ`) is one for flat decompositions
  (`c09_buildTL_c1K_flat`, `c09_buildTL_c1K_char`: there c1K is a theorem).
* `c09_buildTL_oneEpsilon_pg_target_of_c1K`, `c09_pg_c1K_target_of_inv` — the target follows from
  `c09_pg_c1K_target` (c1K is a theorem for `pgTree`), which follows from any `EmitInv` for `pgTree`.

WHAT IS MISSING for (A), precisely.  `GE.INV` does not work for nested trees: its third clause says
the GRANDCHILDREN of a pending state are raw trie chains, which `insert_constraint_tree` destroys —
the state `cm` created for an inner tree node is pending, its children are further tree states and
original children of `s` (label edges), and after the second `make_constraints_unique(s)` a fused
child absorbs `cm` together with labelled original children.  And by the witness above NO invariant
in the sense of `C09PG.EmitInv` exists for `pgTree` on model-admissible logs.  What one-epsilon
itself needs at the emission of `s` is weaker than c1K: (i) in every group fused at `s` (both passes)
at most one absorbed child carries a fallback, (ii) at `make_det(s)` the fail state and a constraint
child do not both carry one.  Neither a proof of (i)/(ii) for `pgTree` nor a log violating them is
known; a violation needs a pending clone of a zombie with TWO processed children under one
constraint (or a processed child below a processed fail state).
SEARCHED (verif/scratch/C09PGSearch.lean, run with `lake env lean --run`, not part of the build; it drives the model's own step functions and
re-checks every produced log with `buildTL`): random port-graph pattern lists (2–5 patterns of 2–5
nodes with 3 in / 3 out ports, independent or mutations of a common base), random admissible
emission order, random group order, random heuristic answers, up to 7 random admissible sibling
merges per iteration biased towards removing an EMITTED state so that its id is recycled.
≈ 110 000 logs before this file was written (more in REPORT.md): c1K failed on 1 log, no emitted
state carried a fallback at its own emission, no log ended with a two-epsilon state.  The same
driver on the table domain (`tTreeAll`, strategies 0–5) finds c1K violations at ≈ 1 log in 3 000
(known: c1E fails on real table-domain logs), none ending two-epsilon.
-/
import PmVerif.Proofs.C09PGTL
import PmVerif.Proofs.C09PGTLCex
import PmVerif.Props.C09TL
import PmVerif.Props.C01Gen
namespace Pm
open Automaton

/-! ### the target (A), kept visible -/

/-- **(A), open.** Clause (c) for every `pgTree` log of the Rust loop's replay. -/
def c09_buildTL_oneEpsilon_pg_target : Prop :=
  ∀ (fuelT fuel : Nat) (inputs : List (Nat × List PGCons × List PGKey)) (evs : List Ev)
    (A : Automaton PGKey PGPred),
    Automaton.buildTL (fun cs => pgTree cs fuelT) pgReq fuel inputs evs = .ok A →
    ∀ s w, A.g.weight? s = some w → w.eorder.length ≤ 1

/-- **Stronger; REFUTED EMPIRICALLY in the model** (file header: seed 153902; not a Lean theorem). c1K
is a theorem for `pgTree` logs of the Rust loop (as c1E is for `charTree` logs,
`c09_buildTL_c1E_char`). Kept because (A) follows from it and because it may still hold for the
merge sets the Rust code can produce. -/
def c09_pg_c1K_target : Prop :=
  ∀ (fuelT fuel : Nat) (inputs : List (Nat × List PGCons × List PGKey)) (evs : List Ev)
    (A : Automaton PGKey PGPred),
    Automaton.buildTL (fun cs => pgTree cs fuelT) pgReq fuel inputs evs = .ok A →
    C09PG.buildTLK (fun cs => pgTree cs fuelT) pgReq fuel inputs evs = .ok A

section Generic
variable {K P : Type} [DecidableEq K] [DecidableEq P]

/-! ### clause (c) under the single guard c1K, any decomposition -/

/-- **C09 clause (c) for the Rust loop's replay with the guard c1K** ("no current child of the
emitted state has a fallback transition"), for EVERY decomposition `toTree` — flat or nested, no
hypothesis —, every scheme, ANY inputs, every fuel, every log. -/
theorem c09_buildTLK_oneEpsilon
    (toTree : List (Constraint K P) → Option (CTree (Constraint K P))) (req : K → List K)
    (fuel : Nat) (patterns : List (Nat × List (Constraint K P) × List K)) (evs : List Ev)
    (A : Automaton K P) (h : C09PG.buildTLK toTree req fuel patterns evs = .ok A) :
    ∀ s w, A.g.weight? s = some w → w.eorder.length ≤ 1 := by
  obtain ⟨inv, E⟩ := C09PG.buildTLK_e1 h
  exact E.eorder inv

/-- The same over edges. -/
theorem c09_buildTLK_oneEpsilon_edges
    (toTree : List (Constraint K P) → Option (CTree (Constraint K P))) (req : K → List K)
    (fuel : Nat) (patterns : List (Nat × List (Constraint K P) × List K)) (evs : List Ev)
    (A : Automaton K P) (h : C09PG.buildTLK toTree req fuel patterns evs = .ok A) :
    ∀ t1 t2 e1 e2, A.g.edge? t1 = some e1 → A.g.edge? t2 = some e2 → e1.src = e2.src →
      e1.w = none → e2.w = none → t1 = t2 := fun t1 t2 e1 e2 h1 h2 hs hn1 hn2 =>
  (C09PG.buildTLK_e1 h).2 e2.src t1 t2 e1 e2 h1 h2 hs rfl hn1 hn2

/-- Clause (c) in the three forms used elsewhere. -/
theorem c09_buildTLK_epsLe1
    (toTree : List (Constraint K P) → Option (CTree (Constraint K P))) (req : K → List K)
    (fuel : Nat) (patterns : List (Nat × List (Constraint K P) × List K)) (evs : List Ev)
    (A : Automaton K P) (h : C09PG.buildTLK toTree req fuel patterns evs = .ok A) :
    C08.EpsLe1 A ∧ C08.epsLe1 A = true ∧ A.wfOneEpsilon = true :=
  have hc := c09_buildTLK_oneEpsilon toTree req fuel patterns evs A h
  ⟨hc, (c08_epsLe1_iff A).2 hc, c09_oneEpsilon_complete A hc⟩

/-- c1K only rejects: a `buildTLK` result is the `buildTL` result. -/
theorem c09_buildTLK_imp_buildTL
    (toTree : List (Constraint K P) → Option (CTree (Constraint K P))) (req : K → List K)
    (fuel : Nat) (patterns : List (Nat × List (Constraint K P) × List K)) (evs : List Ev)
    (A : Automaton K P) (h : C09PG.buildTLK toTree req fuel patterns evs = .ok A) :
    Automaton.buildTL toTree req fuel patterns evs = .ok A :=
  C09PG.buildTLK_imp_buildTL h

/-- c1K is weaker than c1E: every log `C09TL.buildTLE` accepts is accepted, same result. -/
theorem c09_buildTLE_imp_buildTLK
    (toTree : List (Constraint K P) → Option (CTree (Constraint K P))) (req : K → List K)
    (fuel : Nat) (patterns : List (Nat × List (Constraint K P) × List K)) (evs : List Ev)
    (A : Automaton K P) (h : C09TL.buildTLE toTree req fuel patterns evs = .ok A) :
    C09PG.buildTLK toTree req fuel patterns evs = .ok A :=
  C09PG.buildTLE_imp_buildTLK h

/-- … and than the strictest replay `buildTE` (c1D + c1E + guarded `make_det`): every log inside
`c09_buildTE_oneEpsilon` is inside `c09_buildTLK_oneEpsilon`. -/
theorem c09_buildTE_imp_buildTLK
    (toTree : List (Constraint K P) → Option (CTree (Constraint K P))) (req : K → List K)
    (fuel : Nat) (patterns : List (Nat × List (Constraint K P) × List K)) (evs : List Ev)
    (A : Automaton K P) (h : Automaton.buildTE toTree req fuel patterns evs = .ok A) :
    C09PG.buildTLK toTree req fuel patterns evs = .ok A :=
  C09PG.buildTE_imp_buildTLK h

/-! ### the per-log form -/

/-- The decidable per-log check: c1K holds at every emission of the Rust loop's replay. -/
def c09_c1K_ok (toTree : List (Constraint K P) → Option (CTree (Constraint K P)))
    (req : K → List K) (fuel : Nat) (patterns : List (Nat × List (Constraint K P) × List K))
    (evs : List Ev) : Bool :=
  match C09PG.buildTLK toTree req fuel patterns evs with
  | .ok _ => true
  | .error _ => false

theorem c09_buildTLK_of_c1K_ok
    (toTree : List (Constraint K P) → Option (CTree (Constraint K P))) (req : K → List K)
    (fuel : Nat) (patterns : List (Nat × List (Constraint K P) × List K)) (evs : List Ev)
    (A : Automaton K P) (h : Automaton.buildTL toTree req fuel patterns evs = .ok A)
    (hk : c09_c1K_ok toTree req fuel patterns evs = true) :
    C09PG.buildTLK toTree req fuel patterns evs = .ok A := by
  unfold c09_c1K_ok at hk
  cases hb : C09PG.buildTLK toTree req fuel patterns evs with
  | error e => rw [hb] at hk; cases hk
  | ok A' =>
    have hl := C09PG.buildTLK_imp_buildTL hb
    rw [h] at hl
    cases hl
    rfl

/-- **Clause (c) for `buildTL`, any decomposition, PARTIAL**: for the logs that pass the per-log
check c1K. (Missing for the full statement: c1K as a theorem, `c09_pg_c1K_target`.) -/
theorem c09_buildTL_oneEpsilon_of_c1K_partial
    (toTree : List (Constraint K P) → Option (CTree (Constraint K P))) (req : K → List K)
    (fuel : Nat) (patterns : List (Nat × List (Constraint K P) × List K)) (evs : List Ev)
    (A : Automaton K P) (h : Automaton.buildTL toTree req fuel patterns evs = .ok A)
    (hk : c09_c1K_ok toTree req fuel patterns evs = true) :
    ∀ s w, A.g.weight? s = some w → w.eorder.length ≤ 1 :=
  c09_buildTLK_oneEpsilon toTree req fuel patterns evs A
    (c09_buildTLK_of_c1K_ok toTree req fuel patterns evs A h hk)

/-- **C09 in full under c1K**: on a rank-acyclic scheme ALL clauses of `Automaton.WF` and
`wfCheck = true`, any decomposition. -/
theorem c09_built_wf_TLK
    (toTree : List (Constraint K P) → Option (CTree (Constraint K P))) (req : K → List K)
    (hacy : RankAcyclic req)
    (fuel : Nat) (patterns : List (Nat × List (Constraint K P) × List K)) (evs : List Ev)
    (A : Automaton K P) (h : C09PG.buildTLK toTree req fuel patterns evs = .ok A) :
    A.WF req (patterns.map (·.1)) ∧ A.wfCheck req (patterns.map (·.1)) = true :=
  c09_built_wf_TL_of_oneEpsilon toTree req hacy fuel patterns evs A
    (C09PG.buildTLK_imp_buildTL h) (c09_buildTLK_oneEpsilon toTree req fuel patterns evs A h)

/-! ### the invariant route (B), abstractly -/

/-- **What the flat-tree argument really needs from the decomposition.** Any emission-time
invariant `I a E` (`E` = emitted ids) in the sense of `C09PG.EmitInv` — kept by an iteration of the
Rust loop at an admissible state, and saying at an admissible emission that no child of the emitted
state has a fallback transition — that holds of the trie gives, for EVERY log `buildTL` accepts:
clause (c), and c1K at every emission (`buildTLK` returns the same automaton). -/
theorem c09_buildTL_oneEpsilon_of_inv
    (toTree : List (Constraint K P) → Option (CTree (Constraint K P)))
    (I : Automaton K P → List Nat → Prop) (hI : C09PG.EmitInv toTree I) (req : K → List K)
    (fuel : Nat) (patterns : List (Nat × List (Constraint K P) × List K)) (evs : List Ev)
    (A : Automaton K P)
    (hinit : ∀ a0, addPatterns req fuel (new : Automaton K P) patterns = .ok a0 → I a0 [])
    (h : Automaton.buildTL toTree req fuel patterns evs = .ok A) :
    (∀ s w, A.g.weight? s = some w → w.eorder.length ≤ 1) ∧
      C09PG.buildTLK toTree req fuel patterns evs = .ok A := by
  obtain ⟨⟨inv, E⟩, hk⟩ := C09PG.buildTL_e1_of_inv hI hinit h
  exact ⟨E.eorder inv, hk⟩

/-- For flat single-kept decompositions c1K is a theorem (`GE.INV` is an `EmitInv`). -/
theorem c09_buildTL_c1K_flat {Mx : Constraint K P → Constraint K P → Prop}
    (toTree : List (Constraint K P) → Option (CTree (Constraint K P)))
    (hF : C07.FlatTreeHyp Mx toTree) (hS : GE.SingleKept toTree) (req : K → List K)
    (fuel : Nat) (patterns : List (Nat × List (Constraint K P) × List K)) (evs : List Ev)
    (A : Automaton K P) :
    Automaton.buildTL toTree req fuel patterns evs = .ok A ↔
      C09PG.buildTLK toTree req fuel patterns evs = .ok A :=
  ⟨fun h => (c09_buildTL_oneEpsilon_of_inv toTree GE.INV
      (C09PG.emitInv_INV (GE.tree_keepsJ hF hS) GE.detKeepsJ) req fuel patterns evs A
      (fun _ h0 => GE.inv_addPatterns h0) h).2,
   C09PG.buildTLK_imp_buildTL⟩

end Generic

/-- Strings and matrices: c1K is a theorem of `buildTL`. -/
theorem c09_buildTL_c1K_char {K : Type} [DecidableEq K] (lt : K → K → Bool)
    (req : K → List K) (fuel : Nat)
    (inputs : List (Nat × List (Constraint K CharPred) × List K)) (evs : List Ev)
    (A : Automaton K CharPred) :
    Automaton.buildTL (charTree lt) req fuel inputs evs = .ok A ↔
      C09PG.buildTLK (charTree lt) req fuel inputs evs = .ok A :=
  c09_buildTL_c1K_flat (charTree lt) (C07.flatTreeHyp_charTree lt) (GE.singleKept_charTree lt)
    req fuel inputs evs A

/-! ### port graphs -/

/-- **Port graphs, clause (c) for the Rust loop's replay, PARTIAL**: `pgTree` (nested powerset
trees included), `pgReq`, ANY inputs, every fuel, every log that passes the per-log check c1K.
MISSING for `c09_buildTL_oneEpsilon_pg_target`: `c09_pg_c1K_target`. -/
theorem c09_buildTL_oneEpsilon_pg_partial (fuelT fuel : Nat)
    (inputs : List (Nat × List PGCons × List PGKey)) (evs : List Ev)
    (A : Automaton PGKey PGPred)
    (h : Automaton.buildTL (fun cs => pgTree cs fuelT) pgReq fuel inputs evs = .ok A)
    (hk : c09_c1K_ok (fun cs => pgTree cs fuelT) pgReq fuel inputs evs = true) :
    ∀ s w, A.g.weight? s = some w → w.eorder.length ≤ 1 :=
  c09_buildTL_oneEpsilon_of_c1K_partial _ pgReq fuel inputs evs A h hk

/-- **Port graphs, C09 IN FULL for the Rust loop's replay, PARTIAL** (logs passing c1K): all clauses
of `Automaton.WF`, `wfCheck = true`, and `C08.EpsLe1` (the hypothesis under which the traversal
cannot hit the `fail_next_state` assert: `c08_pg_run_TL`). -/
theorem c09_built_wf_TL_pg_partial (fuelT fuel : Nat)
    (inputs : List (Nat × List PGCons × List PGKey)) (evs : List Ev)
    (A : Automaton PGKey PGPred)
    (h : Automaton.buildTL (fun cs => pgTree cs fuelT) pgReq fuel inputs evs = .ok A)
    (hk : c09_c1K_ok (fun cs => pgTree cs fuelT) pgReq fuel inputs evs = true) :
    A.WF pgReq (inputs.map (·.1)) ∧ A.wfCheck pgReq (inputs.map (·.1)) = true ∧ C08.EpsLe1 A :=
  have hc := c09_buildTL_oneEpsilon_pg_partial fuelT fuel inputs evs A h hk
  have hw := c09_built_wf_TL_of_oneEpsilon _ pgReq c09_pgReq_acyclic fuel inputs evs A h hc
  ⟨hw.1, hw.2, hc⟩

/-- **C08 for port graphs under c1K, PARTIAL**: the traversal of an automaton the Rust loop's
replay builds from port-graph patterns on a log passing c1K NEVER panics — every host, every
fuel. -/
theorem c08_pg_run_no_panic_TLK_partial (pats : List (PortGraph × Nat)) (evs : List Ev)
    (fuelT fuel : Nat) (inputs : List (Nat × List PGCons × List PGKey))
    (A : Automaton PGKey PGPred)
    (hin : manyInputs (fun p : PortGraph × Nat => pgConstraints p.1 p.2)
      (fun _ => ([] : List PGKey)) true pats 0 = some inputs)
    (hb : Automaton.buildTL (fun cs => pgTree cs fuelT) pgReq fuel inputs evs = .ok A)
    (hk : c09_c1K_ok (fun cs => pgTree cs fuelT) pgReq fuel inputs evs = true)
    (h : PortGraph) (fuel' : Nat) :
    ∀ tag, run pgDomain A h fuel' ≠ .error (.panic tag) := fun tag ht =>
  ((c08_pg_run_TL pats evs fuelT fuel inputs A hin (.inl hb) h fuel').1 tag ht).2
    (c09_buildTL_oneEpsilon_pg_partial fuelT fuel inputs evs A hb hk)

/-- The open target (A) follows from the open target "c1K is a theorem for `pgTree`". -/
theorem c09_buildTL_oneEpsilon_pg_target_of_c1K (h : c09_pg_c1K_target) :
    c09_buildTL_oneEpsilon_pg_target := fun fuelT fuel inputs evs A hb =>
  c09_buildTLK_oneEpsilon _ pgReq fuel inputs evs A (h fuelT fuel inputs evs A hb)

/-- … and from ANY emission-time invariant for `pgTree` (what a proof of (A) along route (B) has to
supply). -/
theorem c09_pg_c1K_target_of_inv
    (I : Nat → Automaton PGKey PGPred → List Nat → Prop)
    (hI : ∀ fuelT, C09PG.EmitInv (fun cs => pgTree cs fuelT) (I fuelT))
    (hinit : ∀ fuelT fuel (inputs : List (Nat × List PGCons × List PGKey)) a0,
      addPatterns pgReq fuel (new : Automaton PGKey PGPred) inputs = .ok a0 → I fuelT a0 []) :
    c09_pg_c1K_target := fun fuelT fuel inputs evs A hb =>
  (c09_buildTL_oneEpsilon_of_inv _ (I fuelT) (hI fuelT) pgReq fuel inputs evs A
    (hinit fuelT fuel inputs) hb).2

/-! ### Non-vacuity -/

/-- **Port graphs (22 states, nested and mutex trees).** The complete log `C09EpsEx.pgEpsEvsTE` for
the four patterns of the FINDING `pgProgramOK_false_two_fallbacks`: accepted by `buildTL`, passes
the per-log check c1K (through `c09_buildTE_imp_buildTLK`, not by evaluation), so the PARTIAL
theorems apply: clause (c), full `WF`, `wfCheck = true`. -/
example : ∃ A,
    Automaton.buildTL (fun cs => pgTree cs 50) pgReq 50 exEpsInputs C09EpsEx.pgEpsEvsTE = .ok A ∧
    C09PG.buildTLK (fun cs => pgTree cs 50) pgReq 50 exEpsInputs C09EpsEx.pgEpsEvsTE = .ok A ∧
    c09_c1K_ok (fun cs => pgTree cs 50) pgReq 50 exEpsInputs C09EpsEx.pgEpsEvsTE = true ∧
    (∀ s w, A.g.weight? s = some w → w.eorder.length ≤ 1) ∧
    A.WF pgReq (exEpsInputs.map (·.1)) ∧ A.wfCheck pgReq (exEpsInputs.map (·.1)) = true ∧
    A.liveStates.length = 22 := by
  obtain ⟨A, hb, hl, _⟩ := c09_TE_examples_pg.2.1
  have hk := c09_buildTE_imp_buildTLK _ _ _ _ _ A hb
  have hL := c09_buildTLK_imp_buildTL _ _ _ _ _ A hk
  have hok : c09_c1K_ok (fun cs => pgTree cs 50) pgReq 50 exEpsInputs C09EpsEx.pgEpsEvsTE = true := by
    unfold c09_c1K_ok; rw [hk]
  have hw := c09_built_wf_TL_pg_partial 50 50 _ _ A hL hok
  exact ⟨A, hL, hk, hok, c09_buildTL_oneEpsilon_pg_partial 50 50 _ _ A hL hok, hw.1, hw.2.1, hl⟩

/-- **Multi-root port-graph patterns** (`C01GenEx.pats`: the tee and the F3b witness; generated log
`C01GenEx.evs`): `buildTLK` accepts by evaluation; the theorems give clause (c) and full `WF`. -/
theorem c09_PGTL_example_multiroot : ∃ inputs A,
    manyInputs (fun p : PortGraph × Nat => pgConstraints p.1 p.2) (fun _ => ([] : List PGKey))
      true C01GenEx.pats 0 = some inputs ∧
    C09PG.buildTLK (fun cs => pgTree cs 50) pgReq 50 inputs C01GenEx.evs = .ok A :=
  ⟨_, _, rfl, rfl⟩

example : ∃ inputs A,
    manyInputs (fun p : PortGraph × Nat => pgConstraints p.1 p.2) (fun _ => ([] : List PGKey))
      true C01GenEx.pats 0 = some inputs ∧
    Automaton.buildTL (fun cs => pgTree cs 50) pgReq 50 inputs C01GenEx.evs = .ok A ∧
    (∀ s w, A.g.weight? s = some w → w.eorder.length ≤ 1) ∧
    A.WF pgReq (inputs.map (·.1)) ∧
    ∀ h fuel' tag, run pgDomain A h fuel' ≠ .error (.panic tag) := by
  obtain ⟨inputs, A, hin, hk⟩ := c09_PGTL_example_multiroot
  have hL := c09_buildTLK_imp_buildTL _ _ _ _ _ A hk
  have hok : c09_c1K_ok (fun cs => pgTree cs 50) pgReq 50 inputs C01GenEx.evs = true := by
    unfold c09_c1K_ok; rw [hk]
  exact ⟨inputs, A, hin, hL, c09_buildTLK_oneEpsilon _ _ _ _ _ A hk,
    (c09_built_wf_TLK _ pgReq c09_pgReq_acyclic 50 _ _ A hk).1,
    fun h fuel' => c08_pg_run_no_panic_TLK_partial C01GenEx.pats _ 50 50 inputs A hin hL hok h fuel'⟩

/-- **Nested trees, table domain** (`tTree 3`: the root decomposition of `C09EpsEx.tIn` is nested with a
labelled root): `c09_buildTLK_oneEpsilon` applies to the log `C09EpsEx.tEvs`. -/
example : ∃ A, C09PG.buildTLK (fun cs => tTree 3 cs 50) (fun _ => ([] : List Nat)) 50 C09EpsEx.tIn
      C09EpsEx.tEvs = .ok A ∧ (∀ s w, A.g.weight? s = some w → w.eorder.length ≤ 1) ∧
    A.liveStates = [0, 1, 3, 4, 5, 6, 8] := by
  obtain ⟨A, hb, hl, _⟩ := c09_TE_examples_nested.2
  have hk := c09_buildTE_imp_buildTLK _ _ _ _ _ A hb
  exact ⟨A, hk, c09_buildTLK_oneEpsilon _ _ _ _ _ A hk, hl⟩

set_option maxRecDepth 100000 in
/-- **c1K is strictly weaker than the guards of `buildTE`.** The string log `TBL.Ex` is OUTSIDE the
strict replay (c1D fails, hence outside `buildTE`) and INSIDE `buildTLK` — by the theorem
`c09_buildTL_c1K_char`, and by evaluation. -/
theorem c09_PGTL_example_outside_TE :
    buildTD (charTree natLt) strReq 100 TBL.Ex.inputs TBL.Ex.evs =
      .error (.guard "c1D: a child of the emitted state is already deterministic") ∧
    (∀ A, buildTE (charTree natLt) strReq 100 TBL.Ex.inputs TBL.Ex.evs ≠ .ok A) ∧
    ∃ A, C09PG.buildTLK (charTree natLt) strReq 100 TBL.Ex.inputs TBL.Ex.evs = .ok A := by
  refine ⟨TBL.Ex.strict_build_rejects, fun A hA => ?_, ?_⟩
  · have := buildTE_imp_buildTD _ _ _ _ _ A hA
    rw [TBL.Ex.strict_build_rejects] at this
    cases this
  · obtain ⟨_, A, hb, _⟩ := TBL.Ex.all_checks
    exact ⟨A, (c09_buildTL_c1K_char natLt strReq 100 _ _ A).1 hb⟩

/-- The guard c1K is a real guard: the log of the FINDING `pgProgramOK_false_two_fallbacks` (a
port-graph log ending with a two-epsilon state) is rejected by `buildTLK` — already by c1T. -/
example : C09PG.buildTLK (fun cs => pgTree cs 50) pgReq 50 exEpsInputs exEpsEvents =
    .error (.guard "c1T: state emitted twice or before one of its predecessors") := by rfl

/-! ### FINDING: clause (c) is FALSE for the Rust loop's replay over a nested powerset decomposition -/

/-- **FINDING (model level).** A disciplined log — c1T (each state emitted once, after its current
predecessors), c1C (every live state emitted), c4T (merge sets are sibling sets) all hold: `buildTL`
ACCEPTS it — over the table domain's nested powerset decomposition `tTreeAll 3`
(`withPowerset tCond`; `pgTree` builds its `IsNotEqual` families with the same `withPowerset`), whose
result has a state with TWO fallback transitions: `wfOneEpsilon = false`, state `2` has the fallback
transitions `74` and `62`; the traversal's `fail_next_state` assert fires as soon as it reaches
that state.  This is the corner DESIGN §9.2-10 records as "never reached" ("Where a real defect would
sit"); it needs merges that remove an already emitted state (id reuse).  So
`c09_buildTL_oneEpsilon_flat` does NOT extend to arbitrary decompositions, c1K is a real
restriction, and a proof of `c09_buildTL_oneEpsilon_pg_target` must use what is specific to `pgTree`
(or to the merge sets `find_mergeable_nodes` can produce). 4 patterns, 33 states, 248 events
(`Proofs/C09PGTLCex.lean`; kernel evaluation). -/
theorem c09_buildTL_oneEpsilon_nested_false :
    ∃ A, Automaton.buildTL (fun cs => tTreeAll 3 cs 60) (fun _ => ([] : List Nat)) 60
        C09PGEx.tIn2 C09PGEx.tEvs2 = .ok A ∧
      A.wfOneEpsilon = false ∧ (A.stateD 2).eorder = [74, 62] ∧ A.liveStates.length = 33 := by
  obtain ⟨A, hA, h⟩ := C09PGEx.resCheck_spec C09PGEx.twoEps_true
  unfold C09PGEx.twoEpsF at h
  simp only [Bool.and_eq_true, Bool.not_eq_true', decide_eq_true_eq] at h
  exact ⟨A, hA, h.1.1, h.1.2, h.2⟩

/-- Hence: clause (c) for `buildTL` is NOT a theorem for arbitrary decompositions and inputs, … -/
theorem c09_buildTL_oneEpsilon_any_tree_false :
    ¬ ∀ (toTree : List TCons → Option (CTree TCons)) (req : Nat → List Nat) (fuel : Nat)
        (inputs : List (Nat × List TCons × List Nat)) (evs : List Ev) (A : Automaton Nat TPred),
        Automaton.buildTL toTree req fuel inputs evs = .ok A →
        ∀ s w, A.g.weight? s = some w → w.eorder.length ≤ 1 := by
  intro H
  obtain ⟨A, hb, hf, _⟩ := c09_buildTL_oneEpsilon_nested_false
  have := c09_oneEpsilon_complete A (H _ _ _ _ _ A hb)
  rw [hf] at this
  cases this

/-- … and the log is (as it must be) rejected by the guard c1K. -/
theorem c09_buildTLK_rejects_nested_cex :
    ∀ A, C09PG.buildTLK (fun cs => tTreeAll 3 cs 60) (fun _ => ([] : List Nat)) 60
      C09PGEx.tIn2 C09PGEx.tEvs2 ≠ .ok A := by
  intro A hk
  obtain ⟨A', hb, hf, _⟩ := c09_buildTL_oneEpsilon_nested_false
  have hL := c09_buildTLK_imp_buildTL _ _ _ _ _ A hk
  rw [hb] at hL
  have hA : A' = A := by injection hL
  subst hA
  have := (c09_buildTLK_epsLe1 _ _ _ _ _ A' hk).2.2
  rw [hf] at this
  cases this

end Pm

section AxiomAudit
open Pm
#print axioms c09_buildTLK_oneEpsilon
#print axioms c09_buildTLK_oneEpsilon_edges
#print axioms c09_buildTLK_epsLe1
#print axioms c09_buildTLK_imp_buildTL
#print axioms c09_buildTLE_imp_buildTLK
#print axioms c09_buildTE_imp_buildTLK
#print axioms c09_buildTLK_of_c1K_ok
#print axioms c09_buildTL_oneEpsilon_of_c1K_partial
#print axioms c09_built_wf_TLK
#print axioms c09_buildTL_oneEpsilon_of_inv
#print axioms c09_buildTL_c1K_flat
#print axioms c09_buildTL_c1K_char
#print axioms c09_buildTL_oneEpsilon_pg_partial
#print axioms c09_built_wf_TL_pg_partial
#print axioms c08_pg_run_no_panic_TLK_partial
#print axioms c09_buildTL_oneEpsilon_pg_target_of_c1K
#print axioms c09_pg_c1K_target_of_inv
#print axioms c09_PGTL_example_multiroot
#print axioms c09_PGTL_example_outside_TE
#print axioms c09_buildTL_oneEpsilon_nested_false
#print axioms c09_buildTL_oneEpsilon_any_tree_false
#print axioms c09_buildTLK_rejects_nested_cex
end AxiomAudit
