/-
Props/C09.lean — property C09: structural well-formedness of the compiled constraint automaton.

"After construction the constraint automaton is a rooted acyclic graph in which every state is
reachable from the root, no state has more than one fallback transition or a transition to
itself, the per-state transition orderings list exactly the state's outgoing constraint and
fallback transitions without repetition, and every compiled pattern ID is accepted by at least
one state. The keys kept alive at a state, and the keys recorded for each accepted pattern, are
listed so that each key's prerequisites precede it, and the former include every key used by the
state's outgoing constraints."

`Automaton.WF` is the `Prop`-level statement, one field per clause, stated without reference to
the executable checker `Automaton.wfCheck` of `Spec/WF.lean` that the test driver evaluates on
every replayed build. `c09_wfCheck_sound`: whatever the checker accepts satisfies `WF` (on a
structurally well-formed `StableGraph`, `SGraph.WF`, needed for clause (a) only — see
`c09_acyclic_needs_graph_wf`). `c09_wfCheck_complete`: the checker raises no false alarm.
Builder side: `c09_appendEdge_noSelf`, `c09_populateScopes_only_scope` (+ transfer of clauses
(a)–(f)), `c09_addPattern_keys_ordered`.

Only property theorems and non-vacuity examples live here; proofs are in `Proofs/WFLemmas`.
-/
import PmVerif.Proofs.WFLemmas
namespace Pm
namespace Automaton
variable {K P : Type}

/-! ### A. The `Prop`-level statement -/

/-- `Path a s d`: `d` is reachable from `s` along transitions listed in the out-adjacency of
their source state (`outEdges` yields `(transition id, target)` and nothing for a vacant
state, so every state on the path except possibly a trivial end point is live). -/
inductive Path (a : Automaton K P) : Nat → Nat → Prop where
  | refl (s : Nat) : Path a s s
  | step {s m d t : Nat} : Path a s m → (t, d) ∈ a.g.outEdges m → Path a s d

/-- A key list is prerequisite-ordered: the key at position `i` has all its prerequisites among
the first `i` keys. -/
def PrereqOrdered (req : K → List K) (ks : List K) : Prop :=
  ∀ i k, ks[i]? = some k → ∀ p ∈ req k, p ∈ ks.take i

/-- Property C09. "Live state `s` with weight `w`" is `a.g.weight? s = some w`. -/
structure WF (req : K → List K) (a : Automaton K P) (ids : List Nat) : Prop where
  /-- (a) a rank function strictly increasing along every live transition -/
  acyclic : ∃ rank : Nat → Nat, ∀ t e, a.g.edge? t = some e → rank e.src < rank e.dst
  /-- (b) every live state is reachable from the root -/
  reachable : ∀ s, a.g.containsNode s = true → Path a a.root s
  /-- (c) at most one fallback transition per state -/
  oneEpsilon : ∀ s w, a.g.weight? s = some w → w.eorder.length ≤ 1
  /-- (d) no transition from a state to itself -/
  noSelfLoop : ∀ s, a.g.containsNode s = true → ∀ t d, (t, d) ∈ a.g.outEdges s → d ≠ s
  /-- (e) the two orders are duplicate-free and list exactly the outgoing constraint transitions
  (edge weight `some _`) resp. the outgoing fallback transitions (edge weight `none`) -/
  orders : ∀ s w, a.g.weight? s = some w →
    w.corder.Nodup ∧ w.eorder.Nodup ∧
    (∀ t, t ∈ w.corder ↔
      ∃ d e c, (t, d) ∈ a.g.outEdges s ∧ a.g.edge? t = some e ∧ e.w = some c) ∧
    (∀ t, t ∈ w.eorder ↔ ∃ d e, (t, d) ∈ a.g.outEdges s ∧ a.g.edge? t = some e ∧ e.w = none)
  /-- (f) every compiled pattern id is accepted by some live state -/
  accepted : ∀ pid ∈ ids, ∃ s w keys, a.g.weight? s = some w ∧ (pid, keys) ∈ w.matches_
  /-- (g) scopes and accepted patterns' key lists are prerequisite-ordered -/
  keyOrder : ∀ s w, a.g.weight? s = some w →
    PrereqOrdered req w.scope ∧ ∀ m ∈ w.matches_, PrereqOrdered req m.2
  /-- (h) the scope contains every key used by an outgoing constraint -/
  scopeCovers : ∀ s w, a.g.weight? s = some w → ∀ t ∈ w.corder,
    ∀ e c, a.g.edge? t = some e → e.w = some c → ∀ k ∈ c.args, k ∈ w.scope

end Automaton

open Automaton
variable {K P : Type}

/-! ### B. Soundness of the checker, clause by clause -/

/-- Soundness of the Kahn loop `topoOrder`: its result lists exactly the live states, once each,
and position in it is a rank for the in-adjacency (`preds`). No hypothesis on the graph. -/
theorem c09_topoOrder_sound {a : Automaton K P} {order : List Nat}
    (h : a.topoOrder = some order) :
    order.Nodup ∧ (∀ n, n ∈ order ↔ a.g.containsNode n = true) ∧
      ∀ n p, p ∈ a.g.preds n → p ∈ order ∧ n ∈ order ∧ order.idxOf p < order.idxOf n :=
  topoOrder_spec h

/-- (a), adjacency form, no hypothesis on the graph: a rank function strictly increasing along
every transition listed in the in-adjacency of its target. -/
theorem c09_acyclic_sound_adj (a : Automaton K P) (h : a.wfAcyclic = true) :
    ∃ rank : Nat → Nat, ∀ d t s, (t, s) ∈ a.g.inEdges d → rank s < rank d :=
  wfAcyclic_sound_adj a h

/-- (a). The checker walks the in-adjacency lists, so for the statement over *all* live edges it
needs the `StableGraph` invariant that a live edge is listed in its target's in-list
(`SGraph.WF.edge_dst`); `c09_acyclic_needs_graph_wf` shows the hypothesis cannot be dropped. -/
theorem c09_acyclic_sound (a : Automaton K P)
    (hdst : ∀ e ed, a.g.edge? e = some ed → ∃ nd, a.g.node? ed.dst = some nd ∧ e ∈ nd.inc)
    (h : a.wfAcyclic = true) :
    ∃ rank : Nat → Nat, ∀ t e, a.g.edge? t = some e → rank e.src < rank e.dst :=
  wfAcyclic_sound a hdst h

/-- Soundness of the DFS: every node it returns is reachable by a `Path` from the start. -/
theorem c09_dfs_sound (a : Automaton K P) (s : Nat) (fuel : Nat) :
    ∀ n ∈ a.reachable fuel [s] [], Path a s n :=
  reachable_sound a (Path a s)
    (fun _ d hn hd => by
      obtain ⟨t, ht⟩ := mem_succs_iff_outEdges.1 hd
      exact Path.step hn ht)
    fuel [s] [] (by intro n hn; rw [List.mem_singleton.1 hn]; exact Path.refl s) (by simp)

/-- (b) -/
theorem c09_reachable_sound (a : Automaton K P) (h : a.wfReachable = true) :
    ∀ s, a.g.containsNode s = true → Path a a.root s := by
  intro s hs
  unfold wfReachable at h
  simp only [List.all_eq_true, List.contains_iff_mem] at h
  exact c09_dfs_sound a a.root _ s (h s (mem_liveStates.2 hs))

/-- (c) -/
theorem c09_oneEpsilon_sound (a : Automaton K P) (h : a.wfOneEpsilon = true) :
    ∀ s w, a.g.weight? s = some w → w.eorder.length ≤ 1 :=
  (wfOneEpsilon_iff a).1 h

/-- (d) -/
theorem c09_noSelfLoop_sound (a : Automaton K P) (h : a.wfNoSelfLoop = true) :
    ∀ s, a.g.containsNode s = true → ∀ t d, (t, d) ∈ a.g.outEdges s → d ≠ s :=
  (wfNoSelfLoop_iff a).1 h

/-- (e) -/
theorem c09_orders_sound (a : Automaton K P) (h : a.wfOrders = true) :
    ∀ s w, a.g.weight? s = some w →
      w.corder.Nodup ∧ w.eorder.Nodup ∧
      (∀ t, t ∈ w.corder ↔
        ∃ d e c, (t, d) ∈ a.g.outEdges s ∧ a.g.edge? t = some e ∧ e.w = some c) ∧
      (∀ t, t ∈ w.eorder ↔
        ∃ d e, (t, d) ∈ a.g.outEdges s ∧ a.g.edge? t = some e ∧ e.w = none) :=
  (wfOrders_iff a).1 h

/-- (f) -/
theorem c09_accepted_sound (a : Automaton K P) (ids : List Nat) (h : a.wfAccepted ids = true) :
    ∀ pid ∈ ids, ∃ s w keys, a.g.weight? s = some w ∧ (pid, keys) ∈ w.matches_ :=
  (wfAccepted_iff a ids).1 h

section
variable [DecidableEq K]

/-- The Boolean `prereqOrdered` decides `PrereqOrdered`. -/
theorem c09_prereqOrdered_iff (req : K → List K) (ks : List K) :
    prereqOrdered req ks = true ↔ PrereqOrdered req ks :=
  prereqOrdered_iff req ks

/-- (g) -/
theorem c09_keyOrder_sound (req : K → List K) (a : Automaton K P)
    (h : a.wfKeyOrder req = true) :
    ∀ s w, a.g.weight? s = some w →
      PrereqOrdered req w.scope ∧ ∀ m ∈ w.matches_, PrereqOrdered req m.2 := by
  intro s w hw
  obtain ⟨h1, h2⟩ := (wfKeyOrder_iff req a).1 h s w hw
  exact ⟨(prereqOrdered_iff req _).1 h1, fun m hm => (prereqOrdered_iff req _).1 (h2 m hm)⟩

/-- (h) -/
theorem c09_scopeCovers_sound (a : Automaton K P) (h : a.wfScopeCovers = true) :
    ∀ s w, a.g.weight? s = some w → ∀ t ∈ w.corder,
      ∀ e c, a.g.edge? t = some e → e.w = some c → ∀ k ∈ c.args, k ∈ w.scope :=
  (wfScopeCovers_iff a).1 h

/-- **C09, soundness of the checker.** Hypothesis `hg`: the underlying `StableGraph` model is
structurally well-formed (an invariant of every graph operation, `c15_wf_*`); it is used for
clause (a) only, through `SGraph.WF.edge_dst`. -/
theorem c09_wfCheck_sound [DecidableEq P] (req : K → List K) (a : Automaton K P)
    (ids : List Nat) (hg : a.g.WF) : a.wfCheck req ids = true → a.WF req ids := by
  intro h
  obtain ⟨ha, hb, hc, hd, he, hf, hgk, hh⟩ := (wfCheck_iff req a ids).1 h
  exact
    { acyclic := c09_acyclic_sound a hg.edge_dst ha
      reachable := c09_reachable_sound a hb
      oneEpsilon := c09_oneEpsilon_sound a hc
      noSelfLoop := c09_noSelfLoop_sound a hd
      orders := c09_orders_sound a he
      accepted := c09_accepted_sound a ids hf
      keyOrder := c09_keyOrder_sound req a hgk
      scopeCovers := c09_scopeCovers_sound a hh }

end

/-- The hypothesis `hg` of `c09_wfCheck_sound` cannot be dropped for clause (a) as stated over all
live edges: a live self-loop edge that is listed in no adjacency list is invisible to the
checker (such a graph violates `SGraph.WF` and is not reachable by the graph operations). -/
theorem c09_acyclic_needs_graph_wf :
    ∃ a : Automaton Nat Nat, a.wfCheck (fun _ => []) [] = true ∧
      ¬ ∃ rank : Nat → Nat, ∀ t e, a.g.edge? t = some e → rank e.src < rank e.dst := by
  refine ⟨⟨⟨[some ⟨{}, [], []⟩], [some ⟨0, 0, none⟩], [], []⟩, 0⟩, by decide, ?_⟩
  rintro ⟨rank, h⟩
  exact Nat.lt_irrefl _ (h 0 ⟨0, 0, none⟩ rfl)

/-! ### C. Completeness of the checker: no false alarms -/

/-- (c) -/
theorem c09_oneEpsilon_complete (a : Automaton K P)
    (H : ∀ s w, a.g.weight? s = some w → w.eorder.length ≤ 1) : a.wfOneEpsilon = true :=
  (wfOneEpsilon_iff a).2 H

/-- (d) -/
theorem c09_noSelfLoop_complete (a : Automaton K P)
    (H : ∀ s, a.g.containsNode s = true → ∀ t d, (t, d) ∈ a.g.outEdges s → d ≠ s) :
    a.wfNoSelfLoop = true :=
  (wfNoSelfLoop_iff a).2 H

/-- (e) -/
theorem c09_orders_complete (a : Automaton K P)
    (H : ∀ s w, a.g.weight? s = some w →
      w.corder.Nodup ∧ w.eorder.Nodup ∧
      (∀ t, t ∈ w.corder ↔
        ∃ d e c, (t, d) ∈ a.g.outEdges s ∧ a.g.edge? t = some e ∧ e.w = some c) ∧
      (∀ t, t ∈ w.eorder ↔
        ∃ d e, (t, d) ∈ a.g.outEdges s ∧ a.g.edge? t = some e ∧ e.w = none)) :
    a.wfOrders = true :=
  (wfOrders_iff a).2 H

/-- (f) -/
theorem c09_accepted_complete (a : Automaton K P) (ids : List Nat)
    (H : ∀ pid ∈ ids, ∃ s w keys, a.g.weight? s = some w ∧ (pid, keys) ∈ w.matches_) :
    a.wfAccepted ids = true :=
  (wfAccepted_iff a ids).2 H

/-- (a): on a structurally well-formed graph the Kahn loop (fuel `#live + 1`) succeeds whenever
a rank function exists. -/
theorem c09_acyclic_complete (a : Automaton K P) (hg : a.g.WF)
    (H : ∃ rank : Nat → Nat, ∀ t e, a.g.edge? t = some e → rank e.src < rank e.dst) :
    a.wfAcyclic = true :=
  wfAcyclic_complete hg H

/-- A path stays inside every successor-closed set containing its start. -/
theorem Automaton.Path.closed {a : Automaton K P} {s n : Nat} (h : Path a s n) (S : Nat → Prop)
    (hs : S s) (hcl : ∀ m d, S m → d ∈ a.g.succs m → S d) : S n := by
  induction h with
  | refl => exact hs
  | step _ ht ih => exact hcl _ _ ih (mem_succs_iff_outEdges.2 ⟨_, ht⟩)

/-- Paths only depend on the out-adjacency. -/
theorem Automaton.Path.congr {a a' : Automaton K P} {s n : Nat} (h : Path a s n)
    (hout : ∀ m, a'.g.outEdges m = a.g.outEdges m) : Path a' s n := by
  induction h with
  | refl => exact Path.refl _
  | step _ ht ih => exact Path.step ih (by rw [hout]; exact ht)

/-- Completeness of the DFS with the checker's fuel bound `#nodes * (#edges + 2) + 2`, on a
structurally well-formed graph: every node reachable by a `Path` is returned. -/
theorem c09_dfs_complete (a : Automaton K P) (hg : a.g.WF) (s n : Nat) (h : Path a s n) :
    n ∈ a.reachable (a.g.nodes.length * (a.g.edges.length + 2) + 2) [s] [] :=
  reachable_complete hg s n fun S hs hcl => h.closed S hs hcl

/-- (b) -/
theorem c09_reachable_complete (a : Automaton K P) (hg : a.g.WF)
    (H : ∀ s, a.g.containsNode s = true → Path a a.root s) : a.wfReachable = true :=
  wfReachable_complete hg fun s hs S hr hcl => (H s hs).closed S hr hcl

/-- `SGraph.wfB` is an executable sufficient test for the hypothesis `hg`. -/
theorem c09_graph_wfB_sound {N E : Type} {g : SGraph N E} (h : g.wfB = true) : g.WF :=
  SGraph.wfB_sound h

section
variable [DecidableEq K]

/-- (g) -/
theorem c09_keyOrder_complete (req : K → List K) (a : Automaton K P)
    (H : ∀ s w, a.g.weight? s = some w →
      PrereqOrdered req w.scope ∧ ∀ m ∈ w.matches_, PrereqOrdered req m.2) :
    a.wfKeyOrder req = true := by
  refine (wfKeyOrder_iff req a).2 fun s w hw => ?_
  obtain ⟨h1, h2⟩ := H s w hw
  exact ⟨(prereqOrdered_iff req _).2 h1, fun m hm => (prereqOrdered_iff req _).2 (h2 m hm)⟩

/-- (h) -/
theorem c09_scopeCovers_complete (a : Automaton K P)
    (H : ∀ s w, a.g.weight? s = some w → ∀ t ∈ w.corder,
      ∀ e c, a.g.edge? t = some e → e.w = some c → ∀ k ∈ c.args, k ∈ w.scope) :
    a.wfScopeCovers = true :=
  (wfScopeCovers_iff a).2 H

/-- **C09, completeness for the local clauses (c)–(h)**: no hypothesis on the graph. -/
theorem c09_wfCheck_complete_local (req : K → List K) (a : Automaton K P) (ids : List Nat)
    (h : a.WF req ids) :
    a.wfOneEpsilon = true ∧ a.wfNoSelfLoop = true ∧ a.wfOrders = true ∧
      a.wfAccepted ids = true ∧ a.wfKeyOrder req = true ∧ a.wfScopeCovers = true :=
  ⟨c09_oneEpsilon_complete a h.oneEpsilon, c09_noSelfLoop_complete a h.noSelfLoop,
    c09_orders_complete a h.orders, c09_accepted_complete a ids h.accepted,
    c09_keyOrder_complete req a h.keyOrder, c09_scopeCovers_complete a h.scopeCovers⟩

/-- **C09, completeness of the checker** (all eight clauses; `hg` is needed for (a), (b): the
fuel bounds of the Kahn loop and of the DFS are sufficient on a well-formed graph). -/
theorem c09_wfCheck_complete [DecidableEq P] (req : K → List K) (a : Automaton K P)
    (ids : List Nat) (hg : a.g.WF) : a.WF req ids → a.wfCheck req ids = true := by
  intro h
  obtain ⟨hc, hd, he, hf, hgk, hh⟩ := c09_wfCheck_complete_local req a ids h
  exact (wfCheck_iff req a ids).2
    ⟨c09_acyclic_complete a hg h.acyclic, c09_reachable_complete a hg h.reachable,
      hc, hd, he, hf, hgk, hh⟩

/-- On a structurally well-formed graph the checker decides `WF`. -/
theorem c09_wfCheck_iff [DecidableEq P] (req : K → List K) (a : Automaton K P)
    (ids : List Nat) (hg : a.g.WF) : a.wfCheck req ids = true ↔ a.WF req ids :=
  ⟨c09_wfCheck_sound req a ids hg, c09_wfCheck_complete req a ids hg⟩

end

/-! ### D. Builder side -/

/-- `append_edge(s, s, c)` returns the automaton unchanged. -/
theorem c09_appendEdge_noSelf (a : Automaton K P) (s : Nat) (c : Option (Constraint K P)) :
    a.appendEdge s s c = .ok a :=
  appendEdge_self a s c

/-- After `append_edge(parent, child, c)` every live transition is an old one (same id, source,
target and constraint) or the new transition `parent → child`, and then `parent ≠ child`. -/
theorem c09_appendEdge_edges {a a' : Automaton K P} {p ch : Nat} {c : Option (Constraint K P)}
    (h : a.appendEdge p ch c = .ok a') (t : Nat) :
    a'.g.edge? t = a.g.edge? t ∨ (a'.g.edge? t = some ⟨p, ch, c⟩ ∧ p ≠ ch) :=
  appendEdge_edge? h t

/-- Hence `append_edge` never creates a transition from a state to itself. -/
theorem c09_appendEdge_noSelf_inv {a a' : Automaton K P} {p ch : Nat}
    {c : Option (Constraint K P)} (h : a.appendEdge p ch c = .ok a')
    (H : ∀ t e, a.g.edge? t = some e → e.src ≠ e.dst) :
    ∀ t e, a'.g.edge? t = some e → e.src ≠ e.dst := by
  intro t e he
  rcases c09_appendEdge_edges h t with h1 | ⟨h1, hne⟩
  · exact H t e (h1 ▸ he)
  · rw [h1] at he; cases he; exact hne

/-- Towards the hypothesis `hg`: the `StableGraph` invariant `SGraph.WF ∧ SGraph.FreeOK` holds of
the fresh automaton and is preserved by the weight edits and by `append_edge` (with `c15_wf_*` /
`c15_freeOK_*` for `add_node`, `remove_edge`, `remove_node` this covers every primitive edit;
`c09_populateScopes_graph_wf` covers `populate_scopes`). -/
theorem c09_graph_wf_new : (new : Automaton K P).g.WF ∧ (new : Automaton K P).g.FreeOK :=
  new_graph_wf

theorem c09_graph_wf_modifyState {a a' : Automaton K P} {s : Nat} {f : AState K → AState K}
    (h : a.modifyState s f = .ok a') (hg : a.g.WF ∧ a.g.FreeOK) : a'.g.WF ∧ a'.g.FreeOK :=
  modifyState_graph_wf h hg

theorem c09_graph_wf_appendEdge {a a' : Automaton K P} {p ch : Nat}
    {c : Option (Constraint K P)} (h : a.appendEdge p ch c = .ok a')
    (hg : a.g.WF ∧ a.g.FreeOK) : a'.g.WF ∧ a'.g.FreeOK :=
  appendEdge_graph_wf h hg

namespace Automaton

/-- The scope-independent clauses (a)–(f) of `WF`. -/
structure WFShape (a : Automaton K P) (ids : List Nat) : Prop where
  acyclic : ∃ rank : Nat → Nat, ∀ t e, a.g.edge? t = some e → rank e.src < rank e.dst
  reachable : ∀ s, a.g.containsNode s = true → Path a a.root s
  oneEpsilon : ∀ s w, a.g.weight? s = some w → w.eorder.length ≤ 1
  noSelfLoop : ∀ s, a.g.containsNode s = true → ∀ t d, (t, d) ∈ a.g.outEdges s → d ≠ s
  orders : ∀ s w, a.g.weight? s = some w →
    w.corder.Nodup ∧ w.eorder.Nodup ∧
    (∀ t, t ∈ w.corder ↔
      ∃ d e c, (t, d) ∈ a.g.outEdges s ∧ a.g.edge? t = some e ∧ e.w = some c) ∧
    (∀ t, t ∈ w.eorder ↔ ∃ d e, (t, d) ∈ a.g.outEdges s ∧ a.g.edge? t = some e ∧ e.w = none)
  accepted : ∀ pid ∈ ids, ∃ s w keys, a.g.weight? s = some w ∧ (pid, keys) ∈ w.matches_

theorem WF.shape {req : K → List K} {a : Automaton K P} {ids : List Nat} (h : a.WF req ids) :
    a.WFShape ids :=
  ⟨h.acyclic, h.reachable, h.oneEpsilon, h.noSelfLoop, h.orders, h.accepted⟩

theorem WFShape.wf {req : K → List K} {a : Automaton K P} {ids : List Nat} (h : a.WFShape ids)
    (hk : ∀ s w, a.g.weight? s = some w →
      PrereqOrdered req w.scope ∧ ∀ m ∈ w.matches_, PrereqOrdered req m.2)
    (hc : ∀ s w, a.g.weight? s = some w → ∀ t ∈ w.corder,
      ∀ e c, a.g.edge? t = some e → e.w = some c → ∀ k ∈ c.args, k ∈ w.scope) :
    a.WF req ids :=
  ⟨h.acyclic, h.reachable, h.oneEpsilon, h.noSelfLoop, h.orders, h.accepted, hk, hc⟩

end Automaton

section
variable [DecidableEq K]

/-- `populate_scopes` changes nothing but the `scope` fields: same root, edge table, free lists,
node table size, live states and adjacency; each state keeps its weight up to `scope`. -/
theorem c09_populateScopes_only_scope {req : K → List K} {fuel : Nat} {a a' : Automaton K P}
    (h : populateScopes req fuel a = .ok a') :
    a'.root = a.root ∧ a'.g.edges = a.g.edges ∧ a'.g.freeNodes = a.g.freeNodes ∧
      a'.g.freeEdges = a.g.freeEdges ∧ a'.g.nodes.length = a.g.nodes.length ∧
      (∀ s, a'.g.containsNode s = a.g.containsNode s) ∧
      (∀ s, a'.g.outEdges s = a.g.outEdges s) ∧ (∀ s, a'.g.inEdges s = a.g.inEdges s) ∧
      (∀ s w', a'.g.weight? s = some w' →
        ∃ w, a.g.weight? s = some w ∧ w' = { w with scope := w'.scope }) ∧
      (∀ s w, a.g.weight? s = some w →
        ∃ w', a'.g.weight? s = some w' ∧ w' = { w with scope := w'.scope }) := by
  have hs := populateScopes_sameButScope h
  exact ⟨hs.root, hs.edges, hs.freeNodes, hs.freeEdges, hs.len, hs.containsNode, hs.outEdges,
    hs.inEdges, fun _ _ => hs.weight?, fun _ _ => hs.weight?_symm⟩

/-- Hence clauses (a)–(f) of `WF` transfer from `a` to `populate_scopes(a)`. -/
theorem c09_populateScopes_shape {req : K → List K} {fuel : Nat} {a a' : Automaton K P}
    {ids : List Nat} (h : populateScopes req fuel a = .ok a') (H : a.WFShape ids) :
    a'.WFShape ids := by
  have hs := populateScopes_sameButScope h
  refine ⟨hs.acyclic H.acyclic, ?_, hs.oneEpsilon H.oneEpsilon, hs.noSelfLoop H.noSelfLoop,
    hs.orders H.orders, hs.accepted H.accepted⟩
  intro s hl
  rw [hs.containsNode] at hl
  rw [hs.root]
  exact (H.reachable s hl).congr hs.outEdges

/-- ... and so do the key lists of the accepted patterns (second half of clause (g)). -/
theorem c09_populateScopes_matchKeys {req : K → List K} {fuel : Nat} {a a' : Automaton K P}
    (h : populateScopes req fuel a = .ok a')
    (H : ∀ s w, a.g.weight? s = some w → ∀ m ∈ w.matches_, PrereqOrdered req m.2) :
    ∀ s w, a'.g.weight? s = some w → ∀ m ∈ w.matches_, PrereqOrdered req m.2 :=
  (populateScopes_sameButScope h).matchKeys H

/-- ... and the structural well-formedness of the graph (the hypothesis `hg`). -/
theorem c09_populateScopes_graph_wf {req : K → List K} {fuel : Nat} {a a' : Automaton K P}
    (h : populateScopes req fuel a = .ok a') (hg : a.g.WF) : a'.g.WF :=
  (populateScopes_sameButScope h).wf hg

/-- `populate_scopes` *establishes* clause (h) on an acyclic indexing scheme, whatever the
automaton: each scope ends with the missing bindings of the state's outgoing constraints. -/
theorem c09_populateScopes_scopeCovers {req : K → List K} (hacy : RankAcyclic req) {fuel : Nat}
    {a a' : Automaton K P} (h : populateScopes req fuel a = .ok a') :
    ∀ s w, a'.g.weight? s = some w → ∀ t ∈ w.corder,
      ∀ e c, a'.g.edge? t = some e → e.w = some c → ∀ k ∈ c.args, k ∈ w.scope :=
  populateScopes_covers hacy h

/-- The key list accumulated by the loop of `add_pattern` stays prerequisite-ordered. -/
theorem c09_addPatternLoop_keys_ordered {req : K → List K} (hacy : RankAcyclic req) {fuel : Nat}
    {cs : List (Cons K P)} {a a' : Automaton K P} {s s' : Nat} {keys0 keys : List K}
    (h0 : prereqOrdered req keys0 = true)
    (h : addPatternLoop req fuel a s keys0 cs = .ok (a', s', keys)) :
    prereqOrdered req keys = true :=
  addPatternLoop_keys_ordered hacy fuel cs a a' s s' keys0 keys h0 h

/-- For a rank-acyclic `req`, the key list that `add_pattern` records for the accepted pattern
(the `keys` handed to `add_match`) is prerequisite-ordered. -/
theorem c09_addPattern_keys_ordered {req : K → List K} (hacy : RankAcyclic req) {fuel : Nat}
    {a a' : Automaton K P} {cs : List (Cons K P)} {pid : Nat} {extra : List K}
    (h : addPattern req fuel a cs pid extra = .ok a') :
    ∃ keys0 a1 s keys, allMissingBindings req extra [] fuel = some keys0 ∧
      addPatternLoop req fuel a a.root keys0 cs = .ok (a1, s, keys) ∧
      a1.addMatch s pid keys = .ok a' ∧ prereqOrdered req keys = true :=
  addPattern_keys_ordered hacy h

/-- After `add_pattern(cs, pid, extra)` every accepted `(pattern id, key list)` of any state is
one the automaton had before, or belongs to `pid` and is prerequisite-ordered. -/
theorem c09_addPattern_matches {req : K → List K} (hacy : RankAcyclic req) {fuel : Nat}
    {a a' : Automaton K P} {cs : List (Cons K P)} {pid : Nat} {extra : List K}
    (h : addPattern req fuel a cs pid extra = .ok a') :
    ∀ s w', a'.g.weight? s = some w' → ∀ m ∈ w'.matches_,
      (∃ s0 w, a.g.weight? s0 = some w ∧ m ∈ w.matches_) ∨
        (m.1 = pid ∧ prereqOrdered req m.2 = true) :=
  addPattern_matches hacy h

/-- The automaton handed to `finish` (all patterns added to a fresh automaton) satisfies the
second half of clause (g). -/
theorem c09_addPatterns_matches_ordered {req : K → List K} (hacy : RankAcyclic req) {fuel : Nat}
    {ps : List (Nat × List (Cons K P) × List K)} {a' : Automaton K P}
    (h : addPatterns req fuel (new : Automaton K P) ps = .ok a') :
    ∀ s w, a'.g.weight? s = some w → ∀ m ∈ w.matches_, PrereqOrdered req m.2 := by
  intro s w hw m hm
  refine (prereqOrdered_iff req _).1
    (addPatterns_matches_ordered hacy fuel ps new a' ?_ h s w hw m hm)
  intro s0 w0 hw0 m0 hm0
  rw [new_no_matches s0 w0 hw0] at hm0
  cases hm0

end

/-! ### Non-vacuity -/

namespace C09Ex

def okOr {α} (d : α) : R α → α
  | .ok a => a
  | .error _ => d

/-- Key `1` requires key `0`. -/
def req : Nat → List Nat := fun k => if k = 1 then [0] else []

theorem req_acyclic : RankAcyclic req :=
  ⟨id, fun k p hp => by
    unfold req at hp
    split at hp
    · rename_i hk; rw [List.mem_singleton.1 hp, hk]; exact Nat.zero_lt_one
    · cases hp⟩

/-- Root `0 —c(1)→ 1 —c(0,2)→ 2`, pattern `5` accepted at state `2`; scopes not yet computed. -/
def a0 : Automaton Nat Nat :=
  okOr new (addPattern req 20 new [⟨7, [1]⟩, ⟨8, [0, 2]⟩] 5 [])

/-- ... after `populate_scopes`. -/
def a1 : Automaton Nat Nat := okOr new (populateScopes req 20 a0)

/-- State `0` has two fallback transitions. -/
def bad : Automaton Nat Nat :=
  ⟨⟨[some ⟨{ eorder := [0, 1] }, [1, 0], []⟩, some ⟨{}, [], [0]⟩, some ⟨{}, [], [1]⟩],
    [some ⟨0, 1, none⟩, some ⟨0, 2, none⟩], [], []⟩, 0⟩

end C09Ex

/-- A three-state automaton built by `add_pattern` + `populate_scopes` passes the checker ... -/
example : C09Ex.a1.g.nodeIndices = [0, 1, 2] ∧ C09Ex.a1.wfCheck C09Ex.req [5] = true := by decide

/-- ... its graph is structurally well-formed, so it satisfies `WF`: the hypotheses of
`c09_wfCheck_sound` are jointly satisfiable. -/
example : C09Ex.a1.WF C09Ex.req [5] :=
  c09_wfCheck_sound C09Ex.req C09Ex.a1 [5] (c09_graph_wfB_sound (by decide)) (by decide)

/-- Before `populate_scopes` exactly clause (h) fails (the scopes are still empty). -/
example : C09Ex.a0.wfFailures C09Ex.req [5] = ["h:scope-misses-constraint-key"] := by decide

/-- The recorded key list of pattern `5` lists key `0` before key `1` that requires it. -/
example : (C09Ex.a1.stateD 2).matches_ = [(5, [0, 1, 2])] := by decide

/-- An automaton with two fallback transitions at one state fails exactly clause (c) ... -/
example : C09Ex.bad.wfFailures C09Ex.req [] = ["c:two-fallbacks"] := by decide

/-- ... and indeed violates `WF`. -/
example : ¬ C09Ex.bad.WF C09Ex.req [] := fun h =>
  absurd (h.oneEpsilon 0 { eorder := [0, 1] } rfl) (by decide)

/-- A pattern id that no state accepts is reported by clause (f). -/
example : C09Ex.a1.wfFailures C09Ex.req [5, 6] = ["f:pattern-not-accepted"] := by decide

end Pm
