/-
Props/C10Split.lean — C10 for the table domain's strategy 5 (`tTreeSplit`, Model/TableDom.lean):
one constraint index labels SEVERAL sibling nodes (`Ne(a, b)` decomposed into `Lt(a, b)` and
`Lt(b, a)`), the builder path in which `add_constraint_tree` emits two differently labelled
transitions to the same child. Valid indices, smallest constraint present, faithful for every
truth assignment that respects `Ne = Lt ∨ Gt` (true of every assignment obtained by evaluating
`TPred.check` on bound values: `c10_neSplitLaw_of_check`).
-/
import PmVerif.Props.C10
namespace Pm
open CTree

/-- The three shapes `tTreeSplit` can return. -/
theorem tTreeSplit_cases (cs : List TCons) :
    (sortWithIndices tconsLe cs = [] ∧ tTreeSplit cs = CTree.new) ∨
    (∃ c i rest, sortWithIndices tconsLe cs = (c, i) :: rest ∧ tTreeSplit cs = withChildren [(c, [i])]) ∨
    (∃ a b i rest, sortWithIndices tconsLe cs = (⟨.ne, [a, b]⟩, i) :: rest ∧
      tTreeSplit cs = withChildren [(⟨.lt, [a, b]⟩, [i]), (⟨.lt, [b, a]⟩, [i])]) := by
  unfold tTreeSplit
  split
  · rename_i h0; exact Or.inl ⟨h0, rfl⟩
  · rename_i c i rest h
    split
    · rename_i a b hp ha
      refine Or.inr (Or.inr ⟨a, b, i, rest, ?_, rfl⟩)
      rw [h]; congr 2
      cases c; simp_all
    · exact Or.inr (Or.inl ⟨c, i, rest, h, rfl⟩)

/-- A truth assignment is *consistent on inequalities* if `Ne(a, b)` holds exactly when one of
`Lt(a, b)`, `Lt(b, a)` does (true of every assignment that comes from evaluating the predicates on
bound values: `TPred.check`). -/
def NeSplitLaw (σ : TCons → Bool) : Prop :=
  ∀ a b, σ ⟨.ne, [a, b]⟩ = (σ ⟨.lt, [a, b]⟩ || σ ⟨.lt, [b, a]⟩)

/-- **C10 for strategy 5** (one constraint index on several sibling nodes): valid indices, the
smallest constraint is in the tree, and the tree is faithful for every assignment that respects
`Ne = Lt ∨ Gt`. -/
theorem c10_tTreeSplit (cs : List TCons) (σ : TCons → Bool) (hσ : NeSplitLaw σ) :
    (∀ i ∈ (tTreeSplit cs).allLabels, i < cs.length) ∧
    (∀ i ∈ (tTreeSplit cs).allLabels, ∀ c, cs[i]? = some c →
      ((tTreeSplit cs).reachLabel σ i = true ↔ σ c = true)) ∧
    (cs ≠ [] → ∃ x xs, sortWithIndices tconsLe cs = x :: xs ∧ x.2 ∈ (tTreeSplit cs).allLabels) := by
  rcases tTreeSplit_cases cs with ⟨h0, h⟩ | ⟨c, i, rest, hs, h⟩ | ⟨a, b, i, rest, hs, h⟩
  · rw [h]
    refine ⟨by simp [CTree.allLabels, CTree.new], by simp [CTree.allLabels, CTree.new], ?_⟩
    intro hne
    exact absurd h0 (sortWithIndices_ne_nil tconsLe hne)
  · have hm := (mem_sortWithIndices tconsLe cs c i).1 (by rw [hs]; simp)
    rw [h]
    have hl : (withChildren [(c, [i])]).allLabels = [i] := by
      simp [withChildren, getOrAddChild, CTree.new, CTree.childrenAt, CTree.modifyNode, CTree.addLabel, CTree.allLabels]
    refine ⟨?_, ?_, ?_⟩
    · intro j hj; rw [hl] at hj; simp at hj; subst hj
      exact (List.getElem?_eq_some_iff.1 hm).1
    · intro j hj c' hc'; rw [hl] at hj; simp at hj; subst hj
      rw [hm] at hc'; cases hc'
      simp [withChildren, getOrAddChild, CTree.new, CTree.childrenAt, CTree.modifyNode, CTree.addLabel,
        CTree.reachLabel, CTree.reachFrom, CTree.labelsAt]
    · intro _; exact ⟨_, _, hs, by rw [hl]; simp⟩
  · have hm := (mem_sortWithIndices tconsLe cs ⟨.ne, [a, b]⟩ i).1 (by rw [hs]; simp)
    rw [h]
    by_cases hab : a = b
    · subst hab
      have hl : (withChildren [((⟨.lt, [a, a]⟩ : TCons), [i]), (⟨.lt, [a, a]⟩, [i])]).allLabels = [i, i] := by
        simp [withChildren, getOrAddChild, CTree.new, CTree.childrenAt, CTree.modifyNode, CTree.addLabel, CTree.allLabels]
      refine ⟨?_, ?_, ?_⟩
      · intro j hj; rw [hl] at hj; simp at hj; subst hj
        exact (List.getElem?_eq_some_iff.1 hm).1
      · intro j hj c' hc'; rw [hl] at hj; simp at hj; subst hj
        rw [hm] at hc'; cases hc'
        rw [hσ a a]
        simp [withChildren, getOrAddChild, CTree.new, CTree.childrenAt, CTree.modifyNode, CTree.addLabel,
          CTree.reachLabel, CTree.reachFrom, CTree.labelsAt]
      · intro _; exact ⟨_, _, hs, by rw [hl]; simp⟩
    · have hne : ((⟨.lt, [a, b]⟩ : TCons) = ⟨.lt, [b, a]⟩) = False := by
        simp; intro h1; exact absurd h1 hab
      have hl : (withChildren [((⟨.lt, [a, b]⟩ : TCons), [i]), (⟨.lt, [b, a]⟩, [i])]).allLabels = [i, i] := by
        simp [withChildren, getOrAddChild, CTree.new, CTree.childrenAt, CTree.modifyNode, CTree.addLabel, CTree.allLabels, hab]
      refine ⟨?_, ?_, ?_⟩
      · intro j hj; rw [hl] at hj; simp at hj; subst hj
        exact (List.getElem?_eq_some_iff.1 hm).1
      · intro j hj c' hc'; rw [hl] at hj; simp at hj; subst hj
        rw [hm] at hc'; cases hc'
        rw [hσ a b]
        simp [withChildren, getOrAddChild, CTree.new, CTree.childrenAt, CTree.modifyNode, CTree.addLabel,
          CTree.reachLabel, CTree.reachFrom, CTree.labelsAt, hab]
      · intro _; exact ⟨_, _, hs, by rw [hl]; simp⟩
end Pm

namespace Pm

/-- Every assignment that comes from evaluating the table predicates on a binding of the keys
satisfies `NeSplitLaw`. -/
theorem c10_neSplitLaw_of_check (val : Nat → Nat) (h : THost) :
    NeSplitLaw (fun c => (TPred.check c.pred h (c.args.map val)).getD false) := by
  intro a b
  simp only [List.map_cons, List.map_nil, TPred.check, Option.getD_some]
  by_cases h1 : val a < val b
  · have : val a ≠ val b := by omega
    simp [h1, this]
  · by_cases h2 : val b < val a
    · have : val a ≠ val b := by omega
      simp [h1, h2, this]
    · have : val a = val b := by omega
      simp [this]

/-- Non-vacuity: `Ne(2, 1)` is split into two siblings carrying the same label. -/
example : (tTreeSplit [⟨.ne, [2, 1]⟩, ⟨.const 3, [5]⟩]).allLabels = [0, 0] ∧
    (tTreeSplit [⟨.ne, [2, 1]⟩, ⟨.const 3, [5]⟩]).nodes.length = 3 := by decide

end Pm

section AxiomAudit
open Pm
#print axioms c10_tTreeSplit
#print axioms c10_neSplitLaw_of_check
end AxiomAudit
