/-
Props/C08Final.lean — property C08 (totality: "for every set of well-formed patterns, construction
of `ManyMatcher` returns, and `find_matches` on any host runs to exhaustion, without panic, overflow
or non-termination"), THE FINAL STATEMENTS, one per domain. A composition of four files that were
written independently; nothing new is proved about the builder or the traversal here:

* `Props/C08.lean`      strings / matrices: traversal panic-only, termination bound, totality under
                        `C08.EpsLe1`; builder panic-only (up to "Graph should be acyclic");
* `Props/C08Acyc.lean`  acyclicity is a step invariant of EVERY main loop, for every `toTree`
                        (`c08_build_acyclic_invariant`): the acyclicity panic is unreachable;
* `Props/C08PG.lean`    port graphs: the same as `Props/C08.lean` — written before `C08Acyc`, so the
                        acyclicity tag is still an exception there;
* `Props/C09Eps.lean`   under the strict replay `buildTE` (c1T + c1C + c4T + c1D + c1E) every state
                        has at most one fallback transition (`C08.EpsLe1`), and the automaton is fully
                        well-formed.

PART 0 — `buildTD` / `buildTE` are `buildT` with one / two more guards, as a statement about ALL
  results: `buildTD_result_cases`, `buildTE_result_cases`, `buildTE_error_cases`.
PART 1 — port-graph builder: `c08_pg_build_no_panic` (every input list, EVERY log, all four
  disciplined replays, `fuelT` above the universe bound: never a panic — the acyclicity exception of
  `c08_pg_buildT_panic_only` is gone); `c08_pg_build_panic_only_tree` (ANY fuels: the only panic is
  the model artefact "to_constraints_tree"); `c08_pg_build_guard_only(_inputs)` (single-root, fuels above
  the explicit bounds: every error is a guard error of the replay).
PART 2 — port-graph traversal for the strict replay: `c08_pg_run_no_panic_TE`,
  `c08_pg_run_errors_TE`, `c08_pg_find_matches_total_TE`.
PART 3 — strings and matrices, builder for the strict replays: `c08_char_buildTE_no_panic`,
  `c08_str_buildTE_no_panic`, `c08_mat_buildTE_no_panic`, `c08_str_buildTE_guard_only`,
  `c08_mat_buildTE_guard_only`.
PART 4 — THE FINAL STATEMENTS `c08_string_total_TE`, `c08_matrix_total_TE`, `c08_pg_total_TE`
  (`c08_pg_no_panic_TE`: what remains for multi-root lists), and the baseline
  `c08_str_single_total`, `c08_mat_single_total`, `c08_pg_single_total_final`.
PART 5 — non-vacuity on the example logs of `Props/C09Eps.lean`.

What is assumed, everywhere: the event log is ARBITRARY (universally quantified); the strict replay
`manyBuildTE` is what decides whether a log is one the theorems speak about (it returns a guard
error otherwise; c1D and c1E are NOT facts of the Rust loop — the driver evaluates them on every
real log and flags the builds on which they fail as outside). Nothing is assumed about the built
automaton. Helpers: `Proofs/C08Final.lean`.
-/
import PmVerif.Proofs.C08Final
import PmVerif.Props.C08Acyc
import PmVerif.Props.C08PG
import PmVerif.Props.C09Eps
import PmVerif.Props.C01PGFinal
import PmVerif.Props.C05
namespace Pm
open Automaton AnchG PGDom PGComp PGFinal

/-! ## PART 0 — the strict replays only add guards (all results, errors included) -/

section Generic
variable {K P : Type} [DecidableEq K] [DecidableEq P]
  (toTree : List (Constraint K P) → Option (CTree (Constraint K P))) (req : K → List K)
  (fuel : Nat) (patterns : List (Nat × List (Constraint K P) × List K)) (evs : List Ev)

/-- **`buildTD` is `buildT` plus the guard c1D** — any domain, any decomposition, any log: either
c1D fires, or `buildTD` returns exactly what `buildT` returns (the same automaton or the same
error). (`C07.buildTD_imp_buildT` is the `.ok` half.) -/
theorem buildTD_result_cases :
    buildTD toTree req fuel patterns evs =
        .error (.guard "c1D: a child of the emitted state is already deterministic") ∨
      buildTD toTree req fuel patterns evs = buildT toTree req fuel patterns evs :=
  C08F.buildTD_cases toTree req fuel patterns evs

/-- **`buildTE` is `buildTD` plus the guard c1E**: either c1E fires, or `buildTE` returns exactly
what `buildTD` returns. (`buildTE_imp_buildTD` is the `.ok` half.) -/
theorem buildTE_result_cases :
    buildTE toTree req fuel patterns evs =
        .error (.guard
          "c1E: the emitted state or one of its children already has a fallback transition") ∨
      buildTE toTree req fuel patterns evs = buildTD toTree req fuel patterns evs :=
  C08F.buildTE_cases toTree req fuel patterns evs

/-- **The simulation of errors**: every error of `buildTE` is one of the two extra guards, or is
returned — the very same error — by `buildTD` and by `buildT`. -/
theorem buildTE_error_cases (e : Err) (h : buildTE toTree req fuel patterns evs = .error e) :
    e = .guard
        "c1E: the emitted state or one of its children already has a fallback transition" ∨
      e = .guard "c1D: a child of the emitted state is already deterministic" ∨
      (buildTD toTree req fuel patterns evs = .error e ∧
        buildT toTree req fuel patterns evs = .error e) :=
  C08F.buildTE_error_cases toTree req fuel patterns evs e h

/-- Hence: if `buildT` never panics on a log, neither do `buildTD` and `buildTE`; and if every error
of `buildT` is a guard error, so is every error of `buildTD` and `buildTE`. -/
theorem c08_strict_of_buildT :
    ((∀ tag, buildT toTree req fuel patterns evs ≠ .error (.panic tag)) →
      ∀ tag, buildTD toTree req fuel patterns evs ≠ .error (.panic tag) ∧
        buildTE toTree req fuel patterns evs ≠ .error (.panic tag)) ∧
    ((∀ e, buildT toTree req fuel patterns evs = .error e → C08.IsGuard e) →
      (∀ e, buildTD toTree req fuel patterns evs = .error e → C08.IsGuard e) ∧
      (∀ e, buildTE toTree req fuel patterns evs = .error e → C08.IsGuard e)) :=
  ⟨fun hT tag => C08F.strict_no_panic toTree req fuel patterns evs hT tag,
    fun hT => C08F.strict_only toTree req fuel patterns evs (fun _ hg => hg) hT⟩

/-- The `ManyMatcher` form: `manyBuildTE` returns (no conversion error) as soon as `manyInputs`
does, and its errors are the errors of `buildTE` on those inputs. -/
theorem C08F.manyBuildTE_of_inputs {Pat : Type}
    {convert : Pat → Option (List (Constraint K P))} {extra : Pat → List K} {ff : Bool}
    {pats : List Pat} {inputs : List (Nat × List (Constraint K P) × List K)}
    (hin : manyInputs convert extra ff pats 0 = some inputs) :
    ∃ r, manyBuildTE convert extra toTree req fuel ff pats evs = some r ∧
      ∀ e, r = .error e → buildTE toTree req fuel inputs evs = .error e := by
  unfold manyBuildTE
  rw [hin]
  refine ⟨_, rfl, fun e he => ?_⟩
  cases hb : buildTE toTree req fuel inputs evs with
  | error e' => rw [hb] at he; cases he; rfl
  | ok a => rw [hb] at he; cases he

end Generic

/-! ## PART 1 — the port-graph builder never panics -/

/-- **C08, goal 3, port graphs: the builder never panics.** For EVERY input list (no hypothesis:
multi-root vectors, the isolated-root vector, even arity-incorrect constraints), EVERY event log,
every indexing scheme `req` (in particular `pgReq`), every `fuel`, and `fuelT ≥
C08PG.pgTreeBound inputs = 2 ^ (|universe| + 1)` (the MODEL's fuel for `with_powerset`; the Rust
loop has none), none of the four disciplined replays — `buildT` (guarded), `buildTL` (the Rust code
as it runs), `buildTD` (c1D), `buildTE` (c1D + c1E) — over `pgTree` returns a panic:
`c08_pg_buildT_panic_only` left "Graph should be acyclic", and acyclicity is a step invariant
(`c08_build_acyclic_invariant`). -/
theorem c08_pg_build_no_panic (req : PGKey → List PGKey) (fuel fuelT : Nat)
    (inputs : List (Nat × List PGCons × List PGKey))
    (hfT : C08PG.pgTreeBound inputs ≤ fuelT) (evs : List Ev) (tag : String) :
    buildT (fun cs => pgTree cs fuelT) req fuel inputs evs ≠ .error (.panic tag) ∧
    buildTL (fun cs => pgTree cs fuelT) req fuel inputs evs ≠ .error (.panic tag) ∧
    buildTD (fun cs => pgTree cs fuelT) req fuel inputs evs ≠ .error (.panic tag) ∧
    buildTE (fun cs => pgTree cs fuelT) req fuel inputs evs ≠ .error (.panic tag) := by
  have hac := fun a1 a2 h1 => c08_build_acyclic_invariant (fun cs => pgTree cs fuelT) req fuel
    inputs evs evs.length [] a1 a2 h1
  have hT : ∀ tag, buildT (fun cs => pgTree cs fuelT) req fuel inputs evs ≠ .error (.panic tag) := by
    intro tag ht
    have hf : C08.Fine (buildT (fun cs => pgTree cs fuelT) req fuel inputs evs) := by
      rw [C08.buildT_eq_buildWith]
      exact C08PG.pg_buildWith_noPanic_of_acyclic inputs C08PG.detOKQ_makeDet req fuel fuelT hfT
        evs (fun a1 a2 h1 h2 => ((hac a1 a2 h1).1 h2).2.2.1)
    exact hf.not_panic tag ht
  have hTL := c08_pg_buildTL_no_panic_of_acyclic req fuel fuelT inputs hfT evs
    (fun a1 a2 h1 h2 => ((hac a1 a2 h1).2.1 h2).2.2.1)
  obtain ⟨hD, hE⟩ := C08F.strict_no_panic (fun cs => pgTree cs fuelT) req fuel inputs evs hT tag
  exact ⟨hT tag, hTL tag, hD, hE⟩

/-- **C08, goal 3, port graphs, ANY fuels**: for every input list, EVERY event log, every scheme and
every `fuel`, `fuelT` (no bound at all), the only panic the four disciplined replays can return is
"to_constraints_tree" — in the model `pgTree cs fuelT = none`: the MODEL's fuel for the worklist
loop of `with_powerset` ran out (the Rust loop has no fuel and terminates: `tpg_tree_terminates`;
`PGPredicate::to_constraints_tree` has no panic site). (`c08_pg_buildT_panic_tags` without the
acyclicity tag.) -/
theorem c08_pg_build_panic_only_tree (req : PGKey → List PGKey) (fuel fuelT : Nat)
    (inputs : List (Nat × List PGCons × List PGKey)) (evs : List Ev) (tag : String) :
    (buildT (fun cs => pgTree cs fuelT) req fuel inputs evs = .error (.panic tag) →
      tag = C08PG.treeTag) ∧
    (buildTL (fun cs => pgTree cs fuelT) req fuel inputs evs = .error (.panic tag) →
      tag = C08PG.treeTag) ∧
    (buildTD (fun cs => pgTree cs fuelT) req fuel inputs evs = .error (.panic tag) →
      tag = C08PG.treeTag) ∧
    (buildTE (fun cs => pgTree cs fuelT) req fuel inputs evs = .error (.panic tag) →
      tag = C08PG.treeTag) := by
  have hac := fun a1 a2 h1 => c08_build_acyclic_invariant (fun cs => pgTree cs fuelT) req fuel
    inputs evs evs.length [] a1 a2 h1
  have hT : C08.Only C08PG.PanicA (buildT (fun cs => pgTree cs fuelT) req fuel inputs evs) := by
    rw [C08.buildT_eq_buildWith]
    exact C08F.pg_buildWith_only_tree C08PG.detOKQ_makeDet req fuel fuelT inputs evs
      (fun a1 a2 h1 h2 => ((hac a1 a2 h1).1 h2).2.2.1)
  have hTL : C08.Only C08PG.PanicA (buildTL (fun cs => pgTree cs fuelT) req fuel inputs evs) := by
    rw [C08.buildTL_eq_buildWith]
    exact C08F.pg_buildWith_only_tree C08PG.detOKQ_makeDetL req fuel fuelT inputs evs
      (fun a1 a2 h1 h2 => ((hac a1 a2 h1).2.1 h2).2.2.1)
  obtain ⟨hD, hE⟩ := C08F.strict_only (A := C08PG.PanicA) (fun cs => pgTree cs fuelT) req fuel
    inputs evs (fun _ hg => .inl hg.noPanic) hT
  have key : ∀ {r : R (Automaton PGKey PGPred)}, (∀ e, r = .error e → C08PG.PanicA e) →
      r = .error (.panic tag) → tag = C08PG.treeTag := by
    intro r h ht
    rcases h _ ht with h1 | h1
    · exact absurd rfl (h1 tag)
    · cases h1; rfl
  exact ⟨key hT, key hTL, key hD, key hE⟩

/-- A result that never panics and whose errors are guard errors or the acyclicity panic has guard
errors only. -/
theorem C08F.guard_of_or {α : Type} {r : R α} (hnp : ∀ tag, r ≠ .error (.panic tag))
    (h : ∀ e, r = .error e → C08.IsGuard e ∨ e = .panic C08.acyclicTag) :
    ∀ e, r = .error e → C08.IsGuard e := by
  intro e he
  rcases h e he with hg | hp
  · exact hg
  · subst hp; exact absurd he (hnp _)

/-- **C08, goals 3/4, port graphs, single-root inputs: every error is a guard error.** With
`fuel ≥ C08PG.pgBuildBound inputs = max 16 (2 ^ (|universe| + 1))` and `fuelT ≥
C08PG.pgTreeBound inputs`, on EVERY log, every error of the four disciplined replays is a guard
error of the replay (the log is not one the Rust loop can produce — or, for `buildTD` / `buildTE`,
one on which c1D / c1E fails): no panic, no fuel error. -/
theorem c08_pg_build_guard_only_inputs (inputs : List (Nat × List PGCons × List PGKey))
    (hsr : ∀ p ∈ inputs, (∀ c ∈ p.2.1, pgSingleRootKeys c.args = true) ∧
      pgSingleRootKeys p.2.2 = true)
    (fuel fuelT : Nat) (hfuel : C08PG.pgBuildBound inputs ≤ fuel)
    (hfT : C08PG.pgTreeBound inputs ≤ fuelT) (evs : List Ev) :
    (∀ e, buildTL (fun cs => pgTree cs fuelT) pgReq fuel inputs evs = .error e → C08.IsGuard e) ∧
    (∀ e, buildT (fun cs => pgTree cs fuelT) pgReq fuel inputs evs = .error e → C08.IsGuard e) ∧
    (∀ e, buildTD (fun cs => pgTree cs fuelT) pgReq fuel inputs evs = .error e → C08.IsGuard e) ∧
    (∀ e, buildTE (fun cs => pgTree cs fuelT) pgReq fuel inputs evs = .error e → C08.IsGuard e) := by
  obtain ⟨h1, h2⟩ := c08_pg_build_errors_inputs inputs hsr fuel fuelT hfuel hfT evs
  have hnp := c08_pg_build_no_panic pgReq fuel fuelT inputs hfT evs
  have hT := C08F.guard_of_or (fun tag => (hnp tag).1) h2
  obtain ⟨hD, hE⟩ := C08F.strict_only (fun cs => pgTree cs fuelT) pgReq fuel inputs evs
    (fun _ hg => hg) hT
  exact ⟨C08F.guard_of_or (fun tag => (hnp tag).2.1) h1, hT, hD, hE⟩

/-- **C08, goals 3/4 for single-root port-graph pattern lists** (`ManyMatcher` inputs): with the
fuel bounds of `c08_pg_build_errors`, every error of the four disciplined replays, on EVERY log, is
a guard error. -/
theorem c08_pg_build_guard_only (pats : List (PortGraph × Nat)) (evs : List Ev) (fuel fuelT : Nat)
    (inputs : List (Nat × List PGCons × List PGKey))
    (hsr : ∀ p ∈ pats, ∀ cs, pgConstraints p.1 p.2 = some cs → pgSigMultiRoot cs = false)
    (hin : manyInputs (fun p : PortGraph × Nat => pgConstraints p.1 p.2)
      (fun _ => ([] : List PGKey)) true pats 0 = some inputs)
    (hfuel : C08PG.pgBuildBound inputs ≤ fuel) (hfT : C08PG.pgTreeBound inputs ≤ fuelT) :
    (∀ e, buildTL (fun cs => pgTree cs fuelT) pgReq fuel inputs evs = .error e → C08.IsGuard e) ∧
    (∀ e, buildT (fun cs => pgTree cs fuelT) pgReq fuel inputs evs = .error e → C08.IsGuard e) ∧
    (∀ e, buildTD (fun cs => pgTree cs fuelT) pgReq fuel inputs evs = .error e → C08.IsGuard e) ∧
    (∀ e, buildTE (fun cs => pgTree cs fuelT) pgReq fuel inputs evs = .error e → C08.IsGuard e) := by
  obtain ⟨h1, h2⟩ := c08_pg_build_errors pats evs fuel fuelT inputs hsr hin hfuel hfT
  have hnp := c08_pg_build_no_panic pgReq fuel fuelT inputs hfT evs
  have hT := C08F.guard_of_or (fun tag => (hnp tag).1) h2
  obtain ⟨hD, hE⟩ := C08F.strict_only (fun cs => pgTree cs fuelT) pgReq fuel inputs evs
    (fun _ hg => hg) hT
  exact ⟨C08F.guard_of_or (fun tag => (hnp tag).2.1) h1, hT, hD, hE⟩

/-! ## PART 2 — the port-graph traversal for the strict replay -/

section PGRun
variable (pats : List (PortGraph × Nat)) (evs : List Ev) (fuelT fuel : Nat)
  (M : Many PGKey PGPred)

/-- **C08, port graphs, goal 1 at full strength for the strict replay**: the traversal of an
automaton built through `buildTE` never panics — EVERY pattern list (multi-root patterns and the
isolated-root vector included), every accepted event log, every fuels, EVERY host value (no
`LinksOK`), every traversal fuel; no epsilon hypothesis, no per-build check. -/
theorem c08_pg_run_no_panic_TE
    (hb : manyBuildTE (fun p : PortGraph × Nat => pgConstraints p.1 p.2)
      (fun _ => ([] : List PGKey)) (fun cs => pgTree cs fuelT) pgReq fuel true pats evs =
        some (.ok M)) (h : PortGraph) (fuel' : Nat) :
    ∀ tag, run pgDomain M.automaton h fuel' ≠ .error (.panic tag) := by
  obtain ⟨_, hb', hc⟩ := manyBuildTE_inv hb
  exact c08_pg_run_no_panic_partial pats evs fuelT fuel M hb' hc h fuel'

/-- The only error the traversal can return is the fuel error — and, for single-root pattern lists,
not above the explicit bound `C08PG.pgRunBound`. -/
theorem c08_pg_run_errors_TE
    (hb : manyBuildTE (fun p : PortGraph × Nat => pgConstraints p.1 p.2)
      (fun _ => ([] : List PGKey)) (fun cs => pgTree cs fuelT) pgReq fuel true pats evs =
        some (.ok M)) (h : PortGraph) (fuel' : Nat) :
    (∀ e, run pgDomain M.automaton h fuel' = .error e → e = .fuel "traversal") ∧
    ((∀ p ∈ pats, ∀ cs, pgConstraints p.1 p.2 = some cs → pgSigMultiRoot cs = false) →
      C08PG.pgRunBound M.automaton h ≤ fuel' →
      ∀ e, run pgDomain M.automaton h fuel' ≠ .error e) := by
  obtain ⟨_, hb', hc⟩ := manyBuildTE_inv hb
  obtain ⟨_, hg, hf⟩ := c08_pg_run_panic_only pats evs fuelT fuel M hb' h fuel'
  have hp := c08_pg_run_no_panic_partial pats evs fuelT fuel M hb' hc h fuel'
  refine ⟨fun e he => ?_, fun hsr hbd e he => ?_⟩
  · cases e with
    | panic tag => exact absurd he (hp tag)
    | guard tag => exact absurd he (hg tag)
    | fuel tag => rw [hf tag he]
  · cases e with
    | panic tag => exact hp tag he
    | guard tag => exact hg tag he
    | fuel tag => exact c08_pg_run_terminates pats evs fuelT fuel M hsr hb' h fuel' hbd tag he

/-- **C08, port graphs: `find_matches` is total** for the strict replay of single-root pattern
lists: for every host value and every fuel above the explicit bound `C08PG.pgRunBound`, `run`
returns — no hypothesis on the built automaton. -/
theorem c08_pg_find_matches_total_TE
    (hsr : ∀ p ∈ pats, ∀ cs, pgConstraints p.1 p.2 = some cs → pgSigMultiRoot cs = false)
    (hb : manyBuildTE (fun p : PortGraph × Nat => pgConstraints p.1 p.2)
      (fun _ => ([] : List PGKey)) (fun cs => pgTree cs fuelT) pgReq fuel true pats evs =
        some (.ok M)) (h : PortGraph) (fuel' : Nat)
    (hf : C08PG.pgRunBound M.automaton h ≤ fuel') :
    ∃ ms seen, run pgDomain M.automaton h fuel' = .ok (ms, seen) ∧
      M.findMatches pgDomain h fuel' = .ok ms := by
  obtain ⟨_, hb', hc⟩ := manyBuildTE_inv hb
  exact c08_pg_find_matches_total pats evs fuelT fuel M hsr hb' hc h fuel' hf

end PGRun

/-! ## PART 3 — strings and matrices: the strict replays never panic -/

/-- **Goal 3, generic, strict replays**: `buildTD` and `buildTE` over arity-correct character
constraints never panic — any key type, order, scheme, log, fuel. -/
theorem c08_char_buildTE_no_panic {K : Type} [DecidableEq K] (lt : K → K → Bool)
    (req : K → List K) (fuel : Nat)
    (inputs : List (Nat × List (Constraint K CharPred) × List K))
    (har : ∀ p ∈ inputs, ∀ c ∈ p.2.1, c.args.length = c.pred.arity) (evs : List Ev) (tag : String) :
    buildTD (charTree lt) req fuel inputs evs ≠ .error (.panic tag) ∧
    buildTE (charTree lt) req fuel inputs evs ≠ .error (.panic tag) :=
  C08F.strict_no_panic (charTree lt) req fuel inputs evs
    (fun t => (c08_char_build_no_panic lt req fuel inputs har evs t).2) tag

/-- **C08, goal 3, strings, the strict replay `buildTE`: never a panic** — every pattern list,
EVERY event log, every fuel. -/
theorem c08_str_buildTE_no_panic (ps : List (List CharVar)) (evs : List Ev) (fuel : Nat)
    (inputs : List (Nat × List StrCons × List Nat))
    (hin : manyInputs (fun p => some (strConstraints p)) (fun _ => ([] : List Nat)) true ps 0 =
      some inputs) (tag : String) :
    buildTE (charTree natLt) strReq fuel inputs evs ≠ .error (.panic tag) :=
  (C08F.strict_no_panic (charTree natLt) strReq fuel inputs evs
    (fun t => (c08_str_build_no_panic ps evs fuel inputs hin t).1) tag).2

/-- **C08, goal 3, matrices, the strict replay `buildTE`: never a panic.** -/
theorem c08_mat_buildTE_no_panic (ps : List MatPattern) (evs : List Ev) (fuel : Nat)
    (inputs : List (Nat × List MatCons × List MKey))
    (hin : manyInputs (fun p => some (matConstraints p)) (fun _ => ([] : List MKey)) true ps 0 =
      some inputs) (tag : String) :
    buildTE (charTree mkeyLt) matReq fuel inputs evs ≠ .error (.panic tag) :=
  (C08F.strict_no_panic (charTree mkeyLt) matReq fuel inputs evs
    (fun t => (c08_mat_build_no_panic ps evs fuel inputs hin t).1) tag).2

/-- **C08, goal 4, strings, strict replays**: with `fuel ≥ 16` every error of `buildTD` and of
`buildTE`, on EVERY log, is a guard error of the replay: no panic, no fuel error. -/
theorem c08_str_buildTE_guard_only (ps : List (List CharVar)) (evs : List Ev) (fuel : Nat)
    (hfuel : 16 ≤ fuel) (inputs : List (Nat × List StrCons × List Nat))
    (hin : manyInputs (fun p => some (strConstraints p)) (fun _ => ([] : List Nat)) true ps 0 =
      some inputs) :
    (∀ e, buildTD (charTree natLt) strReq fuel inputs evs = .error e → C08.IsGuard e) ∧
    (∀ e, buildTE (charTree natLt) strReq fuel inputs evs = .error e → C08.IsGuard e) :=
  C08F.strict_only (charTree natLt) strReq fuel inputs evs (fun _ hg => hg)
    (c08_str_build_guard_only ps evs fuel hfuel inputs hin).2

/-- **C08, goal 4, matrices, strict replays.** -/
theorem c08_mat_buildTE_guard_only (ps : List MatPattern) (evs : List Ev) (fuel : Nat)
    (hfuel : 16 ≤ fuel) (inputs : List (Nat × List MatCons × List MKey))
    (hin : manyInputs (fun p => some (matConstraints p)) (fun _ => ([] : List MKey)) true ps 0 =
      some inputs) :
    (∀ e, buildTD (charTree mkeyLt) matReq fuel inputs evs = .error e → C08.IsGuard e) ∧
    (∀ e, buildTE (charTree mkeyLt) matReq fuel inputs evs = .error e → C08.IsGuard e) :=
  C08F.strict_only (charTree mkeyLt) matReq fuel inputs evs (fun _ hg => hg)
    (c08_mat_build_guard_only ps evs fuel hfuel inputs hin).2

/-! ## PART 4 — THE FINAL STATEMENTS

`manyBuildTE convert extra toTree req fuel true pats evs : Option (R (Many K P))` is
`ManyMatcher::try_from_patterns_with_det_heuristic` as a replay of the event log `evs` (outer
`none` = a pattern failed to convert; impossible in the three domains below). `R α = Except Err α`
with `Err = panic tag | fuel tag | guard tag`: `panic` is a Rust panic site (`unwrap`, `expect`,
`assert!`, index), `fuel` is the model's termination device (the Rust loops have none), `guard`
means "this event log is not one the theorems speak about". `C08.IsGuard e := ∃ t, e = .guard t`. -/

/-- **C08 for STRINGS — final statement.** For every list `ps` of string patterns (ANY list: empty
patterns, variables, duplicates), EVERY event log `evs` and every builder fuel `fuel`:

(i) the strict replay `manyBuildTE` returns (no conversion error) a result `r` that is never a
    panic; with `fuel ≥ 16` every error is a GUARD error (the log is not one the Rust loop can
    produce, or one on which c1D / c1E fails) — no fuel error;
for every matcher `M` it returns (`r = .ok M`):
(iv) the automaton satisfies ALL clauses of `Automaton.WF` and the executable `wfCheck` accepts it;
(ii) for EVERY host `h` and EVERY traversal fuel `fuel'`, `find_matches` never panics, its only
    possible error is the fuel error "traversal", and for `fuel' ≥ C08.strRunBound M.automaton h =
    geom (max 1 (strByteLen h) · outDeg) |node slots|` it returns `.ok ms`;
(iii) `ms` has no duplicates and counts each occurrence of each pattern exactly once (the empty
    pattern once, unbound).
ASSUMED: nothing beyond the quantifiers above. The replay is the STRICT one (`buildTE` = `buildT` +
c1D + c1E): c1D / c1E are not facts of the Rust loop, so a real log may land in the guard branch
of (i) (≈ 0.03 % of real string builds for c1D; c1E held on every real log examined). -/
theorem c08_string_total_TE (ps : List (List CharVar)) (evs : List Ev) (fuel : Nat) :
    ∃ r, manyBuildTE (fun p => some (strConstraints p)) (fun _ => ([] : List Nat))
        (charTree natLt) strReq fuel true ps evs = some r ∧
      (∀ tag, r ≠ .error (.panic tag)) ∧
      (16 ≤ fuel → ∀ e, r = .error e → C08.IsGuard e) ∧
      ∀ M, r = .ok M →
        (M.automaton.WF strReq M.ids ∧ M.automaton.wfCheck strReq M.ids = true) ∧
        ∀ (h : List Nat) (fuel' : Nat),
          (∀ tag, M.findMatches strDomain h fuel' ≠ .error (.panic tag)) ∧
          (∀ e, M.findMatches strDomain h fuel' = .error e → e = .fuel "traversal") ∧
          (C08.strRunBound M.automaton h ≤ fuel' →
            ∃ ms, M.findMatches strDomain h fuel' = .ok ms ∧ ms.Nodup ∧
              ∀ i p, ps[i]? = some p →
                (p = [] → ms.count (i, StrPos.unbound) = 1) ∧
                (p ≠ [] → ∀ a, ms.count (i, StrPos.bound a p.length) =
                  if occursStr p h a then 1 else 0)) := by
  obtain ⟨inputs, hin⟩ := C08F.manyInputs_total (fun p : List CharVar => some (strConstraints p))
    (fun _ => ([] : List Nat)) true ps (fun _ _ => rfl) 0
  obtain ⟨r, hr, herr⟩ := C08F.manyBuildTE_of_inputs (charTree natLt) strReq fuel evs hin
  refine ⟨r, hr, fun tag ht => c08_str_buildTE_no_panic ps evs fuel inputs hin tag (herr _ ht),
    fun hfuel e he => (c08_str_buildTE_guard_only ps evs fuel hfuel inputs hin).2 e (herr e he),
    fun M hM => ?_⟩
  subst hM
  refine ⟨c09_many_wf_TE _ _ _ strReq StrProg.strReq_acyclic fuel true ps evs M hr,
    fun h fuel' => ⟨fun tag ht => ?_, fun e he => ?_, fun hf => ?_⟩⟩
  · exact c08_str_run_no_panic_TE ps evs fuel M hr h fuel' tag (C08F.findMatches_error ht)
  · exact (c08_str_run_errors_TE ps evs fuel M hr h fuel').1 e (C08F.findMatches_error he)
  · exact c0708_str_TE ps evs fuel M hr h fuel' hf

/-- **C08 for MATRICES — final statement.** For every list `ps` of matrix patterns (ANY list),
EVERY event log and every builder fuel; hosts may be ragged or empty:

(i) `manyBuildTE` returns a result that is never a panic; with `fuel ≥ 16` every error is a GUARD
    error;
for every matcher `M` it returns:
(iv) the automaton is fully well-formed (`Automaton.WF`, `wfCheck = true`);
(ii) for EVERY host and EVERY `fuel'`, `find_matches` never panics, its only possible error is the
    fuel error "traversal", and for `fuel' ≥ C08.matRunBound M.automaton h` (the number of host
    cells instead of `strByteLen h`) it returns `.ok ms`;
(iii) `ms` has no duplicates and counts each occurrence (anchor `(r, c)`, the pattern's bounding box
    as extent) of each pattern exactly once.
ASSUMED: nothing beyond the quantifiers; the replay is the strict one (see
`c08_string_total_TE`). -/
theorem c08_matrix_total_TE (ps : List MatPattern) (evs : List Ev) (fuel : Nat) :
    ∃ r, manyBuildTE (fun p => some (matConstraints p)) (fun _ => ([] : List MKey))
        (charTree mkeyLt) matReq fuel true ps evs = some r ∧
      (∀ tag, r ≠ .error (.panic tag)) ∧
      (16 ≤ fuel → ∀ e, r = .error e → C08.IsGuard e) ∧
      ∀ M, r = .ok M →
        (M.automaton.WF matReq M.ids ∧ M.automaton.wfCheck matReq M.ids = true) ∧
        ∀ (h : MatHost) (fuel' : Nat),
          (∀ tag, M.findMatches matDomain h fuel' ≠ .error (.panic tag)) ∧
          (∀ e, M.findMatches matDomain h fuel' = .error e → e = .fuel "traversal") ∧
          (C08.matRunBound M.automaton h ≤ fuel' →
            ∃ ms, M.findMatches matDomain h fuel' = .ok ms ∧ ms.Nodup ∧
              ∀ i p, ps[i]? = some p → ∀ r c,
                ms.count (i, MatPos.bound r c 0 0 (matExtent p).1 (matExtent p).2) =
                  if occursMat p h r c then 1 else 0) := by
  obtain ⟨inputs, hin⟩ := C08F.manyInputs_total (fun p : MatPattern => some (matConstraints p))
    (fun _ => ([] : List MKey)) true ps (fun _ _ => rfl) 0
  obtain ⟨r, hr, herr⟩ := C08F.manyBuildTE_of_inputs (charTree mkeyLt) matReq fuel evs hin
  refine ⟨r, hr, fun tag ht => c08_mat_buildTE_no_panic ps evs fuel inputs hin tag (herr _ ht),
    fun hfuel e he => (c08_mat_buildTE_guard_only ps evs fuel hfuel inputs hin).2 e (herr e he),
    fun M hM => ?_⟩
  subst hM
  refine ⟨c09_many_wf_TE _ _ _ matReq MatProg.matReq_acyclic fuel true ps evs M hr,
    fun h fuel' => ⟨fun tag ht => ?_, fun e he => ?_, fun hf => ?_⟩⟩
  · exact c08_mat_run_no_panic_TE ps evs fuel M hr h fuel' tag (C08F.findMatches_error ht)
  · exact (c08_mat_run_errors_TE ps evs fuel M hr h fuel').1 e (C08F.findMatches_error he)
  · exact c0708_mat_TE ps evs fuel M hr h fuel' hf

/-- The builder inputs `(id, constraint_vec, [])` of a port-graph pattern list (`manyInputs` never
fails on port graphs: `c08_pg_inputs_eq`); the explicit fuel bounds of the port-graph build are
functions of it. -/
def C08F.pgInputs (pats : List (PortGraph × Nat)) : List (Nat × List PGCons × List PGKey) :=
  (manyInputs (fun p : PortGraph × Nat => pgConstraints p.1 p.2) (fun _ => ([] : List PGKey)) true
    pats 0).getD []

theorem c08_pg_inputs_eq (pats : List (PortGraph × Nat)) :
    manyInputs (fun p : PortGraph × Nat => pgConstraints p.1 p.2) (fun _ => ([] : List PGKey)) true
      pats 0 = some (C08F.pgInputs pats) := by
  obtain ⟨inputs, hin⟩ := c08_pg_inputs_total pats
  unfold C08F.pgInputs
  rw [hin]
  rfl

/-- **C08 for PORT GRAPHS, every pattern list (multi-root included) — what holds without the
single-root hypothesis**: for EVERY list of `(graph, root)` patterns, EVERY event log and fuels:
`manyBuildTE` returns a result whose only possible panic is the model artefact
"to_constraints_tree" and that, for `fuelT ≥ C08PG.pgTreeBound (C08F.pgInputs pats)`, is never a
panic; every automaton it returns (any fuels) is fully well-formed, and its traversal of
EVERY host value with EVERY fuel never panics — its only possible error is the fuel error
"traversal". (No termination bound: the candidate bound of `C08PG.pgRunBound` is proved for
single-root scopes only; C01/C02 FAIL for multi-root patterns, known finding F3b.) -/
theorem c08_pg_no_panic_TE (pats : List (PortGraph × Nat)) (evs : List Ev) (fuel fuelT : Nat) :
    ∃ r, manyBuildTE (fun p : PortGraph × Nat => pgConstraints p.1 p.2)
        (fun _ => ([] : List PGKey)) (fun cs => pgTree cs fuelT) pgReq fuel true pats evs =
          some r ∧
      (∀ tag, r = .error (.panic tag) → tag = C08PG.treeTag) ∧
      (C08PG.pgTreeBound (C08F.pgInputs pats) ≤ fuelT → ∀ tag, r ≠ .error (.panic tag)) ∧
      ∀ M, r = .ok M →
        (M.automaton.WF pgReq M.ids ∧ M.automaton.wfCheck pgReq M.ids = true) ∧
        ∀ (h : PortGraph) (fuel' : Nat),
          (∀ tag, M.findMatches pgDomain h fuel' ≠ .error (.panic tag)) ∧
          (∀ e, M.findMatches pgDomain h fuel' = .error e → e = .fuel "traversal") := by
  have hin := c08_pg_inputs_eq pats
  obtain ⟨r, hr, herr⟩ := C08F.manyBuildTE_of_inputs (fun cs => pgTree cs fuelT) pgReq fuel evs hin
  refine ⟨r, hr, fun tag ht =>
    (c08_pg_build_panic_only_tree pgReq fuel fuelT _ evs tag).2.2.2 (herr _ ht), fun hfT tag ht =>
    (c08_pg_build_no_panic pgReq fuel fuelT _ hfT evs tag).2.2.2 (herr _ ht), fun M hM => ?_⟩
  subst hM
  refine ⟨c09_many_wf_TE _ _ _ pgReq c09_pgReq_acyclic fuel true pats evs M hr,
    fun h fuel' => ⟨fun tag ht => ?_, fun e he => ?_⟩⟩
  · exact c08_pg_run_no_panic_TE pats evs fuelT fuel M hr h fuel' tag (C08F.findMatches_error ht)
  · exact (c08_pg_run_errors_TE pats evs fuelT fuel M hr h fuel').1 e (C08F.findMatches_error he)

/-- **C08 for PORT GRAPHS — final statement.** For every list `pats` of `(graph, root)` patterns
each of whose `constraint_vec` is SINGLE-ROOT (`hsr`; the complement of known finding F3b — the
isolated-root vector is allowed), EVERY event log `evs`, every builder fuel `fuel` and every fuel
`fuelT` of the model's `with_powerset` loop:

(i) the strict replay `manyBuildTE` returns (no conversion error) a result `r`; whatever the
    fuels its only possible panic is the model artefact "to_constraints_tree"; with
    `fuelT ≥ C08PG.pgTreeBound inputs = 2 ^ (|universe| + 1)` it is never a panic; with moreover
    `fuel ≥ C08PG.pgBuildBound inputs = max 16 (2 ^ (|universe| + 1))` every error is a GUARD error
    (`inputs = C08F.pgInputs pats`; below `pgTreeBound` the model can report "to_constraints_tree" —
    its own fuel, the Rust loop has none);
for every matcher `M` it returns (whatever the fuels):
(iv) the automaton is fully well-formed (`Automaton.WF`, `wfCheck = true`);
(ii) for EVERY host value `h` (no `LinksOK`) and EVERY `fuel'`, `find_matches` never panics, its
    only possible error is the fuel error "traversal", and for `fuel' ≥ C08PG.pgRunBound
    M.automaton h = geom (max 1 |live host nodes| · outDeg) |node slots|` it returns `.ok ms`;
(iii) if moreover the host is well-formed (`h.LinksOK`) and every pattern is well-formed, connected
    and rooted at a live node, the reported set is EXACTLY the embeddings: a binding with the same
    `get` as `m` is reported with id `i` iff `i` is the position of a pattern `(g, root)` and `m`
    is the binding induced by an embedding of `g` into `h` (`c01_c02_pg_holds`).
ASSUMED: `hsr`; for (iii) the domain hypotheses of `Props/C01PGFinal.lean`; the replay is the strict
one (see `c08_string_total_TE`; c1D fails on 0.1–0.2 % of real port-graph logs). -/
theorem c08_pg_total_TE (pats : List (PortGraph × Nat)) (evs : List Ev) (fuel fuelT : Nat)
    (hsr : ∀ p ∈ pats, ∀ cs, pgConstraints p.1 p.2 = some cs → pgSigMultiRoot cs = false) :
    ∃ r, manyBuildTE (fun p : PortGraph × Nat => pgConstraints p.1 p.2)
        (fun _ => ([] : List PGKey)) (fun cs => pgTree cs fuelT) pgReq fuel true pats evs =
          some r ∧
      (∀ tag, r = .error (.panic tag) → tag = C08PG.treeTag) ∧
      (C08PG.pgTreeBound (C08F.pgInputs pats) ≤ fuelT → ∀ tag, r ≠ .error (.panic tag)) ∧
      (C08PG.pgBuildBound (C08F.pgInputs pats) ≤ fuel →
        C08PG.pgTreeBound (C08F.pgInputs pats) ≤ fuelT → ∀ e, r = .error e → C08.IsGuard e) ∧
      ∀ M, r = .ok M →
        (M.automaton.WF pgReq M.ids ∧ M.automaton.wfCheck pgReq M.ids = true) ∧
        ∀ (h : PortGraph) (fuel' : Nat),
          (∀ tag, M.findMatches pgDomain h fuel' ≠ .error (.panic tag)) ∧
          (∀ e, M.findMatches pgDomain h fuel' = .error e → e = .fuel "traversal") ∧
          (C08PG.pgRunBound M.automaton h ≤ fuel' →
            ∃ ms, M.findMatches pgDomain h fuel' = .ok ms ∧
              (h.LinksOK →
                (∀ p ∈ pats, p.1.LinksOK ∧ pgConnected p.1 = true ∧
                  (p.1.node? p.2).isSome = true) →
                ∀ i m, (∃ m', (i, m') ∈ ms ∧ MapEqv m' m) ↔
                  ∃ g root φ, pats[i]? = some (g, root) ∧ embedsPG g h φ = true ∧
                    BindingOf g root φ m)) := by
  have hin := c08_pg_inputs_eq pats
  obtain ⟨r, hr, herr⟩ := C08F.manyBuildTE_of_inputs (fun cs => pgTree cs fuelT) pgReq fuel evs hin
  refine ⟨r, hr, fun tag ht =>
    (c08_pg_build_panic_only_tree pgReq fuel fuelT _ evs tag).2.2.2 (herr _ ht), fun hfT tag ht =>
    (c08_pg_build_no_panic pgReq fuel fuelT _ hfT evs tag).2.2.2 (herr _ ht),
    fun hfuel hfT e he =>
      (c08_pg_build_guard_only pats evs fuel fuelT _ hsr hin hfuel hfT).2.2.2 e (herr e he),
    fun M hM => ?_⟩
  subst hM
  refine ⟨c09_many_wf_TE _ _ _ pgReq c09_pgReq_acyclic fuel true pats evs M hr,
    fun h fuel' => ⟨fun tag ht => ?_, fun e he => ?_, fun hf => ?_⟩⟩
  · exact c08_pg_run_no_panic_TE pats evs fuelT fuel M hr h fuel' tag (C08F.findMatches_error ht)
  · exact (c08_pg_run_errors_TE pats evs fuelT fuel M hr h fuel').1 e (C08F.findMatches_error he)
  · obtain ⟨ms, _, _, hfm⟩ := c08_pg_find_matches_total_TE pats evs fuelT fuel M hsr hr h fuel' hf
    refine ⟨ms, hfm, fun hh hwf i m => ?_⟩
    exact c01_c02_pg_holds pats evs fuelT fuel fuel' M h ms hwf hsr hh (manyBuildTE_inv hr).2.1
      hfm i m

/-! ### the baseline `SinglePatternMatcher` -/

/-- **C08, strings, baseline: total.** For every pattern and every host, `singleMatches` never
panics, whatever the fuel, and for `fuel ≥ (strConstraints p).length · strByteLen h + 4`
(`strBaselineFuel`) it returns — one binding per occurrence, in increasing anchor order
(`c05_string`). -/
theorem c08_str_single_total (p : List CharVar) (h : List Nat) :
    (∀ fuel tag, singleMatches strDomain (strConstraints p) h fuel ≠ .error (.panic tag)) ∧
    ∀ fuel, (strConstraints p).length * strByteLen h + 4 ≤ fuel →
      singleMatches strDomain (strConstraints p) h fuel =
        .ok (if p = [] then [StrPos.unbound]
          else (strOccurrences p h).map fun a => StrPos.bound a p.length) :=
  ⟨fun fuel tag => C08F.singleMatches_no_panic_of_ok
      (c05_string p h (strBaselineFuel p h) (Nat.le_refl _)) fuel tag,
    fun fuel hf => c05_string p h fuel hf⟩

/-- **C08, matrices, baseline: total** (ragged and empty hosts included): never a panic, whatever
the fuel; for `fuel ≥ (matConstraints p).length · |host cells| + 4` (`matBaselineFuel`) it returns
one binding per occurrence, in row-major anchor order (`c05_matrix`). -/
theorem c08_mat_single_total (p : MatPattern) (h : MatHost) :
    (∀ fuel tag, singleMatches matDomain (matConstraints p) h fuel ≠ .error (.panic tag)) ∧
    ∀ fuel, (matConstraints p).length * (matAllCells h).length + 4 ≤ fuel →
      singleMatches matDomain (matConstraints p) h fuel =
        .ok ((matOccurrences p h).map fun rc =>
          MatPos.bound rc.1 rc.2 0 0 ((matExtent p).1 : Int) ((matExtent p).2 : Int)) :=
  ⟨fun fuel tag => C08F.singleMatches_no_panic_of_ok
      (c05_matrix p h (matBaselineFuel p h) (Nat.le_refl _)) fuel tag,
    fun fuel hf => c05_matrix p h fuel hf⟩

/-- **C08, port graphs, baseline: total** (`c08_pg_single_no_panic`, `c08_pg_single_terminates`,
`c08_pg_single_total` of `Props/C08PG.lean` in one statement). For EVERY output `cs` of
`constraint_vec` (single- or multi-root) and every host value: never a panic, whatever the fuel;
some fuel suffices and then every larger one; for single-root vectors the explicit bound
`cs.length · |live host nodes| + 4`. -/
theorem c08_pg_single_total_final (g : PortGraph) (root : Nat) (cs : List PGCons)
    (hcs : pgConstraints g root = some cs) (h : PortGraph) :
    (∀ fuel tag, singleMatches pgDomain cs h fuel ≠ .error (.panic tag)) ∧
    (∃ fuel0 out, ∀ fuel, fuel0 ≤ fuel → singleMatches pgDomain cs h fuel = .ok out) ∧
    (pgSigMultiRoot cs = false → ∀ fuel, cs.length * h.nodesIter.length + 4 ≤ fuel →
      ∃ out, singleMatches pgDomain cs h fuel = .ok out) :=
  ⟨fun fuel => (c08_pg_single_no_panic g root cs hcs h fuel).1,
    c08_pg_single_terminates g root cs hcs h,
    fun hsr => (c08_pg_single_total g root cs hcs hsr h).2⟩

/-! ## PART 5 — non-vacuity -/

/-- **Strings.** `c08_string_total_TE` on the two complete strict logs of `c09_TE_examples_str`
(`ab`, the empty pattern, `a$x$x`; and `$x b`, `a b $x d`, `a b c d`): the replay returns a matcher,
so all of (ii)–(iv) hold of it, for every host and fuel. -/
example : (∃ M, manyBuildTE (fun p => some (strConstraints p)) (fun _ => ([] : List Nat))
      (charTree natLt) strReq 100 true exStrPatterns2 C07.exEvsTD = some (.ok M) ∧
    M.automaton.WF strReq M.ids ∧
    ∀ h fuel', (∀ tag, M.findMatches strDomain h fuel' ≠ .error (.panic tag)) ∧
      (C08.strRunBound M.automaton h ≤ fuel' →
        ∃ ms, M.findMatches strDomain h fuel' = .ok ms ∧ ms.Nodup ∧
          ∀ i p, exStrPatterns2[i]? = some p →
            (p = [] → ms.count (i, StrPos.unbound) = 1) ∧
            (p ≠ [] → ∀ a, ms.count (i, StrPos.bound a p.length) =
              if occursStr p h a then 1 else 0))) ∧
    (∃ M, manyBuildTE (fun p => some (strConstraints p)) (fun _ => ([] : List Nat))
      (charTree natLt) strReq 100 true C07.cexPats C07.cexEvsTD = some (.ok M) ∧
    M.automaton.WF strReq M.ids ∧
    ∀ h fuel', (∀ tag, M.findMatches strDomain h fuel' ≠ .error (.panic tag)) ∧
      (C08.strRunBound M.automaton h ≤ fuel' →
        ∃ ms, M.findMatches strDomain h fuel' = .ok ms ∧ ms.Nodup)) := by
  obtain ⟨⟨M1, hb1, _⟩, ⟨M2, hb2, _⟩, _⟩ := c09_TE_examples_str
  constructor
  · obtain ⟨r, hr, _, _, hM⟩ := c08_string_total_TE exStrPatterns2 C07.exEvsTD 100
    rw [hb1] at hr
    obtain ⟨hwf, hrun⟩ := hM M1 (Option.some.inj hr).symm
    exact ⟨M1, hb1, hwf.1, fun h fuel' => ⟨(hrun h fuel').1, (hrun h fuel').2.2⟩⟩
  · obtain ⟨r, hr, _, _, hM⟩ := c08_string_total_TE C07.cexPats C07.cexEvsTD 100
    rw [hb2] at hr
    obtain ⟨hwf, hrun⟩ := hM M2 (Option.some.inj hr).symm
    refine ⟨M2, hb2, hwf.1, fun h fuel' => ⟨(hrun h fuel').1, fun hf => ?_⟩⟩
    obtain ⟨ms, hms, hnd, _⟩ := (hrun h fuel').2.2 hf
    exact ⟨ms, hms, hnd⟩

/-- The guard branch of clause (i) is inhabited: the counterexample log of `Props/C08.lean` (the
root is emitted twice; the undisciplined build accepts it and the traversal of the result PANICS,
`c08_str_run_no_panic_target_false`) is rejected by the strict replay with a guard error — the same
error `buildT` returns (third case of `buildTE_error_cases`). -/
example : manyBuildTE (fun p => some (strConstraints p)) (fun _ => ([] : List Nat))
      (charTree natLt) strReq 50 true C08.cexStrPatterns C08.cexStrEvents =
        some (.error (.guard "c1T: state emitted twice or before one of its predecessors")) ∧
    C08.IsGuard (.guard "c1T: state emitted twice or before one of its predecessors") :=
  ⟨c09_TE_examples_str.2.2, _, rfl⟩

/-- **Matrices.** `c08_matrix_total_TE` on the complete strict log of `c09_TE_examples_mat`
(`ab / c`, `a$x / _$x`, `$x$x`). -/
example : ∃ M, manyBuildTE (fun p => some (matConstraints p)) (fun _ => ([] : List MKey))
      (charTree mkeyLt) matReq 100 true C07M.exMatPatterns3 C07M.exMatEvsTD3 = some (.ok M) ∧
    M.automaton.WF matReq M.ids ∧
    ∀ h fuel', (∀ tag, M.findMatches matDomain h fuel' ≠ .error (.panic tag)) ∧
      (C08.matRunBound M.automaton h ≤ fuel' →
        ∃ ms, M.findMatches matDomain h fuel' = .ok ms ∧ ms.Nodup ∧
          ∀ i p, C07M.exMatPatterns3[i]? = some p → ∀ r c,
            ms.count (i, MatPos.bound r c 0 0 (matExtent p).1 (matExtent p).2) =
              if occursMat p h r c then 1 else 0) := by
  obtain ⟨M, hb, _⟩ := c09_TE_examples_mat
  obtain ⟨r, hr, _, _, hM⟩ := c08_matrix_total_TE C07M.exMatPatterns3 C07M.exMatEvsTD3 100
  rw [hb] at hr
  obtain ⟨hwf, hrun⟩ := hM M (Option.some.inj hr).symm
  exact ⟨M, hb, hwf.1, fun h fuel' => ⟨(hrun h fuel').1, (hrun h fuel').2.2⟩⟩

/-- **Port graphs.** `c08_pg_total_TE` on the complete strict log `C09EpsEx.pgEvsTE` for the edge
pattern and the path pattern (`c09_TE_examples_pg`; the small fuels `50` — clauses (ii)–(iv) do not
depend on the fuel bounds): the hypotheses `hsr` and the domain hypotheses of clause (iii) hold, so
on every host value the traversal never panics and is total above the bound, and on every
well-formed host it reports exactly the embeddings. -/
example : ∃ M, manyBuildTE (fun p : PortGraph × Nat => pgConstraints p.1 p.2)
      (fun _ => ([] : List PGKey)) (fun cs => pgTree cs 50) pgReq 50 true exPGPatterns
      C09EpsEx.pgEvsTE = some (.ok M) ∧
    M.automaton.WF pgReq M.ids ∧
    ∀ h fuel', (∀ tag, M.findMatches pgDomain h fuel' ≠ .error (.panic tag)) ∧
      (C08PG.pgRunBound M.automaton h ≤ fuel' →
        ∃ ms, M.findMatches pgDomain h fuel' = .ok ms ∧
          (h.LinksOK → ∀ i m, (∃ m', (i, m') ∈ ms ∧ MapEqv m' m) ↔
            ∃ g root φ, exPGPatterns[i]? = some (g, root) ∧ embedsPG g h φ = true ∧
              BindingOf g root φ m)) := by
  obtain ⟨M, hb, _⟩ := c09_TE_examples_pg.1
  obtain ⟨r, hr, _, _, _, hM⟩ := c08_pg_total_TE exPGPatterns C09EpsEx.pgEvsTE 50 50
    exPG_patterns_ok.1
  rw [hb] at hr
  obtain ⟨hwf, hrun⟩ := hM M (Option.some.inj hr).symm
  refine ⟨M, hb, hwf.1, fun h fuel' => ⟨(hrun h fuel').1, fun hf => ?_⟩⟩
  obtain ⟨ms, hms, hsem⟩ := (hrun h fuel').2.2 hf
  exact ⟨ms, hms, fun hh => hsem hh exPG_patterns_wf⟩

/-- Clause (i) for these two patterns: the universe has 17 constraints, both bounds are `2¹⁸`; above
them EVERY log yields a matcher or a guard error, and with `fuelT ≥ 2¹⁸` alone never a panic. -/
example : C08PG.pgTreeBound (C08F.pgInputs exPGPatterns) = 2 ^ 18 ∧
    C08PG.pgBuildBound (C08F.pgInputs exPGPatterns) = 2 ^ 18 ∧
    ∀ evs fuel fuelT, 2 ^ 18 ≤ fuelT →
      ∃ r, manyBuildTE (fun p : PortGraph × Nat => pgConstraints p.1 p.2)
          (fun _ => ([] : List PGKey)) (fun cs => pgTree cs fuelT) pgReq fuel true exPGPatterns
          evs = some r ∧
        (∀ tag, r ≠ .error (.panic tag)) ∧
        (2 ^ 18 ≤ fuel → ∀ e, r = .error e → C08.IsGuard e) := by
  have hT : C08PG.pgTreeBound (C08F.pgInputs exPGPatterns) = 2 ^ 18 := by decide
  have hB : C08PG.pgBuildBound (C08F.pgInputs exPGPatterns) = 2 ^ 18 := by decide
  refine ⟨hT, hB, fun evs fuel fuelT hfT => ?_⟩
  obtain ⟨r, hr, _, hnp, hg, _⟩ := c08_pg_total_TE exPGPatterns evs fuel fuelT exPG_patterns_ok.1
  exact ⟨r, hr, hnp (by rw [hT]; exact hfT),
    fun hf => hg (by rw [hB]; exact hf) (by rw [hT]; exact hfT)⟩

/-- Below the tree bound the one remaining panic tag of `c08_pg_build_panic_only_tree` does occur:
with `fuelT = 1` the strict replay of the same log reports "to_constraints_tree" (a model artefact:
the Rust loop has no fuel). -/
example : manyBuildTE (fun p : PortGraph × Nat => pgConstraints p.1 p.2)
      (fun _ => ([] : List PGKey)) (fun cs => pgTree cs 1) pgReq 50 true exPGPatterns
      C09EpsEx.pgEvsTE = some (.error (.panic C08PG.treeTag)) := by rfl

/-- `c08_pg_build_no_panic` needs no hypothesis on the inputs: the four patterns of the FINDING
`pgProgramOK_false_two_fallbacks` (`exEpsInputs`), whose undisciplined log yields a state with two
fallback transitions and a PANICKING traversal (`c08_pg_run_panics_undisciplined`): above the tree
bound no log makes any disciplined replay panic; the strict replay accepts the complete strict log
`C09EpsEx.pgEpsEvsTE` and rejects the finding's log with a guard error. -/
example : (∀ evs fuel fuelT tag, C08PG.pgTreeBound exEpsInputs ≤ fuelT →
      buildTL (fun cs => pgTree cs fuelT) pgReq fuel exEpsInputs evs ≠ .error (.panic tag) ∧
      buildTE (fun cs => pgTree cs fuelT) pgReq fuel exEpsInputs evs ≠ .error (.panic tag)) ∧
    (∃ A, buildTE (fun cs => pgTree cs 50) pgReq 50 exEpsInputs C09EpsEx.pgEpsEvsTE = .ok A) ∧
    buildTE (fun cs => pgTree cs 50) pgReq 50 exEpsInputs exEpsEvents =
      .error (.guard "c1T: state emitted twice or before one of its predecessors") := by
  obtain ⟨_, ⟨A, hA, _⟩, hrej⟩ := c09_TE_examples_pg
  refine ⟨fun evs fuel fuelT tag hfT => ?_, ⟨A, hA⟩, hrej⟩
  have h := c08_pg_build_no_panic pgReq fuel fuelT exEpsInputs hfT evs tag
  exact ⟨h.2.1, h.2.2.2⟩

/-- The baselines on concrete patterns: total from the explicit fuel on, never a panic below. -/
example : (∀ (h : List Nat) fuel tag,
      singleMatches strDomain (strConstraints [.lit 97, .var 0, .var 0]) h fuel ≠
        .error (.panic tag)) ∧
    (∀ (h : PortGraph) (fuel : Nat), 4 * h.nodesIter.length + 4 ≤ fuel →
      ∃ out, singleMatches pgDomain PGEx.csPath h fuel = .ok out) := by
  refine ⟨fun h fuel tag => (c08_str_single_total _ h).1 fuel tag, fun h fuel hf => ?_⟩
  have hcs : pgConstraints PGEx.gPath 0 = some PGEx.csPath := by decide
  exact (c08_pg_single_total_final PGEx.gPath 0 PGEx.csPath hcs h).2.2 (by decide) fuel hf

end Pm

section AxiomAudit
open Pm
#print axioms buildTD_result_cases
#print axioms buildTE_result_cases
#print axioms buildTE_error_cases
#print axioms c08_strict_of_buildT
#print axioms c08_pg_build_no_panic
#print axioms c08_pg_build_panic_only_tree
#print axioms c08_pg_build_guard_only_inputs
#print axioms c08_pg_build_guard_only
#print axioms c08_pg_run_no_panic_TE
#print axioms c08_pg_run_errors_TE
#print axioms c08_pg_find_matches_total_TE
#print axioms c08_char_buildTE_no_panic
#print axioms c08_str_buildTE_no_panic
#print axioms c08_mat_buildTE_no_panic
#print axioms c08_str_buildTE_guard_only
#print axioms c08_mat_buildTE_guard_only
#print axioms c08_string_total_TE
#print axioms c08_matrix_total_TE
#print axioms c08_pg_inputs_eq
#print axioms c08_pg_no_panic_TE
#print axioms c08_pg_total_TE
#print axioms c08_str_single_total
#print axioms c08_mat_single_total
#print axioms c08_pg_single_total_final
end AxiomAudit
