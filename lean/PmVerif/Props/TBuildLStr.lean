/-
Props/TBuildLStr.lean — end-to-end C01/C02 for string pattern sets on LENIENT builds (the Rust code
path, no `make_det` guard), i.e. also for the ≈ 1/3000 real builds that trip the guard and were
outside `c01_c02_string*`.  Namespace `Pm.TBL`.

* `strL_acc_sound` / `strL_acc_checked` / `strTL_acc_guardE`: propositional acceptance of a
  leniently built string automaton — no false positive for ANY log; exact for every build whose
  automaton passes `accOK`, resp. every disciplined log that passes `guardE_ok`
  (`charTree` is faithful for every truth assignment, `c03_treeOK_char`).
* `str_run_sound_of_acc`, `str_run_of_acc`: the traversal theorem `trun_str` turned into
  occurrences for ANY automaton passing `strProgramOK` whose acceptance is sound / exact.
* `c01_string_lenient` — **C01 for every lenient build** (any log) whose automaton passes the
  per-program check `strProgramOK` (the driver evaluates it on every dumped automaton): every
  reported match is an occurrence of the pattern with that id.
* `c01_c02_string_lenient_checked` — **C01 + C02 per build**: with `accOK A = true` in addition,
  `run` reports exactly the occurrences, on every host.
* `c01_c02_string_lenient_guardE` — the same for every disciplined log passing `guardE_ok`.
-/
import PmVerif.Props.TBuildLCore
import PmVerif.Props.TRunStr
import PmVerif.Props.C06
namespace Pm
namespace TBL
open Automaton

/-- The builder inputs of a string pattern list. -/
def strInputs (ps : List (List CharVar)) : Option (List (Nat × List StrCons × List Nat)) :=
  manyInputs (K := Nat) (P := CharPred) (fun p => some (strConstraints p))
    (fun _ => ([] : List Nat)) true ps 0

/-- Specification in terms of builder inputs = specification in terms of the pattern list. -/
theorem strSpec_iff {ps : List (List CharVar)} {inputs : List (Nat × List StrCons × List Nat)}
    (hi : strInputs ps = some inputs) (σ : StrCons → Bool) (i : Nat) :
    (∃ cs extra, (i, cs, extra) ∈ inputs ∧ ∀ c ∈ cs, σ c = true) ↔
      ∃ p, ps[i]? = some p ∧ ∀ c ∈ strConstraints p, σ c = true := by
  have hpos := c06_ids_are_positions (fun p => some (strConstraints p))
    (fun _ => ([] : List Nat)) true ps 0 inputs hi
  constructor
  · rintro ⟨cs, ex, hmem, hall⟩
    obtain ⟨k, p, hk, hj, hc, _⟩ := (hpos i cs ex).mp hmem
    simp only [Nat.zero_add] at hj
    subst hj
    simp only [Option.some.injEq] at hc
    subst hc
    exact ⟨p, hk, hall⟩
  · rintro ⟨p, hk, hall⟩
    exact ⟨strConstraints p, [], (hpos i _ _).mpr ⟨i, p, hk, by omega, rfl, rfl⟩, hall⟩

/-- No false positive at the automaton level, for every lenient string build and every log. -/
theorem strL_acc_sound (ps : List (List CharVar)) (evs : List Ev) (fuel : Nat)
    (inputs : List (Nat × List StrCons × List Nat)) (A : Automaton Nat CharPred)
    (hi : strInputs ps = some inputs)
    (hb : buildL (charTree natLt) strReq fuel inputs evs = .ok A) (σ : StrCons → Bool) (i : Nat)
    (hacc : AccDet σ A A.root i) : ∃ p, ps[i]? = some p ∧ ∀ c ∈ strConstraints p, σ c = true :=
  (strSpec_iff hi σ i).1
    (buildL_acc_sound _ _ _ _ _ A σ (c03_treeOK_char natLt σ) hb i hacc)

/-- Exact acceptance for every lenient string build whose automaton passes `accOK`. -/
theorem strL_acc_checked (ps : List (List CharVar)) (evs : List Ev) (fuel : Nat)
    (inputs : List (Nat × List StrCons × List Nat)) (A : Automaton Nat CharPred)
    (hi : strInputs ps = some inputs)
    (hb : buildL (charTree natLt) strReq fuel inputs evs = .ok A) (hc : accOK A = true)
    (σ : StrCons → Bool) (i : Nat) :
    AccDet σ A A.root i ↔ ∃ p, ps[i]? = some p ∧ ∀ c ∈ strConstraints p, σ c = true :=
  (buildL_acc_checked _ _ _ _ _ A hb hc σ (c03_treeOK_char natLt σ) i).trans (strSpec_iff hi σ i)

/-- Exact acceptance for every disciplined lenient string log that passes guard E. -/
theorem strTL_acc_guardE (ps : List (List CharVar)) (evs : List Ev) (fuel : Nat)
    (inputs : List (Nat × List StrCons × List Nat)) (A : Automaton Nat CharPred)
    (hi : strInputs ps = some inputs)
    (hb : buildTL (charTree natLt) strReq fuel inputs evs = .ok A)
    (hg : guardE_ok (charTree natLt) strReq fuel inputs evs = true)
    (σ : StrCons → Bool) (i : Nat) :
    AccDet σ A A.root i ↔ ∃ p, ps[i]? = some p ∧ ∀ c ∈ strConstraints p, σ c = true :=
  (buildTL_acc_partial _ _ _ _ _ A σ (c03_treeOK_char natLt σ) hb hg i).trans (strSpec_iff hi σ i)

/-! ### from acceptance to occurrences, for any automaton passing `strProgramOK` -/

/-- The key list recorded for pattern `i` anywhere in an OK string program. -/
theorem str_recorded {A : Automaton Nat CharPred} {ps : List (List CharVar)}
    (hok : strProgramOK A ps = true) {σ : StrCons → Bool} {s i : Nat} {ks : List Nat}
    (hacc : AccDetK σ A s i ks) : ∃ s' w', A.g.weight? s' = some w' ∧
      (i, ks) ∈ w'.matches_ ∧ (s' = A.root ∨ ks ≠ []) ∧
      ∃ p, ps[i]? = some p ∧ ks = strPatternKeys p := by
  obtain ⟨s', w', hw', hmem⟩ := Anch.accDetK_recorded hacc
  obtain ⟨_, hroot, hp⟩ := (Anch.stateOK_of_programOK hok hw').matches_ i ks hmem
  exact ⟨s', w', hw', hmem, hroot, hp⟩

/-- **Soundness of the traversal from soundness of acceptance**: every reported match is an
occurrence. -/
theorem str_run_sound_of_acc (A : Automaton Nat CharPred) (ps : List (List CharVar))
    (h : List Nat) (fuel : Nat) (ms : List (Match StrPos)) (seen : List (Nat × List (Option Nat)))
    (hok : strProgramOK A ps = true) (hr : run strDomain A h fuel = .ok (ms, seen))
    (hsound : ∀ (σ : StrCons → Bool) i, AccDet σ A A.root i →
      ∃ p, ps[i]? = some p ∧ ∀ c ∈ strConstraints p, σ c = true)
    (i : Nat) (m : StrPos) (hm : (i, m) ∈ ms) :
    ∃ p, ps[i]? = some p ∧
      ((p = [] ∧ m = .unbound) ∨
       (p ≠ [] ∧ ∃ a, occursStr p h a = true ∧ m = .bound a p.length)) := by
  rw [trun_str A ps h fuel ms seen hok hr] at hm
  rcases hm with ⟨rfl, w, hw, hmem⟩ | ⟨a, ks, ha, hne, hacc, hbnd, rfl⟩
  · obtain ⟨_, _, p, hps, hks⟩ := (Anch.stateOK_of_programOK hok hw).matches_ i [] hmem
    refine ⟨p, hps, .inl ⟨?_, rfl⟩⟩
    by_cases hp : p = []
    · exact hp
    · exact absurd hks.symm (Anch.strPatternKeys_ne p hp)
  · obtain ⟨_, _, _, _, _, p, hps, hks⟩ := str_recorded hok hacc
    have hp : p ≠ [] := by
      rintro rfl
      exact hne (hks.trans Anch.strPatternKeys_nil)
    obtain ⟨p', hps', hall⟩ := hsound (strSigma h a) i (Anch.accDet_of_accDetK hacc)
    rw [hps] at hps'
    cases hps'
    refine ⟨p, hps, .inr ⟨hp, a, (Anch.sigma_iff_occurs p h a).mp hall, ?_⟩⟩
    rw [hks, Anch.strPatternKeys_extent p hp]

/-- **The traversal reports exactly the occurrences** as soon as acceptance is exact. -/
theorem str_run_of_acc (A : Automaton Nat CharPred) (ps : List (List CharVar))
    (h : List Nat) (fuel : Nat) (ms : List (Match StrPos)) (seen : List (Nat × List (Option Nat)))
    (hok : strProgramOK A ps = true) (hr : run strDomain A h fuel = .ok (ms, seen))
    (hacc : ∀ (σ : StrCons → Bool) i, AccDet σ A A.root i ↔
      ∃ p, ps[i]? = some p ∧ ∀ c ∈ strConstraints p, σ c = true)
    (i : Nat) (m : StrPos) :
    (i, m) ∈ ms ↔ ∃ p, ps[i]? = some p ∧
      ((p = [] ∧ m = .unbound) ∨
       (p ≠ [] ∧ ∃ a, occursStr p h a = true ∧ m = .bound a p.length)) := by
  constructor
  · exact str_run_sound_of_acc A ps h fuel ms seen hok hr (fun σ i => (hacc σ i).1) i m
  · rw [trun_str A ps h fuel ms seen hok hr]
    rintro ⟨p, hps, ⟨rfl, rfl⟩ | ⟨hp, a, ho, rfl⟩⟩
    · left
      have hA : AccDet (strSigma h 0) A A.root i :=
        (hacc (strSigma h 0) i).mpr
          ⟨[], hps, fun c hc => by
            have he : strConstraints [] = [] := by decide
            rw [he] at hc
            cases hc⟩
      obtain ⟨ks, hK⟩ := Anch.accDetK_of_accDet hA
      obtain ⟨s', w', hw', hmem, hroot, p', hps', hks⟩ := str_recorded hok hK
      rw [hps] at hps'
      cases hps'
      rw [Anch.strPatternKeys_nil] at hks
      subst hks
      have hs : s' = A.root := by
        rcases hroot with h | h
        · exact h
        · exact absurd rfl h
      subst hs
      exact ⟨rfl, w', hw', hmem⟩
    · right
      have hshort := tdom_str_sat_short p h a ho hp
      have hlen := Anch.length_le_byteLen h
      have hpos : 0 < p.length := List.length_pos_iff.mpr hp
      have hA : AccDet (strSigma h a) A A.root i :=
        (hacc (strSigma h a) i).mpr ⟨p, hps, (Anch.sigma_iff_occurs p h a).mpr ho⟩
      obtain ⟨ks, hK⟩ := Anch.accDetK_of_accDet hA
      obtain ⟨_, _, _, _, _, p', hps', hks⟩ := str_recorded hok hK
      rw [hps] at hps'
      cases hps'
      subst hks
      refine ⟨a, _, by omega, Anch.strPatternKeys_ne p hp, hK, ?_, ?_⟩
      · intro k hk
        have := Anch.strPatternKeys_lt p k hk
        omega
      · rw [Anch.strPatternKeys_extent p hp]

/-! ### the end-to-end statements -/

/-- **C01 for every lenient string build** (the Rust code path, ANY event log, in particular
every real build that trips the `make_det` guard): if the built automaton passes the per-program
check `strProgramOK`, every match `find_matches` reports on any host is an occurrence of the
pattern with that id. -/
theorem c01_string_lenient (ps : List (List CharVar)) (evs : List Ev) (fuel fuel' : Nat)
    (inputs : List (Nat × List StrCons × List Nat)) (A : Automaton Nat CharPred)
    (h : List Nat) (ms : List (Match StrPos)) (seen : List (Nat × List (Option Nat)))
    (hi : strInputs ps = some inputs)
    (hb : buildL (charTree natLt) strReq fuel inputs evs = .ok A)
    (hok : strProgramOK A ps = true) (hr : run strDomain A h fuel' = .ok (ms, seen))
    (i : Nat) (m : StrPos) (hm : (i, m) ∈ ms) :
    ∃ p, ps[i]? = some p ∧
      ((p = [] ∧ m = .unbound) ∨
       (p ≠ [] ∧ ∃ a, occursStr p h a = true ∧ m = .bound a p.length)) :=
  str_run_sound_of_acc A ps h fuel' ms seen hok hr
    (fun σ i => strL_acc_sound ps evs fuel inputs A hi hb σ i) i m hm

/-- **C01 + C02 per build, lenient**: a leniently built string automaton (ANY log) that passes
`accOK` and `strProgramOK` reports, on every host, exactly the occurrences of the patterns. -/
theorem c01_c02_string_lenient_checked (ps : List (List CharVar)) (evs : List Ev)
    (fuel fuel' : Nat) (inputs : List (Nat × List StrCons × List Nat))
    (A : Automaton Nat CharPred) (h : List Nat) (ms : List (Match StrPos))
    (seen : List (Nat × List (Option Nat)))
    (hi : strInputs ps = some inputs)
    (hb : buildL (charTree natLt) strReq fuel inputs evs = .ok A)
    (hc : accOK A = true) (hok : strProgramOK A ps = true)
    (hr : run strDomain A h fuel' = .ok (ms, seen)) (i : Nat) (m : StrPos) :
    (i, m) ∈ ms ↔ ∃ p, ps[i]? = some p ∧
      ((p = [] ∧ m = .unbound) ∨
       (p ≠ [] ∧ ∃ a, occursStr p h a = true ∧ m = .bound a p.length)) :=
  str_run_of_acc A ps h fuel' ms seen hok hr
    (fun σ i => strL_acc_checked ps evs fuel inputs A hi hb hc σ i) i m

/-- The same for every DISCIPLINED lenient log that passes the replay check `guardE_ok`. -/
theorem c01_c02_string_lenient_guardE (ps : List (List CharVar)) (evs : List Ev)
    (fuel fuel' : Nat) (inputs : List (Nat × List StrCons × List Nat))
    (A : Automaton Nat CharPred) (h : List Nat) (ms : List (Match StrPos))
    (seen : List (Nat × List (Option Nat)))
    (hi : strInputs ps = some inputs)
    (hb : buildTL (charTree natLt) strReq fuel inputs evs = .ok A)
    (hg : guardE_ok (charTree natLt) strReq fuel inputs evs = true)
    (hok : strProgramOK A ps = true)
    (hr : run strDomain A h fuel' = .ok (ms, seen)) (i : Nat) (m : StrPos) :
    (i, m) ∈ ms ↔ ∃ p, ps[i]? = some p ∧
      ((p = [] ∧ m = .unbound) ∨
       (p ≠ [] ∧ ∃ a, occursStr p h a = true ∧ m = .bound a p.length)) :=
  str_run_of_acc A ps h fuel' ms seen hok hr
    (fun σ i => strTL_acc_guardE ps evs fuel inputs A hi hb hg σ i) i m

set_option maxRecDepth 100000 in
/-- Non-vacuity: the guard-tripping example `TBL.Ex` passes all three per-build checks. -/
theorem Ex.all_checks :
    strInputs Ex.pats = some Ex.inputs ∧
    ∃ A, buildTL (charTree natLt) strReq 100 Ex.inputs Ex.evs = .ok A ∧ accOK A = true ∧
      strProgramOK A Ex.pats = true :=
  ⟨by rfl, _, rfl, by rfl, by rfl⟩

end TBL
end Pm
