/-
Props/Parse.lean — the parsing / rendering glue of the string and matrix domains
(`Model/Parse.lean`; Rust: `StringPattern::parse_str`, `MatrixPattern::parse_str`/`parse_row`,
`MatrixString::from`, the three `Debug` impls, `str::lines`, `char::is_whitespace`).

Property theorems carry the prefix `tparse_`; each is followed by a non-vacuity `example`.
  (a) `tparse_str_panics_iff`            parse_str panics  ⇔  input = pre ++ "$", pre parses
      `tparse_str_panics_iff_odd_dollars`                  ⇔  odd number of trailing '$'
  (b) `tparse_str_roundtrip(_iff)`       parse (Debug body of p) = p  ⇔  p has no literal '$'
      `tparse_str_show_of_parse`         Debug body of (parse s) = s   (parse is injective)
  (c) `tparse_str_length_le`, `tparse_str_lit_mem`, `tparse_str_var_mem`, `tparse_str_length_eq`
  (d) `tparse_lines_no_lf`, `tparse_lines_join`, `tparse_lines_terminated`, `tparse_lines_eq_core`
  (e) `tparse_mat_roundtrip_join`, `tparse_mat_roundtrip_debug`, `tparse_host_roundtrip_debug`,
      `tparse_mat_panics_iff`
  (f) `tparse_row_ignores_whitespace`, `tparse_row_drop_whitespace`
Core Lean only.
-/
import PmVerif.Model.Parse
namespace Pm

/-! ### equations and an induction principle that follows the `'$'` arm -/

theorem parseStr_dollar_nil : parseStr [36] = none := by simp [parseStr]

theorem parseStr_dollar_cons (d : Nat) (cs : List Nat) :
    parseStr (36 :: d :: cs) = (parseStr cs).map (CharVar.var d :: ·) := by simp [parseStr]

theorem parseStr_lit {c : Nat} (cs : List Nat) (h : c ≠ 36) :
    parseStr (c :: cs) = (parseStr cs).map (CharVar.lit c :: ·) := by
  rw [parseStr.eq_def]; simp [h]

/-- Induction along the way `parse_str` consumes its input. -/
theorem dollar_ind {motive : List Nat → Prop} (nil : motive []) (dangling : motive [36])
    (var : ∀ d cs, motive cs → motive (36 :: d :: cs))
    (lit : ∀ c cs, c ≠ 36 → motive cs → motive (c :: cs)) : ∀ s, motive s
  | [] => nil
  | [c] => if h : c = 36 then h ▸ dangling else lit c [] h nil
  | c :: d :: cs =>
    if h : c = 36 then h ▸ var d cs (dollar_ind nil dangling var lit cs)
    else lit c (d :: cs) h (dollar_ind nil dangling var lit (d :: cs))

theorem parseStr_append {pre : List Nat} {p : List CharVar} (h : parseStr pre = some p)
    (t : List Nat) : parseStr (pre ++ t) = (parseStr t).map (p ++ ·) := by
  induction pre using dollar_ind generalizing p with
  | nil =>
    simp [parseStr] at h; subst h
    rw [List.nil_append]
    cases parseStr t <;> simp
  | dangling => simp [parseStr_dollar_nil] at h
  | var d cs ih =>
    rw [parseStr_dollar_cons, Option.map_eq_some_iff] at h
    obtain ⟨q, hq, rfl⟩ := h
    rw [List.cons_append, List.cons_append, parseStr_dollar_cons, ih hq]
    cases parseStr t <;> simp
  | lit c cs hc ih =>
    rw [parseStr_lit _ hc, Option.map_eq_some_iff] at h
    obtain ⟨q, hq, rfl⟩ := h
    rw [List.cons_append, parseStr_lit _ hc, ih hq]
    cases parseStr t <;> simp

/-! ### (a) when `parse_str` panics -/

/-- **(a)** `StringPattern::parse_str` panics exactly on the inputs that end in an unpaired `'$'`:
a `'$'` preceded by text that is itself consumed completely. -/
theorem tparse_str_panics_iff (s : List Nat) :
    parseStr s = none ↔ ∃ pre p, s = pre ++ [36] ∧ parseStr pre = some p := by
  constructor
  · induction s using dollar_ind with
    | nil => intro h; simp [parseStr] at h
    | dangling => intro _; exact ⟨[], [], rfl, rfl⟩
    | var d cs ih =>
      intro h
      rw [parseStr_dollar_cons, Option.map_eq_none_iff] at h
      obtain ⟨pre, p, rfl, hp⟩ := ih h
      exact ⟨36 :: d :: pre, CharVar.var d :: p, rfl, by rw [parseStr_dollar_cons, hp]; rfl⟩
    | lit c cs hc ih =>
      intro h
      rw [parseStr_lit _ hc, Option.map_eq_none_iff] at h
      obtain ⟨pre, p, rfl, hp⟩ := ih h
      exact ⟨c :: pre, CharVar.lit c :: p, rfl, by rw [parseStr_lit _ hc, hp]; rfl⟩
  · rintro ⟨pre, p, rfl, hp⟩
    rw [parseStr_append hp, parseStr_dollar_nil]; rfl

/-- Non-vacuity: `"a$b$"` panics (prefix `"a$b"` parses), `"a$$"` does not (`$$` is the variable
named `'$'`). -/
example : parseStr [97, 36, 98, 36] = none ∧ parseStr [97, 36, 98] = some [.lit 97, .var 98] ∧
    parseStr [97, 36, 36] = some [.lit 97, .var 36] := by decide

/-! ### (b) round trip through `Debug` -/

theorem strBody_cons (cv : CharVar) (p : List CharVar) :
    strBody (cv :: p) = showCharVar cv ++ strBody p := by simp [strBody]

/-- **(b)** Parsing what `Debug` writes between the quotes gives the pattern back, provided no
literal is `'$'`. Variable names are unrestricted. -/
theorem tparse_str_roundtrip (p : List CharVar) (h : ∀ cv ∈ p, cv ≠ CharVar.lit 36) :
    showStrPattern p = [34] ++ strBody p ++ [34] ∧ parseStr (strBody p) = some p := by
  refine ⟨by simp [showStrPattern], ?_⟩
  induction p with
  | nil => rfl
  | cons cv p ih =>
    have ih := ih (fun cv' h' => h cv' (List.mem_cons_of_mem _ h'))
    cases cv with
    | lit c =>
      have hc : c ≠ 36 := fun e => h (.lit c) (List.mem_cons_self ..) (by rw [e])
      rw [strBody_cons]; simp only [showCharVar, List.cons_append, List.nil_append]
      rw [parseStr_lit _ hc, ih]; rfl
    | var d =>
      rw [strBody_cons]; simp only [showCharVar, List.cons_append, List.nil_append]
      rw [parseStr_dollar_cons, ih]; rfl

example : parseStr (strBody [.lit 97, .var 36, .var 98]) = some [.lit 97, .var 36, .var 98] := by
  decide

/-- The converse direction of the glue: whatever `parse_str` returns renders back to exactly the
input, and contains no literal `'$'`. So `parse_str` is injective on the inputs it accepts. -/
theorem tparse_str_show_of_parse {s : List Nat} {p : List CharVar} (h : parseStr s = some p) :
    strBody p = s ∧ ∀ cv ∈ p, cv ≠ CharVar.lit 36 := by
  induction s using dollar_ind generalizing p with
  | nil => simp [parseStr] at h; subst h; exact ⟨rfl, by simp⟩
  | dangling => simp [parseStr_dollar_nil] at h
  | var d cs ih =>
    rw [parseStr_dollar_cons, Option.map_eq_some_iff] at h
    obtain ⟨q, hq, rfl⟩ := h
    obtain ⟨h1, h2⟩ := ih hq
    refine ⟨by rw [strBody_cons, h1]; rfl, ?_⟩
    intro cv hcv
    rcases List.mem_cons.mp hcv with rfl | hcv
    · intro e; cases e
    · exact h2 cv hcv
  | lit c cs hc ih =>
    rw [parseStr_lit _ hc, Option.map_eq_some_iff] at h
    obtain ⟨q, hq, rfl⟩ := h
    obtain ⟨h1, h2⟩ := ih hq
    refine ⟨by rw [strBody_cons, h1]; rfl, ?_⟩
    intro cv hcv
    rcases List.mem_cons.mp hcv with rfl | hcv
    · intro e; cases e; exact hc rfl
    · exact h2 cv hcv

example : strBody [.lit 97, .var 98] = [97, 36, 98] := by decide

/-- **(b), sharp form**: the round trip holds exactly for the patterns without a literal `'$'`. A
pattern built with `StringPattern::new` that has one is rendered to text that parses to a
different pattern or panics. -/
theorem tparse_str_roundtrip_iff (p : List CharVar) :
    parseStr (strBody p) = some p ↔ ∀ cv ∈ p, cv ≠ CharVar.lit 36 :=
  ⟨fun h => (tparse_str_show_of_parse h).2, fun h => (tparse_str_roundtrip p h).2⟩

example : parseStr (strBody [.lit 36, .lit 97]) = some [.var 97] ∧
    parseStr (strBody [.lit 97, .lit 36]) = none := by decide

/-! ### (c) size and provenance of the parsed pattern -/

theorem length_strBody_ge (p : List CharVar) : p.length ≤ (strBody p).length := by
  induction p with
  | nil => simp [strBody]
  | cons cv p ih =>
    rw [strBody_cons, List.length_append, List.length_cons]
    cases cv <;> simp [showCharVar] <;> omega

/-- **(c)** A parsed pattern is no longer than its source. -/
theorem tparse_str_length_le {s : List Nat} {p : List CharVar} (h : parseStr s = some p) :
    p.length ≤ s.length := by
  have := length_strBody_ge p
  rwa [(tparse_str_show_of_parse h).1] at this

/-- Exact count: every variable costs one extra source character. -/
theorem tparse_str_length_eq {s : List Nat} {p : List CharVar} (h : parseStr s = some p) :
    s.length = p.length + (p.filter fun cv => cv matches .var _).length := by
  rw [← (tparse_str_show_of_parse h).1]
  clear h
  induction p with
  | nil => rfl
  | cons cv p ih =>
    rw [strBody_cons, List.length_append, ih]
    cases cv <;> simp [showCharVar] <;> omega

theorem mem_strBody {p : List CharVar} {c : Nat} :
    (CharVar.lit c ∈ p ∨ CharVar.var c ∈ p) → c ∈ strBody p := by
  intro h
  simp only [strBody, List.mem_flatMap]
  rcases h with h | h
  · exact ⟨_, h, by simp [showCharVar]⟩
  · exact ⟨_, h, by simp [showCharVar]⟩

/-- **(c)** Every literal of the parsed pattern is a character of the source (and is not `'$'`). -/
theorem tparse_str_lit_mem {s : List Nat} {p : List CharVar} (h : parseStr s = some p) {c : Nat}
    (hc : CharVar.lit c ∈ p) : c ∈ s ∧ c ≠ 36 := by
  obtain ⟨h1, h2⟩ := tparse_str_show_of_parse h
  refine ⟨h1 ▸ mem_strBody (Or.inl hc), fun e => h2 _ hc (by rw [e])⟩

/-- Every variable name of the parsed pattern is a character of the source. -/
theorem tparse_str_var_mem {s : List Nat} {p : List CharVar} (h : parseStr s = some p) {c : Nat}
    (hc : CharVar.var c ∈ p) : c ∈ s := by
  obtain ⟨h1, _⟩ := tparse_str_show_of_parse h
  exact h1 ▸ mem_strBody (Or.inr hc)

example : parseStr [36, 97, 98, 36, 97] = some [.var 97, .lit 98, .var 97] ∧
    [36, 97, 98, 36, 97].length = 3 + 2 := by decide

/-! ### (f) `parse_row` ignores whitespace -/

/-- **(f)** `parse_row` sees only the non-whitespace characters of the row. -/
theorem tparse_row_ignores_whitespace (s : List Nat) :
    parseRow s = parseRow (s.filter fun c => !isWhitespace c) := by
  simp [parseRow, List.filter_filter]

/-- Pointwise form: a whitespace character anywhere in a row — also between a `'$'` and the
variable name — can be deleted without changing the result. -/
theorem tparse_row_drop_whitespace (a b : List Nat) {w : Nat} (hw : isWhitespace w = true) :
    parseRow (a ++ w :: b) = parseRow (a ++ b) := by
  simp [parseRow, List.filter_append, hw]

/-- Non-vacuity: `"$ a\t-"` is `[$a, hole]`; the space after `'$'` is not a variable name. In
`StringPattern::parse_str` it is one. -/
example : parseRow [36, 32, 97, 9, 45] = some [some (.var 97), none] ∧
    parseRow [36, 97, 45] = some [some (.var 97), none] ∧
    parseStr [36, 32, 97] = some [.var 32, .lit 97] := by decide

/-! ### (d) `str::lines` -/

theorem linesOf_lf (cs : List Nat) : linesOf (10 :: cs) = [] :: linesOf cs := by simp [linesOf]

theorem linesOf_crlf (cs : List Nat) : linesOf (13 :: 10 :: cs) = [] :: linesOf cs := by
  simp [linesOf]

theorem linesOf_other {c : Nat} {cs : List Nat} (h1 : c ≠ 10)
    (h2 : ¬(c = 13 ∧ cs.head? = some 10)) :
    linesOf (c :: cs) = match linesOf cs with
      | [] => [[c]]
      | l :: ls => (c :: l) :: ls := by
  rw [linesOf.eq_def]; simp only [h1, h2, if_false]; rfl

/-- **(d)** No line produced by `lines` contains a line feed. -/
theorem tparse_lines_no_lf (s : List Nat) : ∀ l ∈ linesOf s, 10 ∉ l := by
  induction s with
  | nil => simp [linesOf]
  | cons c cs ih =>
    by_cases h1 : c = 10
    · subst h1; rw [linesOf_lf]
      intro l hl
      rcases List.mem_cons.mp hl with rfl | hl
      · simp
      · exact ih l hl
    · by_cases h2 : c = 13 ∧ cs.head? = some 10
      · have : linesOf (c :: cs) = linesOf cs := by rw [linesOf.eq_def]; simp [h2]
        rw [this]; exact ih
      · rw [linesOf_other h1 h2]
        cases hl : linesOf cs with
        | nil =>
          intro l hl'
          simp only [List.mem_singleton] at hl'
          subst hl'; simpa using Ne.symm h1
        | cons l0 ls =>
          rw [hl] at ih
          intro l hl'
          rcases List.mem_cons.mp hl' with rfl | hl'
          · have := ih l0 (List.mem_cons_self ..)
            simp only [List.mem_cons, not_or]
            exact ⟨Ne.symm h1, this⟩
          · exact ih l (List.mem_cons_of_mem _ hl')

example : linesOf [97, 10, 10, 98, 13, 10, 13, 99, 13] = [[97], [], [98], [13, 99, 13]] := by decide

/-- A line followed by its terminator is split off unchanged — if it has no line feed inside and
does not end in a carriage return (which `lines` would eat together with the line feed). -/
theorem linesOf_line_lf (l rest : List Nat) (h1 : 10 ∉ l) (h2 : l.getLast? ≠ some 13) :
    linesOf (l ++ 10 :: rest) = l :: linesOf rest := by
  induction l with
  | nil => exact linesOf_lf rest
  | cons c l ih =>
    have hc : c ≠ 10 := fun e => h1 (by simp [e])
    have hl : 10 ∉ l := fun e => h1 (List.mem_cons_of_mem _ e)
    have h2' : l.getLast? ≠ some 13 := by
      cases l with
      | nil => simp
      | cons d l => rwa [List.getLast?_cons_cons] at h2
    have hcond : ¬(c = 13 ∧ (l ++ 10 :: rest).head? = some 10) := by
      rintro ⟨rfl, hh⟩
      cases l with
      | nil => simp at h2
      | cons d l =>
        simp only [List.cons_append, List.head?_cons, Option.some.injEq] at hh
        exact hl (by simp [hh])
    rw [List.cons_append, linesOf_other hc hcond, ih hl h2']

/-- Text without a line feed is one line (whatever carriage returns it contains, even last). -/
theorem linesOf_single (l : List Nat) (hne : l ≠ []) (h1 : 10 ∉ l) : linesOf l = [l] := by
  induction l with
  | nil => exact absurd rfl hne
  | cons c l ih =>
    have hc : c ≠ 10 := fun e => h1 (by simp [e])
    have hl : 10 ∉ l := fun e => h1 (List.mem_cons_of_mem _ e)
    have hcond : ¬(c = 13 ∧ l.head? = some 10) := by
      rintro ⟨_, hh⟩
      cases l with
      | nil => simp at hh
      | cons d l =>
        simp only [List.head?_cons, Option.some.injEq] at hh
        exact hl (by simp [hh])
    rw [linesOf_other hc hcond]
    cases l with
    | nil => simp [linesOf]
    | cons d l => rw [ih (by simp) hl]

/-- **(d)** `lines` inverts "terminate every line with `'\n'`" (what the two matrix `Debug` impls
write), for lines without a line feed and without a final carriage return. -/
theorem tparse_lines_terminated (ls : List (List Nat)) (h1 : ∀ l ∈ ls, 10 ∉ l)
    (h2 : ∀ l ∈ ls, l.getLast? ≠ some 13) :
    linesOf (ls.flatMap fun l => l ++ [10]) = ls := by
  induction ls with
  | nil => rfl
  | cons l ls ih =>
    rw [List.flatMap_cons, List.append_assoc, List.singleton_append,
      linesOf_line_lf l _ (h1 l (List.mem_cons_self ..)) (h2 l (List.mem_cons_self ..)),
      ih (fun l' h => h1 l' (List.mem_cons_of_mem _ h)) (fun l' h => h2 l' (List.mem_cons_of_mem _ h))]

example : linesOf ([[97], [], [98, 13, 99]].flatMap fun l => l ++ [10]) = [[97], [], [98, 13, 99]] := by
  decide

/-- **(d)** `lines` inverts "join with `'\n'`": no line contains a line feed, no line *but the last*
ends in a carriage return, and the last line is not empty (an empty last line is not produced;
a last line ending in `'\r'` keeps it, there being no `'\n'` after it). -/
theorem tparse_lines_join_strong (ls : List (List Nat)) (h1 : ∀ l ∈ ls, 10 ∉ l)
    (h2 : ∀ l ∈ ls.dropLast, l.getLast? ≠ some 13) (h3 : ∀ l, ls.getLast? = some l → l ≠ []) :
    linesOf (joinLF ls) = ls := by
  induction ls using joinLF.induct with
  | case1 => rfl
  | case2 l => exact linesOf_single l (h3 l rfl) (h1 l (List.mem_cons_self ..))
  | case3 l l' ls ih =>
    rw [joinLF, linesOf_line_lf l _ (h1 l (List.mem_cons_self ..))
      (h2 l (by simp [List.dropLast])), ih (fun x h => h1 x (List.mem_cons_of_mem _ h))
      (fun x h => h2 x (by
        rw [List.dropLast_cons_of_ne_nil (by simp)]; exact List.mem_cons_of_mem _ h))
      (fun x h => h3 x (by rwa [List.getLast?_cons_cons]))]

/-- **(d)**, as stated in the brief: no line contains `'\n'` or ends in `'\r'`, the last is
non-empty. -/
theorem tparse_lines_join (ls : List (List Nat)) (h1 : ∀ l ∈ ls, 10 ∉ l)
    (h2 : ∀ l ∈ ls, l.getLast? ≠ some 13) (h3 : ∀ l, ls.getLast? = some l → l ≠ []) :
    linesOf (joinLF ls) = ls :=
  tparse_lines_join_strong ls h1 (fun l h => h2 l (List.dropLast_subset _ h)) h3

/-- Non-vacuity, and the three hypotheses are needed: a final empty line disappears, a `'\r'`
before a separator disappears, a `'\r'` at the very end stays. -/
example : linesOf (joinLF [[97], [], [98]]) = [[97], [], [98]] ∧
    linesOf (joinLF [[97], []]) = [[97]] ∧
    linesOf (joinLF [[97, 13], [98]]) = [[97], [98]] ∧
    linesOf (joinLF [[97], [98, 13]]) = [[97], [98, 13]] := by decide

/-! ### (e) matrices: round trip through `Debug`, and when `parse_str` panics -/

theorem parseCells_dollar_nil : parseCells [36] = none := by simp [parseCells]

theorem parseCells_dollar_cons (d : Nat) (cs : List Nat) :
    parseCells (36 :: d :: cs) = (parseCells cs).map (some (CharVar.var d) :: ·) := by
  simp [parseCells]

theorem parseCells_dash (cs : List Nat) :
    parseCells (45 :: cs) = (parseCells cs).map (none :: ·) := by
  rw [parseCells.eq_def]; simp

theorem parseCells_lit {c : Nat} (cs : List Nat) (h : c ≠ 36) (h' : c ≠ 45) :
    parseCells (c :: cs) = (parseCells cs).map (some (CharVar.lit c) :: ·) := by
  rw [parseCells.eq_def]; simp [h, h']

/-- What a cell must satisfy to survive rendering and re-parsing: a literal is not `'$'`, `'-'`
or whitespace; a variable name is not whitespace (it may be `'$'` or `'-'`). -/
def CellOK : Option CharVar → Prop
  | none => True
  | some (.lit c) => c ≠ 36 ∧ c ≠ 45 ∧ isWhitespace c = false
  | some (.var c) => isWhitespace c = false

theorem showRow_cons (cell : Option CharVar) (row : List (Option CharVar)) :
    showRow (cell :: row) = showCell cell ++ showRow row := by simp [showRow]

theorem showRow_no_ws {row : List (Option CharVar)} (h : ∀ cell ∈ row, CellOK cell) :
    ∀ c ∈ showRow row, isWhitespace c = false := by
  intro c hc
  simp only [showRow, List.mem_flatMap] at hc
  obtain ⟨cell, hcell, hc⟩ := hc
  have ok := h cell hcell
  match cell, ok with
  | none, _ => simp only [showCell, List.mem_singleton] at hc; subst hc; decide
  | some (.lit d), ok =>
    simp only [showCell, showCharVar, List.mem_singleton] at hc; subst hc; exact ok.2.2
  | some (.var d), ok =>
    simp only [showCell, showCharVar, List.mem_cons, List.not_mem_nil, or_false] at hc
    rcases hc with rfl | rfl
    · decide
    · exact ok

theorem parseCells_showRow {row : List (Option CharVar)} (h : ∀ cell ∈ row, CellOK cell) :
    parseCells (showRow row) = some row := by
  induction row with
  | nil => rfl
  | cons cell row ih =>
    have ih := ih (fun c hc => h c (List.mem_cons_of_mem _ hc))
    have ok := h cell (List.mem_cons_self ..)
    rw [showRow_cons]
    match cell, ok with
    | none, _ =>
      simp only [showCell, List.cons_append, List.nil_append]
      rw [parseCells_dash, ih]; rfl
    | some (.lit d), ok =>
      simp only [showCell, showCharVar, List.cons_append, List.nil_append]
      rw [parseCells_lit _ ok.1 ok.2.1, ih]; rfl
    | some (.var d), _ =>
      simp only [showCell, showCharVar, List.cons_append, List.nil_append]
      rw [parseCells_dollar_cons, ih]; rfl

theorem parseRow_showRow {row : List (Option CharVar)} (h : ∀ cell ∈ row, CellOK cell) :
    parseRow (showRow row) = some row := by
  have : (showRow row).filter (fun c => !isWhitespace c) = showRow row :=
    List.filter_eq_self.mpr (fun c hc => by simp [showRow_no_ws h c hc])
  rw [parseRow, this, parseCells_showRow h]

theorem parseRows_map_showRow {p : MatPattern} (h : ∀ row ∈ p, ∀ cell ∈ row, CellOK cell) :
    parseRows (p.map showRow) = some p := by
  induction p with
  | nil => rfl
  | cons row p ih =>
    rw [List.map_cons, parseRows, parseRow_showRow (h row (List.mem_cons_self ..)),
      ih (fun r hr => h r (List.mem_cons_of_mem _ hr))]; rfl

theorem showRow_lines_ok {p : MatPattern} (h : ∀ row ∈ p, ∀ cell ∈ row, CellOK cell) :
    (∀ l ∈ p.map showRow, 10 ∉ l) ∧ (∀ l ∈ p.map showRow, l.getLast? ≠ some 13) := by
  constructor
  · intro l hl h10
    obtain ⟨row, hrow, rfl⟩ := List.mem_map.mp hl
    have := showRow_no_ws (h row hrow) 10 h10
    revert this; decide
  · intro l hl h13
    obtain ⟨row, hrow, rfl⟩ := List.mem_map.mp hl
    have := showRow_no_ws (h row hrow) 13 (List.mem_of_getLast? h13)
    revert this; decide

/-- **(e)** Matrix round trip through `Debug`: parsing the lines that `Debug for MatrixPattern`
writes between the `"""` lines gives the pattern back (empty rows, also last, included). -/
theorem tparse_mat_roundtrip_debug (p : MatPattern) (h : ∀ row ∈ p, ∀ cell ∈ row, CellOK cell) :
    showMatPattern p = [34, 34, 34, 10] ++ matBody p ++ [34, 34, 34, 10] ∧
    parseMat (matBody p) = some p := by
  refine ⟨rfl, ?_⟩
  have hb : matBody p = (p.map showRow).flatMap fun l => l ++ [10] := by
    rw [matBody, List.flatMap_map]
  obtain ⟨h1, h2⟩ := showRow_lines_ok h
  rw [parseMat, hb, tparse_lines_terminated _ h1 h2, parseRows_map_showRow h]

example : parseMat (matBody [[some (.lit 97), none], [], [some (.var 45)], []]) =
    some [[some (.lit 97), none], [], [some (.var 45)], []] := by decide

/-- **(e)** Matrix round trip for rows joined by `'\n'` (the form used in the repository's tests):
the last row must not be empty. -/
theorem tparse_mat_roundtrip_join (p : MatPattern) (h : ∀ row ∈ p, ∀ cell ∈ row, CellOK cell)
    (hlast : ∀ row, p.getLast? = some row → row ≠ []) :
    parseMat (joinLF (p.map showRow)) = some p := by
  obtain ⟨h1, h2⟩ := showRow_lines_ok h
  have h3 : ∀ l, (p.map showRow).getLast? = some l → l ≠ [] := by
    intro l hl
    rw [List.getLast?_map, Option.map_eq_some_iff] at hl
    obtain ⟨row, hrow, rfl⟩ := hl
    have hne := hlast row hrow
    cases row with
    | nil => exact absurd rfl hne
    | cons cell row =>
      rw [showRow_cons]
      cases cell with
      | none => simp [showCell]
      | some cv => cases cv <;> simp [showCell, showCharVar]
  rw [parseMat, tparse_lines_join _ h1 h2 h3, parseRows_map_showRow h]

/-- Non-vacuity, and the hypotheses are needed: an empty last row is lost; a literal `'-'` comes
back as a hole; a variable named `' '` swallows the next cell or panics. -/
example : parseMat (joinLF ([[some (.lit 97), none], [], [some (.var 98)]].map showRow)) =
      some [[some (.lit 97), none], [], [some (.var 98)]] ∧
    parseMat (joinLF ([[some (.lit 97)], []].map showRow)) = some [[some (.lit 97)]] ∧
    parseMat (joinLF ([[some (.lit 45)]].map showRow)) = some [[none]] ∧
    parseMat (joinLF ([[some (.var 32), some (.lit 97)]].map showRow)) = some [[some (.var 97)]] ∧
    parseMat (joinLF ([[some (.var 32)]].map showRow)) = none := by decide

/-- **(e)** Hosts: `MatrixString::from` inverts `Debug for MatrixString` for rows without a line
feed and without a final carriage return. -/
theorem tparse_host_roundtrip_debug (h : MatHost) (h1 : ∀ row ∈ h, 10 ∉ row)
    (h2 : ∀ row ∈ h, row.getLast? ≠ some 13) : matHostOfStr (showMatHost h) = h :=
  tparse_lines_terminated h h1 h2

example : matHostOfStr (showMatHost [[97, 32], [], [13, 98]]) = [[97, 32], [], [13, 98]] ∧
    matHostOfStr (showMatHost [[97, 13]]) = [[97]] := by decide

theorem parseRows_none_iff (ls : List (List Nat)) :
    parseRows ls = none ↔ ∃ l ∈ ls, parseRow l = none := by
  induction ls with
  | nil => simp [parseRows]
  | cons l ls ih =>
    rw [parseRows]
    cases hl : parseRow l with
    | none => simp [hl]
    | some r => simp [hl, ih]

/-- Induction along the way `parse_row` consumes the filtered characters. -/
theorem cells_ind {motive : List Nat → Prop} (nil : motive []) (dangling : motive [36])
    (var : ∀ d cs, motive cs → motive (36 :: d :: cs))
    (dash : ∀ cs, motive cs → motive (45 :: cs))
    (lit : ∀ c cs, c ≠ 36 → c ≠ 45 → motive cs → motive (c :: cs)) : ∀ s, motive s := by
  intro s
  induction s using dollar_ind with
  | nil => exact nil
  | dangling => exact dangling
  | var d cs ih => exact var d cs ih
  | lit c cs hc ih =>
    by_cases h : c = 45
    · subst h; exact dash cs ih
    · exact lit c cs hc h ih

theorem parseCells_append {pre : List Nat} {r : List (Option CharVar)}
    (h : parseCells pre = some r) (t : List Nat) :
    parseCells (pre ++ t) = (parseCells t).map (r ++ ·) := by
  induction pre using cells_ind generalizing r with
  | nil =>
    simp [parseCells] at h; subst h
    rw [List.nil_append]
    cases parseCells t <;> simp
  | dangling => simp [parseCells_dollar_nil] at h
  | var d cs ih =>
    rw [parseCells_dollar_cons, Option.map_eq_some_iff] at h
    obtain ⟨q, hq, rfl⟩ := h
    rw [List.cons_append, List.cons_append, parseCells_dollar_cons, ih hq]
    cases parseCells t <;> simp
  | dash cs ih =>
    rw [parseCells_dash, Option.map_eq_some_iff] at h
    obtain ⟨q, hq, rfl⟩ := h
    rw [List.cons_append, parseCells_dash, ih hq]
    cases parseCells t <;> simp
  | lit c cs hc hc' ih =>
    rw [parseCells_lit _ hc hc', Option.map_eq_some_iff] at h
    obtain ⟨q, hq, rfl⟩ := h
    rw [List.cons_append, parseCells_lit _ hc hc', ih hq]
    cases parseCells t <;> simp

theorem parseCells_none_iff (s : List Nat) :
    parseCells s = none ↔ ∃ pre r, s = pre ++ [36] ∧ parseCells pre = some r := by
  constructor
  · induction s using cells_ind with
    | nil => intro h; simp [parseCells] at h
    | dangling => intro _; exact ⟨[], [], rfl, rfl⟩
    | var d cs ih =>
      intro h
      rw [parseCells_dollar_cons, Option.map_eq_none_iff] at h
      obtain ⟨pre, r, rfl, hr⟩ := ih h
      exact ⟨36 :: d :: pre, _, rfl, by rw [parseCells_dollar_cons, hr]; rfl⟩
    | dash cs ih =>
      intro h
      rw [parseCells_dash, Option.map_eq_none_iff] at h
      obtain ⟨pre, r, rfl, hr⟩ := ih h
      exact ⟨45 :: pre, _, rfl, by rw [parseCells_dash, hr]; rfl⟩
    | lit c cs hc hc' ih =>
      intro h
      rw [parseCells_lit _ hc hc', Option.map_eq_none_iff] at h
      obtain ⟨pre, r, rfl, hr⟩ := ih h
      exact ⟨c :: pre, _, rfl, by rw [parseCells_lit _ hc hc', hr]; rfl⟩
  · rintro ⟨pre, r, rfl, hr⟩
    rw [parseCells_append hr, parseCells_dollar_nil]; rfl

/-- **(a) for matrices.** `MatrixPattern::parse_str` panics iff some line, *after its whitespace
is removed*, ends in an unpaired `'$'`. So `"$ "`, `"$\n"`, `"a $ \nb"` panic, although a
character follows the `'$'`. -/
theorem tparse_mat_panics_iff (s : List Nat) :
    parseMat s = none ↔ ∃ l ∈ linesOf s, ∃ pre r,
      l.filter (fun c => !isWhitespace c) = pre ++ [36] ∧ parseCells pre = some r := by
  rw [parseMat, parseRows_none_iff]
  constructor
  · rintro ⟨l, hl, h⟩
    exact ⟨l, hl, (parseCells_none_iff _).mp h⟩
  · rintro ⟨l, hl, h⟩
    exact ⟨l, hl, (parseCells_none_iff _).mpr h⟩

example : parseMat [36, 32] = none ∧ parseMat [97, 32, 36, 32, 10, 98] = none ∧
    parseMat [97, 10, 36, 98] = some [[some (.lit 97)], [some (.var 98)]] ∧
    parseStr [36, 32] = some [.var 32] := by decide

/-! ### (d) `linesOf` is core's `split_inclusive('\n').map(LinesMap)` -/

theorem splitIncl_lf (cs : List Nat) : splitInclusiveLF (10 :: cs) = [10] :: splitInclusiveLF cs := by
  simp [splitInclusiveLF]

theorem splitIncl_other {c : Nat} (h : c ≠ 10) (cs : List Nat) :
    splitInclusiveLF (c :: cs) = match splitInclusiveLF cs with
      | [] => [[c]]
      | l :: ls => (c :: l) :: ls := by
  rw [splitInclusiveLF.eq_def]; simp only [h, if_false]; rfl

theorem splitIncl_eq_nil {cs : List Nat} (h : splitInclusiveLF cs = []) : cs = [] := by
  cases cs with
  | nil => rfl
  | cons c cs =>
    by_cases hc : c = 10
    · subst hc; rw [splitIncl_lf] at h; cases h
    · rw [splitIncl_other hc] at h
      cases hs : splitInclusiveLF cs <;> rw [hs] at h <;> cases h

theorem splitIncl_head {cs l : List Nat} {ls : List (List Nat)}
    (h : splitInclusiveLF cs = l :: ls) : l ≠ [] ∧ l.head? = cs.head? := by
  cases cs with
  | nil => simp [splitInclusiveLF] at h
  | cons c cs =>
    by_cases hc : c = 10
    · subst hc; rw [splitIncl_lf] at h
      cases h; simp
    · rw [splitIncl_other hc] at h
      cases hs : splitInclusiveLF cs <;> rw [hs] at h <;> cases h <;> simp

theorem linesMap_concat (m : List Nat) (x : Nat) :
    linesMap (m ++ [x]) =
      if x = 10 then (if m.getLast? = some 13 then m.dropLast else m) else m ++ [x] := by
  simp only [linesMap, stripSuffixChar, List.getLast?_concat, List.dropLast_concat,
    Option.some.injEq]
  by_cases hx : x = 10
  · simp only [hx, if_true]
    by_cases hm : m.getLast? = some 13 <;> simp [hm]
  · simp [hx]

theorem linesMap_cons {c : Nat} {l : List Nat} (hl : l ≠ [])
    (h : ¬(c = 13 ∧ l = [10])) : linesMap (c :: l) = c :: linesMap l := by
  rcases List.eq_nil_or_concat l with rfl | ⟨l', x, rfl⟩
  · exact absurd rfl hl
  · rw [List.concat_eq_append] at h ⊢
    rw [← List.cons_append, linesMap_concat, linesMap_concat]
    by_cases hx : x = 10
    · subst hx
      simp only [if_true]
      cases l' with
      | nil =>
        have : c ≠ 13 := fun e => h ⟨e, rfl⟩
        simp [this]
      | cons y l'' =>
        rw [List.getLast?_cons_cons, List.dropLast_cons_of_ne_nil (by simp)]
        by_cases hm : (y :: l'').getLast? = some 13 <;> simp [hm]
    · simp [hx]

/-- **(d)** The direct recursion `linesOf` is literally what core computes:
`split_inclusive('\n')`, then per piece strip one `'\n'` and — only if that succeeded — one
`'\r'`. -/
theorem tparse_lines_eq_core (s : List Nat) : linesOf s = linesOfCore s := by
  unfold linesOfCore
  induction s with
  | nil => rfl
  | cons c cs ih =>
    by_cases h1 : c = 10
    · subst h1; rw [linesOf_lf, splitIncl_lf, List.map_cons, ← ih]; rfl
    · rw [splitIncl_other h1]
      cases hs : splitInclusiveLF cs with
      | nil =>
        have := splitIncl_eq_nil hs; subst this
        have : linesMap [c] = [c] := by
          have := linesMap_concat [] c
          simpa [h1] using this
        simp [linesOf, h1, this]
      | cons l ls =>
        obtain ⟨hne, hhead⟩ := splitIncl_head hs
        rw [hs, List.map_cons] at ih
        by_cases h2 : c = 13 ∧ cs.head? = some 10
        · obtain ⟨rfl, hh⟩ := h2
          cases cs with
          | nil => simp at hh
          | cons d cs' =>
            simp only [List.head?_cons, Option.some.injEq] at hh; subst hh
            rw [splitIncl_lf] at hs
            cases hs
            rw [linesOf_crlf, linesOf_lf] at *
            simp only [List.map_cons]
            rw [ih]; rfl
        · rw [linesOf_other h1 h2, ih]
          have hcond : ¬(c = 13 ∧ l = [10]) := by
            rintro ⟨hc, rfl⟩
            exact h2 ⟨hc, by rw [← hhead]; rfl⟩
          simp only [List.map_cons]
          rw [linesMap_cons hne hcond]

example : linesOfCore [97, 13, 10, 13, 98, 13] = [[97], [13, 98, 13]] ∧
    splitInclusiveLF [97, 13, 10, 13, 98, 13] = [[97, 13, 10], [13, 98, 13]] := by decide

/-! ### (a), closed form: an odd number of trailing `'$'` -/

theorem parseStr_replicate_even (k : Nat) :
    parseStr (List.replicate (2 * k) 36) = some (List.replicate k (CharVar.var 36)) := by
  induction k with
  | zero => rfl
  | succ k ih =>
    have : 2 * (k + 1) = (2 * k + 1) + 1 := by omega
    rw [this, List.replicate_succ, List.replicate_succ, parseStr_dollar_cons, ih]; rfl

theorem parseStr_replicate_odd (k : Nat) : parseStr (List.replicate (2 * k + 1) 36) = none := by
  induction k with
  | zero => exact parseStr_dollar_nil
  | succ k ih =>
    have : 2 * (k + 1) + 1 = ((2 * k + 1) + 1) + 1 := by omega
    rw [this, List.replicate_succ, List.replicate_succ, parseStr_dollar_cons, ih]; rfl

/-- Every string is a part that does not end in `'$'`, followed by a run of `'$'`. -/
theorem trailing_dollars_decomp (s : List Nat) :
    ∃ pre n, s = pre ++ List.replicate n 36 ∧ pre.getLast? ≠ some 36 := by
  induction s with
  | nil => exact ⟨[], 0, rfl, by simp⟩
  | cons c cs ih =>
    obtain ⟨pre, n, rfl, hp⟩ := ih
    cases pre with
    | nil =>
      by_cases hc : c = 36
      · subst hc; exact ⟨[], n + 1, by simp [List.replicate_succ], by simp⟩
      · exact ⟨[c], n, rfl, by simpa using hc⟩
    | cons d pre => exact ⟨c :: d :: pre, n, rfl, by rwa [List.getLast?_cons_cons]⟩

theorem parseStr_isSome_of_not_ends_dollar {pre : List Nat} (h : pre.getLast? ≠ some 36) :
    ∃ p, parseStr pre = some p := by
  cases hp : parseStr pre with
  | some p => exact ⟨p, rfl⟩
  | none =>
    obtain ⟨pre', _, rfl, _⟩ := (tparse_str_panics_iff pre).mp hp
    exact absurd List.getLast?_concat h

/-- **(a), closed form.** `parse_str` panics iff the input ends in an *odd* number of `'$'`:
`"$"`, `"a$"`, `"$$$"` panic; `"$$"`, `"a$$"` are the variable named `'$'`. -/
theorem tparse_str_panics_iff_odd_dollars (s : List Nat) :
    parseStr s = none ↔
      ∃ pre k, s = pre ++ List.replicate (2 * k + 1) 36 ∧ pre.getLast? ≠ some 36 := by
  constructor
  · intro h
    obtain ⟨pre, n, rfl, hp⟩ := trailing_dollars_decomp s
    obtain ⟨p, hpp⟩ := parseStr_isSome_of_not_ends_dollar hp
    rw [parseStr_append hpp, Option.map_eq_none_iff] at h
    have hn : n = 2 * (n / 2) ∨ n = 2 * (n / 2) + 1 := by omega
    rcases hn with hn | hn
    · rw [hn, parseStr_replicate_even] at h; cases h
    · exact ⟨pre, n / 2, by rw [← hn], hp⟩
  · rintro ⟨pre, k, rfl, hp⟩
    obtain ⟨p, hpp⟩ := parseStr_isSome_of_not_ends_dollar hp
    rw [parseStr_append hpp, parseStr_replicate_odd]; rfl

example : parseStr [97, 36, 36, 36] = none ∧ [97, 36, 36, 36] = [97] ++ List.replicate (2 * 1 + 1) 36 ∧
    parseStr [97, 36, 36] = some [.lit 97, .var 36] := by decide

end Pm

section AxiomAudit
open Pm
#print axioms tparse_str_panics_iff
#print axioms tparse_str_panics_iff_odd_dollars
#print axioms tparse_str_roundtrip
#print axioms tparse_str_show_of_parse
#print axioms tparse_str_roundtrip_iff
#print axioms tparse_str_length_le
#print axioms tparse_str_length_eq
#print axioms tparse_str_lit_mem
#print axioms tparse_str_var_mem
#print axioms tparse_row_ignores_whitespace
#print axioms tparse_row_drop_whitespace
#print axioms tparse_lines_no_lf
#print axioms tparse_lines_terminated
#print axioms tparse_lines_join_strong
#print axioms tparse_lines_join
#print axioms tparse_lines_eq_core
#print axioms tparse_mat_roundtrip_debug
#print axioms tparse_mat_roundtrip_join
#print axioms tparse_host_roundtrip_debug
#print axioms tparse_mat_panics_iff
end AxiomAudit
